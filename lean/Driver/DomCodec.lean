import DiffxVerif.Model.Dom
import Driver.Codec
/-!
# Wire format of object-model trees (flat `;`-separated, count driven)

    X;<opts>;<pre opts>;<pre val>;<meta opts>;<meta val>;<nchanges>
      { ;<opts>;<pre opts>;<pre val>;<meta opts>;<meta val>;<nfiles>
          { ;<opts>;<meta opts>;<meta val>;<diff opts>;<diff val> } }

opts: `-` (empty) or `hexkey=pyval&hexkey=pyval…`;
pyval: `~` `t…` `x…` `i<int>` `T` `F` `j<json>` `o`
-/
namespace Driver
open Diffx Diffx.Dom

def encPy : PyVal → String
  | .none => "~"
  | .str t => encText t
  | .bytes b => encBytes b
  | .int n => s!"i{n}"
  | .bool true => "T"
  | .bool false => "F"
  | .dict j => "j" ++ encJson j
  | .other => "o"

def decPy (s : String) : Option PyVal :=
  match s.toList with
  | ['~'] => some .none
  | ['T'] => some (.bool true)
  | ['F'] => some (.bool false)
  | ['o'] => some .other
  | 't' :: _ => (decText s).map .str
  | 'x' :: _ => (decBytes s).map .bytes
  | 'i' :: r => (parseInt (String.ofList r)).map .int
  | 'j' :: r => (decJson (String.ofList r)).map .dict
  | _ => none

def encOpts (o : DOpts) : String :=
  if o.isEmpty then "-" else "&".intercalate (o.map fun (k, v) => String.ofList (hexL k) ++ "=" ++ encPy v)

def decOpts (s : String) : Option DOpts :=
  if s == "-" then some [] else
  (s.splitOn "&").mapM fun p =>
    match p.splitOn "=" with
    | [k, v] => do pure ((← unhexL k.toList), (← decPy v))
    | _ => none

def encTree (t : Tree) : String :=
  let cs (c : ContentSec) : List String := [encOpts c.opts, encPy c.content]
  let file (f : FileSec) : List String := [encOpts f.opts] ++ cs f.metaSec ++ cs f.diff
  let change (c : ChangeSec) : List String :=
    [encOpts c.opts] ++ cs c.preamble ++ cs c.metaSec ++ [toString c.files.length] ++ c.files.flatMap file
  ";".intercalate (["X", encOpts t.opts] ++ cs t.preamble ++ cs t.metaSec ++ [toString t.changes.length] ++
    t.changes.flatMap change)

def decContent (k : Kind) : List String → Option (ContentSec × List String)
  | o :: v :: r => do pure (⟨k, ← decOpts o, ← decPy v⟩, r)
  | _ => none

def decFiles : Nat → List String → Option (List FileSec × List String)
  | 0, r => some ([], r)
  | n+1, o :: r => do
    let opts ← decOpts o
    let (m, r) ← decContent .metadata r
    let (d, r) ← decContent .diff r
    let (fs, r) ← decFiles n r
    pure (⟨opts, m, d⟩ :: fs, r)
  | _, _ => none

def decChanges : Nat → List String → Option (List ChangeSec × List String)
  | 0, r => some ([], r)
  | n+1, o :: r => do
    let opts ← decOpts o
    let (p, r) ← decContent .preamble r
    let (m, r) ← decContent .metadata r
    match r with
    | nf :: r =>
      let (fs, r) ← decFiles (← nf.toNat?) r
      let (cs, r) ← decChanges n r
      pure (⟨opts, p, m, fs⟩ :: cs, r)
    | [] => none
  | _, _ => none

def decTree (s : String) : Option Tree :=
  match s.splitOn ";" with
  | "X" :: o :: r => do
    let opts ← decOpts o
    let (p, r) ← decContent .preamble r
    let (m, r) ← decContent .metadata r
    match r with
    | nc :: r =>
      let (cs, r) ← decChanges (← nc.toNat?) r
      if r.isEmpty then pure ⟨opts, p, m, cs⟩ else none
    | [] => none
  | _ => none

end Driver
