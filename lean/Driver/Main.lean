import DiffxVerif.Model.Codecs
import DiffxVerif.Model.JsonText
import DiffxVerif.Spec.Document
import DiffxVerif.Model.Split
import DiffxVerif.Model.Hunks
import DiffxVerif.Model.Reader
import DiffxVerif.Model.Writer
import DiffxVerif.Model.Lexer
import DiffxVerif.Model.Heap
import Driver.Codec
import Driver.DomCodec
import Std.Data.HashMap
/-!
# Line-protocol driver: runs the model's executable definitions

One request per line on stdin: `<op> <args…> [| k v k v …]` (the part after `|`
is the table of environment answers supplied by the harness).  One response
line per request: `R …` (result) or `Q <key>` (an environment answer is
missing; the harness computes it with CPython and re-sends the request).

This file imports only `Model/*` — never `Generated`, `Lemmas` or Mathlib — so
it keeps running when a proof or tie obligation no longer compiles.
-/
open Diffx Driver

abbrev Table := Std.HashMap String String

def mkEnv (tbl : Table) : Env :=
  let look {α} (key : String) (dec : String → Option α) : EnvR α :=
    match tbl.get? key with
    | none => .missing key
    | some v =>
      if v == "err" then .err
      else match (if v.startsWith "ok/" then dec (v.drop 3).toString else none) with
        | some a => .ok a
        | none => .missing ("BAD-ANSWER " ++ key)
  { canon := fun n => look ("canon/" ++ encText n) decText
    encode := fun n t => look ("enc/" ++ encText n ++ "/" ++ encText t) decBytes
    decode := fun n b => look ("dec/" ++ encText n ++ "/" ++ encBytes b) decText
    loadsText := fun t => look ("loadst/" ++ encText t) decJson
    loadsBytes := fun b => look ("loadsb/" ++ encBytes b) decJson
    dumps := fun j => look ("dumps/" ++ encJson j) decText }

def defaultCfg : Config :=
  { chunk := 96, boms := [], defaultIndent := 4, defaultEncoding := Text.ofAscii b!"utf-8" }

/-- `cfg <chunk> <indent> <enc text> <nboms> {<name text> <n> <x…>…}` -/
def parseCfg (args : List String) : Option Config := do
  match args with
  | c :: i :: e :: n :: rest =>
    let chunk ← c.toNat?
    let ind ← i.toNat?
    let enc ← decText e
    let nb ← n.toNat?
    let rec rows : Nat → List String → Option (List (Name × List Bytes))
      | 0, _ => some []
      | k+1, name :: cnt :: r => do
        let nm ← decText name
        let m ← cnt.toNat?
        let bs ← (r.take m).mapM decBytes
        let more ← rows k (r.drop m)
        pure ((nm, bs) :: more)
      | _, _ => none
    let boms ← rows nb rest
    pure { chunk := chunk, boms := boms, defaultIndent := ind, defaultEncoding := enc }
  | _ => none

def showOptVal : OptVal → String
  | .int n => s!"i{n}"
  | .str s => "s" ++ String.ofList (hexL s)

def showOpts (o : Opts) : String :=
  let items := o.map (fun (k, v) => (String.ofList (hexL k), showOptVal v))
  let sorted := items.toArray.qsort (fun a b => a.1 < b.1)
  ",".intercalate (sorted.toList.map fun (k, v) => k ++ "=" ++ v)

def showSec (s : SecId) : String := s!"{s.level}." ++ String.ofList (s.name.bytes.map (fun b => Char.ofNat b.toNat))

def showContent : Reader.Content → String
  | .container => "c"
  | .text t => encText t
  | .textBytes b => "b" ++ String.ofList (hexL b)
  | .metadata j => "m" ++ encJson j
  | .diff b => "d" ++ String.ofList (hexL b)

def showRecord (r : Reader.Record) : String :=
  ";".intercalate [showSec r.sec, toString r.line, showOpts r.opts, showContent r.content]

def showOptNat : Option Nat → String
  | none => "~"
  | some n => toString n

def opRead (cfg : Config) (tbl : Table) (args : List String) : String :=
  match args with
  | [c, d] =>
    match c.toNat?, decBytes d with
    | some chunk, some data =>
      let (rs, o) := Reader.readAll (mkEnv tbl) cfg chunk data
      match o with
      | .needEnv q => "Q " ++ q
      | _ =>
        let os := match o with
          | .done => "done"
          | .parseError l c => s!"perr:{l}:{showOptNat c}"
          | .assertion => "assert"
          | .outOfFuel => "fuel"
          | .needEnv _ => "?"
        " ".intercalate (["R", os, toString rs.length] ++ rs.map showRecord)
    | _, _ => "E bad-args"
  | _ => "E bad-args"

/-- a section of a specification document: `level.name;k:v,k:v|-;line,line|-;content|-`
(keys, values, blank lines and content as hex) -/
def decSpecSec (tok : String) : Option Spec.Sec :=
  match tok.splitOn ";" with
  | [sid, opts, blank, content] => do
    let id ← match sid.splitOn "." with
      | [l, n] => do
        let lv ← l.toNat?
        let nm ← SecName.all.find? (fun x => String.ofList (x.bytes.map (fun b => Char.ofNat b.toNat)) == n)
        pure (⟨lv, nm⟩ : SecId)
      | _ => none
    let os ← if opts == "-" then some [] else
      (opts.splitOn ",").mapM fun p => match p.splitOn ":" with
        | [k, v] => do pure ((← unhexL k.toList), (← unhexL v.toList))
        | _ => none
    let bl ← if blank == "-" then some [] else (blank.splitOn ",").mapM fun l => unhexL l.toList
    let c ← if content == "-" then some [] else unhexL content.toList
    pure { id := id, opts := os, blank := bl, content := c }
  | _ => none

/-- `specread <chunk> <crlf> <section>…` : the file `Spec.render` gives for the document, what
the reader model reads from it, and `Spec.reading` of the document (C03_file says they agree
for well-formed documents).  Environment answers are requested through the reader model. -/
def opSpecRead (cfg : Config) (tbl : Table) (args : List String) : String :=
  match args with
  | c :: crlf :: secs =>
    match c.toNat?, secs.mapM decSpecSec with
    | some chunk, some doc =>
      let env := mkEnv tbl
      let data := Spec.render (crlf == "1") doc
      let (rs, o) := Reader.readAll env cfg chunk data
      match o with
      | .needEnv q => "Q " ++ q
      | _ =>
        let os := match o with
          | .done => "done"
          | .parseError l c => s!"perr:{l}:{showOptNat c}"
          | .assertion => "assert"
          | .outOfFuel => "fuel"
          | .needEnv _ => "?"
        let sp := Spec.reading env cfg doc
        " ".intercalate (["R", encBytes data, "|", os, toString rs.length] ++ rs.map showRecord ++
          ["|", "done", toString sp.length] ++ sp.map showRecord)
    | _, _ => "E bad-args"
  | _ => "E bad-args"

/-- `codec <name> n|e|d <payload>` : the concrete Lean codecs of `Model/Codecs.lean`
(`canon`, `encode`, `decode` of `Codecs.env`), to be compared with CPython -/
def opCodec (args : List String) : String :=
  let env := Codecs.env (fun _ => .err) (fun _ => .err) (fun _ => .err)
  let showR {α} (f : α → String) : EnvR α → String
    | .ok a => "R ok " ++ f a
    | .err => "R err"
    | .missing q => "Q " ++ q
  match args with
  | [n, "n"] => match decText n with
    | some name => showR encText (env.canon name)
    | none => "E bad-args"
  | [n, "e", t] => match decText n, decText t with
    | some name, some text => showR encBytes (env.encode name text)
    | _, _ => "E bad-args"
  | [n, "d", b] => match decText n, decBytes b with
    | some name, some data => showR encText (env.decode name data)
    | _, _ => "E bad-args"
  | _ => "E bad-args"

/-- `json d <json>` : `JsonText.dumps`; `json l <text>` : `JsonText.loads` (the Lean model of the
two `json` functions, compared with CPython by the harness) -/
def opJson (args : List String) : String :=
  match args with
  | ["d", j] => match decJson j with
    | some v => (match JsonText.dumps v with
      | .ok t => "R ok " ++ encText t
      | _ => "R err")
    | none => "E bad-args"
  | ["l", t] => match decText t with
    | some text => (match JsonText.loads text with
      | .ok v => "R ok " ++ encJson v
      | _ => "R err")
    | none => "E bad-args"
  | _ => "E bad-args"

def opUntil (args : List String) : String :=
  match args with
  | [c, d] =>
    match c.toNat?, decBytes d with
    | some chunk, some data =>
      let (line, eof, rest) := Reader.readUntil chunk 10 data
      s!"R {encBytes line} {if eof then 1 else 0} {rest.length}"
    | _, _ => "E bad-args"
  | _ => "E bad-args"

def showNl (r : Reader.M Bytes) : String :=
  match r with
  | .ok b => "R " ++ encBytes b
  | .error (.needEnv q) => "Q " ++ q
  | .error _ => "R err"

/-- `nlfor <enc|~> <dos>` : `get_newline_for_type` -/
def opNlFor (cfg : Config) (tbl : Table) (args : List String) : String :=
  match args with
  | [e, d] =>
    match decOptText e with
    | some enc => showNl (Reader.newlineFor (mkEnv tbl) cfg 0 (d == "1") enc)
    | none => "E bad-args"
  | _ => "E bad-args"

/-- `guess <enc|~> <data>` : `guess_line_endings` on bytes -/
def opGuess (cfg : Config) (tbl : Table) (args : List String) : String :=
  match args with
  | [e, d] =>
    match decOptText e, decBytes d with
    | some enc, some data =>
      match Reader.guessLineEndings (mkEnv tbl) cfg 0 data enc with
      | .ok (dos, nl) => s!"R {if dos then 1 else 0} {encBytes nl}"
      | .error (.needEnv q) => "Q " ++ q
      | .error _ => "R err"
    | _, _ => "E bad-args"
  | _ => "E bad-args"

def opSplit (args : List String) : String :=
  match args with
  | [k, nl, d] =>
    match decBytes nl, decBytes d with
    | some nl, some d =>
      if nl.isEmpty || d.isEmpty then "R assert"
      else " ".intercalate ("R" :: (splitLines d nl (k == "1")).map encBytes)
    | _, _ => "E bad-args"
  | _ => "E bad-args"

def showOptInt : Option Int → String
  | none => "~"
  | some n => toString n
def showOptBytes : Option Bytes → String
  | none => "~"
  | some b => encBytes b

def showSide (s : Hunks.Side) : String :=
  s!"{s.start},{s.numLines},{s.changed},{showOptInt s.first},{showOptInt s.last}"

def showHunk (h : Hunks.Hunk) : String :=
  ";".intercalate [showOptBytes h.context, showSide h.orig, showSide h.modified, toString h.pre, toString h.post]

def opHunks (args : List String) : String :=
  match args with
  | ig :: n :: rest =>
    match n.toNat?, rest.mapM decBytes with
    | some k, some lines =>
      if k != lines.length then "E bad-count" else
      match Hunks.parse lines (ig == "1") with
      | .ok r =>
        " ".intercalate (["R", "ok", toString r.processed, toString r.deletes, toString r.inserts,
                          toString r.hunks.length] ++ r.hunks.map showHunk)
      | .malformed ln line kind =>
        s!"R mal {ln} {encBytes line} {match kind with | .malformed => "m" | .prematureEnd => "e"}"
    | _, _ => "E bad-args"
  | _ => "E bad-args"

/-! ### writer -/

def decArg (s : String) : Option Writer.Arg :=
  match s.toList with
  | 't' :: _ => (decText s).map .str
  | 'x' :: _ => (decBytes s).map .bytes
  | 'j' :: r => (decJson (String.ofList r)).map .dict
  | ['o'] => some .other
  | _ => none

def decOptInt (s : String) : Option (Option Int) :=
  if s == "~" then some none else (parseInt s).map some

def decCall (s : String) : Option Writer.Call :=
  match s.splitOn ":" with
  | ["C", e] => do pure (.newChange (← decOptText e))
  | ["F", e] => do pure (.newFile (← decOptText e))
  | ["P", a, e, i, le, m] => do
    pure (.preamble (← decArg a) (← decOptText e) (← decOptInt i) (← decOptText le) (← decOptText m))
  | ["M", a, e, f] => do pure (.metadata (← decArg a) (← decOptText e) (← decText f))
  | ["D", a, t, e, le] => do pure (.diff (← decArg a) (← decOptText t) (← decOptText e) (← decOptText le))
  | _ => none

def showResult : Writer.CallResult → String
  | .ok => "ok" | .orderError => "order" | .contentError => "content"
  | .optionError => "option" | .otherError => "other" | .needEnv _ => "need"

def showWState (st : Writer.St) : String :=
  let stack := ",".intercalate (st.stack.map encOptText)
  let prev := match st.prev with | none => "~" | some s => showSec s
  s!"{st.out.length}/{stack}/{prev}"

def opWrite (cfg : Config) (tbl : Table) (args : List String) : String :=
  match args with
  | e :: v :: n :: rest =>
    match decOptText e, decText v, n.toNat?, rest.mapM decCall with
    | some enc, some ver, some k, some calls =>
      if k != calls.length then "E bad-count" else
      let env := mkEnv tbl
      let (st0, r0) := Writer.init enc ver
      let first := showResult r0 ++ "/" ++ showWState st0
      if r0 != .ok then s!"R {showResult r0}/0//~ out={encBytes st0.out}" else
      let rec go (st : Writer.St) (cs : List Writer.Call) (acc : List String) : String :=
        match cs with
        | [] => " ".intercalate (["R"] ++ acc.reverse ++ ["out=" ++ encBytes st.out])
        | c :: cs =>
          let (st', r) := Writer.step env cfg st c
          match r with
          | .needEnv q => "Q " ++ q
          | _ => go st' cs ((showResult r ++ "/" ++ showWState st') :: acc)
      go st0 calls [first]
    | _, _, _, _ => "E bad-args"
  | _ => "E bad-args"

/-! ### lexer -/

def opaqueSubs : Lexer.Subs :=
  { json := fun s => if s.isEmpty then [] else [⟨0, .other, s⟩]
    diff := fun s => if s.isEmpty then [] else [⟨0, .other, s⟩] }

def showKind : Lexer.Kind → String
  | .tag => "T" | .attr => "A" | .comment => "C" | .error => "E" | .keyword => "K" | .number => "N" | .other => "o"

/-- consecutive `other` tokens are merged (only the DiffX rule table is compared) -/
def mergeOther : List Lexer.Tok → List Lexer.Tok
  | a :: b :: r =>
    if a.kind == .other && b.kind == .other && a.pos + a.val.length == b.pos then
      mergeOther ({ a with val := a.val ++ b.val } :: r)
    else a :: mergeOther (b :: r)
  | l => l
termination_by l => l.length

/-- `lex <text>` -/
def opLex (args : List String) : String :=
  match args with
  | [t] =>
    match decText t with
    | some text =>
      let toks := mergeOther (Lexer.lex opaqueSubs text)
      " ".intercalate ("R" :: toks.map fun k => s!"{k.pos}:{showKind k.kind}:{textBody k.val}")
    | none => "E bad-args"
  | _ => "E bad-args"

/-! ### heap (C18) -/

def decPath (s : String) : Option Heap.Path :=
  if s == "m" then some .main else
  match (s.drop 1).toString.splitOn "f" with
  | [ci] => ci.toNat?.map .change
  | [ci, fj] => do pure (.file (← ci.toNat?) (← fj.toNat?))
  | _ => none

/-- ops: `N` | `C<t>` | `F<t>.<i>` | `M<t>.<path>.<k>` | `P<t>` | `O<t>` | `X<t>.<path>.<o|c|x>` -/
def decHeapOp (s : String) : Option Heap.Op :=
  match s.toList with
  | ['N'] => some .newTree
  | 'C' :: r => (String.ofList r).toNat?.map .addChange
  | 'F' :: r => match (String.ofList r).splitOn "." with
    | [t, i] => do pure (.addFile (← t.toNat?) (← i.toNat?))
    | _ => none
  | 'M' :: r => match (String.ofList r).splitOn "." with
    | [t, p, k] => do pure (.setMeta (← t.toNat?) (← decPath p) (← k.toNat?))
    | _ => none
  | 'P' :: r => (String.ofList r).toNat?.map .parse
  | 'O' :: r => (String.ofList r).toNat?.map .observe
  | 'X' :: r => match (String.ofList r).splitOn "." with
    | [t, p, sl] => do
      let slot ← (if sl == "o" then some Heap.Slot.options else if sl == "c" then some .metaContent
                  else if sl == "x" then some .metaOptions else none)
      pure (.mutate (← t.toNat?) (← decPath p) slot)
    | _ => none
  | _ => none

/-- `heap <op>…` → per tree the cell of every slot, and the version of every cell -/
def opHeap (args : List String) : String :=
  match args.mapM decHeapOp with
  | some ops =>
    let s := Heap.run ops
    let ver (c : Nat) : Nat := (s.versions.lookup c).getD 0
    let trees := s.trees.map fun t => ",".intercalate ((Heap.treeCells t).map fun c => s!"{c}v{ver c}")
    " ".intercalate ("R" :: trees)
  | none => "E bad-args"

/-! ### object model -/

def writerVersion : Text := Text.ofAscii b!"1.0"

def showWErr : Dom.WErr → String
  | .typeError => "err:TypeError"
  | .writer r => "err:" ++ showResult r

def opDomWrite (cfg : Config) (tbl : Table) (args : List String) : String :=
  match args with
  | [t] =>
    match decTree t with
    | some tree =>
      match Dom.toBytes (mkEnv tbl) cfg writerVersion tree with
      | .ok b => "R ok " ++ encBytes b
      | .error (.writer (.needEnv q)) => "Q " ++ q
      | .error e => "R " ++ showWErr e
    | none => "E bad-tree"
  | _ => "E bad-args"

def opDomRead (cfg : Config) (tbl : Table) (args : List String) : String :=
  match args with
  | [d] =>
    match decBytes d with
    | some data =>
      match Dom.fromBytes (mkEnv tbl) cfg writerVersion data with
      | .ok t => "R ok " ++ encTree t
      | .error (.needEnv q) => "Q " ++ q
      | .error (.parse l c) => s!"R perr:{l}:{showOptNat c}"
      | .error .library => "R lib"
      | .error .typeError => "R TypeError"
      | .error .readerOther => "R other"
    | none => "E bad-args"
  | _ => "E bad-args"

def opDomStats (cfg : Config) (tbl : Table) (args : List String) : String :=
  match args with
  | [t] =>
    match decTree t with
    | some tree =>
      match Dom.Tree.genStats (mkEnv tbl) cfg tree with
      | .ok t' => "R ok " ++ encTree t'
      | .error (.needEnv q) => "Q " ++ q
      | .error .raised => "R raised"
    | none => "E bad-tree"
  | _ => "E bad-args"

def showSetErr : Dom.SetErr → String
  | .optionType => "optionType" | .optionChoice => "optionChoice"
  | .contentType => "contentType" | .unknown => "unknown"

/-- `domset <tree> <path> <hexname> <pyval>`; path `m` | `c<i>` | `c<i>f<j>` -/
def opDomSet (args : List String) : String :=
  match args with
  | [t, path, name, v] =>
    match decTree t, unhexL name.toList, decPy v with
    | some tree, some nm, some val =>
      let res : Option (Except Dom.SetErr Dom.Tree) :=
        if path == "m" then some (tree.setAttr nm val)
        else match (path.drop 1).toString.splitOn "f" with
          | [ci] => do
            let i ← ci.toNat?
            let c ← tree.changes[i]?
            pure ((c.setAttr nm val).map fun c' => { tree with changes := tree.changes.set i c' })
          | [ci, fi] => do
            let i ← ci.toNat?
            let j ← fi.toNat?
            let c ← tree.changes[i]?
            let f ← c.files[j]?
            pure ((f.setAttr nm val).map fun f' =>
              { tree with changes := tree.changes.set i { c with files := c.files.set j f' } })
          | _ => none
      match res with
      | some (.ok t') => "R ok " ++ encTree t'
      | some (.error e) => "R err:" ++ showSetErr e ++ " " ++ encTree tree
      | none => "E bad-path"
    | _, _, _ => "E bad-args"
  | _ => "E bad-args"

def opDomEq (args : List String) : String :=
  match args with
  | [a, b] =>
    match decTree a, decTree b with
    | some x, some y => if x.pyEq y then "R 1" else "R 0"
    | _, _ => "E bad-tree"
  | _ => "E bad-args"

def parseTable : List String → Table → Table
  | k :: v :: r, t => parseTable r (t.insert k v)
  | _, t => t

structure DState where
  cfg : Config
  tbl : Table
  /-- requests kept for re-execution once their environment answers arrive -/
  kept : Std.HashMap String String := {}

def runOp (s : DState) (toks : List String) : String :=
  match toks with
  | "split" :: args => opSplit args
  | "hunks" :: args => opHunks args
  | "until" :: args => opUntil args
  | "nlfor" :: args => opNlFor s.cfg s.tbl args
  | "guess" :: args => opGuess s.cfg s.tbl args
  | "read" :: args => opRead s.cfg s.tbl args
  | "specread" :: args => opSpecRead s.cfg s.tbl args
  | "codec" :: args => opCodec args
  | "json" :: args => opJson args
  | "write" :: args => opWrite s.cfg s.tbl args
  | "lex" :: args => opLex args
  | "heap" :: args => opHeap args
  | "domwrite" :: args => opDomWrite s.cfg s.tbl args
  | "domread" :: args => opDomRead s.cfg s.tbl args
  | "domstats" :: args => opDomStats s.cfg s.tbl args
  | "domset" :: args => opDomSet args
  | "domeq" :: args => opDomEq args
  | _ => "E bad-op"

/-- `env k v k v …` adds environment answers (kept for later requests);
`envclear` forgets them.  `@id op args…` runs a request and keeps it when it
needs an environment answer; `!id` re-runs a kept request. -/
def handle (s : DState) (line : String) : DState × String :=
  let toks := (line.trimAscii.toString.splitOn " ").filter (· ≠ "")
  match toks with
  | "cfg" :: args =>
    match parseCfg args with
    | some c => ({ s with cfg := c }, "R ok")
    | none => (s, "E bad-cfg")
  | "env" :: kvs => ({ s with tbl := parseTable kvs s.tbl }, "R ok")
  | ["envclear"] => ({ s with tbl := {}, kept := {} }, "R ok")
  | t :: rest =>
    if t.startsWith "@" then
      let r := runOp s rest
      if r.startsWith "Q " then ({ s with kept := s.kept.insert (t.drop 1).toString (" ".intercalate rest) }, r)
      else (s, r)
    else if t.startsWith "!" then
      let id := (t.drop 1).toString
      match s.kept.get? id with
      | none => (s, "E unknown-id")
      | some l =>
        let r := runOp s ((l.splitOn " ").filter (· ≠ ""))
        if r.startsWith "Q " then (s, r) else ({ s with kept := s.kept.erase id }, r)
    else (s, runOp s toks)
  | [] => (s, "E bad-op")

partial def loop (h out : IO.FS.Stream) (s : DState) : IO Unit := do
  let line ← h.getLine
  if line.isEmpty then return ()
  let (s', resp) := handle s line
  out.putStrLn resp
  out.flush
  loop h out s'

def main : IO Unit := do loop (← IO.getStdin) (← IO.getStdout) { cfg := defaultCfg, tbl := {} }
