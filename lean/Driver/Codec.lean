import DiffxVerif.Model.Env
/-!
# Line-protocol tokens (shared by every driver op)

* bytes  : `x` + lower-case hex            (`x` = empty)
* text   : `t` + code points in hex joined by `.`   (`t` = empty)
* none   : `~`
* JSON   : comma-separated preorder tokens
           `N` `T` `F` `I<int>` `D<hex repr>` `S<text cps>` `A<n>` `O<n>`
-/
namespace Driver
open Diffx

def hexVal (c : Char) : Option Nat :=
  if '0' ≤ c ∧ c ≤ '9' then some (c.toNat - '0'.toNat)
  else if 'a' ≤ c ∧ c ≤ 'f' then some (c.toNat - 'a'.toNat + 10) else none

def unhexL : List Char → Option Bytes
  | [] => some []
  | a :: b :: r => do
    let x ← hexVal a; let y ← hexVal b; let t ← unhexL r
    pure ((x * 16 + y).toUInt8 :: t)
  | _ => none

def hexDigit (n : Nat) : Char := if n < 10 then Char.ofNat (48 + n) else Char.ofNat (87 + n)
def hexL (b : Bytes) : List Char := b.flatMap fun x => [hexDigit (x.toNat / 16), hexDigit (x.toNat % 16)]

def natHexL (n : Nat) : List Char :=
  if n < 16 then [hexDigit n] else natHexL (n / 16) ++ [hexDigit (n % 16)]

def parseHexNat (s : List Char) : Option Nat :=
  if s.isEmpty then none else s.foldlM (fun a c => do let v ← hexVal c; pure (a * 16 + v)) 0

/-- `x…` -/
def encBytes (b : Bytes) : String := String.ofList ('x' :: hexL b)
def decBytes (s : String) : Option Bytes :=
  match s.toList with
  | 'x' :: r => unhexL r
  | _ => none

def textBody (t : Text) : String := ".".intercalate (t.map fun c => String.ofList (natHexL c))
def parseTextBody (s : String) : Option Text :=
  if s.isEmpty then some [] else (s.splitOn ".").mapM (fun p => parseHexNat p.toList)

/-- `t…` -/
def encText (t : Text) : String := "t" ++ textBody t
def decText (s : String) : Option Text :=
  match s.toList with
  | 't' :: r => parseTextBody (String.ofList r)
  | _ => none

def encOptText : Option Text → String
  | none => "~"
  | some t => encText t
def decOptText (s : String) : Option (Option Text) :=
  if s == "~" then some none else (decText s).map some

def parseInt (s : String) : Option Int :=
  match s.toList with
  | '-' :: r => (String.ofList r).toNat?.map (fun n => - (n : Int))
  | _ => s.toNat?.map (fun n => (n : Int))

/-! ## JSON wire format -/

partial def encJsonToks : Json → List String
  | .null => ["N"]
  | .bool true => ["T"]
  | .bool false => ["F"]
  | .int n => [s!"I{n}"]
  | .float r => ["D" ++ String.ofList (hexL r)]
  | .str s => ["S" ++ textBody s]
  | .arr l => s!"A{l.length}" :: l.flatMap encJsonToks
  | .obj l => s!"O{l.length}" :: l.flatMap (fun (k, v) => ("S" ++ textBody k) :: encJsonToks v)

def encJson (j : Json) : String := ",".intercalate (encJsonToks j)

mutual
partial def decJsonVal : List String → Option (Json × List String)
  | [] => none
  | tok :: rest =>
    match tok.toList with
    | ['N'] => some (.null, rest)
    | ['T'] => some (.bool true, rest)
    | ['F'] => some (.bool false, rest)
    | 'I' :: r => (parseInt (String.ofList r)).map (fun n => (.int n, rest))
    | 'D' :: r => (unhexL r).map (fun b => (.float b, rest))
    | 'S' :: r => (parseTextBody (String.ofList r)).map (fun t => (.str t, rest))
    | 'A' :: r => do
      let n ← (String.ofList r).toNat?
      let (items, rest) ← decJsonList n rest
      pure (.arr items, rest)
    | 'O' :: r => do
      let n ← (String.ofList r).toNat?
      let (items, rest) ← decJsonObj n rest
      pure (.obj items, rest)
    | _ => none
partial def decJsonList : Nat → List String → Option (List Json × List String)
  | 0, rest => some ([], rest)
  | n+1, rest => do
    let (v, rest) ← decJsonVal rest
    let (vs, rest) ← decJsonList n rest
    pure (v :: vs, rest)
partial def decJsonObj : Nat → List String → Option (List (Text × Json) × List String)
  | 0, rest => some ([], rest)
  | n+1, rest => do
    match rest with
    | [] => none
    | k :: rest =>
      let key ← match k.toList with
        | 'S' :: r => parseTextBody (String.ofList r)
        | _ => none
      let (v, rest) ← decJsonVal rest
      let (vs, rest) ← decJsonObj n rest
      pure ((key, v) :: vs, rest)
end

def decJson (s : String) : Option Json :=
  match decJsonVal (s.splitOn ",") with
  | some (j, []) => some j
  | _ => none

end Driver
