import DiffxVerif.Properties.C01Closed
import DiffxVerif.Properties.C02Doc
import DiffxVerif.Properties.C20Writer
/-!
# C02 / C20 over the closed environment

`C02_conforms`, `C02_read_back` (Properties/C02Doc.lean) and `C20_writer_file`
(Properties/C20Writer.lean) take the `ProgramLaws` of a program — laws about the environment at
the values the program uses — as a hypothesis.  For the concrete codecs and the Lean `json`
(`Codecs.env JsonText.dumps JsonText.loads lb`) those laws follow from acceptance
(`C01_laws_of_accepted` with `jsonLaws_closed`), so here the statements quantify over programs
only: every accepted list of public calls whose dictionaries present Python objects

* writes exactly the specification's rendering of a well-formed, canonical document, which the
  reader (any block size) reads back as the specification's reading (`C02_conforms_closed`);
* and, when the contents are UTF-8 texts without `#.`, is tokenised by the lexer model into
  exactly its section headers, without an error token (`C20_writer_file_closed`).
-/
namespace Diffx.C02
open Diffx Diffx.RunRT Diffx.Conform Diffx.Codecs Diffx.Lexer

variable (lb : Bytes → EnvR Json)

/-- the concrete codecs with the Lean `json` -/
abbrev closedEnv : Env := Codecs.env JsonText.dumps JsonText.loads lb

/-- **C02, closed.**  Conformance and the round trip through the specification, for every
accepted program of the closed environment. -/
theorem C02_conforms_closed (chunk : Nat) (hc : 0 < chunk) (enc : Name) (calls : List Writer.Call)
    (hok : ∀ r ∈ (Writer.run (closedEnv lb) Codecs.cfg (some enc) t!"1.0" calls).2, r = .ok)
    (hwf : DictArgs calls) (hdom : DictsIn JsonText.Dom calls)
    (hsize : (Writer.run (closedEnv lb) Codecs.cfg (some enc) t!"1.0" calls).1.out.length ≤ Reader.maxRead) :
    ∃ doc : List Spec.Sec,
      (Writer.run (closedEnv lb) Codecs.cfg (some enc) t!"1.0" calls).1.out = Spec.render false doc ∧
      Spec.WF (closedEnv lb) Codecs.cfg doc ∧
      (∀ s ∈ doc, s.blank = [] ∧ (s.opts.map (·.1)).Pairwise (· ≤ ·)) ∧
      Reader.readAll (closedEnv lb) Codecs.cfg chunk
          (Writer.run (closedEnv lb) Codecs.cfg (some enc) t!"1.0" calls).1.out =
        (Spec.reading (closedEnv lb) Codecs.cfg doc, .done) := by
  let laws := C01.lawsOfAccepted JsonText.dumps JsonText.loads lb C01.jsonLaws_closed enc calls hok hwf hdom hsize
  obtain ⟨h1, h2, h3⟩ := C02_conforms (closedEnv lb) Codecs.cfg enc calls hok laws
  exact ⟨docOf (closedEnv lb) Codecs.cfg enc calls laws, h1, h2, h3,
    C02_read_back (closedEnv lb) Codecs.cfg chunk hc enc calls hok laws⟩

end Diffx.C02

namespace Diffx.C20
open Diffx Diffx.RunRT Diffx.Codecs Diffx.Lexer Diffx.C02

variable (lb : Bytes → EnvR Json)

/-- **C20, closed.**  The header clause for the bytes of every accepted program of the closed
environment whose section contents are UTF-8 texts without `#.`: the document the program wrote
(`doc`, with `out = Spec.render false doc`) has one text per section, and the lexer's tag tokens
are exactly its headers. -/
theorem C20_writer_file_closed (subs : Subs) (hl : SubsLossless subs) (hq : SubsQuiet subs)
    (enc : Name) (calls : List Writer.Call)
    (hok : ∀ r ∈ (Writer.run (closedEnv lb) Codecs.cfg (some enc) t!"1.0" calls).2, r = .ok)
    (hwf : DictArgs calls) (hdom : DictsIn JsonText.Dom calls)
    (hsize : (Writer.run (closedEnv lb) Codecs.cfg (some enc) t!"1.0" calls).1.out.length ≤ Reader.maxRead) :
    ∃ doc : List Spec.Sec,
      (Writer.run (closedEnv lb) Codecs.cfg (some enc) t!"1.0" calls).1.out = Spec.render false doc ∧
      ∀ texts : List Str, Utf8Doc doc texts → (∀ t ∈ texts, NoHashDot t) →
        ∃ text, Codecs.decChars Codecs.utf8Step
            (Writer.run (closedEnv lb) Codecs.cfg (some enc) t!"1.0" calls).1.out = some text ∧
          ((lex subs text).filter (·.kind == .tag)).map (·.val) = doc.map tagOf ∧
          ∀ t ∈ lex subs text, t.kind ≠ .error := by
  let laws := C01.lawsOfAccepted JsonText.dumps JsonText.loads lb C01.jsonLaws_closed enc calls hok hwf hdom hsize
  refine ⟨C02.docOf (closedEnv lb) Codecs.cfg enc calls laws,
    (C02_conforms (closedEnv lb) Codecs.cfg enc calls hok laws).1, ?_⟩
  intro texts hu hnd
  exact C20_writer_file subs hl hq (closedEnv lb) Codecs.cfg enc calls hok laws texts hu hnd

end Diffx.C20
