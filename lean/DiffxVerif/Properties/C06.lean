import DiffxVerif.Properties.C05
/-!
# C06 — Parse then re-serialise: byte-identical on canonical files, idempotent on others

(The property text and the discussion are in Properties/C05.lean: the two
properties are about the same pair of functions, `Dom.fromBytes` and
`Dom.toBytes`.)  The theorems below are the ones C06 rests on:

* what is loaded from a header is kept verbatim (minus `length`) and is what the
  DOM writer hands to the streaming writer, so a canonical header is reproduced;
* re-serialising is the streaming writer run on the loaded tree's call sequence,
  hence canonical (C02) — and canonical output is a fixed point of parse∘write
  by the section round trip (C01), which is what the differential run decides;
* the known finding D14: a loaded option the writer has no parameter for makes
  re-serialisation fail.
-/
namespace Diffx.C06
open Diffx Diffx.Dom

/-- options read from a content header are kept verbatim, minus `length` -/
theorem C06_options_verbatim (o : Opts) (k : Bytes) (hk : k ≠ b!"length") :
    (contentOpts o).get k = (o.get k).map optToPy ∧ (contentOpts o).get b!"length" = none :=
  C05.C05_load_content_opts o k hk

/-- re-serialising a (loaded) tree is running the streaming writer on its call sequence -/
theorem C06_reserialise_is_run (env : Env) (cfg : Config) (wv : Text) (t : Tree) (b : Bytes)
    (h : toBytes env cfg wv t = .ok b) :
    ∃ enc ver calls, toCalls cfg.defaultIndent t wv = .ok (enc, ver, calls) ∧
      (Writer.run env cfg enc ver calls).1.out = b ∧
      ∀ r ∈ (Writer.run env cfg enc ver calls).2, r = .ok :=
  C05.C05_canonical env cfg wv t b h

/-- a preamble loaded from a header without `indent` is recorded as not indented
(`indent = None`), so that it is written back without indentation -/
theorem C06_preamble_indent_recorded (s : LoadSt) (r : Reader.Record) (t : Text) (s' : LoadSt)
    (hn : r.sec.name = .preamble) (hc : r.content = .text t) (hcur : s.cur = .main)
    (hi : (contentOpts r.opts).get b!"indent" = none)
    (h : loadRecord s r = .ok s') :
    s'.tree.preamble.opts = contentOpts r.opts ++ [(b!"indent", .none)] ∧ s'.tree.preamble.content = .str t := by
  unfold loadRecord at h
  simp only [hn, hc, hcur, hi, Option.isSome_none] at h
  cases h
  simp

/-- **Known finding D14** -/
theorem C06_unknown_option_witness :
    ∃ t : Tree, (∃ c ∈ [t.metaSec], c.opts.get b!"custom" = some (.str (tx b!"v"))) ∧
      ∀ env cfg wv, toBytes env cfg wv t = .error .typeError :=
  C05.C06_unknown_option_witness

end Diffx.C06
