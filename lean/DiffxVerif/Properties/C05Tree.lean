import DiffxVerif.Lemmas.DomRoundTrip
import DiffxVerif.Properties.C01Run
import DiffxVerif.Properties.C05
/-!
# C05 (whole trees) — object model written then parsed gives back the normalised tree

> For every object-model tree that serialises without error, serialising and parsing it
> yields a tree with the same changes and files in the same order and, section by section,
> the same content and options as the original after the documented normalisation only
> (final line ending appended to text/diff, detected line_endings recorded, default preamble
> indent and metadata format recorded, empty content sections omitted).

`Properties/C05.lean` proves the two halves separately (`to_bytes` is the streaming writer run
on the tree's call sequence; the loader rebuilds the shape).  This file composes them with the
whole-sequence streaming round trip `C01_run` into **one equation about `from_bytes (to_bytes t)`**.

* Hypotheses (rule R1): `to_bytes` succeeded, the call sequence `toCalls` derives from the tree,
  `ProgramLaws` for that sequence (Lemmas/RunRoundTrip.lean: argument well-formedness, codec and
  JSON laws; no reader function), `0 < cfg.chunk`, and `TreeOk t`.
  `TreeOk t` (decidable) says only that every content section sits in the slot of its class
  (`t.preamble.kind = .preamble`, …) — an invariant of the Python classes that the plain-data
  model `Tree` does not enforce.  That the main `encoding` option is a `str` and `version` is
  absent or `"1.0"` is what the `toCalls` equation (`some enc`, `"1.0"`) says.
* `expectedTree` (rule R2) is **fully structural**: `DomRT.expTree` recurses over the *tree*
  (`expChanges` / `expChange` / `expFiles` / `expFile` / `expSec`), threading the writer state
  with `runFrom` and splitting the laws of the call list along `++` (`lawsLeft` / `lawsRight`),
  in lockstep with `treeCalls` — the call list `toCalls` yields, re-stated by recursion over the
  tree (`C05_calls_structural`).  It calls no `Reader.*`, `Dom.fromBytes`, `Dom.loadRecord`,
  and not even `recOpts` / `Dom.contentOpts`: the option lists are written out
  (`preambleOpts`, `metaOpts`, `diffOpts`, `optStr`).
  - tree options: `encoding`, `version` as read from the main header;
  - each change / file, in order, with the `encoding` option only if one was given;
  - a content section that is skipped (falsy content) ↦ the section of a fresh tree / change /
    file (`newPreamble`, `newMeta`, `newDiff`);
  - a written section ↦ its kind, the options the writer derives without `length`
    (preamble: `encoding`?, `indent` — the default indent when the key was absent, `None` when
    the text was not indented —, `line_endings`, `mimetype`?; metadata: `encoding`?, `format`;
    diff: `encoding`?, `line_endings`, `type`?), and the content of the laws
    (`L.text.decoded`, `L.parsed`, `L.data`).
-/
namespace Diffx.C05
open Diffx Diffx.Dom Diffx.DomRT
open Diffx.RunRT (ProgramLaws ProgramLawsFrom PreambleLaws MetaLaws DiffCallLaws)

/-- **The call list, structurally.** What `toCalls` yields is the constructor arguments and
`treeCalls`: main preamble, main metadata, then per change `new_change`, preamble, metadata and
per file `new_file`, metadata, diff — skipped sections left out. -/
theorem C05_calls_structural (di : Nat) (t : Tree) (wv : Text) (e : Option Name) (v : Text)
    (cs : List Writer.Call) (h : toCalls di t wv = .ok (e, v, cs)) :
    ctorArgs t wv = .ok (e, v) ∧ cs = treeCalls di t :=
  toCalls_treeCalls di t wv e v cs h

/-- **Object-model round trip for whole trees.** For every well-formed tree that serialises
without error, under the laws of the program it is serialised by, parsing the bytes yields
exactly the normalised tree `expectedTree`. -/
theorem C05_tree_roundtrip (env : Env) (cfg : Config) (wv : Text) (t : Tree) (b : Bytes)
    (hchunk : 0 < cfg.chunk) (hk : TreeOk t) (h : toBytes env cfg wv t = .ok b)
    (enc : Name) (calls : List Writer.Call)
    (hcalls : toCalls cfg.defaultIndent t wv = .ok (some enc, Text.ofAscii b!"1.0", calls))
    (laws : ProgramLaws env cfg enc calls) :
    fromBytes env cfg wv b = .ok (expectedTree env cfg wv t enc calls hcalls laws) :=
  tree_roundtrip env cfg wv t b hchunk hk h enc calls hcalls laws

/-- the same, with the laws stated for the structural call list (no transport) -/
theorem C05_tree_roundtrip_structural (env : Env) (cfg : Config) (wv : Text) (t : Tree) (b : Bytes)
    (hchunk : 0 < cfg.chunk) (hk : TreeOk t) (h : toBytes env cfg wv t = .ok b) (enc : Name)
    (hcalls : toCalls cfg.defaultIndent t wv =
      .ok (some enc, Text.ofAscii b!"1.0", treeCalls cfg.defaultIndent t))
    (laws : ProgramLaws env cfg enc (treeCalls cfg.defaultIndent t)) :
    fromBytes env cfg wv b =
      .ok (expTree env cfg cfg.defaultIndent enc (Writer.init (some enc) (Text.ofAscii b!"1.0")).1 t
        laws.calls) :=
  tree_roundtrip_core env cfg wv t b hchunk hk h enc hcalls laws

section Readable
variable (env : Env) (cfg : Config) (wv : Text) (t : Tree) (enc : Name) (calls : List Writer.Call)
  (hcalls : toCalls cfg.defaultIndent t wv = .ok (some enc, Text.ofAscii b!"1.0", calls))
  (laws : ProgramLaws env cfg enc calls)

/-- **Same changes and files, in the same order**: as many changes, and change by change as
many files -/
theorem C05_tree_shape :
    (expectedTree env cfg wv t enc calls hcalls laws).changes.length = t.changes.length ∧
    (expectedTree env cfg wv t enc calls hcalls laws).changes.map (·.files.length) =
      t.changes.map (·.files.length) :=
  ⟨expChanges_length env cfg _ _ _ _, expChanges_shape env cfg _ _ _ _⟩

/-- the main options are the encoding given and version 1.0 -/
theorem C05_tree_main_opts :
    (expectedTree env cfg wv t enc calls hcalls laws).opts =
      [(b!"encoding", .str enc), (b!"version", .str (Text.ofAscii b!"1.0"))] := rfl

/-- **Empty main sections are omitted**: they load as the sections of a fresh tree -/
theorem C05_tree_skipped_main :
    (t.preamble.content.truthy = false →
      (expectedTree env cfg wv t enc calls hcalls laws).preamble = newPreamble) ∧
    (t.metaSec.content.truthy = false →
      (expectedTree env cfg wv t enc calls hcalls laws).metaSec = newMeta) :=
  ⟨fun h => expSec_skip env cfg _ _ _ _ h _, fun h => expSec_skip env cfg _ _ _ _ h _⟩

/-- **Empty sections of changes and files are omitted** (they load as the sections of a fresh
change / file), the container options are the `encoding` given, if any -/
theorem C05_tree_skipped (i : Nat) (hi : i < t.changes.length) :
    ∃ c', (expectedTree env cfg wv t enc calls hcalls laws).changes[i]? = some c' ∧
      (t.changes[i].preamble.content.truthy = false → c'.preamble = newPreamble) ∧
      (t.changes[i].metaSec.content.truthy = false → c'.metaSec = newMeta) ∧
      (∀ e, containerCall Writer.Call.newChange t.changes[i].opts = .ok (some (.newChange e)) →
        c'.opts = optStr b!"encoding" e) ∧
      c'.files.length = t.changes[i].files.length ∧
      ∀ (j : Nat) (hj : j < t.changes[i].files.length),
        ∃ f', c'.files[j]? = some f' ∧
          (t.changes[i].files[j].metaSec.content.truthy = false → f'.metaSec = newMeta) ∧
          (t.changes[i].files[j].diff.content.truthy = false → f'.diff = newDiff) ∧
          (∀ e, containerCall Writer.Call.newFile t.changes[i].files[j].opts = .ok (some (.newFile e)) →
            f'.opts = optStr b!"encoding" e) := by
  obtain ⟨st', L', e⟩ := expChanges_get env cfg cfg.defaultIndent t.changes _
    (lawsRight env cfg _ _ _ (lawsRight env cfg _ _ _
      ((toCalls_treeCalls _ _ _ _ _ _ hcalls).2 ▸ laws.calls))) i hi
  obtain ⟨h1, h2, h3, h4⟩ := expChange_facts env cfg cfg.defaultIndent st' t.changes[i] L'
  refine ⟨_, e, h1, h2, h4, h3, fun j hj => ?_⟩
  obtain ⟨st'', L'', e'⟩ := expFiles_get env cfg cfg.defaultIndent t.changes[i].files _
    (lawsRight env cfg _ _ _ (lawsRight env cfg _ _ _ (lawsRight env cfg _ _ _ L'))) j hj
  obtain ⟨g1, g2, g3⟩ := expFile_facts env cfg cfg.defaultIndent st'' t.changes[i].files[j] L''
  exact ⟨_, e', g1, g2, g3⟩

/-- **A written main preamble**: kind, options (`encoding` / `mimetype` if given, the indent used
— `None` recorded when the text is not indented —, the detected `line_endings`; no `length`),
and the text as decoded (final line ending appended) -/
theorem C05_tree_main_preamble (tx : Text) (e : Option Name) (indent : Option Int) (le mime : Option Text)
    (hs : contentCall cfg.defaultIndent t.preamble = .ok (some (.preamble (.str tx) e indent le mime))) :
    ∃ L' : PreambleLaws env cfg (Writer.init (some enc) (Text.ofAscii b!"1.0")).1 tx e indent le,
      (expectedTree env cfg wv t enc calls hcalls laws).preamble =
        ⟨.preamble, preambleOpts e indent L'.leOut mime, .str L'.text.decoded⟩ :=
  expSec_preamble env cfg _ _ _ tx e indent le mime hs _

end Readable

/-- **the default preamble indent is recorded**: when the section has no `indent` key, the
writer is called with `DEFAULT_PREAMBLE_INDENT` -/
theorem C05_default_indent (di : Nat) (c : ContentSec) (text : Writer.Arg) (e : Option Name)
    (indent : Option Int) (le mime : Option Text)
    (h : contentCall di c = .ok (some (.preamble text e indent le mime)))
    (hi : c.opts.get b!"indent" = none) : indent = some (di : Int) :=
  contentCall_default_indent di c text e indent le mime h hi

/-- the options of a loaded preamble, key by key -/
theorem C05_preamble_opts_get (e : Option Name) (indent : Option Int) (le : Text) (mime : Option Text) :
    (preambleOpts e indent le mime).get b!"encoding" = e.map PyVal.str ∧
    (preambleOpts e indent le mime).get b!"indent" =
      some (match indent with | some i => .int i | none => .none) ∧
    (preambleOpts e indent le mime).get b!"line_endings" = some (.str le) ∧
    (preambleOpts e indent le mime).get b!"mimetype" = mime.map PyVal.str ∧
    (preambleOpts e indent le mime).get b!"length" = none :=
  preambleOpts_get e indent le mime

/-! ## C06 (library-produced files): the normalised tree is a fixed point

> C06: For every file the library itself can produce, parsing it into the object model and
> serialising it again returns the identical bytes.

`ReLaws` (Lemmas/DomRoundTrip.lean, `ReCallLaws`) is a bundle of laws about **re-preparing
normalised content**, stated for `Writer.prepareContent` and `env.dumps` only, one per written
content section, in the writer state the section was written in:
* preamble: `_prepare_content(decoded, indent, line_endings=<recorded>, encoding)` gives the
  bytes the original text gave;
* metadata: the parsed dictionary is not empty and `json.dumps` of it is the text that was written;
* diff: `_prepare_content(prepared, line_endings=<recorded>, encoding)` changes nothing. -/

/-- **Fixed point.** Re-serialising the normalised tree gives exactly the bytes the original
tree serialised to. -/
theorem C06_tree_fixed_point (env : Env) (cfg : Config) (wv : Text) (t : Tree) (b : Bytes)
    (hk : TreeOk t) (h : toBytes env cfg wv t = .ok b) (enc : Name) (calls : List Writer.Call)
    (hcalls : toCalls cfg.defaultIndent t wv = .ok (some enc, Text.ofAscii b!"1.0", calls))
    (laws : ProgramLaws env cfg enc calls) (re : ReLaws env cfg enc calls laws) :
    toBytes env cfg wv (expectedTree env cfg wv t enc calls hcalls laws) = .ok b :=
  tree_fixed_point env cfg wv t b hk h enc calls hcalls laws re

/-- **Parse then re-serialise is the identity on library-produced files**: for the bytes `b` of
any well-formed tree, `from_bytes b` succeeds with some tree `t'` and `to_bytes t' = b`. -/
theorem C06_parse_serialise (env : Env) (cfg : Config) (wv : Text) (t : Tree) (b : Bytes)
    (hchunk : 0 < cfg.chunk) (hk : TreeOk t) (h : toBytes env cfg wv t = .ok b)
    (enc : Name) (calls : List Writer.Call)
    (hcalls : toCalls cfg.defaultIndent t wv = .ok (some enc, Text.ofAscii b!"1.0", calls))
    (laws : ProgramLaws env cfg enc calls) (re : ReLaws env cfg enc calls laws) :
    ∃ t', fromBytes env cfg wv b = .ok t' ∧ toBytes env cfg wv t' = .ok b :=
  ⟨_, C05_tree_roundtrip env cfg wv t b hchunk hk h enc calls hcalls laws,
    C06_tree_fixed_point env cfg wv t b hk h enc calls hcalls laws re⟩

/-! ## Non-vacuity: a concrete tree, its laws, and the conclusion as a closed true equation -/

open Diffx.C01 (cfg0 asciiEnv)

/-- `asciiEnv` with JSON functions for which the JSON laws hold and metadata survives:
every dict dumps to `{}`, every text loads as `{"k": 1}` -/
def treeEnv : Env :=
  { asciiEnv with
    dumps := fun _ => .ok (Text.ofAscii b!"{}"),
    loadsText := fun _ => .ok (.obj [(Text.ofAscii b!"k", .int 1)]) }

def tEnc : Name := Text.ofAscii b!"latin1"
def ver10 : Text := Text.ofAscii b!"1.0"
def jsonK : Json := .obj [(Text.ofAscii b!"k", .int 1)]
def jsonFmt : DOpts := [(b!"format", .str (Text.ofAscii b!"json"))]

/-- a tree with a main preamble (no `indent` key: the default indent applies), an empty main
metadata section (skipped), one change with metadata and no preamble (skipped), one file with
its own encoding, metadata and a diff without a final newline -/
def tree0 : Tree :=
  { opts := [(b!"encoding", .str tEnc), (b!"version", .str ver10)]
    preamble := ⟨.preamble, [(b!"mimetype", .str (Text.ofAscii b!"text/plain"))], .str (Text.ofAscii b!"hi")⟩
    metaSec := newMeta
    changes := [
      { opts := []
        preamble := newPreamble
        metaSec := ⟨.metadata, jsonFmt, .dict jsonK⟩
        files := [
          { opts := [(b!"encoding", .str (Text.ofAscii b!"utf-8"))]
            metaSec := ⟨.metadata, jsonFmt, .dict jsonK⟩
            diff := ⟨.diff, [(b!"type", .str (Text.ofAscii b!"text"))], .bytes b!"-a\n+b"⟩ }] }] }

theorem tree0_ok : TreeOk tree0 := by decide

def bytes0 : Bytes :=
  b!"#diffx: encoding=latin1, version=1.0\n#.preamble: indent=4, length=7, line_endings=unix, mimetype=text/plain\n    hi\n#.change:\n#..meta: format=json, length=3\n{}\n#..file: encoding=utf-8\n#...meta: format=json, length=3\n{}\n#...diff: length=6, line_endings=unix, type=text\n-a\n+b\n"

set_option maxRecDepth 8192 in
/-- the tree serialises, to these bytes -/
theorem tree0_bytes : toBytes treeEnv cfg0 ver10 tree0 = .ok bytes0 := rfl

def tc1 : Writer.Call :=
  .preamble (.str (Text.ofAscii b!"hi")) none (some 4) none (some (Text.ofAscii b!"text/plain"))
def tc2 : Writer.Call := .newChange none
def tc3 : Writer.Call := .metadata (.dict jsonK) none (Text.ofAscii b!"json")
def tc4 : Writer.Call := .newFile (some (Text.ofAscii b!"utf-8"))
def tc5 : Writer.Call := .metadata (.dict jsonK) none (Text.ofAscii b!"json")
def tc6 : Writer.Call := .diff (.bytes b!"-a\n+b") (some (Text.ofAscii b!"text")) none none

def calls0 : List Writer.Call := [tc1, tc2, tc3, tc4, tc5, tc6]

/-- the program `write_stream` runs for the tree -/
theorem tree0_calls :
    toCalls cfg0.defaultIndent tree0 ver10 = .ok (some tEnc, Text.ofAscii b!"1.0", calls0) := rfl

/-- the writer states along the program -/
def tst0 : Writer.St := (Writer.init (some tEnc) (Text.ofAscii b!"1.0")).1
def tst1 : Writer.St := (Writer.step treeEnv cfg0 tst0 tc1).1
def tst2 : Writer.St := (Writer.step treeEnv cfg0 tst1 tc2).1
def tst3 : Writer.St := (Writer.step treeEnv cfg0 tst2 tc3).1
def tst4 : Writer.St := (Writer.step treeEnv cfg0 tst3 tc4).1
def tst5 : Writer.St := (Writer.step treeEnv cfg0 tst4 tc5).1

def tlaws1 : PreambleLaws treeEnv cfg0 tst0 (Text.ofAscii b!"hi") none (some 4) none where
  encOk := by intro n h; cases h
  indentOk := by intro i h; cases h; decide
  data := b!"    hi\n"
  leOut := Text.ofAscii b!"unix"
  hprep := rfl
  hlen := by decide
  text :=
    { encName := b!"latin1", heff := rfl, dos := false, hle := rfl, raw := [10], henc := rfl,
      nl := [10], hbom := rfl, hne := by decide, hu := by decide, hsp := by decide,
      plain := b!"hi\n", hplain := rfl, decoded := Text.ofAscii b!"hi\n", hdec := rfl, hdecNl := rfl,
      hendT := by decide }

def tlaws3 : MetaLaws treeEnv cfg0 tst2 jsonK none where
  encOk := by intro n h; cases h
  text := Text.ofAscii b!"{}"
  hdumps := rfl
  leOut := Text.ofAscii b!"unix"
  tl :=
    { encName := b!"latin1", heff := rfl, dos := false, hle := rfl, raw := [10], henc := rfl,
      nl := [10], hbom := rfl, hne := by decide, hu := by decide, hsp := by decide,
      plain := b!"{}\n", hplain := rfl, decoded := Text.ofAscii b!"{}\n", hdec := rfl, hdecNl := rfl,
      hendT := by decide }
  hlen := by decide
  hguess := fun _ => rfl
  parsed := jsonK
  hloads := rfl
  hobj := rfl

def tlaws5 : MetaLaws treeEnv cfg0 tst4 jsonK none where
  encOk := by intro n h; cases h
  text := Text.ofAscii b!"{}"
  hdumps := rfl
  leOut := Text.ofAscii b!"unix"
  tl :=
    { encName := b!"utf-8", heff := rfl, dos := false, hle := rfl, raw := [10], henc := rfl,
      nl := [10], hbom := rfl, hne := by decide, hu := by decide, hsp := by decide,
      plain := b!"{}\n", hplain := rfl, decoded := Text.ofAscii b!"{}\n", hdec := rfl, hdecNl := rfl,
      hendT := by decide }
  hlen := by decide
  hguess := fun _ => rfl
  parsed := jsonK
  hloads := rfl
  hobj := rfl

def tlaws6 : DiffCallLaws treeEnv cfg0 tst5 b!"-a\n+b" none none where
  encOk := by intro n h; cases h
  data := b!"-a\n+b\n"
  leOut := Text.ofAscii b!"unix"
  hprep := rfl
  hlen := by decide
  dl :=
    { encName := none, henc := rfl, dos := false, hle := rfl, nl := [10],
      hw := by
        refine ⟨false, rfl, ?_, ?_⟩
        · intro l h; cases h
        · exact ⟨[10], [13, 10], [10], [13, 10], rfl, rfl, rfl, rfl, by decide, rfl⟩
      rawR := [10], hencR := rfl, hbomR := rfl, hne := by decide }

/-- **the laws hold** for the tree's program -/
def treeLaws : ProgramLaws treeEnv cfg0 tEnc calls0 where
  encOk := ⟨by decide, by decide, by decide⟩
  calls :=
    ((tlaws1 : RunRT.CallLaws treeEnv cfg0 tst0 tc1),
     ((⟨by intro n h; cases h⟩ : RunRT.CallLaws treeEnv cfg0 tst1 tc2),
      ((tlaws3 : RunRT.CallLaws treeEnv cfg0 tst2 tc3),
       ((⟨by intro n h; cases h; exact ⟨by decide, by decide, by decide⟩⟩ :
          RunRT.CallLaws treeEnv cfg0 tst3 tc4),
        ((tlaws5 : RunRT.CallLaws treeEnv cfg0 tst4 tc5),
         ((tlaws6 : RunRT.CallLaws treeEnv cfg0 tst5 tc6), PUnit.unit))))))

/-- the normalised tree, written out: the default indent (4) and the detected line endings are
recorded, the final newline is appended to the preamble text and to the diff, the empty main
metadata and the change's preamble are the defaults, everything else is as in `tree0` -/
def loaded0 : Tree :=
  { opts := [(b!"encoding", .str tEnc), (b!"version", .str ver10)]
    preamble := ⟨.preamble,
      [(b!"indent", .int 4), (b!"line_endings", .str (Text.ofAscii b!"unix")),
       (b!"mimetype", .str (Text.ofAscii b!"text/plain"))], .str (Text.ofAscii b!"hi\n")⟩
    metaSec := newMeta
    changes := [
      { opts := []
        preamble := newPreamble
        metaSec := ⟨.metadata, jsonFmt, .dict jsonK⟩
        files := [
          { opts := [(b!"encoding", .str (Text.ofAscii b!"utf-8"))]
            metaSec := ⟨.metadata, jsonFmt, .dict jsonK⟩
            diff := ⟨.diff,
              [(b!"line_endings", .str (Text.ofAscii b!"unix")), (b!"type", .str (Text.ofAscii b!"text"))],
              .bytes b!"-a\n+b\n"⟩ }] }] }

set_option maxRecDepth 8192 in
theorem expectedTree0_eq : expectedTree treeEnv cfg0 ver10 tree0 tEnc calls0 tree0_calls treeLaws = loaded0 := rfl

/-- `C05_tree_roundtrip` instantiated … -/
theorem C05_tree_instance : fromBytes treeEnv cfg0 ver10 bytes0 = .ok loaded0 := by
  rw [← expectedTree0_eq]
  exact C05_tree_roundtrip treeEnv cfg0 ver10 tree0 bytes0 (by decide) tree0_ok tree0_bytes tEnc calls0
    tree0_calls treeLaws

set_option maxRecDepth 16384 in
/-- … a closed equation that is true by evaluation as well -/
example : fromBytes treeEnv cfg0 ver10 bytes0 = .ok loaded0 := rfl

/-- **the re-preparation laws hold** for the tree's program -/
theorem treeReLaws : ReLaws treeEnv cfg0 tEnc calls0 treeLaws :=
  ⟨rfl, trivial, ⟨(by intro h; injection h with h; cases h), rfl⟩, trivial,
    ⟨(by intro h; injection h with h; cases h), rfl⟩, rfl, trivial⟩

/-- `C06_tree_fixed_point` instantiated: the loaded tree serialises to the same bytes … -/
theorem C06_tree_instance : toBytes treeEnv cfg0 ver10 loaded0 = .ok bytes0 := by
  rw [← expectedTree0_eq]
  exact C06_tree_fixed_point treeEnv cfg0 ver10 tree0 bytes0 tree0_ok tree0_bytes tEnc calls0
    tree0_calls treeLaws treeReLaws

set_option maxRecDepth 8192 in
/-- … a closed equation that is true by evaluation as well -/
example : toBytes treeEnv cfg0 ver10 loaded0 = .ok bytes0 := rfl

/-! ## Why `TreeOk` is needed (a fact about the plain-data model, not about pydiffx)

The model's `Tree` lets any `ContentSec` sit in any slot.  A metadata-kind section put in the
`preamble` slot is written as `#.meta:` and therefore loaded into the `metaSec` slot: the
sections are not "the same, slot by slot".  In Python the slots hold objects of fixed classes,
so this cannot happen. -/

def treeBad : Tree :=
  { opts := [(b!"encoding", .str tEnc), (b!"version", .str ver10)]
    preamble := ⟨.metadata, jsonFmt, .dict jsonK⟩
    metaSec := newMeta
    changes := [] }

theorem treeBad_not_ok : ¬ TreeOk treeBad := by decide

set_option maxRecDepth 8192 in
/-- the ill-formed tree serialises, and what was in the `preamble` slot comes back in `metaSec` -/
theorem C05_kind_slot_witness :
    toBytes treeEnv cfg0 ver10 treeBad = .ok b!"#diffx: encoding=latin1, version=1.0\n#.meta: format=json, length=3\n{}\n" ∧
    fromBytes treeEnv cfg0 ver10 b!"#diffx: encoding=latin1, version=1.0\n#.meta: format=json, length=3\n{}\n" =
      .ok { treeBad with preamble := newPreamble, metaSec := ⟨.metadata, jsonFmt, .dict jsonK⟩ } :=
  ⟨rfl, rfl⟩

end Diffx.C05
