import DiffxVerif.Lemmas.Stream
import DiffxVerif.Generated.Tables
/-!
# C17 — Reader output does not depend on stream chunking or header alignment

> The records produced for a file are the same wherever its header lines fall
> relative to the reader's internal read-ahead blocks, however long a header or
> content line is, and whatever read-ahead block size is used: reading ahead to
> find the end of a header never loses, duplicates or re-reads a byte of the
> content that follows.

`Reader.readUntil chunk c rest` is the model of `DiffXReader._read_until`
(chunked `fp.read`, `find`, relative `seek` back); `Reader.readAll env cfg chunk`
is the whole streaming reader.  All statements hold for **every** byte string,
every environment and every positive block size — no well-formedness of the
file is assumed, so "every alignment" and "every padding" are covered.
-/
namespace Diffx.C17
open Diffx Diffx.Reader

/-- chunked read-ahead = "everything up to and including the first delimiter"
(or everything, with the eof flag, when there is none), for every block size -/
theorem C17_readUntil (chunk : Nat) (hc : 0 < chunk) (c : UInt8) (rest : Bytes) :
    readUntil chunk c rest = readLineSpec c rest :=
  readUntil_eq_spec chunk hc c rest

/-- no byte is lost, duplicated or re-read: what was returned followed by what is
still unread is exactly what was unread before -/
theorem C17_no_loss (chunk : Nat) (hc : 0 < chunk) (c : UInt8) (rest : Bytes) :
    (readUntil chunk c rest).1 ++ (readUntil chunk c rest).2.2 = rest :=
  readUntil_append chunk hc c rest

/-- the whole reader: records and outcome are independent of the block size -/
theorem C17_chunk_independent (env : Env) (cfg : Config) (c₁ c₂ : Nat) (h₁ : 0 < c₁) (h₂ : 0 < c₂)
    (data : Bytes) :
    readAll env cfg c₁ data = readAll env cfg c₂ data :=
  readAll_chunk_independent env cfg c₁ c₂ h₁ h₂ data

/-- tie: the block size found in the working tree satisfies the hypothesis -/
theorem C17_tie_chunk : Generated.chunkKnown = true ∧ 0 < Generated.config.chunk := by decide

/-- hence the reader as configured in the repository equals the reader with any
other positive block size -/
theorem C17_configured (env : Env) (cfg : Config) (c : Nat) (h : 0 < c) (data : Bytes) :
    readAll env cfg Generated.config.chunk data = readAll env cfg c data :=
  C17_chunk_independent env cfg _ _ C17_tie_chunk.2 h data

/-- a test (not the claim): a delimiter exactly at a block boundary -/
example : readUntil 4 10 [1, 2, 3, 10, 5, 6] = ([1, 2, 3, 10], false, [5, 6]) := by decide
example : readUntil 3 10 [1, 2, 3, 10, 5, 6] = ([1, 2, 3, 10], false, [5, 6]) := by decide
/-- with block size 0 the code reads nothing and reports end of file: the
hypothesis `0 < chunk` is necessary -/
example : readUntil 0 10 [1, 10] = ([], true, [1, 10]) := by decide

end Diffx.C17
