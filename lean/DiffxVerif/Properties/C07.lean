import DiffxVerif.Lemmas.ReaderFrame
/-!
# C07 — Length frames content: truncated/damaged files never yield altered sections

> The reader takes exactly the declared number of bytes as a section's content, so
> content may contain anything without shifting section boundaries, and a file cut
> off at any byte position (or whose declared length exceeds the data present, or
> is not a non-negative integer) never makes the reader yield a section whose
> content or options differ from the intact file: the records produced before
> stopping are a prefix of the intact file's records, followed by normal end or a
> parse error.

The model has a switch `cfg.strictLength` (Model/Env.lean), `false` for the code
as it is.  With the switch on, the reader rejects a content section whose
declared length exceeds the bytes present.

* `C07_prefix_strict` is the full statement, proved for the reader with the
  check switched on, against the intact file read by the reader **as it is**.
* `C07_short_read_witness` proves that without the check the full statement is
  false of the model — the same witness is replayed on the implementation on
  every run (known finding D12; the unedited test-suite pins the acceptance of
  such a file, so the check cannot be added to the code).
* `C07_prefix_partial` is what holds for the code as it is: the records of the
  truncated file are a prefix of the intact file's, except possibly for one last
  record produced by a short read.
-/
namespace Diffx.C07
open Diffx Diffx.Reader

def strict (cfg : Config) : Config := { cfg with strictLength := true }
def lax (cfg : Config) : Config := { cfg with strictLength := false }

/-- **Framing.** What `_read_content` returns depends only on the declared number
of bytes; whatever follows them is left untouched, byte for byte. -/
theorem C07_frame (env : Env) (cfg : Config) (content r₁ r₂ : Bytes) (ln : Nat) (f : Option Bool)
    (enc ind le : Option OptVal) (kb : Bool) :
    (readContent env cfg ⟨content ++ r₁, ln, f⟩ content.length enc ind le kb).map
        (fun p => (p.1, { p.2 with rest := r₂ })) =
    (readContent env cfg ⟨content ++ r₂, ln, f⟩ content.length enc ind le kb) ∧
    ∀ got st', readContent env cfg ⟨content ++ r₁, ln, f⟩ content.length enc ind le kb = .ok (got, st') →
      st'.rest = r₁ :=
  readContent_frame env cfg content r₁ r₂ ln f enc ind le kb

/-- **Truncation, full statement (reader with the length check).** For every
byte string and every cut point, the records yielded for the truncated file are
a prefix of the records the reader yields for the intact file. -/
theorem C07_prefix_strict (env : Env) (cfg : Config) (chunk : Nat) (hc : 0 < chunk) (data : Bytes) (k : Nat) :
    (readAll env (strict cfg) chunk (data.take k)).1 <+: (readAll env (lax cfg) chunk data).1 :=
  readAll_take_prefix_strict env cfg chunk hc data k

/-- **Truncation, the code as it is.** On any input the reader as it is yields
exactly what the reader with the length check yields, plus at most one more
record: the section that was read short (after which the input is exhausted).
With `C07_prefix_strict`: the records of a truncated file are a prefix of the
intact file's records, except possibly for that one last short-read record. -/
theorem C07_prefix_partial (env : Env) (cfg : Config) (chunk : Nat) (data : Bytes) :
    let laxRun := (readAll env (lax cfg) chunk data).1
    let strictRun := (readAll env (strict cfg) chunk data).1
    laxRun = strictRun ∨ ∃ r, laxRun = strictRun ++ [r] :=
  readAll_lax_vs_strict env cfg chunk data

/-- **Invalid length.** A content header whose `length` option is missing, not an
integer, or negative is rejected with a parse error at that header's line; the
section is not yielded. -/
theorem C07_bad_length (env : Env) (cfg : Config) (chunk : Nat) (l : Loop) (hdr : Header.Hdr) (ln : Nat) (st : St)
    (hh : readHeader chunk l.valid l.st = .ok (some (hdr, ln, st)))
    (hc : contentSections.contains hdr.sec = true)
    (hb : hdr.opts.get b!"length" = none ∨ (∃ s, hdr.opts.get b!"length" = some (.str s)) ∨
          (∃ n : Int, hdr.opts.get b!"length" = some (.int n) ∧ n < 0)) :
    stepSection env cfg chunk l = .error (.parseError ln none) :=
  stepSection_bad_length env cfg chunk l hdr ln st hh hc hb

/-! ### Known finding D12: the witness -/

/-- a minimal environment: ASCII newlines, JSON `{}` -/
def asciiEnv : Env :=
  { canon := fun n => .ok n
    encode := fun _ t => .ok (t.map (·.toUInt8))
    decode := fun _ b => .ok (b.map (·.toNat))
    loadsText := fun _ => .ok (.obj [])
    loadsBytes := fun _ => .ok (.obj [])
    dumps := fun _ => .ok [] }

def plainCfg : Config := { chunk := 96, boms := [], defaultIndent := 4, defaultEncoding := [] }

/-- an intact file: a diff of two lines, `length=6` -/
def intact : Bytes := b!"#diffx: version=1.0\n#.change:\n#..file:\n#...meta: length=3\n{}\n#...diff: length=6\n-a\n+b\n"

/-- cut after the first content line of the diff: the truncated file yields a
diff section with content `-a\n` — a section the intact file does not contain -/
theorem C07_short_read_witness :
    ¬ ((readAll asciiEnv plainCfg 96 (intact.take (intact.length - 3))).1.map (·.content) <+:
       (readAll asciiEnv plainCfg 96 intact).1.map (·.content)) := by
  -- `Content` has no `DecidableEq`, so `decide` cannot be used: both runs are evaluated by `rfl`
  have hcut : (readAll asciiEnv plainCfg 96 (intact.take (intact.length - 3))).1.map (·.content) =
      [.container, .container, .container, .metadata (.obj []), .diff b!"-a\n"] := by rfl
  have hfull : (readAll asciiEnv plainCfg 96 intact).1.map (·.content) =
      [.container, .container, .container, .metadata (.obj []), .diff b!"-a\n+b\n"] := by rfl
  rw [hcut, hfull]
  intro h
  have := h.eq_of_length rfl
  simp at this

end Diffx.C07
