import DiffxVerif.Lemmas.Hunks
/-!
# C14 — Unified-diff hunk parser reports exact hunk geometry or a positioned error

> For every sequence of lines made of well-formed unified-diff hunks (optionally
> separated by non-hunk lines when those are to be ignored), the parser returns
> one entry per hunk with the header's start lines and counts, the first and
> last changed line, changed-line counts and leading/trailing context that
> follow from the hunk body, correct totals, and the number of lines consumed;
> "\ No newline at end of file" markers never count.  A hunk that ends early,
> contains a line that is not context/insert/delete/marker, or is interrupted by
> another header raises MalformedHunkError naming that line; no other exception
> type escapes for any list of lines, including the empty list.

`Hunks.parse` is the model of `get_unified_diff_hunks` (Model/Hunks.lean);
`HunkSpec.Spec` describes a well-formed hunk declaratively (Spec/HunkSpec.lean).
-/
namespace Diffx.C14
open Diffx Diffx.Hunks Diffx.HunkSpec

/-- the lines of a diff made of hunks, each preceded by non-hunk lines -/
def renderAll (segs : List (List Bytes × Spec)) : List Bytes :=
  segs.flatMap (fun sg => sg.1 ++ sg.2.render)

def totalDeletes (segs : List (List Bytes × Spec)) : Nat := (segs.map (·.2.deletes)).sum
def totalInserts (segs : List (List Bytes × Spec)) : Nat := (segs.map (·.2.inserts)).sum

/-- **Geometry, garbage tolerated.** Any number of well-formed hunks, each
preceded by any non-hunk lines, followed by any non-hunk lines: one entry per
hunk with the expected geometry, exact totals, every line consumed. -/
theorem C14_geometry (segs : List (List Bytes × Spec)) (tail : List Bytes)
    (hw : ∀ sg ∈ segs, sg.2.WF)
    (hg : ∀ sg ∈ segs, ∀ g ∈ sg.1, NonHunk g) (ht : ∀ g ∈ tail, NonHunk g) :
    parse (renderAll segs ++ tail) true =
      .ok { hunks := segs.map (·.2.expected)
            processed := (renderAll segs ++ tail).length
            deletes := totalDeletes segs
            inserts := totalInserts segs } :=
  parse_geometry segs tail hw hg ht

/-- **Geometry, strict mode.** Consecutive well-formed hunks followed by
nothing or by a non-hunk line: parsing stops there; the lines consumed are
exactly those of the hunks. -/
theorem C14_strict (specs : List Spec) (tail : List Bytes)
    (hw : ∀ s ∈ specs, s.WF) (ht : ∀ g, tail.head? = some g → NonHunk g) :
    parse (specs.flatMap Spec.render ++ tail) false =
      .ok { hunks := specs.map Spec.expected
            processed := (specs.flatMap Spec.render).length
            deletes := (specs.map Spec.deletes).sum
            inserts := (specs.map Spec.inserts).sum } :=
  parse_strict specs tail hw ht

/-- **Damage inside a hunk.** After any well-formed hunks (with tolerated
garbage when `ig`), a hunk whose body is interrupted, while still open, by a
line that is neither context/insert/delete/marker (`BadInHunk`) or by another
hunk header raises `MalformedHunkError` naming exactly that line and its
1-based position. -/
theorem C14_damage (ig : Bool) (segs : List (List Bytes × Spec)) (pre : List Bytes) (s : Spec) (k : Nat)
    (bad : Bytes) (rest : List Bytes)
    (hw : ∀ sg ∈ segs, sg.2.WF) (hs : s.WF)
    (hg : ig = true ∨ (∀ sg ∈ segs, sg.1 = []) ∧ pre = [])
    (hgn : ∀ sg ∈ segs, ∀ g ∈ sg.1, NonHunk g) (hpn : ∀ g ∈ pre, NonHunk g)
    (hopen : OpenAfter s k)
    (hbad : BadInHunk bad ∨ (startsWith bad [64, 64] = true ∧ (matchHeader bad).isSome = true)) :
    let before := renderAll segs ++ pre ++ (s.header :: (s.body.take k).map BLine.render)
    parse (before ++ bad :: rest) ig = .malformed (before.length + 1) bad .malformed :=
  parse_damage ig segs pre s k bad rest hw hs hg hgn hpn hopen hbad

/-- **Premature end.** The input ends while a hunk is still open: the error
names the last line of the input. -/
theorem C14_short (ig : Bool) (segs : List (List Bytes × Spec)) (pre : List Bytes) (s : Spec) (k : Nat)
    (hw : ∀ sg ∈ segs, sg.2.WF) (hs : s.WF)
    (hg : ig = true ∨ (∀ sg ∈ segs, sg.1 = []) ∧ pre = [])
    (hgn : ∀ sg ∈ segs, ∀ g ∈ sg.1, NonHunk g) (hpn : ∀ g ∈ pre, NonHunk g)
    (hopen : OpenAfter s k) :
    let all := renderAll segs ++ pre ++ (s.header :: (s.body.take k).map BLine.render)
    parse all ig = .malformed all.length (all.getLast?.getD []) .prematureEnd :=
  parse_short ig segs pre s k hw hs hg hgn hpn hopen

/-- **No other outcome, for any list of lines**: the parser returns a result or
raises `MalformedHunkError` whose 1-based line number designates a line of the
input and whose `line` is that very line.  (The model's outcome type has no
constructor for another exception; the correspondence check compares exception
classes on every run.) -/
theorem C14_total (lines : List Bytes) (ig : Bool) :
    (∃ r, parse lines ig = .ok r ∧ r.processed ≤ lines.length) ∨
    (∃ n l k, parse lines ig = .malformed n l k ∧ 1 ≤ n ∧ n ≤ lines.length ∧ lines[n - 1]? = some l) :=
  parse_total lines ig

/-- the empty list (the code raised `UnboundLocalError` before the repair) -/
theorem C14_empty (ig : Bool) : parse [] ig = .ok ⟨[], 0, 0, 0⟩ := by
  cases ig <;> rfl

/-- totals are the sums of the per-hunk changed-line counts, for every input -/
theorem C14_totals_consistent (lines : List Bytes) (ig : Bool) (r : Result) (h : parse lines ig = .ok r) :
    r.deletes = (r.hunks.map (·.orig.changed)).sum ∧ r.inserts = (r.hunks.map (·.modified.changed)).sum :=
  parse_totals_consistent lines ig r h

/-! ### non-vacuity (tests, not the claim) -/

/-- a three-line hunk with a marker in the middle and payloads that look like
file headers; it is well formed … -/
def sample : Spec :=
  { os := b!"10", on := some b!"2", ms := b!"10", mn := some b!"2", context := some b!"def f():"
    body := [.ctx b!"a", .del b!"-- old", .marker b!"\\ No newline at end of file", .ins b!"++ new"] }

example : sample.WF := by
  refine ⟨by decide, by decide, ?_, ?_, by decide, by decide, ?_, ?_, ?_⟩
  · intro d h; cases h; decide
  · intro d h; cases h; decide
  · intro c h; cases h; decide
  · intro raw h
    simp [sample] at h
    subst h
    refine ⟨by decide, ?_⟩
    intro b hb; cases hb; decide
  · intro l h; cases h; decide

/-- … and the parser's result on it is the expected geometry -/
example : parse ([b!"--- a/f", b!"+++ b/f"] ++ sample.render ++ [b!"\\ No newline at end of file"]) true =
    .ok { hunks := [sample.expected], processed := 8, deletes := 1, inserts := 1 } := by decide

end Diffx.C14
