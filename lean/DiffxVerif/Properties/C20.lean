import DiffxVerif.Lemmas.Lexer
/-!
# C20 — Syntax highlighter is lossless and tags every section header

> Tokenising any text with the DiffX lexer terminates and the concatenated token
> values reproduce the input exactly; for UTF-8 DiffX files produced by the writer
> whose content contains no "#." sequence, no error token is produced and the
> header tokens are exactly the file's section headers in order.

`Lexer.lex subs text` (Model/Lexer.lean) is the model of
`DiffXLexer().get_tokens_unprocessed(text)`: the `RegexLexer` loop with the seven
DiffX rules.  The stock sub-lexers are the parameter `subs`; the only thing
assumed of them is what the property itself needs (they are lossless / produce
no error and only their own token kinds on the contents they are given).
-/
namespace Diffx.C20
open Diffx Diffx.Lexer

/-- the sub-lexers reproduce their input -/
def SubsLossless (subs : Subs) : Prop :=
  (∀ s, concatVals (subs.json s) = s) ∧ (∀ s, concatVals (subs.diff s) = s)

/-- token positions are contiguous from `start` (the recursive definition lives in
Lemmas/Lexer.lean because the lemmas are stated with it; its two equations are
restated here):
```
def Contiguous : Nat → List Tok → Prop
  | _, [] => True
  | p, t :: r => t.pos = p ∧ Contiguous (p + t.val.length) r
``` -/
abbrev Contiguous : Nat → List Tok → Prop := Lexer.Contiguous

example (p : Nat) : Contiguous p [] ↔ True := Iff.rfl
example (p : Nat) (t : Tok) (r : List Tok) :
    Contiguous p (t :: r) ↔ t.pos = p ∧ Contiguous (p + t.val.length) r := Iff.rfl

def SubsContiguous (subs : Subs) : Prop :=
  (∀ s, Contiguous 0 (subs.json s)) ∧ (∀ s, Contiguous 0 (subs.diff s))

/-- **Lossless, for every text.** -/
theorem C20_lossless (subs : Subs) (h : SubsLossless subs) (text : Str) :
    concatVals (lex subs text) = text :=
  lex_lossless subs h text

/-- positions are contiguous: every character belongs to exactly one token -/
theorem C20_contiguous (subs : Subs) (h : SubsLossless subs) (hc : SubsContiguous subs) (text : Str) :
    Contiguous 0 (lex subs text) :=
  lex_contiguous subs h hc text

/-- no token is empty (so the number of tokens is bounded by the length of the
text: the loop makes progress) -/
theorem C20_progress (subs : Subs) (hs : ∀ s, ∀ t ∈ subs.json s ++ subs.diff s, t.val ≠ []) (text : Str) :
    ∀ t ∈ lex subs text, t.val ≠ [] :=
  lex_nonempty subs hs text

/-- a section of a DiffX file as text: its tag (one of the ten header tags), the
option string (without the leading space) if any, and its content -/
abbrev Sec := Lexer.Sec
/- (the structure is declared in Lemmas/Lexer.lean because the lemmas are stated with it)
structure Sec where
  head : Head
  tag : Str
  attrs : Option Str
  content : Str
-/
example (s : Sec) : s = { head := s.head, tag := s.tag, attrs := s.attrs, content := s.content } := rfl

/-- the text of a section: `tag[ attrs]\n` followed by the content -/
def Sec.text (s : Sec) : Str :=
  s.tag ++ (match s.attrs with | none => [] | some a => 32 :: a) ++ [10] ++ s.content

/-- well-formed and benign: the tag is a header tag of its kind, the option
string has no newline, containers have no content, content sections have
non-empty content in which no `#.` occurs -/
def Sec.Benign (s : Sec) : Prop :=
  matchTag (s.tag ++ [10]) = some (s.head, s.tag, [10]) ∧
  (∀ a, s.attrs = some a → (10 : Nat) ∉ a) ∧
  (s.head = .container → s.content = []) ∧
  (s.head ≠ .container → s.content ≠ [] ∧ ∀ i, ¬ (t!"#." <+: s.content.drop i))

/-- sub-lexers that never produce an error / tag token (on the contents they get) -/
def SubsQuiet (subs : Subs) : Prop :=
  ∀ s, ∀ t ∈ subs.json s ++ subs.diff s, t.kind ≠ .error ∧ t.kind ≠ .tag

/-- the first section is the main header, the others are not (they start with `#.`) -/
def Document : List Sec → Prop
  | [] => True
  | s :: rest => s.tag = t!"#diffx:" ∧ ∀ r ∈ rest, t!"#." <+: r.tag

/-- **Headers are tagged exactly, no error token**: for a document made of
benign sections, the `Tag` tokens are the sections' tags, in order and at their
positions, and there is no `Error` token. -/
theorem C20_headers (subs : Subs) (hl : SubsLossless subs) (hq : SubsQuiet subs) (secs : List Sec)
    (hb : ∀ s ∈ secs, s.Benign) (hd : Document secs) :
    let toks := lex subs (secs.flatMap Sec.text)
    (toks.filter (·.kind == .tag)).map (·.val) = secs.map (·.tag) ∧
    ∀ t ∈ toks, t.kind ≠ .error :=
  lex_headers subs hl hq secs hb hd

/-! ### tests -/
def opaqueSubs : Subs :=
  { json := fun s => if s.isEmpty then [] else [⟨0, .other, s⟩]
    diff := fun s => if s.isEmpty then [] else [⟨0, .other, s⟩] }

example : SubsLossless opaqueSubs := by
  constructor <;> intro s <;> simp [opaqueSubs, concatVals] <;> split <;> simp_all

example : (lex opaqueSubs t!"#diffx: version=1.0\n#.change:\n#..file:\n#...meta: length=3\n{}\n#...diff: length=9\ndelta 5\n-a\n").map
      (fun t => (t.pos, t.kind)) =
    [(0, .tag), (7, .other), (8, .attr), (19, .other), (20, .tag), (29, .other), (30, .tag), (38, .other),
     (39, .tag), (48, .other), (49, .attr), (57, .other), (58, .other), (61, .tag), (70, .other), (71, .attr),
     (79, .other), (80, .keyword), (85, .other), (86, .number), (87, .other), (88, .other)] := by decide

/-- a text without any newline is all `Error` tokens, still lossless -/
example : (lex opaqueSubs t!"#.x").map (·.kind) = [.error, .error, .error] := by decide

/-- the hypotheses of `C20_headers` are satisfiable: a four-section document
(content with a lone `#`, which is not a `#.` sequence) -/
def demo : List Sec :=
  [⟨.container, t!"#diffx:", some t!"version=1.0", []⟩, ⟨.container, t!"#.change:", none, []⟩,
   ⟨.metadata, t!"#..meta:", some t!"length=3", t!"{}#\n"⟩, ⟨.diff, t!"#...diff:", none, t!"#"⟩]

example : (∀ s ∈ demo, s.Benign) ∧ Document demo := by
  refine ⟨?_, rfl, by simp⟩
  have nodot : ∀ (c : Str), c.length ≤ 4 → (∀ i, i < 4 → ¬ (t!"#." <+: c.drop i)) →
      ∀ i, ¬ (t!"#." <+: c.drop i) := by
    intro c hc h i
    by_cases hi : i < 4
    · exact h i hi
    · rw [List.drop_eq_nil_of_le (by omega)]; simp
  simp only [demo, List.mem_cons, List.not_mem_nil, or_false, forall_eq_or_imp, forall_eq]
  refine ⟨⟨by decide, by decide, by simp, by simp⟩, ⟨by decide, by simp, by simp, by simp⟩,
    ⟨by decide, by decide, by simp, ?_⟩, ⟨by decide, by simp, by simp, ?_⟩⟩
  · exact fun _ => ⟨by simp, nodot _ (by simp) (by decide)⟩
  · exact fun _ => ⟨by simp, nodot _ (by simp) (by decide)⟩

end Diffx.C20
