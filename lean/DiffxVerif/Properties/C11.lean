import DiffxVerif.Lemmas.Header
/-!
# C11 — Header lines are accepted iff they match the specification header grammar

> A header line is accepted exactly when it has the form "#", 0-3 dots, a section
> name, ":", and optionally one space followed by key=value pairs separated by
> ", " with keys matching [A-Za-z][A-Za-z0-9_-]* and values matching
> [A-Za-z0-9/._-]+ in their entirety; every other line in header position is
> rejected with a parse error (never accepted, never another exception). Accepted
> options are reported verbatim, integer-valued ones as integers.

`Header.parseHeader valid h` is the model of `_read_header` from the regular
expression match on (`valid` = ids allowed at this point, C10);
`Spec.headerLine` / `Spec.GrammarOk` is the grammar.  The statements hold for
**every** byte string `h`.
-/
namespace Diffx.C11
open Diffx Diffx.Header

/-- **Grammar ⇒ accepted**, with the options the specification says. -/
theorem C11_accept (valid : List SecId) (sec : SecId) (pairs : List (Bytes × Bytes))
    (hg : Spec.GrammarOk sec pairs) (hv : sec ∈ valid) :
    parseHeader valid (Spec.headerLine sec pairs) = .ok ⟨sec, Spec.reported pairs⟩ :=
  parseHeader_headerLine valid sec pairs hg hv

/-- **Accepted ⇒ grammar.** Any line the reader accepts is a rendering of a
grammatical header, and the options reported are exactly those. -/
theorem C11_only_grammar (valid : List SecId) (h : Bytes) (hdr : Hdr)
    (hok : parseHeader valid h = .ok hdr) :
    ∃ pairs, Spec.GrammarOk hdr.sec pairs ∧ h = Spec.headerLine hdr.sec pairs ∧
      hdr.sec ∈ valid ∧ hdr.opts = Spec.reported pairs :=
  parseHeader_ok_grammar valid h hdr hok

/-- the two directions together: acceptance (for some allowed id) is membership
in the grammar's language -/
theorem C11_iff (valid : List SecId) (h : Bytes) :
    (∃ hdr, parseHeader valid h = .ok hdr) ↔
      ∃ sec pairs, Spec.GrammarOk sec pairs ∧ sec ∈ valid ∧ h = Spec.headerLine sec pairs := by
  constructor
  · rintro ⟨hdr, hok⟩
    obtain ⟨pairs, hg, hh, hv, _⟩ := C11_only_grammar valid h hdr hok
    exact ⟨hdr.sec, pairs, hg, hv, hh⟩
  · rintro ⟨sec, pairs, hg, hv, rfl⟩
    exact ⟨_, C11_accept valid sec pairs hg hv⟩

/-- **Rejection is always one of the four parse-error causes** (the reader turns
each into `DiffXParseError`; see `Reader.readHeader`): the result type has no
other inhabitant, and a rejected line is never also accepted. -/
theorem C11_reject_is_parse_error (valid : List SecId) (h : Bytes)
    (hn : ¬ ∃ sec pairs, Spec.GrammarOk sec pairs ∧ sec ∈ valid ∧ h = Spec.headerLine sec pairs) :
    ∃ e, parseHeader valid h = .error e := by
  cases hp : parseHeader valid h with
  | error e => exact ⟨e, rfl⟩
  | ok hdr => exact absurd ((C11_iff valid h).mp ⟨hdr, hp⟩) hn

/-- **Verbatim.** With distinct keys every pair is reported under its key with
its value converted by `int()` when it is an integer literal. -/
theorem C11_verbatim (pairs : List (Bytes × Bytes)) (hd : (pairs.map (·.1)).Nodup)
    (k v : Bytes) (hm : (k, v) ∈ pairs) :
    (Spec.reported pairs).get k = some (convert v) :=
  reported_get pairs hd k v hm

/-- nothing is reported that was not written -/
theorem C11_no_extra (pairs : List (Bytes × Bytes)) (k : Bytes) (hk : k ∉ pairs.map (·.1)) :
    (Spec.reported pairs).get k = none :=
  reported_get_none pairs k hk

/-- **Integers.** A plain decimal literal (optionally negative, at most 4300
digits) is reported as that integer … -/
theorem C11_int_plain (ds : Bytes) (hne : ds ≠ []) (hd : ∀ b ∈ ds, isDigit b = true)
    (hl : ds.length ≤ maxIntDigits) :
    convert ds = .int (digitsVal ds) ∧ convert (45 :: ds) = .int (-(digitsVal ds : Int)) :=
  convert_plain ds hne hd hl

/-- … and a value containing a letter, `.` or `/` is reported verbatim as a string. -/
theorem C11_str (v : Bytes) (b : UInt8) (hb : b ∈ v) (hc : isAlpha b = true ∨ b = 46 ∨ b = 47) :
    convert v = .str v :=
  convert_str v b hb hc

/-- **Known finding D18** (kept visible; the full "integers ⇔ plain decimal
literals" statement is false of code and model alike): Python's `int()` also
accepts `_` between digits, so the value `1_0` is reported as the integer 10. -/
theorem C11_int_underscore_witness : convert b!"1_0" = .int 10 := by decide

/-! ### tests -/
example : parseHeader [SecId.change] b!"#.change: a.=a" = .error (.badKey 10) := by decide
example : parseHeader [SecId.change] b!"#.change: key=a+b" = .error (.badVal 14) := by decide
example : parseHeader [SecId.mainPreamble] b!"#.preamble: mimetype=text/plain, length=12" =
    .ok ⟨SecId.mainPreamble, [(b!"mimetype", .str b!"text/plain"), (b!"length", .int 12)]⟩ := by decide
example : Spec.GrammarOk SecId.mainPreamble [(b!"mimetype", b!"text/plain"), (b!"length", b!"12")] := by
  refine ⟨by decide, ?_⟩
  intro p hp
  simp at hp
  rcases hp with rfl | rfl <;> decide

end Diffx.C11
