import DiffxVerif.Lemmas.LexerBridge
import DiffxVerif.Properties.C20
import DiffxVerif.Properties.C02Doc
/-!
# C20 (writer files) — the header clause for the files of the writer model

> … for UTF-8 DiffX files produced by the writer whose content contains no "#."
> sequence, no error token is produced and the header tokens are exactly the
> file's section headers in order.

`Properties/C20.lean` proves this clause (`C20_headers`) for a text given as a list of
`Lexer.Sec` (tag, option string, content — code points).  Here it is a theorem about **files**:

* `C20_rendered`: for every specification document (`Spec/Document.lean`) that is well-formed
  (`Spec.WF`), has no blank lines, and whose section contents are the UTF-8 encodings of texts
  in which no `#.` occurs: the file `Spec.render false doc` decodes as UTF-8, and lexing the
  decoded text yields as `tag` tokens exactly the header tags of the sections, in order, and no
  `error` token;
* `C20_writer_file`: the same for the bytes written by any accepted writer program
  (`Writer.run`), by `C02_conforms` (the bytes are the rendering of the program's document,
  which is well-formed and canonical).

The lexer sections are built from the specification sections (`LexerBridge.lexSecs`): rule from
the section name, tag `#`‥dots‥name`:`, option string `k=v, …` when there are options, content
the text.  `Lemmas/LexerBridge.lean` shows that their text encodes to the file (header lines are
ASCII by the header grammar), that each is `Sec.Benign` (the nine legal ids are the lexer's ten
tags less `#...preamble:`; no newline in an option string; containers are empty and content
sections are not: `SecOk.noContent`, `SecOk.nlNonempty` + `SecOk.nlTerminated`) and that they
form a `Document` (hierarchy: the first section is `#diffx:`, no later one is).
-/
namespace Diffx.C20
open Diffx Diffx.Lexer Diffx.RunRT

/-- ASCII bytes as code points -/
def asciiStr (b : Bytes) : Str := b.map (·.toNat)

/-- the header tag of a section as the lexer sees it: `#`, dots, name, `:` -/
def tagOf (s : Spec.Sec) : Str := asciiStr ([35] ++ s.id.bytes ++ [58])

/-- a UTF-8 file: the content of every section is the UTF-8 encoding of a text (one text per
section, `[]` for containers).  This is `List.Forall₂` (which core Lean does not have) of
`fun s t => Codecs.encChars Codecs.utf8Char t = some s.content`; the recursive definition lives in
Lemmas/LexerBridge.lean because the lemmas are stated with it, its equations are restated here:
```
def Utf8Doc : List Spec.Sec → List Str → Prop
  | [], [] => True
  | s :: doc, t :: texts => encChars utf8Char t = some s.content ∧ Utf8Doc doc texts
  | _, _ => False
``` -/
abbrev Utf8Doc : List Spec.Sec → List Str → Prop := LexerBridge.Utf8Doc

example : Utf8Doc [] [] ↔ True := Iff.rfl
example (s : Spec.Sec) (doc : List Spec.Sec) (t : Str) (texts : List Str) :
    Utf8Doc (s :: doc) (t :: texts) ↔
      Codecs.encChars Codecs.utf8Char t = some s.content ∧ Utf8Doc doc texts := Iff.rfl
example (s : Spec.Sec) (doc : List Spec.Sec) : Utf8Doc (s :: doc) [] ↔ False := Iff.rfl
example (t : Str) (texts : List Str) : Utf8Doc [] (t :: texts) ↔ False := Iff.rfl

/-- no `#.` anywhere in the text -/
def NoHashDot (t : Str) : Prop := ∀ i, ¬ (t!"#." <+: t.drop i)

/-- **Rendered documents.**  For every well-formed canonical (no blank lines) document whose
contents are UTF-8 texts without `#.`: the file decodes as UTF-8, and lexing the decoded text
yields as `tag` tokens exactly the section headers in order, and no error token. -/
theorem C20_rendered (subs : Subs) (hl : SubsLossless subs) (hq : SubsQuiet subs)
    (env : Env) (cfg : Config) (doc : List Spec.Sec) (texts : List Str)
    (hwf : Spec.WF env cfg doc) (hblank : ∀ s ∈ doc, s.blank = [])
    (hu : Utf8Doc doc texts) (hnd : ∀ t ∈ texts, NoHashDot t) :
    ∃ text, Codecs.decChars Codecs.utf8Step (Spec.render false doc) = some text ∧
      ((lex subs text).filter (·.kind == .tag)).map (·.val) = doc.map tagOf ∧
      ∀ t ∈ lex subs text, t.kind ≠ .error := by
  obtain ⟨text, h1, -, h2, h3⟩ := LexerBridge.rendered_lex subs hl hq env cfg doc texts hwf hblank hu hnd
  exact ⟨text, h1, h2, h3⟩

/-- **Writer files.**  The same for the bytes any accepted program writes (composition with
`C02_conforms`). -/
theorem C20_writer_file (subs : Subs) (hl : SubsLossless subs) (hq : SubsQuiet subs)
    (env : Env) (cfg : Config) (enc : Name) (calls : List Writer.Call)
    (hok : ∀ r ∈ (Writer.run env cfg (some enc) (Text.ofAscii b!"1.0") calls).2, r = .ok)
    (laws : ProgramLaws env cfg enc calls) (texts : List Str)
    (hu : Utf8Doc (C02.docOf env cfg enc calls laws) texts) (hnd : ∀ t ∈ texts, NoHashDot t) :
    ∃ text, Codecs.decChars Codecs.utf8Step
        (Writer.run env cfg (some enc) (Text.ofAscii b!"1.0") calls).1.out = some text ∧
      ((lex subs text).filter (·.kind == .tag)).map (·.val) = (C02.docOf env cfg enc calls laws).map tagOf ∧
      ∀ t ∈ lex subs text, t.kind ≠ .error := by
  obtain ⟨hout, hwf, hcanon⟩ := C02.C02_conforms env cfg enc calls hok laws
  rw [hout]
  exact C20_rendered subs hl hq env cfg _ texts hwf (fun s hs => (hcanon s hs).1) hu hnd

/-- the decoded text is the concatenation of the sections as the lexer sees them: header tag,
option string, newline, and the text of the content (so that the token positions of
`C20_contiguous` refer to it) -/
theorem C20_rendered_text (env : Env) (cfg : Config) (doc : List Spec.Sec) (texts : List Str)
    (hwf : Spec.WF env cfg doc) (hblank : ∀ s ∈ doc, s.blank = []) (hu : Utf8Doc doc texts) :
    Codecs.decChars Codecs.utf8Step (Spec.render false doc) =
      some ((LexerBridge.lexSecs doc texts).flatMap Sec.text) :=
  Codecs.decChars_encChars Codecs.stepOk_utf8 _ _
    (LexerBridge.enc_lexSecs doc texts hu (LexerBridge.wfFrom_facts env cfg doc _ hwf.sections) hblank)

/-! ## Non-vacuity: the closed program of `Properties/C01Run.lean` -/

theorem opaqueSubs_lossless : SubsLossless opaqueSubs := by
  constructor <;> intro s <;> simp [opaqueSubs, concatVals] <;> split <;> simp_all

theorem opaqueSubs_quiet : SubsQuiet opaqueSubs := by
  intro s t ht
  simp only [opaqueSubs, List.mem_append] at ht
  rcases ht with ht | ht <;> split at ht <;> simp at ht <;> subst ht <;> simp

/-- the texts of the six sections of `C02.runDoc` (ASCII, hence their own UTF-8 encoding) -/
def runTexts : List Str := [[], t!"  hi\n", [], [], t!"{}\n", t!"-a\n+b\n"]

theorem runTexts_utf8 : Utf8Doc C02.runDoc runTexts :=
  ⟨by decide, by decide, by decide, by decide, by decide, by decide, trivial⟩

theorem runTexts_noHashDot : ∀ t ∈ runTexts, NoHashDot t := by
  intro t ht
  apply LexerBridge.noHashDot_of_check
  revert t
  decide

/-- the file of `C02.runBytes` as text -/
def runText : Str :=
  t!"#diffx: encoding=latin1, version=1.0\n#.preamble: indent=2, length=5, line_endings=unix, mimetype=text/plain\n  hi\n#.change:\n#..file: encoding=utf-8\n#...meta: format=json, length=3\n{}\n#...diff: length=6, line_endings=unix, type=text\n-a\n+b\n"

/-- `C20_writer_file` instantiated on the program `C01.runProg`: its hypotheses are satisfiable,
and the header tags are those of the six sections -/
theorem C20_writer_file_instance :
    ∃ text, Codecs.decChars Codecs.utf8Step
        (Writer.run C01.runEnv C01.cfg0 (some C01.runEnc) (Text.ofAscii b!"1.0") C01.runProg).1.out = some text ∧
      ((lex opaqueSubs text).filter (·.kind == .tag)).map (·.val) =
        [t!"#diffx:", t!"#.preamble:", t!"#.change:", t!"#..file:", t!"#...meta:", t!"#...diff:"] ∧
      ∀ t ∈ lex opaqueSubs text, t.kind ≠ .error := by
  have hu : Utf8Doc (C02.docOf C01.runEnv C01.cfg0 C01.runEnc C01.runProg C01.runLaws) runTexts := by
    rw [C02.runDoc_eq]; exact runTexts_utf8
  obtain ⟨text, h1, h2, h3⟩ := C20_writer_file opaqueSubs opaqueSubs_lossless opaqueSubs_quiet
    C01.runEnv C01.cfg0 C01.runEnc C01.runProg C01.runProg_ok C01.runLaws runTexts hu runTexts_noHashDot
  refine ⟨text, h1, ?_, h3⟩
  rw [h2, C02.runDoc_eq]
  rfl

set_option maxRecDepth 8192 in
/-- … the decoding is true by evaluation as well -/
example : Codecs.decChars Codecs.utf8Step C02.runBytes = some runText := by decide +kernel

set_option maxRecDepth 8192 in
/-- … and so are the tokens of the decoded file -/
example : ((lex opaqueSubs runText).filter (·.kind == .tag)).map (·.val) =
      [t!"#diffx:", t!"#.preamble:", t!"#.change:", t!"#..file:", t!"#...meta:", t!"#...diff:"] ∧
    ((lex opaqueSubs runText).all (·.kind != .error)) = true := by decide +kernel

/-- the hypothesis on the contents is needed: a `#.` sequence in a content ends the section for
the lexer; here the second line of a two-line preamble is taken for a header (a file of two
sections, three `tag` tokens) -/
example : ((lex opaqueSubs t!"#diffx: version=1.0\n#.preamble: length=12\na\n#.change:\n").filter
      (·.kind == .tag)).map (·.val) = [t!"#diffx:", t!"#.preamble:", t!"#.change:"] := by decide

end Diffx.C20
