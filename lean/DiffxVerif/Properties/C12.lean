import DiffxVerif.Lemmas.ReaderFrame
/-!
# C12 — Unknown header options are carried through and change nothing else

> Adding any number of syntactically valid options the library does not know to
> any header of a well-formed file, at any position in the option list, leaves the
> reader's output unchanged except that each affected record's options
> additionally contain those keys with their values (integers converted).

The statements are about the reader model from **any** loop state (any line
number, any set of allowed ids, any encoding stack), so they apply to every
header of every file: the bytes before a header are identical in the original
and the extended file, hence so is the state in which the header is read.
-/
namespace Diffx.C12
open Diffx Diffx.Reader Diffx.Header

/-- the option names the reader looks up -/
def knownKeys : List Bytes := [b!"encoding", b!"length", b!"indent", b!"line_endings", b!"format", b!"version"]

/-- `pairs'` is `pairs` with one extra pair `(k, v)` inserted at position `i` -/
def Inserted (pairs pairs' : List (Bytes × Bytes)) (i : Nat) (k v : Bytes) : Prop :=
  i ≤ pairs.length ∧ pairs' = pairs.take i ++ (k, v) :: pairs.drop i

/-- **Header level.** Inserting a valid pair with a fresh key anywhere in the
option list: the header is still accepted, every other key reads as before and
the new key reads as its (converted) value. -/
theorem C12_header (valid : List SecId) (sec : SecId) (pairs pairs' : List (Bytes × Bytes)) (i : Nat)
    (k v : Bytes) (hi : Inserted pairs pairs' i k v)
    (hg : Spec.GrammarOk sec pairs) (hv : sec ∈ valid)
    (hk : keyOk k = true) (hvv : valOk v = true) (hf : k ∉ pairs.map (·.1)) :
    ∃ opts', parseHeader valid (Spec.headerLine sec pairs') = .ok ⟨sec, opts'⟩ ∧
      opts'.get k = some (convert v) ∧
      ∀ k', k' ≠ k → opts'.get k' = (Spec.reported pairs).get k' :=
  parseHeader_insert valid sec pairs pairs' i k v hi hg hv hk hvv hf

/-- **Section level.** Two option lists that agree on every key the reader looks
up lead to the same processing of the section: same content, same line, same
new state; only the record's `options` differ (they are the header's). -/
theorem C12_step (env : Env) (cfg : Config) (chunk : Nat) (l : Loop) (h₁ h₂ nl post : Bytes)
    (sec : SecId) (o₁ o₂ : Opts)
    (hnl : nl = [10] ∨ nl = [13, 10]) (hcr : l.st.fileCrlf = none ∨ l.st.fileCrlf = some (nl == [13, 10]))
    (hp₁ : parseHeader l.valid h₁ = .ok ⟨sec, o₁⟩) (hp₂ : parseHeader l.valid h₂ = .ok ⟨sec, o₂⟩)
    (hag : ∀ key ∈ knownKeys, o₁.get key = o₂.get key) :
    let l₁ := { l with st := { l.st with rest := h₁ ++ nl ++ post } }
    let l₂ := { l with st := { l.st with rest := h₂ ++ nl ++ post } }
    (stepSection env cfg chunk l₁).map (Option.map fun p => ({ p.1 with opts := o₂ }, p.2)) =
      stepSection env cfg chunk l₂ :=
  stepSection_opts_agree env cfg chunk l h₁ h₂ nl post sec o₁ o₂ hnl hcr hp₁ hp₂ hag

/-- **File level.** Extending the header that is about to be read: the rest of
the run is unchanged — same outcome, same records except that the first one
carries the extended options. -/
theorem C12_run (env : Env) (cfg : Config) (chunk : Nat) (l : Loop) (h₁ h₂ nl post : Bytes)
    (sec : SecId) (o₁ o₂ : Opts)
    (hnl : nl = [10] ∨ nl = [13, 10]) (hcr : l.st.fileCrlf = none ∨ l.st.fileCrlf = some (nl == [13, 10]))
    (hp₁ : parseHeader l.valid h₁ = .ok ⟨sec, o₁⟩) (hp₂ : parseHeader l.valid h₂ = .ok ⟨sec, o₂⟩)
    (hag : ∀ key ∈ knownKeys, o₁.get key = o₂.get key) (f₁ f₂ : Nat)
    (hf₁ : (h₁ ++ nl ++ post).length < f₁) (hf₂ : (h₂ ++ nl ++ post).length < f₂) :
    let l₁ := { l with st := { l.st with rest := h₁ ++ nl ++ post } }
    let l₂ := { l with st := { l.st with rest := h₂ ++ nl ++ post } }
    let run₁ := readLoop env cfg chunk f₁ l₁
    let run₂ := readLoop env cfg chunk f₂ l₂
    run₂.2 = run₁.2 ∧ run₂.1.length = run₁.1.length ∧ run₂.1.tail = run₁.1.tail ∧
      ∀ r₁ r₂, run₁.1.head? = some r₁ → run₂.1.head? = some r₂ → r₂ = { r₁ with opts := o₂ } :=
  readLoop_opts_agree env cfg chunk l h₁ h₂ nl post sec o₁ o₂ hnl hcr hp₁ hp₂ hag f₁ f₂ hf₁ hf₂

end Diffx.C12
