import DiffxVerif.Lemmas.Split
/-!
# C16 — Line splitting is lossless and consistent between its two modes

> For every non-empty byte string and every newline sequence the library uses,
> splitting with line ends kept and concatenating returns the original bytes;
> every returned line except possibly the last ends with the newline and
> contains it nowhere else; the number of lines equals the number of newline
> occurrences, plus one if the data does not end with a newline; and splitting
> without line ends equals the kept-ends result with exactly one trailing
> newline removed from each terminated line.

All theorems are about `Diffx.splitLines`, the model of
`pydiffx.utils.text.split_lines`, for **every** list `data` over any type with
decidable equality and **every** non-empty *unbordered* newline `nl` (no
proper prefix of `nl` is a suffix of `nl`).  `C16_library_newlines` shows that
the ten newline byte sequences the library can produce for LF / CRLF in 8-bit,
UTF-16 and UTF-32 encodings (both byte orders) satisfy the hypothesis, so the
hypotheses are not vacuous.  (For a bordered "newline" such as `aa` the
statements are false of the Python code as well: `b'aaa'.split(b'aa')`.)
-/
namespace Diffx.C16
open Diffx
variable {α : Type} [DecidableEq α]

/-- splitting with ends kept and concatenating returns the original bytes -/
theorem C16_join (nl data : List α) (hn : nl ≠ []) (hu : Unbordered nl) :
    (splitLines data nl true).flatten = data :=
  splitLines_keep_flatten nl data hn hu

/-- every returned line except possibly the last ends with the newline -/
theorem C16_ends (nl data : List α) (hn : nl ≠ []) (hu : Unbordered nl) :
    ∀ l ∈ (splitLines data nl true).dropLast, nl <:+ l :=
  splitLines_keep_ends nl data hn hu

/-- the last line ends with the newline exactly when the data does -/
theorem C16_last (nl data : List α) (hn : nl ≠ []) (hu : Unbordered nl) (hd : data ≠ []) :
    ∃ l, (splitLines data nl true).getLast? = some l ∧ (nl <:+ l ↔ nl <:+ data) :=
  splitLines_keep_last nl data hn hu hd

/-- … and contains it nowhere else: any occurrence of `nl` in a returned line is
the one at its very end -/
theorem C16_once (nl data : List α) (hn : nl ≠ []) (hu : Unbordered nl) :
    ∀ l ∈ splitLines data nl true, ∀ i, nl <+: l.drop i → i + nl.length = l.length :=
  splitLines_keep_once nl data hn hu

/-- the number of lines equals the number of newline occurrences (counted by an
independent left-to-right scan, Python's `bytes.count`), plus one if the data
does not end with a newline -/
theorem C16_count (nl data : List α) (hn : nl ≠ []) (hu : Unbordered nl) (hd : data ≠ []) :
    (splitLines data nl true).length = countOcc nl data + (if nl <:+ data then 0 else 1) :=
  splitLines_keep_length nl data hn hu hd

/-- `countOcc` really is "the number of occurrences": for an unbordered newline
every position at which `nl` occurs is counted -/
theorem C16_count_all (nl data : List α) (hn : nl ≠ []) (hu : Unbordered nl) :
    countOcc nl data = ((List.range (data.length + 1)).filter (fun i => nl.isPrefixOf (data.drop i))).length :=
  countOcc_eq_all nl data hn hu

/-- splitting without line ends = kept-ends result with exactly one trailing
newline removed from each terminated line -/
theorem C16_modes (nl data : List α) (hn : nl ≠ []) (hu : Unbordered nl) :
    splitLines data nl false = (splitLines data nl true).map (stripOneEnd nl) :=
  splitLines_modes nl data hn hu

/-- both modes return the same number of lines -/
theorem C16_modes_length (nl data : List α) (hn : nl ≠ []) (hu : Unbordered nl) :
    (splitLines data nl false).length = (splitLines data nl true).length := by
  rw [C16_modes nl data hn hu, List.length_map]

/-- The newline byte sequences the library uses: LF and CRLF in 8-bit
encodings, UTF-16-LE/BE, UTF-32-LE/BE (BOM-free). -/
def libraryNewlines : List Bytes :=
  [[10], [13, 10],
   [10, 0], [13, 0, 10, 0], [0, 10], [0, 13, 0, 10],
   [10, 0, 0, 0], [13, 0, 0, 0, 10, 0, 0, 0], [0, 0, 0, 10], [0, 0, 0, 13, 0, 0, 0, 10]]

/-- non-vacuity: every library newline meets the hypotheses of the theorems -/
theorem C16_library_newlines : ∀ nl ∈ libraryNewlines, nl ≠ [] ∧ Unbordered nl := by decide

/-- a concrete instance (a test, not the claim): UTF-16-LE text with a
misaligned `0A 00` inside a character -/
example : splitLines ([65, 10, 10, 0, 0x0A, 0x41, 10, 0, 66, 0] : Bytes) [10, 0] true
    = [[65, 10, 10, 0], [0x0A, 0x41, 10, 0], [66, 0]] := by decide

end Diffx.C16
