import DiffxVerif.Lemmas.WriterConforms
import DiffxVerif.Properties.C01Run
import DiffxVerif.Properties.C03File
/-!
# C02 (whole outputs) — what the writer emits is the rendering of a well-formed, canonical
# specification document

> Every byte stream produced by an accepted sequence of writer calls conforms to
> the DiffX 1.0 specification and is canonical: each header is ASCII, matches the
> spec header grammar with options in alphabetical order separated by ", ", uses
> one of the nine legal section ids in an order the section hierarchy allows;
> every content header carries length equal to the exact number of content bytes
> up to the next header; content ends with the newline of its declared line-ending
> kind encoded (BOM-free) in the section's effective encoding; preamble
> indentation is ASCII spaces added to every line after encoding; …  The bytes
> equal, byte for byte, what an independent serializer derived from the
> specification produces for the same calls.

`Properties/C02.lean` states this one call at a time.  This file states it for the **whole
output of every accepted program** (constructor + any list of public calls), against the
reader-free specification of DiffX documents of `Spec/Document.lean`:

* `docOf env cfg enc calls laws` is the specification document (`List Spec.Sec`) of the program,
  defined by recursion over the calls from the laws' data (the prepared content bytes, the
  `line_endings` value) and the option lists the calls hand to `_write_section_header`
  (`C02.writtenPairs`: the options that are not `None`, in key order, values as `%s` renders
  them); it never looks at the writer's output;
* `C02_conforms`: the bytes written are `Spec.render false (docOf …)` — header lines
  `#`‥dots‥name`:` ` ` `k=v` joined by `, `, LF, then the content — the document is
  `Spec.WF` (hierarchy, header grammar, distinct keys, `version`, `length` = number of content
  bytes, `line_endings`, `indent`, `format`, content ends with the newline of its kind encoded
  BOM-free in the effective encoding, decodable, JSON object), and it is canonical (no blank
  lines, options in ascending key order);
* `C02_read_back`: hence (`C03_file`) every conforming reader yields `Spec.reading (docOf …)`:
  a second route to the round trip of `C01_run`, through the specification;
* `C02_reading_eq_expected`: the two routes agree — the specification's reading of the document
  is the list of records `C01_run` expects (proved section by section, no reader function);
* `C02_run_via_spec`: hence the statement of `C01_run` again, this time writer ↔ specification ↔
  reader, not using the writer ↔ reader simulation.

Every field of `Spec.WF` follows from `ProgramLaws` (argument well-formedness, codec laws, JSON
laws: the hypotheses of `C01_run`) and acceptance; no further law is needed.
-/
namespace Diffx.C02
open Diffx Diffx.RunRT Diffx.Conform

/-- **the specification document a program writes**: the main header, then one section per call -/
def docOf (env : Env) (cfg : Config) (enc : Name) (calls : List Writer.Call)
    (laws : ProgramLaws env cfg enc calls) : List Spec.Sec :=
  mainSec enc :: docFrom env cfg (Writer.init (some enc) (Text.ofAscii b!"1.0")).1 calls laws.calls

/-- the section a call contributes (`Conform.secOne`), written out for the three content calls
and the two container calls -/
theorem docOf_section_preamble (env : Env) (cfg : Config) (st : Writer.St) (t : Text) (enc : Option Name)
    (indent : Option Int) (le mime : Option Text) (L : PreambleLaws env cfg st t enc indent le) :
    secOne env cfg st (.preamble (.str t) enc indent le mime) L =
      { id := ⟨st.level, .preamble⟩,
        opts := writtenPairs
          (contentOpts [(b!"mimetype", mime.map Writer.HVal.str)] enc indent L.data.length true L.leOut),
        content := L.data } := rfl

theorem docOf_section_meta (env : Env) (cfg : Config) (st : Writer.St) (j : Json) (enc : Option Name)
    (fmt : Text) (L : MetaLaws env cfg st j enc) :
    secOne env cfg st (.metadata (.dict j) enc fmt) L =
      { id := ⟨st.level, .metadata⟩,
        opts := writtenPairs
          (contentOpts [(b!"format", some (Writer.HVal.str fmt))] enc none L.tl.plain.length false L.leOut),
        content := L.tl.plain } := rfl

theorem docOf_section_diff (env : Env) (cfg : Config) (st : Writer.St) (b : Bytes) (dtype : Option Text)
    (enc : Option Name) (le : Option Text) (L : DiffCallLaws env cfg st b enc le) :
    secOne env cfg st (.diff (.bytes b) dtype enc le) L =
      { id := ⟨st.level, .diff⟩,
        opts := writtenPairs
          (contentOpts [(b!"type", dtype.map Writer.HVal.str)] enc none L.data.length true L.leOut),
        content := L.data } := rfl

theorem docOf_section_change (env : Env) (cfg : Config) (st : Writer.St) (enc : Option Name)
    (L : CallLaws env cfg st (.newChange enc)) :
    secOne env cfg st (.newChange enc) L =
      { id := ⟨1, .change⟩, opts := writtenPairs [(b!"encoding", enc.map Writer.HVal.str)] } := rfl

theorem docOf_section_file (env : Env) (cfg : Config) (st : Writer.St) (enc : Option Name)
    (L : CallLaws env cfg st (.newFile enc)) :
    secOne env cfg st (.newFile enc) L =
      { id := ⟨2, .file⟩, opts := writtenPairs [(b!"encoding", enc.map Writer.HVal.str)] } := rfl

/-- one section per call, after the main header -/
theorem docOf_length (env : Env) (cfg : Config) (enc : Name) (calls : List Writer.Call)
    (laws : ProgramLaws env cfg enc calls) : (docOf env cfg enc calls laws).length = calls.length + 1 := by
  have key : ∀ (cs : List Writer.Call) (st : Writer.St) (Ls : ProgramLawsFrom env cfg st cs),
      (docFrom env cfg st cs Ls).length = cs.length := by
    intro cs
    induction cs with
    | nil => intro st Ls; rfl
    | cons c cs ih =>
      intro st Ls
      obtain ⟨L, Ls'⟩ := Ls
      simp only [docFrom, List.length_cons, ih]
  simp only [docOf, List.length_cons, key]

/-- **The bytes are the rendering.**  What an accepted program wrote is, byte for byte, the
specification's rendering (LF header lines) of its document. -/
theorem C02_out_eq_render (env : Env) (cfg : Config) (enc : Name) (calls : List Writer.Call)
    (hok : ∀ r ∈ (Writer.run env cfg (some enc) (Text.ofAscii b!"1.0") calls).2, r = .ok)
    (laws : ProgramLaws env cfg enc calls) :
    (Writer.run env cfg (some enc) (Text.ofAscii b!"1.0") calls).1.out =
      Spec.render false (docOf env cfg enc calls laws) := by
  obtain ⟨hinit, hall, hrun⟩ := run_ok env cfg (some enc) (Text.ofAscii b!"1.0") calls hok
  obtain ⟨header, hr, hi⟩ := init_ok_inv enc hinit
  rw [hrun, runFrom_out_render env cfg calls _ hall laws.calls]
  unfold docOf
  rw [SpecFile.render_cons]
  have h0 : (Writer.init (some enc) (Text.ofAscii b!"1.0")).1.out = Spec.renderSec false (mainSec enc) := by
    rw [hi]
    have := renderSec_written ⟨0, .diffx⟩ (mainOpts enc) header [] hr
    rw [List.append_nil] at this
    exact this.symm
  rw [h0]

/-- **Canonical form.**  No blank lines; in every header the options are in ascending key order
(no acceptance needed: this is how the document is defined). -/
theorem C02_canonical (env : Env) (cfg : Config) (enc : Name) (calls : List Writer.Call)
    (laws : ProgramLaws env cfg enc calls) :
    ∀ s ∈ docOf env cfg enc calls laws, s.blank = [] ∧ (s.opts.map (·.1)).Pairwise (· ≤ ·) := by
  intro s hs
  simp only [docOf, List.mem_cons] at hs
  rcases hs with rfl | hs
  · exact ⟨rfl, writtenPairs_sorted _⟩
  · exact docFrom_canonical env cfg calls _ laws.calls s hs

/-- **Well-formedness.**  The document of an accepted program is structurally well-formed in the
sense of the specification: every section is `Spec.SecOk` where it stands. -/
theorem C02_wf (env : Env) (cfg : Config) (enc : Name) (calls : List Writer.Call)
    (hok : ∀ r ∈ (Writer.run env cfg (some enc) (Text.ofAscii b!"1.0") calls).2, r = .ok)
    (laws : ProgramLaws env cfg enc calls) :
    Spec.WF env cfg (docOf env cfg enc calls laws) := by
  obtain ⟨hinit, hall, _⟩ := run_ok env cfg (some enc) (Text.ofAscii b!"1.0") calls hok
  obtain ⟨header, _, hi⟩ := init_ok_inv enc hinit
  have I : Inv (Writer.init (some enc) (Text.ofAscii b!"1.0")).1
      (Spec.Ctx.start.next env cfg (mainSec enc)) := by
    rw [hi]
    exact inv_init env cfg enc laws.encOk header
  refine ⟨by simp [docOf], ?_⟩
  exact ⟨secOk_main env cfg enc laws.encOk, (conforms_from env cfg calls _ _ I hall laws.calls).1⟩

/-- **Whole-output conformance.**  For every accepted program: the bytes written equal the
specification's rendering of the program's document; the document is well-formed; and it is
canonical (no blank lines, options sorted by key). -/
theorem C02_conforms (env : Env) (cfg : Config) (enc : Name) (calls : List Writer.Call)
    (hok : ∀ r ∈ (Writer.run env cfg (some enc) (Text.ofAscii b!"1.0") calls).2, r = .ok)
    (laws : ProgramLaws env cfg enc calls) :
    (Writer.run env cfg (some enc) (Text.ofAscii b!"1.0") calls).1.out =
      Spec.render false (docOf env cfg enc calls laws) ∧
    Spec.WF env cfg (docOf env cfg enc calls laws) ∧
    (∀ s ∈ docOf env cfg enc calls laws, s.blank = [] ∧ (s.opts.map (·.1)).Pairwise (· ≤ ·)) :=
  ⟨C02_out_eq_render env cfg enc calls hok laws, C02_wf env cfg enc calls hok laws,
    C02_canonical env cfg enc calls laws⟩

/-- **The round trip through the specification.**  The reader (any positive block size), run on
what the program wrote, yields the specification's reading of the program's document and ends
normally: `C02_conforms` composed with the whole-file theorem `C03_file`. -/
theorem C02_read_back (env : Env) (cfg : Config) (chunk : Nat) (hc : 0 < chunk) (enc : Name)
    (calls : List Writer.Call)
    (hok : ∀ r ∈ (Writer.run env cfg (some enc) (Text.ofAscii b!"1.0") calls).2, r = .ok)
    (laws : ProgramLaws env cfg enc calls) :
    Reader.readAll env cfg chunk (Writer.run env cfg (some enc) (Text.ofAscii b!"1.0") calls).1.out =
      (Spec.reading env cfg (docOf env cfg enc calls laws), .done) := by
  rw [C02_out_eq_render env cfg enc calls hok laws]
  exact C03.C03_file env cfg chunk hc false _ (C02_wf env cfg enc calls hok laws)

/-- **The two routes agree.**  The specification's reading of the program's document is exactly
the list of records the direct simulation `C01_run` expects (same ids, logical lines, options —
both in ascending key order with integers converted — and contents).  Proved without any reader
function: section by section, `Spec.recOf` / `Spec.linesOf` of the written section equal
`RunRT.expectedOne` (`Conform.step_conforms`). -/
theorem C02_reading_eq_expected (env : Env) (cfg : Config) (enc : Name) (calls : List Writer.Call)
    (hok : ∀ r ∈ (Writer.run env cfg (some enc) (Text.ofAscii b!"1.0") calls).2, r = .ok)
    (laws : ProgramLaws env cfg enc calls) :
    Spec.reading env cfg (docOf env cfg enc calls laws) = expectedRecords env cfg enc calls laws := by
  obtain ⟨hinit, hall, _⟩ := run_ok env cfg (some enc) (Text.ofAscii b!"1.0") calls hok
  obtain ⟨header, _, hi⟩ := init_ok_inv enc hinit
  have I : Inv (Writer.init (some enc) (Text.ofAscii b!"1.0")).1
      (Spec.Ctx.start.next env cfg (mainSec enc)) := by
    rw [hi]
    exact inv_init env cfg enc laws.encOk header
  obtain ⟨h1, h2⟩ := container_rec env cfg Spec.Ctx.start (mainSec enc)
    (secOk_main env cfg enc laws.encOk).toHeaderOk rfl
  have hline : (Spec.Ctx.start.next env cfg (mainSec enc)).line = 1 := by
    rw [SpecFile.next_line, h2]
    rfl
  have hr := (conforms_from env cfg calls _ _ I hall laws.calls).2
  rw [hline] at hr
  unfold Spec.reading docOf expectedRecords
  simp only [Spec.readFrom]
  rw [hr, h1]
  rfl

/-- **`C01_run` re-derived through the specification**: `C02_read_back` and
`C02_reading_eq_expected` give the whole-sequence round trip without the writer ↔ reader
simulation of `Lemmas/RunRoundTrip.lean` (`sim_step`, `sim_run`): the writer is compared with the
specification (`C02_conforms`), the reader with the specification (`C03_file`). -/
theorem C02_run_via_spec (env : Env) (cfg : Config) (chunk : Nat) (hc : 0 < chunk) (enc : Name)
    (calls : List Writer.Call)
    (hok : ∀ r ∈ (Writer.run env cfg (some enc) (Text.ofAscii b!"1.0") calls).2, r = .ok)
    (laws : ProgramLaws env cfg enc calls) :
    Reader.readAll env cfg chunk (Writer.run env cfg (some enc) (Text.ofAscii b!"1.0") calls).1.out =
      (expectedRecords env cfg enc calls laws, .done) := by
  rw [C02_read_back env cfg chunk hc enc calls hok laws, C02_reading_eq_expected env cfg enc calls hok laws]

/-! ## Non-vacuity: the closed program of `Properties/C01Run.lean` -/

/-- the document of `C01.runProg`, written out -/
def runDoc : List Spec.Sec :=
  [{ id := ⟨0, .diffx⟩, opts := [(b!"encoding", b!"latin1"), (b!"version", b!"1.0")] },
   { id := ⟨1, .preamble⟩,
     opts := [(b!"indent", b!"2"), (b!"length", b!"5"), (b!"line_endings", b!"unix"),
              (b!"mimetype", b!"text/plain")],
     content := b!"  hi\n" },
   { id := ⟨1, .change⟩ },
   { id := ⟨2, .file⟩, opts := [(b!"encoding", b!"utf-8")] },
   { id := ⟨3, .metadata⟩, opts := [(b!"format", b!"json"), (b!"length", b!"3")], content := b!"{}\n" },
   { id := ⟨3, .diff⟩,
     opts := [(b!"length", b!"6"), (b!"line_endings", b!"unix"), (b!"type", b!"text")],
     content := b!"-a\n+b\n" }]

set_option maxRecDepth 8192 in
theorem runDoc_eq : docOf C01.runEnv C01.cfg0 C01.runEnc C01.runProg C01.runLaws = runDoc := rfl

/-- the file -/
def runBytes : Bytes :=
  b!"#diffx: encoding=latin1, version=1.0\n#.preamble: indent=2, length=5, line_endings=unix, mimetype=text/plain\n  hi\n#.change:\n#..file: encoding=utf-8\n#...meta: format=json, length=3\n{}\n#...diff: length=6, line_endings=unix, type=text\n-a\n+b\n"

set_option maxRecDepth 8192 in
theorem runDoc_render : Spec.render false runDoc = runBytes := rfl

set_option maxRecDepth 8192 in
/-- the writer's bytes, by evaluation -/
theorem runBytes_written :
    (Writer.run C01.runEnv C01.cfg0 (some C01.runEnc) (Text.ofAscii b!"1.0") C01.runProg).1.out = runBytes := rfl

/-- `C02_conforms` instantiated: the bytes, well-formedness, canonical form -/
theorem C02_conforms_instance :
    (Writer.run C01.runEnv C01.cfg0 (some C01.runEnc) (Text.ofAscii b!"1.0") C01.runProg).1.out =
      Spec.render false runDoc ∧
    Spec.WF C01.runEnv C01.cfg0 runDoc ∧
    (∀ s ∈ runDoc, s.blank = [] ∧ (s.opts.map (·.1)).Pairwise (· ≤ ·)) := by
  rw [← runDoc_eq]
  exact C02_conforms C01.runEnv C01.cfg0 C01.runEnc C01.runProg C01.runProg_ok C01.runLaws

/-- every field of `SecOk` is a decidable closed proposition -/
local macro "secok" : tactic =>
  `(tactic| (refine ⟨⟨?_, ?_, ?_, ?_⟩, ?_, ?_, ?_, ?_, ?_, ?_, ?_, ?_, ?_, ?_, ?_, ?_, ?_, ?_⟩ <;> decide))

/-- … well-formedness is true by evaluation as well -/
example : Spec.WF C01.runEnv C01.cfg0 runDoc :=
  ⟨by decide, by secok, by secok, by secok, by secok, by secok, by secok, trivial⟩

/-- the specification's reading of the document is the list of records of `C01_run_instance` -/
theorem C02_reading_instance : Spec.reading C01.runEnv C01.cfg0 runDoc = C01.runRecords := by
  rw [← runDoc_eq, ← C01.runRecords_eq]
  exact C02_reading_eq_expected C01.runEnv C01.cfg0 C01.runEnc C01.runProg C01.runProg_ok C01.runLaws

set_option maxRecDepth 8192 in
/-- … a closed equation that is true by evaluation as well -/
example : Spec.reading C01.runEnv C01.cfg0 runDoc = C01.runRecords := rfl

/-- `C02_read_back` instantiated (block size 7) -/
theorem C02_read_back_instance :
    Reader.readAll C01.runEnv C01.cfg0 7 runBytes = (Spec.reading C01.runEnv C01.cfg0 runDoc, .done) := by
  rw [← runBytes_written, ← runDoc_eq]
  exact C02_read_back C01.runEnv C01.cfg0 7 (by decide) C01.runEnc C01.runProg C01.runProg_ok C01.runLaws

end Diffx.C02
