import DiffxVerif.Lemmas.JsonDomEq
import DiffxVerif.Properties.C01Closed
/-!
# The laws of `json`, on the domain as `Model/JsonDom.lean` states it

`jsonLaws_closed` (Properties/C01Closed.lean) is stated on `JsonText.Dom`, the predicate shaped for
the proofs.  `Lemmas/JsonDomEq.lean` proves it equal to `Json.Representable JsonText.FloatLex`, the
predicate of `Model/JsonDom.lean` that the reader is asked to accept as "the `Json` values that
present a Python object".  So the laws hold on that domain.
-/
namespace Diffx.C01
open Diffx

/-- **the laws of `json`, proved** for the Lean model of `json.dumps` / `json.loads`, on
`Json.Representable` with the float lexemes of `JsonText.FloatLex` -/
theorem jsonLaws_representable :
    JsonLaws (Json.Representable JsonText.FloatLex) JsonText.dumps JsonText.loads :=
  JsonLaws.mono (fun j h => (JsonText.dom_iff_representable j).mpr h) jsonLaws_closed

end Diffx.C01
