import DiffxVerif.Lemmas.RunRoundTrip
import DiffxVerif.Properties.C01
/-!
# C01 (whole sequences) — the streaming write → read round trip, composed over a program

> Whatever sequence of sections a program writes with the streaming writer,
> reading the produced bytes back with the streaming reader yields exactly one
> record per written section, in order, with the same section id and nesting
> level, the options that were given or derived, and content equal to what was
> written.

`Properties/C01.lean` proves the round trip section by section.  This file composes
it over **every accepted program** (constructor + any list of public calls):

* `ProgramLaws env cfg enc calls` (Lemmas/RunRoundTrip.lean) holds only
  (i) well-formedness of the arguments (codec names are non-empty option values that
  `int()` rejects, indents are `None` or `≥ 0`, content sizes fit `fp.read`),
  (ii) codec laws for the texts / byte strings that occur (`TextLaws`, `DiffLaws`),
  (iii) JSON laws for metadata calls (`dumps`, `loads` of the decoded text is an
  object) and the fact that `guess_line_endings` on the prepared metadata bytes finds
  the newline the writer used (the writer emits no `line_endings` option there).
  It mentions neither `readAll`, `readLoop`, `stepSection` nor `readContent`.
* `expectedRecords` is defined by recursion over the calls from the laws' data
  and the options the writer hands to `_write_section_header`
  (`Spec.reported (C02.writtenPairs …)`); it calls no `Reader.*` function.
* `C01_sim_step` is the simulation step, `C01_sim_run` the list induction,
  `C01_run` the theorem about `Writer.run` / `Reader.readAll`.
-/
namespace Diffx.C01
open Diffx Diffx.RunRT

/-- **Simulation step.** From a writer state and a reader loop state that are `Related`
(same encoding stack, the reader allows what may follow the last section written, same
container level, file newline convention fixed to LF, `line` logical lines read), one
accepted writer call appends some bytes `b`; one reader iteration on `b ++ post` (whatever
`post`) yields the expected record, consumes exactly `b`, and re-establishes the relation. -/
theorem C01_sim_step (env : Env) (cfg : Config) (chunk : Nat) (hc : 0 < chunk) (st : Writer.St)
    (l : Reader.Loop) (line : Nat) (R : Related st l line) (c : Writer.Call)
    (hok : (Writer.step env cfg st c).2 = .ok) (L : CallLaws env cfg st c) :
    ∃ b, b ≠ [] ∧ (Writer.step env cfg st c).1.out = st.out ++ b ∧
      ∀ post, l.st.rest = b ++ post →
        ∃ l', Reader.stepSection env cfg chunk l = .ok (some ((expectedOne env cfg st line c L).1, l')) ∧
          Related (Writer.step env cfg st c).1 l' (line + (expectedOne env cfg st line c L).2) ∧
          l'.st.rest = post :=
  sim_step env cfg chunk hc st l line R c hok L

/-- **List induction.** From related states, the reader loop run on exactly what the
remaining (accepted) calls write yields their expected records and ends normally. -/
theorem C01_sim_run (env : Env) (cfg : Config) (chunk : Nat) (hc : 0 < chunk) (cs : List Writer.Call)
    (st : Writer.St) (l : Reader.Loop) (line : Nat) (R : Related st l line)
    (hok : AllOk env cfg st cs) (Ls : ProgramLawsFrom env cfg st cs)
    (hrest : st.out ++ l.st.rest = (runFrom env cfg st cs).out)
    (fuel : Nat) (hf : l.st.rest.length < fuel) :
    Reader.readLoop env cfg chunk fuel l = (expectedFrom env cfg st line cs Ls, .done) :=
  sim_run env cfg chunk hc cs st l line R hok Ls hrest fuel hf

/-- **Whole-sequence round trip.** For every accepted program the reader, run (with any
positive block size) on the bytes the writer produced, yields exactly the expected records —
one per written section, in order, with its id, logical line number, options and content —
and then ends normally. -/
theorem C01_run (env : Env) (cfg : Config) (chunk : Nat) (hc : 0 < chunk)
    (enc : Name) (calls : List Writer.Call)
    (hok : ∀ r ∈ (Writer.run env cfg (some enc) (Text.ofAscii b!"1.0") calls).2, r = .ok)
    (laws : ProgramLaws env cfg enc calls) :
    Reader.readAll env cfg chunk (Writer.run env cfg (some enc) (Text.ofAscii b!"1.0") calls).1.out
      = (expectedRecords env cfg enc calls laws, .done) :=
  run_roundtrip env cfg chunk hc enc calls hok laws

/-- one record per call, after the main record -/
theorem C01_run_length (env : Env) (cfg : Config) (enc : Name) (calls : List Writer.Call)
    (laws : ProgramLaws env cfg enc calls) :
    (expectedRecords env cfg enc calls laws).length = calls.length + 1 := by
  have key : ∀ (cs : List Writer.Call) (st : Writer.St) (line : Nat) (Ls : ProgramLawsFrom env cfg st cs),
      (expectedFrom env cfg st line cs Ls).length = cs.length := by
    intro cs
    induction cs with
    | nil => intro st line Ls; rfl
    | cons c cs ih =>
      intro st line Ls
      obtain ⟨L, Ls'⟩ := Ls
      simp only [expectedFrom, List.length_cons, ih]
  simp only [expectedRecords, List.length_cons, key]

/-- **An accepted preamble call had a non-negative indent.** The `indentOk` law of
`PreambleLaws` (`indent` is `None` or `≥ 0`) is implied by acceptance: the writer rejects a
negative preamble indent. -/
theorem C01_accepted_indent_nonneg (env : Env) (cfg : Config) (st : Writer.St) (text : Writer.Arg)
    (enc : Option Name) (n : Int) (le : Option Text) (mime : Option Text)
    (hok : (Writer.step env cfg st (.preamble text enc (some n) le mime)).2 = .ok) : 0 ≤ n :=
  Writer.step_preamble_ok_indent_nonneg env cfg st text enc n le mime hok

/-- **An accepted call had a well-formed encoding name.** The `encOk` law of every
`CallLaws` (`NameOk`: the name is ASCII, made of option-value characters, and not something
`int()` accepts) is implied by acceptance: `_write_section_header` refuses any other value
(`DiffXOptionValueError`).  `Writer.callEncoding c` is the call's own `encoding=` argument —
`new_change` / `new_file` as well as `add_preamble` / `add_meta` / `add_diff`. -/
theorem C01_accepted_nameOk (env : Env) (cfg : Config) (st : Writer.St) (c : Writer.Call) (n : Name)
    (hn : Writer.callEncoding c = some n) (hok : (Writer.step env cfg st c).2 = .ok) : NameOk n :=
  (nameOk_iff_not_refused n).2 (Writer.step_ok_enc env cfg st c n hn hok)

/-- … as the `EncOk` law itself -/
theorem C01_accepted_encOk (env : Env) (cfg : Config) (st : Writer.St) (c : Writer.Call)
    (hok : (Writer.step env cfg st c).2 = .ok) : EncOk (Writer.callEncoding c) :=
  fun n hn => C01_accepted_nameOk env cfg st c n hn hok

/-- … spelled out for the container calls -/
theorem C01_accepted_container_nameOk (env : Env) (cfg : Config) (st : Writer.St) (n : Name) :
    ((Writer.step env cfg st (.newChange (some n))).2 = .ok → NameOk n) ∧
    ((Writer.step env cfg st (.newFile (some n))).2 = .ok → NameOk n) :=
  ⟨C01_accepted_nameOk env cfg st _ n rfl, C01_accepted_nameOk env cfg st _ n rfl⟩

/-- … and for the content calls that carry their own encoding -/
theorem C01_accepted_content_nameOk (env : Env) (cfg : Config) (st : Writer.St) (n : Name) :
    (∀ text indent le mime,
      (Writer.step env cfg st (.preamble text (some n) indent le mime)).2 = .ok → NameOk n) ∧
    (∀ m fmt, (Writer.step env cfg st (.metadata m (some n) fmt)).2 = .ok → NameOk n) ∧
    (∀ content dtype le, (Writer.step env cfg st (.diff content dtype (some n) le)).2 = .ok → NameOk n) :=
  ⟨fun _ _ _ _ => C01_accepted_nameOk env cfg st _ n rfl,
   fun _ _ => C01_accepted_nameOk env cfg st _ n rfl,
   fun _ _ _ => C01_accepted_nameOk env cfg st _ n rfl⟩

/-- **An accepted constructor call had a well-formed encoding name**: the `encOk` field of
`ProgramLaws` is implied by `DiffXWriter(fp, encoding=n, version=v)` not raising. -/
theorem C01_init_nameOk (n : Name) (v : Text) (hok : (Writer.init (some n) v).2 = .ok) : NameOk n :=
  (nameOk_iff_not_refused n).2 (Writer.init_ok_enc n v hok)

/-- conversely a name that is not `NameOk` is refused by every call that carries it:
the call does not succeed and the writer is unchanged -/
theorem C01_not_nameOk_rejected (env : Env) (cfg : Config) (st : Writer.St) (c : Writer.Call) (n : Name)
    (hn : Writer.callEncoding c = some n) (hbad : ¬ NameOk n) :
    (Writer.step env cfg st c).2 ≠ .ok ∧ (Writer.step env cfg st c).1 = st := by
  have hne : (Writer.step env cfg st c).2 ≠ .ok := fun hok => hbad (C01_accepted_nameOk env cfg st c n hn hok)
  exact ⟨hne, Writer.step_atomic env cfg st c hne⟩

/-! ## Non-vacuity: a concrete program, its laws, and the conclusion as a closed true equation -/

/-- `asciiEnv` with JSON functions for which the JSON laws hold: every dict dumps to `{}`,
every text loads as the empty object -/
def runEnv : Env :=
  { asciiEnv with
    dumps := fun _ => .ok (Text.ofAscii b!"{}"),
    loadsText := fun _ => .ok (.obj []) }

def runEnc : Name := Text.ofAscii b!"latin1"

def call1 : Writer.Call :=
  .preamble (.str (Text.ofAscii b!"hi")) none (some 2) none (some (Text.ofAscii b!"text/plain"))
def call2 : Writer.Call := .newChange none
def call3 : Writer.Call := .newFile (some (Text.ofAscii b!"utf-8"))
def call4 : Writer.Call :=
  .metadata (.dict (.obj [(Text.ofAscii b!"k", .int 1)])) none (Text.ofAscii b!"json")
def call5 : Writer.Call := .diff (.bytes b!"-a\n+b") (some (Text.ofAscii b!"text")) none none

def runProg : List Writer.Call := [call1, call2, call3, call4, call5]

/-- the writer states along the program -/
def rst0 : Writer.St := (Writer.init (some runEnc) (Text.ofAscii b!"1.0")).1
def rst1 : Writer.St := (Writer.step runEnv cfg0 rst0 call1).1
def rst2 : Writer.St := (Writer.step runEnv cfg0 rst1 call2).1
def rst3 : Writer.St := (Writer.step runEnv cfg0 rst2 call3).1
def rst4 : Writer.St := (Writer.step runEnv cfg0 rst3 call4).1

/-- every call is accepted -/
theorem runProg_ok :
    ∀ r ∈ (Writer.run runEnv cfg0 (some runEnc) (Text.ofAscii b!"1.0") runProg).2, r = .ok := by decide

def laws1 : PreambleLaws runEnv cfg0 rst0 (Text.ofAscii b!"hi") none (some 2) none where
  encOk := by intro n h; cases h
  indentOk := by intro i h; cases h; decide
  data := b!"  hi\n"
  leOut := Text.ofAscii b!"unix"
  hprep := rfl
  hlen := by decide
  text :=
    { encName := b!"latin1", heff := rfl, dos := false, hle := rfl, raw := [10], henc := rfl,
      nl := [10], hbom := rfl, hne := by decide, hu := by decide, hsp := by decide,
      plain := b!"hi\n", hplain := rfl, decoded := Text.ofAscii b!"hi\n", hdec := rfl, hdecNl := rfl,
      hendT := by decide }

def laws4 : MetaLaws runEnv cfg0 rst3 (.obj [(Text.ofAscii b!"k", .int 1)]) none where
  encOk := by intro n h; cases h
  text := Text.ofAscii b!"{}"
  hdumps := rfl
  leOut := Text.ofAscii b!"unix"
  tl :=
    { encName := b!"utf-8", heff := rfl, dos := false, hle := rfl, raw := [10], henc := rfl,
      nl := [10], hbom := rfl, hne := by decide, hu := by decide, hsp := by decide,
      plain := b!"{}\n", hplain := rfl, decoded := Text.ofAscii b!"{}\n", hdec := rfl, hdecNl := rfl,
      hendT := by decide }
  hlen := by decide
  hguess := fun _ => rfl
  parsed := .obj []
  hloads := rfl
  hobj := rfl

def laws5 : DiffCallLaws runEnv cfg0 rst4 b!"-a\n+b" none none where
  encOk := by intro n h; cases h
  data := b!"-a\n+b\n"
  leOut := Text.ofAscii b!"unix"
  hprep := rfl
  hlen := by decide
  dl :=
    { encName := none, henc := rfl, dos := false, hle := rfl, nl := [10],
      hw := by
        refine ⟨false, rfl, ?_, ?_⟩
        · intro l h; cases h
        · exact ⟨[10], [13, 10], [10], [13, 10], rfl, rfl, rfl, rfl, by decide, rfl⟩
      rawR := [10], hencR := rfl, hbomR := rfl, hne := by decide }

/-- **the laws hold** for the program -/
def runLaws : ProgramLaws runEnv cfg0 runEnc runProg where
  encOk := ⟨by decide, by decide, by decide⟩
  calls :=
    ((laws1 : CallLaws runEnv cfg0 rst0 call1),
     ((⟨by intro n h; cases h⟩ : CallLaws runEnv cfg0 rst1 call2),
      ((⟨by intro n h; cases h; exact ⟨by decide, by decide, by decide⟩⟩ : CallLaws runEnv cfg0 rst2 call3),
       ((laws4 : CallLaws runEnv cfg0 rst3 call4),
        ((laws5 : CallLaws runEnv cfg0 rst4 call5), PUnit.unit)))))

set_option maxRecDepth 8192 in
/-- the bytes written -/
example :
    (Writer.run runEnv cfg0 (some runEnc) (Text.ofAscii b!"1.0") runProg).1.out =
      b!"#diffx: encoding=latin1, version=1.0\n#.preamble: indent=2, length=5, line_endings=unix, mimetype=text/plain\n  hi\n#.change:\n#..file: encoding=utf-8\n#...meta: format=json, length=3\n{}\n#...diff: length=6, line_endings=unix, type=text\n-a\n+b\n" :=
  rfl

/-- the expected records, written out -/
def runRecords : List Reader.Record :=
  [⟨⟨0, .diffx⟩, 0, [(b!"encoding", .str b!"latin1"), (b!"version", .str b!"1.0")], .container⟩,
   ⟨⟨1, .preamble⟩, 1,
    [(b!"indent", .int 2), (b!"length", .int 5), (b!"line_endings", .str b!"unix"),
     (b!"mimetype", .str b!"text/plain")], .text (Text.ofAscii b!"hi\n")⟩,
   ⟨⟨1, .change⟩, 3, [], .container⟩,
   ⟨⟨2, .file⟩, 4, [(b!"encoding", .str b!"utf-8")], .container⟩,
   ⟨⟨3, .metadata⟩, 5, [(b!"format", .str b!"json"), (b!"length", .int 3)], .metadata (.obj [])⟩,
   ⟨⟨3, .diff⟩, 7, [(b!"length", .int 6), (b!"line_endings", .str b!"unix"), (b!"type", .str b!"text")],
    .diff b!"-a\n+b\n"⟩]

theorem runRecords_eq : expectedRecords runEnv cfg0 runEnc runProg runLaws = runRecords := rfl

/-- `C01_run` instantiated (block size 7, so that headers and contents straddle blocks) … -/
theorem C01_run_instance :
    Reader.readAll runEnv cfg0 7 (Writer.run runEnv cfg0 (some runEnc) (Text.ofAscii b!"1.0") runProg).1.out =
      (runRecords, .done) := by
  rw [← runRecords_eq]
  exact C01_run runEnv cfg0 7 (by decide) runEnc runProg runProg_ok runLaws

set_option maxRecDepth 8192 in
/-- … a closed equation that is true by evaluation as well -/
example :
    Reader.readAll runEnv cfg0 7 (Writer.run runEnv cfg0 (some runEnc) (Text.ofAscii b!"1.0") runProg).1.out =
      (runRecords, .done) := rfl

end Diffx.C01
