import DiffxVerif.Lemmas.RoundTrip
/-!
# C02 — Writer emits only spec-conformant, canonical DiffX bytes

> Every byte stream produced by an accepted sequence of writer calls conforms to
> the DiffX 1.0 specification and is canonical: each header is ASCII, matches the
> spec header grammar with options in alphabetical order separated by ", ", uses
> one of the nine legal section ids in an order the section hierarchy allows;
> every content header carries length equal to the exact number of content bytes
> up to the next header; content ends with the newline of its declared line-ending
> kind encoded (BOM-free) in the section's effective encoding; preamble
> indentation is ASCII spaces added to every line after encoding; metadata is JSON
> with sorted keys, 4-space indent. The bytes equal, byte for byte, what an
> independent serializer derived from the specification produces for the same
> calls.

Theorems about `Writer.*` (Model/Writer.lean) for every environment, state and
call.  Section ids / order: Properties/C09.lean.  Byte-for-byte equality with the
independent serializer (harness/specdoc.py) and the JSON layout (`json.dumps` is
environment) are decided by the three-way differential run of the check.
-/
namespace Diffx.C02
open Diffx Diffx.Writer

/-- the options of a rendered header, as (key, ASCII value) pairs in the order written -/
def writtenPairs (options : List (Bytes × Option HVal)) : List (Bytes × Bytes) :=
  (sortOpts (options.filterMap (fun p => p.2.map (fun v => (p.1, v))))).map (fun p => (p.1, p.2.text.toAscii))

/-- **Header shape.** Whatever `_write_section_header` emits is `#id:` followed by
the options that are not `None`, as `key=value` joined by `", "`, in ascending key
order, terminated by LF, and every byte is ASCII. -/
theorem C02_header (sec : SecId) (options : List (Bytes × Option HVal)) (h : Bytes)
    (hr : renderHeader sec options = .ok h) :
    h = Spec.headerLine sec (writtenPairs options) ++ [10] ∧
    ((writtenPairs options).map (·.1)).Pairwise (· ≤ ·) ∧
    (∀ b ∈ h, b < 128) :=
  renderHeader_shape sec options h hr

/-- hence, when the option values are option-value characters (true of every value
the writer itself produces — digits, `unix`/`dos`, `json`, mimetypes, diff types —
and of codec names made of such characters), the header is in the specification's
grammar and the reader of C11 accepts it with exactly these options -/
theorem C02_header_grammar (sec : SecId) (hs : sec.level ≤ 3) (options : List (Bytes × Option HVal)) (h : Bytes)
    (hr : renderHeader sec options = .ok h)
    (hk : ∀ p ∈ writtenPairs options, Header.keyOk p.1 = true ∧ Header.valOk p.2 = true) (valid : List SecId)
    (hv : sec ∈ valid) :
    Spec.GrammarOk sec (writtenPairs options) ∧
    Header.parseHeader valid (h.take (h.length - 1)) = .ok ⟨sec, Spec.reported (writtenPairs options)⟩ :=
  renderHeader_grammar sec hs options h hr hk valid hv

/-- **Written values are representable.** `_write_section_header` refuses
(`DiffXOptionValueError`, before anything is written) a value that is not made of
option-value characters and a `str` value that `int()` accepts.  So for every header that
is emitted: each written value matches `[A-Za-z0-9/_.-]+`, and each `str` value given —
an encoding name, a mimetype, … — is read back as that string, not as an integer. -/
theorem C02_written_values_ok (sec : SecId) (options : List (Bytes × Option HVal)) (h : Bytes)
    (hr : renderHeader sec options = .ok h) :
    (∀ p ∈ writtenPairs options, Header.valOk p.2 = true) ∧
    (∀ k t, (k, some (HVal.str t)) ∈ options → Header.convert t.toAscii = .str t.toAscii) :=
  renderHeader_values_ok sec options h hr

/-- hence `C02_header_grammar` needs no hypothesis on the values: whenever the keys are
option keys, an emitted header is in the specification's grammar and the reader of C11
accepts it with exactly these options -/
theorem C02_header_grammar_auto (sec : SecId) (hs : sec.level ≤ 3) (options : List (Bytes × Option HVal))
    (h : Bytes) (hr : renderHeader sec options = .ok h)
    (hk : ∀ p ∈ writtenPairs options, Header.keyOk p.1 = true) (valid : List SecId)
    (hv : sec ∈ valid) :
    Spec.GrammarOk sec (writtenPairs options) ∧
    Header.parseHeader valid (h.take (h.length - 1)) = .ok ⟨sec, Spec.reported (writtenPairs options)⟩ :=
  renderHeader_grammar_auto sec hs options h hr hk valid hv

/-- **Length and layout of a content section.** An accepted content call appends
exactly `header ++ content`, where the header's `length` option is the decimal
number of content bytes. -/
theorem C02_length (env : Env) (cfg : Config) (st st' : St) (name : SecName) (content : Arg)
    (le : Option Text) (enc : Option Name) (indent : Option Int) (writeLe inherit : Bool)
    (extra : List (Bytes × Option HVal))
    (h : (newContent env cfg name content le enc indent writeLe inherit extra).run st = .ok () st') :
    ∃ header data leOut opts,
      prepareContent env cfg st content indent le enc inherit = .ok (data, leOut) ∧
      renderHeader ⟨st.level, name⟩ opts = .ok header ∧
      (b!"length", some (HVal.int data.length)) ∈ opts ∧
      st'.out = st.out ++ header ++ data :=
  newContent_layout env cfg st st' name content le enc indent writeLe inherit extra h

/-- **Trailing newline.** Prepared content always ends with the newline bytes it
was prepared with (`nl`), whatever the content and the indentation. -/
theorem C02_trailing_newline (env : Env) (cfg : Config) (st : St) (content : Arg) (indent : Option Int)
    (le : Option Text) (enc : Option Name) (inherit : Bool) (data : Bytes) (leOut : Text)
    (h : prepareContent env cfg st content indent le enc inherit = .ok (data, leOut)) :
    ∃ nl, PreparedWith env cfg st content le enc inherit nl leOut ∧ (nl ≠ [] → nl <:+ data) :=
  prepareContent_trailing env cfg st content indent le enc inherit data leOut h

/-- **Indentation.** With a positive indent the prepared content is the
un-indented prepared content with `indent` spaces put in front of every line
(lines = `split_lines` on the section's newline). -/
theorem C02_indent (env : Env) (cfg : Config) (st : St) (content : Arg) (n : Nat) (hn : 0 < n)
    (le : Option Text) (enc : Option Name) (inherit : Bool) (data : Bytes) (leOut : Text)
    (h : prepareContent env cfg st content (some (n : Int)) le enc inherit = .ok (data, leOut)) :
    ∃ raw nl, prepareContent env cfg st content none le enc inherit = .ok (raw, leOut) ∧
      PreparedWith env cfg st content le enc inherit nl leOut ∧
      data = ((splitLines raw nl true).map (List.replicate n (32 : UInt8) ++ ·)).flatten :=
  prepareContent_indent env cfg st content n hn le enc inherit data leOut h

end Diffx.C02
