import DiffxVerif.Lemmas.Stats
/-!
# C13 — Generated statistics are exact, additive, idempotent and non-destructive

> After statistics are generated on a tree, every file with a text diff reports
> insertions and deletions equal to the number of "+" and "-" lines inside the
> hunks of its diff (whatever its declared line endings and encoding) and lines
> changed equal to their sum; every change reports its file count and the sums of
> the figures its files report; the file as a whole reports the change count and
> the sums over changes. Binary, empty, absent and unparsable diffs are not
> analysed and keep whatever statistics they already had, custom statistics keys
> and all other metadata are preserved, and generating twice equals generating
> once.

`Dom.FileSec.genStats`, `Dom.ChangeSec.genStats`, `Dom.Tree.genStats`
(Model/Dom.lean) mirror `generate_stats` of the three container classes.
-/
namespace Diffx.C13
open Diffx Diffx.Dom Diffx.HunkSpec

/-- the bytes of a diff made of hunks (each preceded by non-hunk lines) and
trailing non-hunk lines, every line terminated by `nl` -/
def diffBytes (nl : Bytes) (segs : List (List Bytes × Spec)) (tail : List Bytes) : Bytes :=
  ((segs.flatMap (fun sg => sg.1 ++ sg.2.render) ++ tail).map (· ++ nl)).flatten

/-- the statistics `generate_stats` computes for a file -/
def fileStats (dels ins : Nat) : List (Text × Json) :=
  [(tx b!"deletions", .int dels), (tx b!"insertions", .int ins), (tx b!"lines changed", .int (dels + ins))]

/-- **Exact file counts.** A text diff assembled from well-formed hunks with
garbage lines between them, with any unbordered newline `nl` that the file's
declared (or detected) line endings and encoding resolve to and that does not
occur inside a line: the file reports exactly the numbers of `-` and `+` lines
inside the hunks, and their sum. -/
theorem C13_file (env : Env) (cfg : Config) (f : FileSec) (nl : Bytes)
    (segs : List (List Bytes × Spec)) (tail : List Bytes)
    (hd : f.diff.content = .bytes (diffBytes nl segs tail))
    (hne : segs ≠ [] ∨ tail ≠ [])
    (hbin : (f.diff.opts.get b!"type").elim false (fun v => v.pyEq (.str (tx b!"binary"))) = false)
    (hnl : statsNewline env cfg f (diffBytes nl segs tail) = .ok nl)
    (hn : nl ≠ []) (hu : Unbordered nl)
    (hfree : ∀ l ∈ segs.flatMap (fun sg => sg.1 ++ sg.2.render) ++ tail, NlFree nl l)
    (hw : ∀ sg ∈ segs, sg.2.WF) (hg : ∀ sg ∈ segs, ∀ g ∈ sg.1, NonHunk g) (ht : ∀ g ∈ tail, NonHunk g)
    (m : PyVal) (hm : mergeStats f.metaSec.content
        (fileStats ((segs.map (·.2.deletes)).sum) ((segs.map (·.2.inserts)).sum)) = .ok m) :
    f.genStats env cfg = .ok { f with metaSec := { f.metaSec with content := m } } :=
  file_genStats_exact env cfg f nl segs tail hd hne hbin hnl hn hu hfree hw hg ht m hm

/-- **Not analysed.** Absent, empty and binary diffs, and diffs the hunk parser
rejects, leave the file exactly as it was. -/
theorem C13_skip (env : Env) (cfg : Config) (f : FileSec)
    (h : (∀ b, f.diff.content ≠ .bytes b) ∨ f.diff.content = .bytes [] ∨
         (f.diff.opts.get b!"type").elim false (fun v => v.pyEq (.str (tx b!"binary"))) = true) :
    f.genStats env cfg = .ok f :=
  file_genStats_skip env cfg f h

theorem C13_skip_unparsable (env : Env) (cfg : Config) (f : FileSec) (diff nl : Bytes)
    (hd : f.diff.content = .bytes diff)
    (hnl : statsNewline env cfg f diff = .ok nl)
    (hp : ∃ n l k, Hunks.parse (splitLines diff nl false) true = .malformed n l k) :
    f.genStats env cfg = .ok f :=
  file_genStats_unparsable env cfg f diff nl hd hnl hp

/-- **Merge is non-destructive.** Keys of an existing `stats` dictionary that are
not computed, and every other metadata key, survive; computed keys get the new
values. -/
theorem C13_keep (m : List (Text × Json)) (stats : List (Text × Json)) (hs : (stats.map (·.1)).Nodup)
    (m' : PyVal) (h : mergeStats (.dict (.obj m)) stats = .ok m') :
    ∃ l, m' = .dict (.obj l) ∧
      (∀ k, k ≠ tx b!"stats" → objGet l k = objGet m k) ∧
      ∃ st, objGet l (tx b!"stats") = some (.obj st) ∧
        (∀ p ∈ stats, objGet st p.1 = some p.2) ∧
        (∀ k, k ∉ stats.map (·.1) → ∀ old, objGet m (tx b!"stats") = some (.obj old) → objGet st k = objGet old k) :=
  mergeStats_keep m stats hs m' h

/-- **Additive (change).** After generation a change reports its number of files
and, for each figure, the sum of what its files report. -/
theorem C13_change (env : Env) (cfg : Config) (c c' : ChangeSec) (h : c.genStats env cfg = .ok c') :
    ∃ files, c.files.mapM (FileSec.genStats env cfg) = .ok files ∧ c'.files = files ∧
      statOf c'.metaSec.content (tx b!"files") = .ok files.length ∧
      ∀ k ∈ [tx b!"insertions", tx b!"deletions", tx b!"lines changed"],
        ∃ vs, files.mapM (fun f => statOf f.metaSec.content k) = .ok vs ∧
          statOf c'.metaSec.content k = .ok vs.sum :=
  change_genStats_sums env cfg c c' h

/-- **Additive (whole file).** The tree reports the number of changes and the
sums over its changes. -/
theorem C13_top (env : Env) (cfg : Config) (t t' : Tree) (h : t.genStats env cfg = .ok t') :
    ∃ changes, t.changes.mapM (ChangeSec.genStats env cfg) = .ok changes ∧ t'.changes = changes ∧
      statOf t'.metaSec.content (tx b!"changes") = .ok changes.length ∧
      ∀ k ∈ [tx b!"files", tx b!"insertions", tx b!"deletions", tx b!"lines changed"],
        ∃ vs, changes.mapM (fun c => statOf c.metaSec.content k) = .ok vs ∧
          statOf t'.metaSec.content k = .ok vs.sum :=
  tree_genStats_sums env cfg t t' h

/-- nothing but the metadata contents is touched: options, preambles, diffs and
the shape of the tree are unchanged -/
theorem C13_only_meta (env : Env) (cfg : Config) (t t' : Tree) (h : t.genStats env cfg = .ok t') :
    t'.opts = t.opts ∧ t'.preamble = t.preamble ∧ t'.metaSec.opts = t.metaSec.opts ∧
    t'.changes.length = t.changes.length :=
  tree_genStats_only_meta env cfg t t' h

/-- **Idempotent.** Generating twice equals generating once. -/
theorem C13_idem (env : Env) (cfg : Config) (t t' : Tree) (h : t.genStats env cfg = .ok t') :
    t'.genStats env cfg = .ok t' :=
  tree_genStats_idem env cfg t t' h

/-! ## Known defect: multi-byte encodings are not decoded before parsing

`generate_stats` resolves the newline through the diff's declared encoding but
hands the *raw, still encoded* lines to the hunk parser, which looks for the
ASCII bytes `@@`, `-`, `+`.  With a UTF-16-LE diff no header is recognised, the
whole diff is "garbage", and zeros are stored. -/

/-- an environment whose codecs all behave like UTF-16-LE on ASCII text -/
def utf16Env : Env :=
  { canon := fun n => .ok n
    encode := fun _ t => .ok (t.flatMap fun c => [c.toUInt8, 0])
    decode := fun _ b => .ok (b.map (·.toNat))
    loadsText := fun _ => .ok (.obj [])
    loadsBytes := fun _ => .ok (.obj [])
    dumps := fun _ => .ok [] }

def witnessCfg : Config := { chunk := 96, boms := [], defaultIndent := 4, defaultEncoding := [] }

/-- `"@@ -1 +1 @@\n-a\n+b\n".encode('utf-16-le')`: one deletion, one insertion -/
def utf16Diff : Bytes := (b!"@@ -1 +1 @@\n-a\n+b\n").flatMap fun c => [c, 0]

def utf16File : FileSec :=
  { newFile with diff := ⟨.diff, [(b!"encoding", .str (tx b!"utf-16-le"))], .bytes utf16Diff⟩ }

/-- **Witness (known defect).** The UTF-16-LE diff with one `-` and one `+` line
is split on the right newline (`\n\0`), parsed without error, and reported as
`0` deletions, `0` insertions, `0` lines changed — whereas the hunk parser
counts `1` and `1` on the same lines once decoded. -/
theorem C13_multibyte_witness :
    statsNewline utf16Env witnessCfg utf16File utf16Diff = .ok [10, 0] ∧
    utf16File.genStats utf16Env witnessCfg =
      .ok { utf16File with metaSec := { utf16File.metaSec with
              content := .dict (.obj [(tx b!"stats", .obj (fileStats 0 0))]) } } ∧
    Hunks.parse [b!"@@ -1 +1 @@", b!"-a", b!"+b"] true =
      .ok { hunks := [{ context := none,
                        orig := { first := some 0, last := some 0, numLines := 1, changed := 1, start := 0 },
                        modified := { first := some 0, last := some 0, numLines := 1, changed := 1, start := 0 },
                        pre := 0, post := 0 }],
            processed := 3, deletes := 1, inserts := 1 } :=
  ⟨rfl, rfl, by decide⟩

end Diffx.C13
