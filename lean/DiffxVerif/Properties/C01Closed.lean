import DiffxVerif.Lemmas.JsonProofs
import DiffxVerif.Properties.C01Concrete
import DiffxVerif.Properties.C05Concrete
/-!
# C01 / C05 / C06 — the whole-file theorems over a closed environment

`Properties/C01Concrete.lean` and `Properties/C05Concrete.lean` prove the whole-run and
whole-tree round trips for the concrete Lean codecs and for *any* `json.dumps` / `json.loads`
satisfying `JsonLaws Dom`.  `Model/JsonText.lean` is an executable model of the two CPython
functions as pydiffx calls them (compared with CPython on every run: driver operation `json`,
harness/props/leanjson.py), and `Lemmas/JsonProofs.lean` proves the laws about it on the domain
`JsonText.Dom` — values that present a Python object: dict keys strictly increasing, strings of
code points below 0x110000 without a high surrogate directly followed by a low one (the excluded
point is real: `json.loads(json.dumps(chr(0xD800) + chr(0xDC00)))` is `chr(0x10000)`, reproduced here as
`JsonText` example and on the implementation), float lexemes that the number scanner reads back.

So here **no hypothesis about the environment is left**: `Codecs.env JsonText.dumps JsonText.loads lb`
is a closed term up to `lb` (`json.loads(bytes)`, of which nothing is assumed and which the reader
calls only for metadata without any encoding in effect — never on what the writer wrote).  What
remains modelled-not-verified is the correspondence of these Lean functions with CPython
(differential, every run) and float printing (floats are lexemes).

Non-vacuity, with the real `json` (no mock): `C01_run_closed_instance` (an eleven-call program
`kprog` whose main metadata `kj` holds a non-ASCII string with a lone surrogate, a nested list with
an integer, a float lexeme and `None`, and a nested dict; the 824 bytes written are exhibited,
`kbytes`, with the text `JsonText.dumps` prints; `DictsIn JsonText.Dom kprog` is `kprog_dom`),
`C05_closed_instance` / `C06_closed_instance` (the tree `ktree` = `ctree` of C05Concrete with that
main metadata; 873 bytes `ktreeBytes`; `TreeDictsIn JsonText.Dom ktree` is `ktree_dom`).  The
byte-level facts are evaluated by the kernel (`decide`, `decide +kernel`).
-/
namespace Diffx.C01
open Diffx Diffx.Codecs Diffx.Writer Diffx.RunRT Diffx.DomConc Diffx.Dom

/-- **the laws of `json`, proved** for the Lean model of `json.dumps(obj, indent=4, separators=(',', ': '),
sort_keys=True)` / `json.loads` on the domain `JsonText.Dom` -/
theorem jsonLaws_closed : JsonLaws JsonText.Dom JsonText.dumps JsonText.loads where
  ascii l text hd h := JsonText.dumps_ascii (.obj l) hd text h
  noCR l text hd h := JsonText.dumps_noCR (.obj l) hd text h
  loads l text hd h := by
    have hl := (JsonText.dumps_last (.obj l) hd text h).2
    have hnl : nlText false = [10] := rfl
    have hn : normText text false = text ++ [10] := by
      unfold normText
      rw [hnl]
      cases hb : endsWith text [10] with
      | false => simp
      | true =>
        exfalso
        apply hl
        obtain ⟨p, hp⟩ := (endsWith_iff _ _).1 hb
        rw [← hp]
        simp
    rw [hn]
    exact JsonText.loads_dumps (.obj l) hd text h [10] (by decide)

variable (lb : Bytes → EnvR Json)

/-- **C01, closed.**  `C01_run_concrete` with the JSON laws discharged: for the concrete codecs
and the Lean `json`, every accepted list of public calls whose dictionaries present Python objects
is read back, at any block size, as one record per call with the contents written. -/
theorem C01_run_closed (chunk : Nat) (hc : 0 < chunk) (enc : Name) (calls : List Writer.Call)
    (hok : ∀ r ∈ (Writer.run (Codecs.env JsonText.dumps JsonText.loads lb) Codecs.cfg (some enc) t!"1.0" calls).2, r = .ok)
    (hwf : DictArgs calls) (hdom : DictsIn JsonText.Dom calls)
    (hsize : (Writer.run (Codecs.env JsonText.dumps JsonText.loads lb) Codecs.cfg (some enc) t!"1.0" calls).1.out.length
      ≤ Reader.maxRead) :
    ∃ recs, Reader.readAll (Codecs.env JsonText.dumps JsonText.loads lb) Codecs.cfg chunk
        (Writer.run (Codecs.env JsonText.dumps JsonText.loads lb) Codecs.cfg (some enc) t!"1.0" calls).1.out = (recs, .done) ∧
      recs.length = calls.length + 1 ∧
      recs.map (·.content) = .container :: calls.map contentOfCall ∧
      recs.map (·.sec) = SecId.main :: secIds 1 calls :=
  let ⟨recs, h1, h2, h3, h4, _⟩ :=
    C01_run_concrete JsonText.dumps JsonText.loads lb jsonLaws_closed chunk hc enc calls hok hwf hdom hsize
  ⟨recs, h1, h2, h3, h4⟩

/-! ## Non-vacuity: the hypotheses of the closed theorems are satisfiable with the real `json` -/

/-- a dict with a non-ASCII value holding a lone surrogate, a nested list (an integer, a float
lexeme, `None`) and a nested dict; keys in increasing order at both levels -/
def kj : Json :=
  .obj [(t!"k", .str [233, 0xD800]),
        (t!"list", .arr [.int 1, .float b!"1.5", .null, .obj [(t!"a", .bool true), (t!"b", .int (-7))]])]

/-- `1.5` is a float lexeme: ASCII, read back entirely by the number scanner as that float -/
theorem float15_lex : JsonText.FloatLex b!"1.5" := Or.inr (Or.inr (Or.inr ⟨by decide, rfl⟩))

/-- the dicts of the instance program present Python objects -/
theorem kj_dom : JsonText.Dom kj := by
  simp only [kj, JsonText.Dom, JsonText.DomList, JsonText.DomPairs, JsonText.KeysSorted, JsonText.StrOk]
  simp only [float15_lex, and_true, true_and]
  decide

theorem jk_dom : JsonText.Dom jk := by
  simp only [jk, JsonText.Dom, JsonText.DomPairs, JsonText.KeysSorted, JsonText.StrOk]
  decide

theorem j2_dom : JsonText.Dom j2 := by
  simp only [j2, JsonText.Dom, JsonText.DomList, JsonText.DomPairs, JsonText.KeysSorted, JsonText.StrOk]
  decide

/-- the closed environment: the codecs and the Lean `json` (`json.loads(bytes)` raises) -/
def kenv : Env := Codecs.env JsonText.dumps JsonText.loads (fun _ => .err)

/-- a UTF-16 (BOM) main preamble indented by 2, CRLF detected on its first line; main metadata `kj`
(non-ASCII value with a lone surrogate, nested list and dict) under the constructor's UTF-8; a
Latin-1 change with a preamble declared `dos` and metadata with an escaped non-ASCII value; a file
with its own encoding `utf-16` whose metadata inherits it (BOM written); a diff whose CRLF is
detected on the bytes; a second file inheriting Latin-1, with UTF-16-BE metadata and a UTF-16 diff
declared `unix` -/
def kprog : List Writer.Call :=
  [.preamble (.str t!"héllo 😀\r\nwörld") (some t!"utf-16") (some 2) none (some t!"text/plain"),
   .metadata (.dict kj) none t!"json",
   .newChange (some t!"latin1"),
   .preamble (.str t!"ça\nva") none none (some t!"dos") none,
   .metadata (.dict j2) none t!"json",
   .newFile (some t!"utf-16"),
   .metadata (.dict jk) none t!"json",
   .diff (.bytes b!"-a\r\n+b") (some t!"text") none none,
   .newFile none,
   .metadata (.dict jk) (some t!"utf-16-be") t!"json",
   .diff (.bytes [45, 0, 120, 0, 10, 0, 43, 0, 121, 0, 10, 0]) none (some t!"utf-16") (some t!"unix")]

/-- the 824 bytes the writer produces: the metadata text is what `JsonText.dumps` prints
(`ensure_ascii`: `\u00e9\ud800`; `indent=4` at three levels) -/
def kbytes : Bytes :=
  b!"#diffx: encoding=utf-8, version=1.0\n#.preamble: encoding=utf-16, indent=2, length=40, line_endings=dos, mimetype=text/plain\n  " ++
  [255, 254, 104, 0, 233, 0, 108, 0, 108, 0, 111, 0, 32, 0, 61, 216, 0, 222, 13, 0, 10, 0] ++ b!"  " ++
  [119, 0, 246, 0, 114, 0, 108, 0, 100, 0, 13, 0, 10, 0] ++
  b!"#.meta: format=json, length=150\n{\n    \"k\": \"\\u00e9\\ud800\",\n    \"list\": [\n        1,\n        1.5,\n        null,\n        {\n            \"a\": true,\n            \"b\": -7\n        }\n    ]\n}\n" ++
  b!"#.change: encoding=latin1\n#..preamble: length=7, line_endings=dos\n" ++ [231] ++ b!"a\nva\r\n" ++
  b!"#..meta: format=json, length=67\n{\n    \"a\": \"\\u00e9\",\n    \"b\": [\n        null,\n        true\n    ]\n}\n" ++
  b!"#..file: encoding=utf-16\n#...meta: format=json, length=32\n" ++
  [255, 254, 123, 0, 10, 0, 32, 0, 32, 0, 32, 0, 32, 0, 34, 0, 107, 0, 34, 0, 58, 0, 32, 0, 49, 0, 10, 0, 125, 0, 10, 0] ++
  b!"#...diff: length=8, line_endings=dos, type=text\n-a\r\n+b\r\n" ++
  b!"#..file:\n#...meta: encoding=utf-16-be, format=json, length=30\n" ++
  [0, 123, 0, 10, 0, 32, 0, 32, 0, 32, 0, 32, 0, 34, 0, 107, 0, 34, 0, 58, 0, 32, 0, 49, 0, 10, 0, 125, 0, 10] ++
  b!"#...diff: encoding=utf-16, length=12, line_endings=unix\n" ++ [45, 0, 120, 0, 10, 0, 43, 0, 121, 0, 10, 0]

set_option maxRecDepth 65536 in
/-- the writer, run with the Lean `json`, writes these bytes (kernel evaluation) -/
theorem kprog_bytes : (Writer.run kenv Codecs.cfg (some t!"utf-8") t!"1.0" kprog).1.out = kbytes := by decide +kernel

set_option maxRecDepth 65536 in
/-- every call is accepted -/
theorem kprog_ok : ∀ r ∈ (Writer.run kenv Codecs.cfg (some t!"utf-8") t!"1.0" kprog).2, r = .ok := by decide

set_option maxRecDepth 65536 in
theorem kbytes_length : kbytes.length = 824 := by decide

theorem kprog_dicts : DictArgs kprog := by decide

/-- `hdom` of `C01_run_closed`: not trivial any more -/
theorem kprog_dom : DictsIn JsonText.Dom kprog := by
  refine (dictsIn_iff _ _).mpr ?_
  simp [kprog, dictArgIn, kj_dom, jk_dom, j2_dom]

/-- the contents written, from the arguments -/
def kcontents : List Reader.Content :=
  [.container,
   .text t!"héllo 😀\r\nwörld\r\n",
   .metadata kj,
   .container,
   .text t!"ça\nva\r\n",
   .metadata j2,
   .container,
   .metadata jk,
   .diff b!"-a\r\n+b\r\n",
   .container,
   .metadata jk,
   .diff [45, 0, 120, 0, 10, 0, 43, 0, 121, 0, 10, 0]]

theorem kcontents_eq : .container :: kprog.map contentOfCall = kcontents := rfl
theorem ksecs_eq : SecId.main :: secIds 1 kprog = msecs := rfl

/-- **`C01_run_closed` instantiated** (block size 7, `json.loads(bytes)` raising): with the Lean
`json.dumps` / `json.loads` — no mock, no hypothesis about the environment — the writer accepts
the eleven calls and writes the 824 bytes `kbytes`, on which the reader ends normally with twelve
records whose contents and section ids are the explicit lists (`kcontents`; `msecs` of
C01Concrete). -/
theorem C01_run_closed_instance :
    (Writer.run kenv Codecs.cfg (some t!"utf-8") t!"1.0" kprog).1.out = kbytes ∧
    ∃ recs, Reader.readAll kenv Codecs.cfg 7 kbytes = (recs, .done) ∧
      recs.length = 12 ∧ recs.map (·.content) = kcontents ∧ recs.map (·.sec) = msecs := by
  refine ⟨kprog_bytes, ?_⟩
  have hb := kprog_bytes
  have hok := kprog_ok
  have hsz : (Writer.run kenv Codecs.cfg (some t!"utf-8") t!"1.0" kprog).1.out.length ≤ Reader.maxRead := by
    rw [hb, kbytes_length]
    decide
  unfold kenv at hb hok hsz ⊢
  obtain ⟨recs, h1, h2, h3, h4⟩ := C01_run_closed (fun _ => .err) 7 (by decide) t!"utf-8" kprog hok kprog_dicts
    kprog_dom hsz
  rw [hb] at h1
  exact ⟨recs, h1, h2, by rw [h3, kcontents_eq], by rw [h4, ksecs_eq]⟩

set_option maxRecDepth 65536 in
/-- … true by evaluation as well -/
example :
    ((Reader.readAll kenv Codecs.cfg 7 kbytes).1.map (·.content) == kcontents) = true ∧
    (Reader.readAll kenv Codecs.cfg 7 kbytes).1.map (·.sec) = msecs ∧
    (Reader.readAll kenv Codecs.cfg 7 kbytes).2 = .done := by
  decide

end Diffx.C01

namespace Diffx.C05
open Diffx Diffx.Dom Diffx.DomRT Diffx.DomConc Diffx.Codecs Diffx.C01

variable (lb : Bytes → EnvR Json)

/-- **C05, closed.**  For every tree whose sections sit in their slots and whose metadata
dictionaries present Python objects, that serialises: parsing the serialisation gives the
normalised tree (a function of the tree alone). -/
theorem C05_tree_roundtrip_closed (wv : Text) (t : Tree) (b : Bytes)
    (hk : TreeOk t) (hd : TreeDicts t) (hin : TreeDictsIn JsonText.Dom t)
    (h : toBytes (Codecs.env JsonText.dumps JsonText.loads lb) Codecs.cfg wv t = .ok b)
    (enc : Name) (calls : List Writer.Call)
    (hcalls : toCalls Codecs.cfg.defaultIndent t wv = .ok (some enc, Text.ofAscii b!"1.0", calls))
    (hsize : b.length ≤ Reader.maxRead) :
    fromBytes (Codecs.env JsonText.dumps JsonText.loads lb) Codecs.cfg wv b =
      .ok (normalisedTree Codecs.cfg.defaultIndent t) :=
  C05_tree_roundtrip_concrete JsonText.dumps JsonText.loads lb jsonLaws_closed wv t b hk hd hin h enc calls hcalls hsize

/-- **C06, closed.**  … and serialising the normalised tree gives the same bytes. -/
theorem C06_fixed_point_closed (wv : Text) (t : Tree) (b : Bytes)
    (hk : TreeOk t) (hd : TreeDicts t) (hin : TreeDictsIn JsonText.Dom t)
    (h : toBytes (Codecs.env JsonText.dumps JsonText.loads lb) Codecs.cfg wv t = .ok b)
    (enc : Name) (calls : List Writer.Call)
    (hcalls : toCalls Codecs.cfg.defaultIndent t wv = .ok (some enc, Text.ofAscii b!"1.0", calls))
    (hsize : b.length ≤ Reader.maxRead) :
    toBytes (Codecs.env JsonText.dumps JsonText.loads lb) Codecs.cfg wv (normalisedTree Codecs.cfg.defaultIndent t) = .ok b :=
  C06_fixed_point_concrete JsonText.dumps JsonText.loads lb jsonLaws_closed wv t b hk hd hin h enc calls hcalls hsize

/-! ## Non-vacuity: a tree, the real `json` -/

/-- `ctree` of C05Concrete with a main metadata section holding `kj` (no `format` key) -/
def ktree : Tree := { ctree with metaSec := ⟨.metadata, [], .dict kj⟩ }

theorem ktree_ok : TreeOk ktree := by decide
theorem ktree_dicts : TreeDicts ktree := by decide

/-- `hin` of the closed tree theorems (the empty dicts of skipped sections included) -/
theorem ktree_dom : TreeDictsIn JsonText.Dom ktree := by
  simp [TreeDictsIn, changeDictsIn, fileDictsIn, secDictIn, ktree, ctree, newMeta, kj_dom, jk_dom, j2_dom,
    JsonText.Dom, JsonText.KeysSorted, JsonText.DomPairs]

/-- the 873 bytes `to_bytes` produces with the Lean `json` -/
def ktreeBytes : Bytes :=
  b!"#diffx: encoding=utf-8, version=1.0\n#.preamble: encoding=utf-16, indent=2, length=40, line_endings=dos, mimetype=text/plain\n  " ++
  [255, 254, 104, 0, 233, 0, 108, 0, 108, 0, 111, 0, 32, 0, 61, 216, 0, 222, 13, 0, 10, 0] ++ b!"  " ++
  [119, 0, 246, 0, 114, 0, 108, 0, 100, 0, 13, 0, 10, 0] ++
  b!"#.meta: format=json, length=150\n{\n    \"k\": \"\\u00e9\\ud800\",\n    \"list\": [\n        1,\n        1.5,\n        null,\n        {\n            \"a\": true,\n            \"b\": -7\n        }\n    ]\n}\n" ++
  b!"#.change: encoding=latin1\n#..preamble: length=7, line_endings=dos\n" ++ [231] ++ b!"a\nva\r\n" ++
  b!"#..meta: format=json, length=67\n{\n    \"a\": \"\\u00e9\",\n    \"b\": [\n        null,\n        true\n    ]\n}\n" ++
  b!"#..file:\n#...meta: encoding=utf-16-be, format=json, length=30\n" ++
  [0, 123, 0, 10, 0, 32, 0, 32, 0, 32, 0, 32, 0, 34, 0, 107, 0, 34, 0, 58, 0, 32, 0, 49, 0, 10, 0, 125, 0, 10] ++
  b!"#...diff: length=8, line_endings=dos, type=text\n-a\r\n+b\r\n" ++
  b!"#..file: encoding=utf-8\n#...meta: format=json, length=15\n{\n    \"k\": 1\n}\n" ++
  b!"#...diff: encoding=utf-16, length=12, line_endings=unix\n" ++ [45, 0, 120, 0, 10, 0, 43, 0, 121, 0, 10, 0] ++
  b!"#.change:\n#..preamble: indent=4, length=6, line_endings=unix\n    x\n"

set_option maxRecDepth 65536 in
/-- the tree serialises, with the Lean `json`, to these bytes (kernel evaluation; `WErr` has no
decidable equality, hence the detour by `toOption`) -/
theorem ktree_bytes : toBytes kenv Codecs.cfg cver ktree = .ok ktreeBytes := by
  have h : (toBytes kenv Codecs.cfg cver ktree).toOption = some ktreeBytes := by decide +kernel
  cases h' : toBytes kenv Codecs.cfg cver ktree with
  | error e => rw [h'] at h; cases h
  | ok b => rw [h'] at h; cases h; rfl

set_option maxRecDepth 65536 in
theorem ktreeBytes_length : ktreeBytes.length = 873 := by decide

def kcalls : List Writer.Call :=
  [.preamble (.str t!"héllo 😀\r\nwörld") (some t!"utf-16") (some 2) none (some t!"text/plain"),
   .metadata (.dict kj) none t!"json",
   .newChange (some t!"latin1"),
   .preamble (.str t!"ça\nva") none none (some t!"dos") none,
   .metadata (.dict j2) none t!"json",
   .newFile none,
   .metadata (.dict jk) (some t!"utf-16-be") t!"json",
   .diff (.bytes b!"-a\r\n+b") (some t!"text") none none,
   .newFile (some t!"utf-8"),
   .metadata (.dict jk) none t!"json",
   .diff (.bytes [45, 0, 120, 0, 10, 0, 43, 0, 121, 0]) none (some t!"utf-16") (some t!"unix"),
   .newChange none,
   .preamble (.str t!"x") none (some 4) none none]

/-- the program `write_stream` runs for the tree -/
theorem ktree_calls :
    toCalls Codecs.cfg.defaultIndent ktree cver = .ok (some t!"utf-8", Text.ofAscii b!"1.0", kcalls) := rfl

/-- the normalised tree: `cloaded` with the main metadata section, `format=json` recorded -/
def kloaded : Tree := { cloaded with metaSec := ⟨.metadata, [(b!"format", .str t!"json")], .dict kj⟩ }

set_option maxRecDepth 65536 in
theorem knormalised_eq : normalisedTree Codecs.cfg.defaultIndent ktree = kloaded := rfl

/-- **`C05_tree_roundtrip_closed` instantiated**: parsing the 873 bytes with the Lean `json` gives
the normalised tree, written out -/
theorem C05_closed_instance : fromBytes kenv Codecs.cfg cver ktreeBytes = .ok kloaded := by
  have hsz : ktreeBytes.length ≤ Reader.maxRead := by rw [ktreeBytes_length]; decide
  have hb := ktree_bytes
  unfold kenv at hb ⊢
  rw [← knormalised_eq]
  exact C05_tree_roundtrip_closed (fun _ => .err) cver ktree ktreeBytes ktree_ok ktree_dicts ktree_dom hb
    t!"utf-8" kcalls ktree_calls hsz

/-- **`C06_fixed_point_closed` instantiated**: the loaded tree serialises to the same bytes -/
theorem C06_closed_instance : toBytes kenv Codecs.cfg cver kloaded = .ok ktreeBytes := by
  have hsz : ktreeBytes.length ≤ Reader.maxRead := by rw [ktreeBytes_length]; decide
  have hb := ktree_bytes
  unfold kenv at hb ⊢
  rw [← knormalised_eq]
  exact C06_fixed_point_closed (fun _ => .err) cver ktree ktreeBytes ktree_ok ktree_dicts ktree_dom hb
    t!"utf-8" kcalls ktree_calls hsz

set_option maxRecDepth 65536 in
/-- … closed equations that are true by evaluation as well -/
example : fromBytes kenv Codecs.cfg cver ktreeBytes = .ok kloaded := rfl

set_option maxRecDepth 65536 in
example : (toBytes kenv Codecs.cfg cver kloaded).toOption = some ktreeBytes := by decide +kernel

end Diffx.C05
