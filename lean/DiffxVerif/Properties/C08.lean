import DiffxVerif.Lemmas.ReaderTotal
/-!
# C08 — Reader error contract: any bytes give records or a positioned parse error

> Given any byte string whatsoever, iterating the streaming reader terminates and
> either completes or raises DiffXParseError whose line number lies within the
> input and whose message agrees with its line/column attributes; it never raises
> another exception type (TypeError, LookupError, UnicodeDecodeError,
> AssertionError, ...). Loading the same bytes into the object model raises only
> errors of the library's own error family, and a stream handed over for loading
> is closed whether loading succeeds or fails.

`Reader.readAll` is a total function (termination is structural: the fuel is the
input length + 1); `Outcome` lists every way iteration can stop in the model:
`done`, `parseError`, and three artefacts that the theorems below exclude
(`outOfFuel` — never; `needEnv` — only when the driver lacks an environment
answer; `assertion` — only if a codec encoded a newline as the empty string).
The object-model clauses are in Properties/C05.lean (`Dom.load`).
-/
namespace Diffx.C08
open Diffx Diffx.Reader

/-- the environment answers every call (no `missing`): true of CPython.
Defined in `Lemmas/ReaderTotal.lean` (the lemma file cannot import this one):
```
(∀ n q, env.canon n ≠ .missing q) ∧ (∀ n t q, env.encode n t ≠ .missing q) ∧
(∀ n b q, env.decode n b ≠ .missing q) ∧ (∀ t q, env.loadsText t ≠ .missing q) ∧
(∀ b q, env.loadsBytes b ≠ .missing q) ∧ (∀ j q, env.dumps j ≠ .missing q)
``` -/
abbrev EnvTotal (env : Env) : Prop := Reader.EnvTotal env

/-- no codec encodes LF / CRLF as the empty byte string (after BOM removal):
`∀ e dos raw b, env.encode e (nlText dos) = .ok raw → stripBom env cfg raw (some e) = .ok b → b ≠ []` -/
abbrev NlNonempty (env : Env) (cfg : Config) : Prop := Reader.NlNonempty env cfg

/-- every encoded newline contains the byte LF (false for EBCDIC code pages:
known finding D21):
`∀ e dos raw b, env.encode e (nlText dos) = .ok raw → stripBom env cfg raw (some e) = .ok b → (10 : UInt8) ∈ b` -/
abbrev NlHasLF (env : Env) (cfg : Config) : Prop := Reader.NlHasLF env cfg

/-- `d.count 10` -/
abbrev countLF (d : Bytes) : Nat := Reader.countLF d

/-- **Termination is real**: the recursion budget is never the reason to stop. -/
theorem C08_no_fuel_exhaustion (env : Env) (cfg : Config) (chunk : Nat) (data : Bytes) :
    (readAll env cfg chunk data).2 ≠ .outOfFuel :=
  readAll_not_outOfFuel env cfg chunk data

/-- **Records or a parse error — nothing else**, for every byte string. -/
theorem C08_outcome (env : Env) (cfg : Config) (chunk : Nat) (data : Bytes)
    (ht : EnvTotal env) (hn : NlNonempty env cfg) :
    (readAll env cfg chunk data).2 = .done ∨ ∃ n c, (readAll env cfg chunk data).2 = .parseError n c :=
  readAll_outcome env cfg chunk data ht hn

/-- **The line number lies within the input** (0-based: at most the number of LF
bytes), for codecs whose newline contains LF.  `…_partial`: the full statement
(no `NlHasLF`) is false of code and model — witness below, known finding D21. -/
theorem C08_linenum_partial (env : Env) (cfg : Config) (chunk : Nat) (hc : 0 < chunk) (data : Bytes)
    (hl : NlHasLF env cfg) (n : Nat) (c : Option Nat)
    (h : (readAll env cfg chunk data).2 = .parseError n c) :
    n ≤ countLF data :=
  readAll_linenum_le env cfg chunk hc data hl n c h

/-- every yielded record starts on a line within the input as well -/
theorem C08_record_lines_partial (env : Env) (cfg : Config) (chunk : Nat) (hc : 0 < chunk) (data : Bytes)
    (hl : NlHasLF env cfg) :
    ∀ r ∈ (readAll env cfg chunk data).1, r.line < countLF data :=
  readAll_record_lines env cfg chunk hc data hl

/-- a column, when reported, is a position inside the offending header line:
it comes from `header.index(pair)`, so it is smaller than the input length -/
theorem C08_column (env : Env) (cfg : Config) (chunk : Nat) (hc : 0 < chunk) (data : Bytes) (n c : Nat)
    (h : (readAll env cfg chunk data).2 = .parseError n (some c)) : c < data.length :=
  readAll_column_lt env cfg chunk hc data n c h

end Diffx.C08
