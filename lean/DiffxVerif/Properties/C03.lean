import DiffxVerif.Lemmas.SpecRead
/-!
# C03 — Reader yields exactly what the specification says a well-formed file contains

> For every structurally well-formed DiffX file, including files from other
> producers (options in any order, optional options absent, blank lines between
> sections, CRLF header lines, compact JSON), the streaming reader yields records
> whose id, level, logical start line, options (integers converted) and content
> equal the specification's reading: content is exactly the declared number of
> bytes after the header, split on the declared or first-line-detected line
> ending, indentation stripped before decoding with the nearest declared encoding,
> metadata parsed as JSON, diffs returned as bytes. A file with a single spec
> violation (unsupported or missing version, missing length, content not ending in
> its newline, format other than json, invalid JSON, unknown line_endings value)
> is rejected with a parse error whose line number designates the offending
> section.

The theorems describe one iteration of the reader (`Reader.stepSection`) from an
arbitrary loop state, so they apply to every section of every file.  Header
grammar and option order: C11/C12; section order: C10; encoding scope: C04;
framing by `length`: C07; block size: C17.  Whole files from an independent
specification-derived generator are compared three ways (implementation, this
model, harness/specdoc.py) by the check.
-/
namespace Diffx.C03
open Diffx Diffx.Reader Diffx.Header

/-- **Blank lines before a header are skipped** (and not counted): whitespace-only
lines in front of the next header do not change what is read. -/
theorem C03_blank_lines (chunk : Nat) (hc : 0 < chunk) (blank rest : Bytes) (f₁ f₂ : Nat)
    (hb : BlankLines blank) (h₁ : (blank ++ rest).length < f₁) (h₂ : rest.length < f₂) :
    nextLine chunk f₁ (blank ++ rest) = nextLine chunk f₂ rest :=
  nextLine_skip_blank chunk hc blank rest f₁ f₂ hb h₁ h₂

/-- **Container sections.** A `.change` / `..file` header allowed at this point is
yielded as a container record with the header's options, at the header's
logical line; the line counter advances by one. -/
theorem C03_container (env : Env) (cfg : Config) (chunk : Nat) (l : Loop) (hdr : Hdr) (ln : Nat) (st : St)
    (hh : readHeader chunk l.valid l.st = .ok (some (hdr, ln, st)))
    (hs : hdr.sec = SecId.change ∨ hdr.sec = SecId.file) :
    ∃ l', stepSection env cfg chunk l = .ok (some (⟨hdr.sec, ln, hdr.opts, .container⟩, l')) ∧
      l'.st = st ∧ l'.valid = validNext hdr.sec ∧
      l'.encodings = pushEnc l.encodings l.prevLevel hdr.sec (hdr.opts.get b!"encoding") :=
  step_container env cfg chunk l hdr ln st hh hs

/-- **Main header**: accepted exactly with a supported `version` option. -/
theorem C03_main (env : Env) (cfg : Config) (chunk : Nat) (l : Loop) (hdr : Hdr) (ln : Nat) (st : St)
    (hh : readHeader chunk l.valid l.st = .ok (some (hdr, ln, st))) (hs : hdr.sec = SecId.main) :
    (hdr.opts.get b!"version" = some (.str b!"1.0") →
      ∃ l', stepSection env cfg chunk l = .ok (some (⟨hdr.sec, ln, hdr.opts, .container⟩, l'))) ∧
    (hdr.opts.get b!"version" ≠ some (.str b!"1.0") →
      stepSection env cfg chunk l = .error (.parseError ln none)) :=
  step_main env cfg chunk l hdr ln st hh hs

/-- **Metadata format**: any `format` other than `json` is rejected at the header's line. -/
theorem C03_bad_format (env : Env) (cfg : Config) (chunk : Nat) (l : Loop) (hdr : Hdr) (ln : Nat) (st : St) (v : OptVal)
    (hh : readHeader chunk l.valid l.st = .ok (some (hdr, ln, st)))
    (hs : metaSections.contains hdr.sec = true)
    (hlen : ∃ n : Int, hdr.opts.get b!"length" = some (.int n) ∧ 0 ≤ n)
    (hf : hdr.opts.get b!"format" = some v) (hv : v ≠ .str b!"json") :
    stepSection env cfg chunk l = .error (.parseError ln none) :=
  step_bad_format env cfg chunk l hdr ln st v hh hs hlen hf hv

/-- **Content errors are positioned at the first content line** (the line after
the header): an unknown `line_endings` value, or content that does not end with
its newline. -/
theorem C03_bad_line_endings (env : Env) (cfg : Config) (st : St) (length : Nat) (enc ind : Option OptVal)
    (s : Bytes) (kb : Bool) (hs : s ≠ b!"unix" ∧ s ≠ b!"dos")
    (hok : enc = none ∨ ∃ e, enc = some (.str e)) (hl : length ≤ maxRead) (hne : st.rest.take length ≠ [])
    (hstrict : cfg.strictLength = false) :
    readContent env cfg st length enc ind (some (.str s)) kb = .error (.parseError st.linenum none) :=
  readContent_bad_le env cfg st length enc ind s kb hs hok hl hne hstrict

theorem C03_no_trailing_newline (env : Env) (cfg : Config) (st : St) (length : Nat) (e : Option Bytes)
    (ind : Option OptVal) (dos : Bool) (nl : Bytes) (kb : Bool)
    (hl : length ≤ maxRead) (hne : st.rest.take length ≠ []) (hstrict : cfg.strictLength = false)
    (hnl : newlineFor env cfg st.linenum dos (e.map Name.ofBytes) = .ok nl) (hnn : nl ≠ [])
    (hend : endsWith (st.rest.take length) nl = false) :
    readContent env cfg st length (e.map OptVal.str) ind (some (.str (if dos then b!"dos" else b!"unix"))) kb =
      .error (.parseError st.linenum none) :=
  readContent_no_newline env cfg st length e ind dos nl kb hl hne hstrict hnl hnn hend

/-- **Invalid JSON / not an object** is rejected at the metadata header's line. -/
theorem C03_bad_json (env : Env) (cfg : Config) (chunk : Nat) (l : Loop) (hdr : Hdr) (ln : Nat) (st st' : St) (n : Nat)
    (t : Text)
    (hh : readHeader chunk l.valid l.st = .ok (some (hdr, ln, st)))
    (hs : metaSections.contains hdr.sec = true)
    (hlen : hdr.opts.get b!"length" = some (.int n))
    (hf : hdr.opts.get b!"format" = none ∨ hdr.opts.get b!"format" = some (.str b!"json"))
    (hc : readContent env cfg st n (contentEncoding hdr.sec hdr.opts l.encodings) none
            (hdr.opts.get b!"line_endings") false = .ok (.text t, st'))
    (hj : env.loadsText t = .err ∨ ∃ j, env.loadsText t = .ok j ∧ j.isObj = false) :
    stepSection env cfg chunk l = .error (.parseError ln none) :=
  step_bad_json env cfg chunk l hdr ln st st' n t hh hs hlen hf hc hj

/-- **A conforming content section is yielded as the specification reads it**:
id and logical line of its header, the header's options, the content returned by
`_read_content` for exactly `length` bytes with the section's effective encoding
(own option, else nearest enclosing declaration; diffs: own option only), and the
loop continues after those bytes with the successor set of the hierarchy; the
encoding stack and the container level are unchanged.

The record's content is `sectionContent hdr.sec got` (`Lemmas/SpecRead.lean`):
`.text t` for decoded text, and for bytes `b` it is `.textBytes b` in a preamble
and `.diff b` in a diff section; for a diff section `_read_content` (called with
`keep_bytes`) always returns bytes. -/
theorem C03_content (env : Env) (cfg : Config) (chunk : Nat) (l : Loop) (hdr : Hdr) (ln : Nat) (st st' : St) (n : Nat)
    (got : Got)
    (hh : readHeader chunk l.valid l.st = .ok (some (hdr, ln, st)))
    (hs : preambleSections.contains hdr.sec = true ∨ hdr.sec = SecId.fileDiff)
    (hlen : hdr.opts.get b!"length" = some (.int n))
    (hc : readContent env cfg st n (contentEncoding hdr.sec hdr.opts l.encodings)
            (if preambleSections.contains hdr.sec then hdr.opts.get b!"indent" else none)
            (hdr.opts.get b!"line_endings") (hdr.sec == SecId.fileDiff) = .ok (got, st')) :
    ∃ l', stepSection env cfg chunk l =
        .ok (some (⟨hdr.sec, ln, hdr.opts, sectionContent hdr.sec got⟩, l')) ∧
      l'.st = st' ∧ l'.valid = validNext hdr.sec ∧ l'.encodings = l.encodings ∧
      l'.prevLevel = l.prevLevel ∧
      (hdr.sec = SecId.fileDiff → ∃ b, got = .bytes b) :=
  step_content env cfg chunk l hdr ln st st' n got hh hs hlen hc

/-- the content of a diff record is the bytes `_read_content` returned -/
theorem C03_content_diff (sec : SecId) (b : Bytes) (hs : sec = SecId.fileDiff) :
    sectionContent sec (.bytes b) = .diff b := by
  subst hs; rfl

/-- the content of a preamble record: decoded text, or bytes when no encoding is in effect -/
theorem C03_content_preamble (sec : SecId) (hs : preambleSections.contains sec = true) (t : Text) (b : Bytes) :
    sectionContent sec (.text t) = .text t ∧ sectionContent sec (.bytes b) = .textBytes b := by
  have h : sec ≠ SecId.fileDiff := by
    intro h; subst h; revert hs; decide
  exact ⟨rfl, by simp only [sectionContent, h, if_false]⟩

end Diffx.C03
