import DiffxVerif.Lemmas.Order
import DiffxVerif.Tie.Spec
/-!
# C10 — Reader accepts exactly the section orders the hierarchy allows

> For every sequence of syntactically valid section headers, the reader accepts
> the sequence up to and including section k and rejects section k+1 with a parse
> error exactly when section k+1 may not follow section k in the specification's
> hierarchy; the nine legal section ids are the only ones ever accepted, and the
> main header must come first and only once.

`Spec.next` (Spec/Hierarchy.lean) is the specification's hierarchy;
`Tie.tie_specdoc` ties it to the RST text, `Tie.tie_validNext` ties the model's
table to the code's `VALID_SECTION_STATES`.  The theorems hold for **every**
input byte string, environment and block size.
-/
namespace Diffx.C10
open Diffx Diffx.Reader Diffx.Header

/-- the specification's hierarchy and the transition table agree on every id -/
theorem C10_table_is_spec (s t : SecId) : t ∈ validNext s ↔ t ∈ Spec.next s :=
  validNext_iff_spec s t

/-- **Header level, both directions.** For a syntactically valid header line
(`structure?` succeeds) the order check rejects it — with the dedicated error —
exactly when its id is not among the ids allowed next. -/
theorem C10_reject_iff (valid : List SecId) (h : Bytes) (sec : SecId) (o : Option Bytes)
    (hs : structure? h = some (sec, o)) :
    parseHeader valid h = .error .badSection ↔ sec ∉ valid :=
  parseHeader_badSection_iff valid h sec o hs

/-- the reader turns that into a parse error positioned at the header's own
(logical) line, without a column -/
theorem C10_reject_positioned (chunk : Nat) (valid : List SecId) (st : St) (header rest' : Bytes)
    (hn : nextLine chunk (st.rest.length + 1) st.rest = some (header, rest'))
    (hnl : endsWith header (if (st.fileCrlf.getD (endsWith header [13, 10])) then [13, 10] else [10]) = true)
    (hb : parseHeader valid (header.take (header.length -
            (if (st.fileCrlf.getD (endsWith header [13, 10])) then 2 else 1))) = .error .badSection) :
    readHeader chunk valid st = .error (.parseError st.linenum none) :=
  readHeader_badSection chunk valid st header rest' hn hnl hb

/-- **One step.** Whenever the reader yields a section, that section was allowed
at that point and what is allowed next is the hierarchy's successor set. -/
theorem C10_step (env : Env) (cfg : Config) (chunk : Nat) (l : Loop) (r : Record) (l' : Loop)
    (h : stepSection env cfg chunk l = .ok (some (r, l'))) :
    r.sec ∈ l.valid ∧ l'.valid = validNext r.sec :=
  stepSection_valid env cfg chunk l r l' h

/-- **Whole run, any input.** The ids of the sections yielded for any byte
string whatsoever form a sequence in the hierarchy's order: main first, every
later section allowed after its predecessor. -/
theorem C10_ordered (env : Env) (cfg : Config) (chunk : Nat) (data : Bytes) :
    Spec.ordered ((readAll env cfg chunk data).1.map (·.sec)) = true :=
  readAll_ordered env cfg chunk data

/-- only the nine legal ids are ever yielded -/
theorem C10_nine (env : Env) (cfg : Config) (chunk : Nat) (data : Bytes) :
    ∀ r ∈ (readAll env cfg chunk data).1, r.sec ∈ SecId.legal :=
  readAll_legal env cfg chunk data

/-- the main section comes first and only once -/
theorem C10_main_once (env : Env) (cfg : Config) (chunk : Nat) (data : Bytes) (i : Nat) (r : Record)
    (h : (readAll env cfg chunk data).1[i]? = some r) : r.sec = SecId.main ↔ i = 0 :=
  readAll_main_once env cfg chunk data i r h

/-- agreement of the run with the specification's "first illegal section":
no yielded prefix contains an illegal position -/
theorem C10_no_illegal_yielded (env : Env) (cfg : Config) (chunk : Nat) (data : Bytes) :
    Spec.firstIllegal ((readAll env cfg chunk data).1.map (·.sec)) = none :=
  readAll_firstIllegal env cfg chunk data

/-! ### tests -/
example : Spec.firstIllegal [SecId.main, SecId.change, SecId.fileMeta] = some 2 := by decide
example : Spec.ordered [SecId.main, SecId.mainMeta, SecId.change, SecId.file, SecId.fileMeta,
    SecId.fileDiff, SecId.change] = true := by decide
example : ∀ s ∈ Tie.allIds, SecId.main ∉ validNext s := by decide

end Diffx.C10
