import DiffxVerif.Lemmas.RoundTrip
/-!
# C01 — Streaming write -> read round trip preserves structure, content and options

> Whatever sequence of sections a program writes with the streaming writer,
> reading the produced bytes back with the streaming reader yields exactly one
> record per written section, in order, with the same section id and nesting
> level, the options that were given or derived, and content equal to what was
> written: preamble text and diff bytes unchanged except that a missing final line
> ending (of the declared or first-line-detected kind) is appended, metadata equal
> as a JSON value. This holds regardless of what the content looks like (lines
> that resemble DiffX headers, hunks, BOMs, NUL bytes, other newline styles) and
> for every combination of section encodings, indentation and line endings.

The round trip is proved section by section for the models `Writer.prepareContent`
/ `Writer.renderHeader` and `Reader.readContent` / `Header.parseHeader`, for
**every** content (no assumption on what it looks like), every indentation and
both line-ending kinds.  The codec is a parameter: its laws appear as explicit
hypotheses (`CodecLaws`), are *proved* for a concrete codec as a non-vacuity
check, and are *tested* against CPython for every codec of the catalogue by the
C15 check.  The composition over whole call sequences is decided by the
differential run (implementation / Lean model / specification serializer);
the ingredients it needs — header round trip (C02_header_grammar + C11), section
order (C09/C10), encoding scope (C04), framing (C07), block-size independence
(C17) — are theorems.
-/
namespace Diffx.C01
open Diffx

/-- **Header round trip.** A header the writer renders is read back by the reader
as the same section id with the same options (integers converted). -/
theorem C01_header (sec : SecId) (hs : sec.level ≤ 3) (options : List (Bytes × Option Writer.HVal)) (h : Bytes)
    (hr : Writer.renderHeader sec options = .ok h)
    (hk : ∀ p ∈ C02.writtenPairs options, Header.keyOk p.1 = true ∧ Header.valOk p.2 = true)
    (valid : List SecId) (hv : sec ∈ valid) :
    Header.parseHeader valid (h.take (h.length - 1)) = .ok ⟨sec, Spec.reported (C02.writtenPairs options)⟩ :=
  (C02.C02_header_grammar sec hs options h hr hk valid hv).2

/-- **Indentation is invertible for every content.** For a non-empty unbordered
newline that contains no space byte, stripping up to `n` leading spaces from the
lines of the indented content gives back the content — whatever bytes it holds. -/
theorem C01_indent_inverse (raw nl : Bytes) (n : Nat) (hn : nl ≠ []) (hu : Unbordered nl)
    (hsp : (32 : UInt8) ∉ nl) (hend : nl <:+ raw) :
    let indented := ((splitLines raw nl true).map (List.replicate n (32 : UInt8) ++ ·)).flatten
    ((splitLines indented nl true).map (Reader.stripIndent n)).flatten = raw ∧
    (splitLines indented nl true).length = (splitLines raw nl true).length :=
  indent_inverse raw nl n hn hu hsp hend

/-- **Content round trip (text sections).** What `_prepare_content` produced for a
text, read back by `_read_content` with the header options the writer emits
(`length`, `indent`, `line_endings`, the effective encoding), followed by
arbitrary further bytes `rest`: the reader returns the decoded text, consumes
exactly the section and advances the line counter by the number of lines. -/
theorem C01_content_text (env : Env) (cfg : Config) (wst : Writer.St) (t : Text) (indent : Option Int)
    (le : Option Text) (enc : Option Name) (data : Bytes) (leOut : Text)
    (hp : Writer.prepareContent env cfg wst (.str t) indent le enc true = .ok (data, leOut))
    (hi : ∀ i, indent = some i → 0 ≤ i)
    (laws : TextLaws env cfg wst t le enc leOut)
    (rest : Bytes) (ln : Nat) (f : Option Bool) :
    ∃ tf, laws.decoded = tf ∧
      Reader.readContent env cfg ⟨data ++ rest, ln, f⟩ data.length
          (some (.str laws.encName)) (indent.map OptVal.int) (some (.str leOut.toAscii)) false =
        .ok (.text tf, ⟨rest, ln + laws.lines, f⟩) :=
  content_text_roundtrip env cfg wst t indent le enc data leOut hp hi laws rest ln f

/-- **Content round trip (diff sections).** Diff bytes come back as the bytes
written plus, when it was missing, the newline. -/
theorem C01_content_diff (env : Env) (cfg : Config) (wst : Writer.St) (b : Bytes)
    (le : Option Text) (enc : Option Name) (data : Bytes) (leOut : Text)
    (hp : Writer.prepareContent env cfg wst (.bytes b) none le enc false = .ok (data, leOut))
    (laws : DiffLaws env cfg b le enc leOut)
    (rest : Bytes) (ln : Nat) (f : Option Bool) :
    Reader.readContent env cfg ⟨data ++ rest, ln, f⟩ data.length
        (enc.map (fun e => .str e.toAscii)) none (some (.str leOut.toAscii)) true =
      .ok (.bytes data, ⟨rest, ln + (splitLines data laws.nl true).length, f⟩) ∧
    (data = b ∨ data = b ++ laws.nl) :=
  content_diff_roundtrip env cfg wst b le enc data leOut hp laws rest ln f

end Diffx.C01
