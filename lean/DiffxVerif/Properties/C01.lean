import DiffxVerif.Lemmas.RoundTrip
import DiffxVerif.Properties.C02
/-!
# C01 — Streaming write -> read round trip preserves structure, content and options

> Whatever sequence of sections a program writes with the streaming writer,
> reading the produced bytes back with the streaming reader yields exactly one
> record per written section, in order, with the same section id and nesting
> level, the options that were given or derived, and content equal to what was
> written: preamble text and diff bytes unchanged except that a missing final line
> ending (of the declared or first-line-detected kind) is appended, metadata equal
> as a JSON value. This holds regardless of what the content looks like (lines
> that resemble DiffX headers, hunks, BOMs, NUL bytes, other newline styles) and
> for every combination of section encodings, indentation and line endings.

The round trip is proved section by section for the models `Writer.prepareContent`
/ `Writer.renderHeader` and `Reader.readContent` / `Header.parseHeader`, for
**every** content (no assumption on what it looks like), every indentation and
both line-ending kinds.  The codec is a parameter: its laws appear as explicit
hypotheses (`TextLaws`, `DiffLaws` in Lemmas/RoundTrip.lean), are *proved* for a concrete codec as a non-vacuity
check, and are *tested* against CPython for every codec of the catalogue by the
C15 check.  The composition over whole call sequences is decided by the
differential run (implementation / Lean model / specification serializer);
the ingredients it needs — header round trip (C02_header_grammar + C11), section
order (C09/C10), encoding scope (C04), framing (C07), block-size independence
(C17) — are theorems.
-/
namespace Diffx.C01
open Diffx

/-- **Header round trip.** A header the writer renders is read back by the reader
as the same section id with the same options (integers converted). -/
theorem C01_header (sec : SecId) (hs : sec.level ≤ 3) (options : List (Bytes × Option Writer.HVal)) (h : Bytes)
    (hr : Writer.renderHeader sec options = .ok h)
    (hk : ∀ p ∈ C02.writtenPairs options, Header.keyOk p.1 = true ∧ Header.valOk p.2 = true)
    (valid : List SecId) (hv : sec ∈ valid) :
    Header.parseHeader valid (h.take (h.length - 1)) = .ok ⟨sec, Spec.reported (C02.writtenPairs options)⟩ :=
  (C02.C02_header_grammar sec hs options h hr hk valid hv).2

/-- **Indentation is invertible for every content.** For a non-empty unbordered
newline that contains no space byte, stripping up to `n` leading spaces from the
lines of the indented content gives back the content — whatever bytes it holds. -/
theorem C01_indent_inverse (raw nl : Bytes) (n : Nat) (hn : nl ≠ []) (hu : Unbordered nl)
    (hsp : (32 : UInt8) ∉ nl) (hend : nl <:+ raw) :
    let indented := ((splitLines raw nl true).map (List.replicate n (32 : UInt8) ++ ·)).flatten
    ((splitLines indented nl true).map (Reader.stripIndent n)).flatten = raw ∧
    (splitLines indented nl true).length = (splitLines raw nl true).length :=
  indent_inverse raw nl n hn hu hsp hend

/-- **Content round trip (text sections).** What `_prepare_content` produced for a
text, read back by `_read_content` with the header options the writer emits
(`length`, `indent`, `line_endings`, the effective encoding), followed by
arbitrary further bytes `rest`: the reader returns the decoded text, consumes
exactly the section and advances the line counter by the number of lines.
`TextLaws` (Lemmas/RoundTrip.lean) holds only codec laws; `hlen` is the bound
beyond which `fp.read` itself raises (`Reader.maxRead = 2^63 - 1`). -/
theorem C01_content_text (env : Env) (cfg : Config) (wst : Writer.St) (t : Text) (indent : Option Int)
    (le : Option Text) (enc : Option Name) (data : Bytes) (leOut : Text)
    (hp : Writer.prepareContent env cfg wst (.str t) indent le enc true = .ok (data, leOut))
    (hi : ∀ i, indent = some i → 0 ≤ i)
    (hlen : data.length ≤ Reader.maxRead)
    (laws : TextLaws env cfg wst t le enc leOut)
    (rest : Bytes) (ln : Nat) (f : Option Bool) :
    Reader.readContent env cfg ⟨data ++ rest, ln, f⟩ data.length
        (some (.str laws.encName)) (indent.map OptVal.int) (some (.str leOut.toAscii)) false =
      .ok (.text laws.decoded, ⟨rest, ln + laws.lines, f⟩) :=
  content_text_roundtrip env cfg wst t indent le enc data leOut hp hi hlen laws rest ln f

/-- **Content round trip (diff sections).** Diff bytes come back as the bytes
written plus, when it was missing, the newline. -/
theorem C01_content_diff (env : Env) (cfg : Config) (wst : Writer.St) (b : Bytes)
    (le : Option Text) (enc : Option Name) (data : Bytes) (leOut : Text)
    (hp : Writer.prepareContent env cfg wst (.bytes b) none le enc false = .ok (data, leOut))
    (hlen : data.length ≤ Reader.maxRead)
    (laws : DiffLaws env cfg wst b le enc leOut)
    (rest : Bytes) (ln : Nat) (f : Option Bool) :
    Reader.readContent env cfg ⟨data ++ rest, ln, f⟩ data.length
        (enc.map (fun e => .str e.toAscii)) none (some (.str leOut.toAscii)) true =
      .ok (.bytes data, ⟨rest, ln + (splitLines data laws.nl true).length, f⟩) ∧
    (data = b ∨ data = b ++ laws.nl) :=
  content_diff_roundtrip env cfg wst b le enc data leOut hp hlen laws rest ln f

/-! ## Non-vacuity: the laws hold for a concrete codec, and the conclusions are closed true equations -/

/-- a one-byte-per-code-point codec under every name; no BOMs; the JSON functions are not used here -/
def asciiEnv : Env :=
  { canon := fun n => .ok n,
    encode := fun _ t => .ok (t.map (·.toUInt8)),
    decode := fun _ b => .ok (b.map (·.toNat)),
    loadsText := fun _ => .ok (.obj []),
    loadsBytes := fun _ => .ok (.obj []),
    dumps := fun _ => .ok [] }

def cfg0 : Config := { chunk := 96, boms := [], defaultIndent := 4, defaultEncoding := [] }

/-- a writer inside a section whose current encoding is `latin1` -/
def wst0 : Writer.St := ⟨[], [some (Text.ofAscii b!"latin1")], none⟩

/-- a text that looks like a header, with mixed line endings and no final newline -/
def text0 : Text := Text.ofAscii b!"#.change:\n  two\r\nthree"

def plain0 : Bytes := b!"#.change:\n  two\r\nthree\n"
def data0 : Bytes := b!"    #.change:\n      two\r\n    three\n"

/-- what the writer produces for `text0` with `indent=4`, no `line_endings`, no `encoding` -/
theorem prepared0 :
    Writer.prepareContent asciiEnv cfg0 wst0 (.str text0) (some 4) none none true =
      .ok (data0, Text.ofAscii b!"unix") := rfl

/-- the text laws hold for it -/
def textLaws0 : TextLaws asciiEnv cfg0 wst0 text0 none none (Text.ofAscii b!"unix") where
  encName := b!"latin1"
  heff := rfl
  dos := false
  hle := rfl
  raw := [10]
  henc := rfl
  nl := [10]
  hbom := rfl
  hne := by decide
  hu := by decide
  hsp := by decide
  plain := plain0
  hplain := rfl
  decoded := Text.ofAscii plain0
  hdec := rfl
  hdecNl := rfl
  hendT := by decide

/-- `C01_content_text` instantiated: a closed equation (three lines, counter 7 → 10,
the following header left unread) … -/
theorem C01_content_text_instance :
    Reader.readContent asciiEnv cfg0 ⟨data0 ++ b!"#..meta: length=2\n", 7, some false⟩ 35
        (some (.str b!"latin1")) (some (.int 4)) (some (.str b!"unix")) false =
      .ok (.text (Text.ofAscii b!"#.change:\n  two\r\nthree\n"),
           ⟨b!"#..meta: length=2\n", 10, some false⟩) :=
  C01_content_text asciiEnv cfg0 wst0 text0 (some 4) none none data0 _ prepared0
    (by intro i h; cases h; decide) (by decide) textLaws0 b!"#..meta: length=2\n" 7 (some false)

/-- … which is true by evaluation as well -/
example :
    Reader.readContent asciiEnv cfg0 ⟨data0 ++ b!"#..meta: length=2\n", 7, some false⟩ 35
        (some (.str b!"latin1")) (some (.int 4)) (some (.str b!"unix")) false =
      .ok (.text (Text.ofAscii b!"#.change:\n  two\r\nthree\n"),
           ⟨b!"#..meta: length=2\n", 10, some false⟩) := rfl

/-- the other kind: `line_endings='dos'` given, an explicit `encoding`, no indentation; the lone
LF inside the text is not a line end (one line, the CRLF appended) -/
def textLawsDos : TextLaws asciiEnv cfg0 wst0 (Text.ofAscii b!"a\nb") (some (Text.ofAscii b!"dos"))
    (some (Text.ofAscii b!"utf-8")) (Text.ofAscii b!"dos") where
  encName := b!"utf-8"
  heff := rfl
  dos := true
  hle := rfl
  raw := [13, 10]
  henc := rfl
  nl := [13, 10]
  hbom := rfl
  hne := by decide
  hu := by decide
  hsp := by decide
  plain := b!"a\nb\r\n"
  hplain := rfl
  decoded := Text.ofAscii b!"a\nb\r\n"
  hdec := rfl
  hdecNl := rfl
  hendT := by decide

theorem C01_content_text_instance_dos :
    Reader.readContent asciiEnv cfg0 ⟨b!"a\nb\r\n" ++ b!"#.change:\r\n", 0, some true⟩ 5
        (some (.str b!"utf-8")) none (some (.str b!"dos")) false =
      .ok (.text (Text.ofAscii b!"a\nb\r\n"), ⟨b!"#.change:\r\n", 1, some true⟩) :=
  C01_content_text asciiEnv cfg0 wst0 (Text.ofAscii b!"a\nb") none (some (Text.ofAscii b!"dos"))
    (some (Text.ofAscii b!"utf-8")) b!"a\nb\r\n" _ rfl (by intro i h; cases h) (by decide) textLawsDos
    b!"#.change:\r\n" 0 (some true)

/-- diff bytes with a NUL byte and no final newline; no `encoding`, kind guessed -/
def diff0 : Bytes := b!"-a\n\x00+b"
def diffData0 : Bytes := b!"-a\n\x00+b\n"

theorem preparedDiff0 :
    Writer.prepareContent asciiEnv cfg0 wst0 (.bytes diff0) none none none false =
      .ok (diffData0, Text.ofAscii b!"unix") := rfl

def diffLaws0 : DiffLaws asciiEnv cfg0 wst0 diff0 none none (Text.ofAscii b!"unix") where
  encName := none
  henc := rfl
  dos := false
  hle := rfl
  nl := [10]
  hw := by
    refine ⟨false, rfl, ?_, ?_⟩
    · intro l h; cases h
    · exact ⟨[10], [13, 10], [10], [13, 10], rfl, rfl, rfl, rfl, by decide, rfl⟩
  rawR := [10]
  hencR := rfl
  hbomR := rfl
  hne := by decide

theorem C01_content_diff_instance :
    Reader.readContent asciiEnv cfg0 ⟨diffData0 ++ b!"#.change:\n", 3, some false⟩ 7
        none none (some (.str b!"unix")) true =
      .ok (.bytes diffData0, ⟨b!"#.change:\n", 5, some false⟩) ∧
    (diffData0 = diff0 ∨ diffData0 = diff0 ++ [10]) :=
  C01_content_diff asciiEnv cfg0 wst0 diff0 none none diffData0 _ preparedDiff0 (by decide) diffLaws0
    b!"#.change:\n" 3 (some false)

example :
    Reader.readContent asciiEnv cfg0 ⟨diffData0 ++ b!"#.change:\n", 3, some false⟩ 7
        none none (some (.str b!"unix")) true =
      .ok (.bytes diffData0, ⟨b!"#.change:\n", 5, some false⟩) := rfl

end Diffx.C01
