import DiffxVerif.Lemmas.DomConcrete
import DiffxVerif.Properties.C01Concrete
import DiffxVerif.Properties.C05Tree
/-!
# C05 / C06 (concrete codecs) — the object-model theorems with no hypothesis about codecs

> C05: For every object-model tree that serialises without error, serialising and parsing it
> yields a tree with the same changes and files in the same order and, section by section,
> the same content and options as the original after the documented normalisation only
> (final line ending appended to text/diff, detected line_endings recorded, default preamble
> indent and metadata format recorded, empty content sections omitted).
>
> C06: For every file the library itself can produce, parsing it into the object model and
> serialising it again returns the identical bytes.

`Properties/C05Tree.lean` proves both under hypotheses about the environment (`ProgramLaws`,
`ReLaws`), with a normalised tree `expectedTree … laws` that is *indexed by the laws*.
`Properties/C01Concrete.lean` derives `ProgramLaws` from acceptance for the executable codecs of `Model/Codecs.lean`.
This file composes the two and removes every law from the statements: for
`env := Codecs.env dumps loadsText loadsBytes`, `cfg := Codecs.cfg` (the BOM table of the repository),

* `normalisedTree di t` (Lemmas/DomConcrete.lean) is **a function of the tree alone**: no law, no
  writer state, no environment, not even `contentCall`.  `C05_normalised_spec`,
  `C05_normalised_sections`, `C05_normalised_options` spell it out;
* `C05_tree_roundtrip_concrete`: `fromBytes (toBytes t) = .ok (normalisedTree 4 t)`;
* `C05_expectedTree_concrete`: the law-indexed `expectedTree … laws` of C05Tree *is* `normalisedTree`,
  whatever the laws;
* `C06_fixed_point_concrete`, `C06_parse_serialise_concrete`: re-serialising the parsed tree gives
  the identical bytes (`ReLaws` is derived, not assumed);
* `C05_normalised_idempotent`: the normalisation is idempotent ("after the documented
  normalisation *only*");
* non-vacuity: `ctree` (UTF-16 main preamble with a CRLF first line and no final line ending,
  skipped main metadata, a Latin-1 change whose preamble declares `line_endings='dos'` on a text
  without CR and `indent=None`, a UTF-16-BE metadata section, a diff lacking its final CRLF, a
  UTF-16 diff lacking its final LF, a preamble without `indent` key), the theorems instantiated, and
  the closed equations re-checked by evaluation.

## Hypotheses that remain

* `JsonLaws Dom dumps loadsText` — three facts about `json.dumps` / `json.loads` on the dicts of a
  domain `Dom` (Lemmas/ConcreteRun.lean; for CPython `Dom` is `Json.Representable`,
  Model/JsonDom.lean); nothing about codecs;
* `TreeOk t` — every content section sits in the slot of its class (C05Tree);
* `TreeDicts t` — the content of a metadata section, when it is a `PyVal.dict j`, has `j` a JSON
  object.  `PyVal.dict` stands for a Python `dict`, but the type allows `.dict (.int 1)`: the model
  writer dumps it and the reader rejects what `json.loads` gives back (`C05_tree_dicts_artefact`).
  No Python program can build such a tree;
* `TreeDictsIn Dom t` — the content of every metadata section (main, change, file), when it is a
  `PyVal.dict j`, has `Dom j`: it lies in the domain on which `JsonLaws` is assumed.  (With
  `Dom := fun _ => True` it is `treeDictsIn_true`.);
* `b.length ≤ Reader.maxRead` — the bytes fit one `fp.read` (2⁶³ − 1);
* `0 < cfg.chunk` is a fact (`C05_cfg_chunk_pos`).

## Corners that were checked: no counterexample

The laws are derived for *all* accepted programs, and the re-preparation laws for all laws, so
both theorems hold for every tree; in particular
* a preamble whose normalised text would be *re-detected* with another kind: the loaded tree
  carries the kind the writer used as an explicit `line_endings` option, nothing is re-detected
  (`ctree`: `'ça\nva'` declared `dos` comes back as `'ça\nva\r\n'`, `line_endings='dos'`, and
  re-serialises to the same bytes);
* `indent` absent vs `None`: absent ↦ `indent=4` recorded; `None` ↦ no indentation and
  `indent: None` stored last (as `options.setdefault('indent', None)` does); both re-serialise
  identically;
* option order: the loaded options are in the header's (sorted) key order, `indent: None` last.
-/
namespace Diffx.C05
open Diffx Diffx.Dom Diffx.DomRT Diffx.DomConc Diffx.Codecs
open Diffx.RunRT (ProgramLaws)

/-- `Codecs.cfg.chunk = 96` -/
theorem C05_cfg_chunk_pos : 0 < Codecs.cfg.chunk := cfg_chunk_pos

section Concrete
variable {Dom : Json → Prop} (dumps : Json → EnvR Text) (loadsText : Text → EnvR Json) (loadsBytes : Bytes → EnvR Json)

/-- **Object-model round trip, no hypothesis about codecs.**  For the concrete codecs and the BOM table
of the repository: for every well-formed tree whose metadata contents are JSON objects of the
domain `Dom` on which the laws of `json` are assumed, that serialises without error (main `encoding` a `str`, version 1.0) to bytes that fit one read,
parsing the bytes yields exactly `normalisedTree 4 t` — a function of the tree alone. -/
theorem C05_tree_roundtrip_concrete (hjson : JsonLaws Dom dumps loadsText) (wv : Text) (t : Tree) (b : Bytes)
    (hk : TreeOk t) (hd : TreeDicts t) (hin : TreeDictsIn Dom t)
    (h : toBytes (Codecs.env dumps loadsText loadsBytes) Codecs.cfg wv t = .ok b)
    (enc : Name) (calls : List Writer.Call)
    (hcalls : toCalls Codecs.cfg.defaultIndent t wv = .ok (some enc, Text.ofAscii b!"1.0", calls))
    (hsize : b.length ≤ Reader.maxRead) :
    fromBytes (Codecs.env dumps loadsText loadsBytes) Codecs.cfg wv b =
      .ok (normalisedTree Codecs.cfg.defaultIndent t) :=
  tree_roundtrip_concrete dumps loadsText loadsBytes hjson wv t b hk hd hin h enc calls hcalls hsize

/-- **the law-indexed normalised tree of `C05_tree_roundtrip` is `normalisedTree`**, whatever laws
it is given (in particular `lawsOfAccepted`) -/
theorem C05_expectedTree_concrete (hjson : JsonLaws Dom dumps loadsText) (wv : Text) (t : Tree) (b : Bytes)
    (hk : TreeOk t) (hd : TreeDicts t) (hin : TreeDictsIn Dom t)
    (h : toBytes (Codecs.env dumps loadsText loadsBytes) Codecs.cfg wv t = .ok b)
    (enc : Name) (calls : List Writer.Call)
    (hcalls : toCalls Codecs.cfg.defaultIndent t wv = .ok (some enc, Text.ofAscii b!"1.0", calls))
    (laws : ProgramLaws (Codecs.env dumps loadsText loadsBytes) Codecs.cfg enc calls) :
    expectedTree (Codecs.env dumps loadsText loadsBytes) Codecs.cfg wv t enc calls hcalls laws =
      normalisedTree Codecs.cfg.defaultIndent t :=
  expectedTree_eq dumps loadsText loadsBytes hjson wv t b hk hd hin h enc calls hcalls laws

/-- **Fixed point, no hypothesis about codecs.**  Re-serialising the normalised tree gives the
identical bytes. -/
theorem C06_fixed_point_concrete (hjson : JsonLaws Dom dumps loadsText) (wv : Text) (t : Tree) (b : Bytes)
    (hk : TreeOk t) (hd : TreeDicts t) (hin : TreeDictsIn Dom t)
    (h : toBytes (Codecs.env dumps loadsText loadsBytes) Codecs.cfg wv t = .ok b)
    (enc : Name) (calls : List Writer.Call)
    (hcalls : toCalls Codecs.cfg.defaultIndent t wv = .ok (some enc, Text.ofAscii b!"1.0", calls))
    (hsize : b.length ≤ Reader.maxRead) :
    toBytes (Codecs.env dumps loadsText loadsBytes) Codecs.cfg wv (normalisedTree Codecs.cfg.defaultIndent t) =
      .ok b :=
  tree_fixed_concrete dumps loadsText loadsBytes hjson wv t b hk hd hin h enc calls hcalls hsize

/-- **Parse then re-serialise is the identity on library-produced files** (C06), for the concrete
codecs: `from_bytes b` succeeds with some tree `t'` and `to_bytes t' = b`. -/
theorem C06_parse_serialise_concrete (hjson : JsonLaws Dom dumps loadsText) (wv : Text) (t : Tree) (b : Bytes)
    (hk : TreeOk t) (hd : TreeDicts t) (hin : TreeDictsIn Dom t)
    (h : toBytes (Codecs.env dumps loadsText loadsBytes) Codecs.cfg wv t = .ok b)
    (enc : Name) (calls : List Writer.Call)
    (hcalls : toCalls Codecs.cfg.defaultIndent t wv = .ok (some enc, Text.ofAscii b!"1.0", calls))
    (hsize : b.length ≤ Reader.maxRead) :
    ∃ t', fromBytes (Codecs.env dumps loadsText loadsBytes) Codecs.cfg wv b = .ok t' ∧
      toBytes (Codecs.env dumps loadsText loadsBytes) Codecs.cfg wv t' = .ok b :=
  ⟨_, C05_tree_roundtrip_concrete dumps loadsText loadsBytes hjson wv t b hk hd hin h enc calls hcalls hsize,
    C06_fixed_point_concrete dumps loadsText loadsBytes hjson wv t b hk hd hin h enc calls hcalls hsize⟩

end Concrete

/-- **The normalisation is idempotent**: a normalised tree is its own normal form. -/
theorem C05_normalised_idempotent (di : Nat) (t : Tree) :
    normalisedTree di (normalisedTree di t) = normalisedTree di t :=
  normalisedTree_idem di t

/-! ## `normalisedTree` spelled out -/

/-- the tree: main options (`encoding` as given, `version=1.0`), the three levels by `map` —
**same changes and files, in the same order** -/
theorem C05_normalised_spec (di : Nat) (t : Tree) :
    (normalisedTree di t).opts =
      optStr b!"encoding" (optText t.opts b!"encoding") ++ [(b!"version", .str (Text.ofAscii b!"1.0"))] ∧
    (normalisedTree di t).preamble = normSec di newPreamble t.preamble ∧
    (normalisedTree di t).metaSec = normSec di newMeta t.metaSec ∧
    (normalisedTree di t).changes = t.changes.map (normChange di) ∧
    (∀ c : ChangeSec, normChange di c =
      ⟨optStr b!"encoding" (optText c.opts b!"encoding"), normSec di newPreamble c.preamble,
        normSec di newMeta c.metaSec, c.files.map (normFile di)⟩) ∧
    (∀ f : FileSec, normFile di f =
      ⟨optStr b!"encoding" (optText f.opts b!"encoding"), normSec di newMeta f.metaSec,
        normSec di newDiff f.diff⟩) ∧
    (normalisedTree di t).changes.length = t.changes.length ∧
    (normalisedTree di t).changes.map (·.files.length) = t.changes.map (·.files.length) := by
  refine ⟨rfl, rfl, rfl, rfl, fun _ => rfl, fun _ => rfl, by simp [normalisedTree], ?_⟩
  simp [normalisedTree, normChange, List.map_map, Function.comp_def]

/-- the content sections: a falsy section ↦ the section of a fresh tree / change / file; a
written preamble ↦ options `encoding`?, the indent used, `line_endings` declared or detected on
the first line, `mimetype`? and the text with that line ending appended when missing; metadata ↦
`encoding`?, `format=json` and the same dict; a diff ↦ `encoding`?, `line_endings` declared or
detected on the bytes with the newline of the codec `encoding or 'ascii'`, `type`? and the bytes
with that newline appended when missing -/
theorem C05_normalised_sections (di : Nat) (dflt : ContentSec) (o : DOpts) :
    (∀ c : ContentSec, c.content.truthy = false → normSec di dflt c = dflt) ∧
    (∀ t : Text, t ≠ [] → normSec di dflt ⟨.preamble, o, .str t⟩ =
      ⟨.preamble,
       preambleOpts (optText o b!"encoding") (indentOf di o)
         (leKind (textDos (optText o b!"line_endings") t)) (optText o b!"mimetype"),
       .str (normText t (textDos (optText o b!"line_endings") t))⟩) ∧
    (∀ j : Json, (PyVal.dict j).truthy = true → normSec di dflt ⟨.metadata, o, .dict j⟩ =
      ⟨.metadata, metaOpts (optText o b!"encoding") (Text.ofAscii b!"json"), .dict j⟩) ∧
    (∀ b : Bytes, b ≠ [] → normSec di dflt ⟨.diff, o, .bytes b⟩ =
      ⟨.diff,
       diffOpts (optText o b!"encoding")
         (leKind (diffDos (diffCodec (optText o b!"encoding")) (optText o b!"line_endings") b)) (typeOf o),
       .bytes (normBytes b (diffNl (optText o b!"encoding") (optText o b!"line_endings") b))⟩) := by
  refine ⟨fun c h => ?_, fun t ht => ?_, fun j hj => ?_, fun b hb => ?_⟩
  · unfold normSec; simp [h]
  · obtain ⟨a, r, rfl⟩ := List.exists_cons_of_ne_nil ht
    rfl
  · unfold normSec
    simp only [hj, Bool.not_true, Bool.false_eq_true, if_false]
    rfl
  · obtain ⟨a, r, rfl⟩ := List.exists_cons_of_ne_nil hb
    rfl

/-- the options read off a section: a `str` value or nothing; the indent: the default when the
key is absent, the integer, or `None`; what the loaded option lists hold, key by key -/
theorem C05_normalised_options (di : Nat) (o : DOpts) (k : Bytes) :
    (∀ t, o.get k = some (.str t) → optText o k = some t) ∧
    (o.get k = none → optText o k = none) ∧
    (o.get k = some .none → optText o k = none) ∧
    (o.get b!"indent" = none → indentOf di o = some (di : Int)) ∧
    (∀ n, o.get b!"indent" = some (.int n) → indentOf di o = some n) ∧
    (o.get b!"indent" = some .none → indentOf di o = none) ∧
    (∀ e i le m, (preambleOpts e i le m).get b!"indent" = some (match i with | some i => .int i | none => .none) ∧
      (preambleOpts e i le m).get b!"line_endings" = some (.str le)) ∧
    (∀ e f, (metaOpts e f).get b!"format" = some (.str f)) ∧
    (∀ e le ty, (diffOpts e le ty).get b!"line_endings" = some (.str le)) := by
  refine ⟨fun t h => ?_, fun h => ?_, fun h => ?_, fun h => ?_, fun n h => ?_, fun h => ?_, fun e i le m => ?_,
    fun e f => ?_, fun e le ty => ?_⟩
  · simp [optText, kw, h]
  · simp [optText, kw, h]
  · simp [optText, kw, h]
  · simp [indentOf, h]
  · simp [indentOf, h]
  · simp [indentOf, h]
  · exact ⟨(preambleOpts_get e i le m).2.1, (preambleOpts_get e i le m).2.2.1⟩
  · cases e <;> rfl
  · cases e <;> cases ty <;> rfl

/-! ## Non-vacuity: a concrete tree, the mock `json` of C01Concrete, closed equations -/

open Diffx.C01 (menv mockDumps mockLoads mockJsonLaws jk j2 jk_representable j2_representable)

def cver : Text := t!"1.0"

/-- a UTF-16 (BOM) main preamble, indented by 2, CRLF on its first line and no final line ending;
the main metadata left empty (skipped); a Latin-1 change whose preamble declares
`line_endings='dos'` on a text without CR and `indent=None`, with metadata (escaped non-ASCII
value); a file with UTF-16-BE metadata and a diff whose CRLF is detected and whose final CRLF is
missing; a UTF-8 file with metadata (no `format` key) and a UTF-16 diff declared `unix` lacking its
final LF; a second change with a bare preamble (no `indent` key) -/
def ctree : Tree :=
  { opts := [(b!"encoding", .str t!"utf-8"), (b!"version", .str t!"1.0")]
    preamble := ⟨.preamble,
      [(b!"encoding", .str t!"utf-16"), (b!"indent", .int 2), (b!"mimetype", .str t!"text/plain")],
      .str t!"héllo 😀\r\nwörld"⟩
    metaSec := newMeta
    changes := [
      { opts := [(b!"encoding", .str t!"latin1")]
        preamble := ⟨.preamble, [(b!"line_endings", .str t!"dos"), (b!"indent", .none)], .str t!"ça\nva"⟩
        metaSec := ⟨.metadata, [(b!"format", .str t!"json")], .dict j2⟩
        files := [
          { opts := []
            metaSec := ⟨.metadata, [(b!"format", .str t!"json"), (b!"encoding", .str t!"utf-16-be")], .dict jk⟩
            diff := ⟨.diff, [(b!"type", .str t!"text")], .bytes b!"-a\r\n+b"⟩ },
          { opts := [(b!"encoding", .str t!"utf-8")]
            metaSec := ⟨.metadata, [], .dict jk⟩
            diff := ⟨.diff, [(b!"encoding", .str t!"utf-16"), (b!"line_endings", .str t!"unix")],
              .bytes [45, 0, 120, 0, 10, 0, 43, 0, 121, 0]⟩ }] },
      { opts := []
        preamble := ⟨.preamble, [], .str t!"x"⟩
        metaSec := newMeta
        files := [] }] }

theorem ctree_ok : TreeOk ctree := by decide
theorem ctree_dicts : TreeDicts ctree := by decide
/-- the metadata contents of the instance tree lie in the domain intended for CPython -/
theorem ctree_representable : TreeDictsIn (Json.Representable (fun _ => True)) ctree := by
  simp [TreeDictsIn, changeDictsIn, fileDictsIn, secDictIn, ctree, newMeta, jk_representable, j2_representable,
    Json.Representable, Json.RepresentableItems, Text.increasing]

/-- the 691 bytes `to_bytes` produces -/
def cbytes : Bytes :=
  b!"#diffx: encoding=utf-8, version=1.0\n#.preamble: encoding=utf-16, indent=2, length=40, line_endings=dos, mimetype=text/plain\n  " ++
  [255, 254, 104, 0, 233, 0, 108, 0, 108, 0, 111, 0, 32, 0, 61, 216, 0, 222, 13, 0, 10, 0] ++ b!"  " ++
  [119, 0, 246, 0, 114, 0, 108, 0, 100, 0, 13, 0, 10, 0] ++
  b!"#.change: encoding=latin1\n#..preamble: length=7, line_endings=dos\n" ++ [231] ++ b!"a\nva\r\n" ++
  b!"#..meta: format=json, length=67\n{\n    \"a\": \"\\u00e9\",\n    \"b\": [\n        null,\n        true\n    ]\n}\n" ++
  b!"#..file:\n#...meta: encoding=utf-16-be, format=json, length=30\n" ++
  [0, 123, 0, 10, 0, 32, 0, 32, 0, 32, 0, 32, 0, 34, 0, 107, 0, 34, 0, 58, 0, 32, 0, 49, 0, 10, 0, 125, 0, 10] ++
  b!"#...diff: length=8, line_endings=dos, type=text\n-a\r\n+b\r\n" ++
  b!"#..file: encoding=utf-8\n#...meta: format=json, length=15\n{\n    \"k\": 1\n}\n" ++
  b!"#...diff: encoding=utf-16, length=12, line_endings=unix\n" ++ [45, 0, 120, 0, 10, 0, 43, 0, 121, 0, 10, 0] ++
  b!"#.change:\n#..preamble: indent=4, length=6, line_endings=unix\n    x\n"

set_option maxRecDepth 65536 in
/-- the tree serialises, to these bytes -/
theorem ctree_bytes : toBytes menv Codecs.cfg cver ctree = .ok cbytes := rfl

set_option maxRecDepth 65536 in
theorem cbytes_length : cbytes.length = 691 := by decide

def ccalls : List Writer.Call :=
  [.preamble (.str t!"héllo 😀\r\nwörld") (some t!"utf-16") (some 2) none (some t!"text/plain"),
   .newChange (some t!"latin1"),
   .preamble (.str t!"ça\nva") none none (some t!"dos") none,
   .metadata (.dict j2) none t!"json",
   .newFile none,
   .metadata (.dict jk) (some t!"utf-16-be") t!"json",
   .diff (.bytes b!"-a\r\n+b") (some t!"text") none none,
   .newFile (some t!"utf-8"),
   .metadata (.dict jk) none t!"json",
   .diff (.bytes [45, 0, 120, 0, 10, 0, 43, 0, 121, 0]) none (some t!"utf-16") (some t!"unix"),
   .newChange none,
   .preamble (.str t!"x") none (some 4) none none]

/-- the program `write_stream` runs for the tree -/
theorem ctree_calls :
    toCalls Codecs.cfg.defaultIndent ctree cver = .ok (some t!"utf-8", Text.ofAscii b!"1.0", ccalls) := rfl

/-- the normalised tree, written out: final line endings appended (`'\r\n'` to the UTF-16 preamble
and to the first diff, `'\r\n'` — as declared — to `'ça\nva'`, the UTF-16 LF to the second diff,
`'\n'` to `'x'`), detected / declared `line_endings` recorded, `indent: None` stored last, the
default indent 4 and `format=json` recorded, the skipped metadata sections are the defaults,
options in key order -/
def cloaded : Tree :=
  { opts := [(b!"encoding", .str t!"utf-8"), (b!"version", .str t!"1.0")]
    preamble := ⟨.preamble,
      [(b!"encoding", .str t!"utf-16"), (b!"indent", .int 2), (b!"line_endings", .str t!"dos"),
       (b!"mimetype", .str t!"text/plain")],
      .str t!"héllo 😀\r\nwörld\r\n"⟩
    metaSec := newMeta
    changes := [
      { opts := [(b!"encoding", .str t!"latin1")]
        preamble := ⟨.preamble, [(b!"line_endings", .str t!"dos"), (b!"indent", .none)], .str t!"ça\nva\r\n"⟩
        metaSec := ⟨.metadata, [(b!"format", .str t!"json")], .dict j2⟩
        files := [
          { opts := []
            metaSec := ⟨.metadata, [(b!"encoding", .str t!"utf-16-be"), (b!"format", .str t!"json")], .dict jk⟩
            diff := ⟨.diff, [(b!"line_endings", .str t!"dos"), (b!"type", .str t!"text")],
              .bytes b!"-a\r\n+b\r\n"⟩ },
          { opts := [(b!"encoding", .str t!"utf-8")]
            metaSec := ⟨.metadata, [(b!"format", .str t!"json")], .dict jk⟩
            diff := ⟨.diff, [(b!"encoding", .str t!"utf-16"), (b!"line_endings", .str t!"unix")],
              .bytes [45, 0, 120, 0, 10, 0, 43, 0, 121, 0, 10, 0]⟩ }] },
      { opts := []
        preamble := ⟨.preamble, [(b!"indent", .int 4), (b!"line_endings", .str t!"unix")], .str t!"x\n"⟩
        metaSec := newMeta
        files := [] }] }

set_option maxRecDepth 65536 in
/-- `normalisedTree` evaluates to it -/
theorem cnormalised_eq : normalisedTree Codecs.cfg.defaultIndent ctree = cloaded := rfl

/-- **`C05_tree_roundtrip_concrete` instantiated** … -/
theorem C05_concrete_instance : fromBytes menv Codecs.cfg cver cbytes = .ok cloaded := by
  have hsz : cbytes.length ≤ Reader.maxRead := by rw [cbytes_length]; decide
  have hb := ctree_bytes
  unfold menv at hb ⊢
  rw [← cnormalised_eq]
  exact C05_tree_roundtrip_concrete mockDumps mockLoads (fun _ => .err) mockJsonLaws cver ctree cbytes ctree_ok
    ctree_dicts (treeDictsIn_true _) hb t!"utf-8" ccalls ctree_calls hsz

/-- **`C05_tree_roundtrip_concrete` instantiated with the domain intended for CPython**, `Dom :=
Json.Representable` (`TreeDictsIn` is `ctree_representable`, no longer trivial) -/
theorem C05_concrete_instance_dom : fromBytes menv Codecs.cfg cver cbytes = .ok cloaded := by
  have hsz : cbytes.length ≤ Reader.maxRead := by rw [cbytes_length]; decide
  have hb := ctree_bytes
  unfold menv at hb ⊢
  rw [← cnormalised_eq]
  exact C05_tree_roundtrip_concrete mockDumps mockLoads (fun _ => .err)
    (mockJsonLaws.mono (Dom' := Json.Representable (fun _ => True)) (fun _ _ => trivial)) cver ctree cbytes ctree_ok
    ctree_dicts ctree_representable hb t!"utf-8" ccalls ctree_calls hsz

set_option maxRecDepth 65536 in
/-- … a closed equation that is true by evaluation as well -/
example : fromBytes menv Codecs.cfg cver cbytes = .ok cloaded := rfl

/-- **`C06_fixed_point_concrete` instantiated**: the loaded tree serialises to the same bytes … -/
theorem C06_concrete_instance : toBytes menv Codecs.cfg cver cloaded = .ok cbytes := by
  have hsz : cbytes.length ≤ Reader.maxRead := by rw [cbytes_length]; decide
  have hb := ctree_bytes
  unfold menv at hb ⊢
  rw [← cnormalised_eq]
  exact C06_fixed_point_concrete mockDumps mockLoads (fun _ => .err) mockJsonLaws cver ctree cbytes ctree_ok
    ctree_dicts (treeDictsIn_true _) hb t!"utf-8" ccalls ctree_calls hsz

set_option maxRecDepth 65536 in
/-- … true by evaluation as well -/
example : toBytes menv Codecs.cfg cver cloaded = .ok cbytes := rfl

set_option maxRecDepth 65536 in
/-- idempotence on the instance, by evaluation -/
example : normalisedTree Codecs.cfg.defaultIndent cloaded = cloaded := rfl

/-! ## A second tree: utf-32 (BOM), windows-1252, utf-8-sig, utf-32-be -/

/-- a UTF-32 (BOM) main preamble that starts with U+FEFF, indented by 2, CRLF on its first line and no
final line ending; a windows-1252 change whose preamble (`indent=None`) holds the euro sign, curly
quotes and the trade mark sign; a file with UTF-8-SIG metadata and a UTF-32-BE diff whose eight-byte
CRLF is detected and whose final CRLF is missing -/
def ctree2 : Tree :=
  { opts := [(b!"encoding", .str t!"utf-8"), (b!"version", .str t!"1.0")]
    preamble := ⟨.preamble,
      [(b!"encoding", .str t!"utf-32"), (b!"indent", .int 2), (b!"mimetype", .str t!"text/plain")],
      .str t!"\uFEFFhé😀\r\nw"⟩
    metaSec := newMeta
    changes := [
      { opts := [(b!"encoding", .str t!"windows-1252")]
        preamble := ⟨.preamble, [(b!"indent", .none)], .str t!"€ “x”™"⟩
        metaSec := ⟨.metadata, [(b!"format", .str t!"json")], .dict j2⟩
        files := [
          { opts := []
            metaSec := ⟨.metadata, [(b!"format", .str t!"json"), (b!"encoding", .str t!"utf-8-sig")], .dict jk⟩
            diff := ⟨.diff, [(b!"encoding", .str t!"utf-32-be")],
              .bytes [0, 0, 0, 45, 0, 0, 0, 120, 0, 0, 0, 13, 0, 0, 0, 10, 0, 0, 0, 43, 0, 0, 0, 121]⟩ }] }] }

theorem ctree2_ok : TreeOk ctree2 := by decide
theorem ctree2_dicts : TreeDicts ctree2 := by decide

/-- the 517 bytes `to_bytes` produces: the UTF-32 BOM once, after the indentation, then the encoded
U+FEFF; the UTF-8 signature at the start of the metadata -/
def cbytes2 : Bytes :=
  b!"#diffx: encoding=utf-8, version=1.0\n#.preamble: encoding=utf-32, indent=2, length=44, line_endings=dos, mimetype=text/plain\n  " ++
  [255, 254, 0, 0, 255, 254, 0, 0, 104, 0, 0, 0, 233, 0, 0, 0, 0, 246, 1, 0, 13, 0, 0, 0, 10, 0, 0, 0] ++ b!"  " ++
  [119, 0, 0, 0, 13, 0, 0, 0, 10, 0, 0, 0] ++
  b!"#.change: encoding=windows-1252\n#..preamble: length=7, line_endings=unix\n" ++ [128, 32, 147, 120, 148, 153, 10] ++
  b!"#..meta: format=json, length=67\n{\n    \"a\": \"\\u00e9\",\n    \"b\": [\n        null,\n        true\n    ]\n}\n" ++
  b!"#..file:\n#...meta: encoding=utf-8-sig, format=json, length=18\n" ++ [239, 187, 191] ++ b!"{\n    \"k\": 1\n}\n" ++
  b!"#...diff: encoding=utf-32-be, length=32, line_endings=dos\n" ++
  [0, 0, 0, 45, 0, 0, 0, 120, 0, 0, 0, 13, 0, 0, 0, 10, 0, 0, 0, 43, 0, 0, 0, 121, 0, 0, 0, 13, 0, 0, 0, 10]

set_option maxRecDepth 65536 in
theorem ctree2_bytes : toBytes menv Codecs.cfg cver ctree2 = .ok cbytes2 := rfl

set_option maxRecDepth 65536 in
theorem cbytes2_length : cbytes2.length = 517 := by decide

def ccalls2 : List Writer.Call :=
  [.preamble (.str t!"\uFEFFhé😀\r\nw") (some t!"utf-32") (some 2) none (some t!"text/plain"),
   .newChange (some t!"windows-1252"),
   .preamble (.str t!"€ “x”™") none none none none,
   .metadata (.dict j2) none t!"json",
   .newFile none,
   .metadata (.dict jk) (some t!"utf-8-sig") t!"json",
   .diff (.bytes [0, 0, 0, 45, 0, 0, 0, 120, 0, 0, 0, 13, 0, 0, 0, 10, 0, 0, 0, 43, 0, 0, 0, 121]) none
     (some t!"utf-32-be") none]

theorem ctree2_calls :
    toCalls Codecs.cfg.defaultIndent ctree2 cver = .ok (some t!"utf-8", Text.ofAscii b!"1.0", ccalls2) := rfl

/-- the normalised tree, written out -/
def cloaded2 : Tree :=
  { opts := [(b!"encoding", .str t!"utf-8"), (b!"version", .str t!"1.0")]
    preamble := ⟨.preamble,
      [(b!"encoding", .str t!"utf-32"), (b!"indent", .int 2), (b!"line_endings", .str t!"dos"),
       (b!"mimetype", .str t!"text/plain")],
      .str t!"\uFEFFhé😀\r\nw\r\n"⟩
    metaSec := newMeta
    changes := [
      { opts := [(b!"encoding", .str t!"windows-1252")]
        preamble := ⟨.preamble, [(b!"line_endings", .str t!"unix"), (b!"indent", .none)], .str t!"€ “x”™\n"⟩
        metaSec := ⟨.metadata, [(b!"format", .str t!"json")], .dict j2⟩
        files := [
          { opts := []
            metaSec := ⟨.metadata, [(b!"encoding", .str t!"utf-8-sig"), (b!"format", .str t!"json")], .dict jk⟩
            diff := ⟨.diff, [(b!"encoding", .str t!"utf-32-be"), (b!"line_endings", .str t!"dos")],
              .bytes [0, 0, 0, 45, 0, 0, 0, 120, 0, 0, 0, 13, 0, 0, 0, 10, 0, 0, 0, 43, 0, 0, 0, 121, 0, 0, 0, 13,
                0, 0, 0, 10]⟩ }] }] }

set_option maxRecDepth 65536 in
theorem cnormalised2_eq : normalisedTree Codecs.cfg.defaultIndent ctree2 = cloaded2 := rfl

/-- **`C05_tree_roundtrip_concrete` instantiated on the second tree** -/
theorem C05_concrete_instance2 : fromBytes menv Codecs.cfg cver cbytes2 = .ok cloaded2 := by
  have hsz : cbytes2.length ≤ Reader.maxRead := by rw [cbytes2_length]; decide
  have hb := ctree2_bytes
  unfold menv at hb ⊢
  rw [← cnormalised2_eq]
  exact C05_tree_roundtrip_concrete mockDumps mockLoads (fun _ => .err) mockJsonLaws cver ctree2 cbytes2 ctree2_ok
    ctree2_dicts (treeDictsIn_true _) hb t!"utf-8" ccalls2 ctree2_calls hsz

set_option maxRecDepth 65536 in
/-- … true by evaluation as well -/
example : fromBytes menv Codecs.cfg cver cbytes2 = .ok cloaded2 := rfl

/-- **`C06_fixed_point_concrete` instantiated on the second tree** -/
theorem C06_concrete_instance2 : toBytes menv Codecs.cfg cver cloaded2 = .ok cbytes2 := by
  have hsz : cbytes2.length ≤ Reader.maxRead := by rw [cbytes2_length]; decide
  have hb := ctree2_bytes
  unfold menv at hb ⊢
  rw [← cnormalised2_eq]
  exact C06_fixed_point_concrete mockDumps mockLoads (fun _ => .err) mockJsonLaws cver ctree2 cbytes2 ctree2_ok
    ctree2_dicts (treeDictsIn_true _) hb t!"utf-8" ccalls2 ctree2_calls hsz

set_option maxRecDepth 65536 in
/-- … true by evaluation as well -/
example : toBytes menv Codecs.cfg cver cloaded2 = .ok cbytes2 := rfl

/-! ## Why `TreeDicts` is needed (a fact about the plain-data model, not about pydiffx)

`PyVal.dict j` stands for a Python `dict`, but `j : Json` may be any JSON value.  With a `json` that
dumps the integer `1` (and, vacuously, satisfies `JsonLaws` on every domain — they speak of dicts
only — while the tree is trivially `TreeDictsIn (fun _ => True)`), a
"metadata dict" `.dict (.int 1)` is written and the reader rejects what `json.loads` returns. -/

def adumps : Json → EnvR Text
  | .int _ => .ok t!"1"
  | _ => .err

def aenv : Env := Codecs.env adumps (fun _ => .ok (.int 1)) (fun _ => .err)

def atree : Tree :=
  { opts := [(b!"encoding", .str t!"utf-8")], preamble := newPreamble,
    metaSec := ⟨.metadata, [], .dict (.int 1)⟩, changes := [] }

theorem ajsonLaws : JsonLaws (fun _ => True) adumps (fun _ => .ok (.int 1)) where
  ascii := fun _ _ _ h => by cases h
  noCR := fun _ _ _ h => by cases h
  loads := fun _ _ _ h => by cases h

set_option maxRecDepth 65536 in
/-- the ill-typed tree is `TreeOk`, serialises, and the bytes do not parse -/
theorem C05_tree_dicts_artefact :
    TreeOk atree ∧ ¬ TreeDicts atree ∧
    toBytes aenv Codecs.cfg cver atree = .ok b!"#diffx: encoding=utf-8, version=1.0\n#.meta: format=json, length=2\n1\n" ∧
    (match fromBytes aenv Codecs.cfg cver b!"#diffx: encoding=utf-8, version=1.0\n#.meta: format=json, length=2\n1\n" with
     | .error (.parse 1 none) => True
     | _ => False) := by
  refine ⟨by decide, by decide, rfl, ?_⟩
  have : fromBytes aenv Codecs.cfg cver b!"#diffx: encoding=utf-8, version=1.0\n#.meta: format=json, length=2\n1\n" =
      .error (.parse 1 none) := rfl
  rw [this]
  trivial

end Diffx.C05
