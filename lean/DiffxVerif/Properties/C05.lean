import DiffxVerif.Lemmas.Dom
/-!
# C05 — Object model written then parsed gives back the same tree
# C06 — Parse then re-serialise: byte-identical on canonical files, idempotent on others

> C05: For every object-model tree that serialises without error, serialising and
> parsing it yields a tree with the same changes and files in the same order and,
> section by section, the same content and options as the original after the
> documented normalisation only (final line ending appended to text/diff, detected
> line_endings recorded, default preamble indent and metadata format recorded,
> empty content sections omitted). The serialised bytes are exactly the canonical
> serialisation of the tree.
>
> C06: For every file the library itself can produce, parsing it into the object
> model and serialising it again returns the identical bytes. For every
> well-formed file from another producer that the object model accepts,
> re-serialising succeeds, carries the same section contents, and is a fixed
> point: parsing and serialising the result again changes nothing.

`Dom.toBytes` / `Dom.fromBytes` (Model/Dom.lean) mirror `DiffX.to_bytes()` /
`DiffX.from_bytes()`.  What is proved here, for every tree / record list:
the serialisation is the streaming writer run on the tree's call sequence
(hence canonical by C02); the loader rebuilds the shape and places every
content and its options verbatim; which of its failures are library errors.
The whole write→parse and parse→write equalities compose these with the
section round trip of C01 and are decided by the differential run.
-/
namespace Diffx.C05
open Diffx Diffx.Dom

/-- **Canonical serialisation.** `to_bytes` succeeds exactly when every section
can be prepared and the streaming writer accepts every call, and the bytes are
the streaming writer's output for the tree's call sequence. -/
theorem C05_canonical (env : Env) (cfg : Config) (wv : Text) (t : Tree) (b : Bytes)
    (h : toBytes env cfg wv t = .ok b) :
    ∃ enc ver calls, toCalls cfg.defaultIndent t wv = .ok (enc, ver, calls) ∧
      (Writer.run env cfg enc ver calls).1.out = b ∧
      ∀ r ∈ (Writer.run env cfg enc ver calls).2, r = .ok :=
  toBytes_is_run env cfg wv t b h

/-- sections with falsy content (absent / empty text, empty dictionary, empty
bytes) are omitted from the call sequence, all others appear in document order -/
theorem C05_skips_empty (di : Nat) (c : ContentSec) (h : c.content.truthy = false) :
    contentCall di c = .ok none :=
  contentCall_skip di c h

/-- **The loader rebuilds the shape.** Loading the records of any file yields a
tree with one change per `.change` record and, in each, one file per `..file`
record that follows it, in order. -/
theorem C05_load_shape (rs : List Reader.Record) (t0 : Tree) (s : LoadSt)
    (h0 : t0.changes = [])
    (h : rs.foldlM loadRecord ⟨t0, .main⟩ = .ok s) :
    s.tree.changes.map (·.files.length) = shapeOf (rs.map (·.sec)) :=
  load_shape rs t0 s h0 h

/-- **Options are carried verbatim** (minus `length`): the options of a loaded
content section are exactly the header's, integers as integers. -/
theorem C05_load_content_opts (o : Opts) (k : Bytes) (hk : k ≠ b!"length") :
    (contentOpts o).get k = (o.get k).map optToPy ∧ (contentOpts o).get b!"length" = none :=
  contentOpts_get o k hk

/-- **Error family of loading.** The only failures of the loader itself are
library errors — and `TypeError` for a preamble the reader could not decode for
lack of any encoding (known finding D13b). -/
theorem C05_load_errors (s : LoadSt) (r : Reader.Record) (e : LoadErr) (h : loadRecord s r = .error e) :
    e = .library ∨ (e = .typeError ∧ r.sec.name = .preamble) ∨ e = .readerOther :=
  loadRecord_errors s r e h

/-- `readerOther` cannot come from the loader when it is fed the records the
streaming reader yields (they come in hierarchy order, so a preamble never
follows a file, and their contents match their kind): `from_bytes` ends that way
only when the streaming reader itself stopped on the `split_lines` assertion
(an empty encoded newline, excluded by `Reader.NlNonempty`) -/
theorem C05_load_no_other (env : Env) (cfg : Config) (wv : Text) (data : Bytes)
    (h : Dom.fromBytes env cfg wv data = .error .readerOther) :
    (Reader.readAll env cfg cfg.chunk data).2 = .assertion :=
  fromBytes_no_other env cfg wv data h

/-- … the loader proper never fails with `readerOther` on a reader's records -/
theorem C05_load_no_other_records (env : Env) (cfg : Config) (data : Bytes) (t0 : Tree) :
    (Reader.readAll env cfg cfg.chunk data).1.foldlM loadRecord ⟨t0, .main⟩ ≠ .error .readerOther :=
  readAll_load_ne_other env cfg cfg.chunk data t0

/-- **Known finding D14** (C06): a well-formed foreign file whose content header
carries an option the writer has no parameter for loads fine but cannot be
re-serialised (`TypeError`). -/
theorem C06_unknown_option_witness :
    ∃ t : Tree, (∃ c ∈ [t.metaSec], c.opts.get b!"custom" = some (.str (tx b!"v"))) ∧
      ∀ env cfg wv, toBytes env cfg wv t = .error .typeError :=
  unknown_option_witness

end Diffx.C05
