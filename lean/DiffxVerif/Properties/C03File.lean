import DiffxVerif.Lemmas.SpecFile
import DiffxVerif.Properties.C01
/-!
# C03 (whole files) — the reader yields the specification's reading of every well-formed file

> For every structurally well-formed DiffX file, including files from other
> producers (options in any order, optional options absent, blank lines between
> sections, CRLF header lines, compact JSON), the streaming reader yields records
> whose id, level, logical start line, options (integers converted) and content
> equal the specification's reading: content is exactly the declared number of
> bytes after the header, split on the declared or first-line-detected line
> ending, indentation stripped before decoding with the nearest declared encoding,
> metadata parsed as JSON, diffs returned as bytes.

`Properties/C03.lean` states this one loop iteration at a time, with the result of
`_read_content` as a hypothesis.  This file states it for **whole files**, against a
reading that is defined without the reader (`Spec/Document.lean`):

* a document is a list of `Spec.Sec` — each section as its producer wrote it: the blank lines
  before the header, the options in the order written, the raw content bytes;
* `Spec.render crlf doc` is the file (`crlf`: every header line ends with CRLF instead of LF);
* `Spec.reading env cfg doc` is the list of records the specification prescribes, by recursion
  over the document: id, logical start line, options with integers converted, and the content
  (effective encoding by inheritance; newline declared or detected from the first line;
  indentation removed; decoded; JSON parsed; diffs as bytes);
* `Spec.WF env cfg doc` is well-formedness: per section `Spec.SecOk` (hierarchy, header grammar,
  distinct keys, `version`, `length`, `line_endings`, `indent`, `format`, content ends with its
  newline) together with the laws of the environment (codec, JSON) at the values that occur.
  It mentions no reader function.

`C03_sim_step` is the simulation step, `C03_sim_prefix` the list induction, `C03_file` the
theorem about `Spec.render` / `Reader.readAll`; `C03_reject_version` / `C03_reject_length` are
the single-defect corollaries.
-/
namespace Diffx.C03
open Diffx Diffx.Spec Diffx.SpecFile

/-- **Simulation step.**  From a specification context and a reader loop state that are `Related`
(the reader allows what the hierarchy allows here, its encoding stack is the one the context
determines, same container level, same logical line, the file's header newline convention not yet
fixed or fixed to the document's), one reader iteration on a well-formed section followed by any
bytes `post` yields the specification's record, consumes exactly the section, and re-establishes
the relation. -/
theorem C03_sim_step (env : Env) (cfg : Config) (chunk : Nat) (hc : 0 < chunk) (crlf : Bool) (c : Ctx) (s : Sec)
    (ok : SecOk env cfg c s) (l : Reader.Loop) (R : Related crlf c l) (post : Bytes)
    (hrest : l.st.rest = renderSec crlf s ++ post) :
    ∃ l', Reader.stepSection env cfg chunk l = .ok (some (recOf env cfg c s, l')) ∧
      Related crlf (c.next env cfg s) l' ∧ l'.st.rest = post :=
  sim_step env cfg chunk hc crlf c s ok l R post hrest

/-- **List induction.**  From related states, the reader loop run on the rendering of well-formed
sections `pre` followed by any bytes `tail` yields the specification's records for `pre` and then
continues on `tail` from a state related to the context after `pre`. -/
theorem C03_sim_prefix (env : Env) (cfg : Config) (chunk : Nat) (hc : 0 < chunk) (crlf : Bool)
    (pre : List Sec) (c : Ctx) (l : Reader.Loop) (R : Related crlf c l) (wf : WFFrom env cfg c pre)
    (tail : Bytes) (hrest : l.st.rest = render crlf pre ++ tail) (fuel : Nat) (hf : l.st.rest.length < fuel) :
    ∃ l', Related crlf (ctxAfter env cfg c pre) l' ∧ l'.st.rest = tail ∧
      Reader.readLoop env cfg chunk fuel l =
        (readFrom env cfg c pre ++ (Reader.readLoop env cfg chunk (tail.length + 1) l').1,
         (Reader.readLoop env cfg chunk (tail.length + 1) l').2) :=
  sim_prefix env cfg chunk hc crlf pre c l R wf tail hrest fuel hf

/-- **Whole-file theorem.**  For every well-formed document, in either header newline convention
and with any positive block size, the reader run on the document's file yields exactly the
specification's reading — one record per section, in order, with its id, logical start line,
options and content — and then ends normally. -/
theorem C03_file (env : Env) (cfg : Config) (chunk : Nat) (hc : 0 < chunk) (crlf : Bool)
    (doc : List Sec) (wf : WF env cfg doc) :
    Reader.readAll env cfg chunk (render crlf doc) = (reading env cfg doc, .done) := by
  have := file_reading env cfg chunk hc crlf doc wf.sections [] (by intro t ht; cases ht)
  simpa [renderBlank] using this

/-- the same with whitespace-only lines after the last section -/
theorem C03_file_trailing (env : Env) (cfg : Config) (chunk : Nat) (hc : 0 < chunk) (crlf : Bool)
    (doc : List Sec) (wf : WF env cfg doc)
    (trailer : List Bytes) (ht : ∀ t ∈ trailer, ∀ b ∈ t, isWs b = true ∧ b ≠ 10) :
    Reader.readAll env cfg chunk (render crlf doc ++ renderBlank trailer) = (reading env cfg doc, .done) :=
  file_reading env cfg chunk hc crlf doc wf.sections trailer ht

/-- one record per section -/
theorem C03_file_length (env : Env) (cfg : Config) (doc : List Sec) :
    (reading env cfg doc).length = doc.length :=
  readFrom_length env cfg doc Ctx.start

/-- a well-formed document starts with the main header, which declares version 1.0 -/
theorem C03_file_first (env : Env) (cfg : Config) (doc : List Sec) (wf : WF env cfg doc) :
    ∃ s ss, doc = s :: ss ∧ s.id = SecId.main ∧ s.get b!"version" = some b!"1.0" := by
  obtain ⟨hne, hs⟩ := wf
  cases doc with
  | nil => exact absurd rfl hne
  | cons s ss =>
    obtain ⟨ok, _⟩ := hs
    have hm : s.id = SecId.main := by
      have := ok.allowed
      simpa [Ctx.start, allowedNext] using this
    exact ⟨s, ss, rfl, hm, ok.version hm⟩

/-- with distinct keys, the options the specification reports are the ones the header grammar's
reference parser (`Spec.reported`, `Spec/HeaderGrammar.lean`) reports -/
theorem C03_file_opts (s : Sec) (hd : (s.opts.map (·.1)).Nodup) : optsOf s = Spec.reported s.opts :=
  (reported_eq_map s.opts hd).symm

/-- **`SecOk.rawTerminated` is automatic** unless the encoded newline starts with a space: removing
up to `n` leading spaces from every content line keeps the final newline. -/
theorem C03_raw_terminated_auto (env : Env) (cfg : Config) (c : Ctx) (s : Sec)
    (hne : secNewline env cfg s (effEnc c s) ≠ [])
    (hend : endsWith s.content (secNewline env cfg s (effEnc c s)) = true)
    (h32 : (secNewline env cfg s (effEnc c s)).head? ≠ some 32) :
    endsWith (rawText env cfg c s) (secNewline env cfg s (effEnc c s)) = true :=
  unindented_terminated _ _ _ hne hend h32

/-! ## single-defect documents -/

/-- **Unsupported or missing version.**  A document whose main header is well-formed as a header
but does not declare `version=1.0` is rejected at line 0 with no record. -/
theorem C03_reject_version (env : Env) (cfg : Config) (chunk : Nat) (hc : 0 < chunk) (crlf : Bool)
    (bad : Sec) (post : List Sec) (H : HeaderOk Ctx.start bad)
    (hv : bad.get b!"version" ≠ some b!"1.0") :
    Reader.readAll env cfg chunk (render crlf (bad :: post)) = ([], .parseError 0 none) := by
  have hm : bad.id = SecId.main := by
    have := H.allowed
    simpa [Ctx.start, allowedNext] using this
  exact reject_after env cfg chunk hc crlf [] bad post trivial _
    (fun l R hrest => step_bad_version env cfg chunk hc crlf _ bad H hm hv l R _ hrest)

/-- **Missing length.**  Well-formed sections `pre`, then a content section whose header is
well-formed but whose `length` is missing (or not a non-negative integer): the reader yields the
specification's records for `pre` and then stops with a parse error at the logical line of the
offending header. -/
theorem C03_reject_length (env : Env) (cfg : Config) (chunk : Nat) (hc : 0 < chunk) (crlf : Bool)
    (pre : List Sec) (bad : Sec) (post : List Sec) (wf : WFFrom env cfg Ctx.start pre)
    (H : HeaderOk (ctxAfter env cfg Ctx.start pre) bad) (hcs : bad.hasContent = true)
    (hlen : ∀ n : Nat, (bad.get b!"length").map Header.convert ≠ some (.int n)) :
    Reader.readAll env cfg chunk (render crlf (pre ++ bad :: post)) =
      (readFrom env cfg Ctx.start pre, .parseError (ctxAfter env cfg Ctx.start pre).line none) :=
  reject_after env cfg chunk hc crlf pre bad post wf _
    (fun l R hrest => step_bad_length env cfg chunk hc crlf _ bad H hcs hlen l R _ hrest)

/-! ## Non-vacuity: a concrete foreign document, its well-formedness, and the conclusion as a closed
true equation -/

/-- an ASCII-compatible codec environment whose JSON parser knows one text -/
def fileEnv : Env :=
  { C01.asciiEnv with
    loadsText := fun t =>
      if t = Text.ofAscii b!"{\"k\":1}\n" then .ok (.obj [(Text.ofAscii b!"k", .int 1)]) else .err,
    loadsBytes := fun _ => .err }

/-- options not in alphabetical order -/
def sec0 : Sec := { id := SecId.main, opts := [(b!"version", b!"1.0"), (b!"encoding", b!"utf-8")] }
/-- `indent=2`, no `line_endings`: DOS line endings are detected from the first line -/
def sec1 : Sec :=
  { id := SecId.mainPreamble, opts := [(b!"length", b!"12"), (b!"indent", b!"2")],
    content := b!"  hi\r\n  yo\r\n" }
/-- two blank lines (`\r\n` and `\n`) before the header -/
def sec2 : Sec := { id := SecId.change, blank := [[13], []] }
def sec3 : Sec := { id := SecId.file, opts := [(b!"encoding", b!"latin1")] }
/-- compact JSON; encoding inherited from the file section -/
def sec4 : Sec :=
  { id := SecId.fileMeta, opts := [(b!"length", b!"8"), (b!"format", b!"json")], content := b!"{\"k\":1}\n" }
/-- a line of two spaces before the header -/
def sec5 : Sec :=
  { id := SecId.fileDiff, opts := [(b!"length", b!"6")], blank := [b!"  "], content := b!"-a\n+b\n" }

def fileDoc : List Sec := [sec0, sec1, sec2, sec3, sec4, sec5]

/-- the file, with CRLF header lines -/
def fileBytes : Bytes :=
  b!"#diffx: version=1.0, encoding=utf-8\r\n#.preamble: length=12, indent=2\r\n  hi\r\n  yo\r\n\r\n\n#.change:\r\n#..file: encoding=latin1\r\n#...meta: length=8, format=json\r\n{\"k\":1}\n  \n#...diff: length=6\r\n-a\n+b\n"

set_option maxRecDepth 8192 in
theorem fileBytes_eq : render true fileDoc = fileBytes := rfl

/-- the contexts along the document -/
def fc0 : Ctx := Ctx.start
def fc1 : Ctx := fc0.next fileEnv C01.cfg0 sec0
def fc2 : Ctx := fc1.next fileEnv C01.cfg0 sec1
def fc3 : Ctx := fc2.next fileEnv C01.cfg0 sec2
def fc4 : Ctx := fc3.next fileEnv C01.cfg0 sec3
def fc5 : Ctx := fc4.next fileEnv C01.cfg0 sec4

/-- every field of `SecOk` is a decidable closed proposition -/
local macro "secok" : tactic =>
  `(tactic| (refine ⟨⟨?_, ?_, ?_, ?_⟩, ?_, ?_, ?_, ?_, ?_, ?_, ?_, ?_, ?_, ?_, ?_, ?_, ?_, ?_⟩ <;> decide))

theorem sec0_ok : SecOk fileEnv C01.cfg0 fc0 sec0 := by secok
theorem sec1_ok : SecOk fileEnv C01.cfg0 fc1 sec1 := by secok
theorem sec2_ok : SecOk fileEnv C01.cfg0 fc2 sec2 := by secok
theorem sec3_ok : SecOk fileEnv C01.cfg0 fc3 sec3 := by secok
theorem sec4_ok : SecOk fileEnv C01.cfg0 fc4 sec4 := by secok
theorem sec5_ok : SecOk fileEnv C01.cfg0 fc5 sec5 := by secok

/-- **the document is well-formed** -/
theorem fileDoc_wf : WF fileEnv C01.cfg0 fileDoc :=
  ⟨by decide, sec0_ok, sec1_ok, sec2_ok, sec3_ok, sec4_ok, sec5_ok, trivial⟩

/-- the specification's reading, written out -/
def fileRecords : List Reader.Record :=
  [⟨⟨0, .diffx⟩, 0, [(b!"version", .str b!"1.0"), (b!"encoding", .str b!"utf-8")], .container⟩,
   ⟨⟨1, .preamble⟩, 1, [(b!"length", .int 12), (b!"indent", .int 2)], .text (Text.ofAscii b!"hi\r\nyo\r\n")⟩,
   ⟨⟨1, .change⟩, 4, [], .container⟩,
   ⟨⟨2, .file⟩, 5, [(b!"encoding", .str b!"latin1")], .container⟩,
   ⟨⟨3, .metadata⟩, 6, [(b!"length", .int 8), (b!"format", .str b!"json")],
    .metadata (.obj [(Text.ofAscii b!"k", .int 1)])⟩,
   ⟨⟨3, .diff⟩, 8, [(b!"length", .int 6)], .diff b!"-a\n+b\n"⟩]

theorem fileRecords_eq : reading fileEnv C01.cfg0 fileDoc = fileRecords := rfl

/-- `C03_file` instantiated (block size 5, so that headers and contents straddle blocks) … -/
theorem C03_file_instance : Reader.readAll fileEnv C01.cfg0 5 fileBytes = (fileRecords, .done) := by
  rw [← fileBytes_eq, ← fileRecords_eq]
  exact C03_file fileEnv C01.cfg0 5 (by decide) true fileDoc fileDoc_wf

set_option maxRecDepth 8192 in
/-- … a closed equation that is true by evaluation as well -/
example : Reader.readAll fileEnv C01.cfg0 5 fileBytes = (fileRecords, .done) := rfl

/-- the same document with LF header lines reads the same -/
theorem C03_file_instance_lf :
    Reader.readAll fileEnv C01.cfg0 5 (render false fileDoc) = (fileRecords, .done) := by
  rw [← fileRecords_eq]
  exact C03_file fileEnv C01.cfg0 5 (by decide) false fileDoc fileDoc_wf

/-- a single-defect instance: the metadata section loses its `length` -/
def sec4bad : Sec := { sec4 with opts := [(b!"format", b!"json")] }

theorem C03_reject_instance :
    Reader.readAll fileEnv C01.cfg0 5 (render true ([sec0, sec1, sec2, sec3] ++ sec4bad :: [sec5])) =
      (fileRecords.take 4, .parseError 6 none) :=
  C03_reject_length fileEnv C01.cfg0 5 (by decide) true [sec0, sec1, sec2, sec3] sec4bad [sec5]
    ⟨sec0_ok, sec1_ok, sec2_ok, sec3_ok, trivial⟩
    (by refine ⟨?_, ?_, ?_, ?_⟩ <;> decide) (by decide)
    (by intro n; rw [show (sec4bad.get b!"length").map Header.convert = none from by decide]; simp)

/-! ## restrictions forced by the reader, as closed facts

Two requirements of `Spec.SecOk` exclude files that the prose of the specification does not
obviously exclude; the reader model rejects them. -/

/-- `SecOk.effectiveStr`: an effective encoding that `int()` accepts (`1252` is an alias of
`cp1252` for Python's codec registry) — the header parser turns the option value into an integer
and `_read_content` refuses a non-string encoding: parse error at the first content line. -/
example :
    Reader.readAll C01.asciiEnv C01.cfg0 5 b!"#diffx: encoding=1252, version=1.0\n#.meta: length=3\n{}\n" =
      ([⟨⟨0, .diffx⟩, 0, [(b!"encoding", .int 1252), (b!"version", .str b!"1.0")], .container⟩],
       .parseError 2 none) := rfl

/-- … whereas the same declaration is harmless when no content section inherits it; this file is
well-formed and covered by `C03_file` -/
def intEncDoc : List Sec :=
  [{ id := SecId.main, opts := [(b!"encoding", b!"1252"), (b!"version", b!"1.0")] },
   { id := SecId.mainMeta, opts := [(b!"length", b!"3"), (b!"encoding", b!"utf-8")], content := b!"{}\n" }]

theorem intEncDoc_wf : WF C01.asciiEnv C01.cfg0 intEncDoc :=
  ⟨by decide, by secok, by secok, trivial⟩

example :
    Reader.readAll C01.asciiEnv C01.cfg0 5
        b!"#diffx: encoding=1252, version=1.0\n#.meta: length=3, encoding=utf-8\n{}\n" =
      (reading C01.asciiEnv C01.cfg0 intEncDoc, .done) :=
  C03_file C01.asciiEnv C01.cfg0 5 (by decide) false intEncDoc intEncDoc_wf

/-- `SecOk.nlTerminated` / `nlNonempty` (content not empty): a content section with `length=0` is
rejected (`if not content: raise`), here a diff section -/
example :
    (Reader.readAll C01.asciiEnv C01.cfg0 5
        b!"#diffx: version=1.0\n#.change:\n#..file:\n#...meta: length=3\n{}\n#...diff: length=0\n").2 =
      .parseError 6 none := rfl

end Diffx.C03
