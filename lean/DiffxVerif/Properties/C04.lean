import DiffxVerif.Lemmas.Encoding
import DiffxVerif.Lemmas.Order
/-!
# C04 — Encoding inheritance follows nesting: nearest ancestor wins, siblings never leak

> The encoding used to encode (writer) or decode (reader) a preamble or metadata
> section is its own encoding option if present, otherwise that of the nearest
> enclosing file, change or main section that declares one; an encoding declared
> on one change or file never affects a later sibling change or file; diff
> sections never inherit an encoding. Reader and writer agree on this for every
> nesting history.

`Reader.pushEnc` / `Writer.pushFrame` are the stack updates the two models (and
the code) perform for every container header; `Spec.openDecls` / `Spec.nearest`
(Spec/Encoding.lean) is the specification in terms of declarations.  The
theorems quantify over **every** properly nested sequence of container headers
of any length, each declaring or omitting an encoding.
-/
namespace Diffx.C04
open Diffx

/-- a container header as the reader sees it: its id and its own `encoding` option -/
abbrev RHdr := SecId × Option OptVal

/-- the reader's `(encodings, prev_container_level)` after the container headers `cs` -/
def readerStack (cs : List RHdr) : List (Option OptVal) × Nat :=
  cs.foldl (fun s c => (Reader.pushEnc s.1 s.2 c.1 c.2, c.1.level)) ([none], 0)

/-- container headers of a file: the main header first, then changes (level 1)
and files (level 2), properly nested -/
def WellNested (cs : List RHdr) : Prop :=
  ∃ m rest, cs = (SecId.main, m) :: rest ∧
    (∀ c ∈ rest, c.1 = SecId.change ∨ c.1 = SecId.file) ∧
    Spec.Nested [] (cs.map fun c => (c.1.level, c.2))

/-- **Reader.** After any properly nested sequence of container headers the
top of the reader's encoding stack — the encoding used for the next preamble or
metadata section that declares none — is the nearest enclosing declaration. -/
theorem C04_reader (cs : List RHdr) (h : WellNested cs) :
    Reader.topEnc (readerStack cs).1 = Spec.nearest (Spec.openDecls (cs.map fun c => (c.1.level, c.2))) :=
  reader_top_eq_nearest cs h

/-- the whole stack: one inherited value per open container (below a `None` sentinel) -/
theorem C04_reader_stack (cs : List RHdr) (h : WellNested cs) :
    let anc := Spec.openDecls (cs.map fun c => (c.1.level, c.2))
    (readerStack cs).1 = none :: (List.range anc.length).map (fun i => Spec.nearest (anc.take (i + 1))) :=
  reader_stack_eq cs h

/-- own option wins, otherwise the top of the stack: what `stepSection` passes to
`readContent` for a preamble / metadata section -/
theorem C04_own_wins (own : Option OptVal) (encs : List (Option OptVal)) :
    (match own with | some v => some v | none => Reader.topEnc encs) =
      Spec.nearest [Reader.topEnc encs, own] := by
  cases own <;> cases Reader.topEnc encs <;> rfl

/-- a writer container call: `new_change` (level 2 in the writer's numbering) or
`new_file` (level 3) with its `encoding` argument -/
abbrev WCall := Nat × Option Name

/-- the writer's `_stack` after construction with `enc` and the container calls `cs` -/
def writerStack (enc : Option Name) (cs : List WCall) : List (Option Name) :=
  cs.foldl (fun s c => Writer.pushFrame s c.1 c.2) (Writer.pushFrame [enc] 1 enc)

/-- what a call declares: a falsy `encoding` argument (`None`, `''`) declares nothing -/
def declared (e : Option Name) : Option Name := if Writer.truthy e then e else none

/-- **Writer.** After construction and any properly nested sequence of
`new_change` / `new_file` calls, `_cur_encoding` is the nearest enclosing
declaration.  (`he`: the constructor argument is `None` or a non-empty name.
The bottom frame holds the constructor argument itself, so a falsy non-`None`
argument `''` stays on the stack as `''` although it declares nothing; see the
counterexample at the end of the file.) -/
theorem C04_writer (enc : Option Name) (cs : List WCall)
    (he : enc = none ∨ Writer.truthy enc = true)
    (hl : ∀ c ∈ cs, c.1 = 2 ∨ c.1 = 3)
    (hn : Spec.Nested [declared enc] (cs.map fun c => (c.1 - 1, declared c.2))) :
    ((writerStack enc cs).getLast?).getD none =
      Spec.nearest (Spec.openDecls ((0, declared enc) :: cs.map fun c => (c.1 - 1, declared c.2))) :=
  writer_top_eq_nearest enc cs he hl hn

/-- **Writer, unrestricted.** `he` of `C04_writer` is implied by the constructor call being
accepted: `DiffXWriter(fp, encoding='')` is now refused (`DiffXOptionValueError`: the empty
string is not an option value), so every constructed writer was given `None` or a non-empty
name.  For every writer that exists, after any properly nested sequence of `new_change` /
`new_file` calls `_cur_encoding` is the nearest enclosing declaration. -/
theorem C04_writer_accepted (enc : Option Name) (ver : Text) (cs : List WCall)
    (hi : (Writer.init enc ver).2 = .ok)
    (hl : ∀ c ∈ cs, c.1 = 2 ∨ c.1 = 3)
    (hn : Spec.Nested [declared enc] (cs.map fun c => (c.1 - 1, declared c.2))) :
    ((writerStack enc cs).getLast?).getD none =
      Spec.nearest (Spec.openDecls ((0, declared enc) :: cs.map fun c => (c.1 - 1, declared c.2))) :=
  writer_top_eq_nearest enc cs (Writer.init_ok_truthy enc ver hi) hl hn

/-- `writerStack enc []` is the `_stack` of the writer the constructor leaves behind -/
theorem C04_init_stack (enc : Option Name) (ver : Text) (hi : (Writer.init enc ver).2 = .ok) :
    (Writer.init enc ver).1.stack = writerStack enc [] :=
  Writer.init_ok_stack enc ver hi

/-- **Siblings never leak.** Whatever was declared inside earlier changes and
files, right after a new change header that declares nothing the effective
encoding is the main section's declaration; after a new file header that
declares nothing it is the current change's or else the main section's. -/
theorem C04_sibling_change (m : Option OptVal) (rest : List RHdr) (h : WellNested ((SecId.main, m) :: rest)) :
    Reader.topEnc (readerStack ((SecId.main, m) :: rest ++ [(SecId.change, none)])).1 = m :=
  sibling_change m rest h

/-- the specification is insensitive to how declarations are represented:
reader (option values) and writer (codec names) compute corresponding results
for corresponding declarations -/
theorem C04_agree {α β : Type} (f : α → β) (cs : List (Nat × Option α)) :
    Spec.nearest (Spec.openDecls (cs.map fun c => (c.1, c.2.map f))) =
      (Spec.nearest (Spec.openDecls cs)).map f :=
  nearest_map f cs

/-- **Diff sections never inherit** (reader): the encoding handed to
`_read_content` for a `...diff` section is its own option, whatever the stack
holds; for every other content section it is the own option or else the top. -/
theorem C04_diff_reader (opts : Opts) (encodings : List (Option OptVal)) :
    Reader.contentEncoding SecId.fileDiff opts encodings = opts.get b!"encoding" := by
  simp [Reader.contentEncoding]

theorem C04_content_reader (sec : SecId) (hs : sec ≠ SecId.fileDiff) (opts : Opts)
    (encodings : List (Option OptVal)) :
    Reader.contentEncoding sec opts encodings =
      Spec.nearest [Reader.topEnc encodings, opts.get b!"encoding"] := by
  simp only [Reader.contentEncoding, hs, if_false, Spec.nearest]
  cases opts.get b!"encoding" <;> cases Reader.topEnc encodings <;> rfl

/-- **Diff sections never inherit** (writer): with `inherit_encoding=False`
(`write_diff`) the prepared content does not depend on the writer's stack. -/
theorem C04_diff_writer (env : Env) (cfg : Config) (st st' : Writer.St) (content : Writer.Arg)
    (indent : Option Int) (le : Option Text) (enc : Option Name) :
    Writer.prepareContent env cfg st content indent le enc false =
      Writer.prepareContent env cfg st' content indent le enc false :=
  diff_ignores_stack env cfg st st' content indent le enc

/-! ### non-vacuity / the historical defect (tests) -/

/-- main utf-8; change declares utf-16; file; NEW change declares nothing: utf-8 again.
(Before the repair the reader popped only one level here and answered utf-16.) -/
example :
    Reader.topEnc (readerStack [(SecId.main, some (.str b!"utf-8")), (SecId.change, some (.str b!"utf-16")),
      (SecId.file, none), (SecId.change, none)]).1 = some (.str b!"utf-8") := by decide

example : WellNested [(SecId.main, some (.str b!"utf-8")), (SecId.change, some (.str b!"utf-16")),
      (SecId.file, none), (SecId.change, none)] :=
  ⟨_, _, rfl, by decide, by simp [Spec.Nested, Spec.openStep, SecId.main, SecId.change, SecId.file]⟩

/-- `he` in `C04_writer` is necessary: constructed with `encoding=''` the stack is
`['', '']`, so `_cur_encoding` is `''`, not `None` as the specification says. -/
example : ((writerStack (some []) []).getLast?).getD none ≠
    Spec.nearest (Spec.openDecls ((0, declared (some [])) :: ([] : List WCall).map fun c => (c.1 - 1, declared c.2))) := by
  decide

/-- … but that writer no longer exists: the constructor refuses `encoding=''` and leaves
nothing written (`C04_writer_accepted` therefore needs no such hypothesis) -/
example : (Writer.init (some []) (Text.ofAscii b!"1.0")).2 = .optionError ∧
    (Writer.init (some []) (Text.ofAscii b!"1.0")).1.out = [] := by decide

end Diffx.C04
