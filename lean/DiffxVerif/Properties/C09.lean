import DiffxVerif.Lemmas.Order
import DiffxVerif.Tie.Spec
/-!
# C09 — Writer enforces section order; rejected calls are atomic; output is append-only

> For every sequence of writer calls, a call is accepted exactly when the section
> it would write may follow the previously written section under the
> specification's hierarchy (preamble, then metadata, then changes; per change
> preamble, metadata, then files; per file metadata then optional diff). A
> rejected call (wrong order, wrong content type, empty content, invalid option
> value, unencodable text) raises, writes not a single byte and leaves the writer
> able to continue exactly as if the call had not been made; accepted calls only
> ever append.

`Writer.step env cfg st c` (Model/Writer.lean) is one public method call; its
monad keeps the state reached when an exception is raised, so atomicity is a
theorem about the order of effects in the model, not a convention.  All
statements hold for every environment, every writer state and every call.
-/
namespace Diffx.C09
open Diffx Diffx.Writer

/-- the section a call writes when the writer is in state `st` -/
def sectionOf (st : St) : Call → SecId
  | .newChange _ => ⟨1, .change⟩
  | .newFile _ => ⟨2, .file⟩
  | .preamble .. => ⟨st.level, .preamble⟩
  | .metadata .. => ⟨st.level, .metadata⟩
  | .diff .. => ⟨st.level, .diff⟩

/-- state after a sequence of calls (results discarded) -/
def runFrom (env : Env) (cfg : Config) (st : St) (cs : List Call) : St :=
  cs.foldl (fun s c => (step env cfg s c).1) st

/-- **Atomic rejection.** A call that does not succeed — whatever the reason —
leaves the stream, the section stack and the previous-section marker exactly as
they were. -/
theorem C09_atomic (env : Env) (cfg : Config) (st : St) (c : Call) :
    (step env cfg st c).2 ≠ .ok → (step env cfg st c).1 = st :=
  step_atomic env cfg st c

/-- **Append-only.** An accepted call appends a non-empty block of bytes and
changes nothing that was written before. -/
theorem C09_append (env : Env) (cfg : Config) (st : St) (c : Call) :
    (step env cfg st c).2 = .ok → ∃ b, b ≠ [] ∧ (step env cfg st c).1.out = st.out ++ b :=
  step_append env cfg st c

/-- the stream only ever grows over any call sequence -/
theorem C09_prefix (env : Env) (cfg : Config) (st : St) (cs : List Call) :
    st.out <+: (runFrom env cfg st cs).out :=
  runFrom_prefix env cfg st cs

/-- **Accepted ⇒ in order.** An accepted call wrote a section that may follow
the previously written one in the specification's hierarchy. -/
theorem C09_accepted_in_order (env : Env) (cfg : Config) (st : St) (c : Call) (p : SecId)
    (hp : st.prev = some p) (h : (step env cfg st c).2 = .ok) :
    sectionOf st c ∈ Spec.next p ∧ (step env cfg st c).1.prev = some (sectionOf st c) :=
  step_ok_in_order env cfg st c p hp h

/-- **Out of order ⇒ rejected** (contrapositive, stated for emphasis) -/
theorem C09_out_of_order_rejected (env : Env) (cfg : Config) (st : St) (c : Call) (p : SecId)
    (hp : st.prev = some p) (h : sectionOf st c ∉ Spec.next p) :
    (step env cfg st c).2 ≠ .ok :=
  fun hok => h (C09_accepted_in_order env cfg st c p hp hok).1

/-- the order error is raised only for calls that really are out of order -/
theorem C09_order_error_sound (env : Env) (cfg : Config) (st : St) (c : Call)
    (h : (step env cfg st c).2 = .orderError) :
    ∃ p, st.prev = some p ∧ sectionOf st c ∉ Spec.next p :=
  step_orderError env cfg st c h

/-- **In order and valid arguments ⇒ accepted.** "Valid arguments" is expressed
without restating the code: the same call is accepted by the same writer when
order checking is switched off (`prev := none`). -/
theorem C09_accept (env : Env) (cfg : Config) (st : St) (c : Call) (p : SecId)
    (hp : st.prev = some p) (ho : sectionOf st c ∈ Spec.next p)
    (ha : (step env cfg { st with prev := none } c).2 = .ok) :
    (step env cfg st c).2 = .ok :=
  step_accept env cfg st c p hp ho ha

/-- **As if the call had not been made.** Dropping a rejected call from a call
sequence changes nothing afterwards. -/
theorem C09_rejected_noop (env : Env) (cfg : Config) (st : St) (c : Call) (cs : List Call)
    (h : (step env cfg st c).2 ≠ .ok) :
    runFrom env cfg st (c :: cs) = runFrom env cfg st cs := by
  simp [runFrom, C09_atomic env cfg st c h]

/-- the stack depth always matches the previously written section, for every
state reachable from a constructed writer: the level used to build section ids
is the hierarchy's nesting level -/
theorem C09_level_invariant (env : Env) (cfg : Config) (enc : Option Name) (ver : Text) (cs : List Call)
    (hi : (init enc ver).2 = .ok) :
    let st := runFrom env cfg (init enc ver).1 cs
    ∃ p, st.prev = some p ∧ st.stack.length = (if p.name = .diffx ∨ p.name = .change ∨ p.name = .file
                                                then p.level else p.level - 1) + 2 :=
  level_invariant env cfg enc ver cs hi

/-- **a negative preamble indent is rejected** (`DiffXOptionValueError`) **and nothing is
written**: the call does not succeed and leaves the stream, the section stack and the
previous-section marker as they were — whatever the writer state, the text argument and the
other options are -/
theorem C09_negative_indent_rejected (env : Env) (cfg : Config) (st : St) (text : Arg)
    (enc : Option Name) (n : Int) (hn : n < 0) (le : Option Text) (mime : Option Text) :
    (step env cfg st (.preamble text enc (some n) le mime)).2 ≠ .ok ∧
    (step env cfg st (.preamble text enc (some n) le mime)).1 = st :=
  step_preamble_negative_rejected env cfg st text enc n hn le mime

/-- the exact outcome when the text is a `str`: `DiffXOptionValueError` (raised for the
indent, or — the mimetype being checked first — already for an invalid mimetype, which is the
same exception class), in every writer state, before the order check, and the writer is
unchanged -/
theorem C09_negative_indent_optionError (env : Env) (cfg : Config) (st : St) (t : Text)
    (enc : Option Name) (n : Int) (hn : n < 0) (le : Option Text) (mime : Option Text) :
    step env cfg st (.preamble (.str t) enc (some n) le mime) = (st, .optionError) :=
  step_preamble_negative env cfg st t enc n hn le mime

/-- **an unrepresentable `encoding=` value is rejected and nothing is written.**
`valueRefused (.str n)` (Model/Writer.lean): `n` is not made of option-value characters
(`''`, a space, `=`, `,`, non-ASCII, …) or is something `int()` accepts (`1252`, `1_0`, `-5`),
so a reader would not get the name back.  A `new_change` / `new_file` call with such a name does
not succeed and leaves the stream, the section stack and the previous-section marker as they
were; when the call is in order the outcome is exactly `DiffXOptionValueError`. -/
theorem C09_unrepresentable_value_rejected (env : Env) (cfg : Config) (st : St) (n : Name)
    (hv : valueRefused (.str n) = true) (c : Call)
    (hc : c = .newChange (some n) ∨ c = .newFile (some n)) :
    (step env cfg st c).2 ≠ .ok ∧ (step env cfg st c).1 = st ∧
    ((∀ p, st.prev = some p → sectionOf st c ∈ Spec.next p) → (step env cfg st c).2 = .optionError) := by
  have hn : callEncoding c = some n := by rcases hc with rfl | rfl <;> rfl
  obtain ⟨h1, h2⟩ := step_refused_enc env cfg st c n hn hv
  refine ⟨h1, h2, fun ho => ?_⟩
  rw [step_container_refused env cfg st c n hc hv ho]

/-- the same for every call that carries the name as its own `encoding=` argument
(`add_preamble`, `add_meta`, `add_diff` included): not accepted, writer unchanged.  (For a content
call the exception may be another one — e.g. the codec lookup fails first.) -/
theorem C09_unrepresentable_encoding_rejected (env : Env) (cfg : Config) (st : St) (c : Call) (n : Name)
    (hn : callEncoding c = some n) (hv : valueRefused (.str n) = true) :
    (step env cfg st c).2 ≠ .ok ∧ (step env cfg st c).1 = st :=
  step_refused_enc env cfg st c n hn hv

/-! ### tests -/
/-- a state in which `C09_accept`'s hypotheses are met -/
example : (init (some (Text.ofAscii b!"utf-8")) (Text.ofAscii b!"1.0")).2 = .ok := by decide
/-- a one-byte-per-code-point codec under every name (JSON functions unused) -/
def testEnv : Env :=
  { canon := fun n => .ok n,
    encode := fun _ t => .ok (t.map (·.toUInt8)),
    decode := fun _ b => .ok (b.map (·.toNat)),
    loadsText := fun _ => .ok (.obj []),
    loadsBytes := fun _ => .ok (.obj []),
    dumps := fun _ => .ok [] }
def testCfg : Config := { chunk := 96, boms := [], defaultIndent := 4, defaultEncoding := [] }

/-- `add_preamble('hi', indent=-1)` on a fresh writer: option error; the same call with
`indent=0` is accepted, so the rejection is due to the sign of the indent -/
example :
    (step testEnv testCfg (init (some (Text.ofAscii b!"utf-8")) (Text.ofAscii b!"1.0")).1
      (.preamble (.str (Text.ofAscii b!"hi")) none (some (-1)) none none)).2 = .optionError ∧
    (step testEnv testCfg (init (some (Text.ofAscii b!"utf-8")) (Text.ofAscii b!"1.0")).1
      (.preamble (.str (Text.ofAscii b!"hi")) none (some 0) none none)).2 = .ok := by
  decide

/-- refused values: a name `int()` accepts, the empty name, a space, `=`, `,`, non-ASCII;
and values that are not refused -/
example : valueRefused (.str (Text.ofAscii b!"1252")) = true ∧ valueRefused (.str (Text.ofAscii b!"1_0")) = true ∧
    valueRefused (.str (Text.ofAscii b!"-5")) = true ∧ valueRefused (.str []) = true ∧
    valueRefused (.str (Text.ofAscii b!"utf 8")) = true ∧ valueRefused (.str (Text.ofAscii b!"a=b")) = true ∧
    valueRefused (.str (Text.ofAscii b!"a,b")) = true ∧ valueRefused (.str [233]) = true ∧
    valueRefused (.str (Text.ofAscii b!"utf-8")) = false ∧ valueRefused (.str (Text.ofAscii b!"cp1252")) = false ∧
    valueRefused (.str (Text.ofAscii b!"1_")) = false ∧ valueRefused (.int (-3)) = false := by
  decide

/-- `new_change(encoding='1252')` on a fresh writer: option error; with `cp1252`: accepted -/
example :
    (step testEnv testCfg (init (some (Text.ofAscii b!"utf-8")) (Text.ofAscii b!"1.0")).1
      (.newChange (some (Text.ofAscii b!"1252")))).2 = .optionError ∧
    (step testEnv testCfg (init (some (Text.ofAscii b!"utf-8")) (Text.ofAscii b!"1.0")).1
      (.newChange (some (Text.ofAscii b!"cp1252")))).2 = .ok ∧
    (init (some (Text.ofAscii b!"1252")) (Text.ofAscii b!"1.0")).2 = .optionError ∧
    (init (some []) (Text.ofAscii b!"1.0")).2 = .optionError := by
  decide

end Diffx.C09
