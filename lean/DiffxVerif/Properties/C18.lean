import DiffxVerif.Lemmas.Heap
/-!
# C18 — Object-model instances are isolated and observers do not mutate

> No two sections or trees ever share mutable state: changing the metadata,
> options or content of one section, tree or parse result never changes another,
> however they were created (constructor defaults, add_change/add_file, repeated
> parses with one reader object, repeated serialisation with one writer object).
> Serialising, comparing and printing a tree leave it unchanged, and serialising
> the same tree twice gives identical bytes.

Object identity is run-time behaviour; `Model/Heap.lean` abstracts it to cell
ids and mirrors which Python expressions allocate (`default_options.copy()`,
`deepcopy(default_value)`, `[]`, `json.loads`) and which store a reference
supplied by the caller (`section.meta = d`).  The theorems are about that
allocation discipline for **every** operation history; the differential run
compares, after every step of random interleavings over several live trees, the
partition of `id()`s of the real objects with the partition of cell ids, and
which objects a mutation is visible through.  (**Partial**: what a theorem can
say about the code stops at the abstraction; aliasing itself is observed.)
-/
namespace Diffx.C18
open Diffx.Heap

/-- cells that belong to the caller (dictionaries assigned with `section.meta = d`) -/
def callerCells (s : State) : List Nat := s.callers.map (·.2)

/-- every cell in use was allocated: it is below the allocation counter -/
theorem C18_allocated (ops : List Op) :
    ∀ c ∈ allCells (run ops) ++ callerCells (run ops), c < (run ops).next :=
  run_allocated ops

/-- **No sharing.** After any history, a cell that is not a caller-supplied
dictionary is referenced from exactly one place among all sections of all live
trees — constructor defaults, `add_change` / `add_file` and repeated parses
never hand out the same mutable object twice. -/
theorem C18_no_sharing (ops : List Op) :
    ∀ c ∈ allCells (run ops), c ∉ callerCells (run ops) → (allCells (run ops)).count c = 1 :=
  run_no_sharing ops

/-- hence two different live trees have no library-allocated cell in common:
mutating one (in place) is invisible from the other -/
theorem C18_isolation (ops : List Op) (i j : Nat) (ti tj : HTree) (hij : i ≠ j)
    (hi : (run ops).trees[i]? = some ti) (hj : (run ops).trees[j]? = some tj) :
    ∀ c ∈ treeCells ti, c ∉ callerCells (run ops) → c ∉ treeCells tj :=
  run_isolation ops i j ti tj hij hi hj

/-- **Observers do not mutate**: serialising, comparing and printing change nothing. -/
theorem C18_observe (s : State) (t : Nat) : step s (.observe t) = s := rfl

/-- an in-place mutation never changes which object a slot refers to, allocates
nothing, and bumps the version of exactly one cell -/
theorem C18_mutate (s : State) (t : Nat) (p : Path) (sl : Slot) :
    (step s (.mutate t p sl)).trees = s.trees ∧ (step s (.mutate t p sl)).next = s.next ∧
    (step s (.mutate t p sl)).callers = s.callers :=
  mutate_keeps s t p sl

/-- a parse result shares nothing with the tree it was parsed from, nor with any
earlier parse through the same reader object (all its cells are new) -/
theorem C18_parse_fresh (s : State) (t : Nat) (tr : HTree) (h : s.trees[t]? = some tr)
    (hb : ∀ c ∈ allCells s ++ callerCells s, c < s.next) :
    ∃ n, (step s (.parse t)).trees = s.trees ++ [n] ∧ ∀ c ∈ treeCells n, s.next ≤ c :=
  parse_fresh s t tr h hb

/-! ### test -/
example : (allCells (run [.newTree, .newTree, .addChange 0, .addFile 0 0, .parse 0, .setMeta 0 .main 7,
    .setMeta 1 .main 7])).length = 35 := by decide

end Diffx.C18
