import DiffxVerif.Lemmas.Codec
import DiffxVerif.Lemmas.CodecSame
import DiffxVerif.Tie.Boms
/-!
# C15 — Newline and BOM handling depends on the codec, not on how its name is spelled

> For every text codec the platform supports statelessly and every spelling of its
> name that can stand as an option value and is not purely numeric (case,
> hyphen/underscore variants, registered aliases, BOM-emitting variants), the
> newline bytes the library appends, splits on and checks for are exactly the
> encoding of LF or CRLF in that codec without any byte-order mark, and therefore
> writing and then reading a section gives the same text, and the same bytes
> apart from the spelled name, for every spelling.

The models use a codec name only through the environment (`env.canon`,
`env.encode`, `env.decode`); `SameCodec env n₁ n₂` says the environment does not
distinguish two names (CPython resolves every spelling / alias to one codec
object; tested for ~1,100 spellings by the check).
-/
namespace Diffx.C15
open Diffx

/-- **Spelling independence of the newline** (`get_newline_for_type`). -/
theorem C15_newline_spelling (env : Env) (cfg : Config) (ln : Nat) (dos : Bool) (n₁ n₂ : Name)
    (h : SameCodec env n₁ n₂) (hok : ∃ c, env.canon n₁ = .ok c) :
    Reader.newlineFor env cfg ln dos (some n₁) = Reader.newlineFor env cfg ln dos (some n₂) :=
  newlineFor_same env cfg ln dos n₁ n₂ h hok

/-- **Spelling independence of line-ending detection** (`guess_line_endings`). -/
theorem C15_guess_spelling (env : Env) (cfg : Config) (ln : Nat) (content : Bytes) (n₁ n₂ : Name)
    (h : SameCodec env n₁ n₂) (hok : ∃ c, env.canon n₁ = .ok c) :
    Reader.guessLineEndings env cfg ln content (some n₁) = Reader.guessLineEndings env cfg ln content (some n₂) :=
  guess_same env cfg ln content n₁ n₂ h hok

/-- **Whole content section, reader**: two spellings of one codec give the same
result of `_read_content` (same text or error, same bytes consumed, same line count). -/
theorem C15_read_spelling (env : Env) (cfg : Config) (st : Reader.St) (len : Nat) (b₁ b₂ : Bytes)
    (ind le : Option OptVal) (kb : Bool)
    (h : SameCodec env (Name.ofBytes b₁) (Name.ofBytes b₂))
    (hok : ∃ c, env.canon (Name.ofBytes b₁) = .ok c) :
    Reader.readContent env cfg st len (some (.str b₁)) ind le kb =
      Reader.readContent env cfg st len (some (.str b₂)) ind le kb :=
  readContent_same env cfg st len b₁ b₂ ind le kb h hok

/-- **Whole content section, writer**: the prepared bytes are the same under
both spellings (the header differs only in the spelled name). -/
theorem C15_write_spelling (env : Env) (cfg : Config) (st : Writer.St) (content : Writer.Arg)
    (indent : Option Int) (le : Option Text) (n₁ n₂ : Name) (inherit : Bool)
    (ht : Writer.truthy (some n₁) = true) (ht2 : Writer.truthy (some n₂) = true)
    (h : SameCodec env n₁ n₂) (hok : ∃ c, env.canon n₁ = .ok c) :
    Writer.prepareContent env cfg st content indent le (some n₁) inherit =
      Writer.prepareContent env cfg st content indent le (some n₂) inherit :=
  prepareContent_same env cfg st content indent le n₁ n₂ inherit ht ht2 h hok

/-- **BOM-free.** For a codec that prepends `bom` when encoding, if the BOM table
has an adequate row under the codec's canonical name, the newline the library
uses is the encoding of LF / CRLF without the BOM — for every spelling `n` that
resolves to that canonical name. -/
theorem C15_bom_free (env : Env) (cfg : Config) (ln : Nat) (dos : Bool) (n canon : Name) (bom nl0 : Bytes)
    (hc : env.canon n = .ok canon) (he : env.encode n (nlText dos) = .ok (bom ++ nl0))
    (hrow : BomRowFor cfg canon bom) :
    Reader.newlineFor env cfg ln dos (some n) = .ok nl0 :=
  newlineFor_bomfree env cfg ln dos n canon bom nl0 hc he hrow

/-- a codec without BOM and without a row: the newline is its plain encoding -/
theorem C15_plain (env : Env) (cfg : Config) (ln : Nat) (dos : Bool) (n canon : Name) (nl0 : Bytes)
    (hc : env.canon n = .ok canon) (he : env.encode n (nlText dos) = .ok nl0)
    (hrow : cfg.boms.lookup canon = none) :
    Reader.newlineFor env cfg ln dos (some n) = .ok nl0 :=
  newlineFor_plain env cfg ln dos n canon nl0 hc he hrow

/-- **The repository's table is adequate** for every BOM-emitting platform codec
(tie, re-checked against the working tree on every run). -/
theorem C15_table_adequate :
    ∀ p ∈ Tie.platformBoms, ∀ bom ∈ p.2, BomRowFor Generated.config p.1 bom :=
  Tie.tie_boms

/-- hence, with the repository's table, for every spelling resolving to `utf-16`,
`utf-32` or `utf-8-sig` the newline is BOM-free -/
theorem C15_configured (env : Env) (ln : Nat) (dos : Bool) (n : Name) (p : Name × List Bytes)
    (hp : p ∈ Tie.platformBoms) (bom : Bytes) (hb : bom ∈ p.2) (nl0 : Bytes)
    (hc : env.canon n = .ok p.1) (he : env.encode n (nlText dos) = .ok (bom ++ nl0)) :
    Reader.newlineFor env Generated.config ln dos (some n) = .ok nl0 :=
  C15_bom_free env Generated.config ln dos n p.1 bom nl0 hc he (C15_table_adequate p hp bom hb)

end Diffx.C15
