import DiffxVerif.Lemmas.Faithful
import DiffxVerif.Lemmas.CodecProofs
import DiffxVerif.Properties.C01Run
/-!
# C01 (content equality) — what is read back is what was written

> … content equal to what was written: preamble text and diff bytes unchanged except that a
> missing final line ending (of the declared or first-line-detected kind) is appended,
> metadata equal as a JSON value … for every combination of section encodings, indentation
> and line endings.

`Properties/C01.lean` / `C01Run.lean` prove the round trip with the record content expressed
through the environment (`laws.decoded` = the decoding of the prepared bytes).  This file closes
the gap to *the text that was written*:

**Stage 1 (any environment).**  `CodecFaithful env cfg e` (Lemmas/Faithful.lean) is a bundle of
three laws about the codec named `e`, for all texts, mentioning neither writer nor reader.
Under it, `C01_text_equal`: the text read back is `normText t (textDos le t)` — the text
written, with the line ending of the declared (or first-line-detected) kind appended when
missing; `C01_content_text_equal` is the reader statement; `C01_diff_equal` the one for diff
bytes; `C01_run_content_equal` the whole-sequence corollary (`writtenContent` is computed
from the call's arguments).

**Stage 2 (CPython's codecs, in Lean).**  `Model/Codecs.lean` defines ascii, latin-1, utf-8,
utf-16-le, utf-16-be, utf-16 (BOM), utf-32-le, utf-32-be, utf-32 (BOM), utf-8-sig (signature) and
cp1252 as executable functions; `C01_codec_faithful` and
`C01_codec_newlines` prove the laws for each of them under each spelling, with the BOM table
of the repository; `C01_text_roundtrip_concrete` is the round trip without any hypothesis on
the environment.

**A law that is false of CPython.**  `encode (t ++ u) = encode t ++ strip_bom (encode u)` does
not hold for all `u`: `strip_bom` removes a leading `EF BB BF` from UTF-8 data (`FF FE` from
`utf-16-le` data, `FE FF` from `utf-16-be` data) even when the encoder produced it for a
genuine U+FEFF at the start of `u`; likewise `FF FE 00 00` from `utf-32-le` and `00 00 FE FF`
from `utf-32-be` data.  `CodecFaithful.enc_append` therefore carries the side
condition `u.head? ≠ some 0xFEFF` (the newline texts satisfy it);
`C01_enc_append_needs_side_condition` is the counterexample, evaluated.  The codecs whose
encoder always emits a mark (`utf-16`, `utf-32`, `utf-8-sig`) are immune: what `strip_bom` removes
is the encoder's mark, one only.
-/
namespace Diffx.C01
open Diffx Diffx.RunRT

/-! ## Stage 1: faithful codec ⇒ content equality -/

/-- **The text read back is the text written**, its final line ending (of the declared or
first-line-detected kind) appended when missing. -/
theorem C01_text_equal (env : Env) (cfg : Config) (wst : Writer.St) (t : Text) (le : Option Text)
    (enc : Option Name) (leOut : Text) (laws : TextLaws env cfg wst t le enc leOut)
    (F : CodecFaithful env cfg (Text.ofAscii laws.encName)) :
    laws.decoded = normText t (textDos le t) := by
  rw [text_decoded_eq env cfg wst t le enc leOut laws F, laws.dos_eq]

/-- the kind of the laws (and of the `line_endings` option written) is the declared kind, or the
one detected on the first line of the text -/
theorem C01_text_kind (env : Env) (cfg : Config) (wst : Writer.St) (t : Text) (le : Option Text)
    (enc : Option Name) (leOut : Text) (laws : TextLaws env cfg wst t le enc leOut) :
    laws.dos = textDos le t ∧ leOut = leKind (textDos le t) :=
  ⟨laws.dos_eq, by rw [← laws.dos_eq]; exact laws.hle⟩

/-- `textDos` spelled out -/
theorem C01_textDos_spec (t : Text) :
    textDos (some (Text.ofAscii b!"dos")) t = true ∧ textDos (some (Text.ofAscii b!"unix")) t = false ∧
    textDos none t = (Writer.guessText t).1 := ⟨rfl, rfl, rfl⟩

/-- **Content round trip with content equality (text sections).** `C01_content_text` with the
returned text identified. -/
theorem C01_content_text_equal (env : Env) (cfg : Config) (wst : Writer.St) (t : Text) (indent : Option Int)
    (le : Option Text) (enc : Option Name) (data : Bytes) (leOut : Text)
    (hp : Writer.prepareContent env cfg wst (.str t) indent le enc true = .ok (data, leOut))
    (hi : ∀ i, indent = some i → 0 ≤ i)
    (hlen : data.length ≤ Reader.maxRead)
    (laws : TextLaws env cfg wst t le enc leOut)
    (F : CodecFaithful env cfg (Text.ofAscii laws.encName))
    (rest : Bytes) (ln : Nat) (f : Option Bool) :
    Reader.readContent env cfg ⟨data ++ rest, ln, f⟩ data.length
        (some (.str laws.encName)) (indent.map OptVal.int) (some (.str leOut.toAscii)) false =
      .ok (.text (normText t (textDos le t)), ⟨rest, ln + laws.lines, f⟩) := by
  rw [← C01_text_equal env cfg wst t le enc leOut laws F]
  exact C01_content_text env cfg wst t indent le enc data leOut hp hi hlen laws rest ln f

/-- **Diff bytes come back unchanged**, the section's newline appended when missing (the
disjunction of `C01_content_diff` decided by `endsWith`). -/
theorem C01_diff_equal (env : Env) (cfg : Config) (wst : Writer.St) (b : Bytes)
    (le : Option Text) (enc : Option Name) (data : Bytes) (leOut : Text)
    (hp : Writer.prepareContent env cfg wst (.bytes b) none le enc false = .ok (data, leOut))
    (laws : DiffLaws env cfg wst b le enc leOut) :
    data = normBytes b laws.nl := by
  obtain ⟨nl', d, h1, h2⟩ := (prepareContent_ok_iff ..).mp hp
  obtain ⟨hw', hd⟩ := prepCore_ok _ _ _ _ _ _ _ _ _ _ h1
  have hnl : nl' = laws.nl := PreparedWith_unique _ _ _ _ _ _ _ _ _ _ hw' laws.hw
  subst hnl
  have hdb : d = b := hd
  subst hdb
  rw [prepFinish_none] at h2
  exact (Except.ok.inj h2).symm

/-- one record: its content is the content written -/
theorem C01_record_content_equal (env : Env) (cfg : Config) (st : Writer.St) (line : Nat) (c : Writer.Call)
    (L : CallLaws env cfg st c) (F : CallFaithful env cfg st c L) :
    (expectedOne env cfg st line c L).1.content = writtenContent env cfg st c L :=
  expected_content_eq env cfg st line c L F

/-- `writtenContent` spelled out for the three content calls -/
theorem C01_writtenContent_spec (env : Env) (cfg : Config) (st : Writer.St) :
    (∀ t enc indent le mime (L : CallLaws env cfg st (.preamble (.str t) enc indent le mime)),
      writtenContent env cfg st _ L = .text (normText t (textDos le t))) ∧
    (∀ j enc fmt (L : CallLaws env cfg st (.metadata (.dict j) enc fmt)),
      writtenContent env cfg st _ L = .metadata j) ∧
    (∀ b dtype enc le (L : DiffCallLaws env cfg st b enc le),
      writtenContent env cfg st (.diff (.bytes b) dtype enc le) L = .diff (normBytes b L.dl.nl)) :=
  ⟨fun _ _ _ _ _ _ => rfl, fun _ _ _ _ => rfl, fun _ _ _ _ _ => rfl⟩

/-- the newline of a diff section: the BOM-free encoding of LF / CRLF under `encoding or 'ascii'`,
of the declared kind when `line_endings` was given -/
theorem C01_diff_newline (env : Env) (cfg : Config) (st : Writer.St) (b : Bytes) (enc : Option Name)
    (le : Option Text) (L : DiffCallLaws env cfg st b enc le) :
    ∃ raw, env.encode (enc.getD (Text.ofAscii b!"ascii")) (nlText L.dl.dos) = .ok raw ∧
      stripBom env cfg raw (some (enc.getD (Text.ofAscii b!"ascii"))) = .ok L.dl.nl ∧
      L.leOut = leKind L.dl.dos ∧ (∀ l, le = some l → l = L.leOut) :=
  diff_newline_spec env cfg st b enc le L

/-- **Whole-sequence content equality.**  For every accepted program whose laws hold, whose
preamble / metadata encodings are faithful codecs and whose metadata survives `json`
(`ProgramFaithfulFrom`): the reader yields, in order, the main container and then for every call
the content that was written — the text with its final line ending appended when missing, the
metadata value, the diff bytes with their newline appended when missing — and ends normally. -/
theorem C01_run_content_equal (env : Env) (cfg : Config) (chunk : Nat) (hc : 0 < chunk)
    (enc : Name) (calls : List Writer.Call)
    (hok : ∀ r ∈ (Writer.run env cfg (some enc) (Text.ofAscii b!"1.0") calls).2, r = .ok)
    (laws : ProgramLaws env cfg enc calls)
    (F : ProgramFaithfulFrom env cfg (Writer.init (some enc) (Text.ofAscii b!"1.0")).1 calls laws.calls) :
    (Reader.readAll env cfg chunk (Writer.run env cfg (some enc) (Text.ofAscii b!"1.0") calls).1.out).1.map
        (·.content) =
      .container :: writtenFrom env cfg (Writer.init (some enc) (Text.ofAscii b!"1.0")).1 calls laws.calls ∧
    (Reader.readAll env cfg chunk (Writer.run env cfg (some enc) (Text.ofAscii b!"1.0") calls).1.out).2 = .done := by
  rw [C01_run env cfg chunk hc enc calls hok laws]
  exact ⟨expectedRecords_content env cfg enc calls laws F, rfl⟩

/-! ## Stage 2: the concrete codecs -/

section Concrete
variable (dumps : Json → EnvR Text) (loadsText : Text → EnvR Json) (loadsBytes : Bytes → EnvR Json)

/-- the BOM table, default indent and default encoding of `Codecs.cfg` are the ones extracted from
the repository.  The read-ahead block size is deliberately not part of the tie: the property
(C17) says results do not depend on it, the whole-run theorems take it as a separate argument,
and `C17_tie_chunk` only asks that the repository's value is positive. -/
theorem C01_codecs_cfg : Codecs.cfg.boms = Generated.config.boms ∧
    Codecs.cfg.defaultIndent = Generated.config.defaultIndent ∧
    Codecs.cfg.defaultEncoding = Generated.config.defaultEncoding ∧
    Codecs.cfg.strictLength = Generated.config.strictLength := Codecs.cfg_eq

/-- **Decoding undoes encoding** for each of the codecs (statement about the codec functions
alone). -/
theorem C01_codec_decode_encode (c : Codecs.Codec) (t : Text) (b : Bytes) (h : c.encode t = some b) :
    c.decode b = some t :=
  Codecs.decode_encode c t b h

/-- **Every codec of `Codecs.env` is faithful**, under every spelling. -/
theorem C01_codec_faithful (e : Name) (c : Codecs.Codec) (he : Codecs.lookup e = some c) :
    CodecFaithful (Codecs.env dumps loadsText loadsBytes) Codecs.cfg e :=
  Codecs.faithful dumps loadsText loadsBytes e c he

/-- **… and has proper newlines**: LF / CRLF encode; BOM-free they are non-empty, unbordered,
hold no space byte, decode to the newline, and end encoded data only when the text ends with
the newline. -/
theorem C01_codec_newlines (e : Name) (c : Codecs.Codec) (he : Codecs.lookup e = some c) :
    CodecNewlines (Codecs.env dumps loadsText loadsBytes) Codecs.cfg e :=
  Codecs.newlines dumps loadsText loadsBytes e c he

/-- the spellings: every one of them names a codec, is a well-formed option value, and
`codecs.lookup(…).name` is the codec's canonical name -/
theorem C01_codec_names :
    Codecs.aliases.map (·.1) =
      [t!"ascii", t!"latin1", t!"latin-1", t!"iso-8859-1", t!"iso8859-1", t!"utf-8", t!"utf8", t!"UTF-8",
       t!"utf-16", t!"utf-16-le", t!"utf-16-be", t!"utf-32", t!"utf32", t!"UTF-32", t!"utf-32-le", t!"utf-32-be",
       t!"utf-8-sig", t!"UTF-8-SIG", t!"cp1252", t!"windows-1252", t!"UTF-16", t!"utf_16", t!"utf16", t!"latin_1",
       t!"us-ascii"] ∧
    (∀ p ∈ Codecs.aliases, Codecs.lookup p.1 = some p.2 ∧ NameOk p.1) ∧
    (∀ c ∈ Codecs.Codec.all, Codecs.lookup c.name = some c) := by
  refine ⟨rfl, ?_, by decide⟩
  intro p hp
  have h1 : ∀ p ∈ Codecs.aliases, Codecs.lookup p.1 = some p.2 := by decide
  exact ⟨h1 p hp, Codecs.lookup_nameOk p.1 p.2 (h1 p hp)⟩

/-- **`TextLaws` for the concrete codecs**, from acceptance alone: whenever `_prepare_content`
accepted the text under an effective encoding that `Codecs.env` knows, the text laws hold (data
computed, no hypothesis on the environment left). -/
def C01_text_laws_concrete (e : Name) (c : Codecs.Codec) (he : Codecs.lookup e = some c)
    (wst : Writer.St) (t : Text) (le : Option Text) (enc : Option Name) (leOut : Text)
    (heff : (if Writer.truthy enc then enc else wst.curEncoding) = some e)
    (plain : Bytes)
    (hplain : Writer.prepareContent (Codecs.env dumps loadsText loadsBytes) Codecs.cfg wst (.str t) none le enc
      true = .ok (plain, leOut)) :
    TextLaws (Codecs.env dumps loadsText loadsBytes) Codecs.cfg wst t le enc leOut :=
  TextLaws.ofFaithful _ _ wst t le enc leOut e.toAscii
    (by rw [← (Codecs.lookup_nameOk e c he).ascii]; exact heff)
    (by rw [← (Codecs.lookup_nameOk e c he).ascii]; exact Codecs.faithful dumps loadsText loadsBytes e c he)
    (by rw [← (Codecs.lookup_nameOk e c he).ascii]; exact Codecs.newlines dumps loadsText loadsBytes e c he)
    plain hplain

theorem C01_text_laws_concrete_decoded (e : Name) (c : Codecs.Codec) (he : Codecs.lookup e = some c)
    (wst : Writer.St) (t : Text) (le : Option Text) (enc : Option Name) (leOut : Text) heff plain hplain :
    (C01_text_laws_concrete dumps loadsText loadsBytes e c he wst t le enc leOut heff plain hplain).decoded =
      normText t (textDos le t) := rfl

/-- **The concrete round trip, no hypothesis on the environment.**  For every codec of `Codecs.env`
(spelling `e`), every writer state whose effective encoding is `e`, every non-empty encodable
text `t`, every `line_endings` argument (`None`, `'unix'`, `'dos'`) and every non-negative
indentation: `_prepare_content` succeeds, and `_read_content` on the prepared bytes (followed by
anything) returns the text written with its final line ending appended when missing, consuming
exactly the section. -/
theorem C01_text_roundtrip_concrete (e : Name) (c : Codecs.Codec) (he : Codecs.lookup e = some c)
    (wst : Writer.St) (enc : Option Name)
    (heff : (if Writer.truthy enc then enc else wst.curEncoding) = some e)
    (t : Text) (ht : t ≠ []) (d : Bytes) (hd : c.encode t = some d)
    (le : Option Text) (hle : ∀ l, le = some l → ∃ dos, l = leKind dos)
    (indent : Option Int) (hi : ∀ i, indent = some i → 0 ≤ i) :
    ∃ data, Writer.prepareContent (Codecs.env dumps loadsText loadsBytes) Codecs.cfg wst (.str t) indent le enc
        true = .ok (data, leKind (textDos le t)) ∧
      (data.length ≤ Reader.maxRead → ∀ rest ln f,
        Reader.readContent (Codecs.env dumps loadsText loadsBytes) Codecs.cfg ⟨data ++ rest, ln, f⟩ data.length
            (some (.str e.toAscii)) (indent.map OptVal.int) (some (.str (leKind (textDos le t)).toAscii)) false =
          .ok (.text (normText t (textDos le t)),
            ⟨rest, ln + (splitLines (normBytes d (c.nl (textDos le t))) (c.nl (textDos le t)) true).length, f⟩)) :=
  Codecs.text_roundtrip_concrete dumps loadsText loadsBytes e c he wst enc heff t ht d hd le hle indent hi

end Concrete

/-! ## a law that is false of CPython's codecs -/

/-- a concrete environment: the codecs, and `json` functions that know one dict -/
def jk : Json := .obj [(t!"k", .int 1)]
def cenv : Env := Codecs.env (fun _ => .ok t!"{\"k\": 1}") (fun _ => .ok jk) (fun _ => .ok jk)

/-- `'a'.encode('utf-8') + strip_bom('﻿'.encode('utf-8'), 'utf-8') = b'a'`, but
`'a﻿'.encode('utf-8') = b'a\xef\xbb\xbf'`: the unrestricted concatenation law fails. -/
theorem C01_enc_append_needs_side_condition :
    ¬ (∀ t u bt bu su, cenv.encode t!"utf-8" t = .ok bt → cenv.encode t!"utf-8" u = .ok bu →
        stripBom cenv Codecs.cfg bu (some t!"utf-8") = .ok su → cenv.encode t!"utf-8" (t ++ u) = .ok (bt ++ su)) := by
  intro h
  have h1 := h [97] [0xFEFF] [97] [0xEF, 0xBB, 0xBF] [] rfl rfl rfl
  have h2 : cenv.encode t!"utf-8" ([97] ++ [0xFEFF]) = .ok [97, 0xEF, 0xBB, 0xBF] := rfl
  exact absurd (EnvR.ok.inj (h2.symm.trans h1)) (by decide)

/-- the same for `utf-16-le` (`FF FE`) and `utf-16-be` (`FE FF`); `utf-16` itself is immune (its
encoder always emits a BOM, which is what gets stripped) -/
example : cenv.encode t!"utf-16-le" [0xFEFF] = .ok [0xFF, 0xFE] ∧
    stripBom cenv Codecs.cfg [0xFF, 0xFE] (some t!"utf-16-le") = .ok [] ∧
    cenv.encode t!"utf-16-be" [0xFEFF] = .ok [0xFE, 0xFF] ∧
    stripBom cenv Codecs.cfg [0xFE, 0xFF] (some t!"utf-16-be") = .ok [] ∧
    cenv.encode t!"utf-16" [0xFEFF] = .ok [0xFF, 0xFE, 0xFF, 0xFE] ∧
    stripBom cenv Codecs.cfg [0xFF, 0xFE, 0xFF, 0xFE] (some t!"utf-16") = .ok [0xFF, 0xFE] :=
  ⟨rfl, rfl, rfl, rfl, rfl, rfl⟩

/-- the same for `utf-32-le` (`FF FE 00 00`) and `utf-32-be` (`00 00 FE FF`); `utf-32` and `utf-8-sig`
are immune like `utf-16`: the encoder's mark is stripped, the encoded U+FEFF stays -/
example : cenv.encode t!"utf-32-le" [0xFEFF] = .ok [0xFF, 0xFE, 0, 0] ∧
    stripBom cenv Codecs.cfg [0xFF, 0xFE, 0, 0] (some t!"utf-32-le") = .ok [] ∧
    cenv.encode t!"utf-32-be" [0xFEFF] = .ok [0, 0, 0xFE, 0xFF] ∧
    stripBom cenv Codecs.cfg [0, 0, 0xFE, 0xFF] (some t!"utf-32-be") = .ok [] ∧
    cenv.encode t!"utf-32" [0xFEFF] = .ok [0xFF, 0xFE, 0, 0, 0xFF, 0xFE, 0, 0] ∧
    stripBom cenv Codecs.cfg [0xFF, 0xFE, 0, 0, 0xFF, 0xFE, 0, 0] (some t!"utf-32") = .ok [0xFF, 0xFE, 0, 0] ∧
    cenv.encode t!"utf-8-sig" [0xFEFF] = .ok [0xEF, 0xBB, 0xBF, 0xEF, 0xBB, 0xBF] ∧
    stripBom cenv Codecs.cfg [0xEF, 0xBB, 0xBF, 0xEF, 0xBB, 0xBF] (some t!"utf-8-sig") = .ok [0xEF, 0xBB, 0xBF] ∧
    stripBom cenv Codecs.cfg [0xEF, 0xBB, 0xBF, 0x0A] (some t!"UTF-8-SIG") = .ok [0x0A] ∧
    stripBom cenv Codecs.cfg [0xFF, 0xFE, 0, 0, 0x0A, 0, 0, 0] (some t!"utf32") = .ok [0x0A, 0, 0, 0] ∧
    stripBom cenv Codecs.cfg [0xEF, 0xBB, 0xBF] (some t!"cp1252") = .ok [0xEF, 0xBB, 0xBF] :=
  ⟨rfl, rfl, rfl, rfl, rfl, rfl, rfl, rfl, rfl, rfl, rfl⟩

/-! ## Tests: the codecs on concrete texts (CPython's answers) -/

open Codecs in
/-- a text with Latin-1, BMP and astral code points and mixed line endings -/
def sample : Text := t!"aé€😀\r\nb\nc\r"

open Codecs in
example : Codec.utf8.encode sample =
    some [0x61, 0xC3, 0xA9, 0xE2, 0x82, 0xAC, 0xF0, 0x9F, 0x98, 0x80, 0x0D, 0x0A, 0x62, 0x0A, 0x63, 0x0D] := by decide
open Codecs in
example : Codec.utf8.decode [0x61, 0xC3, 0xA9, 0xE2, 0x82, 0xAC, 0xF0, 0x9F, 0x98, 0x80, 0x0D, 0x0A, 0x62, 0x0A, 0x63, 0x0D] =
    some sample := by decide
open Codecs in
example : Codec.utf16le.encode sample =
    some [0x61, 0, 0xE9, 0, 0xAC, 0x20, 0x3D, 0xD8, 0x00, 0xDE, 0x0D, 0, 0x0A, 0, 0x62, 0, 0x0A, 0, 0x63, 0, 0x0D, 0] := by
  decide
open Codecs in
example : Codec.utf16be.encode sample =
    some [0, 0x61, 0, 0xE9, 0x20, 0xAC, 0xD8, 0x3D, 0xDE, 0x00, 0, 0x0D, 0, 0x0A, 0, 0x62, 0, 0x0A, 0, 0x63, 0, 0x0D] := by
  decide
open Codecs in
example : Codec.utf16.encode sample =
    some [0xFF, 0xFE, 0x61, 0, 0xE9, 0, 0xAC, 0x20, 0x3D, 0xD8, 0x00, 0xDE, 0x0D, 0, 0x0A, 0, 0x62, 0, 0x0A, 0, 0x63, 0,
      0x0D, 0] := by decide
open Codecs in
example : (Codec.utf16.encode sample).bind Codec.utf16.decode = some sample ∧
    (Codec.utf16le.encode sample).bind Codec.utf16le.decode = some sample ∧
    (Codec.utf16be.encode sample).bind Codec.utf16be.decode = some sample ∧
    (Codec.utf16be.encode sample).bind Codec.utf16.decode ≠ some sample := by decide
open Codecs in
/-- Latin-1 and ASCII: range checks -/
example : Codec.latin1.encode t!"é\r\nÿ" = some [0xE9, 0x0D, 0x0A, 0xFF] ∧ Codec.latin1.encode t!"€" = none ∧
    Codec.latin1.decode [0xE9, 0x80, 0xFF] = some [0xE9, 0x80, 0xFF] ∧
    Codec.ascii.encode t!"a\r\n" = some [0x61, 0x0D, 0x0A] ∧ Codec.ascii.encode t!"é" = none ∧
    Codec.ascii.decode [0x61, 0x80] = none := by decide
open Codecs in
/-- UTF-8 strictness: surrogates are not encodable; overlong forms, encoded surrogates, values above
U+10FFFF, stray continuation bytes and truncated sequences are not decodable; a BOM is data -/
example : Codec.utf8.encode [0xD800] = none ∧ Codec.utf8.encode [0xDFFF] = none ∧
    Codec.utf8.encode [0xD7FF, 0xE000, 0x10FFFF] = some [0xED, 0x9F, 0xBF, 0xEE, 0x80, 0x80, 0xF4, 0x8F, 0xBF, 0xBF] ∧
    Codec.utf8.decode [0xC0, 0x80] = none ∧ Codec.utf8.decode [0xC1, 0xBF] = none ∧
    Codec.utf8.decode [0xE0, 0x9F, 0xBF] = none ∧ Codec.utf8.decode [0xF0, 0x8F, 0xBF, 0xBF] = none ∧
    Codec.utf8.decode [0xED, 0xA0, 0x80] = none ∧ Codec.utf8.decode [0xF4, 0x90, 0x80, 0x80] = none ∧
    Codec.utf8.decode [0xF5, 0x80, 0x80, 0x80] = none ∧ Codec.utf8.decode [0x80] = none ∧
    Codec.utf8.decode [0xE2, 0x82] = none ∧ Codec.utf8.decode [0xE2, 0x82, 0x41] = none ∧
    Codec.utf8.decode [0xEF, 0xBB, 0xBF, 0x61] = some [0xFEFF, 0x61] := by decide
open Codecs in
/-- UTF-16 corners: `''.encode('utf-16') == b'\xff\xfe'`, `b'\xff\xfe'.decode('utf-16') == ''`, a
big-endian BOM switches the byte order, only one BOM is consumed, `-le` / `-be` keep U+FEFF, lone
surrogates and odd lengths are errors -/
example : Codec.utf16.encode [] = some [0xFF, 0xFE] ∧ Codec.utf16.decode [0xFF, 0xFE] = some [] ∧
    Codec.utf16.decode [] = some [] ∧ Codec.utf16.decode [0xFE, 0xFF, 0x00, 0x61] = some [0x61] ∧
    Codec.utf16.decode [0x61, 0x00] = some [0x61] ∧
    Codec.utf16.encode [0xFEFF, 0x61] = some [0xFF, 0xFE, 0xFF, 0xFE, 0x61, 0x00] ∧
    Codec.utf16.decode [0xFF, 0xFE, 0xFF, 0xFE, 0x61, 0x00] = some [0xFEFF, 0x61] ∧
    Codec.utf16le.decode [0xFF, 0xFE, 0x61, 0x00] = some [0xFEFF, 0x61] ∧
    Codec.utf16be.decode [0xFE, 0xFF, 0x00, 0x61] = some [0xFEFF, 0x61] ∧
    Codec.utf16le.encode [0xD800] = none ∧ Codec.utf16le.encode [0xD83D, 0xDE00] = none ∧
    Codec.utf16le.decode [0x3D, 0xD8] = none ∧ Codec.utf16le.decode [0x00, 0xDE] = none ∧
    Codec.utf16le.decode [0x3D, 0xD8, 0x61, 0x00] = none ∧ Codec.utf16le.decode [0x61] = none ∧
    Codec.utf16.decode [0xFF] = none := by decide
open Codecs in
example : Codec.utf32.encode sample =
    some [0xFF, 0xFE, 0, 0, 0x61, 0, 0, 0, 0xE9, 0, 0, 0, 0xAC, 0x20, 0, 0, 0x00, 0xF6, 0x01, 0, 0x0D, 0, 0, 0,
      0x0A, 0, 0, 0, 0x62, 0, 0, 0, 0x0A, 0, 0, 0, 0x63, 0, 0, 0, 0x0D, 0, 0, 0] := by decide
open Codecs in
example : Codec.utf32le.encode sample =
    some [0x61, 0, 0, 0, 0xE9, 0, 0, 0, 0xAC, 0x20, 0, 0, 0x00, 0xF6, 0x01, 0, 0x0D, 0, 0, 0,
      0x0A, 0, 0, 0, 0x62, 0, 0, 0, 0x0A, 0, 0, 0, 0x63, 0, 0, 0, 0x0D, 0, 0, 0] := by decide
open Codecs in
example : Codec.utf32be.encode sample =
    some [0, 0, 0, 0x61, 0, 0, 0, 0xE9, 0, 0, 0x20, 0xAC, 0, 0x01, 0xF6, 0x00, 0, 0, 0, 0x0D,
      0, 0, 0, 0x0A, 0, 0, 0, 0x62, 0, 0, 0, 0x0A, 0, 0, 0, 0x63, 0, 0, 0, 0x0D] := by decide
open Codecs in
example : Codec.utf8sig.encode sample =
    some [0xEF, 0xBB, 0xBF, 0x61, 0xC3, 0xA9, 0xE2, 0x82, 0xAC, 0xF0, 0x9F, 0x98, 0x80, 0x0D, 0x0A, 0x62, 0x0A, 0x63,
      0x0D] := by decide
open Codecs in
example : (Codec.utf32.encode sample).bind Codec.utf32.decode = some sample ∧
    (Codec.utf32le.encode sample).bind Codec.utf32le.decode = some sample ∧
    (Codec.utf32be.encode sample).bind Codec.utf32be.decode = some sample ∧
    (Codec.utf32be.encode sample).bind Codec.utf32.decode = none ∧
    (Codec.utf8sig.encode sample).bind Codec.utf8sig.decode = some sample ∧
    (Codec.utf8sig.encode sample).bind Codec.utf8.decode = some (0xFEFF :: sample) ∧
    (Codec.utf8.encode sample).bind Codec.utf8sig.decode = some sample := by decide
open Codecs in
/-- UTF-32 corners: `''.encode('utf-32') == b'\xff\xfe\0\0'`, a big-endian BOM switches the byte
order, only one BOM is consumed, `-le` / `-be` keep U+FEFF, surrogates and values above U+10FFFF are
errors both ways, as is a length that is not a multiple of four; `FE FF 00 00` is U+FFFE, no BOM -/
example : Codec.utf32.encode [] = some [0xFF, 0xFE, 0x00, 0x00] ∧
    Codec.utf32.decode [0xFF, 0xFE, 0x00, 0x00] = some [] ∧
    Codec.utf32.decode [] = some [] ∧
    Codec.utf32.decode [0x00, 0x00, 0xFE, 0xFF, 0x00, 0x00, 0x00, 0x61] = some [0x61] ∧
    Codec.utf32.decode [0x61, 0x00, 0x00, 0x00] = some [0x61] ∧
    Codec.utf32.encode [0xFEFF, 0x61] = some [0xFF, 0xFE, 0x00, 0x00, 0xFF, 0xFE, 0x00, 0x00, 0x61, 0x00, 0x00, 0x00] ∧
    Codec.utf32.decode [0xFF, 0xFE, 0x00, 0x00, 0xFF, 0xFE, 0x00, 0x00, 0x61, 0x00, 0x00, 0x00] = some [0xFEFF, 0x61] ∧
    Codec.utf32.decode [0xFF, 0xFE, 0x00, 0x00, 0x00, 0x00, 0xFE, 0xFF] = none ∧
    Codec.utf32le.decode [0xFF, 0xFE, 0x00, 0x00, 0x61, 0x00, 0x00, 0x00] = some [0xFEFF, 0x61] ∧
    Codec.utf32be.decode [0x00, 0x00, 0xFE, 0xFF, 0x00, 0x00, 0x00, 0x61] = some [0xFEFF, 0x61] ∧
    Codec.utf32le.encode [0xD800] = none ∧
    Codec.utf32be.encode [0xDFFF] = none ∧
    Codec.utf32le.encode [0x110000] = none ∧
    Codec.utf32le.encode [0xD7FF, 0xE000, 0x10FFFF] =
      some [0xFF, 0xD7, 0x00, 0x00, 0x00, 0xE0, 0x00, 0x00, 0xFF, 0xFF, 0x10, 0x00] ∧
    Codec.utf32le.decode [0x00, 0xD8, 0x00, 0x00] = none ∧
    Codec.utf32le.decode [0xFF, 0xDF, 0x00, 0x00] = none ∧
    Codec.utf32le.decode [0x00, 0x00, 0x11, 0x00] = none ∧
    Codec.utf32le.decode [0xFF, 0xFF, 0x10, 0x00] = some [0x10FFFF] ∧
    Codec.utf32be.decode [0x00, 0x11, 0x00, 0x00] = none ∧
    Codec.utf32be.decode [0x01, 0x00, 0x00, 0x00] = none ∧
    Codec.utf32le.decode [0x61, 0x00, 0x00] = none ∧
    Codec.utf32le.decode [0x61, 0x00, 0x00, 0x00, 0x62] = none ∧
    Codec.utf32.decode [0xFF, 0xFE, 0x00] = none ∧
    Codec.utf32.decode [0xFF, 0xFE, 0x00, 0x00, 0x61, 0x00] = none ∧
    Codec.utf32.decode [0xFE, 0xFF, 0x00, 0x00] = some [0xFFFE] := by decide
open Codecs in
/-- UTF-8-SIG corners: `''.encode('utf-8-sig') == b'\xef\xbb\xbf'`; the decoder removes one leading
signature, if any (so plain UTF-8 decodes too); a U+FEFF written at the start survives; a signature
elsewhere is data; a truncated signature and ill-formed UTF-8 after it are errors -/
example : Codec.utf8sig.encode [] = some [0xEF, 0xBB, 0xBF] ∧
    Codec.utf8sig.decode [] = some [] ∧
    Codec.utf8sig.decode [0xEF, 0xBB, 0xBF] = some [] ∧
    Codec.utf8sig.decode [0x61] = some [0x61] ∧
    Codec.utf8sig.decode [0xEF, 0xBB, 0xBF, 0x61] = some [0x61] ∧
    Codec.utf8sig.encode [0xFEFF, 0x61] = some [0xEF, 0xBB, 0xBF, 0xEF, 0xBB, 0xBF, 0x61] ∧
    Codec.utf8sig.decode [0xEF, 0xBB, 0xBF, 0xEF, 0xBB, 0xBF, 0x61] = some [0xFEFF, 0x61] ∧
    Codec.utf8sig.decode [0x61, 0xEF, 0xBB, 0xBF] = some [0x61, 0xFEFF] ∧
    Codec.utf8sig.decode [0xEF, 0xBB] = none ∧
    Codec.utf8sig.decode [0xEF, 0xBB, 0xBF, 0xC0, 0x80] = none ∧
    Codec.utf8sig.decode [0xEF, 0xBB, 0xBF, 0xED, 0xA0, 0x80] = none ∧
    Codec.utf8sig.encode [0xD800] = none ∧
    Codec.utf8sig.encode [0xE9, 0x20AC, 0x1F600] =
      some [0xEF, 0xBB, 0xBF, 0xC3, 0xA9, 0xE2, 0x82, 0xAC, 0xF0, 0x9F, 0x98, 0x80] := by decide
open Codecs in
/-- cp1252: the rows `0x80–0x9F`, the five undefined bytes (both directions: U+0081 … are not
encodable either), Latin-1 above `0xA0`, nothing beyond the table -/
example : Codec.cp1252.encode t!"h€llo “x” ™ÿ\r\n" =
      some [0x68, 0x80, 0x6C, 0x6C, 0x6F, 0x20, 0x93, 0x78, 0x94, 0x20, 0x99, 0xFF, 0x0D, 0x0A] ∧
    Codec.cp1252.encode [0x81] = none ∧
    Codec.cp1252.encode [0x80] = none ∧
    Codec.cp1252.encode [0x9F] = none ∧
    Codec.cp1252.encode [0xA0, 0xFF] = some [0xA0, 0xFF] ∧
    Codec.cp1252.encode [0x100] = none ∧
    Codec.cp1252.encode [0x1F600] = none ∧
    Codec.cp1252.encode [0xFEFF] = none ∧
    Codec.cp1252.encode [0x178, 0x17E] = some [0x9F, 0x9E] ∧
    Codec.cp1252.decode [0x80, 0x82, 0x8C, 0x8E, 0x91, 0x9F, 0xA0, 0xE9, 0xFF, 0x0D, 0x0A] =
      some [0x20AC, 0x201A, 0x152, 0x17D, 0x2018, 0x178, 0xA0, 0xE9, 0xFF, 0xD, 0xA] ∧
    Codec.cp1252.decode [0x81] = none ∧
    Codec.cp1252.decode [0x8D] = none ∧
    Codec.cp1252.decode [0x8F] = none ∧
    Codec.cp1252.decode [0x90] = none ∧
    Codec.cp1252.decode [0x9D] = none ∧
    Codec.cp1252.decode [0x61, 0x9D] = none ∧
    Codec.cp1252.decode [0xEF, 0xBB, 0xBF] = some [0xEF, 0xBB, 0xBF] := by decide
open Codecs in
/-- cp1252, the whole block `0x80–0x9F` as CPython decodes it (`none`: `UnicodeDecodeError`), and
back -/
example : ((List.range 32).map fun i => Codec.cp1252.decode [(0x80 + i).toUInt8]) =
    [some [0x20AC], none, some [0x201A], some [0x0192], some [0x201E], some [0x2026], some [0x2020], some [0x2021],
     some [0x02C6], some [0x2030], some [0x0160], some [0x2039], some [0x0152], none, some [0x017D], none,
     none, some [0x2018], some [0x2019], some [0x201C], some [0x201D], some [0x2022], some [0x2013], some [0x2014],
     some [0x02DC], some [0x2122], some [0x0161], some [0x203A], some [0x0153], none, some [0x017E], some [0x0178]] ∧
    (∀ p ∈ cp1252Table, Codec.cp1252.encode [p.1] = some [p.2] ∧ Codec.cp1252.decode [p.2] = some [p.1]) := by
  decide
/-- names: aliases, canonical names, unknown names -/
example : cenv.canon t!"latin-1" = .ok t!"iso8859-1" ∧ cenv.canon t!"UTF-8" = .ok t!"utf-8" ∧
    cenv.canon t!"utf-16-le" = .ok t!"utf-16-le" ∧ cenv.canon t!"utf32" = .ok t!"utf-32" ∧
    cenv.canon t!"UTF-8-SIG" = .ok t!"utf-8-sig" ∧ cenv.canon t!"windows-1252" = .ok t!"cp1252" ∧
    cenv.canon t!"utf_16" = .ok t!"utf-16" ∧ cenv.canon t!"latin_1" = .ok t!"iso8859-1" ∧
    cenv.canon t!"us-ascii" = .ok t!"ascii" ∧
    (match cenv.canon t!"klingon" with | .err => true | _ => false) = true ∧
    (match cenv.encode t!"klingon" [] with | .err => true | _ => false) = true :=
  ⟨rfl, rfl, rfl, rfl, rfl, rfl, rfl, rfl, rfl, rfl, rfl⟩
/-- the BOM-free newlines -/
example : (Codecs.Codec.all.map fun c => (c.nl false, c.nl true)) =
    [([10], [13, 10]), ([10], [13, 10]), ([10], [13, 10]), ([10, 0], [13, 0, 10, 0]), ([10, 0], [13, 0, 10, 0]),
     ([0, 10], [0, 13, 0, 10]), ([10, 0, 0, 0], [13, 0, 0, 0, 10, 0, 0, 0]), ([10, 0, 0, 0], [13, 0, 0, 0, 10, 0, 0, 0]),
     ([0, 0, 0, 10], [0, 0, 0, 13, 0, 0, 0, 10]), ([10], [13, 10]), ([10], [13, 10])] := by decide

/-! ## Closed instances of `C01_text_roundtrip_concrete`, one per codec family -/

/-- a writer inside a section whose current encoding is `utf-16` (resp. `utf-8`) -/
def wst16 : Writer.St := ⟨[], [some t!"utf-8", some t!"utf-16"], none⟩
def wst8 : Writer.St := ⟨[], [some t!"utf-8"], none⟩

/-- non-ASCII and astral code points, a line that looks like a header, first line CRLF, a lone LF
inside, no final line ending -/
def txt : Text := t!"héllo 😀\r\n#.change:\nwörld"

/-- `utf-16` (BOM), inherited; `indent=2`; kind detected on the first line (dos): the CRLF is
appended, in UTF-16; the indentation is made of single space bytes -/
def data16 : Bytes :=
  [32, 32, 255, 254, 104, 0, 233, 0, 108, 0, 108, 0, 111, 0, 32, 0, 61, 216, 0, 222, 13, 0, 10, 0, 32, 32, 35,
   0, 46, 0, 99, 0, 104, 0, 97, 0, 110, 0, 103, 0, 101, 0, 58, 0, 10, 0, 119, 0, 246, 0, 114, 0, 108, 0, 100, 0, 13, 0,
   10, 0]

set_option maxRecDepth 16384 in
theorem prepared16 :
    Writer.prepareContent cenv Codecs.cfg wst16 (.str txt) (some 2) none none true = .ok (data16, t!"dos") := rfl

set_option maxRecDepth 16384 in
theorem C01_text_roundtrip_utf16 :
    Reader.readContent cenv Codecs.cfg ⟨data16 ++ b!"#.change:\n", 5, some false⟩ 60
        (some (.str b!"utf-16")) (some (.int 2)) (some (.str b!"dos")) false =
      .ok (.text t!"héllo 😀\r\n#.change:\nwörld\r\n", ⟨b!"#.change:\n", 7, some false⟩) := by
  obtain ⟨data, hp, hr⟩ := C01_text_roundtrip_concrete (fun _ => .ok t!"{\"k\": 1}") (fun _ => .ok jk)
    (fun _ => .ok jk) t!"utf-16" .utf16 rfl wst16 none rfl txt (by decide) _ rfl none (by intro l h; cases h)
    (some 2) (by intro i h; cases h; decide)
  have h0 := prepared16
  unfold cenv at h0
  rw [h0] at hp
  obtain rfl : data16 = data := (Prod.mk.inj (Except.ok.inj hp)).1
  exact hr (by decide) b!"#.change:\n" 5 (some false)

set_option maxRecDepth 16384 in
/-- … which is true by evaluation as well -/
example :
    Reader.readContent cenv Codecs.cfg ⟨data16 ++ b!"#.change:\n", 5, some false⟩ 60
        (some (.str b!"utf-16")) (some (.int 2)) (some (.str b!"dos")) false =
      .ok (.text t!"héllo 😀\r\n#.change:\nwörld\r\n", ⟨b!"#.change:\n", 7, some false⟩) := rfl

/-- `utf-8`, inherited; `line_endings='unix'` declared: the CRLF inside is not a line end for the
appended kind, an LF is appended -/
def data8 : Bytes :=
  [32, 32, 104, 195, 169, 108, 108, 111, 32, 240, 159, 152, 128, 13, 10, 32, 32, 35, 46, 99, 104, 97, 110, 103,
   101, 58, 10, 32, 32, 119, 195, 182, 114, 108, 100, 10]

set_option maxRecDepth 16384 in
theorem prepared8 :
    Writer.prepareContent cenv Codecs.cfg wst8 (.str txt) (some 2) (some t!"unix") none true =
      .ok (data8, t!"unix") := rfl

set_option maxRecDepth 16384 in
theorem C01_text_roundtrip_utf8 :
    Reader.readContent cenv Codecs.cfg ⟨data8 ++ b!"#.change:\n", 0, none⟩ 36
        (some (.str b!"utf-8")) (some (.int 2)) (some (.str b!"unix")) false =
      .ok (.text t!"héllo 😀\r\n#.change:\nwörld\n", ⟨b!"#.change:\n", 3, none⟩) := by
  obtain ⟨data, hp, hr⟩ := C01_text_roundtrip_concrete (fun _ => .ok t!"{\"k\": 1}") (fun _ => .ok jk)
    (fun _ => .ok jk) t!"utf-8" .utf8 rfl wst8 none rfl txt (by decide) _ rfl (some t!"unix")
    (by intro l h; cases h; exact ⟨false, rfl⟩) (some 2) (by intro i h; cases h; decide)
  have h0 := prepared8
  unfold cenv at h0
  rw [h0] at hp
  obtain rfl : data8 = data := (Prod.mk.inj (Except.ok.inj hp)).1
  exact hr (by decide) b!"#.change:\n" 0 none

set_option maxRecDepth 16384 in
/-- `latin-1` given as the section's own encoding (an alias of `iso8859-1`), no indentation, kind
detected (dos) -/
theorem C01_text_roundtrip_latin1 :
    Reader.readContent cenv Codecs.cfg
        ⟨[104, 233, 108, 108, 111, 13, 10, 119, 246, 114, 108, 100, 13, 10] ++ b!"#.change:\n", 0, none⟩ 14
        (some (.str b!"latin-1")) none (some (.str b!"dos")) false =
      .ok (.text t!"héllo\r\nwörld\r\n", ⟨b!"#.change:\n", 2, none⟩) := by
  obtain ⟨data, hp, hr⟩ := C01_text_roundtrip_concrete (fun _ => .ok t!"{\"k\": 1}") (fun _ => .ok jk)
    (fun _ => .ok jk) t!"latin-1" .latin1 rfl wst8 (some t!"latin-1") rfl t!"héllo\r\nwörld" (by decide) _ rfl none
    (by intro l h; cases h) none (by intro i h; cases h)
  have h0 : Writer.prepareContent cenv Codecs.cfg wst8 (.str t!"héllo\r\nwörld") none none (some t!"latin-1") true =
      .ok ([104, 233, 108, 108, 111, 13, 10, 119, 246, 114, 108, 100, 13, 10], t!"dos") := rfl
  unfold cenv at h0
  rw [h0] at hp
  obtain rfl : _ = data := (Prod.mk.inj (Except.ok.inj hp)).1
  exact hr (by decide) b!"#.change:\n" 0 none

/-- `utf-16-be` given, `line_endings='dos'`, `indent=1` -/
def data16be : Bytes :=
  [32, 0, 104, 0, 233, 0, 108, 0, 108, 0, 111, 0, 32, 216, 61, 222, 0, 0, 13, 0, 10, 32, 0, 35, 0, 46, 0, 99,
   0, 104, 0, 97, 0, 110, 0, 103, 0, 101, 0, 58, 0, 10, 0, 119, 0, 246, 0, 114, 0, 108, 0, 100, 0, 13, 0, 10]

set_option maxRecDepth 16384 in
theorem prepared16be :
    Writer.prepareContent cenv Codecs.cfg wst8 (.str txt) (some 1) (some t!"dos") (some t!"utf-16-be") true =
      .ok (data16be, t!"dos") := rfl

set_option maxRecDepth 16384 in
theorem C01_text_roundtrip_utf16be :
    Reader.readContent cenv Codecs.cfg ⟨data16be ++ b!"#.change:\n", 0, none⟩ 56
        (some (.str b!"utf-16-be")) (some (.int 1)) (some (.str b!"dos")) false =
      .ok (.text t!"héllo 😀\r\n#.change:\nwörld\r\n", ⟨b!"#.change:\n", 2, none⟩) := by
  obtain ⟨data, hp, hr⟩ := C01_text_roundtrip_concrete (fun _ => .ok t!"{\"k\": 1}") (fun _ => .ok jk)
    (fun _ => .ok jk) t!"utf-16-be" .utf16be rfl wst8 (some t!"utf-16-be") rfl txt (by decide) _ rfl (some t!"dos")
    (by intro l h; cases h; exact ⟨true, rfl⟩) (some 1) (by intro i h; cases h; decide)
  have h0 := prepared16be
  unfold cenv at h0
  rw [h0] at hp
  obtain rfl : data16be = data := (Prod.mk.inj (Except.ok.inj hp)).1
  exact hr (by decide) b!"#.change:\n" 0 none

/-- `utf-32` (BOM), inherited; `indent=2`; kind detected on the first line (dos): the CRLF is appended,
in UTF-32 (eight bytes); the BOM is written once, after the indentation of the first line -/
def wst32 : Writer.St := ⟨[], [some t!"utf-8", some t!"utf-32"], none⟩
def data32 : Bytes :=
  [32, 32, 255, 254, 0, 0, 104, 0, 0, 0, 233, 0, 0, 0, 108, 0, 0, 0, 108, 0, 0, 0, 111, 0, 0, 0, 32, 0, 0, 0, 0, 246,
   1, 0, 13, 0, 0, 0, 10, 0, 0, 0, 32, 32, 35, 0, 0, 0, 46, 0, 0, 0, 99, 0, 0, 0, 104, 0, 0, 0, 97, 0, 0, 0, 110, 0,
   0, 0, 103, 0, 0, 0, 101, 0, 0, 0, 58, 0, 0, 0, 10, 0, 0, 0, 119, 0, 0, 0, 246, 0, 0, 0, 114, 0, 0, 0, 108, 0, 0,
   0, 100, 0, 0, 0, 13, 0, 0, 0, 10, 0, 0, 0]

set_option maxRecDepth 16384 in
theorem prepared32 :
    Writer.prepareContent cenv Codecs.cfg wst32 (.str txt) (some 2) none none true = .ok (data32, t!"dos") := rfl

set_option maxRecDepth 16384 in
theorem C01_text_roundtrip_utf32 :
    Reader.readContent cenv Codecs.cfg ⟨data32 ++ b!"#.change:\n", 5, some false⟩ 112
        (some (.str b!"utf-32")) (some (.int 2)) (some (.str b!"dos")) false =
      .ok (.text t!"héllo 😀\r\n#.change:\nwörld\r\n", ⟨b!"#.change:\n", 7, some false⟩) := by
  obtain ⟨data, hp, hr⟩ := C01_text_roundtrip_concrete (fun _ => .ok t!"{\"k\": 1}") (fun _ => .ok jk)
    (fun _ => .ok jk) t!"utf-32" .utf32 rfl wst32 none rfl txt (by decide) _ rfl none (by intro l h; cases h)
    (some 2) (by intro i h; cases h; decide)
  have h0 := prepared32
  unfold cenv at h0
  rw [h0] at hp
  obtain rfl : data32 = data := (Prod.mk.inj (Except.ok.inj hp)).1
  exact hr (by decide) b!"#.change:\n" 5 (some false)

/-- `utf-32-be` given, `line_endings='dos'`, no indentation; the text begins with U+FEFF, which is
data for `utf-32-be` (written as `00 00 FE FF`, read back) -/
def txtB : Text := 0xFEFF :: txt
def data32be : Bytes :=
  [0, 0, 254, 255, 0, 0, 0, 104, 0, 0, 0, 233, 0, 0, 0, 108, 0, 0, 0, 108, 0, 0, 0, 111, 0, 0, 0, 32, 0, 1, 246, 0,
   0, 0, 0, 13, 0, 0, 0, 10, 0, 0, 0, 35, 0, 0, 0, 46, 0, 0, 0, 99, 0, 0, 0, 104, 0, 0, 0, 97, 0, 0, 0, 110, 0, 0, 0,
   103, 0, 0, 0, 101, 0, 0, 0, 58, 0, 0, 0, 10, 0, 0, 0, 119, 0, 0, 0, 246, 0, 0, 0, 114, 0, 0, 0, 108, 0, 0, 0, 100,
   0, 0, 0, 13, 0, 0, 0, 10]

set_option maxRecDepth 16384 in
theorem prepared32be :
    Writer.prepareContent cenv Codecs.cfg wst8 (.str txtB) none (some t!"dos") (some t!"utf-32-be") true =
      .ok (data32be, t!"dos") := rfl

set_option maxRecDepth 16384 in
theorem C01_text_roundtrip_utf32be :
    Reader.readContent cenv Codecs.cfg ⟨data32be ++ b!"#.change:\n", 0, none⟩ 108
        (some (.str b!"utf-32-be")) none (some (.str b!"dos")) false =
      .ok (.text (0xFEFF :: t!"héllo 😀\r\n#.change:\nwörld\r\n"), ⟨b!"#.change:\n", 2, none⟩) := by
  obtain ⟨data, hp, hr⟩ := C01_text_roundtrip_concrete (fun _ => .ok t!"{\"k\": 1}") (fun _ => .ok jk)
    (fun _ => .ok jk) t!"utf-32-be" .utf32be rfl wst8 (some t!"utf-32-be") rfl txtB (by decide) _ rfl (some t!"dos")
    (by intro l h; cases h; exact ⟨true, rfl⟩) none (by intro i h; cases h)
  have h0 := prepared32be
  unfold cenv at h0
  rw [h0] at hp
  obtain rfl : data32be = data := (Prod.mk.inj (Except.ok.inj hp)).1
  exact hr (by decide) b!"#.change:\n" 0 none

/-- `utf-8-sig` given, `line_endings='unix'`, `indent=1`; the text begins with U+FEFF: the encoder's
signature and the encoded U+FEFF are both written, the decoder removes one -/
def data8sig : Bytes :=
  [32, 239, 187, 191, 239, 187, 191, 104, 195, 169, 108, 108, 111, 32, 240, 159, 152, 128, 13, 10, 32, 35, 46, 99,
   104, 97, 110, 103, 101, 58, 10, 32, 119, 195, 182, 114, 108, 100, 10]

set_option maxRecDepth 16384 in
theorem prepared8sig :
    Writer.prepareContent cenv Codecs.cfg wst8 (.str txtB) (some 1) (some t!"unix") (some t!"utf-8-sig") true =
      .ok (data8sig, t!"unix") := rfl

set_option maxRecDepth 16384 in
theorem C01_text_roundtrip_utf8sig :
    Reader.readContent cenv Codecs.cfg ⟨data8sig ++ b!"#.change:\n", 0, none⟩ 39
        (some (.str b!"utf-8-sig")) (some (.int 1)) (some (.str b!"unix")) false =
      .ok (.text (0xFEFF :: t!"héllo 😀\r\n#.change:\nwörld\n"), ⟨b!"#.change:\n", 3, none⟩) := by
  obtain ⟨data, hp, hr⟩ := C01_text_roundtrip_concrete (fun _ => .ok t!"{\"k\": 1}") (fun _ => .ok jk)
    (fun _ => .ok jk) t!"utf-8-sig" .utf8sig rfl wst8 (some t!"utf-8-sig") rfl txtB (by decide) _ rfl (some t!"unix")
    (by intro l h; cases h; exact ⟨false, rfl⟩) (some 1) (by intro i h; cases h; decide)
  have h0 := prepared8sig
  unfold cenv at h0
  rw [h0] at hp
  obtain rfl : data8sig = data := (Prod.mk.inj (Except.ok.inj hp)).1
  exact hr (by decide) b!"#.change:\n" 0 none

/-- `windows-1252` given (an alias of `cp1252`), `indent=3`, kind detected (dos): the euro sign, the
curly quotes and the trade mark sign are single bytes of the block `0x80–0x9F` -/
def txt1252 : Text := t!"h€llo “x”\r\n#.change:\nwörld™"
def data1252 : Bytes :=
  [32, 32, 32, 104, 128, 108, 108, 111, 32, 147, 120, 148, 13, 10, 32, 32, 32, 35, 46, 99, 104, 97, 110, 103, 101,
   58, 10, 119, 246, 114, 108, 100, 153, 13, 10]

set_option maxRecDepth 16384 in
theorem prepared1252 :
    Writer.prepareContent cenv Codecs.cfg wst8 (.str txt1252) (some 3) none (some t!"windows-1252") true =
      .ok (data1252, t!"dos") := rfl

set_option maxRecDepth 16384 in
theorem C01_text_roundtrip_cp1252 :
    Reader.readContent cenv Codecs.cfg ⟨data1252 ++ b!"#.change:\n", 0, none⟩ 35
        (some (.str b!"windows-1252")) (some (.int 3)) (some (.str b!"dos")) false =
      .ok (.text t!"h€llo “x”\r\n#.change:\nwörld™\r\n", ⟨b!"#.change:\n", 2, none⟩) := by
  obtain ⟨data, hp, hr⟩ := C01_text_roundtrip_concrete (fun _ => .ok t!"{\"k\": 1}") (fun _ => .ok jk)
    (fun _ => .ok jk) t!"windows-1252" .cp1252 rfl wst8 (some t!"windows-1252") rfl txt1252 (by decide) _ rfl none
    (by intro l h; cases h) (some 3) (by intro i h; cases h; decide)
  have h0 := prepared1252
  unfold cenv at h0
  rw [h0] at hp
  obtain rfl : data1252 = data := (Prod.mk.inj (Except.ok.inj hp)).1
  exact hr (by decide) b!"#.change:\n" 0 none

/-! ## Closed instance of `C01_run_content_equal` with the concrete codecs -/

def cEnc : Name := t!"utf-8"
def ctext : Text := t!"héllo 😀\r\nwörld"
/-- a UTF-16 preamble (own encoding, indented), a change, a Latin-1 file, its metadata, a diff -/
def ccall1 : Writer.Call := .preamble (.str ctext) (some t!"utf-16") (some 2) none (some t!"text/plain")
def ccall2 : Writer.Call := .newChange none
def ccall3 : Writer.Call := .newFile (some t!"latin1")
def ccall4 : Writer.Call := .metadata (.dict jk) none t!"json"
def ccall5 : Writer.Call := .diff (.bytes b!"-a\n+b") (some t!"text") none none
def cprog : List Writer.Call := [ccall1, ccall2, ccall3, ccall4, ccall5]

def cst0 : Writer.St := (Writer.init (some cEnc) t!"1.0").1
def cst1 : Writer.St := (Writer.step cenv Codecs.cfg cst0 ccall1).1
def cst2 : Writer.St := (Writer.step cenv Codecs.cfg cst1 ccall2).1
def cst3 : Writer.St := (Writer.step cenv Codecs.cfg cst2 ccall3).1
def cst4 : Writer.St := (Writer.step cenv Codecs.cfg cst3 ccall4).1

set_option maxRecDepth 16384 in
theorem cprog_ok : ∀ r ∈ (Writer.run cenv Codecs.cfg (some cEnc) t!"1.0" cprog).2, r = .ok := by decide

def cplain1 : Bytes :=
  [255, 254, 104, 0, 233, 0, 108, 0, 108, 0, 111, 0, 32, 0, 61, 216, 0, 222, 13, 0, 10, 0, 119, 0, 246, 0, 114,
   0, 108, 0, 100, 0, 13, 0, 10, 0]
def cdata1 : Bytes :=
  [32, 32, 255, 254, 104, 0, 233, 0, 108, 0, 108, 0, 111, 0, 32, 0, 61, 216, 0, 222, 13, 0, 10, 0, 32, 32, 119,
   0, 246, 0, 114, 0, 108, 0, 100, 0, 13, 0, 10, 0]

set_option maxRecDepth 16384 in
/-- the preamble laws, the text laws built by `C01_text_laws_concrete` from acceptance -/
def claws1 : PreambleLaws cenv Codecs.cfg cst0 ctext (some t!"utf-16") (some 2) none where
  encOk := by intro n h; cases h; exact Codecs.lookup_nameOk _ .utf16 rfl
  indentOk := by intro i h; cases h; decide
  data := cdata1
  leOut := t!"dos"
  hprep := rfl
  hlen := by decide
  text := C01_text_laws_concrete _ _ _ t!"utf-16" .utf16 rfl cst0 ctext none (some t!"utf-16") t!"dos" rfl cplain1 rfl

set_option maxRecDepth 16384 in
def claws4 : MetaLaws cenv Codecs.cfg cst3 jk none where
  encOk := by intro n h; cases h
  text := t!"{\"k\": 1}"
  hdumps := rfl
  leOut := t!"unix"
  tl := C01_text_laws_concrete _ _ _ t!"latin1" .latin1 rfl cst3 t!"{\"k\": 1}" none none t!"unix" rfl
    [123, 34, 107, 34, 58, 32, 49, 125, 10] rfl
  hlen := by decide
  hguess := fun _ => rfl
  parsed := jk
  hloads := rfl
  hobj := rfl

set_option maxRecDepth 16384 in
def claws5 : DiffCallLaws cenv Codecs.cfg cst4 b!"-a\n+b" none none where
  encOk := by intro n h; cases h
  data := b!"-a\n+b\n"
  leOut := t!"unix"
  hprep := rfl
  hlen := by decide
  dl :=
    { encName := none, henc := rfl, dos := false, hle := rfl, nl := [10],
      hw := by
        refine ⟨false, rfl, ?_, ?_⟩
        · intro l h; cases h
        · exact ⟨[10], [13, 10], [10], [13, 10], rfl, rfl, rfl, rfl, by decide, rfl⟩
      rawR := [10], hencR := rfl, hbomR := rfl, hne := by decide }

def claws : ProgramLaws cenv Codecs.cfg cEnc cprog where
  encOk := Codecs.lookup_nameOk _ .utf8 rfl
  calls :=
    ((claws1 : CallLaws cenv Codecs.cfg cst0 ccall1),
     ((⟨by intro n h; cases h⟩ : CallLaws cenv Codecs.cfg cst1 ccall2),
      ((⟨by intro n h; cases h; exact Codecs.lookup_nameOk _ .latin1 rfl⟩ : CallLaws cenv Codecs.cfg cst2 ccall3),
       ((claws4 : CallLaws cenv Codecs.cfg cst3 ccall4),
        ((claws5 : CallLaws cenv Codecs.cfg cst4 ccall5), PUnit.unit)))))

/-- the codecs of the preamble and of the metadata are faithful (proved, `C01_codec_faithful`),
and `json.loads` gives the dict back -/
theorem cfaithful : ProgramFaithfulFrom cenv Codecs.cfg (Writer.init (some cEnc) t!"1.0").1 cprog claws.calls :=
  ⟨C01_codec_faithful _ _ _ t!"utf-16" .utf16 rfl, trivial, trivial,
    ⟨C01_codec_faithful _ _ _ t!"latin1" .latin1 rfl, rfl⟩, trivial, trivial⟩

set_option maxRecDepth 16384 in
/-- `C01_run_content_equal` instantiated: the contents read back (block size 7) are the contents
written — the UTF-16 text with the CRLF detected on its first line appended, the metadata, the
diff bytes with the LF appended -/
theorem C01_run_content_instance :
    (Reader.readAll cenv Codecs.cfg 7 (Writer.run cenv Codecs.cfg (some cEnc) t!"1.0" cprog).1.out).1.map
        (·.content) =
      [.container, .text t!"héllo 😀\r\nwörld\r\n", .container, .container, .metadata jk, .diff b!"-a\n+b\n"] :=
  (C01_run_content_equal cenv Codecs.cfg 7 (by decide) cEnc cprog cprog_ok claws cfaithful).1

set_option maxRecDepth 16384 in
/-- … true by evaluation as well -/
example :
    ((Reader.readAll cenv Codecs.cfg 7 (Writer.run cenv Codecs.cfg (some cEnc) t!"1.0" cprog).1.out).1.map
        (·.content) ==
      [.container, .text t!"héllo 😀\r\nwörld\r\n", .container, .container, .metadata jk, .diff b!"-a\n+b\n"]) =
      true := by decide

end Diffx.C01
