import DiffxVerif.Lemmas.Faithful
import DiffxVerif.Lemmas.CodecProofs
import DiffxVerif.Properties.C01Run
/-!
# C01 (content equality) — what is read back is what was written

> … content equal to what was written: preamble text and diff bytes unchanged except that a
> missing final line ending (of the declared or first-line-detected kind) is appended,
> metadata equal as a JSON value … for every combination of section encodings, indentation
> and line endings.

`Properties/C01.lean` / `C01Run.lean` prove the round trip with the record content expressed
through the environment (`laws.decoded` = the decoding of the prepared bytes).  This file closes
the gap to *the text that was written*:

**Stage 1 (any environment).**  `CodecFaithful env cfg e` (Lemmas/Faithful.lean) is a bundle of
three laws about the codec named `e`, for all texts, mentioning neither writer nor reader.
Under it, `C01_text_equal`: the text read back is `normText t (textDos le t)` — the text
written, with the line ending of the declared (or first-line-detected) kind appended when
missing; `C01_content_text_equal` is the reader statement; `C01_diff_equal` the one for diff
bytes; `C01_run_content_equal` the whole-sequence corollary (`writtenContent` is computed
from the call's arguments).

**Stage 2 (CPython's codecs, in Lean).**  `Model/Codecs.lean` defines ascii, latin-1, utf-8,
utf-16-le, utf-16-be and utf-16 (BOM) as executable functions; `C01_codec_faithful` and
`C01_codec_newlines` prove the laws for each of them under each spelling, with the BOM table
of the repository; `C01_text_roundtrip_concrete` is the round trip without any hypothesis on
the environment.

**A law that is false of CPython.**  `encode (t ++ u) = encode t ++ strip_bom (encode u)` does
not hold for all `u`: `strip_bom` removes a leading `EF BB BF` from UTF-8 data (`FF FE` from
`utf-16-le` data, `FE FF` from `utf-16-be` data) even when the encoder produced it for a
genuine U+FEFF at the start of `u`.  `CodecFaithful.enc_append` therefore carries the side
condition `u.head? ≠ some 0xFEFF` (the newline texts satisfy it);
`C01_enc_append_needs_side_condition` is the counterexample, evaluated.
-/
namespace Diffx.C01
open Diffx Diffx.RunRT

/-! ## Stage 1: faithful codec ⇒ content equality -/

/-- **The text read back is the text written**, its final line ending (of the declared or
first-line-detected kind) appended when missing. -/
theorem C01_text_equal (env : Env) (cfg : Config) (wst : Writer.St) (t : Text) (le : Option Text)
    (enc : Option Name) (leOut : Text) (laws : TextLaws env cfg wst t le enc leOut)
    (F : CodecFaithful env cfg (Text.ofAscii laws.encName)) :
    laws.decoded = normText t (textDos le t) := by
  rw [text_decoded_eq env cfg wst t le enc leOut laws F, laws.dos_eq]

/-- the kind of the laws (and of the `line_endings` option written) is the declared kind, or the
one detected on the first line of the text -/
theorem C01_text_kind (env : Env) (cfg : Config) (wst : Writer.St) (t : Text) (le : Option Text)
    (enc : Option Name) (leOut : Text) (laws : TextLaws env cfg wst t le enc leOut) :
    laws.dos = textDos le t ∧ leOut = leKind (textDos le t) :=
  ⟨laws.dos_eq, by rw [← laws.dos_eq]; exact laws.hle⟩

/-- `textDos` spelled out -/
theorem C01_textDos_spec (t : Text) :
    textDos (some (Text.ofAscii b!"dos")) t = true ∧ textDos (some (Text.ofAscii b!"unix")) t = false ∧
    textDos none t = (Writer.guessText t).1 := ⟨rfl, rfl, rfl⟩

/-- **Content round trip with content equality (text sections).** `C01_content_text` with the
returned text identified. -/
theorem C01_content_text_equal (env : Env) (cfg : Config) (wst : Writer.St) (t : Text) (indent : Option Int)
    (le : Option Text) (enc : Option Name) (data : Bytes) (leOut : Text)
    (hp : Writer.prepareContent env cfg wst (.str t) indent le enc true = .ok (data, leOut))
    (hi : ∀ i, indent = some i → 0 ≤ i)
    (hlen : data.length ≤ Reader.maxRead)
    (laws : TextLaws env cfg wst t le enc leOut)
    (F : CodecFaithful env cfg (Text.ofAscii laws.encName))
    (rest : Bytes) (ln : Nat) (f : Option Bool) :
    Reader.readContent env cfg ⟨data ++ rest, ln, f⟩ data.length
        (some (.str laws.encName)) (indent.map OptVal.int) (some (.str leOut.toAscii)) false =
      .ok (.text (normText t (textDos le t)), ⟨rest, ln + laws.lines, f⟩) := by
  rw [← C01_text_equal env cfg wst t le enc leOut laws F]
  exact C01_content_text env cfg wst t indent le enc data leOut hp hi hlen laws rest ln f

/-- **Diff bytes come back unchanged**, the section's newline appended when missing (the
disjunction of `C01_content_diff` decided by `endsWith`). -/
theorem C01_diff_equal (env : Env) (cfg : Config) (wst : Writer.St) (b : Bytes)
    (le : Option Text) (enc : Option Name) (data : Bytes) (leOut : Text)
    (hp : Writer.prepareContent env cfg wst (.bytes b) none le enc false = .ok (data, leOut))
    (laws : DiffLaws env cfg wst b le enc leOut) :
    data = normBytes b laws.nl := by
  obtain ⟨nl', d, h1, h2⟩ := (prepareContent_ok_iff ..).mp hp
  obtain ⟨hw', hd⟩ := prepCore_ok _ _ _ _ _ _ _ _ _ _ h1
  have hnl : nl' = laws.nl := PreparedWith_unique _ _ _ _ _ _ _ _ _ _ hw' laws.hw
  subst hnl
  have hdb : d = b := hd
  subst hdb
  rw [prepFinish_none] at h2
  exact (Except.ok.inj h2).symm

/-- one record: its content is the content written -/
theorem C01_record_content_equal (env : Env) (cfg : Config) (st : Writer.St) (line : Nat) (c : Writer.Call)
    (L : CallLaws env cfg st c) (F : CallFaithful env cfg st c L) :
    (expectedOne env cfg st line c L).1.content = writtenContent env cfg st c L :=
  expected_content_eq env cfg st line c L F

/-- `writtenContent` spelled out for the three content calls -/
theorem C01_writtenContent_spec (env : Env) (cfg : Config) (st : Writer.St) :
    (∀ t enc indent le mime (L : CallLaws env cfg st (.preamble (.str t) enc indent le mime)),
      writtenContent env cfg st _ L = .text (normText t (textDos le t))) ∧
    (∀ j enc fmt (L : CallLaws env cfg st (.metadata (.dict j) enc fmt)),
      writtenContent env cfg st _ L = .metadata j) ∧
    (∀ b dtype enc le (L : DiffCallLaws env cfg st b enc le),
      writtenContent env cfg st (.diff (.bytes b) dtype enc le) L = .diff (normBytes b L.dl.nl)) :=
  ⟨fun _ _ _ _ _ _ => rfl, fun _ _ _ _ => rfl, fun _ _ _ _ _ => rfl⟩

/-- the newline of a diff section: the BOM-free encoding of LF / CRLF under `encoding or 'ascii'`,
of the declared kind when `line_endings` was given -/
theorem C01_diff_newline (env : Env) (cfg : Config) (st : Writer.St) (b : Bytes) (enc : Option Name)
    (le : Option Text) (L : DiffCallLaws env cfg st b enc le) :
    ∃ raw, env.encode (enc.getD (Text.ofAscii b!"ascii")) (nlText L.dl.dos) = .ok raw ∧
      stripBom env cfg raw (some (enc.getD (Text.ofAscii b!"ascii"))) = .ok L.dl.nl ∧
      L.leOut = leKind L.dl.dos ∧ (∀ l, le = some l → l = L.leOut) :=
  diff_newline_spec env cfg st b enc le L

/-- **Whole-sequence content equality.**  For every accepted program whose laws hold, whose
preamble / metadata encodings are faithful codecs and whose metadata survives `json`
(`ProgramFaithfulFrom`): the reader yields, in order, the main container and then for every call
the content that was written — the text with its final line ending appended when missing, the
metadata value, the diff bytes with their newline appended when missing — and ends normally. -/
theorem C01_run_content_equal (env : Env) (cfg : Config) (chunk : Nat) (hc : 0 < chunk)
    (enc : Name) (calls : List Writer.Call)
    (hok : ∀ r ∈ (Writer.run env cfg (some enc) (Text.ofAscii b!"1.0") calls).2, r = .ok)
    (laws : ProgramLaws env cfg enc calls)
    (F : ProgramFaithfulFrom env cfg (Writer.init (some enc) (Text.ofAscii b!"1.0")).1 calls laws.calls) :
    (Reader.readAll env cfg chunk (Writer.run env cfg (some enc) (Text.ofAscii b!"1.0") calls).1.out).1.map
        (·.content) =
      .container :: writtenFrom env cfg (Writer.init (some enc) (Text.ofAscii b!"1.0")).1 calls laws.calls ∧
    (Reader.readAll env cfg chunk (Writer.run env cfg (some enc) (Text.ofAscii b!"1.0") calls).1.out).2 = .done := by
  rw [C01_run env cfg chunk hc enc calls hok laws]
  exact ⟨expectedRecords_content env cfg enc calls laws F, rfl⟩

/-! ## Stage 2: the concrete codecs -/

section Concrete
variable (dumps : Json → EnvR Text) (loadsText : Text → EnvR Json) (loadsBytes : Bytes → EnvR Json)

/-- the BOM table of `Codecs.cfg` is the one extracted from the repository -/
theorem C01_codecs_cfg : Codecs.cfg = Generated.config := Codecs.cfg_eq

/-- **Decoding undoes encoding** for each of the six codecs (statement about the codec functions
alone). -/
theorem C01_codec_decode_encode (c : Codecs.Codec) (t : Text) (b : Bytes) (h : c.encode t = some b) :
    c.decode b = some t :=
  Codecs.decode_encode c t b h

/-- **Every codec of `Codecs.env` is faithful**, under every spelling. -/
theorem C01_codec_faithful (e : Name) (c : Codecs.Codec) (he : Codecs.lookup e = some c) :
    CodecFaithful (Codecs.env dumps loadsText loadsBytes) Codecs.cfg e :=
  Codecs.faithful dumps loadsText loadsBytes e c he

/-- **… and has proper newlines**: LF / CRLF encode; BOM-free they are non-empty, unbordered,
hold no space byte, decode to the newline, and end encoded data only when the text ends with
the newline. -/
theorem C01_codec_newlines (e : Name) (c : Codecs.Codec) (he : Codecs.lookup e = some c) :
    CodecNewlines (Codecs.env dumps loadsText loadsBytes) Codecs.cfg e :=
  Codecs.newlines dumps loadsText loadsBytes e c he

/-- the spellings: every one of them names a codec, is a well-formed option value, and
`codecs.lookup(…).name` is the codec's canonical name -/
theorem C01_codec_names :
    Codecs.aliases.map (·.1) =
      [t!"ascii", t!"latin1", t!"latin-1", t!"iso-8859-1", t!"iso8859-1", t!"utf-8", t!"utf8", t!"UTF-8",
       t!"utf-16", t!"utf-16-le", t!"utf-16-be"] ∧
    (∀ p ∈ Codecs.aliases, Codecs.lookup p.1 = some p.2 ∧ NameOk p.1) ∧
    (∀ c ∈ Codecs.Codec.all, Codecs.lookup c.name = some c) := by
  refine ⟨rfl, ?_, by decide⟩
  intro p hp
  have h1 : ∀ p ∈ Codecs.aliases, Codecs.lookup p.1 = some p.2 := by decide
  exact ⟨h1 p hp, Codecs.lookup_nameOk p.1 p.2 (h1 p hp)⟩

/-- **`TextLaws` for the concrete codecs**, from acceptance alone: whenever `_prepare_content`
accepted the text under an effective encoding that `Codecs.env` knows, the text laws hold (data
computed, no hypothesis on the environment left). -/
def C01_text_laws_concrete (e : Name) (c : Codecs.Codec) (he : Codecs.lookup e = some c)
    (wst : Writer.St) (t : Text) (le : Option Text) (enc : Option Name) (leOut : Text)
    (heff : (if Writer.truthy enc then enc else wst.curEncoding) = some e)
    (plain : Bytes)
    (hplain : Writer.prepareContent (Codecs.env dumps loadsText loadsBytes) Codecs.cfg wst (.str t) none le enc
      true = .ok (plain, leOut)) :
    TextLaws (Codecs.env dumps loadsText loadsBytes) Codecs.cfg wst t le enc leOut :=
  TextLaws.ofFaithful _ _ wst t le enc leOut e.toAscii
    (by rw [← (Codecs.lookup_nameOk e c he).ascii]; exact heff)
    (by rw [← (Codecs.lookup_nameOk e c he).ascii]; exact Codecs.faithful dumps loadsText loadsBytes e c he)
    (by rw [← (Codecs.lookup_nameOk e c he).ascii]; exact Codecs.newlines dumps loadsText loadsBytes e c he)
    plain hplain

theorem C01_text_laws_concrete_decoded (e : Name) (c : Codecs.Codec) (he : Codecs.lookup e = some c)
    (wst : Writer.St) (t : Text) (le : Option Text) (enc : Option Name) (leOut : Text) heff plain hplain :
    (C01_text_laws_concrete dumps loadsText loadsBytes e c he wst t le enc leOut heff plain hplain).decoded =
      normText t (textDos le t) := rfl

/-- **The concrete round trip, no hypothesis on the environment.**  For every codec of `Codecs.env`
(spelling `e`), every writer state whose effective encoding is `e`, every non-empty encodable
text `t`, every `line_endings` argument (`None`, `'unix'`, `'dos'`) and every non-negative
indentation: `_prepare_content` succeeds, and `_read_content` on the prepared bytes (followed by
anything) returns the text written with its final line ending appended when missing, consuming
exactly the section. -/
theorem C01_text_roundtrip_concrete (e : Name) (c : Codecs.Codec) (he : Codecs.lookup e = some c)
    (wst : Writer.St) (enc : Option Name)
    (heff : (if Writer.truthy enc then enc else wst.curEncoding) = some e)
    (t : Text) (ht : t ≠ []) (d : Bytes) (hd : c.encode t = some d)
    (le : Option Text) (hle : ∀ l, le = some l → ∃ dos, l = leKind dos)
    (indent : Option Int) (hi : ∀ i, indent = some i → 0 ≤ i) :
    ∃ data, Writer.prepareContent (Codecs.env dumps loadsText loadsBytes) Codecs.cfg wst (.str t) indent le enc
        true = .ok (data, leKind (textDos le t)) ∧
      (data.length ≤ Reader.maxRead → ∀ rest ln f,
        Reader.readContent (Codecs.env dumps loadsText loadsBytes) Codecs.cfg ⟨data ++ rest, ln, f⟩ data.length
            (some (.str e.toAscii)) (indent.map OptVal.int) (some (.str (leKind (textDos le t)).toAscii)) false =
          .ok (.text (normText t (textDos le t)),
            ⟨rest, ln + (splitLines (normBytes d (c.nl (textDos le t))) (c.nl (textDos le t)) true).length, f⟩)) :=
  Codecs.text_roundtrip_concrete dumps loadsText loadsBytes e c he wst enc heff t ht d hd le hle indent hi

end Concrete

/-! ## a law that is false of CPython's codecs -/

/-- a concrete environment: the codecs, and `json` functions that know one dict -/
def jk : Json := .obj [(t!"k", .int 1)]
def cenv : Env := Codecs.env (fun _ => .ok t!"{\"k\": 1}") (fun _ => .ok jk) (fun _ => .ok jk)

/-- `'a'.encode('utf-8') + strip_bom('﻿'.encode('utf-8'), 'utf-8') = b'a'`, but
`'a﻿'.encode('utf-8') = b'a\xef\xbb\xbf'`: the unrestricted concatenation law fails. -/
theorem C01_enc_append_needs_side_condition :
    ¬ (∀ t u bt bu su, cenv.encode t!"utf-8" t = .ok bt → cenv.encode t!"utf-8" u = .ok bu →
        stripBom cenv Codecs.cfg bu (some t!"utf-8") = .ok su → cenv.encode t!"utf-8" (t ++ u) = .ok (bt ++ su)) := by
  intro h
  have h1 := h [97] [0xFEFF] [97] [0xEF, 0xBB, 0xBF] [] rfl rfl rfl
  have h2 : cenv.encode t!"utf-8" ([97] ++ [0xFEFF]) = .ok [97, 0xEF, 0xBB, 0xBF] := rfl
  exact absurd (EnvR.ok.inj (h2.symm.trans h1)) (by decide)

/-- the same for `utf-16-le` (`FF FE`) and `utf-16-be` (`FE FF`); `utf-16` itself is immune (its
encoder always emits a BOM, which is what gets stripped) -/
example : cenv.encode t!"utf-16-le" [0xFEFF] = .ok [0xFF, 0xFE] ∧
    stripBom cenv Codecs.cfg [0xFF, 0xFE] (some t!"utf-16-le") = .ok [] ∧
    cenv.encode t!"utf-16-be" [0xFEFF] = .ok [0xFE, 0xFF] ∧
    stripBom cenv Codecs.cfg [0xFE, 0xFF] (some t!"utf-16-be") = .ok [] ∧
    cenv.encode t!"utf-16" [0xFEFF] = .ok [0xFF, 0xFE, 0xFF, 0xFE] ∧
    stripBom cenv Codecs.cfg [0xFF, 0xFE, 0xFF, 0xFE] (some t!"utf-16") = .ok [0xFF, 0xFE] :=
  ⟨rfl, rfl, rfl, rfl, rfl, rfl⟩

/-! ## Tests: the codecs on concrete texts (CPython's answers) -/

open Codecs in
/-- a text with Latin-1, BMP and astral code points and mixed line endings -/
def sample : Text := t!"aé€😀\r\nb\nc\r"

open Codecs in
example : Codec.utf8.encode sample =
    some [0x61, 0xC3, 0xA9, 0xE2, 0x82, 0xAC, 0xF0, 0x9F, 0x98, 0x80, 0x0D, 0x0A, 0x62, 0x0A, 0x63, 0x0D] := by decide
open Codecs in
example : Codec.utf8.decode [0x61, 0xC3, 0xA9, 0xE2, 0x82, 0xAC, 0xF0, 0x9F, 0x98, 0x80, 0x0D, 0x0A, 0x62, 0x0A, 0x63, 0x0D] =
    some sample := by decide
open Codecs in
example : Codec.utf16le.encode sample =
    some [0x61, 0, 0xE9, 0, 0xAC, 0x20, 0x3D, 0xD8, 0x00, 0xDE, 0x0D, 0, 0x0A, 0, 0x62, 0, 0x0A, 0, 0x63, 0, 0x0D, 0] := by
  decide
open Codecs in
example : Codec.utf16be.encode sample =
    some [0, 0x61, 0, 0xE9, 0x20, 0xAC, 0xD8, 0x3D, 0xDE, 0x00, 0, 0x0D, 0, 0x0A, 0, 0x62, 0, 0x0A, 0, 0x63, 0, 0x0D] := by
  decide
open Codecs in
example : Codec.utf16.encode sample =
    some [0xFF, 0xFE, 0x61, 0, 0xE9, 0, 0xAC, 0x20, 0x3D, 0xD8, 0x00, 0xDE, 0x0D, 0, 0x0A, 0, 0x62, 0, 0x0A, 0, 0x63, 0,
      0x0D, 0] := by decide
open Codecs in
example : (Codec.utf16.encode sample).bind Codec.utf16.decode = some sample ∧
    (Codec.utf16le.encode sample).bind Codec.utf16le.decode = some sample ∧
    (Codec.utf16be.encode sample).bind Codec.utf16be.decode = some sample ∧
    (Codec.utf16be.encode sample).bind Codec.utf16.decode ≠ some sample := by decide
open Codecs in
/-- Latin-1 and ASCII: range checks -/
example : Codec.latin1.encode t!"é\r\nÿ" = some [0xE9, 0x0D, 0x0A, 0xFF] ∧ Codec.latin1.encode t!"€" = none ∧
    Codec.latin1.decode [0xE9, 0x80, 0xFF] = some [0xE9, 0x80, 0xFF] ∧
    Codec.ascii.encode t!"a\r\n" = some [0x61, 0x0D, 0x0A] ∧ Codec.ascii.encode t!"é" = none ∧
    Codec.ascii.decode [0x61, 0x80] = none := by decide
open Codecs in
/-- UTF-8 strictness: surrogates are not encodable; overlong forms, encoded surrogates, values above
U+10FFFF, stray continuation bytes and truncated sequences are not decodable; a BOM is data -/
example : Codec.utf8.encode [0xD800] = none ∧ Codec.utf8.encode [0xDFFF] = none ∧
    Codec.utf8.encode [0xD7FF, 0xE000, 0x10FFFF] = some [0xED, 0x9F, 0xBF, 0xEE, 0x80, 0x80, 0xF4, 0x8F, 0xBF, 0xBF] ∧
    Codec.utf8.decode [0xC0, 0x80] = none ∧ Codec.utf8.decode [0xC1, 0xBF] = none ∧
    Codec.utf8.decode [0xE0, 0x9F, 0xBF] = none ∧ Codec.utf8.decode [0xF0, 0x8F, 0xBF, 0xBF] = none ∧
    Codec.utf8.decode [0xED, 0xA0, 0x80] = none ∧ Codec.utf8.decode [0xF4, 0x90, 0x80, 0x80] = none ∧
    Codec.utf8.decode [0xF5, 0x80, 0x80, 0x80] = none ∧ Codec.utf8.decode [0x80] = none ∧
    Codec.utf8.decode [0xE2, 0x82] = none ∧ Codec.utf8.decode [0xE2, 0x82, 0x41] = none ∧
    Codec.utf8.decode [0xEF, 0xBB, 0xBF, 0x61] = some [0xFEFF, 0x61] := by decide
open Codecs in
/-- UTF-16 corners: `''.encode('utf-16') == b'\xff\xfe'`, `b'\xff\xfe'.decode('utf-16') == ''`, a
big-endian BOM switches the byte order, only one BOM is consumed, `-le` / `-be` keep U+FEFF, lone
surrogates and odd lengths are errors -/
example : Codec.utf16.encode [] = some [0xFF, 0xFE] ∧ Codec.utf16.decode [0xFF, 0xFE] = some [] ∧
    Codec.utf16.decode [] = some [] ∧ Codec.utf16.decode [0xFE, 0xFF, 0x00, 0x61] = some [0x61] ∧
    Codec.utf16.decode [0x61, 0x00] = some [0x61] ∧
    Codec.utf16.encode [0xFEFF, 0x61] = some [0xFF, 0xFE, 0xFF, 0xFE, 0x61, 0x00] ∧
    Codec.utf16.decode [0xFF, 0xFE, 0xFF, 0xFE, 0x61, 0x00] = some [0xFEFF, 0x61] ∧
    Codec.utf16le.decode [0xFF, 0xFE, 0x61, 0x00] = some [0xFEFF, 0x61] ∧
    Codec.utf16be.decode [0xFE, 0xFF, 0x00, 0x61] = some [0xFEFF, 0x61] ∧
    Codec.utf16le.encode [0xD800] = none ∧ Codec.utf16le.encode [0xD83D, 0xDE00] = none ∧
    Codec.utf16le.decode [0x3D, 0xD8] = none ∧ Codec.utf16le.decode [0x00, 0xDE] = none ∧
    Codec.utf16le.decode [0x3D, 0xD8, 0x61, 0x00] = none ∧ Codec.utf16le.decode [0x61] = none ∧
    Codec.utf16.decode [0xFF] = none := by decide
/-- names: aliases, canonical names, unknown names -/
example : cenv.canon t!"latin-1" = .ok t!"iso8859-1" ∧ cenv.canon t!"UTF-8" = .ok t!"utf-8" ∧
    cenv.canon t!"utf-16-le" = .ok t!"utf-16-le" ∧
    (match cenv.canon t!"klingon" with | .err => true | _ => false) = true ∧
    (match cenv.encode t!"klingon" [] with | .err => true | _ => false) = true := ⟨rfl, rfl, rfl, rfl, rfl⟩
/-- the BOM-free newlines -/
example : (Codecs.Codec.all.map fun c => (c.nl false, c.nl true)) =
    [([10], [13, 10]), ([10], [13, 10]), ([10], [13, 10]), ([10, 0], [13, 0, 10, 0]), ([10, 0], [13, 0, 10, 0]),
     ([0, 10], [0, 13, 0, 10])] := by decide

/-! ## Closed instances of `C01_text_roundtrip_concrete`, one per codec family -/

/-- a writer inside a section whose current encoding is `utf-16` (resp. `utf-8`) -/
def wst16 : Writer.St := ⟨[], [some t!"utf-8", some t!"utf-16"], none⟩
def wst8 : Writer.St := ⟨[], [some t!"utf-8"], none⟩

/-- non-ASCII and astral code points, a line that looks like a header, first line CRLF, a lone LF
inside, no final line ending -/
def txt : Text := t!"héllo 😀\r\n#.change:\nwörld"

/-- `utf-16` (BOM), inherited; `indent=2`; kind detected on the first line (dos): the CRLF is
appended, in UTF-16; the indentation is made of single space bytes -/
def data16 : Bytes :=
  [32, 32, 255, 254, 104, 0, 233, 0, 108, 0, 108, 0, 111, 0, 32, 0, 61, 216, 0, 222, 13, 0, 10, 0, 32, 32, 35,
   0, 46, 0, 99, 0, 104, 0, 97, 0, 110, 0, 103, 0, 101, 0, 58, 0, 10, 0, 119, 0, 246, 0, 114, 0, 108, 0, 100, 0, 13, 0,
   10, 0]

set_option maxRecDepth 16384 in
theorem prepared16 :
    Writer.prepareContent cenv Codecs.cfg wst16 (.str txt) (some 2) none none true = .ok (data16, t!"dos") := rfl

set_option maxRecDepth 16384 in
theorem C01_text_roundtrip_utf16 :
    Reader.readContent cenv Codecs.cfg ⟨data16 ++ b!"#.change:\n", 5, some false⟩ 60
        (some (.str b!"utf-16")) (some (.int 2)) (some (.str b!"dos")) false =
      .ok (.text t!"héllo 😀\r\n#.change:\nwörld\r\n", ⟨b!"#.change:\n", 7, some false⟩) := by
  obtain ⟨data, hp, hr⟩ := C01_text_roundtrip_concrete (fun _ => .ok t!"{\"k\": 1}") (fun _ => .ok jk)
    (fun _ => .ok jk) t!"utf-16" .utf16 rfl wst16 none rfl txt (by decide) _ rfl none (by intro l h; cases h)
    (some 2) (by intro i h; cases h; decide)
  have h0 := prepared16
  unfold cenv at h0
  rw [h0] at hp
  obtain rfl : data16 = data := (Prod.mk.inj (Except.ok.inj hp)).1
  exact hr (by decide) b!"#.change:\n" 5 (some false)

set_option maxRecDepth 16384 in
/-- … which is true by evaluation as well -/
example :
    Reader.readContent cenv Codecs.cfg ⟨data16 ++ b!"#.change:\n", 5, some false⟩ 60
        (some (.str b!"utf-16")) (some (.int 2)) (some (.str b!"dos")) false =
      .ok (.text t!"héllo 😀\r\n#.change:\nwörld\r\n", ⟨b!"#.change:\n", 7, some false⟩) := rfl

/-- `utf-8`, inherited; `line_endings='unix'` declared: the CRLF inside is not a line end for the
appended kind, an LF is appended -/
def data8 : Bytes :=
  [32, 32, 104, 195, 169, 108, 108, 111, 32, 240, 159, 152, 128, 13, 10, 32, 32, 35, 46, 99, 104, 97, 110, 103,
   101, 58, 10, 32, 32, 119, 195, 182, 114, 108, 100, 10]

set_option maxRecDepth 16384 in
theorem prepared8 :
    Writer.prepareContent cenv Codecs.cfg wst8 (.str txt) (some 2) (some t!"unix") none true =
      .ok (data8, t!"unix") := rfl

set_option maxRecDepth 16384 in
theorem C01_text_roundtrip_utf8 :
    Reader.readContent cenv Codecs.cfg ⟨data8 ++ b!"#.change:\n", 0, none⟩ 36
        (some (.str b!"utf-8")) (some (.int 2)) (some (.str b!"unix")) false =
      .ok (.text t!"héllo 😀\r\n#.change:\nwörld\n", ⟨b!"#.change:\n", 3, none⟩) := by
  obtain ⟨data, hp, hr⟩ := C01_text_roundtrip_concrete (fun _ => .ok t!"{\"k\": 1}") (fun _ => .ok jk)
    (fun _ => .ok jk) t!"utf-8" .utf8 rfl wst8 none rfl txt (by decide) _ rfl (some t!"unix")
    (by intro l h; cases h; exact ⟨false, rfl⟩) (some 2) (by intro i h; cases h; decide)
  have h0 := prepared8
  unfold cenv at h0
  rw [h0] at hp
  obtain rfl : data8 = data := (Prod.mk.inj (Except.ok.inj hp)).1
  exact hr (by decide) b!"#.change:\n" 0 none

set_option maxRecDepth 16384 in
/-- `latin-1` given as the section's own encoding (an alias of `iso8859-1`), no indentation, kind
detected (dos) -/
theorem C01_text_roundtrip_latin1 :
    Reader.readContent cenv Codecs.cfg
        ⟨[104, 233, 108, 108, 111, 13, 10, 119, 246, 114, 108, 100, 13, 10] ++ b!"#.change:\n", 0, none⟩ 14
        (some (.str b!"latin-1")) none (some (.str b!"dos")) false =
      .ok (.text t!"héllo\r\nwörld\r\n", ⟨b!"#.change:\n", 2, none⟩) := by
  obtain ⟨data, hp, hr⟩ := C01_text_roundtrip_concrete (fun _ => .ok t!"{\"k\": 1}") (fun _ => .ok jk)
    (fun _ => .ok jk) t!"latin-1" .latin1 rfl wst8 (some t!"latin-1") rfl t!"héllo\r\nwörld" (by decide) _ rfl none
    (by intro l h; cases h) none (by intro i h; cases h)
  have h0 : Writer.prepareContent cenv Codecs.cfg wst8 (.str t!"héllo\r\nwörld") none none (some t!"latin-1") true =
      .ok ([104, 233, 108, 108, 111, 13, 10, 119, 246, 114, 108, 100, 13, 10], t!"dos") := rfl
  unfold cenv at h0
  rw [h0] at hp
  obtain rfl : _ = data := (Prod.mk.inj (Except.ok.inj hp)).1
  exact hr (by decide) b!"#.change:\n" 0 none

/-- `utf-16-be` given, `line_endings='dos'`, `indent=1` -/
def data16be : Bytes :=
  [32, 0, 104, 0, 233, 0, 108, 0, 108, 0, 111, 0, 32, 216, 61, 222, 0, 0, 13, 0, 10, 32, 0, 35, 0, 46, 0, 99,
   0, 104, 0, 97, 0, 110, 0, 103, 0, 101, 0, 58, 0, 10, 0, 119, 0, 246, 0, 114, 0, 108, 0, 100, 0, 13, 0, 10]

set_option maxRecDepth 16384 in
theorem prepared16be :
    Writer.prepareContent cenv Codecs.cfg wst8 (.str txt) (some 1) (some t!"dos") (some t!"utf-16-be") true =
      .ok (data16be, t!"dos") := rfl

set_option maxRecDepth 16384 in
theorem C01_text_roundtrip_utf16be :
    Reader.readContent cenv Codecs.cfg ⟨data16be ++ b!"#.change:\n", 0, none⟩ 56
        (some (.str b!"utf-16-be")) (some (.int 1)) (some (.str b!"dos")) false =
      .ok (.text t!"héllo 😀\r\n#.change:\nwörld\r\n", ⟨b!"#.change:\n", 2, none⟩) := by
  obtain ⟨data, hp, hr⟩ := C01_text_roundtrip_concrete (fun _ => .ok t!"{\"k\": 1}") (fun _ => .ok jk)
    (fun _ => .ok jk) t!"utf-16-be" .utf16be rfl wst8 (some t!"utf-16-be") rfl txt (by decide) _ rfl (some t!"dos")
    (by intro l h; cases h; exact ⟨true, rfl⟩) (some 1) (by intro i h; cases h; decide)
  have h0 := prepared16be
  unfold cenv at h0
  rw [h0] at hp
  obtain rfl : data16be = data := (Prod.mk.inj (Except.ok.inj hp)).1
  exact hr (by decide) b!"#.change:\n" 0 none

/-! ## Closed instance of `C01_run_content_equal` with the concrete codecs -/

def cEnc : Name := t!"utf-8"
def ctext : Text := t!"héllo 😀\r\nwörld"
/-- a UTF-16 preamble (own encoding, indented), a change, a Latin-1 file, its metadata, a diff -/
def ccall1 : Writer.Call := .preamble (.str ctext) (some t!"utf-16") (some 2) none (some t!"text/plain")
def ccall2 : Writer.Call := .newChange none
def ccall3 : Writer.Call := .newFile (some t!"latin1")
def ccall4 : Writer.Call := .metadata (.dict jk) none t!"json"
def ccall5 : Writer.Call := .diff (.bytes b!"-a\n+b") (some t!"text") none none
def cprog : List Writer.Call := [ccall1, ccall2, ccall3, ccall4, ccall5]

def cst0 : Writer.St := (Writer.init (some cEnc) t!"1.0").1
def cst1 : Writer.St := (Writer.step cenv Codecs.cfg cst0 ccall1).1
def cst2 : Writer.St := (Writer.step cenv Codecs.cfg cst1 ccall2).1
def cst3 : Writer.St := (Writer.step cenv Codecs.cfg cst2 ccall3).1
def cst4 : Writer.St := (Writer.step cenv Codecs.cfg cst3 ccall4).1

set_option maxRecDepth 16384 in
theorem cprog_ok : ∀ r ∈ (Writer.run cenv Codecs.cfg (some cEnc) t!"1.0" cprog).2, r = .ok := by decide

def cplain1 : Bytes :=
  [255, 254, 104, 0, 233, 0, 108, 0, 108, 0, 111, 0, 32, 0, 61, 216, 0, 222, 13, 0, 10, 0, 119, 0, 246, 0, 114,
   0, 108, 0, 100, 0, 13, 0, 10, 0]
def cdata1 : Bytes :=
  [32, 32, 255, 254, 104, 0, 233, 0, 108, 0, 108, 0, 111, 0, 32, 0, 61, 216, 0, 222, 13, 0, 10, 0, 32, 32, 119,
   0, 246, 0, 114, 0, 108, 0, 100, 0, 13, 0, 10, 0]

set_option maxRecDepth 16384 in
/-- the preamble laws, the text laws built by `C01_text_laws_concrete` from acceptance -/
def claws1 : PreambleLaws cenv Codecs.cfg cst0 ctext (some t!"utf-16") (some 2) none where
  encOk := by intro n h; cases h; exact Codecs.lookup_nameOk _ .utf16 rfl
  indentOk := by intro i h; cases h; decide
  data := cdata1
  leOut := t!"dos"
  hprep := rfl
  hlen := by decide
  text := C01_text_laws_concrete _ _ _ t!"utf-16" .utf16 rfl cst0 ctext none (some t!"utf-16") t!"dos" rfl cplain1 rfl

set_option maxRecDepth 16384 in
def claws4 : MetaLaws cenv Codecs.cfg cst3 jk none where
  encOk := by intro n h; cases h
  text := t!"{\"k\": 1}"
  hdumps := rfl
  leOut := t!"unix"
  tl := C01_text_laws_concrete _ _ _ t!"latin1" .latin1 rfl cst3 t!"{\"k\": 1}" none none t!"unix" rfl
    [123, 34, 107, 34, 58, 32, 49, 125, 10] rfl
  hlen := by decide
  hguess := fun _ => rfl
  parsed := jk
  hloads := rfl
  hobj := rfl

set_option maxRecDepth 16384 in
def claws5 : DiffCallLaws cenv Codecs.cfg cst4 b!"-a\n+b" none none where
  encOk := by intro n h; cases h
  data := b!"-a\n+b\n"
  leOut := t!"unix"
  hprep := rfl
  hlen := by decide
  dl :=
    { encName := none, henc := rfl, dos := false, hle := rfl, nl := [10],
      hw := by
        refine ⟨false, rfl, ?_, ?_⟩
        · intro l h; cases h
        · exact ⟨[10], [13, 10], [10], [13, 10], rfl, rfl, rfl, rfl, by decide, rfl⟩
      rawR := [10], hencR := rfl, hbomR := rfl, hne := by decide }

def claws : ProgramLaws cenv Codecs.cfg cEnc cprog where
  encOk := Codecs.lookup_nameOk _ .utf8 rfl
  calls :=
    ((claws1 : CallLaws cenv Codecs.cfg cst0 ccall1),
     ((⟨by intro n h; cases h⟩ : CallLaws cenv Codecs.cfg cst1 ccall2),
      ((⟨by intro n h; cases h; exact Codecs.lookup_nameOk _ .latin1 rfl⟩ : CallLaws cenv Codecs.cfg cst2 ccall3),
       ((claws4 : CallLaws cenv Codecs.cfg cst3 ccall4),
        ((claws5 : CallLaws cenv Codecs.cfg cst4 ccall5), PUnit.unit)))))

/-- the codecs of the preamble and of the metadata are faithful (proved, `C01_codec_faithful`),
and `json.loads` gives the dict back -/
theorem cfaithful : ProgramFaithfulFrom cenv Codecs.cfg (Writer.init (some cEnc) t!"1.0").1 cprog claws.calls :=
  ⟨C01_codec_faithful _ _ _ t!"utf-16" .utf16 rfl, trivial, trivial,
    ⟨C01_codec_faithful _ _ _ t!"latin1" .latin1 rfl, rfl⟩, trivial, trivial⟩

set_option maxRecDepth 16384 in
/-- `C01_run_content_equal` instantiated: the contents read back (block size 7) are the contents
written — the UTF-16 text with the CRLF detected on its first line appended, the metadata, the
diff bytes with the LF appended -/
theorem C01_run_content_instance :
    (Reader.readAll cenv Codecs.cfg 7 (Writer.run cenv Codecs.cfg (some cEnc) t!"1.0" cprog).1.out).1.map
        (·.content) =
      [.container, .text t!"héllo 😀\r\nwörld\r\n", .container, .container, .metadata jk, .diff b!"-a\n+b\n"] :=
  (C01_run_content_equal cenv Codecs.cfg 7 (by decide) cEnc cprog cprog_ok claws cfaithful).1

set_option maxRecDepth 16384 in
/-- … true by evaluation as well -/
example :
    ((Reader.readAll cenv Codecs.cfg 7 (Writer.run cenv Codecs.cfg (some cEnc) t!"1.0" cprog).1.out).1.map
        (·.content) ==
      [.container, .text t!"héllo 😀\r\nwörld\r\n", .container, .container, .metadata jk, .diff b!"-a\n+b\n"]) =
      true := by decide

end Diffx.C01
