import DiffxVerif.Lemmas.ForeignLoad
import DiffxVerif.Properties.C03File
import DiffxVerif.Properties.C05Tree
/-!
# C06 (foreign files) — what a well-formed file from another producer loads as, and the fixed point

> C06 (second half): For every well-formed file from another producer that the object model
> accepts, re-serialising succeeds, carries the same section contents, and is a fixed point:
> parsing and serialising the result again changes nothing.

A foreign file is a `Spec.Sec` document (Spec/Document.lean) that is `Spec.WF`; by `C03_file` the
streaming reader yields `Spec.reading` on it.  This file says what the **object model** makes of it.

* `treeOfDoc env cfg wv doc` (Lemmas/ForeignLoad.lean) is the tree, by recursion over the document:
  a right fold (`partOf`, `Part.add`) in which a content section waits for its container header, a
  `..file` header closes a file and a `.change` header closes a change.  It mentions no reader and
  no loader function; the content section objects are `secOf` (class, `Dom.contentOpts` of the
  options as written, `Spec.bodyOf`).
* `Loadable env cfg doc` (decidable): every `.change` / `..file` header carries no option other than
  `encoding`, with a value that is not an integer literal; every preamble has an effective encoding.
* `C06_foreign_load`: `from_bytes (render doc) = treeOfDoc doc`;
  `C06_foreign_container_error` / `C06_foreign_preamble_error`: the first section that violates
  `Loadable` makes `from_bytes` raise a library error / `TypeError` (known finding D13b);
  `C06_foreign_shape`, `C06_foreign_contents`, `C06_foreign_section`, `C06_foreign_opts_get`,
  `C06_foreign_main_opts`, `C06_foreign_container_opts`: shape and contents in readable form.
* `C06_foreign_fixed_point`: if the loaded tree serialises to `b` (known finding D14: it need not),
  then under the laws of `C06_parse_serialise` for the tree's program, `b` parses and serialises to
  `b` again.  `TreeOk` of the loaded tree is proved, not assumed.
-/
namespace Diffx.C06
open Diffx Diffx.Spec Diffx.Dom Diffx.Foreign
open Diffx.DomRT (TreeOk ReLaws setdefaultIndent)
open Diffx.RunRT (ProgramLaws)

/-! ## loading -/

/-- **A well-formed, loadable foreign file loads as the tree of its document**, in either header
newline convention. -/
theorem C06_foreign_load (env : Env) (cfg : Config) (wv : Text) (crlf : Bool) (doc : List Sec)
    (hchunk : 0 < cfg.chunk) (wf : WF env cfg doc) (hl : Loadable env cfg doc) :
    fromBytes env cfg wv (render crlf doc) = .ok (treeOfDoc env cfg wv doc) :=
  foreign_load env cfg wv crlf doc hchunk wf hl

/-- **A container header with a foreign option is refused.**  Well-formed document; the sections
`pre` are loadable; the next section is a `.change` / `..file` header carrying an option other than
`encoding`, or an `encoding` that `int()` accepts: `from_bytes` raises a library error
(`DiffXUnknownOptionError` / `DiffXOptionValueError`). -/
theorem C06_foreign_container_error (env : Env) (cfg : Config) (wv : Text) (crlf : Bool)
    (pre : List Sec) (bad : Sec) (post : List Sec) (hchunk : 0 < cfg.chunk)
    (wf : WF env cfg (pre ++ bad :: post)) (hl : loadableFrom env cfg Ctx.start pre = true)
    (hid : bad.id = SecId.change ∨ bad.id = SecId.file) (hk : containerOk bad = false) :
    fromBytes env cfg wv (render crlf (pre ++ bad :: post)) = .error .library :=
  foreign_fail env cfg wv crlf pre bad post .library hchunk wf hl
    (by rcases hid with h | h <;> rw [h] <;> decide)
    (fun ls => loadRecord_container_bad env cfg ls _ bad hid hk)

/-- **A preamble without an effective encoding raises `TypeError`** (known finding D13b): the
reader yields its text as `bytes` and the content setter of the preamble section refuses them. -/
theorem C06_foreign_preamble_error (env : Env) (cfg : Config) (wv : Text) (crlf : Bool)
    (pre : List Sec) (bad : Sec) (post : List Sec) (hchunk : 0 < cfg.chunk)
    (wf : WF env cfg (pre ++ bad :: post)) (hl : loadableFrom env cfg Ctx.start pre = true)
    (hid : bad.id = SecId.mainPreamble ∨ bad.id = SecId.changePreamble)
    (he : effEnc (ctxAfter env cfg Ctx.start pre) bad = none) :
    fromBytes env cfg wv (render crlf (pre ++ bad :: post)) = .error .typeError :=
  foreign_fail env cfg wv crlf pre bad post .typeError hchunk wf hl
    (by rcases hid with h | h <;> rw [h] <;> decide)
    (fun ls => loadRecord_pre_none env cfg ls _ bad hid he)

/-- the tree of any document is a well-formed tree (`TreeOk`: every content section object sits in
the slot of its class) -/
theorem C06_foreign_tree_ok (env : Env) (cfg : Config) (wv : Text) (doc : List Sec) :
    TreeOk (treeOfDoc env cfg wv doc) :=
  treeOfDoc_ok env cfg wv doc

/-! ## the same section contents -/

/-- **Shape**: one change per `.change` header and, in each, one file per `..file` header that
follows it (`shapeOf`, Lemmas/Dom.lean). -/
theorem C06_foreign_shape (env : Env) (cfg : Config) (wv : Text) (doc : List Sec) (wf : WF env cfg doc) :
    (treeOfDoc env cfg wv doc).changes.map (·.files.length) = shapeOf (doc.map (·.id)) :=
  treeOfDoc_shape env cfg wv doc (hier_of_wf env cfg doc _ wf.sections)

/-- the number of changes is the number of `.change` headers -/
theorem C06_foreign_changes (env : Env) (cfg : Config) (wv : Text) (doc : List Sec) (wf : WF env cfg doc) :
    (treeOfDoc env cfg wv doc).changes.length = (shapeOf (doc.map (·.id))).length := by
  rw [← C06_foreign_shape env cfg wv doc wf, List.length_map]

/-- **Contents**: every content section `s` of the document — `doc = pre ++ s :: post` — is the
section object `secOf` in the slot of its id (`slotOf`: main preamble / metadata; preamble /
metadata of change `i`; metadata / diff of file `j` of change `i`), where `i`, `j` are the change and
file open after `pre`. -/
theorem C06_foreign_contents (env : Env) (cfg : Config) (wv : Text) (pre : List Sec) (s : Sec)
    (post : List Sec) (wf : WF env cfg (pre ++ s :: post)) (hc : s.hasContent = true) :
    slotOf (treeOfDoc env cfg wv (pre ++ s :: post)) s.id (changeIndex pre) (fileIndex pre) =
      some (secOf env cfg (ctxAfter env cfg Ctx.start pre) s) :=
  contents_at env cfg wv pre s post (hier_of_wf env cfg _ _ wf.sections) hc

/-- **The section object**: its content is what the specification says the section contains
(`Spec.bodyOf`: the decoded, unindented text / the parsed JSON / the diff bytes), its options are
the options as written minus `length` — plus `indent := None` for a preamble without `indent`. -/
theorem C06_foreign_section (env : Env) (cfg : Config) (c : Ctx) (s : Sec) :
    (secOf env cfg c s).content = contentVal (bodyOf env cfg c s) ∧
    (s.isPreamble = true → (secOf env cfg c s).kind = .preamble ∧
      (secOf env cfg c s).opts = setdefaultIndent (contentOpts (optsOf s))) ∧
    (s.isPreamble = false → (secOf env cfg c s).opts = contentOpts (optsOf s)) ∧
    (s.isMeta = true → (secOf env cfg c s).content = .dict ((jsonOf env cfg c s).getD .null)) ∧
    (s.isDiff = true → (secOf env cfg c s).content = .bytes s.content) := by
  refine ⟨rfl, ?_, ?_, ?_, ?_⟩
  · intro h; simp [secOf, kindOf, h]
  · intro h; simp [secOf, h]
  · intro h
    have hid : s.id ∈ metaSections := by simpa [Sec.isMeta] using h
    have hp : s.isPreamble = false := by
      simp only [metaSections, List.mem_cons, List.not_mem_nil, or_false] at hid
      rcases hid with h | h | h <;> rw [Sec.isPreamble, h] <;> decide
    have hcn : s.hasContent = true := by
      simp only [metaSections, List.mem_cons, List.not_mem_nil, or_false] at hid
      rcases hid with h | h | h <;> rw [Sec.hasContent, h] <;> decide
    simp [secOf, bodyOf, hcn, hp, h, contentVal]
  · intro h
    have hid : s.id = SecId.fileDiff := by simpa [Sec.isDiff] using h
    have hp : s.isPreamble = false := by rw [Sec.isPreamble, hid]; decide
    have hm : s.isMeta = false := by rw [Sec.isMeta, hid]; decide
    have hcn : s.hasContent = true := by rw [Sec.hasContent, hid]; decide
    simp [secOf, bodyOf, hcn, hp, hm, contentVal]

/-- a preamble with an effective encoding `e`: the content is the decoded unindented text -/
theorem C06_foreign_preamble_text (env : Env) (cfg : Config) (c : Ctx) (s : Sec) (e : Bytes)
    (hp : s.isPreamble = true) (he : effEnc c s = some e) :
    (secOf env cfg c s).content = .str (decoded env e (rawText env cfg c s)) := by
  have hid : s.id ∈ preambleSections := by simpa [Sec.isPreamble] using hp
  have hcn : s.hasContent = true := by
    simp only [preambleSections, List.mem_cons, List.not_mem_nil, or_false] at hid
    rcases hid with h | h <;> rw [Sec.hasContent, h] <;> decide
  simp [secOf, bodyOf, hcn, hp, he, contentVal]

theorem lookup_snoc_ne (o : DOpts) (k k' : Bytes) (v : PyVal) (h : k' ≠ k) :
    List.lookup k' (o ++ [(k, v)]) = List.lookup k' o := by
  induction o with
  | nil => simp [List.lookup, beq_false_of_ne h]
  | cons p o ih =>
    obtain ⟨a, b⟩ := p
    simp only [List.cons_append, List.lookup_cons, ih]

theorem lookup_snoc_new (o : DOpts) (k : Bytes) (v : PyVal) (h : List.lookup k o = none) :
    List.lookup k (o ++ [(k, v)]) = some v := by
  induction o with
  | nil => simp
  | cons p o ih =>
    obtain ⟨a, b⟩ := p
    simp only [List.cons_append, List.lookup_cons] at h ⊢
    revert h
    cases k == a
    · exact ih
    · intro h; cases h

/-- **Options, key by key**: every option other than `length` is carried with the value as written
(an integer literal as an `int`, anything else as a `str`); `length` is dropped; a preamble without
`indent` gets `indent = None`. -/
theorem C06_foreign_opts_get (env : Env) (cfg : Config) (c : Ctx) (s : Sec) (k : Bytes)
    (hk : k ≠ b!"length") :
    (secOf env cfg c s).opts.get b!"length" = none ∧
    ((s.isPreamble = false ∨ k ≠ b!"indent") →
      (secOf env cfg c s).opts.get k = (s.get k).map (fun v => optToPy (Header.convert v))) ∧
    (s.isPreamble = true →
      (secOf env cfg c s).opts.get b!"indent" =
        some (match s.get b!"indent" with
              | some v => optToPy (Header.convert v)
              | none => .none)) := by
  have hget : ∀ k', k' ≠ b!"length" →
      (contentOpts (optsOf s)).get k' = (s.get k').map (fun v => optToPy (Header.convert v)) := by
    intro k' hk'
    rw [(contentOpts_get (optsOf s) k' hk').1, SpecFile.optsOf_get, Option.map_map]
    rfl
  have hlen := (contentOpts_get (optsOf s) k hk).2
  have happ : ∀ (o : DOpts) (k' : Bytes), k' ≠ b!"indent" →
      DOpts.get (o ++ [(b!"indent", PyVal.none)]) k' = DOpts.get o k' :=
    fun o k' h => lookup_snoc_ne o _ k' _ h
  have hnew : ∀ (o : DOpts), DOpts.get o b!"indent" = none →
      DOpts.get (o ++ [(b!"indent", PyVal.none)]) b!"indent" = some PyVal.none :=
    fun o h => lookup_snoc_new o _ _ h
  cases hp : s.isPreamble with
  | false =>
    refine ⟨?_, ?_, fun h => by cases h⟩
    · simp only [secOf, hp]; exact hlen
    · intro _; simp only [secOf, hp]; exact hget k hk
  | true =>
    have hi := hget b!"indent" (by decide)
    refine ⟨?_, ?_, ?_⟩
    · simp only [secOf, hp, if_true, setdefaultIndent]
      split
      · exact hlen
      · rw [happ _ _ (by decide)]; exact hlen
    · intro h
      have hki : k ≠ b!"indent" := by rcases h with h | h; cases h; exact h
      simp only [secOf, hp, if_true, setdefaultIndent]
      split
      · exact hget k hk
      · rw [happ _ _ hki]; exact hget k hk
    · intro _
      simp only [secOf, hp, if_true, setdefaultIndent]
      cases hs : s.get b!"indent" with
      | none =>
        rw [hs] at hi
        simp only [Option.map_none] at hi
        simp only [hi, Option.isSome_none, Bool.false_eq_true, if_false]
        exact hnew _ hi
      | some v =>
        rw [hs] at hi
        simp only [Option.map_some] at hi
        simp only [hi, Option.isSome_some, if_true]

/-- **Main options**: all options of the main header, as written (integer literals as `int`) —
unlike for `.change` / `..file`, nothing is checked -/
theorem C06_foreign_main_opts (env : Env) (cfg : Config) (wv : Text) (doc : List Sec) (wf : WF env cfg doc) :
    ∃ s0 rest, doc = s0 :: rest ∧ s0.id = SecId.main ∧
      (treeOfDoc env cfg wv doc).opts = optsToPy (optsOf s0) := by
  obtain ⟨s0, rest, rfl, h0⟩ := wf_head env cfg doc wf
  refine ⟨s0, rest, rfl, h0, ?_⟩
  rw [treeOfDoc_cons env cfg wv s0 rest h0]
  rfl

/-- **Container options**: every `.change` / `..file` header `s` of the document —
`doc = pre ++ s :: post` — is the change / file it opens (`containerAt`), with its options as written -/
theorem C06_foreign_container_opts (env : Env) (cfg : Config) (wv : Text) (pre : List Sec) (s : Sec)
    (post : List Sec) (wf : WF env cfg (pre ++ s :: post)) (hc : s.id = SecId.change ∨ s.id = SecId.file) :
    containerAt (treeOfDoc env cfg wv (pre ++ s :: post)) s.id (changeIndex (pre ++ [s]))
      (fileIndex (pre ++ [s])) = some (optsToPy (optsOf s)) :=
  container_at env cfg wv pre s post (hier_of_wf env cfg _ _ wf.sections) hc

/-- **Main sections that the document does not have** are the sections of a fresh tree -/
theorem C06_foreign_absent_main (env : Env) (cfg : Config) (wv : Text) (doc : List Sec) :
    ((∀ s ∈ doc, s.id ≠ SecId.mainPreamble) → (treeOfDoc env cfg wv doc).preamble = newPreamble) ∧
    ((∀ s ∈ doc, s.id ≠ SecId.mainMeta) → (treeOfDoc env cfg wv doc).metaSec = newMeta) := by
  have key : ∀ (ss : List Sec) (c : Ctx),
      ((∀ s ∈ ss, s.id ≠ SecId.mainPreamble) → (partOf env cfg c ss).mainPre = none) ∧
      ((∀ s ∈ ss, s.id ≠ SecId.mainMeta) → (partOf env cfg c ss).mainMeta = none) := by
    intro ss
    induction ss with
    | nil => intro _; exact ⟨fun _ => rfl, fun _ => rfl⟩
    | cons s ss ih =>
      intro c
      constructor
      · intro h
        have h1 := (ih (c.next env cfg s)).1 (fun t ht => h t (List.mem_cons_of_mem _ ht))
        have hs := h s List.mem_cons_self
        show ((partOf env cfg _ ss).add s.id _ _).mainPre = none
        unfold Part.add
        repeat' split
        all_goals first | exact h1 | exact absurd ‹s.id = SecId.mainPreamble› hs
      · intro h
        have h1 := (ih (c.next env cfg s)).2 (fun t ht => h t (List.mem_cons_of_mem _ ht))
        have hs := h s List.mem_cons_self
        show ((partOf env cfg _ ss).add s.id _ _).mainMeta = none
        unfold Part.add
        repeat' split
        all_goals first | exact h1 | exact absurd ‹s.id = SecId.mainMeta› hs
  constructor
  · intro h; unfold treeOfDoc; simp only [(key doc Ctx.start).1 h]; rfl
  · intro h; unfold treeOfDoc; simp only [(key doc Ctx.start).2 h]; rfl

/-! ## the fixed point -/

/-- **Fixed point.**  The loaded tree of a document, if it serialises to `b` (it need not: known
finding D14), serialises to bytes that parse and serialise to `b` again — under the hypotheses of
`C06_parse_serialise` for the program the tree is serialised by: its call list, `ProgramLaws`
(argument well-formedness, codec and JSON laws) and `ReLaws` (re-preparing normalised content).
`TreeOk` is not a hypothesis: it holds of every `treeOfDoc`. -/
theorem C06_foreign_fixed_point (env : Env) (cfg : Config) (wv : Text) (doc : List Sec) (b : Bytes)
    (hchunk : 0 < cfg.chunk)
    (hser : toBytes env cfg wv (treeOfDoc env cfg wv doc) = .ok b)
    (enc : Name) (calls : List Writer.Call)
    (hcalls : toCalls cfg.defaultIndent (treeOfDoc env cfg wv doc) wv =
      .ok (some enc, Text.ofAscii b!"1.0", calls))
    (laws : ProgramLaws env cfg enc calls) (re : ReLaws env cfg enc calls laws) :
    ∃ t', fromBytes env cfg wv b = .ok t' ∧ toBytes env cfg wv t' = .ok b :=
  C05.C06_parse_serialise env cfg wv (treeOfDoc env cfg wv doc) b hchunk
    (treeOfDoc_ok env cfg wv doc) hser enc calls hcalls laws re

/-- **Parse → serialise → parse → serialise**: from the foreign file itself.  The file of a
well-formed, loadable document parses (to `treeOfDoc`); if that tree serialises to `b`, then `b`
parses to a tree that serialises to `b`. -/
theorem C06_foreign_roundtrip (env : Env) (cfg : Config) (wv : Text) (crlf : Bool) (doc : List Sec)
    (b : Bytes) (hchunk : 0 < cfg.chunk) (wf : WF env cfg doc) (hl : Loadable env cfg doc)
    (hser : toBytes env cfg wv (treeOfDoc env cfg wv doc) = .ok b)
    (enc : Name) (calls : List Writer.Call)
    (hcalls : toCalls cfg.defaultIndent (treeOfDoc env cfg wv doc) wv =
      .ok (some enc, Text.ofAscii b!"1.0", calls))
    (laws : ProgramLaws env cfg enc calls) (re : ReLaws env cfg enc calls laws) :
    ∃ t, fromBytes env cfg wv (render crlf doc) = .ok t ∧ toBytes env cfg wv t = .ok b ∧
      ∃ t', fromBytes env cfg wv b = .ok t' ∧ toBytes env cfg wv t' = .ok b :=
  ⟨_, C06_foreign_load env cfg wv crlf doc hchunk wf hl, hser,
    C06_foreign_fixed_point env cfg wv doc b hchunk hser enc calls hcalls laws re⟩

/-! ## Non-vacuity: the foreign document of `Properties/C03File.lean`, loaded, re-serialised, and
parsed and serialised again — every conclusion also checked as a closed equation by evaluation -/

open Diffx.C03 (fileDoc fileBytes fileBytes_eq sec0 sec1 sec2 sec3 sec4 sec5)
open Diffx.C05 (treeEnv ver10 jsonK jsonFmt)
open Diffx.C01 (cfg0 asciiEnv)

/-- every field of `SecOk` is a decidable closed proposition -/
local macro "secok" : tactic =>
  `(tactic| (refine ⟨⟨?_, ?_, ?_, ?_⟩, ?_, ?_, ?_, ?_, ?_, ?_, ?_, ?_, ?_, ?_, ?_, ?_, ?_, ?_⟩ <;> decide))

/-- the contexts along the document -/
def gc1 : Ctx := Ctx.start.next treeEnv cfg0 sec0
def gc2 : Ctx := gc1.next treeEnv cfg0 sec1
def gc3 : Ctx := gc2.next treeEnv cfg0 sec2
def gc4 : Ctx := gc3.next treeEnv cfg0 sec3
def gc5 : Ctx := gc4.next treeEnv cfg0 sec4

/-- `fileDoc` (options out of order, `indent=2`, detected DOS line endings, blank lines, CRLF header
lines, compact JSON, an inherited file encoding) is well-formed in `treeEnv` (an ASCII-compatible
codec; every dictionary dumps to `{}`, every text loads as `{"k": 1}`) -/
theorem fileDoc_wf : WF treeEnv cfg0 fileDoc :=
  ⟨by decide,
    (by secok : SecOk treeEnv cfg0 Ctx.start sec0), (by secok : SecOk treeEnv cfg0 gc1 sec1),
    (by secok : SecOk treeEnv cfg0 gc2 sec2), (by secok : SecOk treeEnv cfg0 gc3 sec3),
    (by secok : SecOk treeEnv cfg0 gc4 sec4), (by secok : SecOk treeEnv cfg0 gc5 sec5), trivial⟩

theorem fileDoc_loadable : Loadable treeEnv cfg0 fileDoc := by decide

/-- the tree of `fileDoc`, written out: the main options in the order written; the preamble with
`indent=2` (no `length`), its text unindented and decoded; no main metadata, no change preamble
(fresh sections); the file with its `encoding`; the parsed metadata; the diff bytes -/
def foreignTree : Tree :=
  { opts := [(b!"version", .str ver10), (b!"encoding", .str (Text.ofAscii b!"utf-8"))]
    preamble := ⟨.preamble, [(b!"indent", .int 2)], .str (Text.ofAscii b!"hi\r\nyo\r\n")⟩
    metaSec := newMeta
    changes := [
      { opts := []
        preamble := newPreamble
        metaSec := newMeta
        files := [
          { opts := [(b!"encoding", .str (Text.ofAscii b!"latin1"))]
            metaSec := ⟨.metadata, jsonFmt, .dict jsonK⟩
            diff := ⟨.diff, [], .bytes b!"-a\n+b\n"⟩ }] }] }

theorem foreignTree_eq : treeOfDoc treeEnv cfg0 ver10 fileDoc = foreignTree := rfl

/-- `C06_foreign_load` instantiated on the file with CRLF header lines … -/
theorem C06_foreign_load_instance : fromBytes treeEnv cfg0 ver10 fileBytes = .ok foreignTree := by
  rw [← fileBytes_eq, ← foreignTree_eq]
  exact C06_foreign_load treeEnv cfg0 ver10 true fileDoc (by decide) fileDoc_wf fileDoc_loadable

set_option maxRecDepth 16384 in
/-- … a closed equation that is true by evaluation as well -/
example : fromBytes treeEnv cfg0 ver10 fileBytes = .ok foreignTree := rfl

/-- shape and contents, instantiated: one change with one file; the file's metadata section -/
example : foreignTree.changes.map (·.files.length) = [1] := by
  rw [← foreignTree_eq]
  exact C06_foreign_shape treeEnv cfg0 ver10 fileDoc fileDoc_wf

example : slotOf foreignTree SecId.fileMeta 0 0 = some ⟨.metadata, jsonFmt, .dict jsonK⟩ := by
  rw [← foreignTree_eq]
  exact C06_foreign_contents treeEnv cfg0 ver10 [sec0, sec1, sec2, sec3] sec4 [sec5] fileDoc_wf (by decide)

example : containerAt foreignTree SecId.file 0 0 = some [(b!"encoding", .str (Text.ofAscii b!"latin1"))] := by
  rw [← foreignTree_eq]
  exact C06_foreign_container_opts treeEnv cfg0 ver10 [sec0, sec1, sec2] sec3 [sec4, sec5] fileDoc_wf
    (.inr rfl)

/-- the loaded tree re-serialised: canonical option order, `length` recomputed, the detected
`line_endings` recorded, LF header lines, no blank lines, the metadata as `json.dumps` gives it -/
def foreignBytes : Bytes :=
  b!"#diffx: encoding=utf-8, version=1.0\n#.preamble: indent=2, length=12, line_endings=dos\n  hi\r\n  yo\r\n#.change:\n#..file: encoding=latin1\n#...meta: format=json, length=3\n{}\n#...diff: length=6, line_endings=unix\n-a\n+b\n"

set_option maxRecDepth 8192 in
theorem foreignTree_bytes : toBytes treeEnv cfg0 ver10 foreignTree = .ok foreignBytes := rfl

def gEnc : Name := Text.ofAscii b!"utf-8"
def gk1 : Writer.Call := .preamble (.str (Text.ofAscii b!"hi\r\nyo\r\n")) none (some 2) none none
def gk2 : Writer.Call := .newChange none
def gk3 : Writer.Call := .newFile (some (Text.ofAscii b!"latin1"))
def gk4 : Writer.Call := .metadata (.dict jsonK) none (Text.ofAscii b!"json")
def gk5 : Writer.Call := .diff (.bytes b!"-a\n+b\n") none none none
def gcalls : List Writer.Call := [gk1, gk2, gk3, gk4, gk5]

/-- the program `write_stream` runs for the loaded tree -/
theorem foreignTree_calls :
    toCalls cfg0.defaultIndent foreignTree ver10 = .ok (some gEnc, Text.ofAscii b!"1.0", gcalls) := rfl

def gst0 : Writer.St := (Writer.init (some gEnc) (Text.ofAscii b!"1.0")).1
def gst1 : Writer.St := (Writer.step treeEnv cfg0 gst0 gk1).1
def gst2 : Writer.St := (Writer.step treeEnv cfg0 gst1 gk2).1
def gst3 : Writer.St := (Writer.step treeEnv cfg0 gst2 gk3).1
def gst4 : Writer.St := (Writer.step treeEnv cfg0 gst3 gk4).1

def glaws1 : RunRT.PreambleLaws treeEnv cfg0 gst0 (Text.ofAscii b!"hi\r\nyo\r\n") none (some 2) none where
  encOk := by intro n h; cases h
  indentOk := by intro i h; cases h; decide
  data := b!"  hi\r\n  yo\r\n"
  leOut := Text.ofAscii b!"dos"
  hprep := rfl
  hlen := by decide
  text :=
    { encName := b!"utf-8", heff := rfl, dos := true, hle := rfl, raw := [13, 10], henc := rfl,
      nl := [13, 10], hbom := rfl, hne := by decide, hu := by decide, hsp := by decide,
      plain := b!"hi\r\nyo\r\n", hplain := rfl, decoded := Text.ofAscii b!"hi\r\nyo\r\n", hdec := rfl,
      hdecNl := rfl, hendT := by decide }

def glaws4 : RunRT.MetaLaws treeEnv cfg0 gst3 jsonK none where
  encOk := by intro n h; cases h
  text := Text.ofAscii b!"{}"
  hdumps := rfl
  leOut := Text.ofAscii b!"unix"
  tl :=
    { encName := b!"latin1", heff := rfl, dos := false, hle := rfl, raw := [10], henc := rfl,
      nl := [10], hbom := rfl, hne := by decide, hu := by decide, hsp := by decide,
      plain := b!"{}\n", hplain := rfl, decoded := Text.ofAscii b!"{}\n", hdec := rfl, hdecNl := rfl,
      hendT := by decide }
  hlen := by decide
  hguess := fun _ => rfl
  parsed := jsonK
  hloads := rfl
  hobj := rfl

def glaws5 : RunRT.DiffCallLaws treeEnv cfg0 gst4 b!"-a\n+b\n" none none where
  encOk := by intro n h; cases h
  data := b!"-a\n+b\n"
  leOut := Text.ofAscii b!"unix"
  hprep := rfl
  hlen := by decide
  dl :=
    { encName := none, henc := rfl, dos := false, hle := rfl, nl := [10],
      hw := by
        refine ⟨false, rfl, ?_, ?_⟩
        · intro l h; cases h
        · exact ⟨[10], [13, 10], [10], [13, 10], rfl, rfl, rfl, rfl, by decide, rfl⟩
      rawR := [10], hencR := rfl, hbomR := rfl, hne := by decide }

/-- **the laws hold** for the loaded tree's program -/
def foreignLaws : ProgramLaws treeEnv cfg0 gEnc gcalls where
  encOk := ⟨by decide, by decide, by decide⟩
  calls :=
    ((glaws1 : RunRT.CallLaws treeEnv cfg0 gst0 gk1),
     ((⟨by intro n h; cases h⟩ : RunRT.CallLaws treeEnv cfg0 gst1 gk2),
      ((⟨by intro n h; cases h; exact ⟨by decide, by decide, by decide⟩⟩ :
          RunRT.CallLaws treeEnv cfg0 gst2 gk3),
       ((glaws4 : RunRT.CallLaws treeEnv cfg0 gst3 gk4),
        ((glaws5 : RunRT.CallLaws treeEnv cfg0 gst4 gk5), PUnit.unit)))))

/-- **the re-preparation laws hold** -/
theorem foreignReLaws : ReLaws treeEnv cfg0 gEnc gcalls foreignLaws :=
  ⟨rfl, trivial, trivial, ⟨(by intro h; injection h with h; cases h), rfl⟩, rfl, trivial⟩

/-- what `foreignBytes` parses to: `foreignTree` normalised (main options in canonical order, the
detected `line_endings` recorded) -/
def foreignTree' : Tree :=
  { opts := [(b!"encoding", .str (Text.ofAscii b!"utf-8")), (b!"version", .str ver10)]
    preamble := ⟨.preamble, [(b!"indent", .int 2), (b!"line_endings", .str (Text.ofAscii b!"dos"))],
      .str (Text.ofAscii b!"hi\r\nyo\r\n")⟩
    metaSec := newMeta
    changes := [
      { opts := []
        preamble := newPreamble
        metaSec := newMeta
        files := [
          { opts := [(b!"encoding", .str (Text.ofAscii b!"latin1"))]
            metaSec := ⟨.metadata, jsonFmt, .dict jsonK⟩
            diff := ⟨.diff, [(b!"line_endings", .str (Text.ofAscii b!"unix"))], .bytes b!"-a\n+b\n"⟩ }] }] }

/-- `C06_foreign_fixed_point` instantiated … -/
theorem C06_foreign_fixed_point_instance :
    ∃ t', fromBytes treeEnv cfg0 ver10 foreignBytes = .ok t' ∧ toBytes treeEnv cfg0 ver10 t' = .ok foreignBytes :=
  C06_foreign_fixed_point treeEnv cfg0 ver10 fileDoc foreignBytes (by decide)
    (foreignTree_eq ▸ foreignTree_bytes) gEnc gcalls (foreignTree_eq ▸ foreignTree_calls)
    foreignLaws foreignReLaws

set_option maxRecDepth 16384 in
/-- … and the two closed equations, true by evaluation: parse → serialise → parse → serialise -/
example : fromBytes treeEnv cfg0 ver10 foreignBytes = .ok foreignTree' ∧
    toBytes treeEnv cfg0 ver10 foreignTree' = .ok foreignBytes := ⟨rfl, rfl⟩

/-! ## restrictions forced by the loader, as closed facts

`Loadable` excludes well-formed documents that the streaming reader accepts (`C03_file` applies to
them) and the object model refuses. -/

def mainHdr : Sec := { id := SecId.main, opts := [(b!"version", b!"1.0"), (b!"encoding", b!"utf-8")] }

/-- a `.change` header with an option of another producer -/
def customChangeDoc : List Sec := [mainHdr, { id := SecId.change, opts := [(b!"custom", b!"x")] }]

theorem customChangeDoc_wf : WF asciiEnv cfg0 customChangeDoc := ⟨by decide, by secok, by secok, trivial⟩

/-- `DiffXUnknownOptionError` (`C06_foreign_container_error` instantiated, and by evaluation) -/
theorem customChange_refused :
    fromBytes asciiEnv cfg0 ver10 b!"#diffx: version=1.0, encoding=utf-8\n#.change: custom=x\n" = .error .library :=
  C06_foreign_container_error asciiEnv cfg0 ver10 false [mainHdr] _ [] (by decide) customChangeDoc_wf
    (by decide) (.inl rfl) (by decide)

example :
    fromBytes asciiEnv cfg0 ver10 b!"#diffx: version=1.0, encoding=utf-8\n#.change: custom=x\n" = .error .library := rfl

/-- a `.change` header whose `encoding` is an integer literal (`1252` is an alias of `cp1252` in
Python's codec registry): the header parser converts it to an `int`, the `encoding` property of the
change section refuses it — whereas the same option on the main header is stored unchecked -/
def intEncChangeDoc : List Sec := [mainHdr, { id := SecId.change, opts := [(b!"encoding", b!"1252")] }]

theorem intEncChangeDoc_wf : WF asciiEnv cfg0 intEncChangeDoc := ⟨by decide, by secok, by secok, trivial⟩

/-- `DiffXOptionValueError` -/
theorem intEncChange_refused :
    fromBytes asciiEnv cfg0 ver10 b!"#diffx: version=1.0, encoding=utf-8\n#.change: encoding=1252\n" = .error .library :=
  C06_foreign_container_error asciiEnv cfg0 ver10 false [mainHdr] _ [] (by decide) intEncChangeDoc_wf
    (by decide) (.inl rfl) (by decide)

/-- … on the main header: loaded (`C03.intEncDoc` is well-formed and loadable), the tree carries
`encoding = 1252` as an `int`, and cannot be serialised (`TypeError`) -/
theorem intEncMain_loaded :
    fromBytes asciiEnv cfg0 ver10 (render false C03.intEncDoc) =
      .ok (treeOfDoc asciiEnv cfg0 ver10 C03.intEncDoc) ∧
    (treeOfDoc asciiEnv cfg0 ver10 C03.intEncDoc).opts = [(b!"encoding", .int 1252), (b!"version", .str ver10)] ∧
    toBytes asciiEnv cfg0 ver10 (treeOfDoc asciiEnv cfg0 ver10 C03.intEncDoc) = .error .typeError :=
  ⟨C06_foreign_load asciiEnv cfg0 ver10 false _ (by decide) C03.intEncDoc_wf (by decide), rfl, rfl⟩

/-- a preamble with no encoding in effect (the main header declares none) -/
def noEncDoc : List Sec :=
  [{ id := SecId.main, opts := [(b!"version", b!"1.0")] },
   { id := SecId.mainPreamble, opts := [(b!"length", b!"3")], content := b!"hi\n" }]

theorem noEncDoc_wf : WF asciiEnv cfg0 noEncDoc := ⟨by decide, by secok, by secok, trivial⟩

/-- `TypeError` (known finding D13b; `C06_foreign_preamble_error` instantiated, and by evaluation) -/
theorem noEnc_refused :
    fromBytes asciiEnv cfg0 ver10 b!"#diffx: version=1.0\n#.preamble: length=3\nhi\n" = .error .typeError :=
  C06_foreign_preamble_error asciiEnv cfg0 ver10 false [_] _ [] (by decide) noEncDoc_wf (by decide)
    (.inl rfl) (by decide)

example : fromBytes asciiEnv cfg0 ver10 b!"#diffx: version=1.0\n#.preamble: length=3\nhi\n" = .error .typeError := rfl

/-- **known finding D14 on a document**: a content header with an option of another producer is
well-formed and loadable — the option is carried into the tree — and the tree cannot be serialised -/
def customMetaDoc : List Sec :=
  [mainHdr, { id := SecId.mainMeta, opts := [(b!"length", b!"3"), (b!"custom", b!"x")], content := b!"{}\n" }]

theorem customMetaDoc_wf : WF treeEnv cfg0 customMetaDoc := ⟨by decide, by secok, by secok, trivial⟩

theorem customMeta_not_serialisable :
    fromBytes treeEnv cfg0 ver10 (render false customMetaDoc) = .ok (treeOfDoc treeEnv cfg0 ver10 customMetaDoc) ∧
    (treeOfDoc treeEnv cfg0 ver10 customMetaDoc).metaSec =
      ⟨.metadata, [(b!"custom", .str (Text.ofAscii b!"x"))], .dict jsonK⟩ ∧
    toBytes treeEnv cfg0 ver10 (treeOfDoc treeEnv cfg0 ver10 customMetaDoc) = .error .typeError :=
  ⟨C06_foreign_load treeEnv cfg0 ver10 false _ (by decide) customMetaDoc_wf (by decide), rfl, rfl⟩

end Diffx.C06
