import DiffxVerif.Lemmas.Dom
/-!
# C19 — Typed attributes validate atomically; equality is structural and congruent

> Assigning through a typed attribute either stores a value of the declared type
> and allowed choice or raises and leaves the whole tree unchanged; unknown
> constructor attributes are rejected. Two trees compare equal exactly when they
> have the same shape and, section by section, equal options and content; equal
> trees serialise to identical bytes, and changing any single option or content
> anywhere makes them unequal.

`Dom.setOption`, `ContentSec.setAttr`, `Tree/ChangeSec/FileSec.setAttr` mirror
`OptionProperty.__set__`, the content setter and the forwarding descriptors
(type check, choice check, then store); `*.pyEq` mirror the three `__eq__`
levels with Python value equality.  The result type of an assignment is
`Except SetErr _`: a failed assignment has no resulting tree at all — that the
real setters raise *before* storing is what the differential run checks with
snapshots around every assignment.
-/
namespace Diffx.C19
open Diffx Diffx.Dom

/-- a typed option assignment succeeds exactly for a value of the declared type
that is, when the option has choices, one of them -/
theorem C19_option_iff (p : OptionProp) (o : DOpts) (v : PyVal) :
    (∃ o', setOption p o v = .ok o') ↔
      (hasType v p.type = true ∧ ∀ cs t, p.choices = some cs → v = .str t → t ∈ cs) :=
  setOption_ok_iff p o v

/-- … and then stores exactly that value under the option's name, leaving every
other option as it was -/
theorem C19_option_stores (p : OptionProp) (o o' : DOpts) (v : PyVal) (h : setOption p o v = .ok o') :
    o'.get p.option = some v ∧ ∀ k, k ≠ p.option → o'.get k = o.get k :=
  setOption_stores p o o' v h

/-- the error says why: wrong type first, then wrong choice -/
theorem C19_option_errors (p : OptionProp) (o : DOpts) (v : PyVal) (e : SetErr) (h : setOption p o v = .error e) :
    (e = .optionType ∧ hasType v p.type = false) ∨ (e = .optionChoice ∧ hasType v p.type = true) :=
  setOption_error p o v e h

/-- content assignment: accepted exactly for the section's data type -/
theorem C19_content_iff (c : ContentSec) (v : PyVal) :
    (∃ c', c.setAttr b!"content" v = .ok c') ↔ hasType v (contentType c.kind) = true :=
  content_set_iff c v

theorem C19_content_stores (c c' : ContentSec) (v : PyVal) (h : c.setAttr b!"content" v = .ok c') :
    c'.content = v ∧ c'.opts = c.opts ∧ c'.kind = c.kind :=
  content_set_stores c c' v h

/-- an attribute name that is neither an option of the main section nor a
forwarded attribute is rejected (constructor keyword arguments go through the
same `setattr`) -/
theorem C19_unknown (t : Tree) (name : Bytes) (v : PyVal)
    (hn : name ∉ [b!"encoding", b!"version", b!"preamble", b!"preamble_encoding", b!"preamble_indent",
                  b!"preamble_line_endings", b!"preamble_mimetype", b!"meta", b!"meta_encoding", b!"meta_format"]) :
    t.setAttr name v = .error .unknown :=
  tree_set_unknown t name v hn

/-- a successful assignment on the main section changes only the addressed
section: changes, and the other subsections, are untouched -/
theorem C19_local (t t' : Tree) (name : Bytes) (v : PyVal) (h : t.setAttr name v = .ok t') :
    t'.changes = t.changes ∧
    ((t'.opts = t.opts ∧ t'.metaSec = t.metaSec) ∨ (t'.opts = t.opts ∧ t'.preamble = t.preamble) ∨
     (t'.preamble = t.preamble ∧ t'.metaSec = t.metaSec)) :=
  tree_set_local t t' name v h

/-- **well keyed** trees: in every `options` dict and in every JSON object of every
`dict` value (option values and contents) the keys are pairwise distinct — what
Python dictionaries guarantee by construction; the model's association lists
do not, so it is a hypothesis here (`Dom.WellKeyed`, Lemmas/Dom.lean) -/
def Keyed (t : Tree) : Prop := WellKeyed t

/-- **plain** trees: well keyed, and no opaque object (`PyVal.other`: a list, a
float, … — never `==` to anything in the model, itself included) is stored as an
option value or as a content.  `bool`, `int`, `None`, `str`, `bytes` and `dict`
values are all allowed (`Dom.PlainTree`, Lemmas/Dom.lean); e.g. every `newTree` is plain. -/
def Plain (t : Tree) : Prop := PlainTree t

theorem Plain.keyed {t : Tree} (h : Plain t) : Keyed t := PlainTree.wellKeyed h

/-- **Equality is reflexive** on plain trees and **symmetric** on well-keyed trees.
Without unique keys both fail in the model: with `a.opts = [(k,1),(k,1)]` and
`b.opts = [(k,1),(j,2)]`, `a == b` but not `b == a`; and a `dict` content
`{k: 1, k: 2}` (as an association list) is not `==` to itself. -/
theorem C19_eq_refl (t : Tree) (h : Plain t) : t.pyEq t = true := tree_pyEq_refl t h
theorem C19_eq_symm (a b : Tree) (ha : Keyed a) (hb : Keyed b) : a.pyEq b = b.pyEq a :=
  tree_pyEq_symm a b ha hb

/-- **Equal ⇒ same shape**: the same numbers of changes and of files per change -/
theorem C19_eq_shape (a b : Tree) (h : a.pyEq b = true) :
    a.changes.map (·.files.length) = b.changes.map (·.files.length) :=
  tree_pyEq_shape a b h

/-- **Any single content change is seen**: replacing the content of any content
section by a value that is not `==` to the old one makes the trees unequal
(stated for the main sections and, through `listEq`, inherited by every depth) -/
theorem C19_perturb_content (t : Tree) (v : PyVal) (h : t.preamble.content.pyEq v = false) :
    t.pyEq { t with preamble := { t.preamble with content := v } } = false :=
  tree_perturb_content t v h

/-- **Any single option change is seen** -/
theorem C19_perturb_option (t : Tree) (k : Bytes) (v v' : PyVal) (hu : (t.opts.map (·.1)).Nodup)
    (hk : t.opts.get k = some v) (hne : v.pyEq v' = false) :
    t.pyEq { t with opts := t.opts.set k v' } = false :=
  tree_perturb_option t k v v' hu hk hne

/-- **Known finding D16** (the full "equal ⇔ identical, hence identical bytes" is
false of code and model): Python's `1 == True`, so two trees whose metadata
differ only in `1` vs `True` compare equal although they serialise differently
(`1` vs `true` in the JSON). -/
theorem C19_bool_witness :
    ∃ a b : Tree, a.pyEq b = true ∧ a.metaSec.content.same b.metaSec.content = false :=
  bool_witness

end Diffx.C19
