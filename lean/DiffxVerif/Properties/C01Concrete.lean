import DiffxVerif.Lemmas.ConcreteRun
import DiffxVerif.Properties.C01Faithful
/-!
# C01 (concrete codecs) — the whole-run round trip with no hypothesis about codecs

> Whatever sequence of sections a program writes with the streaming writer, reading the produced
> bytes back with the streaming reader yields exactly one record per written section, in order,
> with the same section id and nesting level … and content equal to what was written … for every
> combination of section encodings, indentation and line endings.

`Properties/C01Run.lean` proves the round trip of every accepted program under `ProgramLaws`
(pointwise laws about the environment: `TextLaws`, `MetaLaws`, `DiffLaws`, `NameOk`);
`Properties/C01Faithful.lean` identifies the contents under `ProgramFaithfulFrom` and proves the
codec laws for the executable codecs of `Model/Codecs.lean` (ascii, latin-1, utf-8, utf-16,
utf-16-le, utf-16-be, utf-32, utf-32-le, utf-32-be, utf-8-sig, cp1252).  This file discharges **every** one of those hypotheses from the single
fact that the writer accepted the program, for the environment `Codecs.env dumps loadsText
loadsBytes`, `Codecs.cfg` (the BOM table of the repository):

* `JsonLaws Dom dumps loadsText` (Lemmas/ConcreteRun.lean) — three facts about `json.dumps` /
  `json.loads` on the dicts of a domain `Dom` — is the only hypothesis about the environment that
  is left.  The laws are false of CPython for some values of the model's `Json` (a string in which
  a high surrogate is directly followed by a low one comes back as one astral character; a list of
  items with duplicate or unsorted keys is no Python dict), hence the domain: for CPython `Dom` is
  `Json.Representable` (Model/JsonDom.lean);
* `C01_call_laws_of_accepted`, `C01_laws_of_accepted`: `CallLaws` / `ProgramLaws` (and
  `ProgramFaithfulFrom`) hold for every accepted call / program;
* `C01_run_concrete`: the theorem.  The contents read back are `calls.map contentOfCall`, the
  section ids `SecId.main :: secIds 1 calls`: functions of the calls' arguments only (no law, no
  writer state, no environment; for a diff the newline bytes come from the codec);
* `mockJsonLaws`, `C01_run_concrete_instance`: non-vacuity on an eleven-call program, checked by
  evaluation as well; `C01_run_concrete_instance2`: the same shape of program under utf-32 (BOM),
  utf-8-sig, windows-1252, utf-32-be.

## The side hypotheses

* `hsize`: the bytes written fit one `fp.read` (`≤ Reader.maxRead = 2⁶³ − 1`; the reader raises
  `OverflowError` on a larger `length`).
* `DictArgs calls`: every `Arg.dict j` argument is a JSON object.  `Arg.dict` stands for a Python
  `dict`, but the type allows `.dict (.int 1)`; the model writer dumps it and the reader rejects
  what `json.loads` gives back (`C01_dict_arg_artefact`).  No Python program can do that.
* `DictsIn Dom calls`: every `Arg.dict j` argument lies in the domain `Dom` on which `JsonLaws` is
  assumed.  (With `Dom := fun _ => True`, laws assumed of every dict, it is `dictsIn_true`.)

## Corners that were checked (no counterexample: the laws are *derived*, for all programs)

* a diff with `encoding='utf-16-le'` whose first encoded LF is misaligned: the writer's
  `guess_line_endings` works on bytes and is fooled (it declares `dos` and appends a UTF-16 CRLF
  to a diff that has no line ending at all), but it *writes* the kind it used, the reader does
  not guess: the bytes come back, with that newline appended (`C01_diff_misaligned`);
* a preamble starting with U+FEFF under `utf-16`, indented; `line_endings='dos'` on a text without
  CR; metadata under `utf-16` (BOM) and `utf-16-be`: all in the instance program;
* metadata is the only place where the *reader* guesses (no `line_endings` option is written).
  Its guess on the encoded bytes agrees with the writer's guess on the text because the dumped
  text is ASCII without CR: `JsonLaws.ascii` cannot be dropped — with a `dumps` that emitted
  non-ASCII text (`ensure_ascii=False`) a UTF-16 section can contain a misaligned CRLF and the
  reader rejects what the writer accepted (`C01_json_ascii_needed`).
-/
namespace Diffx.C01
open Diffx Diffx.RunRT Diffx.Codecs

section Concrete
variable {Dom : Json → Prop} (dumps : Json → EnvR Text) (loadsText : Text → EnvR Json) (loadsBytes : Bytes → EnvR Json)

/-- **The laws of one call, from acceptance.**  In any writer state, for any call that the writer
accepts (what it wrote fitting `fp.read`, a `dict` argument being a JSON object): the
`CallLaws` that `C01_sim_step` assumes hold — `EncOk` for a container; `PreambleLaws` with
`TextLaws` built from the codec proofs; `MetaLaws` with the reader's newline guess (`hguess`)
and `json.loads` (`hloads`, `hobj`) from `JsonLaws`; `DiffCallLaws` with `DiffLaws` (the writer's
`PreparedWith` and the reader's `hencR` / `hbomR` name the same newline bytes). -/
theorem C01_call_laws_of_accepted (hjson : JsonLaws Dom dumps loadsText) (st : Writer.St) (c : Writer.Call)
    (hok : (Writer.step (Codecs.env dumps loadsText loadsBytes) Codecs.cfg st c).2 = .ok)
    (hwf : dictArgOk c = true) (hdom : dictArgIn Dom c)
    (hsz : (Writer.step (Codecs.env dumps loadsText loadsBytes) Codecs.cfg st c).1.out.length ≤ Reader.maxRead) :
    Nonempty (CallLaws (Codecs.env dumps loadsText loadsBytes) Codecs.cfg st c) :=
  callLaws_exist dumps loadsText loadsBytes hjson st c hok hwf hdom hsz

/-- **The laws of a program, from acceptance**, and their faithfulness. -/
theorem C01_laws_of_accepted (hjson : JsonLaws Dom dumps loadsText) (enc : Name) (calls : List Writer.Call)
    (hok : ∀ r ∈ (Writer.run (Codecs.env dumps loadsText loadsBytes) Codecs.cfg (some enc) t!"1.0" calls).2, r = .ok)
    (hwf : DictArgs calls) (hdom : DictsIn Dom calls)
    (hsize : (Writer.run (Codecs.env dumps loadsText loadsBytes) Codecs.cfg (some enc) t!"1.0" calls).1.out.length
      ≤ Reader.maxRead) :
    ∃ laws : ProgramLaws (Codecs.env dumps loadsText loadsBytes) Codecs.cfg enc calls,
      ProgramFaithfulFrom (Codecs.env dumps loadsText loadsBytes) Codecs.cfg
        (Writer.init (some enc) t!"1.0").1 calls laws.calls :=
  laws_of_accepted dumps loadsText loadsBytes hjson enc calls hok hwf hdom hsize

/-- … as data (the choice is immaterial: `C01_written_any`, `C01_faithful_any`) -/
noncomputable def lawsOfAccepted (hjson : JsonLaws Dom dumps loadsText) (enc : Name) (calls : List Writer.Call)
    (hok : ∀ r ∈ (Writer.run (Codecs.env dumps loadsText loadsBytes) Codecs.cfg (some enc) t!"1.0" calls).2, r = .ok)
    (hwf : DictArgs calls) (hdom : DictsIn Dom calls)
    (hsize : (Writer.run (Codecs.env dumps loadsText loadsBytes) Codecs.cfg (some enc) t!"1.0" calls).1.out.length
      ≤ Reader.maxRead) : ProgramLaws (Codecs.env dumps loadsText loadsBytes) Codecs.cfg enc calls :=
  Classical.choose (C01_laws_of_accepted dumps loadsText loadsBytes hjson enc calls hok hwf hdom hsize)

/-- whatever laws are given for the calls of a program of the concrete environment, the contents
they determine are `contentOfCall` of the calls -/
theorem C01_written_any (st : Writer.St) (calls : List Writer.Call)
    (Ls : ProgramLawsFrom (Codecs.env dumps loadsText loadsBytes) Codecs.cfg st calls) :
    writtenFrom (Codecs.env dumps loadsText loadsBytes) Codecs.cfg st calls Ls = calls.map contentOfCall :=
  writtenFrom_eq dumps loadsText loadsBytes calls st Ls

/-- … and they are faithful -/
theorem C01_faithful_any (hjson : JsonLaws Dom dumps loadsText) (st : Writer.St) (calls : List Writer.Call)
    (hwf : DictArgs calls) (hdom : DictsIn Dom calls)
    (Ls : ProgramLawsFrom (Codecs.env dumps loadsText loadsBytes) Codecs.cfg st calls) :
    ProgramFaithfulFrom (Codecs.env dumps loadsText loadsBytes) Codecs.cfg st calls Ls :=
  programFaithful_any dumps loadsText loadsBytes hjson calls st hwf hdom Ls

/-- **The whole-run round trip for the concrete codecs.**  For `Codecs.env dumps loadsText loadsBytes`
(JSON a parameter subject to `JsonLaws Dom`, nothing assumed of `loadsBytes`) and the BOM table of
the repository: for every constructor encoding and every list of public calls that the writer
accepts and whose `dict` arguments lie in `Dom`, the reader — with any positive block size — run on the bytes written yields records and
ends normally; there is one record per call after the main one; their contents are, in order,
`.container` for the main section and `contentOfCall c` for every call `c` (the text written with
its final line ending appended when missing, the dict, the diff bytes with their newline
appended when missing — functions of the call's arguments); their section ids are `#diffx` and
`secIds 1 calls`; and the records are the `expectedRecords` (lines, options) of `C01_run` for some
laws. -/
theorem C01_run_concrete (hjson : JsonLaws Dom dumps loadsText) (chunk : Nat) (hc : 0 < chunk)
    (enc : Name) (calls : List Writer.Call)
    (hok : ∀ r ∈ (Writer.run (Codecs.env dumps loadsText loadsBytes) Codecs.cfg (some enc) t!"1.0" calls).2, r = .ok)
    (hwf : DictArgs calls) (hdom : DictsIn Dom calls)
    (hsize : (Writer.run (Codecs.env dumps loadsText loadsBytes) Codecs.cfg (some enc) t!"1.0" calls).1.out.length
      ≤ Reader.maxRead) :
    ∃ recs, Reader.readAll (Codecs.env dumps loadsText loadsBytes) Codecs.cfg chunk
        (Writer.run (Codecs.env dumps loadsText loadsBytes) Codecs.cfg (some enc) t!"1.0" calls).1.out = (recs, .done) ∧
      recs.length = calls.length + 1 ∧
      recs.map (·.content) = .container :: calls.map contentOfCall ∧
      recs.map (·.sec) = SecId.main :: secIds 1 calls ∧
      ∃ laws : ProgramLaws (Codecs.env dumps loadsText loadsBytes) Codecs.cfg enc calls,
        recs = expectedRecords (Codecs.env dumps loadsText loadsBytes) Codecs.cfg enc calls laws :=
  run_concrete dumps loadsText loadsBytes hjson chunk hc enc calls hok hwf hdom hsize

end Concrete

/-- `contentOfCall` spelled out: no law, no state, no environment -/
theorem C01_contentOfCall_spec :
    (∀ t enc indent le mime,
      contentOfCall (.preamble (.str t) enc indent le mime) = .text (normText t (textDos le t))) ∧
    (∀ j enc fmt, contentOfCall (.metadata (.dict j) enc fmt) = .metadata j) ∧
    (∀ b dtype enc le, contentOfCall (.diff (.bytes b) dtype enc le) = .diff (normBytes b (diffNl enc le b))) ∧
    (∀ enc, contentOfCall (.newChange enc) = .container ∧ contentOfCall (.newFile enc) = .container) :=
  ⟨fun _ _ _ _ _ => rfl, fun _ _ _ => rfl, fun _ _ _ _ => rfl, fun _ => ⟨rfl, rfl⟩⟩

/-- the newline of a diff section spelled out: the BOM-free LF / CRLF of the codec of
`encoding or 'ascii'`; the kind is the declared one, else CRLF exactly when the bytes up to and
including the first LF (as bytes) end with the CRLF -/
theorem C01_diffNl_spec (enc : Option Name) (le : Option Text) (b : Bytes) :
    diffNl enc le b = (diffCodec enc).nl (diffDos (diffCodec enc) le b) ∧
    diffCodec enc = (Codecs.lookup (enc.getD t!"ascii")).getD .ascii ∧
    (∀ l, diffDos (diffCodec enc) (some l) b = (l == t!"dos")) ∧
    diffDos (diffCodec enc) none b =
      (match findSub ((diffCodec enc).nl false) b with
       | some i => endsWith (b.take (i + ((diffCodec enc).nl false).length)) ((diffCodec enc).nl true)
       | none => false) ∧
    (Codecs.Codec.all.map fun c => (c.nl false, c.nl true)) =
      [([10], [13, 10]), ([10], [13, 10]), ([10], [13, 10]), ([10, 0], [13, 0, 10, 0]), ([10, 0], [13, 0, 10, 0]),
       ([0, 10], [0, 13, 0, 10]), ([10, 0, 0, 0], [13, 0, 0, 0, 10, 0, 0, 0]), ([10, 0, 0, 0], [13, 0, 0, 0, 10, 0, 0, 0]),
       ([0, 0, 0, 10], [0, 0, 0, 13, 0, 0, 0, 10]), ([10], [13, 10]), ([10], [13, 10])] :=
  ⟨rfl, rfl, fun _ => rfl, rfl, by decide⟩

/-- `secIds` spelled out -/
theorem C01_secIds_spec (lvl : Nat) (cs : List Writer.Call) :
    secIds lvl [] = [] ∧
    (∀ enc, secIds lvl (.newChange enc :: cs) = ⟨1, .change⟩ :: secIds 2 cs) ∧
    (∀ enc, secIds lvl (.newFile enc :: cs) = ⟨2, .file⟩ :: secIds 3 cs) ∧
    (∀ t enc indent le mime, secIds lvl (.preamble t enc indent le mime :: cs) = ⟨lvl, .preamble⟩ :: secIds lvl cs) ∧
    (∀ m enc fmt, secIds lvl (.metadata m enc fmt :: cs) = ⟨lvl, .metadata⟩ :: secIds lvl cs) ∧
    (∀ b dtype enc le, secIds lvl (.diff b dtype enc le :: cs) = ⟨lvl, .diff⟩ :: secIds lvl cs) :=
  ⟨rfl, fun _ => rfl, fun _ => rfl, fun _ _ _ _ _ => rfl, fun _ _ _ => rfl, fun _ _ _ _ => rfl⟩

/-! ## Non-vacuity: a mock `json` satisfying `JsonLaws`, an eleven-call program -/

/-- a second dict: a non-ASCII value (escaped by `ensure_ascii`), a nested array, sorted keys -/
def j2 : Json := .obj [(t!"a", .str t!"é"), (t!"b", .arr [.null, .bool true])]

/-- what CPython's `json.dumps(…, indent=4, separators=(',', ': '), sort_keys=True)` prints -/
def tk : Text := t!"{\n    \"k\": 1\n}"
def t2 : Text := t!"{\n    \"a\": \"\\u00e9\",\n    \"b\": [\n        null,\n        true\n    ]\n}"

/-- `json.dumps` on the two dicts (raises on everything else) -/
def mockDumps : Json → EnvR Text
  | .obj [([107], .int 1)] => .ok tk
  | .obj [([97], .str [233]), ([98], .arr [.null, .bool true])] => .ok t2
  | _ => .err

/-- `json.loads` on the two documents followed by a newline (raises on everything else) -/
def mockLoads (t : Text) : EnvR Json :=
  if t = tk ++ [10] then .ok jk else if t = t2 ++ [10] then .ok j2 else .err

/-- **the JSON laws hold of the mock**, for every dict (`Dom := fun _ => True`) -/
theorem mockJsonLaws : JsonLaws (fun _ => True) mockDumps mockLoads where
  ascii := by
    intro l text _ h
    unfold mockDumps at h
    split at h
    · cases h; decide
    · cases h; decide
    · cases h
  noCR := by
    intro l text _ h
    unfold mockDumps at h
    split at h
    · cases h; decide
    · cases h; decide
    · cases h
  loads := by
    intro l text _ h
    unfold mockDumps at h
    split at h
    · rename_i heq
      cases h
      cases heq
      rfl
    · rename_i heq
      cases h
      cases heq
      rfl
    · cases h

/-- the concrete environment: the codecs and the mock `json` (`json.loads(bytes)` is never
called by the round trip: it raises) -/
def menv : Env := Codecs.env mockDumps mockLoads (fun _ => .err)

/-- a UTF-16 (BOM) preamble that starts with U+FEFF, indented, CRLF detected on its first line;
metadata under UTF-16 (BOM); a Latin-1 change; a preamble with `line_endings='dos'` declared on
a text that holds no CR; Latin-1 metadata with an escaped non-ASCII value; a UTF-16-BE file with
its metadata; a diff whose CRLF is detected on the bytes; a second file, inheriting Latin-1,
with UTF-8 metadata and a UTF-16 diff with `line_endings='unix'` -/
def mprog : List Writer.Call :=
  [.preamble (.str t!"\uFEFFhéllo 😀\r\nwörld") (some t!"utf-16") (some 2) none (some t!"text/plain"),
   .metadata (.dict jk) (some t!"utf-16") t!"json",
   .newChange (some t!"latin1"),
   .preamble (.str t!"ça\nva") none none (some t!"dos") none,
   .metadata (.dict j2) none t!"json",
   .newFile (some t!"utf-16-be"),
   .metadata (.dict jk) none t!"json",
   .diff (.bytes b!"-a\r\n+b") (some t!"text") none none,
   .newFile none,
   .metadata (.dict jk) (some t!"UTF-8") t!"json",
   .diff (.bytes [45, 0, 120, 0, 10, 0, 43, 0, 121, 0, 10, 0]) none (some t!"utf-16") (some t!"unix")]

set_option maxRecDepth 65536 in
/-- every call is accepted -/
theorem mprog_ok : ∀ r ∈ (Writer.run menv Codecs.cfg (some t!"utf-8") t!"1.0" mprog).2, r = .ok := by decide

set_option maxRecDepth 65536 in
/-- 706 bytes were written -/
theorem mprog_size : (Writer.run menv Codecs.cfg (some t!"utf-8") t!"1.0" mprog).1.out.length = 706 := by decide

theorem mprog_dicts : DictArgs mprog := by decide

/-- the contents written, from the arguments -/
def mcontents : List Reader.Content :=
  [.container,
   .text t!"\uFEFFhéllo 😀\r\nwörld\r\n",
   .metadata jk,
   .container,
   .text t!"ça\nva\r\n",
   .metadata j2,
   .container,
   .metadata jk,
   .diff b!"-a\r\n+b\r\n",
   .container,
   .metadata jk,
   .diff [45, 0, 120, 0, 10, 0, 43, 0, 121, 0, 10, 0]]

/-- the section ids written -/
def msecs : List SecId :=
  [⟨0, .diffx⟩, ⟨1, .preamble⟩, ⟨1, .metadata⟩, ⟨1, .change⟩, ⟨2, .preamble⟩, ⟨2, .metadata⟩, ⟨2, .file⟩,
   ⟨3, .metadata⟩, ⟨3, .diff⟩, ⟨2, .file⟩, ⟨3, .metadata⟩, ⟨3, .diff⟩]

theorem mcontents_eq : .container :: mprog.map contentOfCall = mcontents := rfl
theorem msecs_eq : SecId.main :: secIds 1 mprog = msecs := rfl

/-- **`C01_run_concrete` instantiated** (block size 7): the reader ends normally on the 706 bytes,
with twelve records whose contents and section ids are the explicit lists above. -/
theorem C01_run_concrete_instance :
    ∃ recs, Reader.readAll menv Codecs.cfg 7
        (Writer.run menv Codecs.cfg (some t!"utf-8") t!"1.0" mprog).1.out = (recs, .done) ∧
      recs.length = 12 ∧ recs.map (·.content) = mcontents ∧ recs.map (·.sec) = msecs := by
  have hsz : (Writer.run menv Codecs.cfg (some t!"utf-8") t!"1.0" mprog).1.out.length ≤ Reader.maxRead := by
    rw [mprog_size]
    decide
  have hok := mprog_ok
  unfold menv at hsz hok ⊢
  obtain ⟨recs, h1, h2, h3, h4, -⟩ := C01_run_concrete mockDumps mockLoads (fun _ => .err) mockJsonLaws 7 (by decide)
    t!"utf-8" mprog hok mprog_dicts (dictsIn_true _) hsz
  exact ⟨recs, h1, h2, by rw [h3, mcontents_eq], by rw [h4, msecs_eq]⟩

/-- the two dicts of the instance programs lie in the domain intended for CPython -/
theorem jk_representable : Json.Representable (fun _ => True) jk := by
  simp [jk, Json.Representable, Json.RepresentableItems, Text.increasing, Text.jsonStr, Text.noSurrogatePair]

theorem j2_representable : Json.Representable (fun _ => True) j2 := by
  simp [j2, Json.Representable, Json.RepresentableItems, Json.RepresentableList, Text.increasing, Text.lt,
    Text.jsonStr, Text.noSurrogatePair]

/-- the `dict` arguments of the instance program lie in `Json.Representable` -/
theorem mprog_representable : DictsIn (Json.Representable (fun _ => True)) mprog := by
  refine (dictsIn_iff _ _).mpr ?_
  simp [mprog, dictArgIn, jk_representable, j2_representable]

/-- **`C01_run_concrete` instantiated with the domain intended for CPython**, `Dom :=
Json.Representable` (the laws of the mock restricted to it, `JsonLaws.mono`; the premise
`DictsIn` is `mprog_representable`, no longer trivial) -/
theorem C01_run_concrete_instance_dom :
    ∃ recs, Reader.readAll menv Codecs.cfg 7
        (Writer.run menv Codecs.cfg (some t!"utf-8") t!"1.0" mprog).1.out = (recs, .done) ∧
      recs.length = 12 ∧ recs.map (·.content) = mcontents ∧ recs.map (·.sec) = msecs := by
  have hsz : (Writer.run menv Codecs.cfg (some t!"utf-8") t!"1.0" mprog).1.out.length ≤ Reader.maxRead := by
    rw [mprog_size]
    decide
  have hok := mprog_ok
  unfold menv at hsz hok ⊢
  obtain ⟨recs, h1, h2, h3, h4, -⟩ := C01_run_concrete mockDumps mockLoads (fun _ => .err)
    (mockJsonLaws.mono (Dom' := Json.Representable (fun _ => True)) (fun _ _ => trivial)) 7 (by decide)
    t!"utf-8" mprog hok mprog_dicts mprog_representable hsz
  exact ⟨recs, h1, h2, by rw [h3, mcontents_eq], by rw [h4, msecs_eq]⟩

set_option maxRecDepth 65536 in
/-- … true by evaluation as well -/
example :
    ((Reader.readAll menv Codecs.cfg 7 (Writer.run menv Codecs.cfg (some t!"utf-8") t!"1.0" mprog).1.out).1.map
        (·.content) == mcontents) = true ∧
    (Reader.readAll menv Codecs.cfg 7 (Writer.run menv Codecs.cfg (some t!"utf-8") t!"1.0" mprog).1.out).1.map
        (·.sec) = msecs ∧
    (Reader.readAll menv Codecs.cfg 7 (Writer.run menv Codecs.cfg (some t!"utf-8") t!"1.0" mprog).1.out).2 = .done := by
  decide

/-! ## A second program, under the codecs with a signature and the single-byte code page -/

/-- a UTF-32 (BOM) preamble that starts with U+FEFF, indented, CRLF detected on its first line;
metadata under UTF-8-SIG; a windows-1252 change; a preamble with `line_endings='dos'` declared on a
text without CR whose euro sign, curly quotes and trade mark sign are bytes `0x80–0x9F`; cp1252
metadata; a UTF-32-BE file with its metadata; a diff whose CRLF is detected on the bytes; a second
file, inheriting cp1252, with UTF-8-SIG metadata and a UTF-32 diff whose (eight-byte) CRLF is
detected on the bytes and appended.  (The bytes written, 799, are those `pydiffx` writes.) -/
def mprog2 : List Writer.Call :=
  [.preamble (.str t!"\uFEFFhéllo 😀\r\nwörld") (some t!"utf-32") (some 2) none (some t!"text/plain"),
   .metadata (.dict jk) (some t!"utf-8-sig") t!"json",
   .newChange (some t!"windows-1252"),
   .preamble (.str t!"h€llo “x”\nva™") none none (some t!"dos") none,
   .metadata (.dict j2) none t!"json",
   .newFile (some t!"utf-32-be"),
   .metadata (.dict jk) none t!"json",
   .diff (.bytes b!"-a\r\n+b") (some t!"text") none none,
   .newFile none,
   .metadata (.dict jk) (some t!"UTF-8-SIG") t!"json",
   .diff (.bytes [45, 0, 0, 0, 120, 0, 0, 0, 13, 0, 0, 0, 10, 0, 0, 0, 43, 0, 0, 0, 121, 0, 0, 0]) none
     (some t!"utf32") none]

set_option maxRecDepth 65536 in
theorem mprog2_ok : ∀ r ∈ (Writer.run menv Codecs.cfg (some t!"utf-8") t!"1.0" mprog2).2, r = .ok := by decide

set_option maxRecDepth 65536 in
theorem mprog2_size : (Writer.run menv Codecs.cfg (some t!"utf-8") t!"1.0" mprog2).1.out.length = 799 := by decide

theorem mprog2_dicts : DictArgs mprog2 := by decide

def mcontents2 : List Reader.Content :=
  [.container,
   .text t!"\uFEFFhéllo 😀\r\nwörld\r\n",
   .metadata jk,
   .container,
   .text t!"h€llo “x”\nva™\r\n",
   .metadata j2,
   .container,
   .metadata jk,
   .diff b!"-a\r\n+b\r\n",
   .container,
   .metadata jk,
   .diff [45, 0, 0, 0, 120, 0, 0, 0, 13, 0, 0, 0, 10, 0, 0, 0, 43, 0, 0, 0, 121, 0, 0, 0, 13, 0, 0, 0, 10, 0, 0, 0]]

theorem mcontents2_eq : .container :: mprog2.map contentOfCall = mcontents2 := rfl
theorem msecs2_eq : SecId.main :: secIds 1 mprog2 = msecs := rfl

/-- **`C01_run_concrete` instantiated on the second program** (block size 7) -/
theorem C01_run_concrete_instance2 :
    ∃ recs, Reader.readAll menv Codecs.cfg 7
        (Writer.run menv Codecs.cfg (some t!"utf-8") t!"1.0" mprog2).1.out = (recs, .done) ∧
      recs.length = 12 ∧ recs.map (·.content) = mcontents2 ∧ recs.map (·.sec) = msecs := by
  have hsz : (Writer.run menv Codecs.cfg (some t!"utf-8") t!"1.0" mprog2).1.out.length ≤ Reader.maxRead := by
    rw [mprog2_size]
    decide
  have hok := mprog2_ok
  unfold menv at hsz hok ⊢
  obtain ⟨recs, h1, h2, h3, h4, -⟩ := C01_run_concrete mockDumps mockLoads (fun _ => .err) mockJsonLaws 7 (by decide)
    t!"utf-8" mprog2 hok mprog2_dicts (dictsIn_true _) hsz
  exact ⟨recs, h1, h2, by rw [h3, mcontents2_eq], by rw [h4, msecs2_eq]⟩

set_option maxRecDepth 65536 in
/-- … true by evaluation as well -/
example :
    ((Reader.readAll menv Codecs.cfg 7 (Writer.run menv Codecs.cfg (some t!"utf-8") t!"1.0" mprog2).1.out).1.map
        (·.content) == mcontents2) = true ∧
    (Reader.readAll menv Codecs.cfg 7 (Writer.run menv Codecs.cfg (some t!"utf-8") t!"1.0" mprog2).1.out).1.map
        (·.sec) = msecs ∧
    (Reader.readAll menv Codecs.cfg 7 (Writer.run menv Codecs.cfg (some t!"utf-8") t!"1.0" mprog2).1.out).2 = .done := by
  decide

/-! ## Corners -/

/-- **A diff whose first encoded LF is misaligned.**  The UTF-16-LE bytes of `'\u0d41\u0a00\u0100'`
(no line ending at all) contain `0D 00 0A 00` across code-unit boundaries; `guess_line_endings`
works on bytes: the writer declares `line_endings=dos` and appends a UTF-16 CRLF.  The reader
is told the kind and gives the bytes back, newline appended — as `contentOfCall` says. -/
def misProg : List Writer.Call :=
  [.newChange none, .newFile none, .metadata (.dict jk) none t!"json",
   .diff (.bytes [0x41, 0x0D, 0x00, 0x0A, 0x00, 0x01]) none (some t!"utf-16-le") none]

set_option maxRecDepth 65536 in
theorem C01_diff_misaligned :
    (∀ r ∈ (Writer.run menv Codecs.cfg (some t!"utf-8") t!"1.0" misProg).2, r = .ok) ∧
    misProg.map contentOfCall =
      [.container, .container, .metadata jk, .diff [0x41, 0x0D, 0x00, 0x0A, 0x00, 0x01, 0x0D, 0x00, 0x0A, 0x00]] ∧
    (((Reader.readAll menv Codecs.cfg 7 (Writer.run menv Codecs.cfg (some t!"utf-8") t!"1.0" misProg).1.out).1.map
        (·.content)).drop 1 == misProg.map contentOfCall) = true ∧
    (Reader.readAll menv Codecs.cfg 7 (Writer.run menv Codecs.cfg (some t!"utf-8") t!"1.0" misProg).1.out).2 = .done := by
  refine ⟨by decide, rfl, by decide, by decide⟩

/-- **`JsonLaws.ascii` cannot be dropped.**  With a `dumps` that returned the non-ASCII text
`{"k": "\u0d41\u0a00\u0100"}` unescaped (as `ensure_ascii=False` would), without any CR, and a
`loads` that parses it back: under `utf-16-le` the writer accepts (it guesses `unix` on the
text and appends `0A 00`), the reader guesses on the bytes, finds the misaligned `0D 00 0A 00`,
expects a CRLF at the end and raises `DiffXParseError`. -/
def badDumps : Json → EnvR Text := fun _ => .ok [123, 34, 107, 34, 58, 32, 34, 0x0D41, 0x0A00, 0x0100, 34, 125]
def benv : Env := Codecs.env badDumps (fun _ => .ok jk) (fun _ => .err)

set_option maxRecDepth 65536 in
theorem C01_json_ascii_needed :
    (∀ l text, badDumps (.obj l) = .ok text → 13 ∉ text) ∧
    (∀ l text, badDumps (.obj l) = .ok text → (fun _ => EnvR.ok jk) (normText text false) = EnvR.ok jk) ∧
    (∀ r ∈ (Writer.run benv Codecs.cfg (some t!"utf-8") t!"1.0" [.metadata (.dict jk) (some t!"utf-16-le") t!"json"]).2,
      r = .ok) ∧
    (Reader.readAll benv Codecs.cfg 7
      (Writer.run benv Codecs.cfg (some t!"utf-8") t!"1.0" [.metadata (.dict jk) (some t!"utf-16-le") t!"json"]).1.out).2 =
      .parseError 2 none := by
  refine ⟨?_, fun _ _ _ => rfl, by decide, by decide⟩
  intro l text h
  cases h
  decide

/-- **`DictArgs` is about the model's typing.**  `.dict (.int 1)` is not a Python `dict`; the model
writer accepts it, and the reader rejects the `1` that `json.loads` gives back. -/
def denv : Env := Codecs.env (fun _ => .ok t!"1") (fun _ => .ok (.int 1)) (fun _ => .err)

set_option maxRecDepth 65536 in
theorem C01_dict_arg_artefact :
    (∀ r ∈ (Writer.run denv Codecs.cfg (some t!"utf-8") t!"1.0" [.metadata (.dict (.int 1)) none t!"json"]).2, r = .ok) ∧
    (Reader.readAll denv Codecs.cfg 7
      (Writer.run denv Codecs.cfg (some t!"utf-8") t!"1.0" [.metadata (.dict (.int 1)) none t!"json"]).1.out).2 =
      .parseError 1 none ∧
    ¬ DictArgs [.metadata (.dict (.int 1)) none t!"json"] := by
  refine ⟨by decide, by decide, by decide⟩

end Diffx.C01
