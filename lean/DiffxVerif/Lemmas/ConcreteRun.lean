import DiffxVerif.Lemmas.Faithful
import DiffxVerif.Lemmas.CodecProofs
import DiffxVerif.Model.JsonDom
/-!
# The whole-run round trip for the concrete codecs: laws derived from acceptance

Core Lean only.  Support for `Properties/C01Concrete.lean`.

`Lemmas/RunRoundTrip.lean` proves the whole-run round trip under `ProgramLaws` (pointwise laws
about the environment), `Lemmas/Faithful.lean` identifies the contents under
`ProgramFaithfulFrom`.  Here the environment is `Codecs.env dumps loadsText loadsBytes` (the
executable codecs of `Model/Codecs.lean`, JSON still a parameter) and every one of these laws is
*derived from the fact that the writer accepted the program*:

* `JsonLaws Dom`: the only hypothesis left about the environment (three facts about `json.dumps` /
  `json.loads`, assumed for the dicts of a domain `Dom` only; for CPython `Dom` is
  `Json.Representable`, Model/JsonDom.lean);
* `DictsIn Dom calls`: the `dict` arguments of the program lie in that domain;
* `lookup_of_encode`: a name the environment encodes with resolves through `Codecs.lookup`;
* `Codec.nl_facts`: the encoded newlines of the codecs;
* `textLaws_of_prepared`: `TextLaws` from an accepted `_prepare_content` on a `str`;
* `encChars_no13`, `guess_unix`: ASCII text without CR has no byte 13 in any of the
  encodings, hence `guess_line_endings` on the encoded bytes says "unix" (metadata sections carry
  no `line_endings` option);
* `diff_prepared`: the newline of a diff section, computed from the codec (`diffNl`);
* `callLaws_exist`, `programLaws_exist`: the laws of a call / of a program, from acceptance;
* `callFaithful_any`, `written_eq_any`, `expectedFrom_secs`: the contents and section ids of the
  expected records as functions of the calls' arguments only (`contentOfCall`, `secIds`);
* `run_concrete`: the theorem.
-/
namespace Diffx

/-- **What is assumed of `json`** — the only hypothesis about the environment that the concrete
whole-run theorem keeps.  All three fields speak about the text `dumps` returns for a *dict*
(`Json.obj`), the only values `DiffXWriter.add_meta` dumps, **and only for the dicts in `Dom`**:
nothing is assumed about a dict outside `Dom`.  The model's `Json` is plain data and holds values
of which the laws are false for CPython, or which present no Python dict at all: a string in which
a lone high surrogate is directly followed by a lone low surrogate is dumped as `\uXXXX\uXXXX` and
loaded back as *one* astral character; an item list with duplicate or unsorted keys is no dict as
the harness presents one.  For CPython's
`json.dumps(obj, indent=4, separators=(',', ': '), sort_keys=True)` / `json.loads` the domain is
`Dom := Json.Representable isRepr` (Model/JsonDom.lean: keys strictly increasing, no surrogate
pair in a string, float lexemes the `repr` of a float); on it:

* `ascii`: `ensure_ascii` is left at its default `True`, every non-ASCII code point of a key or
  string value is written as a `\uXXXX` escape; the structural characters, digits, `true`,
  `false`, `null`, `NaN`, `Infinity` are ASCII.
* `noCR`: the only line breaks `dumps` emits are the `'\n'` of the `indent=4` layout; a CR
  inside a key or string value is written as the two characters `\r` (control characters are
  always escaped).
* `loads`: `json.loads` ignores trailing whitespace, and the document `dumps` produced for a dict
  (string keys, JSON values) parses back to an equal dict.  The text is given to `loads` with the
  final `'\n'` the writer appends (`normText text false` is `text ++ "\n"` unless the text already
  ends with `'\n'`; CPython's output for a dict ends with `'}'`).  Equality is that of the model's
  `Json` (a dict is its list of items): with `sort_keys=True` it holds because the harness
  presents a dict by its items in sorted key order (`Dom`), Python's `==` on dicts being
  order-blind.

Nothing is assumed of `loadsBytes`, nor of `dumps` / `loads` on other values.  The theorems that
take `JsonLaws Dom …` ask that the dicts of the program / tree lie in `Dom` (`DictsIn`,
`TreeDictsIn`). -/
structure JsonLaws (Dom : Json → Prop) (dumps : Json → EnvR Text) (loadsText : Text → EnvR Json) : Prop where
  ascii : ∀ l text, Dom (.obj l) → dumps (.obj l) = .ok text → ∀ ch ∈ text, ch < 128
  noCR : ∀ l text, Dom (.obj l) → dumps (.obj l) = .ok text → 13 ∉ text
  loads : ∀ l text, Dom (.obj l) → dumps (.obj l) = .ok text → loadsText (normText text false) = .ok (.obj l)

/-- the smaller the domain, the weaker the hypothesis -/
theorem JsonLaws.mono {Dom Dom' : Json → Prop} {dumps : Json → EnvR Text} {loadsText : Text → EnvR Json}
    (hsub : ∀ j, Dom' j → Dom j) (h : JsonLaws Dom dumps loadsText) : JsonLaws Dom' dumps loadsText :=
  ⟨fun l t hd => h.ascii l t (hsub _ hd), fun l t hd => h.noCR l t (hsub _ hd),
   fun l t hd => h.loads l t (hsub _ hd)⟩

end Diffx

namespace Diffx.Codecs
open Diffx Diffx.Writer Diffx.RunRT

/-- `'ascii'`, the codec of the newline of a diff section without `encoding` -/
abbrev asciiName : Name := Text.ofAscii b!"ascii"

/-! ## names and newlines of the concrete environment -/

section Env
variable {Dom : Json → Prop} (dj : Json → EnvR Text) (lt : Text → EnvR Json) (lb : Bytes → EnvR Json)

/-- a name the environment encodes with resolves through `lookup` (an unknown name raises
`LookupError`) -/
theorem lookup_of_encode (e : Name) (t : Text) (b : Bytes) (h : (env dj lt lb).encode e t = .ok b) :
    ∃ c, lookup e = some c := by
  cases hc : lookup e with
  | some c => exact ⟨c, rfl⟩
  | none =>
    simp only [env, hc] at h
    cases h

/-- the encoded newlines of the codecs: `'\n'` / `'\r\n'` encode to the BOM followed by
`c.nl dos`; `strip_bom` removes exactly the BOM, and leaves a BOM-free newline alone (the writer
strips the newline of a diff section twice); the byte 13 occurs in the CRLF only -/
theorem Codec.nl_facts (c : Codec) (dos : Bool) :
    c.encode (nlText dos) = some (c.bom ++ c.nl dos) ∧ c.strip (c.bom ++ c.nl dos) = c.nl dos ∧
    c.strip (c.nl dos) = c.nl dos ∧ c.nl dos ≠ [] := by
  cases c <;> cases dos <;> decide

theorem Codec.nl_13 (c : Codec) : (13 : UInt8) ∉ c.nl false ∧ (13 : UInt8) ∈ c.nl true ∧ (13 : UInt8) ∉ c.bom := by
  cases c <;> decide

theorem nl_ite (c : Codec) (dos : Bool) : (if dos = true then c.nl true else c.nl false) = c.nl dos := by
  cases dos <;> rfl

theorem env_encode_nl (e : Name) (c : Codec) (he : lookup e = some c) (dos : Bool) :
    (env dj lt lb).encode e (nlText dos) = .ok (c.bom ++ c.nl dos) := by
  rw [env_encode dj lt lb e c he, (c.nl_facts dos).1]
  rfl

theorem lookup_ascii : lookup asciiName = some .ascii := by decide

/-! ## text sections: `TextLaws` from an accepted `_prepare_content` -/

/-- an accepted `_prepare_content` on a `str`: the effective encoding is one of the codecs, and the
un-indented preparation succeeds with the same `line_endings` value -/
theorem prepared_str (st : St) (t : Text) (indent : Option Int) (le : Option Text) (enc : Option Name)
    (data : Bytes) (leOut : Text)
    (hp : prepareContent (env dj lt lb) cfg st (.str t) indent le enc true = .ok (data, leOut)) :
    ∃ (eb : Bytes) (c : Codec) (plain : Bytes), lookup (Text.ofAscii eb) = some c ∧
      (if truthy enc then enc else st.curEncoding) = some (Text.ofAscii eb) ∧
      prepareContent (env dj lt lb) cfg st (.str t) none le enc true = .ok (plain, leOut) ∧
      (indent = none → data = plain) := by
  obtain ⟨nl, d, h1, h2⟩ := (prepareContent_ok_iff ..).mp hp
  obtain ⟨-, hd⟩ := prepCore_ok _ _ _ _ _ _ _ _ _ _ h1
  unfold PreparedData at hd
  dsimp only at hd
  obtain ⟨e, he, hde⟩ := hd
  rw [eff_inherit] at he
  obtain ⟨c, hc⟩ := lookup_of_encode dj lt lb e t d hde
  obtain ⟨eb, rfl⟩ : ∃ eb, e = Text.ofAscii eb := ⟨e.toAscii, (lookup_nameOk e c hc).ascii⟩
  refine ⟨eb, c, if endsWith d nl = true then d else d ++ nl, hc, he,
    (prepareContent_ok_iff ..).mpr ⟨nl, d, h1, rfl⟩, ?_⟩
  intro hi
  subst hi
  rw [prepFinish_none] at h2
  exact (Except.ok.inj h2).symm

/-- **`TextLaws` from acceptance** (the data fields are those of `TextLaws.ofFaithful`) -/
def textLawsOf (st : St) (t : Text) (le : Option Text) (enc : Option Name) (leOut : Text) (eb : Bytes) (c : Codec)
    (hc : lookup (Text.ofAscii eb) = some c)
    (heff : (if truthy enc then enc else st.curEncoding) = some (Text.ofAscii eb)) (plain : Bytes)
    (hplain : prepareContent (env dj lt lb) cfg st (.str t) none le enc true = .ok (plain, leOut)) :
    TextLaws (env dj lt lb) cfg st t le enc leOut :=
  TextLaws.ofFaithful _ _ st t le enc leOut eb heff (faithful dj lt lb _ c hc) (newlines dj lt lb _ c hc) plain hplain

/-! ## ASCII text without CR: no byte 13 in any of the encodings -/

theorem Codec.encChar_ascii (c : Codec) (ch : Nat) (h : ch < 128) (b : Bytes) (hb : c.encChar ch = some b) :
    ∀ x ∈ b, x = 0 ∨ x = ch.toUInt8 := by
  have h16 : ∀ be, utf16Char be ch = some b → ∀ x ∈ b, x = 0 ∨ x = ch.toUInt8 := by
    intro be hb x hx
    rcases utf16Char_cases be ch b hb with ⟨_, _, rfl⟩ | ⟨h1, _, _⟩
    · rw [unit16_eq] at hx
      have e0 : ch / 256 = 0 := by omega
      have e1 : ch % 256 = ch := by omega
      cases be
      · simp only [Bool.false_eq_true, if_false, e0, e1, List.mem_cons, List.not_mem_nil, or_false] at hx
        rcases hx with rfl | rfl
        · exact .inr rfl
        · exact .inl rfl
      · simp only [if_true, e0, e1, List.mem_cons, List.not_mem_nil, or_false] at hx
        rcases hx with rfl | rfl
        · exact .inl rfl
        · exact .inr rfl
    · omega
  have h32 : ∀ be, utf32Char be ch = some b → ∀ x ∈ b, x = 0 ∨ x = ch.toUInt8 := by
    intro be hb x hx
    obtain ⟨_, _, rfl⟩ := utf32Char_cases be ch b hb
    have e0 : ch % 256 = ch := by omega
    have e1 : ch / 256 % 256 = 0 := by omega
    have e2 : ch / 65536 % 256 = 0 := by omega
    have e3 : ch / 16777216 = 0 := by omega
    cases be
    · simp only [unit32, Bool.false_eq_true, if_false, e0, e1, e2, e3, List.mem_cons, List.not_mem_nil, or_false] at hx
      rcases hx with rfl | rfl | rfl | rfl
      · exact .inr rfl
      · exact .inl rfl
      · exact .inl rfl
      · exact .inl rfl
    · simp only [unit32, if_true, e0, e1, e2, e3, List.mem_cons, List.not_mem_nil, or_false] at hx
      rcases hx with rfl | rfl | rfl | rfl
      · exact .inl rfl
      · exact .inl rfl
      · exact .inl rfl
      · exact .inr rfl
  cases c
  · intro x hx
    obtain ⟨_, rfl⟩ := asciiChar_cases ch b hb
    simp only [List.mem_cons, List.not_mem_nil, or_false] at hx
    exact .inr hx
  · intro x hx
    obtain ⟨_, rfl⟩ := latin1Char_cases ch b hb
    simp only [List.mem_cons, List.not_mem_nil, or_false] at hx
    exact .inr hx
  · intro x hx
    rcases utf8Char_cases ch b hb with ⟨_, rfl⟩ | ⟨h1, _, _⟩ | ⟨h1, _, _, _⟩ | ⟨h1, _, _⟩
    · simp only [List.mem_cons, List.not_mem_nil, or_false] at hx
      exact .inr hx
    · omega
    · omega
    · omega
  · exact h16 false hb
  · exact h16 false hb
  · exact h16 true hb
  · exact h32 false hb
  · exact h32 false hb
  · exact h32 true hb
  · intro x hx
    rcases utf8Char_cases ch b hb with ⟨_, rfl⟩ | ⟨h1, _, _⟩ | ⟨h1, _, _, _⟩ | ⟨h1, _, _⟩
    · simp only [List.mem_cons, List.not_mem_nil, or_false] at hx
      exact .inr hx
    · omega
    · omega
    · omega
  · intro x hx
    rcases cp1252Char_cases ch b hb with ⟨_, rfl⟩ | ⟨p, hp, rfl, _⟩
    · simp only [List.mem_cons, List.not_mem_nil, or_false] at hx
      exact .inr hx
    · have := (cp1252Table_rows p hp).2.2.2
      omega

theorem encChars_no13 (c : Codec) (t : Text) (a : Bytes) (h : encChars c.encChar t = some a)
    (hasc : ∀ ch ∈ t, ch < 128) (h13 : 13 ∉ t) : (13 : UInt8) ∉ a := by
  induction t generalizing a with
  | nil =>
    cases h
    simp
  | cons ch cs ih =>
    obtain ⟨b, r, h1, h2, rfl⟩ := encChars_cons_inv _ ch cs a h
    intro hm
    rcases List.mem_append.mp hm with hm | hm
    · have hch := hasc ch List.mem_cons_self
      rcases c.encChar_ascii ch hch b h1 13 hm with h0 | h0
      · exact absurd h0 (by decide)
      · have := congrArg UInt8.toNat h0
        rw [byte_toNat ch (by omega)] at this
        apply h13
        rw [← this]
        exact List.mem_cons_self
    · exact ih r h2 (fun x hx => hasc x (List.mem_cons_of_mem _ hx))
        (fun hx => h13 (List.mem_cons_of_mem _ hx)) hm

/-- `guess_line_endings` on a `str` without CR says "unix" -/
theorem guessText_noCR (t : Text) (h13 : 13 ∉ t) : (guessText t).1 = false := by
  unfold guessText
  split
  · rename_i i _
    split
    · rename_i he
      exfalso
      apply h13
      have hs : [13, 10] <:+ t.take (i + 1) := (endsWith_iff _ _).mp he
      exact List.mem_of_mem_take (hs.subset (by simp))
    · rfl
  · rfl

/-- **`guess_line_endings` on bytes without the byte 13 says "unix"**, whatever the codec: the
CRLF of each of the codecs contains the byte 13 -/
theorem guess_unix (e : Name) (c : Codec) (he : lookup e = some c) (ln : Nat) (plain : Bytes)
    (h13 : (13 : UInt8) ∉ plain) :
    Reader.guessLineEndings (env dj lt lb) cfg ln plain (some e) = .ok (false, c.nl false) := by
  have hnf : ∀ dos, Reader.newlineFor (env dj lt lb) cfg ln dos (some e) = .ok (c.nl dos) := by
    intro dos
    unfold Reader.newlineFor
    simp only [Option.getD_some, env_encode_nl dj lt lb e c he dos, Reader.liftEnv, bind, Except.bind,
      stripBom_env dj lt lb e c he, (c.nl_facts dos).2.1]
  unfold Reader.guessLineEndings
  simp only [hnf, bind, Except.bind]
  split
  · rename_i i _
    have : endsWith (plain.take (i + (c.nl false).length)) (c.nl true) = false := by
      cases hh : endsWith (plain.take (i + (c.nl false).length)) (c.nl true) with
      | false => rfl
      | true =>
        exfalso
        apply h13
        have hs := (endsWith_iff _ _).mp hh
        exact List.mem_of_mem_take (hs.subset c.nl_13.2.1)
    rw [this]
    rfl
  · rfl

theorem mem_normBytes (x : UInt8) (d nl : Bytes) (h : x ∈ normBytes d nl) : x ∈ d ∨ x ∈ nl := by
  unfold normBytes at h
  split at h
  · exact .inl h
  · exact List.mem_append.mp h

/-- the encoding of an ASCII text without CR, final LF appended when missing, holds no byte 13 -/
theorem plain_no13 (e : Name) (c : Codec) (he : lookup e = some c) (t : Text) (d : Bytes)
    (hd : (env dj lt lb).encode e t = .ok d) (hasc : ∀ ch ∈ t, ch < 128) (h13 : 13 ∉ t) :
    (13 : UInt8) ∉ normBytes d (c.nl false) := by
  obtain ⟨a, ha, rfl⟩ := (env_encode_ok dj lt lb e c he t d).mp hd
  intro hm
  rcases mem_normBytes _ _ _ hm with hm | hm
  · rcases List.mem_append.mp hm with hm | hm
    · exact c.nl_13.2.2 hm
    · exact encChars_no13 c t a ha hasc h13 hm
  · exact c.nl_13.1 hm

/-! ## diff sections: the newline, computed from the codec -/

/-- the codec of the newline of a diff section: its own `encoding`, else `'ascii'` -/
def diffCodec (enc : Option Name) : Codec := (lookup (enc.getD asciiName)).getD .ascii

/-- the line-ending kind of a diff section: the declared one, else the one detected on the bytes
with the codec's BOM-free LF / CRLF (`guess_line_endings(content, encoding)`: the CRLF when the
bytes up to and including the first LF end with it) -/
def diffDos (c : Codec) (le : Option Text) (b : Bytes) : Bool :=
  match le with
  | some l => l == Text.ofAscii b!"dos"
  | none =>
    match findSub (c.nl false) b with
    | some i => endsWith (b.take (i + (c.nl false).length)) (c.nl true)
    | none => false

/-- the newline of a diff section -/
def diffNl (enc : Option Name) (le : Option Text) (b : Bytes) : Bytes :=
  (diffCodec enc).nl (diffDos (diffCodec enc) le b)

/-- **what `_prepare_content` uses for a diff** (`PreparedWith`, with the concrete codecs): the codec
of `encoding or 'ascii'` exists, the kind is `diffDos`, the newline is the codec's BOM-free newline
of that kind — although the writer strips the BOM twice when it guesses, and strips the BOM
registered for `None` (none) when there is no `encoding` -/
theorem diff_prepared (st : St) (b : Bytes) (le : Option Text) (enc : Option Name) (he : EncOk enc)
    (nl : Bytes) (leOut : Text)
    (hw : PreparedWith (env dj lt lb) cfg st (.bytes b) le enc false nl leOut) :
    ∃ c, lookup (enc.getD asciiName) = some c ∧ leOut = leKind (diffDos c le b) ∧
      nl = c.nl (diffDos c le b) := by
  unfold PreparedWith at hw
  dsimp only at hw
  simp only [Bool.and_false, Bool.false_eq_true, if_false] at hw
  have hnlEnc : (if truthy enc = true then enc.getD [] else Text.ofAscii b!"ascii") = enc.getD asciiName := by
    cases enc with
    | none => rfl
    | some n => simp [(he n rfl).truthy]
  rw [hnlEnc] at hw
  obtain ⟨dos, h1, h5, h3⟩ := hw
  -- `strip_bom(x, encoding)` with the section's own encoding, on the two shapes that occur
  have hstrip : ∀ c, lookup (enc.getD asciiName) = some c → ∀ x nl', (x = c.nl dos ∨ x = c.bom ++ c.nl dos) →
      stripBom (env dj lt lb) cfg x enc = .ok nl' → nl' = c.nl dos := by
    intro c hc x nl' hx hs
    cases enc with
    | none =>
      have hca : c = .ascii := by
        have := hc
        rw [show (none : Option Name).getD asciiName = asciiName from rfl, lookup_ascii] at this
        exact (Option.some.inj this).symm
      subst hca
      have : stripBom (env dj lt lb) cfg x none = .ok x := rfl
      rw [this] at hs
      rcases hx with rfl | rfl
      · exact (EnvR.ok.inj hs).symm
      · exact (EnvR.ok.inj hs).symm
    | some n =>
      have hc' : lookup n = some c := hc
      rw [stripBom_env dj lt lb n c hc'] at hs
      rcases hx with rfl | rfl
      · rw [(c.nl_facts dos).2.2.1] at hs
        exact (EnvR.ok.inj hs).symm
      · rw [(c.nl_facts dos).2.1] at hs
        exact (EnvR.ok.inj hs).symm
  cases le with
  | none =>
    dsimp only at h3
    obtain ⟨rawU, rawD, u, d, a1, a2, a3, a4, a5, a6⟩ := h3
    obtain ⟨c, hc⟩ := lookup_of_encode dj lt lb _ _ _ a1
    have a1' : (env dj lt lb).encode (enc.getD asciiName) (nlText false) = .ok rawU := a1
    have a3' : (env dj lt lb).encode (enc.getD asciiName) (nlText true) = .ok rawD := a3
    rw [env_encode_nl dj lt lb _ c hc] at a1' a3'
    cases a1'
    cases a3'
    rw [stripBom_env dj lt lb _ c hc, (c.nl_facts false).2.1] at a2
    rw [stripBom_env dj lt lb _ c hc, (c.nl_facts true).2.1] at a4
    cases a2
    cases a4
    have hd : dos = diffDos c none b := a5
    rw [nl_ite] at a6
    have hnl := hstrip c hc _ _ (.inl rfl) a6
    exact ⟨c, hc, by rw [← hd]; exact h1, by rw [← hd]; exact hnl⟩
  | some l =>
    dsimp only at h3
    obtain ⟨raw, a1, a2⟩ := h3
    obtain ⟨c, hc⟩ := lookup_of_encode dj lt lb _ _ _ a1
    rw [env_encode_nl dj lt lb _ c hc] at a1
    cases a1
    have hd : dos = diffDos c (some l) b := by
      show dos = (l == Text.ofAscii b!"dos")
      rw [h5 l rfl, h1, leKind_beq_dos]
    have hnl := hstrip c hc _ _ (.inr rfl) a2
    exact ⟨c, hc, by rw [← hd]; exact h1, by rw [← hd]; exact hnl⟩

theorem encOk_henc (enc : Option Name) (he : EncOk enc) : enc = (enc.map Text.toAscii).map Text.ofAscii := by
  cases enc with
  | none => rfl
  | some n => simp only [Option.map_some]; rw [← (he n rfl).ascii]

/-! ## the laws of a call, from acceptance -/

/-- `Arg.dict j` stands for a Python `dict`: `j` is a JSON object.  (The type `Arg` allows
`.dict (.int 1)`; the model writer would dump it and the reader reject what `json.loads` gives back.
No Python program can pass such an argument as a `dict`.) -/
def dictArgOk : Call → Bool
  | .metadata (.dict j) _ _ => j.isObj
  | _ => true

/-- every `dict` argument of the program is a JSON object (decidable: `by decide` on a closed program) -/
def DictArgs (calls : List Call) : Prop := ∀ c ∈ calls, dictArgOk c = true

instance (calls : List Call) : Decidable (DictArgs calls) := by
  unfold DictArgs
  infer_instance

theorem isObj_inv (j : Json) (h : j.isObj = true) : ∃ l, j = .obj l := by
  cases j <;> first | exact ⟨_, rfl⟩ | cases h

/-- the `dict` argument of a call, if it has one, lies in `Dom` -/
def dictArgIn (Dom : Json → Prop) : Call → Prop
  | .metadata (.dict j) _ _ => Dom j
  | _ => True

/-- every `dict` argument of the program lies in the domain on which the laws of `json` are assumed -/
def DictsIn (Dom : Json → Prop) (calls : List Call) : Prop :=
  ∀ j enc fmt, Call.metadata (.dict j) enc fmt ∈ calls → Dom j

theorem dictsIn_iff (Dom : Json → Prop) (calls : List Call) :
    DictsIn Dom calls ↔ ∀ c ∈ calls, dictArgIn Dom c := by
  constructor
  · intro h c hc
    cases c with
    | metadata m enc fmt =>
      cases m with
      | dict j => exact h j enc fmt hc
      | str _ => trivial
      | bytes _ => trivial
      | other => trivial
    | newChange _ => trivial
    | newFile _ => trivial
    | preamble _ _ _ _ _ => trivial
    | diff _ _ _ _ => trivial
  · intro h j enc fmt hm
    exact h _ hm

theorem dictsIn_nil (Dom : Json → Prop) : DictsIn Dom [] := fun _ _ _ h => nomatch h

theorem DictsIn.head {Dom : Json → Prop} {c : Call} {cs : List Call} (h : DictsIn Dom (c :: cs)) :
    dictArgIn Dom c := (dictsIn_iff Dom _).mp h c List.mem_cons_self

theorem DictsIn.tail {Dom : Json → Prop} {c : Call} {cs : List Call} (h : DictsIn Dom (c :: cs)) :
    DictsIn Dom cs := fun j enc fmt hm => h j enc fmt (List.mem_cons_of_mem _ hm)

theorem dictsIn_append {Dom : Json → Prop} (xs ys : List Call) (hx : DictsIn Dom xs) (hy : DictsIn Dom ys) :
    DictsIn Dom (xs ++ ys) := by
  intro j enc fmt hm
  rcases List.mem_append.mp hm with h | h
  · exact hx j enc fmt h
  · exact hy j enc fmt h

theorem DictsIn.left {Dom : Json → Prop} {xs ys : List Call} (h : DictsIn Dom (xs ++ ys)) : DictsIn Dom xs :=
  fun j enc fmt hm => h j enc fmt (List.mem_append_left _ hm)

theorem DictsIn.right {Dom : Json → Prop} {xs ys : List Call} (h : DictsIn Dom (xs ++ ys)) : DictsIn Dom ys :=
  fun j enc fmt hm => h j enc fmt (List.mem_append_right _ hm)

/-- a larger domain asks less of the program -/
theorem DictsIn.mono {Dom Dom' : Json → Prop} (hsub : ∀ j, Dom j → Dom' j) {calls : List Call}
    (h : DictsIn Dom calls) : DictsIn Dom' calls := fun j enc fmt hm => hsub j (h j enc fmt hm)

/-- the trivial domain (laws assumed of every dict) asks nothing of the program -/
theorem dictsIn_true (calls : List Call) : DictsIn (fun _ => True) calls := fun _ _ _ _ => trivial

/-- **The laws of one call hold as soon as the call is accepted** (and what it wrote fits
`fp.read`, and a `dict` argument is a JSON object): `CallLaws` of `Lemmas/RunRoundTrip.lean`,
with no hypothesis left about the codecs. -/
theorem callLaws_exist (hjson : JsonLaws Dom dj lt) (st : St) (c : Call)
    (hok : (step (env dj lt lb) cfg st c).2 = .ok)
    (hwf : dictArgOk c = true) (hdom : dictArgIn Dom c)
    (hsz : (step (env dj lt lb) cfg st c).1.out.length ≤ Reader.maxRead) :
    Nonempty (CallLaws (env dj lt lb) cfg st c) := by
  have hencOk : EncOk (callEncoding c) :=
    fun n hn => (nameOk_iff_not_refused n).2 (step_ok_enc _ _ st c n hn hok)
  obtain ⟨b, stk, hpre, hv, hpl, hstep⟩ := step_ok_inv _ _ st c hok
  rw [hstep] at hsz
  simp only [List.length_append] at hsz
  cases c with
  | newChange enc => exact ⟨PLift.up hencOk⟩
  | newFile enc => exact ⟨PLift.up hencOk⟩
  | preamble text enc indent le mime =>
    cases text with
    | str t =>
      obtain ⟨data, leOut, header, hprep, hr, rfl, rfl⟩ :=
        contentPayload_inv _ _ st .preamble (.str t) le enc indent true true _ b stk hpl
      obtain ⟨eb, c, plain, hc, heff, hplain, -⟩ := prepared_str dj lt lb st t indent le enc data leOut hprep
      simp only [List.length_append] at hsz
      exact ⟨({ encOk := hencOk,
                indentOk := by
                  intro i hi
                  subst hi
                  exact step_preamble_ok_indent_nonneg _ _ st _ enc i le mime hok,
                data := data, leOut := leOut, hprep := hprep, hlen := by omega,
                text := textLawsOf dj lt lb st t le enc leOut eb c hc heff plain hplain } :
              PreambleLaws (env dj lt lb) cfg st t enc indent le)⟩
    | bytes _ => exact ⟨PUnit.unit⟩
    | dict _ => exact ⟨PUnit.unit⟩
    | other => exact ⟨PUnit.unit⟩
  | metadata m enc fmt =>
    cases m with
    | dict j =>
      obtain ⟨l, rfl⟩ := isObj_inv j hwf
      have hdom : Dom (.obj l) := hdom
      simp only [payload] at hpl
      split at hpl
      · rename_i text hdl
        have hd : dj (.obj l) = .ok text := liftEnv_ok _ _ hdl
        obtain ⟨data, leOut, header, hprep, hr, rfl, rfl⟩ :=
          contentPayload_inv _ _ st .metadata (.str text) none enc none false true _ b stk hpl
        obtain ⟨eb, c, plain, hc, heff, hplain, hdp⟩ := prepared_str dj lt lb st text none none enc data leOut hprep
        obtain rfl := hdp rfl
        simp only [List.length_append] at hsz
        have hasc := hjson.ascii l text hdom hd
        have h13 := hjson.noCR l text hdom hd
        have hdos : textDos none text = false := guessText_noCR text h13
        obtain ⟨-, ⟨d, hde, hpd⟩, -, -⟩ := ofFaithful_facts (env dj lt lb) cfg st text none enc leOut _ heff
          (faithful dj lt lb _ c hc) (newlines dj lt lb _ c hc) data hplain
        rw [hdos, nlBytes_eq dj lt lb _ c hc] at hpd
        have h13p : (13 : UInt8) ∉ data := by
          rw [hpd]
          exact plain_no13 dj lt lb _ c hc text d hde hasc h13
        exact ⟨({ encOk := hencOk, text := text, hdumps := hd, leOut := leOut,
                  tl := textLawsOf dj lt lb st text none enc leOut eb c hc heff data hplain,
                  hlen := by
                    show data.length ≤ Reader.maxRead
                    omega,
                  hguess := by
                    intro ln
                    show Reader.guessLineEndings _ _ ln data (some (Text.ofAscii eb)) =
                      .ok (textDos none text, nlBytes _ _ (Text.ofAscii eb) (textDos none text))
                    rw [hdos, nlBytes_eq dj lt lb _ c hc]
                    exact guess_unix dj lt lb _ c hc ln data h13p,
                  parsed := .obj l,
                  hloads := by
                    show lt (normText text (textDos none text)) = .ok (.obj l)
                    rw [hdos]
                    exact hjson.loads l text hdom hd,
                  hobj := rfl } : MetaLaws (env dj lt lb) cfg st (.obj l) enc)⟩
      · cases hpl
    | str _ => exact ⟨PUnit.unit⟩
    | bytes _ => exact ⟨PUnit.unit⟩
    | other => exact ⟨PUnit.unit⟩
  | diff content dtype enc le =>
    cases content with
    | bytes d =>
      obtain ⟨data, leOut, header, hprep, hr, rfl, rfl⟩ :=
        contentPayload_inv _ _ st .diff (.bytes d) le enc none true false _ b stk hpl
      obtain ⟨nl, d', h1, -⟩ := (prepareContent_ok_iff ..).mp hprep
      obtain ⟨hw, -⟩ := prepCore_ok _ _ _ _ _ _ _ _ _ _ h1
      obtain ⟨c, hc, hle, rfl⟩ := diff_prepared dj lt lb st d le enc hencOk nl leOut hw
      simp only [List.length_append] at hsz
      exact ⟨({ encOk := hencOk, data := data, leOut := leOut, hprep := hprep, hlen := by omega,
                dl := { encName := enc.map Text.toAscii, henc := encOk_henc enc hencOk,
                        dos := diffDos c le d, hle := hle, nl := c.nl (diffDos c le d), hw := hw,
                        rawR := c.bom ++ c.nl (diffDos c le d),
                        hencR := env_encode_nl dj lt lb _ c hc _,
                        hbomR := by rw [stripBom_env dj lt lb _ c hc, (c.nl_facts _).2.1],
                        hne := (c.nl_facts _).2.2.2 } } :
              DiffCallLaws (env dj lt lb) cfg st d enc le)⟩
    | str _ => exact ⟨PUnit.unit⟩
    | dict _ => exact ⟨PUnit.unit⟩
    | other => exact ⟨PUnit.unit⟩

/-- **The laws of a program hold as soon as every call is accepted.** -/
theorem programLaws_exist (hjson : JsonLaws Dom dj lt) : ∀ (cs : List Call) (st : St),
    AllOk (env dj lt lb) cfg st cs → DictArgs cs → DictsIn Dom cs →
    (runFrom (env dj lt lb) cfg st cs).out.length ≤ Reader.maxRead →
    Nonempty (ProgramLawsFrom (env dj lt lb) cfg st cs)
  | [], _, _, _, _, _ => ⟨PUnit.unit⟩
  | c :: cs, st, hok, hwf, hdom, hsz => by
    have hpre : (step (env dj lt lb) cfg st c).1.out <+: (runFrom (env dj lt lb) cfg st (c :: cs)).out :=
      runFrom_prefix _ _ _ cs
    obtain ⟨L⟩ := callLaws_exist dj lt lb hjson st c hok.1
      (hwf c List.mem_cons_self) hdom.head (Nat.le_trans hpre.length_le hsz)
    obtain ⟨Ls⟩ := programLaws_exist hjson cs _ hok.2 (fun c' h => hwf c' (List.mem_cons_of_mem _ h)) hdom.tail hsz
    exact ⟨(L, Ls)⟩

/-! ## contents and section ids as functions of the calls' arguments -/

/-- **the content a reader must return for a call — a function of the call's arguments only**:
the text with its final line ending (declared, or detected on its first line) appended when
missing; the dict; the diff bytes with the section's newline (`diffNl`: of the codec
`encoding or 'ascii'`, of the declared kind or the kind detected on the bytes) appended when
missing.  No law, no writer state, no environment. -/
def contentOfCall : Call → Reader.Content
  | .preamble (.str t) _ _ le _ => .text (normText t (textDos le t))
  | .metadata (.dict j) _ _ => .metadata j
  | .diff (.bytes b) _ enc le => .diff (normBytes b (diffNl enc le b))
  | _ => .container

/-- **the section ids a program writes**, from the nesting level `lvl` on (1 after the
constructor): `new_change` opens level 2, `new_file` level 3, a content section has the dots of
the level it is written at -/
def secIds : Nat → List Call → List SecId
  | _, [] => []
  | _, .newChange _ :: cs => ⟨1, .change⟩ :: secIds 2 cs
  | _, .newFile _ :: cs => ⟨2, .file⟩ :: secIds 3 cs
  | lvl, .preamble .. :: cs => ⟨lvl, .preamble⟩ :: secIds lvl cs
  | lvl, .metadata .. :: cs => ⟨lvl, .metadata⟩ :: secIds lvl cs
  | lvl, .diff .. :: cs => ⟨lvl, .diff⟩ :: secIds lvl cs

/-- whatever laws are given for a call of the concrete environment, they are faithful -/
theorem callFaithful_any (hjson : JsonLaws Dom dj lt) (st : St) (c : Call)
    (hwf : dictArgOk c = true) (hdom : dictArgIn Dom c)
    (L : CallLaws (env dj lt lb) cfg st c) : CallFaithful (env dj lt lb) cfg st c L := by
  cases c with
  | newChange enc => trivial
  | newFile enc => trivial
  | preamble text enc indent le mime =>
    cases text with
    | str t =>
      show CodecFaithful _ _ (Text.ofAscii (PreambleLaws.text L).encName)
      obtain ⟨c, hc⟩ := lookup_of_encode dj lt lb _ _ _ (PreambleLaws.text L).henc
      exact faithful dj lt lb _ c hc
    | bytes _ => trivial
    | dict _ => trivial
    | other => trivial
  | metadata m enc fmt =>
    cases m with
    | dict j =>
      obtain ⟨l, rfl⟩ := isObj_inv j hwf
      have hdom : Dom (.obj l) := hdom
      show CodecFaithful _ _ (Text.ofAscii (MetaLaws.tl L).encName) ∧
        lt (normText (MetaLaws.text L) (guessText (MetaLaws.text L)).1) = .ok (.obj l)
      have hd : dj (.obj l) = .ok (MetaLaws.text L) := MetaLaws.hdumps L
      refine ⟨?_, ?_⟩
      · obtain ⟨c, hc⟩ := lookup_of_encode dj lt lb _ _ _ (MetaLaws.tl L).henc
        exact faithful dj lt lb _ c hc
      · rw [guessText_noCR _ (hjson.noCR l _ hdom hd)]
        exact hjson.loads l _ hdom hd
    | str _ => trivial
    | bytes _ => trivial
    | other => trivial
  | diff content dtype enc le =>
    cases content <;> trivial

theorem programFaithful_any (hjson : JsonLaws Dom dj lt) : ∀ (cs : List Call) (st : St), DictArgs cs →
    DictsIn Dom cs →
    ∀ Ls : ProgramLawsFrom (env dj lt lb) cfg st cs, ProgramFaithfulFrom (env dj lt lb) cfg st cs Ls
  | [], _, _, _, _ => trivial
  | c :: cs, st, hwf, hdom, (L, Ls) =>
    ⟨callFaithful_any dj lt lb hjson st c (hwf c List.mem_cons_self) hdom.head L,
     programFaithful_any hjson cs _ (fun c' h => hwf c' (List.mem_cons_of_mem _ h)) hdom.tail Ls⟩

/-- whatever laws are given for a call of the concrete environment, `writtenContent` is
`contentOfCall` (for a diff: the newline of the laws is `diffNl`) -/
theorem written_eq_any (st : St) (c : Call) (L : CallLaws (env dj lt lb) cfg st c) :
    writtenContent (env dj lt lb) cfg st c L = contentOfCall c := by
  cases c with
  | newChange enc => rfl
  | newFile enc => rfl
  | preamble text enc indent le mime => cases text <;> rfl
  | metadata m enc fmt => cases m <;> rfl
  | diff content dtype enc le =>
    cases content with
    | bytes b =>
      show Reader.Content.diff (normBytes b (DiffCallLaws.dl L).nl) = .diff (normBytes b (diffNl enc le b))
      obtain ⟨c, hc, -, hnl⟩ := diff_prepared dj lt lb st b le enc (DiffCallLaws.encOk L) _ _ (DiffCallLaws.dl L).hw
      rw [hnl]
      unfold diffNl diffCodec
      rw [hc]
      rfl
    | str _ => rfl
    | dict _ => rfl
    | other => rfl

theorem writtenFrom_eq : ∀ (cs : List Call) (st : St) (Ls : ProgramLawsFrom (env dj lt lb) cfg st cs),
    writtenFrom (env dj lt lb) cfg st cs Ls = cs.map contentOfCall
  | [], _, _ => rfl
  | c :: cs, st, (L, Ls) => by
    simp only [writtenFrom, List.map_cons]
    rw [written_eq_any, writtenFrom_eq cs]

end Env

/-- the section ids of the expected records (any environment) -/
theorem expectedFrom_secs (env : Env) (cfg : Config) : ∀ (cs : List Call) (st : St) (line : Nat)
    (Ls : ProgramLawsFrom env cfg st cs), AllOk env cfg st cs → LevelInv st →
    (expectedFrom env cfg st line cs Ls).map (·.sec) = secIds st.level cs
  | [], _, _, _, _, _ => rfl
  | c :: cs, st, line, (L, Ls), hok, hinv => by
    obtain ⟨b, stk, hpre, hv, hpl, hstep⟩ := step_ok_inv env cfg st c hok.1
    have hinv' := step_levelInv env cfg st c hinv
    have ih := expectedFrom_secs env cfg cs (step env cfg st c).1 (line + (expectedOne env cfg st line c L).2) Ls
      hok.2 hinv'
    simp only [expectedFrom, List.map_cons, ih]
    have hstk := (payload_ok env cfg st c b stk hpl).2
    have hlvl : (step env cfg st c).1.level = stk.length - 1 := by rw [hstep]; rfl
    obtain ⟨p, hp, hl⟩ := hinv
    have hm := (validate_ok_iff _ _).1 hv p hp
    rw [hlvl, hstk]
    cases c with
    | newChange enc =>
      have : (newStack st (.newChange enc)).length - 1 = 2 := by
        simp only [newStack, pushFrame_length]
        omega
      rw [this]
      rfl
    | newFile enc =>
      have := file_mem_validNext p hm
      have : (newStack st (.newFile enc)).length - 1 = 3 := by
        simp only [newStack, pushFrame_length]
        omega
      rw [this]
      rfl
    | preamble text enc indent le mime =>
      cases text with
      | str t => rfl
      | bytes _ => simp [pre] at hpre
      | dict _ => simp [pre] at hpre
      | other => simp [pre] at hpre
    | metadata m enc fmt =>
      cases m with
      | dict j => rfl
      | str _ => simp [pre] at hpre
      | bytes _ => simp [pre] at hpre
      | other => simp [pre] at hpre
    | diff content dtype enc le =>
      cases content with
      | bytes d => rfl
      | str _ => simp [pre] at hpre
      | dict _ => simp [pre] at hpre
      | other => simp [pre] at hpre

theorem expectedFrom_length (env : Env) (cfg : Config) : ∀ (cs : List Call) (st : St) (line : Nat)
    (Ls : ProgramLawsFrom env cfg st cs), (expectedFrom env cfg st line cs Ls).length = cs.length
  | [], _, _, _ => rfl
  | c :: cs, st, line, (L, Ls) => by
    simp only [expectedFrom, List.length_cons, expectedFrom_length env cfg cs]

section Env
variable {Dom : Json → Prop} (dj : Json → EnvR Text) (lt : Text → EnvR Json) (lb : Bytes → EnvR Json)

/-! ## whole programs -/

/-- **The laws of a program, and their faithfulness, from acceptance.**  For the environment made
of the codecs of `Model/Codecs.lean`: whenever the constructor and every call were accepted, what was written fits
`fp.read`, and `dict` arguments are JSON objects of the domain `Dom`, `ProgramLaws` holds and is
faithful (`ProgramFaithfulFrom`) — under `JsonLaws Dom` only. -/
theorem laws_of_accepted (hjson : JsonLaws Dom dj lt) (enc : Name) (calls : List Call)
    (hok : ∀ r ∈ (run (env dj lt lb) cfg (some enc) (Text.ofAscii b!"1.0") calls).2, r = .ok)
    (hwf : DictArgs calls) (hdom : DictsIn Dom calls)
    (hsize : (run (env dj lt lb) cfg (some enc) (Text.ofAscii b!"1.0") calls).1.out.length ≤ Reader.maxRead) :
    ∃ laws : ProgramLaws (env dj lt lb) cfg enc calls,
      ProgramFaithfulFrom (env dj lt lb) cfg (init (some enc) (Text.ofAscii b!"1.0")).1 calls laws.calls := by
  obtain ⟨hinit, hall, hrun⟩ := run_ok _ _ (some enc) (Text.ofAscii b!"1.0") calls hok
  rw [hrun] at hsize
  obtain ⟨Ls⟩ := programLaws_exist dj lt lb hjson calls _ hall hwf hdom hsize
  exact ⟨⟨(nameOk_iff_not_refused enc).2 (init_ok_enc enc _ hinit), Ls⟩,
    programFaithful_any dj lt lb hjson calls _ hwf hdom Ls⟩

/-- **The whole-run round trip for the concrete codecs, no hypothesis about codecs.** -/
theorem run_concrete (hjson : JsonLaws Dom dj lt) (chunk : Nat) (hc : 0 < chunk) (enc : Name) (calls : List Call)
    (hok : ∀ r ∈ (run (env dj lt lb) cfg (some enc) (Text.ofAscii b!"1.0") calls).2, r = .ok)
    (hwf : DictArgs calls) (hdom : DictsIn Dom calls)
    (hsize : (run (env dj lt lb) cfg (some enc) (Text.ofAscii b!"1.0") calls).1.out.length ≤ Reader.maxRead) :
    ∃ recs, Reader.readAll (env dj lt lb) cfg chunk
        (run (env dj lt lb) cfg (some enc) (Text.ofAscii b!"1.0") calls).1.out = (recs, .done) ∧
      recs.length = calls.length + 1 ∧
      recs.map (·.content) = .container :: calls.map contentOfCall ∧
      recs.map (·.sec) = SecId.main :: secIds 1 calls ∧
      ∃ laws : ProgramLaws (env dj lt lb) cfg enc calls, recs = expectedRecords (env dj lt lb) cfg enc calls laws := by
  obtain ⟨laws, F⟩ := laws_of_accepted dj lt lb hjson enc calls hok hwf hdom hsize
  obtain ⟨hinit, hall, -⟩ := run_ok _ _ (some enc) (Text.ofAscii b!"1.0") calls hok
  refine ⟨expectedRecords (env dj lt lb) cfg enc calls laws, run_roundtrip _ _ chunk hc enc calls hok laws, ?_, ?_, ?_,
    laws, rfl⟩
  · simp only [expectedRecords, List.length_cons, expectedFrom_length]
  · rw [expectedRecords_content _ _ enc calls laws F, writtenFrom_eq]
  · have hinv := init_levelInv (some enc) (Text.ofAscii b!"1.0") hinit
    have hl : (init (some enc) (Text.ofAscii b!"1.0")).1.level = 1 := by
      obtain ⟨header, -, hi⟩ := init_ok_inv enc hinit
      rw [hi]
      rfl
    unfold expectedRecords
    rw [List.map_cons, expectedFrom_secs _ _ calls _ 1 laws.calls hall hinv, hl]
    rfl

end Env

end Diffx.Codecs
