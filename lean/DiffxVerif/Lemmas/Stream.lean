import DiffxVerif.Model.Reader
/-!
# Lemmas about the chunked read-ahead `readUntil` and chunk independence

Core Lean only.  `readUntilGo_spec` is the generalisation over accumulator and
fuel; the three theorems used by `Properties/C17.lean` follow.
-/
namespace Diffx.Reader
open Diffx

/-! ## `findSub [c]` -/

theorem findSub_single_nil (c : UInt8) : findSub [c] ([] : Bytes) = none := rfl

theorem findSub_single_cons (c b : UInt8) (r : Bytes) :
    findSub [c] (b :: r) = if c = b then some 0 else (findSub [c] r).map (· + 1) := by
  by_cases h : c = b <;> simp [findSub, List.isPrefixOf, h]

theorem findSub_single_lt (c : UInt8) (l : Bytes) (i : Nat) (h : findSub [c] l = some i) :
    i < l.length := by
  induction l generalizing i with
  | nil => simp [findSub_single_nil] at h
  | cons b r ih =>
    rw [findSub_single_cons] at h
    by_cases hcb : c = b
    · simp [hcb] at h; subst h; simp
    · simp only [hcb, if_false] at h
      cases hr : findSub [c] r with
      | none => simp [hr] at h
      | some j =>
        simp [hr] at h
        have := ih j hr
        subst h; simp; omega

theorem findSub_single_append_some (c : UInt8) (a b : Bytes) (i : Nat)
    (h : findSub [c] a = some i) : findSub [c] (a ++ b) = some i := by
  induction a generalizing i with
  | nil => simp [findSub_single_nil] at h
  | cons x r ih =>
    rw [findSub_single_cons] at h
    rw [List.cons_append, findSub_single_cons]
    by_cases hcb : c = x
    · simpa [hcb] using h
    · simp only [hcb, if_false] at h ⊢
      cases hr : findSub [c] r with
      | none => simp [hr] at h
      | some j =>
        simp [hr] at h
        rw [ih j hr]; simp [h]

theorem findSub_single_append_none (c : UInt8) (a b : Bytes)
    (h : findSub [c] a = none) :
    findSub [c] (a ++ b) = (findSub [c] b).map (· + a.length) := by
  induction a with
  | nil => simp
  | cons x r ih =>
    rw [findSub_single_cons] at h
    rw [List.cons_append, findSub_single_cons]
    by_cases hcb : c = x
    · simp [hcb] at h
    · simp only [hcb, if_false] at h ⊢
      have hr : findSub [c] r = none := by simpa using h
      rw [ih hr]
      cases findSub [c] b <;> simp; omega

/-! ## `readUntilGo` -/

/-- the result of `readUntilGo` with enough fuel, in terms of `findSub` on the whole suffix -/
theorem readUntilGo_spec (chunk : Nat) (hc : 0 < chunk) (c : UInt8) (fuel : Nat) (acc rest : Bytes)
    (hf : rest.length < fuel) :
    readUntilGo chunk c fuel acc rest =
      match findSub [c] rest with
      | some i => (acc ++ rest.take (i + 1), false, rest.drop (i + 1))
      | none => (acc ++ rest, true, []) := by
  induction fuel generalizing acc rest with
  | zero => omega
  | succ fuel ih =>
    rw [readUntilGo]
    by_cases hemp : (rest.take chunk).isEmpty = true
    · have hrest : rest = [] := by
        cases rest with
        | nil => rfl
        | cons x r =>
          cases chunk with
          | zero => omega
          | succ k => simp at hemp
      subst hrest
      simp [findSub_single_nil]
    · simp only [hemp, if_false, Bool.false_eq_true]
      have hsplit : rest.take chunk ++ rest.drop chunk = rest := List.take_append_drop _ _
      have hne : rest ≠ [] := by
        intro h; subst h; simp at hemp
      have hlen : (rest.drop chunk).length < fuel := by
        have : 0 < rest.length := List.length_pos_iff.mpr hne
        simp only [List.length_drop]; omega
      cases hch : findSub [c] (rest.take chunk) with
      | some i =>
        have hi := findSub_single_lt c _ i hch
        have hfull := findSub_single_append_some c _ (rest.drop chunk) i hch
        rw [hsplit] at hfull
        simp only [hfull]
        have hi' : i + 1 ≤ chunk := by
          simp only [List.length_take] at hi; omega
        rw [List.take_take, Nat.min_eq_left hi']
      | none =>
        have hfull := findSub_single_append_none c _ (rest.drop chunk) hch
        rw [hsplit] at hfull
        simp only []
        rw [ih _ _ hlen, hfull]
        cases hd : findSub [c] (rest.drop chunk) with
        | none =>
          simp only [Option.map_none, List.append_assoc, hsplit]
        | some j =>
          simp only [Option.map_some, List.append_assoc]
          have hj := findSub_single_lt c _ j hd
          have hcl : (rest.take chunk).length = chunk := by
            simp only [List.length_drop] at hj
            simp only [List.length_take]; omega
          rw [hcl]
          have e1 : rest.take chunk ++ (rest.drop chunk).take (j + 1) = rest.take (j + chunk + 1) := by
            rw [show j + chunk + 1 = chunk + (j + 1) by omega]
            exact (List.take_add (l := rest) (i := chunk) (j := j + 1)).symm
          have e2 : (rest.drop chunk).drop (j + 1) = rest.drop (j + chunk + 1) := by
            rw [List.drop_drop]; congr 1; omega
          rw [e1, e2]

theorem readUntil_eq_spec (chunk : Nat) (hc : 0 < chunk) (c : UInt8) (rest : Bytes) :
    readUntil chunk c rest = readLineSpec c rest := by
  unfold readUntil readLineSpec
  rw [readUntilGo_spec chunk hc c _ _ _ (Nat.lt_succ_self _)]
  cases findSub [c] rest <;> simp

theorem readUntil_append (chunk : Nat) (hc : 0 < chunk) (c : UInt8) (rest : Bytes) :
    (readUntil chunk c rest).1 ++ (readUntil chunk c rest).2.2 = rest := by
  rw [readUntil_eq_spec chunk hc]
  unfold readLineSpec
  cases findSub [c] rest <;> simp

/-! ## chunk independence of the whole reader -/

theorem nextLine_chunk_independent (c₁ c₂ : Nat) (h₁ : 0 < c₁) (h₂ : 0 < c₂) (fuel : Nat)
    (rest : Bytes) : nextLine c₁ fuel rest = nextLine c₂ fuel rest := by
  induction fuel generalizing rest with
  | zero => rfl
  | succ fuel ih =>
    simp only [nextLine, readUntil_eq_spec c₁ h₁, readUntil_eq_spec c₂ h₂, ih]

theorem readHeader_chunk_independent (c₁ c₂ : Nat) (h₁ : 0 < c₁) (h₂ : 0 < c₂) :
    readHeader c₁ = readHeader c₂ := by
  funext valid st
  simp only [readHeader, nextLine_chunk_independent c₁ c₂ h₁ h₂]

theorem stepSection_chunk_independent (env : Env) (cfg : Config) (c₁ c₂ : Nat) (h₁ : 0 < c₁)
    (h₂ : 0 < c₂) : stepSection env cfg c₁ = stepSection env cfg c₂ := by
  funext l
  simp only [stepSection, readHeader_chunk_independent c₁ c₂ h₁ h₂]

theorem readLoop_chunk_independent (env : Env) (cfg : Config) (c₁ c₂ : Nat) (h₁ : 0 < c₁)
    (h₂ : 0 < c₂) (fuel : Nat) (l : Loop) :
    readLoop env cfg c₁ fuel l = readLoop env cfg c₂ fuel l := by
  induction fuel generalizing l with
  | zero => rfl
  | succ fuel ih =>
    simp only [readLoop, stepSection_chunk_independent env cfg c₁ c₂ h₁ h₂, ih]

theorem readAll_chunk_independent (env : Env) (cfg : Config) (c₁ c₂ : Nat) (h₁ : 0 < c₁) (h₂ : 0 < c₂)
    (data : Bytes) : readAll env cfg c₁ data = readAll env cfg c₂ data := by
  simp only [readAll, readLoop_chunk_independent env cfg c₁ c₂ h₁ h₂]

end Diffx.Reader
