import DiffxVerif.Lemmas.RunRoundTrip
import DiffxVerif.Lemmas.Dom
/-!
# The object-model round trip for whole trees: tree → bytes → tree

Core Lean only.  Support for `Properties/C05Tree.lean`.

* `stepCalls`, `secCalls`, `fileCalls`, `changeCalls`, `treeCalls`: the call list `toCalls` yields,
  re-stated by recursion over the tree (`toCalls_treeCalls`);
* `lawsLeft`, `lawsRight`, `linesFrom`, `expectedFrom_append`, `allOk_append`: `ProgramLawsFrom` /
  `expectedFrom` / `AllOk` split along `++` (the laws are indexed by the writer state, which is
  threaded with `runFrom`);
* `contentOpts_recOpts`, `preamble_loaded_opts`, `meta_loaded_opts`, `diff_loaded_opts`,
  `container_loaded_opts`: what `_set_content_options` / `_set_container_options` store for the
  options reported for a rendered header, as explicit lists (`preambleOpts`, `metaOpts`,
  `diffOpts`, `optStr`);
* `expContent`, `expSec`, `expFile`, `expFiles`, `expChange`, `expChanges`, `expTree`,
  `expectedTree`: **the normalised tree**, by recursion over the tree (no `Reader.*`,
  `Dom.fromBytes`, `Dom.loadRecord`);
* `load_content_record`, `load_step`, the six slot lemmas, `load_file` … `load_tree`: the loader
  (`foldlM loadRecord`) on the expected records builds the expected tree;
* `TreeOk`, `tree_roundtrip_core`, `tree_roundtrip`: the theorem about `fromBytes ∘ toBytes`;
* readable corollaries (`expSec_skip`, `expChanges_shape`, `expChanges_get`, …);
* C06: `ReCallLaws`, `ReLawsFrom`, `ReLaws` (laws about re-preparing normalised content),
  `stepEff`, `goSt`, `restep_call`, `refile` … `retree`, `tree_fixed_core`, `tree_fixed_point`:
  re-serialising the normalised tree gives the same bytes.
-/
namespace Diffx.DomRT
open Diffx Diffx.Dom
open Diffx.RunRT (NameOk EncOk ProgramLaws ProgramLawsFrom CallLaws PreambleLaws MetaLaws DiffCallLaws
  expectedOne expectedFrom expectedRecords recOpts mainOpts AllOk runFrom)

/-! ## the calls of a tree, structurally -/

/-- the writer call a step of the DOM writer's walk makes (none when the section is skipped
or could not be prepared) -/
def stepCalls : Step → List Writer.Call
  | .ok (some c) => [c]
  | _ => []

/-- the call for a content section, if it is written -/
abbrev secCalls (di : Nat) (c : ContentSec) : List Writer.Call := stepCalls (contentCall di c)

def fileCalls (di : Nat) (f : FileSec) : List Writer.Call :=
  stepCalls (containerCall Writer.Call.newFile f.opts) ++ (secCalls di f.metaSec ++ secCalls di f.diff)

def filesCalls (di : Nat) : List FileSec → List Writer.Call
  | [] => []
  | f :: fs => fileCalls di f ++ filesCalls di fs

def changeCalls (di : Nat) (c : ChangeSec) : List Writer.Call :=
  stepCalls (containerCall Writer.Call.newChange c.opts) ++
    (secCalls di c.preamble ++ (secCalls di c.metaSec ++ filesCalls di c.files))

def changesCalls (di : Nat) : List ChangeSec → List Writer.Call
  | [] => []
  | c :: cs => changeCalls di c ++ changesCalls di cs

/-- **the calls `write_stream` makes for a tree**, by recursion over the tree -/
def treeCalls (di : Nat) (t : Tree) : List Writer.Call :=
  secCalls di t.preamble ++ (secCalls di t.metaSec ++ changesCalls di t.changes)

theorem mapM_id_calls (ss : List Step) (ocs : List (Option Writer.Call)) (h : ss.mapM id = .ok ocs) :
    ocs.filterMap id = ss.flatMap stepCalls := by
  induction ss generalizing ocs with
  | nil =>
    simp only [List.mapM_nil, pure, Except.pure] at h
    injection h with h; subst h; rfl
  | cons s rest ih =>
    rw [List.mapM_cons] at h
    obtain ⟨oc, h1, h2⟩ := bind_ok h
    obtain ⟨ocs', h3, h4⟩ := bind_ok h2
    simp only [pure, Except.pure] at h4
    injection h4 with h4; subst h4
    have h1' : s = .ok oc := h1
    subst h1'
    rw [List.flatMap_cons, ← ih ocs' h3]
    cases oc <;> rfl

theorem filesCalls_eq (di : Nat) (fs : List FileSec) :
    (fs.flatMap (fileSteps di)).flatMap stepCalls = filesCalls di fs := by
  induction fs with
  | nil => rfl
  | cons f fs ih =>
    rw [List.flatMap_cons, List.flatMap_append, ih]
    simp [filesCalls, fileCalls, fileSteps, List.flatMap_cons]

theorem changesCalls_eq (di : Nat) (cs : List ChangeSec) :
    (cs.flatMap (changeSteps di)).flatMap stepCalls = changesCalls di cs := by
  induction cs with
  | nil => rfl
  | cons c cs ih =>
    rw [List.flatMap_cons, List.flatMap_append, ih]
    simp [changesCalls, changeCalls, changeSteps, List.flatMap_cons, filesCalls_eq]

theorem steps_calls (di : Nat) (t : Tree) : (steps di t).flatMap stepCalls = treeCalls di t := by
  simp [steps, treeCalls, List.flatMap_cons, changesCalls_eq]

/-- `toCalls` yields the constructor arguments and the structural call list -/
theorem toCalls_treeCalls (di : Nat) (t : Tree) (wv : Text) (e : Option Name) (v : Text)
    (cs : List Writer.Call) (h : toCalls di t wv = .ok (e, v, cs)) :
    ctorArgs t wv = .ok (e, v) ∧ cs = treeCalls di t := by
  unfold toCalls at h
  obtain ⟨⟨e', v'⟩, h1, h2⟩ := bind_ok h
  obtain ⟨ocs, h3, h4⟩ := bind_ok h2
  simp only [pure, Except.pure] at h4
  injection h4 with h4
  simp only [Prod.mk.injEq] at h4
  obtain ⟨rfl, rfl, rfl⟩ := h4
  exact ⟨h1, by rw [mapM_id_calls _ _ h3, steps_calls]⟩

/-! ## splitting the laws of a program along `++` -/

section Split
variable (env : Env) (cfg : Config)

def lawsLeft : (st : Writer.St) → (xs ys : List Writer.Call) →
    ProgramLawsFrom env cfg st (xs ++ ys) → ProgramLawsFrom env cfg st xs
  | _, [], _, _ => PUnit.unit
  | st, c :: xs, ys, (L, Ls) => (L, lawsLeft (Writer.step env cfg st c).1 xs ys Ls)

def lawsRight : (st : Writer.St) → (xs ys : List Writer.Call) →
    ProgramLawsFrom env cfg st (xs ++ ys) → ProgramLawsFrom env cfg (runFrom env cfg st xs) ys
  | _, [], _, L => L
  | st, c :: xs, ys, (_, Ls) => lawsRight (Writer.step env cfg st c).1 xs ys Ls

/-- the reader's line counter after the sections of `cs` -/
def linesFrom : (st : Writer.St) → Nat → (cs : List Writer.Call) → ProgramLawsFrom env cfg st cs → Nat
  | _, line, [], _ => line
  | st, line, c :: cs, (L, Ls) =>
    linesFrom (Writer.step env cfg st c).1 (line + (expectedOne env cfg st line c L).2) cs Ls

theorem expectedFrom_append (xs ys : List Writer.Call) : ∀ (st : Writer.St) (line : Nat)
    (L : ProgramLawsFrom env cfg st (xs ++ ys)),
    expectedFrom env cfg st line (xs ++ ys) L =
      expectedFrom env cfg st line xs (lawsLeft env cfg st xs ys L) ++
        expectedFrom env cfg (runFrom env cfg st xs) (linesFrom env cfg st line xs (lawsLeft env cfg st xs ys L))
          ys (lawsRight env cfg st xs ys L) := by
  induction xs with
  | nil => intro st line L; rfl
  | cons c xs ih =>
    intro st line L
    obtain ⟨L1, Ls⟩ := L
    exact congrArg (_ :: ·) (ih (Writer.step env cfg st c).1 _ Ls)

theorem allOk_append (xs ys : List Writer.Call) : ∀ (st : Writer.St),
    AllOk env cfg st (xs ++ ys) ↔ AllOk env cfg st xs ∧ AllOk env cfg (runFrom env cfg st xs) ys := by
  induction xs with
  | nil => intro st; exact ⟨fun h => ⟨trivial, h⟩, fun h => h.2⟩
  | cons c xs ih =>
    intro st
    show (_ ∧ AllOk env cfg _ (xs ++ ys)) ↔ (_ ∧ _) ∧ _
    rw [ih]
    exact ⟨fun h => ⟨⟨h.1, h.2.1⟩, h.2.2⟩, fun h => ⟨h.1.1, h.1.2, h.2⟩⟩

theorem runFrom_append (xs ys : List Writer.Call) (st : Writer.St) :
    runFrom env cfg st (xs ++ ys) = runFrom env cfg (runFrom env cfg st xs) ys := by
  unfold runFrom
  rw [List.foldl_append]

end Split

/-! ## the options the loader stores for a rendered header -/

section Opts
open Diffx.Writer Diffx.Header

/-- `reported` on pairs with pairwise distinct keys: the pairs in order, values converted -/
theorem reported_nodup (pairs : List (Bytes × Bytes)) (acc : Opts)
    (hd : (pairs.map (·.1)).Nodup) (hdis : ∀ k ∈ pairs.map (·.1), k ∉ acc.map (·.1)) :
    pairs.foldl (fun o p => o.set p.1 (convert p.2)) acc = acc ++ pairs.map (fun p => (p.1, convert p.2)) := by
  induction pairs generalizing acc with
  | nil => simp
  | cons p ps ih =>
    rw [List.map_cons, List.nodup_cons] at hd
    have hp : acc.any (·.1 == p.1) = false := by
      rw [List.any_eq_false]
      intro x hx
      have := hdis p.1 (by simp)
      intro he
      exact this (List.mem_map.mpr ⟨x, hx, by simpa using he⟩)
    rw [List.foldl_cons, ih _ hd.2]
    · simp [Opts.set, hp]
    · intro k hk hm
      simp only [Opts.set, hp, Bool.false_eq_true, if_false, List.map_append, List.map_cons, List.map_nil,
        List.mem_append, List.mem_singleton] at hm
      rcases hm with hm | rfl
      · exact hdis k (by simp [List.mem_map] at hk ⊢; exact Or.inr hk) hm
      · exact hd.1 hk

/-- the Python value the loader stores for a header option value the writer rendered -/
def pyOf (v : HVal) : PyVal := optToPy (convert v.text.toAscii)

/-- `_set_content_options` on the options reported for a rendered header: the options that are
not `None`, in key order, without `length` -/
theorem contentOpts_recOpts (opts : List (Bytes × Option HVal)) (hnd : (opts.map (·.1)).Nodup) :
    Dom.contentOpts (recOpts opts) =
      ((sortOpts (presentOpts opts)).filter (fun p => p.1 != b!"length")).map (fun p => (p.1, pyOf p.2)) := by
  have h := reported_nodup (C02.writtenPairs opts) [] (writtenPairs_keys_nodup opts hnd) (by simp)
  unfold recOpts Spec.reported
  rw [h, writtenPairs_eq]
  simp only [List.nil_append, List.map_map, Dom.contentOpts, optsToPy, List.filter_map]
  rfl

theorem pyOf_enc (n : Name) (h : NameOk n) : pyOf (.str n) = .str n := by
  show optToPy (convert n.toAscii) = _
  rw [h.str]
  show PyVal.str (Text.ofAscii n.toAscii) = _
  rw [← h.ascii]

theorem pyOf_int (i : Int) (h0 : 0 ≤ i) (hb : i.toNat ≤ Reader.maxRead) : pyOf (.int i) = .int i := by
  show optToPy (convert (HVal.int i).text.toAscii) = _
  rw [RunRT.convert_int i h0 hb]; rfl

theorem pyOf_le (dos : Bool) : pyOf (.str (leKind dos)) = .str (leKind dos) := by
  cases dos <;> rfl

theorem pyOf_mime (m : Text) (h : m ∈ mimetypes) : pyOf (.str m) = .str m := by
  simp only [mimetypes, List.mem_cons, List.not_mem_nil, or_false] at h
  rcases h with rfl | rfl <;> rfl

theorem pyOf_dtype (m : Text) (h : m ∈ diffTypes) : pyOf (.str m) = .str m := by
  simp only [diffTypes, List.mem_cons, List.not_mem_nil, or_false] at h
  rcases h with rfl | rfl <;> rfl

theorem pyOf_json : pyOf (.str (Text.ofAscii b!"json")) = .str (Text.ofAscii b!"json") := rfl

/-- an optional `str` option -/
def optStr (k : Bytes) : Option Text → DOpts
  | some t => [(k, .str t)]
  | none => []

/-- **the options of a loaded preamble**: `encoding` and `mimetype` if given, the `indent` used
(`None` recorded when the text was not indented), the detected `line_endings` -/
def preambleOpts (enc : Option Name) (indent : Option Int) (le : Text) (mime : Option Text) : DOpts :=
  optStr b!"encoding" enc ++ (match indent with | some i => [(b!"indent", PyVal.int i)] | none => []) ++
    [(b!"line_endings", .str le)] ++ optStr b!"mimetype" mime ++
    (match indent with | some _ => [] | none => [(b!"indent", PyVal.none)])

/-- **the options of a loaded metadata section**: `encoding` if given, the `format` -/
def metaOpts (enc : Option Name) (fmt : Text) : DOpts :=
  optStr b!"encoding" enc ++ [(b!"format", .str fmt)]

/-- **the options of a loaded diff**: `encoding` and `type` if given, the detected `line_endings` -/
def diffOpts (enc : Option Name) (le : Text) (ty : Option Text) : DOpts :=
  optStr b!"encoding" enc ++ [(b!"line_endings", .str le)] ++ optStr b!"type" ty

/-- `options.setdefault('indent', None)` -/
def setdefaultIndent (o : DOpts) : DOpts :=
  if (o.get b!"indent").isSome then o else o ++ [(b!"indent", .none)]

theorem preamble_loaded_opts (enc : Option Name) (indent : Option Int) (len : Nat) (dos : Bool)
    (mime : Option Text) (he : EncOk enc)
    (hi : ∀ i, indent = some i → 0 ≤ i ∧ i.toNat ≤ Reader.maxRead)
    (hm : ∀ m, mime = some m → m ∈ mimetypes) :
    setdefaultIndent (Dom.contentOpts (recOpts
      (RunRT.contentOpts [(b!"mimetype", mime.map HVal.str)] enc indent len true (leKind dos)))) =
      preambleOpts enc indent (leKind dos) mime := by
  rw [contentOpts_recOpts (RunRT.contentOpts [(b!"mimetype", mime.map HVal.str)] enc indent len true (leKind dos))
    (show ([b!"mimetype", b!"encoding", b!"indent", b!"length", b!"line_endings"] : List Bytes).Nodup by decide)]
  have hE : ∀ n, enc = some n → pyOf (.str n) = .str n := fun n h => pyOf_enc n (he n h)
  have hI : ∀ i, indent = some i → pyOf (.int i) = .int i := fun i h => pyOf_int i (hi i h).1 (hi i h).2
  have hM : ∀ m, mime = some m → pyOf (.str m) = .str m := fun m h => pyOf_mime m (hm m h)
  cases enc <;> cases indent <;> cases mime <;>
    simp (config := {decide := true}) [presentOpts, RunRT.contentOpts, sortOpts, insertOpt, setdefaultIndent,
      preambleOpts, optStr, DOpts.get, List.lookup, pyOf_le, hE, hI, hM]

theorem meta_loaded_opts (enc : Option Name) (len : Nat) (le : Text) (he : EncOk enc) :
    Dom.contentOpts (recOpts
      (RunRT.contentOpts [(b!"format", some (HVal.str (Text.ofAscii b!"json")))] enc none len false le)) =
      metaOpts enc (Text.ofAscii b!"json") := by
  rw [contentOpts_recOpts (RunRT.contentOpts [(b!"format", some (HVal.str (Text.ofAscii b!"json")))] enc none len false le)
    (show ([b!"format", b!"encoding", b!"indent", b!"length"] : List Bytes).Nodup by decide)]
  have hE : ∀ n, enc = some n → pyOf (.str n) = .str n := fun n h => pyOf_enc n (he n h)
  cases enc <;>
    simp (config := {decide := true}) [presentOpts, RunRT.contentOpts, sortOpts, insertOpt,
      metaOpts, optStr, pyOf_json, hE]

theorem diff_loaded_opts (enc : Option Name) (len : Nat) (dos : Bool) (ty : Option Text) (he : EncOk enc)
    (hm : ∀ m, ty = some m → m ∈ diffTypes) :
    Dom.contentOpts (recOpts
      (RunRT.contentOpts [(b!"type", ty.map HVal.str)] enc none len true (leKind dos))) =
      diffOpts enc (leKind dos) ty := by
  rw [contentOpts_recOpts (RunRT.contentOpts [(b!"type", ty.map HVal.str)] enc none len true (leKind dos))
    (show ([b!"type", b!"encoding", b!"indent", b!"length", b!"line_endings"] : List Bytes).Nodup by decide)]
  have hE : ∀ n, enc = some n → pyOf (.str n) = .str n := fun n h => pyOf_enc n (he n h)
  have hM : ∀ m, ty = some m → pyOf (.str m) = .str m := fun m h => pyOf_dtype m (hm m h)
  cases enc <;> cases ty <;>
    simp (config := {decide := true}) [presentOpts, RunRT.contentOpts, sortOpts, insertOpt,
      diffOpts, optStr, pyOf_le, hE, hM]

/-- `_set_container_options` on the options reported for a container header -/
theorem container_loaded_opts (enc : Option Name) (he : EncOk enc) :
    containerOpts (recOpts [(b!"encoding", enc.map HVal.str)]) = .ok (optStr b!"encoding" enc) := by
  cases enc with
  | none => rfl
  | some n =>
    have h := he n rfl
    have e : recOpts [(b!"encoding", (some n).map HVal.str)] = [(b!"encoding", convert n.toAscii)] := rfl
    rw [e, h.str]
    show Except.ok [(b!"encoding", PyVal.str (Text.ofAscii n.toAscii))] = _
    rw [← h.ascii]
    rfl

end Opts

/-! ## the expected tree -/

section Expected
variable (env : Env) (cfg : Config)

/-- **the section the loader builds for one written content section**: its kind, the options
the writer derives (without `length`), and the decoded / parsed / prepared content of the laws -/
def expContent (st : Writer.St) (dflt : ContentSec) (c : Writer.Call) (L : CallLaws env cfg st c) :
    ContentSec :=
  match c, L with
  | .preamble (.str _) enc indent _ mime, L =>
    ⟨.preamble, preambleOpts enc indent L.leOut mime, .str L.text.decoded⟩
  | .metadata (.dict _) enc fmt, L => ⟨.metadata, metaOpts enc fmt, .dict L.parsed⟩
  | .diff (.bytes _) ty enc _, L => ⟨.diff, diffOpts enc L.leOut ty, .bytes L.data⟩
  | _, _ => dflt

/-- the loaded section for one step of the DOM writer's walk: `dflt` (the section of a fresh
tree / change / file) when the section is skipped -/
def expSec (st : Writer.St) (dflt : ContentSec) :
    (s : Step) → ProgramLawsFrom env cfg st (stepCalls s) → ContentSec
  | .ok (some c), L => expContent env cfg st dflt c L.1
  | _, _ => dflt

/-- the options of a loaded change / file: the `encoding` option only if one was given -/
def containerDOpts : Step → DOpts
  | .ok (some (.newChange enc)) => optStr b!"encoding" enc
  | .ok (some (.newFile enc)) => optStr b!"encoding" enc
  | _ => []

def expFile (di : Nat) (st : Writer.St) (f : FileSec) (L : ProgramLawsFrom env cfg st (fileCalls di f)) :
    FileSec :=
  let A := stepCalls (containerCall Writer.Call.newFile f.opts)
  let M := secCalls di f.metaSec
  let D := secCalls di f.diff
  let st1 := runFrom env cfg st A
  let L1 : ProgramLawsFrom env cfg st1 (M ++ D) := lawsRight env cfg st A (M ++ D) L
  { opts := containerDOpts (containerCall Writer.Call.newFile f.opts)
    metaSec := expSec env cfg st1 newMeta (contentCall di f.metaSec) (lawsLeft env cfg st1 M D L1)
    diff := expSec env cfg (runFrom env cfg st1 M) newDiff (contentCall di f.diff) (lawsRight env cfg st1 M D L1) }

def expFiles (di : Nat) : (st : Writer.St) → (fs : List FileSec) →
    ProgramLawsFrom env cfg st (filesCalls di fs) → List FileSec
  | _, [], _ => []
  | st, f :: fs, L =>
    expFile env cfg di st f (lawsLeft env cfg st (fileCalls di f) (filesCalls di fs) L) ::
      expFiles di (runFrom env cfg st (fileCalls di f)) fs (lawsRight env cfg st (fileCalls di f) (filesCalls di fs) L)

def expChange (di : Nat) (st : Writer.St) (c : ChangeSec)
    (L : ProgramLawsFrom env cfg st (changeCalls di c)) : ChangeSec :=
  let A := stepCalls (containerCall Writer.Call.newChange c.opts)
  let P := secCalls di c.preamble
  let M := secCalls di c.metaSec
  let F := filesCalls di c.files
  let st1 := runFrom env cfg st A
  let L1 : ProgramLawsFrom env cfg st1 (P ++ (M ++ F)) := lawsRight env cfg st A (P ++ (M ++ F)) L
  let st2 := runFrom env cfg st1 P
  let L2 : ProgramLawsFrom env cfg st2 (M ++ F) := lawsRight env cfg st1 P (M ++ F) L1
  { opts := containerDOpts (containerCall Writer.Call.newChange c.opts)
    preamble := expSec env cfg st1 newPreamble (contentCall di c.preamble) (lawsLeft env cfg st1 P (M ++ F) L1)
    metaSec := expSec env cfg st2 newMeta (contentCall di c.metaSec) (lawsLeft env cfg st2 M F L2)
    files := expFiles env cfg di (runFrom env cfg st2 M) c.files (lawsRight env cfg st2 M F L2) }

def expChanges (di : Nat) : (st : Writer.St) → (cs : List ChangeSec) →
    ProgramLawsFrom env cfg st (changesCalls di cs) → List ChangeSec
  | _, [], _ => []
  | st, c :: cs, L =>
    expChange env cfg di st c (lawsLeft env cfg st (changeCalls di c) (changesCalls di cs) L) ::
      expChanges di (runFrom env cfg st (changeCalls di c)) cs
        (lawsRight env cfg st (changeCalls di c) (changesCalls di cs) L)

/-- **the tree the loader builds**, by recursion over the tree `t`, threading the writer state -/
def expTree (di : Nat) (enc : Name) (st : Writer.St) (t : Tree)
    (L : ProgramLawsFrom env cfg st (treeCalls di t)) : Tree :=
  let P := secCalls di t.preamble
  let M := secCalls di t.metaSec
  let C := changesCalls di t.changes
  let st1 := runFrom env cfg st P
  let L1 : ProgramLawsFrom env cfg st1 (M ++ C) := lawsRight env cfg st P (M ++ C) L
  { opts := [(b!"encoding", .str enc), (b!"version", .str (Text.ofAscii b!"1.0"))]
    preamble := expSec env cfg st newPreamble (contentCall di t.preamble) (lawsLeft env cfg st P (M ++ C) L)
    metaSec := expSec env cfg st1 newMeta (contentCall di t.metaSec) (lawsLeft env cfg st1 M C L1)
    changes := expChanges env cfg di (runFrom env cfg st1 M) t.changes (lawsRight env cfg st1 M C L1) }

end Expected

/-! ## the loader on the expected records -/

section Load
variable (env : Env) (cfg : Config)

def callKind : Writer.Call → Option Kind
  | .preamble .. => some .preamble
  | .metadata .. => some .metadata
  | .diff .. => some .diff
  | _ => none

/-- where `section_handlers` puts a content section -/
def place : Kind → LoadSt → ContentSec → Except LoadErr LoadSt
  | .preamble, s, sec =>
    (match s.cur with
     | .main => .ok { s with tree := { s.tree with preamble := sec } }
     | .change => .ok { s with tree := updLastChange s.tree (fun c => { c with preamble := sec }) }
     | .file => .error .readerOther)
  | .metadata, s, sec =>
    (match s.cur with
     | .main => .ok { s with tree := { s.tree with metaSec := sec } }
     | .change => .ok { s with tree := updLastChange s.tree (fun c => { c with metaSec := sec }) }
     | .file => .ok { s with tree := updLastFile s.tree (fun f => { f with metaSec := sec }) })
  | .diff, s, sec => .ok { s with tree := updLastFile s.tree (fun f => { f with diff := sec }) }

theorem load_content_record (st : Writer.St) (line : Nat) (c : Writer.Call)
    (hok : (Writer.step env cfg st c).2 = .ok) (L : CallLaws env cfg st c) (k : Kind)
    (hk : callKind c = some k) (ls : LoadSt) (dflt : ContentSec) :
    loadRecord ls (expectedOne env cfg st line c L).1 = place k ls (expContent env cfg st dflt c L) := by
  obtain ⟨b, stk, hpre, hv, hpl, hstep⟩ := RunRT.step_ok_inv env cfg st c hok
  cases c with
  | newChange enc => cases hk
  | newFile enc => cases hk
  | preamble text enc indent le mime =>
    injection hk with hk; subst hk
    cases text with
    | str t =>
      have hmime : ∀ m, mime = some m → m ∈ Writer.mimetypes := by
        intro m hm
        subst hm
        simp only [Writer.pre] at hpre
        split at hpre
        · cases hpre
        · rename_i h; simpa using h
      have hib : ∀ i, indent = some i → 0 ≤ i ∧ i.toNat ≤ Reader.maxRead := by
        intro i hi
        subst hi
        have h0 := L.indentOk i rfl
        exact ⟨h0, Nat.le_trans (RunRT.prepareContent_indent_le env cfg st _ i h0 _ _ _ _ _ L.hprep) L.hlen⟩
      have ho := preamble_loaded_opts enc indent L.data.length L.text.dos mime L.encOk hib hmime
      rw [← L.text.hle] at ho
      show place .preamble ls ⟨.preamble, setdefaultIndent (Dom.contentOpts (recOpts _)), .str L.text.decoded⟩ = _
      rw [ho]
      rfl
    | bytes _ => simp [Writer.pre] at hpre
    | dict _ => simp [Writer.pre] at hpre
    | other => simp [Writer.pre] at hpre
  | metadata m enc fmt =>
    injection hk with hk; subst hk
    cases m with
    | dict j =>
      have hfmt : fmt = Text.ofAscii b!"json" := by
        simp only [Writer.pre] at hpre
        split at hpre
        · cases hpre
        · split at hpre
          · cases hpre
          · rename_i h
            simpa [Writer.metaFormats] using h
      subst hfmt
      have ho := meta_loaded_opts enc L.tl.plain.length L.leOut L.encOk
      show place .metadata ls ⟨.metadata, Dom.contentOpts (recOpts _), .dict L.parsed⟩ = _
      rw [ho]
      rfl
    | str _ => simp [Writer.pre] at hpre
    | bytes _ => simp [Writer.pre] at hpre
    | other => simp [Writer.pre] at hpre
  | diff content dtype enc le =>
    injection hk with hk; subst hk
    cases content with
    | bytes d =>
      have hdt : ∀ m, dtype = some m → m ∈ Writer.diffTypes := by
        intro m hm
        subst hm
        simp only [Writer.pre] at hpre
        split at hpre
        · cases hpre
        · rename_i h; simpa using h
      have ho := diff_loaded_opts enc L.data.length L.dl.dos dtype L.encOk hdt
      rw [← L.dl.hle] at ho
      show place .diff ls ⟨.diff, Dom.contentOpts (recOpts _), .bytes L.data⟩ = _
      rw [ho]
      rfl
    | str _ => simp [Writer.pre] at hpre
    | dict _ => simp [Writer.pre] at hpre
    | other => simp [Writer.pre] at hpre

/-- a content call has the kind of its section -/
theorem contentCall_kind (di : Nat) (c : ContentSec) (call : Writer.Call)
    (h : contentCall di c = .ok (some call)) : callKind call = some c.kind := by
  unfold contentCall at h
  split at h
  · cases h
  · cases hk : c.kind <;> simp only [hk] at h <;>
      simp only [bind, Except.bind, pure, Except.pure, throw, throwThe, MonadExceptOf.throw] at h
    all_goals repeat' (split at h)
    all_goals first
      | (cases h; done)
      | (injection h with h; injection h with h; subst h; rfl)

theorem containerCall_shape (mk : Option Name → Writer.Call) (o : DOpts) (oc : Option Writer.Call)
    (h : containerCall mk o = .ok oc) : ∃ enc, oc = some (mk enc) := by
  unfold containerCall at h
  obtain ⟨_, _, h⟩ := bind_ok h
  obtain ⟨enc, _, h⟩ := bind_ok h
  simp only [pure, Except.pure] at h
  injection h with h
  exact ⟨enc, h.symm⟩

abbrev fold (ls : LoadSt) (rs : List Reader.Record) : Except LoadErr LoadSt := rs.foldlM loadRecord ls

theorem fold_append (xs ys : List Writer.Call) (st : Writer.St) (line : Nat)
    (L : ProgramLawsFrom env cfg st (xs ++ ys)) (ls ls' : LoadSt)
    (h1 : fold ls (expectedFrom env cfg st line xs (lawsLeft env cfg st xs ys L)) = .ok ls') :
    fold ls (expectedFrom env cfg st line (xs ++ ys) L) =
      fold ls' (expectedFrom env cfg (runFrom env cfg st xs)
        (linesFrom env cfg st line xs (lawsLeft env cfg st xs ys L)) ys (lawsRight env cfg st xs ys L)) := by
  unfold fold at h1 ⊢
  rw [expectedFrom_append, List.foldlM_append, h1]
  rfl

theorem fold_single (ls : LoadSt) (r : Reader.Record) : fold ls [r] = loadRecord ls r := by
  unfold fold
  rw [List.foldlM_cons]
  cases loadRecord ls r <;> rfl

/-- one step of the walk that is a content section of kind `k`: either nothing is written and
nothing is loaded, or the loader places the expected section -/
theorem load_step (k : Kind) (s : Step) (hs : ∀ call, s = .ok (some call) → callKind call = some k)
    (st : Writer.St) (line : Nat) (hok : AllOk env cfg st (stepCalls s))
    (L : ProgramLawsFrom env cfg st (stepCalls s)) (ls : LoadSt) (dflt : ContentSec) :
    (fold ls (expectedFrom env cfg st line (stepCalls s) L) = .ok ls ∧ expSec env cfg st dflt s L = dflt) ∨
      fold ls (expectedFrom env cfg st line (stepCalls s) L) = place k ls (expSec env cfg st dflt s L) := by
  cases s with
  | error e => exact .inl ⟨rfl, rfl⟩
  | ok oc =>
    cases oc with
    | none => exact .inl ⟨rfl, rfl⟩
    | some c =>
      right
      obtain ⟨L1, Ls⟩ := L
      show fold ls [(expectedOne env cfg st line c L1).1] = _
      rw [fold_single]
      exact load_content_record env cfg st line c hok.1 L1 k (hs c rfl) ls dflt

/-! ### the tree updates of the loader -/

theorem updLastChange_snoc (o : DOpts) (p m : ContentSec) (done : List ChangeSec) (c : ChangeSec)
    (f : ChangeSec → ChangeSec) :
    updLastChange ⟨o, p, m, done ++ [c]⟩ f = ⟨o, p, m, done ++ [f c]⟩ := by
  unfold updLastChange
  simp

theorem updLastFile_snoc (o : DOpts) (p m : ContentSec) (done : List ChangeSec) (co : DOpts)
    (cp cm : ContentSec) (fs : List FileSec) (x : FileSec) (f : FileSec → FileSec) :
    updLastFile ⟨o, p, m, done ++ [⟨co, cp, cm, fs ++ [x]⟩]⟩ f =
      ⟨o, p, m, done ++ [⟨co, cp, cm, fs ++ [f x]⟩]⟩ := by
  unfold updLastFile
  rw [updLastChange_snoc]
  simp

/-! ### the six content slots -/

theorem load_main_pre (s : Step) (hs : ∀ call, s = .ok (some call) → callKind call = some .preamble)
    (st : Writer.St) (line : Nat) (hok : AllOk env cfg st (stepCalls s))
    (L : ProgramLawsFrom env cfg st (stepCalls s)) (o : DOpts) (p m : ContentSec) (cs : List ChangeSec) :
    fold ⟨⟨o, p, m, cs⟩, .main⟩ (expectedFrom env cfg st line (stepCalls s) L) =
      .ok ⟨⟨o, expSec env cfg st p s L, m, cs⟩, .main⟩ := by
  rcases load_step env cfg .preamble s hs st line hok L ⟨⟨o, p, m, cs⟩, .main⟩ p with ⟨h1, h2⟩ | h
  · rw [h1, h2]
  · rw [h]; rfl

theorem load_main_meta (s : Step) (hs : ∀ call, s = .ok (some call) → callKind call = some .metadata)
    (st : Writer.St) (line : Nat) (hok : AllOk env cfg st (stepCalls s))
    (L : ProgramLawsFrom env cfg st (stepCalls s)) (o : DOpts) (p m : ContentSec) (cs : List ChangeSec) :
    fold ⟨⟨o, p, m, cs⟩, .main⟩ (expectedFrom env cfg st line (stepCalls s) L) =
      .ok ⟨⟨o, p, expSec env cfg st m s L, cs⟩, .main⟩ := by
  rcases load_step env cfg .metadata s hs st line hok L ⟨⟨o, p, m, cs⟩, .main⟩ m with ⟨h1, h2⟩ | h
  · rw [h1, h2]
  · rw [h]; rfl

theorem load_change_pre (s : Step) (hs : ∀ call, s = .ok (some call) → callKind call = some .preamble)
    (st : Writer.St) (line : Nat) (hok : AllOk env cfg st (stepCalls s))
    (L : ProgramLawsFrom env cfg st (stepCalls s)) (o : DOpts) (p m : ContentSec) (done : List ChangeSec)
    (co : DOpts) (cp cm : ContentSec) (fs : List FileSec) :
    fold ⟨⟨o, p, m, done ++ [⟨co, cp, cm, fs⟩]⟩, .change⟩ (expectedFrom env cfg st line (stepCalls s) L) =
      .ok ⟨⟨o, p, m, done ++ [⟨co, expSec env cfg st cp s L, cm, fs⟩]⟩, .change⟩ := by
  rcases load_step env cfg .preamble s hs st line hok L ⟨⟨o, p, m, done ++ [⟨co, cp, cm, fs⟩]⟩, .change⟩ cp
    with ⟨h1, h2⟩ | h
  · rw [h1, h2]
  · rw [h]
    show Except.ok (LoadSt.mk (updLastChange _ _) _) = _
    rw [updLastChange_snoc]

theorem load_change_meta (s : Step) (hs : ∀ call, s = .ok (some call) → callKind call = some .metadata)
    (st : Writer.St) (line : Nat) (hok : AllOk env cfg st (stepCalls s))
    (L : ProgramLawsFrom env cfg st (stepCalls s)) (o : DOpts) (p m : ContentSec) (done : List ChangeSec)
    (co : DOpts) (cp cm : ContentSec) (fs : List FileSec) :
    fold ⟨⟨o, p, m, done ++ [⟨co, cp, cm, fs⟩]⟩, .change⟩ (expectedFrom env cfg st line (stepCalls s) L) =
      .ok ⟨⟨o, p, m, done ++ [⟨co, cp, expSec env cfg st cm s L, fs⟩]⟩, .change⟩ := by
  rcases load_step env cfg .metadata s hs st line hok L ⟨⟨o, p, m, done ++ [⟨co, cp, cm, fs⟩]⟩, .change⟩ cm
    with ⟨h1, h2⟩ | h
  · rw [h1, h2]
  · rw [h]
    show Except.ok (LoadSt.mk (updLastChange _ _) _) = _
    rw [updLastChange_snoc]

theorem load_file_meta (s : Step) (hs : ∀ call, s = .ok (some call) → callKind call = some .metadata)
    (st : Writer.St) (line : Nat) (hok : AllOk env cfg st (stepCalls s))
    (L : ProgramLawsFrom env cfg st (stepCalls s)) (o : DOpts) (p m : ContentSec) (done : List ChangeSec)
    (co : DOpts) (cp cm : ContentSec) (fs : List FileSec) (fo : DOpts) (fm fd : ContentSec) :
    fold ⟨⟨o, p, m, done ++ [⟨co, cp, cm, fs ++ [⟨fo, fm, fd⟩]⟩]⟩, .file⟩
        (expectedFrom env cfg st line (stepCalls s) L) =
      .ok ⟨⟨o, p, m, done ++ [⟨co, cp, cm, fs ++ [⟨fo, expSec env cfg st fm s L, fd⟩]⟩]⟩, .file⟩ := by
  rcases load_step env cfg .metadata s hs st line hok L
    ⟨⟨o, p, m, done ++ [⟨co, cp, cm, fs ++ [⟨fo, fm, fd⟩]⟩]⟩, .file⟩ fm with ⟨h1, h2⟩ | h
  · rw [h1, h2]
  · rw [h]
    show Except.ok (LoadSt.mk (updLastFile _ _) _) = _
    rw [updLastFile_snoc]

theorem load_file_diff (s : Step) (hs : ∀ call, s = .ok (some call) → callKind call = some .diff)
    (st : Writer.St) (line : Nat) (hok : AllOk env cfg st (stepCalls s))
    (L : ProgramLawsFrom env cfg st (stepCalls s)) (o : DOpts) (p m : ContentSec) (done : List ChangeSec)
    (co : DOpts) (cp cm : ContentSec) (fs : List FileSec) (fo : DOpts) (fm fd : ContentSec) :
    fold ⟨⟨o, p, m, done ++ [⟨co, cp, cm, fs ++ [⟨fo, fm, fd⟩]⟩]⟩, .file⟩
        (expectedFrom env cfg st line (stepCalls s) L) =
      .ok ⟨⟨o, p, m, done ++ [⟨co, cp, cm, fs ++ [⟨fo, fm, expSec env cfg st fd s L⟩]⟩]⟩, .file⟩ := by
  rcases load_step env cfg .diff s hs st line hok L
    ⟨⟨o, p, m, done ++ [⟨co, cp, cm, fs ++ [⟨fo, fm, fd⟩]⟩]⟩, .file⟩ fd with ⟨h1, h2⟩ | h
  · rw [h1, h2]
  · rw [h]
    show Except.ok (LoadSt.mk (updLastFile _ _) _) = _
    rw [updLastFile_snoc]

/-! ### containers -/

theorem load_container_change (s : Step) (enc : Option Name) (hs : s = .ok (some (.newChange enc)))
    (st : Writer.St) (line : Nat) (L : ProgramLawsFrom env cfg st (stepCalls s))
    (o : DOpts) (p m : ContentSec) (done : List ChangeSec) (cur : Cur) :
    fold ⟨⟨o, p, m, done⟩, cur⟩ (expectedFrom env cfg st line (stepCalls s) L) =
      .ok ⟨⟨o, p, m, done ++ [⟨containerDOpts s, newPreamble, newMeta, []⟩]⟩, .change⟩ := by
  subst hs
  obtain ⟨L1, Ls⟩ := L
  show fold _ [(expectedOne env cfg st line (.newChange enc) L1).1] = _
  rw [fold_single]
  show (containerOpts (recOpts [(b!"encoding", enc.map Writer.HVal.str)]) >>= _) = _
  rw [container_loaded_opts enc L1.down]
  rfl

theorem load_container_file (s : Step) (enc : Option Name) (hs : s = .ok (some (.newFile enc)))
    (st : Writer.St) (line : Nat) (L : ProgramLawsFrom env cfg st (stepCalls s))
    (o : DOpts) (p m : ContentSec) (done : List ChangeSec) (co : DOpts) (cp cm : ContentSec)
    (fs : List FileSec) (cur : Cur) :
    fold ⟨⟨o, p, m, done ++ [⟨co, cp, cm, fs⟩]⟩, cur⟩ (expectedFrom env cfg st line (stepCalls s) L) =
      .ok ⟨⟨o, p, m, done ++ [⟨co, cp, cm, fs ++ [⟨containerDOpts s, newMeta, newDiff⟩]⟩]⟩, .file⟩ := by
  subst hs
  obtain ⟨L1, Ls⟩ := L
  show fold _ [(expectedOne env cfg st line (.newFile enc) L1).1] = _
  rw [fold_single]
  show (containerOpts (recOpts [(b!"encoding", enc.map Writer.HVal.str)]) >>= _) = _
  rw [container_loaded_opts enc L1.down]
  show Except.ok (LoadSt.mk (updLastChange _ _) _) = _
  rw [updLastChange_snoc]
  rfl

/-! ### files, changes, the tree -/

/-- the kinds fit the slots and the container call can be prepared -/
def FileWF (f : FileSec) : Prop :=
  f.metaSec.kind = .metadata ∧ f.diff.kind = .diff ∧
    ∃ oc, containerCall Writer.Call.newFile f.opts = .ok oc

def ChangeWF (c : ChangeSec) : Prop :=
  c.preamble.kind = .preamble ∧ c.metaSec.kind = .metadata ∧
    (∃ oc, containerCall Writer.Call.newChange c.opts = .ok oc) ∧ ∀ f ∈ c.files, FileWF f

theorem kind_hs (di : Nat) (c : ContentSec) (k : Kind) (hk : c.kind = k) :
    ∀ call, contentCall di c = .ok (some call) → callKind call = some k :=
  fun call h => hk ▸ contentCall_kind di c call h

theorem load_file (di : Nat) (f : FileSec) (hf : FileWF f) (st : Writer.St) (line : Nat)
    (hok : AllOk env cfg st (fileCalls di f)) (L : ProgramLawsFrom env cfg st (fileCalls di f))
    (o : DOpts) (p m : ContentSec) (done : List ChangeSec) (co : DOpts) (cp cm : ContentSec)
    (fs : List FileSec) (cur : Cur) :
    fold ⟨⟨o, p, m, done ++ [⟨co, cp, cm, fs⟩]⟩, cur⟩ (expectedFrom env cfg st line (fileCalls di f) L) =
      .ok ⟨⟨o, p, m, done ++ [⟨co, cp, cm, fs ++ [expFile env cfg di st f L]⟩]⟩, .file⟩ := by
  obtain ⟨hkm, hkd, oc, hoc⟩ := hf
  obtain ⟨enc, rfl⟩ := containerCall_shape _ _ _ hoc
  obtain ⟨_, hokR⟩ := (allOk_append env cfg (stepCalls (containerCall Writer.Call.newFile f.opts))
    (secCalls di f.metaSec ++ secCalls di f.diff) st).mp hok
  obtain ⟨hokM, hokD⟩ := (allOk_append env cfg (secCalls di f.metaSec) (secCalls di f.diff) _).mp hokR
  refine (fold_append env cfg (stepCalls (containerCall Writer.Call.newFile f.opts))
    (secCalls di f.metaSec ++ secCalls di f.diff) st line L _ _
    (load_container_file env cfg _ enc hoc st line _ o p m done co cp cm fs cur)).trans ?_
  refine (fold_append env cfg (secCalls di f.metaSec) (secCalls di f.diff) _ _ _ _ _
    (load_file_meta env cfg _ (kind_hs di _ _ hkm) _ _ hokM _ o p m done co cp cm fs _ _ _)).trans ?_
  exact load_file_diff env cfg _ (kind_hs di _ _ hkd) _ _ hokD _ o p m done co cp cm fs _ _ _

theorem load_files (di : Nat) (fl : List FileSec) (hfl : ∀ f ∈ fl, FileWF f)
    (o : DOpts) (p m : ContentSec) (done : List ChangeSec) (co : DOpts) (cp cm : ContentSec) :
    ∀ (st : Writer.St) (line : Nat) (_ : AllOk env cfg st (filesCalls di fl))
      (L : ProgramLawsFrom env cfg st (filesCalls di fl)) (fs : List FileSec) (cur : Cur),
      ∃ cur', fold ⟨⟨o, p, m, done ++ [⟨co, cp, cm, fs⟩]⟩, cur⟩
          (expectedFrom env cfg st line (filesCalls di fl) L) =
        .ok ⟨⟨o, p, m, done ++ [⟨co, cp, cm, fs ++ expFiles env cfg di st fl L⟩]⟩, cur'⟩ := by
  induction fl with
  | nil =>
    intro st line _ L fs cur
    refine ⟨cur, ?_⟩
    show Except.ok _ = Except.ok _
    simp [expFiles]
  | cons f fl ih =>
    intro st line hok L fs cur
    obtain ⟨hokF, hokR⟩ := (allOk_append env cfg (fileCalls di f) (filesCalls di fl) st).mp hok
    obtain ⟨cur', h⟩ := ih (fun g hg => hfl g (List.mem_cons_of_mem _ hg)) _
      (linesFrom env cfg st line (fileCalls di f) (lawsLeft env cfg st (fileCalls di f) (filesCalls di fl) L))
      hokR (lawsRight env cfg st (fileCalls di f) (filesCalls di fl) L)
      (fs ++ [expFile env cfg di st f (lawsLeft env cfg st (fileCalls di f) (filesCalls di fl) L)]) .file
    refine ⟨cur', ?_⟩
    refine (fold_append env cfg (fileCalls di f) (filesCalls di fl) st line L _ _
      (load_file env cfg di f (hfl f List.mem_cons_self) st line hokF _ o p m done co cp cm fs cur)).trans ?_
    rw [h]
    simp [expFiles]

theorem load_change (di : Nat) (c : ChangeSec) (hc : ChangeWF c) (st : Writer.St) (line : Nat)
    (hok : AllOk env cfg st (changeCalls di c)) (L : ProgramLawsFrom env cfg st (changeCalls di c))
    (o : DOpts) (p m : ContentSec) (done : List ChangeSec) (cur : Cur) :
    ∃ cur', fold ⟨⟨o, p, m, done⟩, cur⟩ (expectedFrom env cfg st line (changeCalls di c) L) =
      .ok ⟨⟨o, p, m, done ++ [expChange env cfg di st c L]⟩, cur'⟩ := by
  obtain ⟨hkp, hkm, ⟨oc, hoc⟩, hfs⟩ := hc
  obtain ⟨enc, rfl⟩ := containerCall_shape _ _ _ hoc
  obtain ⟨_, hokR⟩ := (allOk_append env cfg (stepCalls (containerCall Writer.Call.newChange c.opts))
    (secCalls di c.preamble ++ (secCalls di c.metaSec ++ filesCalls di c.files)) st).mp hok
  obtain ⟨hokP, hokR⟩ := (allOk_append env cfg (secCalls di c.preamble)
    (secCalls di c.metaSec ++ filesCalls di c.files) _).mp hokR
  obtain ⟨hokM, hokF⟩ := (allOk_append env cfg (secCalls di c.metaSec) (filesCalls di c.files) _).mp hokR
  obtain ⟨cur', h⟩ := load_files env cfg di c.files hfs o p m done
    (containerDOpts (containerCall Writer.Call.newChange c.opts)) _ _ _ _ hokF _ [] .change
  refine ⟨cur', ?_⟩
  refine (fold_append env cfg (stepCalls (containerCall Writer.Call.newChange c.opts))
    (secCalls di c.preamble ++ (secCalls di c.metaSec ++ filesCalls di c.files)) st line L _ _
    (load_container_change env cfg _ enc hoc st line _ o p m done cur)).trans ?_
  refine (fold_append env cfg (secCalls di c.preamble) (secCalls di c.metaSec ++ filesCalls di c.files) _ _ _ _ _
    (load_change_pre env cfg _ (kind_hs di _ _ hkp) _ _ hokP _ o p m done _ _ _ _)).trans ?_
  refine (fold_append env cfg (secCalls di c.metaSec) (filesCalls di c.files) _ _ _ _ _
    (load_change_meta env cfg _ (kind_hs di _ _ hkm) _ _ hokM _ o p m done _ _ _ _)).trans ?_
  exact h

theorem load_changes (di : Nat) (cl : List ChangeSec) (hcl : ∀ c ∈ cl, ChangeWF c)
    (o : DOpts) (p m : ContentSec) :
    ∀ (st : Writer.St) (line : Nat) (_ : AllOk env cfg st (changesCalls di cl))
      (L : ProgramLawsFrom env cfg st (changesCalls di cl)) (done : List ChangeSec) (cur : Cur),
      ∃ cur', fold ⟨⟨o, p, m, done⟩, cur⟩ (expectedFrom env cfg st line (changesCalls di cl) L) =
        .ok ⟨⟨o, p, m, done ++ expChanges env cfg di st cl L⟩, cur'⟩ := by
  induction cl with
  | nil =>
    intro st line _ L done cur
    refine ⟨cur, ?_⟩
    show Except.ok _ = Except.ok _
    simp [expChanges]
  | cons c cl ih =>
    intro st line hok L done cur
    obtain ⟨hokC, hokR⟩ := (allOk_append env cfg (changeCalls di c) (changesCalls di cl) st).mp hok
    obtain ⟨cur1, h1⟩ := load_change env cfg di c (hcl c List.mem_cons_self) st line hokC
      (lawsLeft env cfg st (changeCalls di c) (changesCalls di cl) L) o p m done cur
    obtain ⟨cur', h⟩ := ih (fun g hg => hcl g (List.mem_cons_of_mem _ hg)) _
      (linesFrom env cfg st line (changeCalls di c) (lawsLeft env cfg st (changeCalls di c) (changesCalls di cl) L))
      hokR (lawsRight env cfg st (changeCalls di c) (changesCalls di cl) L)
      (done ++ [expChange env cfg di st c (lawsLeft env cfg st (changeCalls di c) (changesCalls di cl) L)]) cur1
    refine ⟨cur', ?_⟩
    refine (fold_append env cfg (changeCalls di c) (changesCalls di cl) st line L _ _ h1).trans ?_
    rw [h]
    simp [expChanges]

/-- the loader on the expected records of a whole tree (after the main record) -/
theorem load_tree (di : Nat) (enc : Name) (t : Tree) (hkp : t.preamble.kind = .preamble)
    (hkm : t.metaSec.kind = .metadata) (hcs : ∀ c ∈ t.changes, ChangeWF c) (st : Writer.St) (line : Nat)
    (hok : AllOk env cfg st (treeCalls di t)) (L : ProgramLawsFrom env cfg st (treeCalls di t)) :
    ∃ cur', fold ⟨⟨[(b!"encoding", .str enc), (b!"version", .str (Text.ofAscii b!"1.0"))],
        newPreamble, newMeta, []⟩, .main⟩ (expectedFrom env cfg st line (treeCalls di t) L) =
      .ok ⟨expTree env cfg di enc st t L, cur'⟩ := by
  obtain ⟨hokP, hokR⟩ := (allOk_append env cfg (secCalls di t.preamble)
    (secCalls di t.metaSec ++ changesCalls di t.changes) st).mp hok
  obtain ⟨hokM, hokC⟩ := (allOk_append env cfg (secCalls di t.metaSec) (changesCalls di t.changes) _).mp hokR
  obtain ⟨cur', h⟩ := load_changes env cfg di t.changes hcs
    [(b!"encoding", .str enc), (b!"version", .str (Text.ofAscii b!"1.0"))] _ _ _ _ hokC _ [] .main
  refine ⟨cur', ?_⟩
  refine (fold_append env cfg (secCalls di t.preamble) (secCalls di t.metaSec ++ changesCalls di t.changes)
    st line L _ _ (load_main_pre env cfg _ (kind_hs di _ _ hkp) _ _ hokP _ _ _ _ _)).trans ?_
  refine (fold_append env cfg (secCalls di t.metaSec) (changesCalls di t.changes) _ _ _ _ _
    (load_main_meta env cfg _ (kind_hs di _ _ hkm) _ _ hokM _ _ _ _ _)).trans ?_
  exact h

end Load

/-! ## well-formed trees -/

/-- the sections of a file are of their classes -/
def fileOk (f : FileSec) : Bool := f.metaSec.kind == .metadata && f.diff.kind == .diff
def changeOk (c : ChangeSec) : Bool :=
  c.preamble.kind == .preamble && c.metaSec.kind == .metadata && c.files.all fileOk
def treeOk (t : Tree) : Bool :=
  t.preamble.kind == .preamble && t.metaSec.kind == .metadata && t.changes.all changeOk

/-- **Well-formed tree**: every content section sits in the slot of its class (in Python the
`preamble` / `meta` / `diff` attributes always hold a `DiffXPreambleSection` /
`DiffXMetaSection` / `DiffXFileDiffSection` object; the model's `Tree` is plain data). -/
def TreeOk (t : Tree) : Prop := treeOk t = true

instance (t : Tree) : Decidable (TreeOk t) := inferInstanceAs (Decidable (treeOk t = true))

theorem mapM_id_ok (ss : List Step) (ocs : List (Option Writer.Call)) (h : ss.mapM id = .ok ocs) :
    ∀ s ∈ ss, ∃ oc, s = .ok oc := by
  induction ss generalizing ocs with
  | nil => intro s hs; cases hs
  | cons s rest ih =>
    rw [List.mapM_cons] at h
    obtain ⟨oc, h1, h2⟩ := bind_ok h
    obtain ⟨ocs', h3, _⟩ := bind_ok h2
    intro x hx
    rcases List.mem_cons.mp hx with rfl | hx
    · exact ⟨oc, h1⟩
    · exact ih ocs' h3 x hx

theorem toCalls_steps_ok (di : Nat) (t : Tree) (wv : Text) (x : Option Name × Text × List Writer.Call)
    (h : toCalls di t wv = .ok x) : ∀ s ∈ steps di t, ∃ oc, s = .ok oc := by
  unfold toCalls at h
  obtain ⟨⟨e', v'⟩, _, h2⟩ := bind_ok h
  obtain ⟨ocs, h3, _⟩ := bind_ok h2
  exact mapM_id_ok _ _ h3

theorem wf_of_steps (di : Nat) (t : Tree) (hk : TreeOk t) (hs : ∀ s ∈ steps di t, ∃ oc, s = .ok oc) :
    t.preamble.kind = .preamble ∧ t.metaSec.kind = .metadata ∧ ∀ c ∈ t.changes, ChangeWF c := by
  unfold TreeOk treeOk at hk
  simp only [Bool.and_eq_true, beq_iff_eq, List.all_eq_true] at hk
  obtain ⟨⟨h1, h2⟩, h3⟩ := hk
  refine ⟨h1, h2, fun c hc => ?_⟩
  have hc3 := h3 c hc
  unfold changeOk at hc3
  simp only [Bool.and_eq_true, beq_iff_eq, List.all_eq_true] at hc3
  obtain ⟨⟨c1, c2⟩, c3⟩ := hc3
  have hsub : ∀ s ∈ changeSteps di c, ∃ oc, s = .ok oc := by
    intro s hm
    apply hs
    unfold steps
    exact List.mem_append_right _ (List.mem_flatMap.mpr ⟨c, hc, hm⟩)
  refine ⟨c1, c2, hsub _ (by simp [changeSteps]), fun f hf => ?_⟩
  have hf3 := c3 f hf
  unfold fileOk at hf3
  simp only [Bool.and_eq_true, beq_iff_eq] at hf3
  refine ⟨hf3.1, hf3.2, hsub _ ?_⟩
  unfold changeSteps
  exact List.mem_append_right _ (List.mem_flatMap.mpr ⟨f, hf, by simp [fileSteps]⟩)

/-! ## the theorem -/

theorem main_loaded_opts (enc : Name) (h : NameOk enc) :
    optsToPy (recOpts (mainOpts enc)) =
      [(b!"encoding", .str enc), (b!"version", .str (Text.ofAscii b!"1.0"))] := by
  have e : recOpts (mainOpts enc) =
      [(b!"encoding", Header.convert enc.toAscii), (b!"version", Header.convert b!"1.0")] := rfl
  rw [e, h.str]
  show [(b!"encoding", PyVal.str (Text.ofAscii enc.toAscii)), _] = _
  rw [← h.ascii]
  rfl

/-- **Object-model round trip, structural call list.** -/
theorem tree_roundtrip_core (env : Env) (cfg : Config) (wv : Text) (t : Tree) (b : Bytes)
    (hchunk : 0 < cfg.chunk) (hk : TreeOk t) (h : toBytes env cfg wv t = .ok b) (enc : Name)
    (hcalls : toCalls cfg.defaultIndent t wv =
      .ok (some enc, Text.ofAscii b!"1.0", treeCalls cfg.defaultIndent t))
    (laws : ProgramLaws env cfg enc (treeCalls cfg.defaultIndent t)) :
    fromBytes env cfg wv b =
      .ok (expTree env cfg cfg.defaultIndent enc (Writer.init (some enc) (Text.ofAscii b!"1.0")).1 t
        laws.calls) := by
  obtain ⟨enc', ver', calls', hc', hout, hok⟩ := toBytes_is_run env cfg wv t b h
  rw [hcalls] at hc'
  injection hc' with hc'
  simp only [Prod.mk.injEq] at hc'
  obtain ⟨rfl, rfl, rfl⟩ := hc'
  have hrt := RunRT.run_roundtrip env cfg cfg.chunk hchunk enc _ hok laws
  rw [hout] at hrt
  obtain ⟨_, hall, _⟩ := RunRT.run_ok env cfg (some enc) (Text.ofAscii b!"1.0") _ hok
  obtain ⟨hkp, hkm, hcs⟩ := wf_of_steps cfg.defaultIndent t hk (toCalls_steps_ok _ _ _ _ hcalls)
  obtain ⟨cur', hl⟩ := load_tree env cfg cfg.defaultIndent enc t hkp hkm hcs _ 1 hall laws.calls
  have hfold : (expectedRecords env cfg enc (treeCalls cfg.defaultIndent t) laws).foldlM loadRecord
      ⟨newTree cfg.defaultEncoding wv, .main⟩ =
      .ok ⟨expTree env cfg cfg.defaultIndent enc (Writer.init (some enc) (Text.ofAscii b!"1.0")).1 t
        laws.calls, cur'⟩ := by
    unfold expectedRecords
    rw [List.foldlM_cons]
    show (Except.ok (LoadSt.mk ⟨optsToPy (recOpts (mainOpts enc)), newPreamble, newMeta, []⟩ Cur.main) >>= _) = _
    rw [main_loaded_opts enc laws.encOk]
    exact hl
  unfold fromBytes
  rw [hrt]
  simp only [hfold]

/-- **the normalised tree** for the program `toCalls` derives from `t`: `expTree` on the
structural call list (`calls = treeCalls di t` by `toCalls_treeCalls`) -/
def expectedTree (env : Env) (cfg : Config) (wv : Text) (t : Tree) (enc : Name) (calls : List Writer.Call)
    (hcalls : toCalls cfg.defaultIndent t wv = .ok (some enc, Text.ofAscii b!"1.0", calls))
    (laws : ProgramLaws env cfg enc calls) : Tree :=
  expTree env cfg cfg.defaultIndent enc (Writer.init (some enc) (Text.ofAscii b!"1.0")).1 t
    ((toCalls_treeCalls _ _ _ _ _ _ hcalls).2 ▸ laws.calls)

/-- **Object-model round trip for whole trees.** -/
theorem tree_roundtrip (env : Env) (cfg : Config) (wv : Text) (t : Tree) (b : Bytes)
    (hchunk : 0 < cfg.chunk) (hk : TreeOk t) (h : toBytes env cfg wv t = .ok b)
    (enc : Name) (calls : List Writer.Call)
    (hcalls : toCalls cfg.defaultIndent t wv = .ok (some enc, Text.ofAscii b!"1.0", calls))
    (laws : ProgramLaws env cfg enc calls) :
    fromBytes env cfg wv b = .ok (expectedTree env cfg wv t enc calls hcalls laws) := by
  have hc := (toCalls_treeCalls _ _ _ _ _ _ hcalls).2
  subst hc
  exact tree_roundtrip_core env cfg wv t b hchunk hk h enc hcalls laws

/-! ## readable corollaries about the normalised tree -/

section Readable
variable (env : Env) (cfg : Config)

theorem expSec_none (st : Writer.St) (dflt : ContentSec) (s : Step) (hs : s = .ok none)
    (L : ProgramLawsFrom env cfg st (stepCalls s)) : expSec env cfg st dflt s L = dflt := by
  subst hs; rfl

/-- a section with falsy content is loaded as the default section -/
theorem expSec_skip (di : Nat) (st : Writer.St) (dflt : ContentSec) (c : ContentSec)
    (h : c.content.truthy = false) (L : ProgramLawsFrom env cfg st (secCalls di c)) :
    expSec env cfg st dflt (contentCall di c) L = dflt :=
  expSec_none env cfg st dflt _ (contentCall_skip di c h) L

theorem expFiles_length (di : Nat) (fl : List FileSec) : ∀ (st : Writer.St)
    (L : ProgramLawsFrom env cfg st (filesCalls di fl)), (expFiles env cfg di st fl L).length = fl.length := by
  induction fl with
  | nil => intro st L; rfl
  | cons f fl ih => intro st L; simp [expFiles, ih]

theorem expChanges_length (di : Nat) (cl : List ChangeSec) : ∀ (st : Writer.St)
    (L : ProgramLawsFrom env cfg st (changesCalls di cl)),
    (expChanges env cfg di st cl L).length = cl.length := by
  induction cl with
  | nil => intro st L; rfl
  | cons c cl ih => intro st L; simp [expChanges, ih]

theorem expChanges_shape (di : Nat) (cl : List ChangeSec) : ∀ (st : Writer.St)
    (L : ProgramLawsFrom env cfg st (changesCalls di cl)),
    (expChanges env cfg di st cl L).map (·.files.length) = cl.map (·.files.length) := by
  induction cl with
  | nil => intro st L; rfl
  | cons c cl ih =>
    intro st L
    simp only [expChanges, List.map_cons, ih]
    congr 1
    exact expFiles_length env cfg di c.files _ _

/-- the `i`-th loaded file is the expected file of the `i`-th file, for the writer state
reached there and the laws of its calls -/
theorem expFiles_get (di : Nat) (fl : List FileSec) : ∀ (st : Writer.St)
    (L : ProgramLawsFrom env cfg st (filesCalls di fl)) (i : Nat) (h : i < fl.length),
    ∃ (st' : Writer.St) (L' : ProgramLawsFrom env cfg st' (fileCalls di fl[i])),
      (expFiles env cfg di st fl L)[i]? = some (expFile env cfg di st' fl[i] L') := by
  induction fl with
  | nil => intro st L i h; cases h
  | cons f fl ih =>
    intro st L i h
    cases i with
    | zero => exact ⟨_, _, rfl⟩
    | succ i =>
      obtain ⟨st', L', e⟩ := ih _ (lawsRight env cfg st (fileCalls di f) (filesCalls di fl) L) i
        (Nat.lt_of_succ_lt_succ h)
      exact ⟨st', L', e⟩

theorem expChanges_get (di : Nat) (cl : List ChangeSec) : ∀ (st : Writer.St)
    (L : ProgramLawsFrom env cfg st (changesCalls di cl)) (i : Nat) (h : i < cl.length),
    ∃ (st' : Writer.St) (L' : ProgramLawsFrom env cfg st' (changeCalls di cl[i])),
      (expChanges env cfg di st cl L)[i]? = some (expChange env cfg di st' cl[i] L') := by
  induction cl with
  | nil => intro st L i h; cases h
  | cons c cl ih =>
    intro st L i h
    cases i with
    | zero => exact ⟨_, _, rfl⟩
    | succ i =>
      obtain ⟨st', L', e⟩ := ih _ (lawsRight env cfg st (changeCalls di c) (changesCalls di cl) L) i
        (Nat.lt_of_succ_lt_succ h)
      exact ⟨st', L', e⟩

/-- the loaded change: skipped sections are the defaults of a fresh change, the container
options are the `encoding` given (if any), the files are the expected files in order -/
theorem expChange_facts (di : Nat) (st : Writer.St) (c : ChangeSec)
    (L : ProgramLawsFrom env cfg st (changeCalls di c)) :
    (c.preamble.content.truthy = false → (expChange env cfg di st c L).preamble = newPreamble) ∧
    (c.metaSec.content.truthy = false → (expChange env cfg di st c L).metaSec = newMeta) ∧
    (expChange env cfg di st c L).files.length = c.files.length ∧
    (∀ enc, containerCall Writer.Call.newChange c.opts = .ok (some (.newChange enc)) →
      (expChange env cfg di st c L).opts = optStr b!"encoding" enc) :=
  ⟨fun h => expSec_skip env cfg di _ _ _ h _, fun h => expSec_skip env cfg di _ _ _ h _,
   expFiles_length env cfg di _ _ _,
   fun enc h => by show containerDOpts _ = _; rw [h]; rfl⟩

theorem expFile_facts (di : Nat) (st : Writer.St) (f : FileSec)
    (L : ProgramLawsFrom env cfg st (fileCalls di f)) :
    (f.metaSec.content.truthy = false → (expFile env cfg di st f L).metaSec = newMeta) ∧
    (f.diff.content.truthy = false → (expFile env cfg di st f L).diff = newDiff) ∧
    (∀ enc, containerCall Writer.Call.newFile f.opts = .ok (some (.newFile enc)) →
      (expFile env cfg di st f L).opts = optStr b!"encoding" enc) :=
  ⟨fun h => expSec_skip env cfg di _ _ _ h _, fun h => expSec_skip env cfg di _ _ _ h _,
   fun enc h => by show containerDOpts _ = _; rw [h]; rfl⟩

/-- a written preamble: kind, options (encoding / mimetype if given, the indent used — `None`
when not indented —, detected line endings; no `length`), decoded text of the laws -/
theorem expSec_preamble (st : Writer.St) (dflt : ContentSec) (s : Step) (t : Text) (enc : Option Name)
    (indent : Option Int) (le mime : Option Text) (hs : s = .ok (some (.preamble (.str t) enc indent le mime)))
    (L : ProgramLawsFrom env cfg st (stepCalls s)) :
    ∃ L' : PreambleLaws env cfg st t enc indent le,
      expSec env cfg st dflt s L = ⟨.preamble, preambleOpts enc indent L'.leOut mime, .str L'.text.decoded⟩ := by
  subst hs; exact ⟨L.1, rfl⟩

theorem expSec_meta (st : Writer.St) (dflt : ContentSec) (s : Step) (j : Json) (enc : Option Name)
    (fmt : Text) (hs : s = .ok (some (.metadata (.dict j) enc fmt)))
    (L : ProgramLawsFrom env cfg st (stepCalls s)) :
    ∃ L' : MetaLaws env cfg st j enc,
      expSec env cfg st dflt s L = ⟨.metadata, metaOpts enc fmt, .dict L'.parsed⟩ := by
  subst hs; exact ⟨L.1, rfl⟩

theorem expSec_diff (st : Writer.St) (dflt : ContentSec) (s : Step) (d : Bytes) (ty : Option Text)
    (enc : Option Name) (le : Option Text) (hs : s = .ok (some (.diff (.bytes d) ty enc le)))
    (L : ProgramLawsFrom env cfg st (stepCalls s)) :
    ∃ L' : DiffCallLaws env cfg st d enc le,
      expSec env cfg st dflt s L = ⟨.diff, diffOpts enc L'.leOut ty, .bytes L'.data⟩ := by
  subst hs; exact ⟨L.1, rfl⟩

end Readable

/-- the options of a loaded preamble, key by key -/
theorem preambleOpts_get (e : Option Name) (indent : Option Int) (le : Text) (mime : Option Text) :
    (preambleOpts e indent le mime).get b!"encoding" = e.map PyVal.str ∧
    (preambleOpts e indent le mime).get b!"indent" =
      some (match indent with | some i => .int i | none => .none) ∧
    (preambleOpts e indent le mime).get b!"line_endings" = some (.str le) ∧
    (preambleOpts e indent le mime).get b!"mimetype" = mime.map PyVal.str ∧
    (preambleOpts e indent le mime).get b!"length" = none := by
  cases e <;> cases indent <;> cases mime <;>
    simp (config := {decide := true}) [preambleOpts, optStr, DOpts.get, List.lookup]

/-- when the section has no `indent` key the writer is called with the default indent -/
theorem contentCall_default_indent (di : Nat) (c : ContentSec) (text : Writer.Arg) (e : Option Name)
    (indent : Option Int) (le mime : Option Text)
    (h : contentCall di c = .ok (some (.preamble text e indent le mime)))
    (hi : c.opts.get b!"indent" = none) : indent = some (di : Int) := by
  unfold contentCall at h
  split at h
  · cases h
  · cases hk : c.kind <;> simp only [hk, hi] at h <;>
      simp only [bind, Except.bind, pure, Except.pure, throw, throwThe, MonadExceptOf.throw] at h
    all_goals repeat' (split at h)
    all_goals first
      | (cases h; done)
      | (injection h with h; injection h with h; injection h with _ _ h _ _; exact h.symm)
      | (injection h with h; injection h with h; cases h; done)

/-! ## C06: re-serialising the normalised tree gives the same bytes -/

section Fixed
variable (env : Env) (cfg : Config)

/-- **the laws of re-preparing normalised content**, for one call made in writer state `st`:
preparing the decoded preamble text again, now with the recorded `line_endings`, gives the
same bytes; the parsed metadata is not empty and dumps to the same text; preparing the
prepared diff again, with the recorded `line_endings`, changes nothing.
(Statements about `Writer.prepareContent` and `env.dumps` only.) -/
def ReCallLaws (st : Writer.St) (c : Writer.Call) (L : CallLaws env cfg st c) : Prop :=
  match c, L with
  | .preamble (.str _) enc indent _ _, L =>
    Writer.prepareContent env cfg st (.str L.text.decoded) indent (some L.leOut) enc true = .ok (L.data, L.leOut)
  | .metadata (.dict _) _ _, L => L.parsed ≠ .obj [] ∧ env.dumps L.parsed = .ok L.text
  | .diff (.bytes _) _ enc _, L =>
    Writer.prepareContent env cfg st (.bytes L.data) none (some L.leOut) enc false = .ok (L.data, L.leOut)
  | _, _ => True

def ReLawsFrom : (st : Writer.St) → (cs : List Writer.Call) → ProgramLawsFrom env cfg st cs → Prop
  | _, [], _ => True
  | st, c :: cs, (L, Ls) => ReCallLaws env cfg st c L ∧ ReLawsFrom (Writer.step env cfg st c).1 cs Ls

theorem reLaws_append (xs ys : List Writer.Call) : ∀ (st : Writer.St)
    (L : ProgramLawsFrom env cfg st (xs ++ ys)),
    ReLawsFrom env cfg st (xs ++ ys) L ↔
      ReLawsFrom env cfg st xs (lawsLeft env cfg st xs ys L) ∧
        ReLawsFrom env cfg (runFrom env cfg st xs) ys (lawsRight env cfg st xs ys L) := by
  induction xs with
  | nil => intro st L; exact ⟨fun h => ⟨trivial, h⟩, fun h => h.2⟩
  | cons c xs ih =>
    intro st L
    obtain ⟨L1, Ls⟩ := L
    have := ih (Writer.step env cfg st c).1 Ls
    exact ⟨fun h => ⟨⟨h.1, (this.mp h.2).1⟩, (this.mp h.2).2⟩, fun h => ⟨h.1.1, this.mpr ⟨h.1.2, h.2⟩⟩⟩

/-- the effect of one step of `to_bytes` -/
def stepEff (st : Writer.St) : Step → Except WErr Writer.St
  | .error e => .error e
  | .ok none => .ok st
  | .ok (some c) =>
    if (Writer.step env cfg st c).2 != .ok then .error (.writer (Writer.step env cfg st c).2)
    else .ok (Writer.step env cfg st c).1

/-- the writer state after the steps -/
def goSt : Writer.St → List Step → Except WErr Writer.St
  | st, [] => .ok st
  | st, s :: rest => stepEff env cfg st s >>= fun st' => goSt st' rest

theorem go_eq_goSt (ss : List Step) : ∀ st : Writer.St,
    toBytes.go env cfg st ss = (goSt env cfg st ss).map (·.out) := by
  induction ss with
  | nil => intro st; rfl
  | cons s rest ih =>
    intro st
    cases s with
    | error e => rfl
    | ok oc =>
      cases oc with
      | none => exact ih st
      | some c =>
        simp only [toBytes.go, goSt, stepEff]
        by_cases hr : (Writer.step env cfg st c).2 = .ok
        · simp only [hr, bne_self_eq_false, Bool.false_eq_true, if_false]
          exact ih _
        · have : ((Writer.step env cfg st c).2 != .ok) = true := by simpa using hr
          simp only [this, if_true]
          rfl

theorem goSt_cons_ok (st st' : Writer.St) (s : Step) (rest : List Step)
    (h : stepEff env cfg st s = .ok st') : goSt env cfg st (s :: rest) = goSt env cfg st' rest := by
  simp only [goSt, h]
  rfl

theorem stepEff_call (st : Writer.St) (c : Writer.Call) (h : (Writer.step env cfg st c).2 = .ok) :
    stepEff env cfg st (.ok (some c)) = .ok (runFrom env cfg st [c]) := by
  simp only [stepEff, h, bne_self_eq_false, Bool.false_eq_true, if_false]
  rfl

theorem step_congr (st : Writer.St) (c c' : Writer.Call) (h1 : Writer.pre env c' = Writer.pre env c)
    (h2 : Writer.secOf st c' = Writer.secOf st c) (h3 : Writer.payload env cfg st c' = Writer.payload env cfg st c) :
    Writer.step env cfg st c' = Writer.step env cfg st c := by
  rw [Writer.step_eq, Writer.step_eq, h1, h2, h3]

theorem contentCall_loaded_preamble (di : Nat) (e : Option Name) (indent : Option Int) (le : Text)
    (mime : Option Text) (d : Text) (hd : d ≠ []) :
    contentCall di ⟨.preamble, preambleOpts e indent le mime, .str d⟩ =
      .ok (some (.preamble (.str d) e indent (some le) mime)) := by
  have ht : (PyVal.str d).truthy = true := by
    cases d with
    | nil => exact absurd rfl hd
    | cons a r => rfl
  unfold contentCall
  simp only [ht, Bool.not_true, Bool.false_eq_true, if_false]
  cases e <;> cases indent <;> cases mime <;> rfl

theorem contentCall_loaded_meta (di : Nat) (e : Option Name) (fmt : Text) (j : Json)
    (hj : (PyVal.dict j).truthy = true) :
    contentCall di ⟨.metadata, metaOpts e fmt, .dict j⟩ = .ok (some (.metadata (.dict j) e fmt)) := by
  unfold contentCall
  simp only [hj, Bool.not_true, Bool.false_eq_true, if_false]
  cases e <;> rfl

theorem contentCall_loaded_diff (di : Nat) (e : Option Name) (le : Text) (ty : Option Text) (d : Bytes)
    (hd : d ≠ []) :
    contentCall di ⟨.diff, diffOpts e le ty, .bytes d⟩ = .ok (some (.diff (.bytes d) ty e (some le))) := by
  have ht : (PyVal.bytes d).truthy = true := by
    cases d with
    | nil => exact absurd rfl hd
    | cons a r => rfl
  unfold contentCall
  simp only [ht, Bool.not_true, Bool.false_eq_true, if_false]
  cases e <;> cases ty <;> rfl

theorem prepare_str_ne (st : Writer.St) (d : Text) (indent : Option Int) (le : Option Text)
    (enc : Option Name) (inh : Bool) (r : Bytes × Text)
    (h : Writer.prepareContent env cfg st (.str d) indent le enc inh = .ok r) : d ≠ [] := by
  rintro rfl
  simp [Writer.prepareContent, bind, Except.bind, throw, throwThe, MonadExceptOf.throw] at h

theorem prepare_bytes_ne (st : Writer.St) (d : Bytes) (indent : Option Int) (le : Option Text)
    (enc : Option Name) (inh : Bool) (r : Bytes × Text)
    (h : Writer.prepareContent env cfg st (.bytes d) indent le enc inh = .ok r) : d ≠ [] := by
  rintro rfl
  simp [Writer.prepareContent, bind, Except.bind, throw, throwThe, MonadExceptOf.throw] at h

/-- re-serialising one loaded content section makes a call with the same effect -/
theorem restep_call (di : Nat) (st : Writer.St) (c : Writer.Call) (k : Kind) (hk : callKind c = some k)
    (hok : (Writer.step env cfg st c).2 = .ok) (L : CallLaws env cfg st c) (re : ReCallLaws env cfg st c L)
    (dflt : ContentSec) :
    stepEff env cfg st (contentCall di (expContent env cfg st dflt c L)) = .ok (runFrom env cfg st [c]) := by
  obtain ⟨b, stk, hpre, hv, hpl, hstep⟩ := RunRT.step_ok_inv env cfg st c hok
  cases c with
  | newChange enc => cases hk
  | newFile enc => cases hk
  | preamble text enc indent le mime =>
    cases text with
    | str t =>
      have re' : Writer.prepareContent env cfg st (.str L.text.decoded) indent (some L.leOut) enc true =
        .ok (L.data, L.leOut) := re
      show stepEff env cfg st (contentCall di ⟨.preamble, preambleOpts enc indent L.leOut mime, .str L.text.decoded⟩) = _
      rw [contentCall_loaded_preamble di enc indent L.leOut mime _ (prepare_str_ne env cfg _ _ _ _ _ _ _ re')]
      have hs : Writer.step env cfg st (.preamble (.str L.text.decoded) enc indent (some L.leOut) mime) =
          Writer.step env cfg st (.preamble (.str t) enc indent le mime) := by
        refine step_congr env cfg st _ _ ?_ ?_ ?_
        · rfl
        · rfl
        · simp only [Writer.payload, Writer.contentPayload, re', L.hprep]
      rw [stepEff_call env cfg st _ (by rw [hs]; exact hok)]
      show Except.ok (Writer.step env cfg st _).1 = Except.ok (Writer.step env cfg st _).1
      rw [hs]
    | bytes _ => simp [Writer.pre] at hpre
    | dict _ => simp [Writer.pre] at hpre
    | other => simp [Writer.pre] at hpre
  | metadata m enc fmt =>
    cases m with
    | dict j =>
      have re' : L.parsed ≠ .obj [] ∧ env.dumps L.parsed = .ok L.text := re
      have hobj := L.hobj
      have htr : (PyVal.dict L.parsed).truthy = true := by
        cases hp : L.parsed with
        | obj l =>
          cases l with
          | nil => exact absurd hp re'.1
          | cons a r => rfl
        | _ => rfl
      show stepEff env cfg st (contentCall di ⟨.metadata, metaOpts enc fmt, .dict L.parsed⟩) = _
      rw [contentCall_loaded_meta di enc fmt _ htr]
      have hfmt : (!Writer.metaFormats.contains fmt) = false := by
        simp only [Writer.pre] at hpre
        split at hpre
        · cases hpre
        · split at hpre
          · cases hpre
          · rename_i h
            simpa using h
      have hs : Writer.step env cfg st (.metadata (.dict L.parsed) enc fmt) =
          Writer.step env cfg st (.metadata (.dict j) enc fmt) := by
        refine step_congr env cfg st _ _ ?_ ?_ ?_
        · rw [hpre]
          simp only [Writer.pre, hfmt, re'.2, Writer.liftEnv, Bool.false_eq_true, if_false]
          cases hp : L.parsed with
          | obj l =>
            cases l with
            | nil => exact absurd hp re'.1
            | cons a r => rfl
          | _ => rfl
        · rfl
        · simp only [Writer.payload, re'.2, L.hdumps]
      rw [stepEff_call env cfg st _ (by rw [hs]; exact hok)]
      show Except.ok (Writer.step env cfg st _).1 = Except.ok (Writer.step env cfg st _).1
      rw [hs]
    | str _ => simp [Writer.pre] at hpre
    | bytes _ => simp [Writer.pre] at hpre
    | other => simp [Writer.pre] at hpre
  | diff content dtype enc le =>
    cases content with
    | bytes d =>
      have re' : Writer.prepareContent env cfg st (.bytes L.data) none (some L.leOut) enc false =
        .ok (L.data, L.leOut) := re
      show stepEff env cfg st (contentCall di ⟨.diff, diffOpts enc L.leOut dtype, .bytes L.data⟩) = _
      rw [contentCall_loaded_diff di enc L.leOut dtype _ (prepare_bytes_ne env cfg _ _ _ _ _ _ _ re')]
      have hs : Writer.step env cfg st (.diff (.bytes L.data) dtype enc (some L.leOut)) =
          Writer.step env cfg st (.diff (.bytes d) dtype enc le) := by
        refine step_congr env cfg st _ _ ?_ ?_ ?_
        · rfl
        · rfl
        · simp only [Writer.payload, Writer.contentPayload, re', L.hprep]
      rw [stepEff_call env cfg st _ (by rw [hs]; exact hok)]
      show Except.ok (Writer.step env cfg st _).1 = Except.ok (Writer.step env cfg st _).1
      rw [hs]
    | str _ => simp [Writer.pre] at hpre
    | dict _ => simp [Writer.pre] at hpre
    | other => simp [Writer.pre] at hpre

/-- a step of the walk that is a content section: re-serialising what was loaded for it has
the effect the original step had -/
theorem restep_content (di : Nat) (k : Kind) (s : Step) (hsok : ∃ oc, s = .ok oc)
    (hs : ∀ call, s = .ok (some call) → callKind call = some k) (st : Writer.St)
    (hok : AllOk env cfg st (stepCalls s)) (L : ProgramLawsFrom env cfg st (stepCalls s))
    (re : ReLawsFrom env cfg st (stepCalls s) L) (dflt : ContentSec) (hd : contentCall di dflt = .ok none) :
    stepEff env cfg st (contentCall di (expSec env cfg st dflt s L)) =
      .ok (runFrom env cfg st (stepCalls s)) := by
  obtain ⟨oc, rfl⟩ := hsok
  cases oc with
  | none =>
    show stepEff env cfg st (contentCall di dflt) = _
    rw [hd]; rfl
  | some c =>
    obtain ⟨L1, Ls⟩ := L
    exact restep_call env cfg di st c k (hs c rfl) hok.1 L1 re.1 dflt

theorem restep_newChange (s : Step) (e : Option Name) (hs : s = .ok (some (.newChange e))) (st : Writer.St)
    (hok : AllOk env cfg st (stepCalls s)) :
    stepEff env cfg st (containerCall Writer.Call.newChange (containerDOpts s)) =
      .ok (runFrom env cfg st (stepCalls s)) := by
  subst hs
  have : containerCall Writer.Call.newChange (containerDOpts (.ok (some (.newChange e)))) =
      .ok (some (.newChange e)) := by cases e <;> rfl
  rw [this]
  exact stepEff_call env cfg st _ hok.1

theorem restep_newFile (s : Step) (e : Option Name) (hs : s = .ok (some (.newFile e))) (st : Writer.St)
    (hok : AllOk env cfg st (stepCalls s)) :
    stepEff env cfg st (containerCall Writer.Call.newFile (containerDOpts s)) =
      .ok (runFrom env cfg st (stepCalls s)) := by
  subst hs
  have : containerCall Writer.Call.newFile (containerDOpts (.ok (some (.newFile e)))) =
      .ok (some (.newFile e)) := by cases e <;> rfl
  rw [this]
  exact stepEff_call env cfg st _ hok.1

def FileWF' (di : Nat) (f : FileSec) : Prop :=
  f.metaSec.kind = .metadata ∧ f.diff.kind = .diff ∧ ∀ s ∈ fileSteps di f, ∃ oc, s = .ok oc

def ChangeWF' (di : Nat) (c : ChangeSec) : Prop :=
  c.preamble.kind = .preamble ∧ c.metaSec.kind = .metadata ∧
    (∀ s ∈ changeSteps di c, ∃ oc, s = .ok oc) ∧ ∀ f ∈ c.files, FileWF' di f

theorem refile (di : Nat) (f : FileSec) (hf : FileWF' di f) (st : Writer.St)
    (hok : AllOk env cfg st (fileCalls di f)) (L : ProgramLawsFrom env cfg st (fileCalls di f))
    (re : ReLawsFrom env cfg st (fileCalls di f) L) (rest : List Step) :
    goSt env cfg st (fileSteps di (expFile env cfg di st f L) ++ rest) =
      goSt env cfg (runFrom env cfg st (fileCalls di f)) rest := by
  obtain ⟨hkm, hkd, hs⟩ := hf
  obtain ⟨oc, hoc⟩ := hs (containerCall Writer.Call.newFile f.opts) (by simp [fileSteps])
  obtain ⟨enc, rfl⟩ := containerCall_shape _ _ _ hoc
  obtain ⟨hokA, hokR⟩ := (allOk_append env cfg (stepCalls (containerCall Writer.Call.newFile f.opts))
    (secCalls di f.metaSec ++ secCalls di f.diff) st).mp hok
  obtain ⟨hokM, hokD⟩ := (allOk_append env cfg (secCalls di f.metaSec) (secCalls di f.diff) _).mp hokR
  obtain ⟨_, reR⟩ := (reLaws_append env cfg (stepCalls (containerCall Writer.Call.newFile f.opts))
    (secCalls di f.metaSec ++ secCalls di f.diff) st L).mp re
  obtain ⟨reM, reD⟩ := (reLaws_append env cfg (secCalls di f.metaSec) (secCalls di f.diff) _ _).mp reR
  refine (goSt_cons_ok env cfg _ _ _ _ (restep_newFile env cfg _ enc hoc st hokA)).trans ?_
  refine (goSt_cons_ok env cfg _ _ _ _ (restep_content env cfg di .metadata _ (hs _ (by simp [fileSteps]))
    (kind_hs di _ _ hkm) _ hokM _ reM newMeta rfl)).trans ?_
  refine (goSt_cons_ok env cfg _ _ _ _ (restep_content env cfg di .diff _ (hs _ (by simp [fileSteps]))
    (kind_hs di _ _ hkd) _ hokD _ reD newDiff rfl)).trans ?_
  show goSt env cfg _ rest = goSt env cfg (runFrom env cfg st (_ ++ (_ ++ _))) rest
  rw [runFrom_append, runFrom_append]

theorem refiles (di : Nat) (fl : List FileSec) (hfl : ∀ f ∈ fl, FileWF' di f) (rest : List Step) :
    ∀ (st : Writer.St) (_ : AllOk env cfg st (filesCalls di fl))
      (L : ProgramLawsFrom env cfg st (filesCalls di fl)) (_ : ReLawsFrom env cfg st (filesCalls di fl) L),
      goSt env cfg st ((expFiles env cfg di st fl L).flatMap (fileSteps di) ++ rest) =
        goSt env cfg (runFrom env cfg st (filesCalls di fl)) rest := by
  induction fl with
  | nil => intro st _ L _; rfl
  | cons f fl ih =>
    intro st hok L re
    obtain ⟨hokF, hokR⟩ := (allOk_append env cfg (fileCalls di f) (filesCalls di fl) st).mp hok
    obtain ⟨reF, reR⟩ := (reLaws_append env cfg (fileCalls di f) (filesCalls di fl) st L).mp re
    show goSt env cfg st ((expFile env cfg di st f _ :: expFiles env cfg di _ fl _).flatMap (fileSteps di) ++ rest) =
      goSt env cfg (runFrom env cfg st (fileCalls di f ++ filesCalls di fl)) rest
    rw [List.flatMap_cons, List.append_assoc,
      refile env cfg di f (hfl f List.mem_cons_self) st hokF _ reF,
      ih (fun g hg => hfl g (List.mem_cons_of_mem _ hg)) _ hokR _ reR, runFrom_append]

theorem rechange (di : Nat) (c : ChangeSec) (hc : ChangeWF' di c) (st : Writer.St)
    (hok : AllOk env cfg st (changeCalls di c)) (L : ProgramLawsFrom env cfg st (changeCalls di c))
    (re : ReLawsFrom env cfg st (changeCalls di c) L) (rest : List Step) :
    goSt env cfg st (changeSteps di (expChange env cfg di st c L) ++ rest) =
      goSt env cfg (runFrom env cfg st (changeCalls di c)) rest := by
  obtain ⟨hkp, hkm, hs, hfs⟩ := hc
  obtain ⟨oc, hoc⟩ := hs (containerCall Writer.Call.newChange c.opts) (by simp [changeSteps])
  obtain ⟨enc, rfl⟩ := containerCall_shape _ _ _ hoc
  obtain ⟨hokA, hokR⟩ := (allOk_append env cfg (stepCalls (containerCall Writer.Call.newChange c.opts))
    (secCalls di c.preamble ++ (secCalls di c.metaSec ++ filesCalls di c.files)) st).mp hok
  obtain ⟨hokP, hokR⟩ := (allOk_append env cfg (secCalls di c.preamble)
    (secCalls di c.metaSec ++ filesCalls di c.files) _).mp hokR
  obtain ⟨hokM, hokF⟩ := (allOk_append env cfg (secCalls di c.metaSec) (filesCalls di c.files) _).mp hokR
  obtain ⟨_, reR⟩ := (reLaws_append env cfg (stepCalls (containerCall Writer.Call.newChange c.opts))
    (secCalls di c.preamble ++ (secCalls di c.metaSec ++ filesCalls di c.files)) st L).mp re
  obtain ⟨reP, reR⟩ := (reLaws_append env cfg (secCalls di c.preamble)
    (secCalls di c.metaSec ++ filesCalls di c.files) _ _).mp reR
  obtain ⟨reM, reF⟩ := (reLaws_append env cfg (secCalls di c.metaSec) (filesCalls di c.files) _ _).mp reR
  show goSt env cfg st (_ :: _ :: _ :: ((expChange env cfg di st c L).files.flatMap (fileSteps di) ++ rest)) = _
  refine (goSt_cons_ok env cfg _ _ _ _ (restep_newChange env cfg _ enc hoc st hokA)).trans ?_
  refine (goSt_cons_ok env cfg _ _ _ _ (restep_content env cfg di .preamble _ (hs _ (by simp [changeSteps]))
    (kind_hs di _ _ hkp) _ hokP _ reP newPreamble rfl)).trans ?_
  refine (goSt_cons_ok env cfg _ _ _ _ (restep_content env cfg di .metadata _ (hs _ (by simp [changeSteps]))
    (kind_hs di _ _ hkm) _ hokM _ reM newMeta rfl)).trans ?_
  refine (refiles env cfg di c.files hfs rest _ hokF _ reF).trans ?_
  show goSt env cfg _ rest = goSt env cfg (runFrom env cfg st (_ ++ (_ ++ (_ ++ _)))) rest
  rw [runFrom_append, runFrom_append, runFrom_append]

theorem rechanges (di : Nat) (cl : List ChangeSec) (hcl : ∀ c ∈ cl, ChangeWF' di c) (rest : List Step) :
    ∀ (st : Writer.St) (_ : AllOk env cfg st (changesCalls di cl))
      (L : ProgramLawsFrom env cfg st (changesCalls di cl)) (_ : ReLawsFrom env cfg st (changesCalls di cl) L),
      goSt env cfg st ((expChanges env cfg di st cl L).flatMap (changeSteps di) ++ rest) =
        goSt env cfg (runFrom env cfg st (changesCalls di cl)) rest := by
  induction cl with
  | nil => intro st _ L _; rfl
  | cons c cl ih =>
    intro st hok L re
    obtain ⟨hokC, hokR⟩ := (allOk_append env cfg (changeCalls di c) (changesCalls di cl) st).mp hok
    obtain ⟨reC, reR⟩ := (reLaws_append env cfg (changeCalls di c) (changesCalls di cl) st L).mp re
    show goSt env cfg st ((expChange env cfg di st c _ :: expChanges env cfg di _ cl _).flatMap (changeSteps di)
        ++ rest) = goSt env cfg (runFrom env cfg st (changeCalls di c ++ changesCalls di cl)) rest
    rw [List.flatMap_cons, List.append_assoc,
      rechange env cfg di c (hcl c List.mem_cons_self) st hokC _ reC,
      ih (fun g hg => hcl g (List.mem_cons_of_mem _ hg)) _ hokR _ reR, runFrom_append]

theorem retree (di : Nat) (enc : Name) (t : Tree) (hkp : t.preamble.kind = .preamble)
    (hkm : t.metaSec.kind = .metadata) (hs : ∀ s ∈ steps di t, ∃ oc, s = .ok oc)
    (hcs : ∀ c ∈ t.changes, ChangeWF' di c) (st : Writer.St) (hok : AllOk env cfg st (treeCalls di t))
    (L : ProgramLawsFrom env cfg st (treeCalls di t)) (re : ReLawsFrom env cfg st (treeCalls di t) L) :
    goSt env cfg st (steps di (expTree env cfg di enc st t L)) = .ok (runFrom env cfg st (treeCalls di t)) := by
  obtain ⟨hokP, hokR⟩ := (allOk_append env cfg (secCalls di t.preamble)
    (secCalls di t.metaSec ++ changesCalls di t.changes) st).mp hok
  obtain ⟨hokM, hokC⟩ := (allOk_append env cfg (secCalls di t.metaSec) (changesCalls di t.changes) _).mp hokR
  obtain ⟨reP, reR⟩ := (reLaws_append env cfg (secCalls di t.preamble)
    (secCalls di t.metaSec ++ changesCalls di t.changes) st L).mp re
  obtain ⟨reM, reC⟩ := (reLaws_append env cfg (secCalls di t.metaSec) (changesCalls di t.changes) _ _).mp reR
  show goSt env cfg st (_ :: _ :: ((expTree env cfg di enc st t L).changes.flatMap (changeSteps di))) = _
  refine (goSt_cons_ok env cfg _ _ _ _ (restep_content env cfg di .preamble _ (hs _ (by simp [steps]))
    (kind_hs di _ _ hkp) _ hokP _ reP newPreamble rfl)).trans ?_
  refine (goSt_cons_ok env cfg _ _ _ _ (restep_content env cfg di .metadata _ (hs _ (by simp [steps]))
    (kind_hs di _ _ hkm) _ hokM _ reM newMeta rfl)).trans ?_
  have h := rechanges env cfg di t.changes hcs [] _ hokC _ reC
  rw [List.append_nil] at h
  refine h.trans ?_
  show Except.ok _ = Except.ok (runFrom env cfg st (_ ++ (_ ++ _)))
  rw [runFrom_append, runFrom_append]

theorem wf'_of_steps (di : Nat) (t : Tree) (hk : TreeOk t) (hs : ∀ s ∈ steps di t, ∃ oc, s = .ok oc) :
    t.preamble.kind = .preamble ∧ t.metaSec.kind = .metadata ∧ ∀ c ∈ t.changes, ChangeWF' di c := by
  unfold TreeOk treeOk at hk
  simp only [Bool.and_eq_true, beq_iff_eq, List.all_eq_true] at hk
  obtain ⟨⟨h1, h2⟩, h3⟩ := hk
  refine ⟨h1, h2, fun c hc => ?_⟩
  have hc3 := h3 c hc
  unfold changeOk at hc3
  simp only [Bool.and_eq_true, beq_iff_eq, List.all_eq_true] at hc3
  obtain ⟨⟨c1, c2⟩, c3⟩ := hc3
  have hsub : ∀ s ∈ changeSteps di c, ∃ oc, s = .ok oc := by
    intro s hm
    apply hs
    unfold steps
    exact List.mem_append_right _ (List.mem_flatMap.mpr ⟨c, hc, hm⟩)
  refine ⟨c1, c2, hsub, fun f hf => ?_⟩
  have hf3 := c3 f hf
  unfold fileOk at hf3
  simp only [Bool.and_eq_true, beq_iff_eq] at hf3
  refine ⟨hf3.1, hf3.2, fun s hm => hsub _ ?_⟩
  unfold changeSteps
  exact List.mem_append_right _ (List.mem_flatMap.mpr ⟨f, hf, hm⟩)

/-- the re-preparation laws of a program -/
def ReLaws (enc : Name) (calls : List Writer.Call) (laws : ProgramLaws env cfg enc calls) : Prop :=
  ReLawsFrom env cfg (Writer.init (some enc) (Text.ofAscii b!"1.0")).1 calls laws.calls

/-- **C06 fixed point, structural call list**: re-serialising the normalised tree gives the
bytes the original tree gave -/
theorem tree_fixed_core (wv : Text) (t : Tree) (b : Bytes) (hk : TreeOk t)
    (h : toBytes env cfg wv t = .ok b) (enc : Name)
    (hcalls : toCalls cfg.defaultIndent t wv =
      .ok (some enc, Text.ofAscii b!"1.0", treeCalls cfg.defaultIndent t))
    (laws : ProgramLaws env cfg enc (treeCalls cfg.defaultIndent t))
    (re : ReLaws env cfg enc (treeCalls cfg.defaultIndent t) laws) :
    toBytes env cfg wv (expTree env cfg cfg.defaultIndent enc
      (Writer.init (some enc) (Text.ofAscii b!"1.0")).1 t laws.calls) = .ok b := by
  obtain ⟨enc', ver', calls', hc', hout, hok⟩ := toBytes_is_run env cfg wv t b h
  rw [hcalls] at hc'
  injection hc' with hc'
  simp only [Prod.mk.injEq] at hc'
  obtain ⟨rfl, rfl, rfl⟩ := hc'
  obtain ⟨hinit, hall, hrun⟩ := RunRT.run_ok env cfg (some enc) (Text.ofAscii b!"1.0") _ hok
  have hs := toCalls_steps_ok _ _ _ _ hcalls
  obtain ⟨hkp, hkm, hcs⟩ := wf'_of_steps cfg.defaultIndent t hk hs
  have hgo := retree env cfg cfg.defaultIndent enc t hkp hkm hs hcs _ hall laws.calls re
  have hctor : ctorArgs (expTree env cfg cfg.defaultIndent enc
      (Writer.init (some enc) (Text.ofAscii b!"1.0")).1 t laws.calls) wv =
      .ok (some enc, Text.ofAscii b!"1.0") := rfl
  unfold toBytes
  simp only [hctor, bind, Except.bind]
  simp only [hinit, bne_self_eq_false, Bool.false_eq_true, if_false]
  rw [go_eq_goSt, hgo]
  show Except.ok (runFrom env cfg _ _).out = _
  rw [← hrun, hout]

/-- **C06 fixed point**: under the re-preparation laws, `to_bytes` of the normalised tree is
the bytes `to_bytes` gave for the original tree -/
theorem tree_fixed_point (wv : Text) (t : Tree) (b : Bytes) (hk : TreeOk t)
    (h : toBytes env cfg wv t = .ok b) (enc : Name) (calls : List Writer.Call)
    (hcalls : toCalls cfg.defaultIndent t wv = .ok (some enc, Text.ofAscii b!"1.0", calls))
    (laws : ProgramLaws env cfg enc calls) (re : ReLaws env cfg enc calls laws) :
    toBytes env cfg wv (expectedTree env cfg wv t enc calls hcalls laws) = .ok b := by
  have hc := (toCalls_treeCalls _ _ _ _ _ _ hcalls).2
  subst hc
  exact tree_fixed_core env cfg wv t b hk h enc hcalls laws re

end Fixed

end Diffx.DomRT
