import DiffxVerif.Spec.HeaderGrammar
/-!
# Lemmas about the header-line model (`Model/Header.lean`) and the header grammar
(`Spec/HeaderGrammar.lean`), used by `Properties/C11.lean`.

Core Lean only.
-/
namespace Diffx.Header
open Diffx

/-- core has no `DecidableEq (Except ε α)`; the `decide` tests at the end of
`Properties/C11.lean` compare `parseHeader` results -/
instance : DecidableEq (Except Err Hdr)
  | .ok x, .ok y => if h : x = y then isTrue (h ▸ rfl) else isFalse (fun e => h (Except.ok.inj e))
  | .error x, .error y =>
    if h : x = y then isTrue (h ▸ rfl) else isFalse (fun e => h (Except.error.inj e))
  | .ok _, .error _ => isFalse (fun e => by cases e)
  | .error _, .ok _ => isFalse (fun e => by cases e)

/-! ### character classes -/

/-- exhaustive check over the 256 bytes -/
theorem forall_u8 (P : UInt8 → Prop) (h : ∀ n : Fin 256, P (UInt8.ofNat n.val)) : ∀ b, P b := by
  intro b
  have := h ⟨b.toNat, b.toNat_lt⟩
  simpa using this

/-- the character class of the structural regex `[^\s,]` -/
def shapeChar (b : UInt8) : Bool := !(isWs b) && b != 44

theorem keyFirst_keyRest : ∀ b : UInt8, keyFirst b = true → keyRest b = true := by
  apply forall_u8; decide +kernel

theorem keyRest_valChar : ∀ b : UInt8, keyRest b = true → valChar b = true := by
  apply forall_u8; decide +kernel

theorem valChar_facts : ∀ b : UInt8, valChar b = true → b ≠ 61 ∧ b ≠ 44 ∧ shapeChar b = true := by
  apply forall_u8; decide +kernel

theorem keyFirst_ne_dot : ∀ b : UInt8, keyFirst b = true → b ≠ 46 := by
  apply forall_u8; decide +kernel

theorem special_not_digit : ∀ b : UInt8, (isAlpha b = true ∨ b = 46 ∨ b = 47) →
    isDigit b = false ∧ (b == 95) = false ∧ b ≠ 45 := by
  apply forall_u8; decide +kernel

theorem digit_ne_45 : ∀ b : UInt8, isDigit b = true → b ≠ 45 := by
  apply forall_u8; decide +kernel

theorem keyOk_facts {k : Bytes} (h : keyOk k = true) : k ≠ [] ∧ ∀ b ∈ k, keyRest b = true := by
  cases k with
  | nil => simp [keyOk] at h
  | cons a r =>
    simp only [keyOk, Bool.and_eq_true, List.all_eq_true] at h
    refine ⟨by simp, ?_⟩
    intro b hb
    rcases List.mem_cons.mp hb with rfl | hb
    · exact keyFirst_keyRest _ h.1
    · exact h.2 b hb

theorem valOk_facts {v : Bytes} (h : valOk v = true) : v ≠ [] ∧ ∀ b ∈ v, valChar b = true := by
  simp only [valOk, Bool.and_eq_true, List.all_eq_true, Bool.not_eq_true', List.isEmpty_eq_false_iff] at h
  exact h

/-! ### `splitEq1` -/

theorem splitEq1_append (cur k v : Bytes) (hk : ∀ b ∈ k, b ≠ 61) :
    splitEq1 cur (k ++ 61 :: v) = some (cur.reverse ++ k, v) := by
  induction k generalizing cur with
  | nil => simp [splitEq1]
  | cons a r ih =>
    have ha : a ≠ 61 := hk a (by simp)
    rw [List.cons_append, splitEq1.eq_3 _ _ _ (by simpa using ha), ih _ (fun b hb => hk b (by simp [hb]))]
    simp

theorem splitEq1_some (cur p k v : Bytes) (h : splitEq1 cur p = some (k, v)) :
    ∃ k', k = cur.reverse ++ k' ∧ p = k' ++ 61 :: v := by
  induction p generalizing cur with
  | nil => simp [splitEq1] at h
  | cons a r ih =>
    by_cases ha : a = 61
    · subst ha
      rw [splitEq1.eq_2] at h
      simp only [Option.some.injEq, Prod.mk.injEq] at h
      exact ⟨[], by simp [h.1], by simp [h.2]⟩
    · rw [splitEq1.eq_3 _ _ _ (by simpa using ha)] at h
      obtain ⟨k', hk, hp⟩ := ih _ h
      exact ⟨a :: k', by simp [hk], by simp [hp]⟩

/-! ### `splitCommaSpace` and joining -/

/-- `b', '.join(pieces)` -/
def joinB : List Bytes → Bytes
  | [] => []
  | [p] => p
  | p :: ps => p ++ [44, 32] ++ joinB ps

theorem joinB_cons (p : Bytes) (ps : List Bytes) (h : ps ≠ []) :
    joinB (p :: ps) = p ++ [44, 32] ++ joinB ps := by
  cases ps with
  | nil => exact absurd rfl h
  | cons q qs => rfl

theorem joinPairs_eq (pairs : List (Bytes × Bytes)) :
    Spec.joinPairs pairs = joinB (pairs.map Spec.renderPair) := by
  induction pairs with
  | nil => rfl
  | cons p ps ih =>
    cases ps with
    | nil => rfl
    | cons q qs => simp only [Spec.joinPairs, List.map_cons, joinB] at ih ⊢; rw [ih]

theorem splitCommaSpace_ne_nil (cur o : Bytes) : splitCommaSpace cur o ≠ [] := by
  fun_induction splitCommaSpace cur o <;> simp_all

theorem joinB_splitCommaSpace (cur o : Bytes) : joinB (splitCommaSpace cur o) = cur.reverse ++ o := by
  fun_induction splitCommaSpace cur o with
  | case1 cur => simp [joinB]
  | case2 cur r ih =>
    rw [joinB_cons _ _ (splitCommaSpace_ne_nil _ _), ih]; simp
  | case3 cur b r h ih => rw [ih]; simp

theorem splitCommaSpace_no_comma (cur x : Bytes) (hx : ∀ b ∈ x, b ≠ 44) :
    splitCommaSpace cur x = [cur.reverse ++ x] := by
  induction x generalizing cur with
  | nil => simp [splitCommaSpace]
  | cons a r ih =>
    have ha : a ≠ 44 := hx a (by simp)
    rw [splitCommaSpace.eq_3 _ _ _ (fun _ h _ => ha h), ih _ (fun b hb => hx b (by simp [hb]))]
    simp

theorem splitCommaSpace_append (cur x rest : Bytes) (hx : ∀ b ∈ x, b ≠ 44) :
    splitCommaSpace cur (x ++ 44 :: 32 :: rest) = (cur.reverse ++ x) :: splitCommaSpace [] rest := by
  induction x generalizing cur with
  | nil => simp [splitCommaSpace]
  | cons a r ih =>
    have ha : a ≠ 44 := hx a (by simp)
    rw [List.cons_append, splitCommaSpace.eq_3 _ _ _ (fun _ h _ => ha h),
      ih _ (fun b hb => hx b (by simp [hb]))]
    simp

theorem splitCommaSpace_joinB (ps : List Bytes) (hne : ps ≠ [])
    (h : ∀ p ∈ ps, ∀ b ∈ p, b ≠ 44) : splitCommaSpace [] (joinB ps) = ps := by
  induction ps with
  | nil => exact absurd rfl hne
  | cons p qs ih =>
    cases qs with
    | nil =>
      simp only [joinB]
      rw [splitCommaSpace_no_comma _ _ (h p (by simp))]; simp
    | cons q qs =>
      rw [joinB_cons _ _ (by simp)]
      simp only [List.append_assoc, List.cons_append, List.nil_append]
      rw [splitCommaSpace_append _ _ _ (h p (by simp)), ih (by simp) (fun p' hp' => h p' (by simp [hp']))]
      simp

/-! ### rendered pairs -/

theorem renderPair_split (p : Bytes × Bytes) (hk : keyOk p.1 = true) :
    splitEq1 [] (Spec.renderPair p) = some p := by
  have := splitEq1_append [] p.1 p.2 (fun b hb => (valChar_facts b (keyRest_valChar b ((keyOk_facts hk).2 b hb))).1)
  simpa [Spec.renderPair] using this

theorem renderPair_chars (p : Bytes × Bytes) (hk : keyOk p.1 = true) (hv : valOk p.2 = true) :
    ∀ b ∈ Spec.renderPair p, b ≠ 44 := by
  intro b hb
  simp only [Spec.renderPair, List.mem_append, List.mem_singleton] at hb
  rcases hb with (hb | rfl) | hb
  · exact (valChar_facts b (keyRest_valChar b ((keyOk_facts hk).2 b hb))).2.1
  · decide
  · exact (valChar_facts b ((valOk_facts hv).2 b hb)).2.1

theorem renderPair_shape (p : Bytes × Bytes) (hk : keyOk p.1 = true) (hv : valOk p.2 = true) :
    pairShape (Spec.renderPair p) = true := by
  have hkf := keyOk_facts hk
  have hvf := valOk_facts hv
  simp only [pairShape, renderPair_split p hk, Bool.and_eq_true, Bool.not_eq_true',
    List.isEmpty_eq_false_iff, List.all_eq_true]
  refine ⟨⟨⟨hkf.1, ?_⟩, hvf.1⟩, ?_⟩
  · intro b hb; simpa [shapeChar] using (valChar_facts b (keyRest_valChar b (hkf.2 b hb))).2.2
  · intro b hb; simpa [shapeChar] using (valChar_facts b (hvf.2 b hb)).2.2

/-! ### `parseOpts` -/

theorem parseOpts_render (h : Bytes) (pairs : List (Bytes × Bytes)) (acc : Opts)
    (hp : ∀ p ∈ pairs, keyOk p.1 = true ∧ valOk p.2 = true) :
    parseOpts h (pairs.map Spec.renderPair) acc =
      .ok (pairs.foldl (fun o p => o.set p.1 (convert p.2)) acc) := by
  induction pairs generalizing acc with
  | nil => rfl
  | cons p ps ih =>
    have hp1 := hp p (by simp)
    simp only [List.map_cons, parseOpts, renderPair_split p hp1.1, hp1.1, hp1.2, List.foldl_cons]
    exact ih _ (fun q hq => hp q (by simp [hq]))

theorem parseOpts_ok (h : Bytes) (pieces : List Bytes) (acc opts : Opts)
    (hok : parseOpts h pieces acc = .ok opts) :
    ∃ pairs : List (Bytes × Bytes), pieces = pairs.map Spec.renderPair ∧
      (∀ p ∈ pairs, keyOk p.1 = true ∧ valOk p.2 = true) ∧
      opts = pairs.foldl (fun o p => o.set p.1 (convert p.2)) acc := by
  induction pieces generalizing acc with
  | nil =>
    simp only [parseOpts, Except.ok.injEq] at hok
    exact ⟨[], rfl, by simp, hok.symm⟩
  | cons p ps ih =>
    simp only [parseOpts] at hok
    split at hok
    · cases hok
    · rename_i k v hs
      split at hok
      · cases hok
      · rename_i hk
        split at hok
        · cases hok
        · rename_i hv
          simp only [Bool.not_eq_true, Bool.not_eq_false'] at hk hv
          obtain ⟨pairs, hps, hall, hopts⟩ := ih _ hok
          obtain ⟨k', hk', hp'⟩ := splitEq1_some _ _ _ _ hs
          simp only [List.reverse_nil, List.nil_append] at hk'
          subst hk'
          refine ⟨(k, v) :: pairs, ?_, ?_, ?_⟩
          · simp [hps, hp', Spec.renderPair]
          · intro q hq
            rcases List.mem_cons.mp hq with rfl | hq
            · exact ⟨hk, hv⟩
            · exact hall q hq
          · simpa using hopts

/-! ### `structure?` -/

theorem takeWhile_dots (l : Nat) (n : SecName) (tail : Bytes) :
    (List.replicate l (46 : UInt8) ++ (n.bytes ++ 58 :: tail)).takeWhile (· == 46) =
      List.replicate l 46 := by
  rw [List.takeWhile_append_of_pos (by simp)]
  cases n <;> simp [SecName.bytes]

theorem find_name (n : SecName) (tail : Bytes) :
    SecName.all.find? (fun m => (m.bytes ++ [58]).isPrefixOf (n.bytes ++ 58 :: tail)) = some n := by
  cases n <;> simp [SecName.all, SecName.bytes]

theorem structure_build (l : Nat) (n : SecName) (tail : Bytes) (hl : l ≤ 3) :
    structure? (35 :: (List.replicate l 46 ++ (n.bytes ++ 58 :: tail))) =
      match tail with
      | [] => some (⟨l, n⟩, none)
      | 32 :: o =>
        if !o.isEmpty && (splitCommaSpace [] o).all pairShape then some (⟨l, n⟩, some o) else none
      | _ => none := by
  have hd : List.drop l (List.replicate l (46 : UInt8) ++ (n.bytes ++ 58 :: tail)) = n.bytes ++ 58 :: tail := by
    simp
  have hd2 : List.drop (n.bytes.length + 1) (n.bytes ++ 58 :: tail) = tail := by
    simp
  simp only [structure?, takeWhile_dots, List.length_replicate, hd, find_name, hd2]
  rw [if_neg (by omega)]
  rfl

theorem takeWhile_split (r : Bytes) :
    r = List.replicate (r.takeWhile (· == 46)).length 46 ++ r.drop (r.takeWhile (· == 46)).length := by
  induction r with
  | nil => rfl
  | cons a r ih =>
    by_cases ha : a = 46
    · subst ha
      simp only [List.takeWhile_cons, beq_self_eq_true, if_true, List.length_cons, List.replicate_succ,
        List.drop_succ_cons, List.cons_append]
      rw [← ih]
    · have : (a == 46) = false := by simpa using ha
      simp [this]

/-- the last stage of `structure?`: what follows the colon -/
def tailCase (l : Nat) (n : SecName) (t : Bytes) : Option (SecId × Option Bytes) :=
  match t with
  | [] => some (⟨l, n⟩, none)
  | 32 :: o =>
    if !o.isEmpty && (splitCommaSpace [] o).all pairShape then some (⟨l, n⟩, some o) else none
  | _ => none

/-- the bytes after the colon -/
def optTail : Option Bytes → Bytes
  | none => []
  | some o => 32 :: o

theorem tailCase_some (l : Nat) (n : SecName) (t : Bytes) (sec : SecId) (o : Option Bytes) :
    tailCase l n t = some (sec, o) →
    sec = ⟨l, n⟩ ∧ t = optTail o ∧
      ∀ o', o = some o' → o' ≠ [] ∧ (splitCommaSpace [] o').all pairShape = true := by
  unfold tailCase
  split
  · intro hs
    simp only [Option.some.injEq, Prod.mk.injEq] at hs
    obtain ⟨rfl, rfl⟩ := hs
    exact ⟨rfl, rfl, by simp⟩
  · split
    · rename_i hc
      intro hs
      simp only [Option.some.injEq, Prod.mk.injEq] at hs
      obtain ⟨rfl, rfl⟩ := hs
      refine ⟨rfl, rfl, ?_⟩
      intro o'' ho
      cases ho
      simpa using hc
    · intro hs; cases hs
  · intro hs; cases hs

theorem structure_some (h : Bytes) (sec : SecId) (o : Option Bytes)
    (hs : structure? h = some (sec, o)) :
    sec.level ≤ 3 ∧
    h = (35 : UInt8) :: (List.replicate sec.level (46 : UInt8) ++ (sec.name.bytes ++ (58 : UInt8) :: optTail o)) ∧
    ∀ o', o = some o' → o' ≠ [] ∧ (splitCommaSpace [] o').all pairShape = true := by
  unfold structure? at hs
  split at hs
  · rename_i r
    simp only at hs
    split at hs
    · cases hs
    · rename_i hdots
      split at hs
      · cases hs
      · rename_i n hfind
        have hpre := List.find?_some hfind
        rw [List.isPrefixOf_iff_prefix] at hpre
        obtain ⟨t, ht⟩ := hpre
        have hr := takeWhile_split r
        rw [← ht] at hs
        have hd2 : List.drop (n.bytes.length + 1) (n.bytes ++ [58] ++ t) = t := by simp
        rw [hd2] at hs
        obtain ⟨rfl, rfl, h3⟩ := tailCase_some _ _ _ _ _ hs
        refine ⟨by simp only; omega, ?_, h3⟩
        simp only
        simp only [List.append_assoc, List.cons_append, List.nil_append] at ht
        rw [ht, ← hr]
  · cases hs

/-! ### `parseHeader` against the grammar -/

theorem headerLine_eq (sec : SecId) (pairs : List (Bytes × Bytes)) :
    Spec.headerLine sec pairs =
      (35 : UInt8) :: (List.replicate sec.level (46 : UInt8) ++ (sec.name.bytes ++ (58 : UInt8) ::
        optTail (if pairs.isEmpty then none else some (Spec.joinPairs pairs)))) := by
  cases pairs <;> simp [Spec.headerLine, SecId.bytes, optTail]

theorem joinPairs_ne_nil (p : Bytes × Bytes) (ps : List (Bytes × Bytes)) :
    Spec.joinPairs (p :: ps) ≠ [] := by
  cases ps <;> simp [Spec.joinPairs, Spec.renderPair]

theorem split_joinPairs (pairs : List (Bytes × Bytes)) (hne : pairs ≠ [])
    (hp : ∀ p ∈ pairs, keyOk p.1 = true ∧ valOk p.2 = true) :
    splitCommaSpace [] (Spec.joinPairs pairs) = pairs.map Spec.renderPair := by
  rw [joinPairs_eq]
  apply splitCommaSpace_joinB
  · simpa using hne
  · intro q hq
    obtain ⟨p, hpm, rfl⟩ := List.mem_map.mp hq
    exact renderPair_chars p (hp p hpm).1 (hp p hpm).2

theorem parseHeader_headerLine (valid : List SecId) (sec : SecId) (pairs : List (Bytes × Bytes))
    (hg : Spec.GrammarOk sec pairs) (hv : sec ∈ valid) :
    parseHeader valid (Spec.headerLine sec pairs) = .ok ⟨sec, Spec.reported pairs⟩ := by
  obtain ⟨hl, hp⟩ := hg
  have hc : valid.contains sec = true := by simpa using hv
  cases pairs with
  | nil =>
    have hs : structure? (Spec.headerLine sec []) = some (sec, none) := by
      rw [headerLine_eq, structure_build _ _ _ hl]; rfl
    simp only [parseHeader, hs, hc]
    rfl
  | cons p ps =>
    have hsplit := split_joinPairs (p :: ps) (by simp) hp
    have hs : structure? (Spec.headerLine sec (p :: ps)) = some (sec, some (Spec.joinPairs (p :: ps))) := by
      rw [headerLine_eq, structure_build _ _ _ hl]
      simp only [List.isEmpty_cons, optTail, Bool.false_eq_true, if_false]
      rw [if_pos]
      rw [hsplit]
      simp only [Bool.and_eq_true, Bool.not_eq_true', List.isEmpty_eq_false_iff, List.all_eq_true]
      refine ⟨joinPairs_ne_nil p ps, ?_⟩
      intro q hq
      obtain ⟨p', hpm, rfl⟩ := List.mem_map.mp hq
      exact renderPair_shape p' (hp p' hpm).1 (hp p' hpm).2
    simp only [parseHeader, hs, hc, hsplit, parseOpts_render _ _ _ hp]
    rfl

theorem parseHeader_ok_grammar (valid : List SecId) (h : Bytes) (hdr : Hdr)
    (hok : parseHeader valid h = .ok hdr) :
    ∃ pairs, Spec.GrammarOk hdr.sec pairs ∧ h = Spec.headerLine hdr.sec pairs ∧
      hdr.sec ∈ valid ∧ hdr.opts = Spec.reported pairs := by
  unfold parseHeader at hok
  split at hok
  · cases hok
  · rename_i sec o hs
    obtain ⟨hl, hh, ho⟩ := structure_some h sec o hs
    split at hok
    · cases hok
    · rename_i hc
      have hv : sec ∈ valid := by simpa using hc
      cases o with
      | none =>
        simp only [Except.ok.injEq] at hok
        subst hok
        refine ⟨[], ⟨hl, by simp⟩, ?_, hv, rfl⟩
        rw [headerLine_eq]; exact hh
      | some o =>
        simp only at hok
        split at hok
        · rename_i opts hpo
          simp only [Except.ok.injEq] at hok
          subst hok
          obtain ⟨pairs, hpieces, hall, hopts⟩ := parseOpts_ok _ _ _ _ hpo
          have hne : pairs ≠ [] := by
            intro hnil
            subst hnil
            exact splitCommaSpace_ne_nil _ _ hpieces
          have hjoin : Spec.joinPairs pairs = o := by
            rw [joinPairs_eq, ← hpieces, joinB_splitCommaSpace]; rfl
          refine ⟨pairs, ⟨hl, hall⟩, ?_, hv, hopts⟩
          rw [headerLine_eq, hjoin]
          cases pairs with
          | nil => exact absurd rfl hne
          | cons p ps => exact hh
        · cases hok

/-! ### `Opts.set` / `Opts.get` and `reported` -/

theorem lookup_map_set (o : Opts) (k : Bytes) (v : OptVal) (h : o.any (·.1 == k) = true) :
    List.lookup k (o.map (fun p => if p.1 == k then (k, v) else p)) = some v := by
  induction o with
  | nil => simp at h
  | cons p ps ih =>
    by_cases hp : p.1 = k
    · simp [hp]
    · have hp' : (p.1 == k) = false := by simpa using hp
      have hp'' : (k == p.1) = false := by simpa using fun e : k = p.1 => hp e.symm
      simp only [List.any_cons, hp', Bool.false_or] at h
      simp only [List.map_cons, hp', Bool.false_eq_true, if_false]
      rw [show p = (p.1, p.2) from rfl, List.lookup_cons, hp'']
      exact ih h

theorem lookup_map_set_ne (o : Opts) (k k' : Bytes) (v : OptVal) (hne : k' ≠ k) :
    List.lookup k' (o.map (fun p => if p.1 == k then (k, v) else p)) = List.lookup k' o := by
  induction o with
  | nil => rfl
  | cons p ps ih =>
    have hk : (k' == k) = false := by simpa using hne
    by_cases hp : p.1 = k
    · have hp2 : (k' == p.1) = false := by rw [hp]; exact hk
      simp only [List.map_cons, hp, beq_self_eq_true, if_true]
      rw [List.lookup_cons, hk]
      conv => rhs; rw [show p = (p.1, p.2) from rfl, List.lookup_cons, hp2]
      exact ih
    · have hp' : (p.1 == k) = false := by simpa using hp
      simp only [List.map_cons, hp', Bool.false_eq_true, if_false]
      rw [show p = (p.1, p.2) from rfl, List.lookup_cons, List.lookup_cons, ih]

theorem lookup_none_of_any (o : Opts) (k : Bytes) (h : o.any (·.1 == k) = false) :
    List.lookup k o = none := by
  induction o with
  | nil => rfl
  | cons p ps ih =>
    simp only [List.any_cons, Bool.or_eq_false_iff] at h
    have hp'' : (k == p.1) = false := by
      have : p.1 ≠ k := by simpa using h.1
      simpa using fun e : k = p.1 => this e.symm
    rw [show p = (p.1, p.2) from rfl, List.lookup_cons, hp'']
    exact ih h.2

theorem get_set_self (o : Opts) (k : Bytes) (v : OptVal) : (o.set k v).get k = some v := by
  unfold Opts.set Opts.get
  split
  · rename_i h; exact lookup_map_set o k v h
  · rename_i h
    have h' : o.any (·.1 == k) = false := Bool.eq_false_iff.mpr h
    rw [List.lookup_append, lookup_none_of_any o k h']
    simp [List.lookup]

theorem get_set_ne (o : Opts) (k k' : Bytes) (v : OptVal) (hne : k' ≠ k) :
    (o.set k v).get k' = o.get k' := by
  unfold Opts.set Opts.get
  have hk : (k' == k) = false := by simpa using hne
  split
  · exact lookup_map_set_ne o k k' v hne
  · rw [List.lookup_append]
    simp [List.lookup, hk]

theorem foldl_get_notin (pairs : List (Bytes × Bytes)) (acc : Opts) (k : Bytes)
    (hk : k ∉ pairs.map (·.1)) :
    (pairs.foldl (fun o p => o.set p.1 (convert p.2)) acc).get k = acc.get k := by
  induction pairs generalizing acc with
  | nil => rfl
  | cons p ps ih =>
    simp only [List.map_cons, List.mem_cons, not_or] at hk
    rw [List.foldl_cons, ih _ hk.2, get_set_ne _ _ _ _ hk.1]

theorem foldl_get_mem (pairs : List (Bytes × Bytes)) (acc : Opts)
    (hd : (pairs.map (·.1)).Nodup) (k v : Bytes) (hm : (k, v) ∈ pairs) :
    (pairs.foldl (fun o p => o.set p.1 (convert p.2)) acc).get k = some (convert v) := by
  induction pairs generalizing acc with
  | nil => simp at hm
  | cons p ps ih =>
    simp only [List.map_cons, List.nodup_cons] at hd
    rw [List.foldl_cons]
    rcases List.mem_cons.mp hm with rfl | hm
    · rw [foldl_get_notin _ _ _ hd.1, get_set_self]
    · exact ih _ hd.2 hm

theorem reported_get (pairs : List (Bytes × Bytes)) (hd : (pairs.map (·.1)).Nodup)
    (k v : Bytes) (hm : (k, v) ∈ pairs) :
    (Spec.reported pairs).get k = some (convert v) :=
  foldl_get_mem pairs [] hd k v hm

theorem reported_get_none (pairs : List (Bytes × Bytes)) (k : Bytes) (hk : k ∉ pairs.map (·.1)) :
    (Spec.reported pairs).get k = none := by
  unfold Spec.reported
  rw [foldl_get_notin pairs [] k hk]; rfl

/-! ### `convert` -/

theorem digitsUnd_digits (prev : Bool) (ds : Bytes) (hd : ∀ b ∈ ds, isDigit b = true) :
    digitsUnd prev ds = (prev || !ds.isEmpty) := by
  induction ds generalizing prev with
  | nil => simp [digitsUnd]
  | cons a r ih =>
    have ha := hd a (by simp)
    unfold digitsUnd
    rw [if_pos ha, ih _ (fun b hb => hd b (by simp [hb]))]
    simp

theorem digitsUnd_special (prev : Bool) (v : Bytes) (b : UInt8) (hb : b ∈ v)
    (hc : isDigit b = false ∧ (b == 95) = false) : digitsUnd prev v = false := by
  induction v generalizing prev with
  | nil => simp at hb
  | cons a r ih =>
    unfold digitsUnd
    rcases List.mem_cons.mp hb with rfl | hb
    · simp [hc.1, hc.2]
    · split
      · exact ih _ hb
      · split
        · split
          · rw [ih _ hb]; simp
          · rfl
        · rfl

theorem pyIntOk_cons_ne (a : UInt8) (r : Bytes) (ha : a ≠ 45) :
    pyIntOk (a :: r) = (digitsUnd false (a :: r) &&
      decide (((a :: r).filter isDigit).length ≤ maxIntDigits)) := by
  unfold pyIntOk
  simp only
  split
  · rename_i h; injection h with h1 _; exact absurd h1 ha
  · rfl

theorem pyIntVal_cons_ne (a : UInt8) (r : Bytes) (ha : a ≠ 45) :
    pyIntVal (a :: r) = (digitsVal ((a :: r).filter isDigit) : Int) := by
  unfold pyIntVal
  split
  rename_i neg ds h
  split at h
  · rename_i heq; injection heq with h1 _; exact absurd h1 ha
  · cases h; simp

theorem convert_plain (ds : Bytes) (hne : ds ≠ []) (hd : ∀ b ∈ ds, isDigit b = true)
    (hl : ds.length ≤ maxIntDigits) :
    convert ds = .int (digitsVal ds) ∧ convert (45 :: ds) = .int (-(digitsVal ds : Int)) := by
  have hf : ds.filter isDigit = ds := List.filter_eq_self.mpr hd
  have hdu : digitsUnd false ds = true := by
    rw [digitsUnd_digits _ _ hd]; cases ds with
    | nil => exact absurd rfl hne
    | cons a r => rfl
  constructor
  · cases ds with
    | nil => exact absurd rfl hne
    | cons a r =>
      have ha : a ≠ 45 := digit_ne_45 a (hd a (by simp))
      have hok : pyIntOk (a :: r) = true := by
        rw [pyIntOk_cons_ne a r ha, hdu, hf]
        simpa using hl
      have hval : pyIntVal (a :: r) = (digitsVal (a :: r) : Int) := by
        rw [pyIntVal_cons_ne a r ha, hf]
      simp only [convert, hok, if_true, hval]
  · have hok : pyIntOk (45 :: ds) = true := by
      simp only [pyIntOk, hdu, hf, Bool.true_and, decide_eq_true_eq]
      exact hl
    have hval : pyIntVal (45 :: ds) = -(digitsVal ds : Int) := by
      simp [pyIntVal, hf]
    simp only [convert, hok, if_true, hval]

theorem convert_str (v : Bytes) (b : UInt8) (hb : b ∈ v)
    (hc : isAlpha b = true ∨ b = 46 ∨ b = 47) : convert v = .str v := by
  obtain ⟨h1, h2, h3⟩ := special_not_digit b hc
  have hok : pyIntOk v = false := by
    unfold pyIntOk
    simp only
    split
    · rename_i r
      have hbr : b ∈ r := by
        rcases List.mem_cons.mp hb with rfl | hbr
        · exact absurd rfl h3
        · exact hbr
      rw [digitsUnd_special _ _ b hbr ⟨h1, h2⟩]; rfl
    · rw [digitsUnd_special _ _ b hb ⟨h1, h2⟩]; rfl
  simp [convert, hok]

end Diffx.Header
