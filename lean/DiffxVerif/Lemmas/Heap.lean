import DiffxVerif.Model.Heap
/-!
# Lemmas about the heap model (for C18)

The invariant `Inv` says: every referenced cell and every caller cell is below the
allocation counter, and a cell that is not a caller cell is referenced at most once.
Every operation preserves it (`Inv_step`), because fresh-allocation operations only
add cells of the interval `[s.next, s'.next)`, each once, and `setMeta` only replaces
a cell by a caller cell.  All counting is done through `List.count`.
-/
namespace Diffx.Heap
open List

/-! ### `setAt` -/

theorem setAt_nil {α} (i : Nat) (f : α → α) : setAt ([] : List α) i f = [] := rfl

theorem setAt_cons_zero {α} (x : α) (l : List α) (f : α → α) : setAt (x :: l) 0 f = f x :: l := by
  have h : List.mapIdx (fun _ y => y) l = l := by apply List.ext_getElem <;> simp
  simp [setAt, List.mapIdx_cons, h]

theorem setAt_cons_succ {α} (x : α) (l : List α) (i : Nat) (f : α → α) :
    setAt (x :: l) (i + 1) f = x :: setAt l i f := by
  simp [setAt, List.mapIdx_cons]

/-- modifying one element changes the count of `c` in a `flatMap` by at most what
the modification adds -/
theorem count_flatMap_setAt_le {α} (g : α → List Nat) (f : α → α) (c k : Nat)
    (h : ∀ x, count c (g (f x)) ≤ count c (g x) + k) :
    ∀ (l : List α) (i : Nat), count c ((setAt l i f).flatMap g) ≤ count c (l.flatMap g) + k
  | [], i => by simp [setAt_nil]
  | x :: l, 0 => by
    rw [setAt_cons_zero]
    simp only [List.flatMap_cons, List.count_append]
    have := h x
    omega
  | x :: l, i + 1 => by
    rw [setAt_cons_succ]
    simp only [List.flatMap_cons, List.count_append]
    have := count_flatMap_setAt_le g f c k h l i
    omega

/-! ### counting over two different positions -/

theorem count_le_flatMap_of_getElem? {α} (g : α → List Nat) (c : Nat) :
    ∀ (l : List α) (i : Nat) (a : α), l[i]? = some a → count c (g a) ≤ count c (l.flatMap g)
  | [], i, a, h => by simp at h
  | x :: l, 0, a, h => by
    simp at h; subst h
    simp only [List.flatMap_cons, List.count_append]; omega
  | x :: l, i + 1, a, h => by
    simp at h
    have := count_le_flatMap_of_getElem? g c l i a h
    simp only [List.flatMap_cons, List.count_append]; omega

theorem count_add_le_flatMap {α} (g : α → List Nat) (c : Nat) :
    ∀ (l : List α) (i j : Nat) (a b : α), i ≠ j → l[i]? = some a → l[j]? = some b →
      count c (g a) + count c (g b) ≤ count c (l.flatMap g)
  | [], i, j, a, b, _, h, _ => by simp at h
  | x :: l, 0, 0, a, b, hij, _, _ => absurd rfl hij
  | x :: l, 0, j + 1, a, b, _, hi, hj => by
    simp at hi hj; subst hi
    have := count_le_flatMap_of_getElem? g c l j b hj
    simp only [List.flatMap_cons, List.count_append]; omega
  | x :: l, i + 1, 0, a, b, _, hi, hj => by
    simp at hi hj; subst hj
    have := count_le_flatMap_of_getElem? g c l i a hi
    simp only [List.flatMap_cons, List.count_append]; omega
  | x :: l, i + 1, j + 1, a, b, hij, hi, hj => by
    simp at hi hj
    have := count_add_le_flatMap g c l i j a b (by omega) hi hj
    simp only [List.flatMap_cons, List.count_append]; omega

/-! ### fresh allocation -/

/-- indicator of the interval `[a, b)` -/
def ind (a b c : Nat) : Nat := if a ≤ c ∧ c < b then 1 else 0

theorem ind_le_one (a b c : Nat) : ind a b c ≤ 1 := by unfold ind; split <;> omega

theorem ind_pos {a b c : Nat} (h : 0 < ind a b c) : a ≤ c ∧ c < b := by
  unfold ind at h; split at h
  · assumption
  · omega

theorem ind_add {a b d c : Nat} (h1 : a ≤ b) (h2 : b ≤ d) : ind a b c + ind b d c = ind a d c := by
  unfold ind; repeat' split
  all_goals omega

theorem count_five (n c : Nat) : count c [n, n + 1, n + 2, n + 3, n + 4] = ind n (n + 5) c := by
  simp only [List.count_cons, List.count_nil, beq_iff_eq, ind]
  repeat' split
  all_goals omega

theorem newFile_eq (s : State) :
    newFile s = (⟨s.next, s.next + 1, s.next + 2, s.next + 3, s.next + 4⟩, { s with next := s.next + 5 }) := rfl

theorem newChange_eq (s : State) :
    newChange s = (⟨s.next, s.next + 1, s.next + 2, s.next + 3, s.next + 4, []⟩, { s with next := s.next + 5 }) := rfl

theorem newTreeCells_eq (s : State) :
    newTreeCells s = (⟨s.next, s.next + 1, s.next + 2, s.next + 3, s.next + 4, []⟩, { s with next := s.next + 5 }) := rfl

theorem copyFiles_spec : ∀ (l : List HFile) (s : State),
    (copyFiles s l).2.trees = s.trees ∧ (copyFiles s l).2.callers = s.callers ∧
    s.next ≤ (copyFiles s l).2.next ∧
    ∀ c, count c ((copyFiles s l).1.flatMap fileCells) ≤ ind s.next (copyFiles s l).2.next c
  | [], s => by simp [copyFiles, ind]
  | _ :: r, s => by
    obtain ⟨h1, h2, h3, h4⟩ := copyFiles_spec r { s with next := s.next + 5 }
    simp only [copyFiles, newFile_eq]
    refine ⟨h1, h2, by simp only at h3; omega, fun c => ?_⟩
    simp only [List.flatMap_cons, List.count_append, fileCells]
    have h5 := count_five s.next c
    have h6 := h4 c
    have h7 := @ind_add s.next (s.next + 5) (copyFiles { s with next := s.next + 5 } r).2.next c
      (by omega) (by simpa using h3)
    simp only at h6
    omega

theorem copyChanges_spec : ∀ (l : List HChange) (s : State),
    (copyChanges s l).2.trees = s.trees ∧ (copyChanges s l).2.callers = s.callers ∧
    s.next ≤ (copyChanges s l).2.next ∧
    ∀ c, count c ((copyChanges s l).1.flatMap changeCells) ≤ ind s.next (copyChanges s l).2.next c
  | [], s => by simp [copyChanges, ind]
  | ch :: r, s => by
    obtain ⟨f1, f2, f3, f4⟩ := copyFiles_spec ch.files { s with next := s.next + 5 }
    obtain ⟨h1, h2, h3, h4⟩ := copyChanges_spec r (copyFiles { s with next := s.next + 5 } ch.files).2
    simp only [copyChanges, newChange_eq]
    refine ⟨h1.trans f1, h2.trans f2, by simp only at f3; omega, fun c => ?_⟩
    simp only [List.flatMap_cons, List.count_append, changeCells]
    have h5 := count_five s.next c
    have h6 := h4 c
    have f6 := f4 c
    simp only at f3 f6
    have h7 := @ind_add s.next (s.next + 5) (copyFiles { s with next := s.next + 5 } ch.files).2.next c
      (by omega) f3
    have h8 := @ind_add s.next (copyFiles { s with next := s.next + 5 } ch.files).2.next
      (copyChanges (copyFiles { s with next := s.next + 5 } ch.files).2 r).2.next c (by omega) h3
    omega

/-! ### the invariant -/

structure Inv (s : State) : Prop where
  cells_lt : ∀ c, 0 < count c (allCells s) → c < s.next
  callers_lt : ∀ c ∈ s.callers.map (·.2), c < s.next
  once : ∀ c, c ∉ s.callers.map (·.2) → count c (allCells s) ≤ 1

theorem Inv_init : Inv State.init := ⟨by simp [State.init, allCells], by simp [State.init], by simp [State.init, allCells]⟩

/-- the generic preservation argument -/
theorem Inv_of_le {s s' : State} (K : Nat → Nat) (hs : Inv s)
    (hnext : s.next ≤ s'.next)
    (hcal : ∀ c ∈ s'.callers.map (·.2), c ∈ s.callers.map (·.2) ∨ (s.next ≤ c ∧ c < s'.next))
    (hcal2 : ∀ c ∈ s.callers.map (·.2), c ∈ s'.callers.map (·.2))
    (hcount : ∀ c, count c (allCells s') ≤ count c (allCells s) + K c)
    (hK : ∀ c, K c ≤ 1)
    (hK2 : ∀ c, 0 < K c → c ∈ s'.callers.map (·.2) ∨ (s.next ≤ c ∧ c < s'.next)) : Inv s' := by
  have hcl : ∀ c ∈ s'.callers.map (·.2), c < s'.next := by
    intro c hc
    rcases hcal c hc with h | h
    · have := hs.callers_lt c h; omega
    · exact h.2
  refine ⟨?_, hcl, ?_⟩
  · intro c hc
    have h1 := hcount c
    by_cases h0 : 0 < count c (allCells s)
    · have := hs.cells_lt c h0; omega
    · rcases hK2 c (by omega) with h | h
      · exact hcl c h
      · exact h.2
  · intro c hc
    have h1 := hcount c
    have h2 := hs.once c (fun h => hc (hcal2 c h))
    by_cases h0 : 0 < K c
    · rcases hK2 c h0 with h | h
      · exact absurd h hc
      · have h3 : ¬ 0 < count c (allCells s) := fun h4 => by
          have := hs.cells_lt c h4; omega
        have := hK c
        omega
    · omega


/-! ### each operation preserves the invariant -/

theorem allCells_def (s : State) : allCells s = s.trees.flatMap treeCells := rfl

theorem Inv_newTree (s : State) (hs : Inv s) : Inv (step s .newTree) := by
  refine Inv_of_le (ind s.next (s.next + 5)) hs (by simp [step, newTreeCells_eq]) (fun c h => .inl h)
    (fun c h => h) (fun c => ?_) (ind_le_one _ _) (fun c h => .inr (ind_pos h))
  simp only [step, newTreeCells_eq, allCells_def, List.flatMap_append, List.count_append, treeCells,
    List.flatMap_cons, List.flatMap_nil, List.append_nil]
  rw [count_five]; omega

theorem Inv_addChange (s : State) (t : Nat) (hs : Inv s) : Inv (step s (.addChange t)) := by
  simp only [step, newChange_eq]
  split
  · refine Inv_of_le (ind s.next (s.next + 5)) hs (by simp) (fun c h => .inl h)
      (fun c h => h) (fun c => ?_) (ind_le_one _ _) (fun c h => .inr (ind_pos h))
    simp only [allCells_def]
    apply count_flatMap_setAt_le
    intro tr
    simp only [treeCells, List.flatMap_append, List.count_append, changeCells,
      List.flatMap_cons, List.flatMap_nil, List.append_nil]
    rw [count_five]; omega
  · exact hs

theorem Inv_addFile (s : State) (t i : Nat) (hs : Inv s) : Inv (step s (.addFile t i)) := by
  simp only [step, newFile_eq]
  split
  · refine Inv_of_le (ind s.next (s.next + 5)) hs (by simp) (fun c h => .inl h)
      (fun c h => h) (fun c => ?_) (ind_le_one _ _) (fun c h => .inr (ind_pos h))
    simp only [allCells_def]
    apply count_flatMap_setAt_le
    intro tr
    simp only [treeCells, List.count_append]
    have : count c ((setAt tr.changes i fun ch => { ch with files := ch.files ++
          [⟨s.next, s.next + 1, s.next + 2, s.next + 3, s.next + 4⟩] }).flatMap changeCells)
        ≤ count c (tr.changes.flatMap changeCells) + ind s.next (s.next + 5) c := by
      apply count_flatMap_setAt_le
      intro ch
      simp only [changeCells, List.flatMap_append, List.count_append, fileCells,
        List.flatMap_cons, List.flatMap_nil, List.append_nil]
      rw [count_five]; omega
    omega
  · exact hs

/-- replacing `metaContent` of one section by `cell` adds at most one reference, to `cell` -/
theorem count_setMeta_le (tr : HTree) (p : Path) (cell c : Nat) :
    count c (treeCells (match p with
      | .main => { tr with metaContent := cell }
      | .change i => { tr with changes := setAt tr.changes i fun c => { c with metaContent := cell } }
      | .file i j => { tr with changes := setAt tr.changes i fun c =>
          { c with files := setAt c.files j fun f => { f with metaContent := cell } } }))
      ≤ count c (treeCells tr) + (if c = cell then 1 else 0) := by
  cases p with
  | main =>
    simp only [treeCells, List.count_append, List.count_cons, List.count_nil, beq_iff_eq]
    repeat' split
    all_goals omega
  | change i =>
    simp only [treeCells, List.count_append]
    have : count c ((setAt tr.changes i fun c => { c with metaContent := cell }).flatMap changeCells)
        ≤ count c (tr.changes.flatMap changeCells) + (if c = cell then 1 else 0) := by
      apply count_flatMap_setAt_le
      intro ch
      simp only [changeCells, List.count_append, List.count_cons, List.count_nil, beq_iff_eq]
      repeat' split
      all_goals omega
    omega
  | file i j =>
    simp only [treeCells, List.count_append]
    have : count c ((setAt tr.changes i fun c =>
          { c with files := setAt c.files j fun f => { f with metaContent := cell } }).flatMap changeCells)
        ≤ count c (tr.changes.flatMap changeCells) + (if c = cell then 1 else 0) := by
      apply count_flatMap_setAt_le
      intro ch
      simp only [changeCells, List.count_append]
      have : count c ((setAt ch.files j fun f => { f with metaContent := cell }).flatMap fileCells)
          ≤ count c (ch.files.flatMap fileCells) + (if c = cell then 1 else 0) := by
        apply count_flatMap_setAt_le
        intro f
        simp only [fileCells, List.count_cons, List.count_nil, beq_iff_eq]
        repeat' split
        all_goals omega
      omega
    omega

theorem lookup_mem_snd {k c : Nat} : ∀ {l : List (Nat × Nat)}, l.lookup k = some c → c ∈ l.map (·.2)
  | [], h => by simp at h
  | (a, b) :: l, h => by
    rw [List.lookup_cons] at h
    split at h
    · simp at h; simp [h]
    · have := lookup_mem_snd h
      simp only [List.map_cons, List.mem_cons]; exact .inr this

theorem Inv_setMeta (s : State) (t : Nat) (p : Path) (k : Nat) (hs : Inv s) :
    Inv (step s (.setMeta t p k)) := by
  simp only [step]
  split
  · cases hl : s.callers.lookup k with
    | some cell =>
      simp only [callerCell, hl]
      refine Inv_of_le (fun c => if c = cell then 1 else 0) hs (Nat.le_refl _) (fun c h => .inl h)
        (fun c h => h) (fun c => ?_) (fun c => by split <;> omega) (fun c h => ?_)
      · simp only [allCells_def]
        apply count_flatMap_setAt_le
        intro tr
        exact count_setMeta_le tr p cell c
      · left
        split at h
        · subst_vars; exact lookup_mem_snd hl
        · omega
    | none =>
      simp only [callerCell, hl, alloc]
      refine Inv_of_le (fun c => if c = s.next then 1 else 0) hs (by simp) (fun c h => ?_)
        (fun c h => ?_) (fun c => ?_) (fun c => by split <;> omega) (fun c h => ?_)
      · simp only [List.map_append, List.mem_append, List.map_cons, List.map_nil, List.mem_singleton] at h
        rcases h with h | h
        · exact .inl h
        · right; subst h; simp
      · simp only [List.map_append, List.mem_append]; exact .inl h
      · simp only [allCells_def]
        apply count_flatMap_setAt_le
        intro tr
        exact count_setMeta_le tr p s.next c
      · right
        split at h
        · subst_vars; simp
        · omega
  · exact hs

theorem Inv_parse (s : State) (t : Nat) (hs : Inv s) : Inv (step s (.parse t)) := by
  simp only [step]
  split
  · rename_i tr _
    obtain ⟨h1, h2, h3, h4⟩ := copyChanges_spec tr.changes { s with next := s.next + 5 }
    simp only [newTreeCells_eq]
    simp only at h1 h2 h3 h4
    refine Inv_of_le (ind s.next (copyChanges { s with next := s.next + 5 } tr.changes).2.next) hs
      (by simp only; omega) (fun c h => .inl (by simpa [h2] using h))
      (fun c h => by simpa [h2] using h) (fun c => ?_) (ind_le_one _ _) (fun c h => .inr (ind_pos h))
    simp only [allCells_def, h1, List.flatMap_append, List.count_append, treeCells,
      List.flatMap_cons, List.flatMap_nil, List.append_nil]
    have := h4 c
    have h5 := count_five s.next c
    have := @ind_add s.next (s.next + 5) (copyChanges { s with next := s.next + 5 } tr.changes).2.next c
      (by omega) h3
    omega
  · exact hs

theorem Inv_mutate (s : State) (t : Nat) (p : Path) (sl : Slot) (hs : Inv s) :
    Inv (step s (.mutate t p sl)) := by
  simp only [step]
  split
  · exact ⟨hs.cells_lt, hs.callers_lt, hs.once⟩
  · exact hs

theorem Inv_step (s : State) (op : Op) (hs : Inv s) : Inv (step s op) := by
  cases op with
  | newTree => exact Inv_newTree s hs
  | addChange t => exact Inv_addChange s t hs
  | addFile t i => exact Inv_addFile s t i hs
  | setMeta t p k => exact Inv_setMeta s t p k hs
  | parse t => exact Inv_parse s t hs
  | observe t => exact hs
  | mutate t p sl => exact Inv_mutate s t p sl hs

theorem Inv_foldl (ops : List Op) : ∀ s, Inv s → Inv (ops.foldl step s) := by
  induction ops with
  | nil => exact fun s h => h
  | cons op r ih => exact fun s h => ih _ (Inv_step s op h)

theorem Inv_run (ops : List Op) : Inv (run ops) := Inv_foldl ops _ Inv_init

/-! ### the theorems used by `Properties/C18.lean` -/

theorem run_allocated (ops : List Op) :
    ∀ c ∈ allCells (run ops) ++ (run ops).callers.map (·.2), c < (run ops).next := by
  intro c hc
  rcases List.mem_append.1 hc with h | h
  · exact (Inv_run ops).cells_lt c (List.count_pos_iff.2 h)
  · exact (Inv_run ops).callers_lt c h

theorem run_no_sharing (ops : List Op) :
    ∀ c ∈ allCells (run ops), c ∉ (run ops).callers.map (·.2) → (allCells (run ops)).count c = 1 := by
  intro c hc hn
  have h1 := (Inv_run ops).once c hn
  have h2 : 0 < count c (allCells (run ops)) := List.count_pos_iff.2 hc
  omega

theorem run_isolation (ops : List Op) (i j : Nat) (ti tj : HTree) (hij : i ≠ j)
    (hi : (run ops).trees[i]? = some ti) (hj : (run ops).trees[j]? = some tj) :
    ∀ c ∈ treeCells ti, c ∉ (run ops).callers.map (·.2) → c ∉ treeCells tj := by
  intro c hc hn hc'
  have h1 := (Inv_run ops).once c hn
  have h2 := count_add_le_flatMap treeCells c (run ops).trees i j ti tj hij hi hj
  have h3 : 0 < count c (treeCells ti) := List.count_pos_iff.2 hc
  have h4 : 0 < count c (treeCells tj) := List.count_pos_iff.2 hc'
  rw [← allCells_def] at h2
  omega

theorem mutate_keeps (s : State) (t : Nat) (p : Path) (sl : Slot) :
    (step s (.mutate t p sl)).trees = s.trees ∧ (step s (.mutate t p sl)).next = s.next ∧
    (step s (.mutate t p sl)).callers = s.callers := by
  simp only [step]
  split <;> exact ⟨rfl, rfl, rfl⟩

/-- (the bound `_hb` on the old cells is not needed for freshness itself; together with it
the conclusion says the new tree is disjoint from everything older) -/
theorem parse_fresh (s : State) (t : Nat) (tr : HTree) (h : s.trees[t]? = some tr)
    (_hb : ∀ c ∈ allCells s ++ s.callers.map (·.2), c < s.next) :
    ∃ n, (step s (.parse t)).trees = s.trees ++ [n] ∧ ∀ c ∈ treeCells n, s.next ≤ c := by
  obtain ⟨h1, _, h3, h4⟩ := copyChanges_spec tr.changes { s with next := s.next + 5 }
  simp only at h1 h3 h4
  simp only [step, h, newTreeCells_eq]
  refine ⟨_, by rw [h1], fun c hc => ?_⟩
  have hpos : 0 < count c _ := List.count_pos_iff.2 hc
  simp only [treeCells, List.count_append] at hpos
  have := h4 c
  have h5 := count_five s.next c
  have h7 := @ind_add s.next (s.next + 5) (copyChanges { s with next := s.next + 5 } tr.changes).2.next c
    (by omega) h3
  exact (ind_pos (by omega : 0 < ind s.next (copyChanges { s with next := s.next + 5 } tr.changes).2.next c)).1

end Diffx.Heap
