import DiffxVerif.Lemmas.ReaderFrame
/-!
# One loop iteration of the reader against the specification's reading

Core Lean only.  Support for `Properties/C03.lean`.

* `BlankLines`, `nextLine_fuel`, `nextLine_skip_blank`: whitespace-only lines in
  front of a header are skipped;
* `step_container`, `step_main`, `step_bad_format`, `step_bad_json`,
  `step_content`: the branches of `stepSection`, through `stepSection_chain`;
* `readContent_bad_le`, `readContent_no_newline`: two error branches of
  `readContent`, through the staged form `readContent_eq`;
* `readContent_keep_bytes`: with `keep_bytes` the result is never text.
-/
set_option linter.unusedSimpArgs false

namespace Diffx.Reader
open Diffx Diffx.Header

/-! ## blank lines -/

/-- `blank` is a concatenation of zero or more lines, each terminated by LF and
each consisting of whitespace only -/
def BlankLines (blank : Bytes) : Prop :=
  ∃ ls : List Bytes, blank = (ls.map (· ++ [10])).flatten ∧
    ∀ l ∈ ls, (∀ b ∈ l, isWs b = true) ∧ (10 : UInt8) ∉ l

/-- `nextLine` does not depend on its fuel once the fuel exceeds the length of the stream -/
theorem nextLine_fuel (chunk : Nat) (f₁ f₂ : Nat) (rest : Bytes) (h₁ : rest.length < f₁) (h₂ : rest.length < f₂) :
    nextLine chunk f₁ rest = nextLine chunk f₂ rest := by
  induction f₁ generalizing rest f₂ with
  | zero => omega
  | succ f₁ ih =>
    cases f₂ with
    | zero => omega
    | succ f₂ =>
      rw [nextLine, nextLine]
      rcases hr : readUntil chunk 10 rest with ⟨ln, eof, r'⟩
      simp only
      cases eof with
      | true => rfl
      | false =>
        obtain ⟨e1, e2⟩ := readUntil_noeof chunk 10 rest ln r' hr
        have hl : 0 < ln.length := List.length_pos_of_mem e2
        have hlen : r'.length < rest.length := by rw [e1, List.length_append]; omega
        simp only [Bool.false_eq_true, if_false]
        by_cases hs : (!(pyStrip ln).isEmpty) = true
        · simp only [hs, if_true]
        · simp only [hs, if_false]
          exact ih f₂ r' (by omega) (by omega)

theorem pyStrip_ws (l : Bytes) (h : ∀ b ∈ l, isWs b = true) : pyStrip l = [] := by
  unfold pyStrip
  have : l.dropWhile isWs = [] := by
    induction l with
    | nil => rfl
    | cons a r ih =>
      rw [List.dropWhile_cons, if_pos (h a (by simp))]
      exact ih (fun b hb => h b (List.mem_cons_of_mem _ hb))
  rw [this]; rfl

theorem readLineSpec_line (l rest : Bytes) (h : (10 : UInt8) ∉ l) :
    readLineSpec 10 (l ++ [10] ++ rest) = (l ++ [10], false, rest) := by
  have hnone : findSub [10] l = none := findSub_single_none 10 l h
  unfold readLineSpec
  rw [List.append_assoc, findSub_single_append_none 10 l _ hnone]
  have : findSub [10] ([10] ++ rest) = some 0 := by simp [findSub_single_cons]
  rw [this]
  simp only [Option.map_some]
  have e : l ++ ([10] ++ rest) = (l ++ [10]) ++ rest := by simp
  rw [e, List.take_left' (by simp), List.drop_left' (by simp)]

/-- one blank line in front of the stream is skipped -/
theorem nextLine_blank_line (chunk : Nat) (hc : 0 < chunk) (l rest : Bytes) (fuel : Nat)
    (hw : ∀ b ∈ l, isWs b = true) (hn : (10 : UInt8) ∉ l) :
    nextLine chunk (fuel + 1) (l ++ [10] ++ rest) = nextLine chunk fuel rest := by
  have hstrip : pyStrip (l ++ [10]) = [] := by
    apply pyStrip_ws
    intro b hb
    rcases List.mem_append.mp hb with hb | hb
    · exact hw b hb
    · simp only [List.mem_singleton] at hb; subst hb; decide
  rw [nextLine, readUntil_eq_spec chunk hc, readLineSpec_line l rest hn]
  simp only [hstrip, List.isEmpty_nil, Bool.not_true, Bool.false_eq_true, if_false]

/-- **blank lines are skipped** (`Properties/C03.lean`, `C03_blank_lines`) -/
theorem nextLine_skip_blank (chunk : Nat) (hc : 0 < chunk) (blank rest : Bytes) (f₁ f₂ : Nat)
    (hb : BlankLines blank) (h₁ : (blank ++ rest).length < f₁) (h₂ : rest.length < f₂) :
    nextLine chunk f₁ (blank ++ rest) = nextLine chunk f₂ rest := by
  obtain ⟨ls, rfl, hls⟩ := hb
  induction ls generalizing f₁ with
  | nil => exact nextLine_fuel chunk f₁ f₂ _ h₁ (by simpa using h₂)
  | cons l ls ih =>
    cases f₁ with
    | zero => omega
    | succ f₁ =>
      have e : (List.map (· ++ [10]) (l :: ls)).flatten ++ rest =
          l ++ [10] ++ ((List.map (· ++ [10]) ls).flatten ++ rest) := by simp
      rw [e] at h₁ ⊢
      rw [nextLine_blank_line chunk hc l _ f₁ (hls l (by simp)).1 (hls l (by simp)).2]
      apply ih f₁ (fun l' hl' => hls l' (List.mem_cons_of_mem _ hl'))
      simp only [List.length_append, List.length_cons, List.length_nil] at h₁ ⊢
      omega

/-! ## the branches of `stepSection` -/

/-- **container sections** (`Properties/C03.lean`, `C03_container`) -/
theorem step_container (env : Env) (cfg : Config) (chunk : Nat) (l : Loop) (hdr : Hdr) (ln : Nat) (st : St)
    (hh : readHeader chunk l.valid l.st = .ok (some (hdr, ln, st)))
    (hs : hdr.sec = SecId.change ∨ hdr.sec = SecId.file) :
    ∃ l', stepSection env cfg chunk l = .ok (some (⟨hdr.sec, ln, hdr.opts, .container⟩, l')) ∧
      l'.st = st ∧ l'.valid = validNext hdr.sec ∧
      l'.encodings = pushEnc l.encodings l.prevLevel hdr.sec (hdr.opts.get b!"encoding") := by
  have hc : contentSections.contains hdr.sec = false := by
    rcases hs with h | h <;> rw [h] <;> decide
  have hm : hdr.sec ≠ SecId.main := by
    rcases hs with h | h <;> rw [h] <;> decide
  have hv : verCheck hdr.sec hdr.opts ln = .ok () := by
    unfold verCheck; rw [if_neg hm]
  refine ⟨⟨st, validNext hdr.sec, pushEnc l.encodings l.prevLevel hdr.sec (hdr.opts.get b!"encoding"),
    hdr.sec.level⟩, ?_, rfl, rfl, rfl⟩
  rw [stepSection_chain, hh]
  simp only [ok_bind, stepHdr, hc, hv, Bool.false_eq_true, if_false]

theorem supported_iff (v : Bytes) : supportedVersions.contains v = true ↔ v = b!"1.0" := by
  simp [supportedVersions]

/-- **main header** (`Properties/C03.lean`, `C03_main`) -/
theorem step_main (env : Env) (cfg : Config) (chunk : Nat) (l : Loop) (hdr : Hdr) (ln : Nat) (st : St)
    (hh : readHeader chunk l.valid l.st = .ok (some (hdr, ln, st))) (hs : hdr.sec = SecId.main) :
    (hdr.opts.get b!"version" = some (.str b!"1.0") →
      ∃ l', stepSection env cfg chunk l = .ok (some (⟨hdr.sec, ln, hdr.opts, .container⟩, l'))) ∧
    (hdr.opts.get b!"version" ≠ some (.str b!"1.0") →
      stepSection env cfg chunk l = .error (.parseError ln none)) := by
  have hc : contentSections.contains hdr.sec = false := by rw [hs]; decide
  have hstep : stepSection env cfg chunk l =
      verCheck hdr.sec hdr.opts ln >>= fun _ =>
      .ok (some (⟨hdr.sec, ln, hdr.opts, .container⟩,
        ⟨st, validNext hdr.sec, pushEnc l.encodings l.prevLevel hdr.sec (hdr.opts.get b!"encoding"),
          hdr.sec.level⟩)) := by
    rw [stepSection_chain, hh]
    simp only [ok_bind, stepHdr, hc, Bool.false_eq_true, if_false]
  constructor
  · intro hv
    have : verCheck hdr.sec hdr.opts ln = .ok () := by
      unfold verCheck
      rw [if_pos hs, hv]
      simp only [(supported_iff _).mpr rfl, if_true]
    rw [hstep, this]
    exact ⟨_, rfl⟩
  · intro hv
    have : verCheck hdr.sec hdr.opts ln = .error (.parseError ln none) := by
      unfold verCheck
      rw [if_pos hs]
      rcases hg : hdr.opts.get b!"version" with _ | (n | v)
      · rfl
      · rfl
      · have hne : v ≠ b!"1.0" := by
          intro e; rw [hg, e] at hv; exact hv rfl
        have : supportedVersions.contains v = false := by
          rw [← Bool.not_eq_true, supported_iff]; exact hne
        simp only [this, Bool.false_eq_true, if_false]
    rw [hstep, this]
    rfl

theorem meta_sec (sec : SecId) (hs : metaSections.contains sec = true) :
    contentSections.contains sec = true ∧ preambleSections.contains sec = false ∧ sec ≠ SecId.fileDiff := by
  have : sec = SecId.mainMeta ∨ sec = SecId.changeMeta ∨ sec = SecId.fileMeta := by
    simpa [metaSections] using hs
  rcases this with h | h | h <;> subst h <;> decide

theorem lengthOf_int (opts : Opts) (ln : Nat) (n : Int) (h : opts.get b!"length" = some (.int n)) (hn : 0 ≤ n) :
    lengthOf opts ln = .ok n.toNat := by
  unfold lengthOf
  rw [h]
  simp only [Int.not_lt.mpr hn, if_false]

/-- **metadata format** (`Properties/C03.lean`, `C03_bad_format`) -/
theorem step_bad_format (env : Env) (cfg : Config) (chunk : Nat) (l : Loop) (hdr : Hdr) (ln : Nat) (st : St)
    (v : OptVal)
    (hh : readHeader chunk l.valid l.st = .ok (some (hdr, ln, st)))
    (hs : metaSections.contains hdr.sec = true)
    (hlen : ∃ n : Int, hdr.opts.get b!"length" = some (.int n) ∧ 0 ≤ n)
    (hf : hdr.opts.get b!"format" = some v) (hv : v ≠ .str b!"json") :
    stepSection env cfg chunk l = .error (.parseError ln none) := by
  obtain ⟨hc, hp, _⟩ := meta_sec hdr.sec hs
  obtain ⟨n, hlen, hn⟩ := hlen
  have hfmt : fmtCheck hdr.sec hdr.opts ln = .error (.parseError ln none) := by
    unfold fmtCheck
    rw [hp, hs, hf]
    have : (v != OptVal.str b!"json") = true := by simpa using hv
    simp only [this, Bool.not_false, Bool.and_self, if_true]
  rw [stepSection_chain, hh]
  simp only [ok_bind, stepHdr, hc, if_true, lengthOf_int _ _ n hlen hn, hfmt]
  rfl

/-- **invalid JSON / not an object** (`Properties/C03.lean`, `C03_bad_json`) -/
theorem step_bad_json (env : Env) (cfg : Config) (chunk : Nat) (l : Loop) (hdr : Hdr) (ln : Nat) (st st' : St)
    (n : Nat) (t : Text)
    (hh : readHeader chunk l.valid l.st = .ok (some (hdr, ln, st)))
    (hs : metaSections.contains hdr.sec = true)
    (hlen : hdr.opts.get b!"length" = some (.int n))
    (hf : hdr.opts.get b!"format" = none ∨ hdr.opts.get b!"format" = some (.str b!"json"))
    (hc : readContent env cfg st n (contentEncoding hdr.sec hdr.opts l.encodings) none
            (hdr.opts.get b!"line_endings") false = .ok (.text t, st'))
    (hj : env.loadsText t = .err ∨ ∃ j, env.loadsText t = .ok j ∧ j.isObj = false) :
    stepSection env cfg chunk l = .error (.parseError ln none) := by
  obtain ⟨hcs, hp, _⟩ := meta_sec hdr.sec hs
  have hfmt : fmtCheck hdr.sec hdr.opts ln = .ok () := by
    unfold fmtCheck
    rw [hp, hs]
    rcases hf with hf | hf <;> rw [hf]
    · rfl
    · rfl
  have hi : rcIndent hdr.sec hdr.opts = none := by unfold rcIndent; rw [hp]; rfl
  have hk : rcKeep hdr.sec = false := by unfold rcKeep; rw [hp, hs]; rfl
  have hco : contentOf env hdr.sec ln (.text t) = .error (.parseError ln none) := by
    unfold contentOf
    rw [hp, hs]
    simp only [Bool.false_eq_true, if_false, if_true]
    rcases hj with hj | ⟨j, hj, ho⟩
    · rw [hj]; rfl
    · rw [hj]; simp only [liftEnv, ok_bind, ho, Bool.not_false, if_true]
  rw [stepSection_chain, hh]
  have hl := lengthOf_int hdr.opts ln (n : Int) hlen (Int.natCast_nonneg n)
  rw [Int.toNat_natCast] at hl
  simp only [ok_bind, stepHdr, hcs, if_true, hl, hfmt, hi, hk, hc, hco]
  rfl

/-! ## error branches of `readContent` -/

/-- **unknown `line_endings` value** (`Properties/C03.lean`, `C03_bad_line_endings`) -/
theorem readContent_bad_le (env : Env) (cfg : Config) (st : St) (length : Nat) (enc ind : Option OptVal)
    (s : Bytes) (kb : Bool) (hs : s ≠ b!"unix" ∧ s ≠ b!"dos")
    (hok : enc = none ∨ ∃ e, enc = some (.str e)) (hl : length ≤ maxRead) (hne : st.rest.take length ≠ [])
    (hstrict : cfg.strictLength = false) :
    readContent env cfg st length enc ind (some (.str s)) kb = .error (.parseError st.linenum none) := by
  rw [readContent_eq, hstrict]
  have h1 : ¬ length > maxRead := by omega
  have h2 : (st.rest.take length).isEmpty = false := by
    rw [← Bool.not_eq_true, List.isEmpty_iff]; exact hne
  have key : ∀ e, rcChecks env cfg st.linenum kb (st.rest.take length)
      (false && decide ((st.rest.take length).length < length)) length ind (some (.str s))
      (st.rest.drop length) st.fileCrlf e = .error (.parseError st.linenum none) := by
    intro e
    unfold rcChecks
    simp only [h1, h2, Bool.false_and, Bool.false_eq_true, if_false, hs.1, hs.2]
    rfl
  rcases hok with rfl | ⟨e, rfl⟩ <;> exact key _

/-- **content not ending with its newline** (`Properties/C03.lean`, `C03_no_trailing_newline`) -/
theorem readContent_no_newline (env : Env) (cfg : Config) (st : St) (length : Nat) (e : Option Bytes)
    (ind : Option OptVal) (dos : Bool) (nl : Bytes) (kb : Bool)
    (hl : length ≤ maxRead) (hne : st.rest.take length ≠ []) (hstrict : cfg.strictLength = false)
    (hnl : newlineFor env cfg st.linenum dos (e.map Name.ofBytes) = .ok nl) (hnn : nl ≠ [])
    (hend : endsWith (st.rest.take length) nl = false) :
    readContent env cfg st length (e.map OptVal.str) ind (some (.str (if dos then b!"dos" else b!"unix"))) kb =
      .error (.parseError st.linenum none) := by
  rw [readContent_eq, hstrict]
  have h1 : ¬ length > maxRead := by omega
  have h2 : (st.rest.take length).isEmpty = false := by
    rw [← Bool.not_eq_true, List.isEmpty_iff]; exact hne
  have h3 : nl.isEmpty = false := by
    rw [← Bool.not_eq_true, List.isEmpty_iff]; exact hnn
  have hst : ∀ le r f, rcStaged env cfg st.linenum (st.rest.take length)
      (false && decide ((st.rest.take length).length < length)) length (e.map OptVal.str) ind le kb r f =
      rcChecks env cfg st.linenum kb (st.rest.take length) false length ind le r f (e.map Name.ofBytes) := by
    intro le r f
    cases e <;> rfl
  have hnlr : ∀ r f, rcNl env st.linenum (e.map Name.ofBytes) kb (st.rest.take length) ind r f nl =
      .error (.parseError st.linenum none) := by
    intro r f
    unfold rcNl
    simp only [h3, hend, Bool.false_eq_true, if_false, Bool.not_false, if_true]
    rfl
  rw [hst]
  unfold rcChecks
  cases dos
  · have hd : (b!"unix" : Bytes) = b!"unix" := rfl
    simp only [h1, h2, Bool.false_eq_true, if_false, if_true] at hnl ⊢
    rw [hnl, ok_bind, hnlr]
  · have hd : (b!"dos" : Bytes) ≠ b!"unix" := by decide
    simp only [h1, h2, Bool.false_eq_true, if_false, if_true, hd] at hnl ⊢
    rw [hnl, ok_bind, hnlr]

/-! ## with `keep_bytes` the result is bytes -/

/-- the result, if any, is bytes -/
def OkBytes (x : M (Got × St)) : Prop := ∀ got st', x = .ok (got, st') → ∃ b, got = .bytes b

theorem okBytes_error (e : Outcome) : OkBytes (.error e) := by
  intro got st' h; cases h

theorem rcFinal_keep (env : Env) (ln : Nat) (enc : Option Name) (content0 newline : Bytes)
    (lines : List Bytes) (r : Bytes) (f : Option Bool) (ind : Nat) :
    OkBytes (rcFinal env ln enc true content0 newline lines r f ind) := by
  unfold rcFinal
  extract_lets perr content
  have key : OkBytes (do
      if !endsWith content newline then throw perr
      pure (Got.bytes content, (⟨r, ln + lines.length, f⟩ : St))) := by
    by_cases h : (!endsWith content newline) = true
    · simp only [h, if_true]; exact okBytes_error _
    · simp only [h, if_false]
      intro got st' hg
      cases hg
      exact ⟨_, rfl⟩
  cases enc <;> exact key

theorem rcNl_keep (env : Env) (ln : Nat) (enc : Option Name) (content : Bytes) (indent : Option OptVal)
    (r : Bytes) (f : Option Bool) (newline : Bytes) :
    OkBytes (rcNl env ln enc true content indent r f newline) := by
  unfold rcNl
  by_cases h1 : newline.isEmpty = true
  · simp only [h1, if_true]; exact okBytes_error _
  by_cases h2 : (!endsWith content newline) = true
  · simp only [h1, h2, if_true]; exact okBytes_error _
  simp only [h1, h2, Bool.false_eq_true, if_false]
  rcases indent with _ | (n | s)
  · exact rcFinal_keep _ _ _ _ _ _ _ _ _
  · by_cases h3 : n < 0
    · simp only [h3, if_true]; exact okBytes_error _
    · simp only [h3, if_false]; exact rcFinal_keep _ _ _ _ _ _ _ _ _
  · exact okBytes_error _

theorem rcChecks_keep (env : Env) (cfg : Config) (ln : Nat) (content : Bytes) (short : Bool)
    (length : Nat) (indent le : Option OptVal) (r : Bytes) (f : Option Bool) (enc : Option Name) :
    OkBytes (rcChecks env cfg ln true content short length indent le r f enc) := by
  unfold rcChecks
  by_cases h1 : length > maxRead
  · simp only [h1, if_true]; exact okBytes_error _
  by_cases h2 : content.isEmpty = true
  · simp only [h1, h2, if_true, if_false]; exact okBytes_error _
  by_cases h3 : short = true
  · simp only [h1, h2, h3, if_true, if_false]; exact okBytes_error _
  simp only [h1, h2, h3, Bool.false_eq_true, if_false]
  split
  · rename_i s _
    by_cases hs : s = b!"unix"
    · simp only [hs, if_true]
      cases newlineFor env cfg ln false enc with
      | error e => exact okBytes_error _
      | ok p => exact rcNl_keep _ _ _ _ _ _ _ _
    by_cases hs' : s = b!"dos"
    · simp only [hs, hs', if_true, if_false]
      cases newlineFor env cfg ln true enc with
      | error e => exact okBytes_error _
      | ok p => exact rcNl_keep _ _ _ _ _ _ _ _
    · simp only [hs, hs', if_false]; exact okBytes_error _
  · exact okBytes_error _
  · cases guessLineEndings env cfg ln content enc with
    | error e => exact okBytes_error _
    | ok p => exact rcNl_keep _ _ _ _ _ _ _ _

/-- `_read_content(…, keep_bytes=True)` never returns text -/
theorem readContent_keep_bytes (env : Env) (cfg : Config) (st : St) (n : Nat) (enc ind le : Option OptVal)
    (got : Got) (st' : St) (h : readContent env cfg st n enc ind le true = .ok (got, st')) :
    ∃ b, got = .bytes b := by
  rw [readContent_eq] at h
  revert h
  unfold rcStaged
  rcases enc with _ | (k | s)
  · exact rcChecks_keep _ _ _ _ _ _ _ _ _ _ _ got st'
  · exact okBytes_error _ got st'
  · exact rcChecks_keep _ _ _ _ _ _ _ _ _ _ _ got st'



/-! ## a conforming preamble / diff section -/

/-- the content of the record of a preamble or diff section, from what
`_read_content` returned: decoded text or bytes for a preamble, bytes for a diff -/
def sectionContent (sec : SecId) (got : Got) : Content :=
  match got with
  | .text t => .text t
  | .bytes b => if sec = SecId.fileDiff then .diff b else .textBytes b

/-- **content sections** (`Properties/C03.lean`, `C03_content`) -/
theorem step_content (env : Env) (cfg : Config) (chunk : Nat) (l : Loop) (hdr : Hdr) (ln : Nat) (st st' : St)
    (n : Nat) (got : Got)
    (hh : readHeader chunk l.valid l.st = .ok (some (hdr, ln, st)))
    (hs : preambleSections.contains hdr.sec = true ∨ hdr.sec = SecId.fileDiff)
    (hlen : hdr.opts.get b!"length" = some (.int n))
    (hc : readContent env cfg st n (contentEncoding hdr.sec hdr.opts l.encodings)
            (if preambleSections.contains hdr.sec then hdr.opts.get b!"indent" else none)
            (hdr.opts.get b!"line_endings") (hdr.sec == SecId.fileDiff) = .ok (got, st')) :
    ∃ l', stepSection env cfg chunk l =
        .ok (some (⟨hdr.sec, ln, hdr.opts, sectionContent hdr.sec got⟩, l')) ∧
      l'.st = st' ∧ l'.valid = validNext hdr.sec ∧ l'.encodings = l.encodings ∧
      l'.prevLevel = l.prevLevel ∧
      (hdr.sec = SecId.fileDiff → ∃ b, got = .bytes b) := by
  have hl := lengthOf_int hdr.opts ln (n : Int) hlen (Int.natCast_nonneg n)
  rw [Int.toNat_natCast] at hl
  refine ⟨⟨st', validNext hdr.sec, l.encodings, l.prevLevel⟩, ?_, rfl, rfl, rfl, rfl, ?_⟩
  · rw [stepSection_chain, hh]
    rcases hs with hp | hd
    · have hsec : hdr.sec = SecId.mainPreamble ∨ hdr.sec = SecId.changePreamble := by
        simpa [preambleSections] using hp
      have hcs : contentSections.contains hdr.sec = true := by
        rcases hsec with h | h <;> rw [h] <;> decide
      have hfd : hdr.sec ≠ SecId.fileDiff := by
        rcases hsec with h | h <;> rw [h] <;> decide
      have hfb : (hdr.sec == SecId.fileDiff) = false := by
        rcases hsec with h | h <;> rw [h] <;> decide
      have hfmt : fmtCheck hdr.sec hdr.opts ln = .ok () := by
        unfold fmtCheck; rw [hp]; rfl
      have hi : rcIndent hdr.sec hdr.opts = hdr.opts.get b!"indent" := by unfold rcIndent; rw [hp]; rfl
      have hk : rcKeep hdr.sec = false := by unfold rcKeep; rw [hp]; rfl
      have hco : contentOf env hdr.sec ln got = .ok (sectionContent hdr.sec got) := by
        unfold contentOf sectionContent
        rw [hp]
        cases got <;> simp only [if_true, hfd, if_false]
      rw [hp, hfb] at hc
      simp only [if_true] at hc
      simp only [ok_bind, stepHdr, hcs, if_true, hl, hfmt, hi, hk, hc, hco]
    · have hp : preambleSections.contains hdr.sec = false := by rw [hd]; decide
      have hm : metaSections.contains hdr.sec = false := by rw [hd]; decide
      have hcs : contentSections.contains hdr.sec = true := by rw [hd]; decide
      have hfb : (hdr.sec == SecId.fileDiff) = true := by rw [hd]; decide
      have hfmt : fmtCheck hdr.sec hdr.opts ln = .ok () := by
        unfold fmtCheck; rw [hp, hm]; rfl
      have hi : rcIndent hdr.sec hdr.opts = none := by unfold rcIndent; rw [hp]; rfl
      have hk : rcKeep hdr.sec = true := by unfold rcKeep; rw [hp, hm]; rfl
      rw [hp, hfb] at hc
      simp only [Bool.false_eq_true, if_false] at hc
      obtain ⟨b, rfl⟩ := readContent_keep_bytes env cfg st n _ _ _ got st' hc
      have hco : contentOf env hdr.sec ln (.bytes b) = .ok (sectionContent hdr.sec (.bytes b)) := by
        unfold contentOf sectionContent
        rw [hp, hm]
        simp only [Bool.false_eq_true, if_false, hd, if_true]
      simp only [ok_bind, stepHdr, hcs, if_true, hl, hfmt, hi, hk, hc, hco]
  · intro hd
    have hp : preambleSections.contains hdr.sec = false := by rw [hd]; decide
    have hfb : (hdr.sec == SecId.fileDiff) = true := by rw [hd]; decide
    rw [hp, hfb] at hc
    simp only [Bool.false_eq_true, if_false] at hc
    exact readContent_keep_bytes env cfg st n _ _ _ got st' hc

end Diffx.Reader
