import DiffxVerif.Model.Codecs
import DiffxVerif.Lemmas.Faithful
import DiffxVerif.Generated.Tables
/-!
# The concrete codecs satisfy the codec laws

Core Lean only.  Support for `Properties/C01Faithful.lean`.

* generic facts about code-point-wise codecs: `encChars_append_some`, `encChars_append_inv`,
  `decChars_encChars` (a decoder whose step undoes `encChar` undoes the encoder),
  `nl_suffix_chars` (encoded data ends with the encoded newline only when the text ends with
  the newline);
* per `encChar` / `step` pair: `StepOk` (the step undoes the character encoder) and `NlOk`
  (LF and CR are not longer than any other encoded code point and are recognised by the last
  bytes) for ascii, latin-1, utf-8, utf-16 and utf-32 (both byte orders), cp1252; `noBom_*`:
  encoded data begins with the table's byte-order mark only when the text begins with U+FEFF;
* `Codecs.faithful`, `Codecs.newlines`: `CodecFaithful` / `CodecNewlines` for every codec of
  `Codecs.env`, under every spelling.
-/
namespace Diffx.Codecs
open Diffx

/-! ## the BOM table is the extracted one -/

theorem cfg_boms_eq : cfg.boms = Generated.config.boms := by decide

theorem cfg_eq : cfg.boms = Generated.config.boms ∧ cfg.defaultIndent = Generated.config.defaultIndent ∧
    cfg.defaultEncoding = Generated.config.defaultEncoding ∧ cfg.strictLength = Generated.config.strictLength :=
  ⟨rfl, rfl, rfl, rfl⟩

/-! ## generic: code point by code point -/

theorem encChars_cons_inv (f : Nat → Option Bytes) (c : Nat) (cs : Text) (x : Bytes)
    (h : encChars f (c :: cs) = some x) :
    ∃ b r, f c = some b ∧ encChars f cs = some r ∧ x = b ++ r := by
  unfold encChars at h
  split at h
  · rename_i b r hb hr
    exact ⟨b, r, hb, hr, (Option.some.inj h).symm⟩
  · cases h

theorem encChars_cons_some (f : Nat → Option Bytes) (c : Nat) (cs : Text) (b r : Bytes)
    (hb : f c = some b) (hr : encChars f cs = some r) : encChars f (c :: cs) = some (b ++ r) := by
  rw [encChars, hb, hr]

theorem encChars_append_some (f : Nat → Option Bytes) (t u : Text) (a b : Bytes)
    (ha : encChars f t = some a) (hb : encChars f u = some b) : encChars f (t ++ u) = some (a ++ b) := by
  induction t generalizing a with
  | nil =>
    cases ha
    exact hb
  | cons c cs ih =>
    obtain ⟨b1, r, h1, h2, rfl⟩ := encChars_cons_inv f c cs a ha
    rw [List.cons_append, encChars_cons_some f c (cs ++ u) b1 (r ++ b) h1 (ih r h2), List.append_assoc]

theorem encChars_append_inv (f : Nat → Option Bytes) (t u : Text) (x : Bytes)
    (h : encChars f (t ++ u) = some x) :
    ∃ a b, encChars f t = some a ∧ encChars f u = some b ∧ x = a ++ b := by
  induction t generalizing x with
  | nil => exact ⟨[], x, rfl, h, rfl⟩
  | cons c cs ih =>
    obtain ⟨b1, r, h1, h2, rfl⟩ := encChars_cons_inv f c (cs ++ u) x h
    obtain ⟨a, b, ha, hb, rfl⟩ := ih r h2
    exact ⟨b1 ++ a, b, encChars_cons_some f c cs b1 a h1 ha, hb, by rw [List.append_assoc]⟩

theorem encChars_single_inv (f : Nat → Option Bytes) (c : Nat) (x : Bytes) (h : encChars f [c] = some x) :
    f c = some x := by
  obtain ⟨b, r, h1, h2, rfl⟩ := encChars_cons_inv f c [] x h
  cases h2
  rw [List.append_nil]
  exact h1

/-- the decoder's step undoes the character encoder -/
structure StepOk (f : Nat → Option Bytes) (step : Bytes → Option (Nat × Bytes)) : Prop where
  ne : ∀ c b, f c = some b → b ≠ []
  step : ∀ c b r, f c = some b → step (b ++ r) = some (c, r)

theorem decLoop_encChars {f : Nat → Option Bytes} {step : Bytes → Option (Nat × Bytes)} (H : StepOk f step)
    (t : Text) (bs : Bytes) (h : encChars f t = some bs) (n : Nat) (hn : bs.length ≤ n) :
    decLoop step n bs = some t := by
  induction t generalizing bs n with
  | nil =>
    cases h
    cases n <;> rfl
  | cons c cs ih =>
    obtain ⟨b, r, h1, h2, rfl⟩ := encChars_cons_inv f c cs bs h
    have hne := H.ne c b h1
    have hst := H.step c b r h1
    obtain ⟨x, xs, hx⟩ := List.exists_cons_of_ne_nil hne
    have hlen : 1 ≤ b.length := by rw [hx]; simp
    rw [List.length_append] at hn
    cases n with
    | zero => omega
    | succ m =>
      have hbr : b ++ r = x :: (xs ++ r) := by rw [hx]; rfl
      rw [hbr] at hst ⊢
      rw [decLoop, hst]
      simp only
      rw [ih r h2 m (by omega)]
      rfl

theorem decChars_encChars {f : Nat → Option Bytes} {step : Bytes → Option (Nat × Bytes)} (H : StepOk f step)
    (t : Text) (bs : Bytes) (h : encChars f t = some bs) : decChars step bs = some t :=
  decLoop_encChars H t bs h _ (Nat.le_refl _)

/-- LF and CR under a character encoder: never longer than another encoded code point, and
recognised by the last bytes -/
structure NlOk (f : Nat → Option Bytes) : Prop where
  len : ∀ k, k = 10 ∨ k = 13 → ∀ c b bk, f c = some b → f k = some bk → bk.length ≤ b.length
  last : ∀ k, k = 10 ∨ k = 13 → ∀ c b bk, f c = some b → f k = some bk → bk <:+ b → c = k

/-- encoded data that ends with the encoded LF (CR) comes from a text that ends with it -/
theorem last_char (f : Nat → Option Bytes) (H : NlOk f) (bom : Bytes) (k : Nat) (hk : k = 10 ∨ k = 13)
    (bk : Bytes) (hbk : f k = some bk) (hb : ¬ bk <:+ bom)
    (t : Text) (a : Bytes) (ha : encChars f t = some a) (hs : bk <:+ bom ++ a) :
    ∃ t' a', t = t' ++ [k] ∧ encChars f t' = some a' ∧ a = a' ++ bk := by
  rcases List.eq_nil_or_concat t with rfl | ⟨t', c, rfl⟩
  · cases ha
    rw [List.append_nil] at hs
    exact absurd hs hb
  · rw [List.concat_eq_append] at ha ⊢
    obtain ⟨a', b1, h1, h2, rfl⟩ := encChars_append_inv f t' [c] a ha
    have hc := encChars_single_inv f c b1 h2
    rw [← List.append_assoc] at hs
    have hsuf := List.suffix_of_suffix_length_le hs (List.suffix_append _ _) (H.len k hk c b1 bk hc hbk)
    have hck := H.last k hk c b1 bk hc hbk hsuf
    subst hck
    rw [hbk] at hc
    cases hc
    exact ⟨t', a', rfl, h1, rfl⟩

theorem nl_suffix_chars (f : Nat → Option Bytes) (H : NlOk f) (bom : Bytes)
    (hb : ∀ k, k = 10 ∨ k = 13 → ∀ bk, f k = some bk → ¬ bk <:+ bom)
    (t : Text) (dos : Bool) (a n : Bytes) (ha : encChars f t = some a)
    (hn : encChars f (nlText dos) = some n) (hs : n <:+ bom ++ a) : nlText dos <:+ t := by
  cases dos with
  | false =>
    have h10 := encChars_single_inv f 10 n hn
    obtain ⟨t', a', rfl, -, -⟩ := last_char f H bom 10 (Or.inl rfl) n h10 (hb 10 (Or.inl rfl) n h10) t a ha hs
    exact List.suffix_append _ _
  | true =>
    obtain ⟨b13, r, h13, hr, rfl⟩ := encChars_cons_inv f 13 [10] n hn
    have h10 := encChars_single_inv f 10 r hr
    have hs10 : r <:+ bom ++ a := List.IsSuffix.trans (List.suffix_append _ _) hs
    obtain ⟨t', a', rfl, ha', rfl⟩ :=
      last_char f H bom 10 (Or.inl rfl) r h10 (hb 10 (Or.inl rfl) r h10) t a ha hs10
    have hs13 : b13 <:+ bom ++ a' := by
      obtain ⟨p, hp⟩ := hs
      rw [← List.append_assoc, ← List.append_assoc] at hp
      exact ⟨p, List.append_cancel_right hp⟩
    obtain ⟨t'', a'', rfl, -, -⟩ :=
      last_char f H bom 13 (Or.inr rfl) b13 h13 (hb 13 (Or.inr rfl) b13 h13) t' a' ha' hs13
    rw [List.append_assoc]
    exact List.suffix_append _ _

/-! ## bytes and numbers -/

theorem byte_toNat (n : Nat) (h : n < 256) : (n.toUInt8).toNat = n := by
  show (UInt8.ofNat n).toNat = n
  rw [UInt8.toNat_ofNat']
  exact Nat.mod_eq_of_lt h

theorem suffix_same_len {α} (s l t : List α) (h : s <:+ l ++ t) (hl : s.length = t.length) : s = t := by
  obtain ⟨p, hp⟩ := h
  exact List.append_inj_right' hp hl

/-! ## ascii, latin-1 -/

theorem asciiChar_cases (c : Nat) (b : Bytes) (h : asciiChar c = some b) : c < 128 ∧ b = [c.toUInt8] := by
  unfold asciiChar at h
  split at h
  · exact ⟨by assumption, (Option.some.inj h).symm⟩
  · cases h

theorem latin1Char_cases (c : Nat) (b : Bytes) (h : latin1Char c = some b) : c < 256 ∧ b = [c.toUInt8] := by
  unfold latin1Char at h
  split at h
  · exact ⟨by assumption, (Option.some.inj h).symm⟩
  · cases h

theorem stepOk_ascii : StepOk asciiChar asciiStep where
  ne := by
    intro c b h
    obtain ⟨_, rfl⟩ := asciiChar_cases c b h
    simp
  step := by
    intro c b r h
    obtain ⟨h1, rfl⟩ := asciiChar_cases c b h
    have e0 := byte_toNat c (by omega)
    simp only [List.cons_append, List.nil_append, asciiStep, e0, if_pos h1]

theorem stepOk_latin1 : StepOk latin1Char latin1Step where
  ne := by
    intro c b h
    obtain ⟨_, rfl⟩ := latin1Char_cases c b h
    simp
  step := by
    intro c b r h
    obtain ⟨h1, rfl⟩ := latin1Char_cases c b h
    have e0 := byte_toNat c h1
    simp only [List.cons_append, List.nil_append, latin1Step, e0]

/-- a one-byte-per-code-point encoder that is the identity below 256 -/
theorem nlOk_single (f : Nat → Option Bytes)
    (hf : ∀ c b, f c = some b → c < 256 ∧ b = [c.toUInt8]) : NlOk f where
  len := by
    intro k hk c b bk hb hbk
    rw [(hf c b hb).2, (hf k bk hbk).2]
    exact Nat.le_refl _
  last := by
    intro k hk c b bk hb hbk hs
    obtain ⟨h1, rfl⟩ := hf c b hb
    obtain ⟨h2, rfl⟩ := hf k bk hbk
    have := congrArg UInt8.toNat (List.cons.inj (suffix_same_len _ [] _ hs rfl)).1
    rw [byte_toNat k h2, byte_toNat c h1] at this
    exact this.symm

theorem nlOk_ascii : NlOk asciiChar :=
  nlOk_single asciiChar (fun c b h => ⟨by have := (asciiChar_cases c b h).1; omega, (asciiChar_cases c b h).2⟩)

theorem nlOk_latin1 : NlOk latin1Char := nlOk_single latin1Char latin1Char_cases

/-! ## utf-8 -/

theorem utf8Char_cases (c : Nat) (b : Bytes) (h : utf8Char c = some b) :
    (c < 0x80 ∧ b = [c.toUInt8]) ∨
    (0x80 ≤ c ∧ c < 0x800 ∧ b = [(0xC0 + c / 64).toUInt8, (0x80 + c % 64).toUInt8]) ∨
    (0x800 ≤ c ∧ c < 0x10000 ∧ ¬ (0xD800 ≤ c ∧ c < 0xE000) ∧
      b = [(0xE0 + c / 4096).toUInt8, (0x80 + c / 64 % 64).toUInt8, (0x80 + c % 64).toUInt8]) ∨
    (0x10000 ≤ c ∧ c < 0x110000 ∧
      b = [(0xF0 + c / 262144).toUInt8, (0x80 + c / 4096 % 64).toUInt8, (0x80 + c / 64 % 64).toUInt8,
        (0x80 + c % 64).toUInt8]) := by
  unfold utf8Char at h
  split at h
  · exact Or.inl ⟨by assumption, (Option.some.inj h).symm⟩
  · split at h
    · exact Or.inr (Or.inl ⟨by omega, by assumption, (Option.some.inj h).symm⟩)
    · split at h
      · split at h
        · cases h
        · exact Or.inr (Or.inr (Or.inl ⟨by omega, by assumption, by assumption, (Option.some.inj h).symm⟩))
      · split at h
        · exact Or.inr (Or.inr (Or.inr ⟨by omega, by assumption, (Option.some.inj h).symm⟩))
        · cases h

theorem utf8Step_1 (b0 : UInt8) (r : Bytes) (h0 : b0.toNat < 0x80) : utf8Step (b0 :: r) = some (b0.toNat, r) := by
  simp only [utf8Step, if_pos h0]

theorem utf8Step_2 (b0 b1 : UInt8) (r : Bytes) (h0 : 0xC2 ≤ b0.toNat) (h0' : b0.toNat < 0xE0)
    (h1 : 0x80 ≤ b1.toNat) (h1' : b1.toNat < 0xC0)
    (c : Nat) (hc : c = (b0.toNat - 0xC0) * 64 + (b1.toNat - 0x80)) :
    utf8Step (b0 :: b1 :: r) = some (c, r) := by
  have c1 : isCont b1 = true := by simp [isCont, h1, h1']
  simp only [utf8Step, if_neg (show ¬ b0.toNat < 0x80 by omega), if_neg (show ¬ b0.toNat < 0xC2 by omega),
    if_pos h0', c1, if_true, ← hc]

theorem utf8Step_3 (b0 b1 b2 : UInt8) (r : Bytes) (h0 : 0xE0 ≤ b0.toNat) (h0' : b0.toNat < 0xF0)
    (h1 : 0x80 ≤ b1.toNat) (h1' : b1.toNat < 0xC0) (h2 : 0x80 ≤ b2.toNat) (h2' : b2.toNat < 0xC0)
    (c : Nat) (hc : c = (b0.toNat - 0xE0) * 4096 + (b1.toNat - 0x80) * 64 + (b2.toNat - 0x80))
    (hc1 : 0x800 ≤ c) (hc2 : ¬ (0xD800 ≤ c ∧ c < 0xE000)) :
    utf8Step (b0 :: b1 :: b2 :: r) = some (c, r) := by
  have c1 : isCont b1 = true := by simp [isCont, h1, h1']
  have c2 : isCont b2 = true := by simp [isCont, h2, h2']
  have hcond : (decide (c < 0x800) || (decide (0xD800 ≤ c) && decide (c < 0xE000))) = false := by
    simp only [Bool.or_eq_false_iff, decide_eq_false_iff_not, Bool.and_eq_false_iff]
    omega
  simp only [utf8Step, if_neg (show ¬ b0.toNat < 0x80 by omega), if_neg (show ¬ b0.toNat < 0xC2 by omega),
    if_neg (show ¬ b0.toNat < 0xE0 by omega), if_pos h0', c1, c2, Bool.and_self, if_true, ← hc, hcond,
    Bool.false_eq_true, if_false]

theorem utf8Step_4 (b0 b1 b2 b3 : UInt8) (r : Bytes) (h0 : 0xF0 ≤ b0.toNat) (h0' : b0.toNat < 0xF5)
    (h1 : 0x80 ≤ b1.toNat) (h1' : b1.toNat < 0xC0) (h2 : 0x80 ≤ b2.toNat) (h2' : b2.toNat < 0xC0)
    (h3 : 0x80 ≤ b3.toNat) (h3' : b3.toNat < 0xC0)
    (c : Nat) (hc : c = (b0.toNat - 0xF0) * 262144 + (b1.toNat - 0x80) * 4096 + (b2.toNat - 0x80) * 64 + (b3.toNat - 0x80))
    (hc1 : 0x10000 ≤ c) (hc2 : c < 0x110000) :
    utf8Step (b0 :: b1 :: b2 :: b3 :: r) = some (c, r) := by
  have c1 : isCont b1 = true := by simp [isCont, h1, h1']
  have c2 : isCont b2 = true := by simp [isCont, h2, h2']
  have c3 : isCont b3 = true := by simp [isCont, h3, h3']
  have hcond : (decide (c < 0x10000) || decide (0x110000 ≤ c)) = false := by
    simp only [Bool.or_eq_false_iff, decide_eq_false_iff_not]
    omega
  simp only [utf8Step, if_neg (show ¬ b0.toNat < 0x80 by omega), if_neg (show ¬ b0.toNat < 0xC2 by omega),
    if_neg (show ¬ b0.toNat < 0xE0 by omega), if_neg (show ¬ b0.toNat < 0xF0 by omega), if_pos h0', c1, c2, c3,
    Bool.and_self, if_true, ← hc, hcond, Bool.false_eq_true, if_false]

theorem stepOk_utf8 : StepOk utf8Char utf8Step where
  ne := by
    intro c b h
    rcases utf8Char_cases c b h with ⟨_, rfl⟩ | ⟨_, _, rfl⟩ | ⟨_, _, _, rfl⟩ | ⟨_, _, rfl⟩ <;> simp
  step := by
    intro c b r h
    rcases utf8Char_cases c b h with ⟨h1, rfl⟩ | ⟨h1, h2, rfl⟩ | ⟨h1, h2, h3, rfl⟩ | ⟨h1, h2, rfl⟩
    · have e0 := byte_toNat c (by omega)
      rw [List.cons_append, List.nil_append, utf8Step_1 _ _ (by rw [e0]; omega), e0]
    · have e0 := byte_toNat (0xC0 + c / 64) (by omega)
      have e1 := byte_toNat (0x80 + c % 64) (by omega)
      simp only [List.cons_append, List.nil_append]
      exact utf8Step_2 _ _ _ (by rw [e0]; omega) (by rw [e0]; omega) (by rw [e1]; omega) (by rw [e1]; omega) c
        (by rw [e0, e1]; omega)
    · have e0 := byte_toNat (0xE0 + c / 4096) (by omega)
      have e1 := byte_toNat (0x80 + c / 64 % 64) (by omega)
      have e2 := byte_toNat (0x80 + c % 64) (by omega)
      simp only [List.cons_append, List.nil_append]
      exact utf8Step_3 _ _ _ _ (by rw [e0]; omega) (by rw [e0]; omega) (by rw [e1]; omega) (by rw [e1]; omega)
        (by rw [e2]; omega) (by rw [e2]; omega) c (by rw [e0, e1, e2]; omega) h1 h3
    · have e0 := byte_toNat (0xF0 + c / 262144) (by omega)
      have e1 := byte_toNat (0x80 + c / 4096 % 64) (by omega)
      have e2 := byte_toNat (0x80 + c / 64 % 64) (by omega)
      have e3 := byte_toNat (0x80 + c % 64) (by omega)
      simp only [List.cons_append, List.nil_append]
      exact utf8Step_4 _ _ _ _ _ (by rw [e0]; omega) (by rw [e0]; omega) (by rw [e1]; omega) (by rw [e1]; omega)
        (by rw [e2]; omega) (by rw [e2]; omega) (by rw [e3]; omega) (by rw [e3]; omega) c
        (by rw [e0, e1, e2, e3]; omega) h1 h2


theorem utf8Char_nl (k : Nat) (hk : k = 10 ∨ k = 13) (bk : Bytes) (h : utf8Char k = some bk) : bk = [k.toUInt8] := by
  rcases hk with rfl | rfl
  · exact (Option.some.inj h).symm
  · exact (Option.some.inj h).symm

theorem nlOk_utf8 : NlOk utf8Char where
  len := by
    intro k hk c b bk hb hbk
    rw [utf8Char_nl k hk bk hbk]
    have := stepOk_utf8.ne c b hb
    cases b with
    | nil => exact absurd rfl this
    | cons x xs => simp
  last := by
    intro k hk c b bk hb hbk hs
    rw [utf8Char_nl k hk bk hbk] at hs
    have ek : k.toUInt8.toNat = k := byte_toNat k (by omega)
    rcases utf8Char_cases c b hb with ⟨h1, rfl⟩ | ⟨h1, h2, rfl⟩ | ⟨h1, h2, h3, rfl⟩ | ⟨h1, h2, rfl⟩
    · have e0 := byte_toNat c (by omega)
      have := congrArg UInt8.toNat (List.cons.inj (suffix_same_len _ [] _ hs rfl)).1
      rw [ek, e0] at this
      exact this.symm
    · have e1 := byte_toNat (0x80 + c % 64) (by omega)
      have := congrArg UInt8.toNat (List.cons.inj (suffix_same_len _ [_] [_] hs rfl)).1
      rw [ek, e1] at this
      omega
    · have e1 := byte_toNat (0x80 + c % 64) (by omega)
      have := congrArg UInt8.toNat (List.cons.inj (suffix_same_len _ [_, _] [_] hs rfl)).1
      rw [ek, e1] at this
      omega
    · have e1 := byte_toNat (0x80 + c % 64) (by omega)
      have := congrArg UInt8.toNat (List.cons.inj (suffix_same_len _ [_, _, _] [_] hs rfl)).1
      rw [ek, e1] at this
      omega

theorem isPrefixOf_false_of {α} [BEq α] [LawfulBEq α] (s t : List α) (h : ¬ s <+: t) : s.isPrefixOf t = false := by
  cases hb : s.isPrefixOf t with
  | false => rfl
  | true => exact absurd (List.isPrefixOf_iff_prefix.mp hb) h

theorem noBom_utf8 (c : Nat) (b r : Bytes) (h : utf8Char c = some b) (hc : c ≠ 0xFEFF) :
    ¬ ([0xEF, 0xBB, 0xBF] : Bytes) <+: b ++ r := by
  intro hp
  rcases utf8Char_cases c b h with ⟨h1, rfl⟩ | ⟨h1, h2, rfl⟩ | ⟨h1, h2, h3, rfl⟩ | ⟨h1, h2, rfl⟩
  · have e0 := byte_toNat c (by omega)
    simp only [List.cons_append, List.nil_append, List.cons_prefix_cons] at hp
    have := congrArg UInt8.toNat hp.1
    rw [e0] at this
    change 0xEF = c at this
    omega
  · have e0 := byte_toNat (0xC0 + c / 64) (by omega)
    simp only [List.cons_append, List.nil_append, List.cons_prefix_cons] at hp
    have := congrArg UInt8.toNat hp.1
    rw [e0] at this
    change 0xEF = _ at this
    omega
  · have e0 := byte_toNat (0xE0 + c / 4096) (by omega)
    have e1 := byte_toNat (0x80 + c / 64 % 64) (by omega)
    have e2 := byte_toNat (0x80 + c % 64) (by omega)
    simp only [List.cons_append, List.nil_append, List.cons_prefix_cons] at hp
    have a0 := congrArg UInt8.toNat hp.1
    have a1 := congrArg UInt8.toNat hp.2.1
    have a2 := congrArg UInt8.toNat hp.2.2.1
    rw [e0] at a0
    rw [e1] at a1
    rw [e2] at a2
    change 0xEF = _ at a0
    change 0xBB = _ at a1
    change 0xBF = _ at a2
    omega
  · have e0 := byte_toNat (0xF0 + c / 262144) (by omega)
    simp only [List.cons_append, List.nil_append, List.cons_prefix_cons] at hp
    have := congrArg UInt8.toNat hp.1
    rw [e0] at this
    change 0xEF = _ at this
    omega

/-! ## utf-16 -/

theorem unit16_eq (be : Bool) (u : Nat) :
    unit16 be u = [(if be then u / 256 else u % 256).toUInt8, (if be then u % 256 else u / 256).toUInt8] := by
  cases be <;> rfl

theorem val16_unit (be : Bool) (u : Nat) (hu : u < 65536) :
    val16 be (if be then u / 256 else u % 256).toUInt8 (if be then u % 256 else u / 256).toUInt8 = u := by
  have e0 := byte_toNat (u / 256) (by omega)
  have e1 := byte_toNat (u % 256) (by omega)
  cases be
  · simp only [val16, Bool.false_eq_true, if_false, e0, e1]
    omega
  · simp only [val16, if_true, e0, e1]
    omega

theorem utf16Char_cases (be : Bool) (c : Nat) (b : Bytes) (h : utf16Char be c = some b) :
    (c < 0x10000 ∧ ¬ (0xD800 ≤ c ∧ c < 0xE000) ∧ b = unit16 be c) ∨
    (0x10000 ≤ c ∧ c < 0x110000 ∧
      b = unit16 be (0xD800 + (c - 0x10000) / 1024) ++ unit16 be (0xDC00 + (c - 0x10000) % 1024)) := by
  unfold utf16Char at h
  split at h
  · split at h
    · cases h
    · exact Or.inl ⟨by assumption, by assumption, (Option.some.inj h).symm⟩
  · split at h
    · exact Or.inr ⟨by omega, by assumption, (Option.some.inj h).symm⟩
    · cases h

theorem utf16Step_bmp (be : Bool) (a b : UInt8) (r : Bytes) (u : Nat) (hu : u = val16 be a b)
    (h : u < 0xD800 ∨ 0xE000 ≤ u) : utf16Step be (a :: b :: r) = some (u, r) := by
  have hcond : (decide (u < 0xD800) || decide (0xE000 ≤ u)) = true := by
    simp only [Bool.or_eq_true, decide_eq_true_eq]
    exact h
  simp only [utf16Step, ← hu, hcond, if_true]

theorem utf16Step_pair (be : Bool) (a b a' b' : UInt8) (r : Bytes) (u v : Nat) (hu : u = val16 be a b)
    (hv : v = val16 be a' b') (h1 : 0xD800 ≤ u) (h2 : u < 0xDC00) (h3 : 0xDC00 ≤ v) (h4 : v < 0xE000)
    (c : Nat) (hc : c = 0x10000 + (u - 0xD800) * 1024 + (v - 0xDC00)) :
    utf16Step be (a :: b :: a' :: b' :: r) = some (c, r) := by
  have hcond : (decide (u < 0xD800) || decide (0xE000 ≤ u)) = false := by
    simp only [Bool.or_eq_false_iff, decide_eq_false_iff_not]
    omega
  have hcond2 : (decide (0xDC00 ≤ v) && decide (v < 0xE000)) = true := by
    simp only [Bool.and_eq_true, decide_eq_true_eq]
    exact ⟨h3, h4⟩
  simp only [utf16Step, ← hu, ← hv, hcond, Bool.false_eq_true, if_false, if_pos h2, hcond2, if_true, ← hc]

theorem stepOk_utf16 (be : Bool) : StepOk (utf16Char be) (utf16Step be) where
  ne := by
    intro c b h
    rcases utf16Char_cases be c b h with ⟨_, _, rfl⟩ | ⟨_, _, rfl⟩ <;> simp [unit16_eq]
  step := by
    intro c b r h
    rcases utf16Char_cases be c b h with ⟨h1, h2, rfl⟩ | ⟨h1, h2, rfl⟩
    · rw [unit16_eq]
      simp only [List.cons_append, List.nil_append]
      exact utf16Step_bmp be _ _ r c (val16_unit be c h1).symm (by omega)
    · rw [unit16_eq, unit16_eq]
      simp only [List.cons_append, List.nil_append]
      exact utf16Step_pair be _ _ _ _ r _ _ (val16_unit be _ (by omega)).symm (val16_unit be _ (by omega)).symm
        (by omega) (by omega) (by omega) (by omega) c (by omega)

theorem utf16Char_nl (be : Bool) (k : Nat) (hk : k = 10 ∨ k = 13) (bk : Bytes) (h : utf16Char be k = some bk) :
    bk = unit16 be k := by
  rcases hk with rfl | rfl
  · exact (Option.some.inj h).symm
  · exact (Option.some.inj h).symm

/-- two bytes determine the unit -/
theorem unit16_inj (be : Bool) (u v : Nat) (hu : u < 65536) (hv : v < 65536) (h : unit16 be u = unit16 be v) : u = v := by
  rw [unit16_eq, unit16_eq] at h
  have h0 := congrArg UInt8.toNat (List.cons.inj h).1
  have h1 := congrArg UInt8.toNat (List.cons.inj (List.cons.inj h).2).1
  have eu0 := byte_toNat (u / 256) (by omega)
  have eu1 := byte_toNat (u % 256) (by omega)
  have ev0 := byte_toNat (v / 256) (by omega)
  have ev1 := byte_toNat (v % 256) (by omega)
  cases be
  · simp only [Bool.false_eq_true, if_false] at h0 h1
    rw [eu1, ev1] at h0
    rw [eu0, ev0] at h1
    omega
  · simp only [if_true] at h0 h1
    rw [eu0, ev0] at h0
    rw [eu1, ev1] at h1
    omega

theorem unit16_length (be : Bool) (u : Nat) : (unit16 be u).length = 2 := by
  rw [unit16_eq]; rfl

theorem nlOk_utf16 (be : Bool) : NlOk (utf16Char be) where
  len := by
    intro k hk c b bk hb hbk
    rw [utf16Char_nl be k hk bk hbk, unit16_length]
    rcases utf16Char_cases be c b hb with ⟨_, _, rfl⟩ | ⟨_, _, rfl⟩
    · rw [unit16_length]; exact Nat.le_refl _
    · rw [List.length_append, unit16_length, unit16_length]; omega
  last := by
    intro k hk c b bk hb hbk hs
    rw [utf16Char_nl be k hk bk hbk] at hs
    rcases utf16Char_cases be c b hb with ⟨h1, h2, rfl⟩ | ⟨h1, h2, rfl⟩
    · have := suffix_same_len (unit16 be k) [] (unit16 be c) hs (by rw [unit16_length, unit16_length])
      exact (unit16_inj be k c (by omega) h1 this).symm
    · have := suffix_same_len (unit16 be k) (unit16 be _) (unit16 be _) hs (by rw [unit16_length, unit16_length])
      have := unit16_inj be k _ (by omega) (by omega) this
      omega

theorem noBom_utf16 (be : Bool) (c : Nat) (b r : Bytes) (h : utf16Char be c = some b) (hc : c ≠ 0xFEFF) :
    ¬ unit16 be 0xFEFF <+: b ++ r := by
  intro hp
  have key : ∀ u rest, u < 65536 → unit16 be 0xFEFF <+: unit16 be u ++ rest → u = 0xFEFF := by
    intro u rest hu hpre
    obtain ⟨q, hq⟩ := hpre
    have := List.append_inj_left hq (by rw [unit16_length, unit16_length])
    exact (unit16_inj be _ _ (by omega) hu this).symm
  rcases utf16Char_cases be c b h with ⟨h1, h2, rfl⟩ | ⟨h1, h2, rfl⟩
  · exact hc (key c r h1 hp)
  · rw [List.append_assoc] at hp
    have := key _ _ (by omega) hp
    omega

/-! ## utf-32 -/

theorem unit32_length (be : Bool) (u : Nat) : (unit32 be u).length = 4 := by
  cases be <;> rfl

theorem utf32Char_cases (be : Bool) (c : Nat) (b : Bytes) (h : utf32Char be c = some b) :
    c < 0x110000 ∧ ¬ (0xD800 ≤ c ∧ c < 0xE000) ∧ b = unit32 be c := by
  unfold utf32Char at h
  split at h
  · split at h
    · cases h
    · exact ⟨by assumption, by assumption, (Option.some.inj h).symm⟩
  · cases h

/-- the four bytes of a unit give the unit back -/
theorem val32_unit (be : Bool) (u : Nat) (hu : u < 4294967296) :
    ∃ a b c d, unit32 be u = [a, b, c, d] ∧ val32 be a b c d = u := by
  have e0 := byte_toNat (u % 256) (by omega)
  have e1 := byte_toNat (u / 256 % 256) (by omega)
  have e2 := byte_toNat (u / 65536 % 256) (by omega)
  have e3 := byte_toNat (u / 16777216) (by omega)
  cases be
  · refine ⟨_, _, _, _, rfl, ?_⟩
    simp only [val32, Bool.false_eq_true, if_false, e0, e1, e2, e3]
    omega
  · refine ⟨_, _, _, _, rfl, ?_⟩
    simp only [val32, if_true, e0, e1, e2, e3]
    omega

theorem utf32Step_unit (be : Bool) (u : Nat) (r : Bytes) (h1 : u < 0x110000) (h2 : ¬ (0xD800 ≤ u ∧ u < 0xE000)) :
    utf32Step be (unit32 be u ++ r) = some (u, r) := by
  obtain ⟨a, b, c, d, hab, hv⟩ := val32_unit be u (by omega)
  have hcond : (decide (u < 0xD800) || (decide (0xE000 ≤ u) && decide (u < 0x110000))) = true := by
    simp only [Bool.or_eq_true, Bool.and_eq_true, decide_eq_true_eq]
    omega
  rw [hab]
  simp only [List.cons_append, List.nil_append, utf32Step, hv, hcond, if_true]

theorem stepOk_utf32 (be : Bool) : StepOk (utf32Char be) (utf32Step be) where
  ne := by
    intro c b h
    obtain ⟨_, _, rfl⟩ := utf32Char_cases be c b h
    intro hn
    have := unit32_length be c
    rw [hn] at this
    cases this
  step := by
    intro c b r h
    obtain ⟨h1, h2, rfl⟩ := utf32Char_cases be c b h
    exact utf32Step_unit be c r h1 h2

/-- four bytes determine the unit -/
theorem unit32_inj (be : Bool) (u v : Nat) (hu : u < 4294967296) (hv : v < 4294967296)
    (h : unit32 be u = unit32 be v) : u = v := by
  obtain ⟨a, b, c, d, hab, hva⟩ := val32_unit be u hu
  obtain ⟨a', b', c', d', hab', hva'⟩ := val32_unit be v hv
  rw [hab, hab'] at h
  injection h with h0 h
  injection h with h1 h
  injection h with h2 h
  injection h with h3 h
  subst h0 h1 h2 h3
  exact hva.symm.trans hva'

theorem utf32Char_nl (be : Bool) (k : Nat) (hk : k = 10 ∨ k = 13) (bk : Bytes) (h : utf32Char be k = some bk) :
    bk = unit32 be k := by
  rcases hk with rfl | rfl
  · exact (Option.some.inj h).symm
  · exact (Option.some.inj h).symm

theorem nlOk_utf32 (be : Bool) : NlOk (utf32Char be) where
  len := by
    intro k hk c b bk hb hbk
    obtain ⟨_, _, rfl⟩ := utf32Char_cases be c b hb
    rw [utf32Char_nl be k hk bk hbk, unit32_length, unit32_length]
    exact Nat.le_refl _
  last := by
    intro k hk c b bk hb hbk hs
    rw [utf32Char_nl be k hk bk hbk] at hs
    obtain ⟨h1, _, rfl⟩ := utf32Char_cases be c b hb
    have := suffix_same_len (unit32 be k) [] (unit32 be c) hs (by rw [unit32_length, unit32_length])
    exact (unit32_inj be k c (by omega) (by omega) this).symm

theorem noBom_utf32 (be : Bool) (c : Nat) (b r : Bytes) (h : utf32Char be c = some b) (hc : c ≠ 0xFEFF) :
    ¬ unit32 be 0xFEFF <+: b ++ r := by
  intro hp
  obtain ⟨h1, _, rfl⟩ := utf32Char_cases be c b h
  obtain ⟨q, hq⟩ := hp
  have := List.append_inj_left hq (by rw [unit32_length, unit32_length])
  exact hc (unit32_inj be _ _ (by omega) (by omega) this).symm

/-! ## cp1252 -/

/-- every row of the table is found by its byte, which lies in `0x80–0x9F`; its code point is
above Latin-1 -/
theorem cp1252Table_rows : ∀ p ∈ cp1252Table,
    cp1252Table.find? (fun q => q.2 == p.2) = some p ∧ 0x80 ≤ p.2.toNat ∧ p.2.toNat < 0xA0 ∧ 0x100 ≤ p.1 := by
  decide

theorem cp1252Char_cases (c : Nat) (b : Bytes) (h : cp1252Char c = some b) :
    ((c < 0x80 ∨ (0xA0 ≤ c ∧ c < 0x100)) ∧ b = [c.toUInt8]) ∨ (∃ p ∈ cp1252Table, p.1 = c ∧ b = [p.2]) := by
  unfold cp1252Char at h
  split at h
  · exact .inl ⟨by assumption, (Option.some.inj h).symm⟩
  · cases hf : cp1252Table.find? (fun p => p.1 == c) with
    | none =>
      rw [hf] at h
      cases h
    | some p =>
      rw [hf] at h
      have hp : (p.1 == c) = true := List.find?_some (p := fun q : Nat × UInt8 => q.1 == c) hf
      exact .inr ⟨p, List.mem_of_find?_eq_some hf, eq_of_beq hp, (Option.some.inj h).symm⟩

theorem stepOk_cp1252 : StepOk cp1252Char cp1252Step where
  ne := by
    intro c b h
    rcases cp1252Char_cases c b h with ⟨_, rfl⟩ | ⟨p, _, _, rfl⟩ <;> simp
  step := by
    intro c b r h
    rcases cp1252Char_cases c b h with ⟨h1, rfl⟩ | ⟨p, hp, rfl, rfl⟩
    · have e0 := byte_toNat c (by omega)
      simp only [List.cons_append, List.nil_append, cp1252Step, e0]
      rw [if_pos (by omega)]
    · obtain ⟨hf, h1, h2, -⟩ := cp1252Table_rows p hp
      simp only [List.cons_append, List.nil_append, cp1252Step]
      rw [if_neg (by omega), hf]
      rfl

theorem nlOk_cp1252 : NlOk cp1252Char where
  len := by
    intro k hk c b bk hb hbk
    have hk' : bk.length = 1 := by
      rcases cp1252Char_cases k bk hbk with ⟨_, rfl⟩ | ⟨p, _, _, rfl⟩ <;> rfl
    rcases cp1252Char_cases c b hb with ⟨_, rfl⟩ | ⟨p, _, _, rfl⟩ <;> rw [hk'] <;> exact Nat.le_refl _
  last := by
    intro k hk c b bk hb hbk hs
    have hbk' : bk = [k.toUInt8] := by
      rcases hk with rfl | rfl
      · exact (Option.some.inj hbk).symm
      · exact (Option.some.inj hbk).symm
    have ek : k.toUInt8.toNat = k := byte_toNat k (by omega)
    rw [hbk'] at hs
    rcases cp1252Char_cases c b hb with ⟨h1, rfl⟩ | ⟨p, hp, rfl, rfl⟩
    · have e0 := byte_toNat c (by omega)
      have := congrArg UInt8.toNat (List.cons.inj (suffix_same_len _ [] _ hs rfl)).1
      rw [ek, e0] at this
      exact this.symm
    · obtain ⟨-, h1, -, -⟩ := cp1252Table_rows p hp
      have := congrArg UInt8.toNat (List.cons.inj (suffix_same_len _ [] _ hs rfl)).1
      rw [ek] at this
      omega

/-! ## the environment -/

section Env
variable (dj : Json → EnvR Text) (lt : Text → EnvR Json) (lb : Bytes → EnvR Json)

theorem ofOpt_ok {α} (o : Option α) (a : α) : ofOpt o = .ok a ↔ o = some a := by
  cases o <;> simp [ofOpt]

theorem env_encode (e : Name) (c : Codec) (he : lookup e = some c) (t : Text) :
    (env dj lt lb).encode e t = ofOpt (c.encode t) := by
  simp only [env, he]

theorem env_decode (e : Name) (c : Codec) (he : lookup e = some c) (b : Bytes) :
    (env dj lt lb).decode e b = ofOpt (c.decode b) := by
  simp only [env, he]

theorem env_canon (e : Name) (c : Codec) (he : lookup e = some c) :
    (env dj lt lb).canon e = .ok c.name := by
  simp only [env, he, Option.map_some, ofOpt]

/-- `strip_bom(data, name)` for a codec of the environment -/
def Codec.strip (c : Codec) (data : Bytes) : Bytes :=
  match cfg.boms.lookup c.name with
  | some (b0 :: bs) => if (b0 :: bs).any (fun b => b.isPrefixOf data) then data.drop b0.length else data
  | _ => data

theorem stripBom_env (e : Name) (c : Codec) (he : lookup e = some c) (data : Bytes) :
    stripBom (env dj lt lb) cfg data (some e) = .ok (c.strip data) := by
  unfold stripBom
  simp only [env_canon dj lt lb e c he]
  rfl

theorem encode_some (c : Codec) (t : Text) (b : Bytes) :
    c.encode t = some b ↔ ∃ a, encChars c.encChar t = some a ∧ b = c.bom ++ a := by
  unfold Codec.encode
  cases encChars c.encChar t with
  | none => simp
  | some a =>
    simp only [Option.map_some, Option.some.injEq]
    constructor
    · intro h; exact ⟨a, rfl, h.symm⟩
    · rintro ⟨a', h1, h2⟩; rw [h2, h1]

theorem env_encode_ok (e : Name) (c : Codec) (he : lookup e = some c) (t : Text) (b : Bytes) :
    (env dj lt lb).encode e t = .ok b ↔ ∃ a, encChars c.encChar t = some a ∧ b = c.bom ++ a := by
  rw [env_encode dj lt lb e c he, ofOpt_ok, encode_some]

/-- the decoder of a codec: a step that undoes the character encoder, after the BOM -/
theorem Codec.decode_bom (c : Codec) :
    ∃ step, StepOk c.encChar step ∧ ∀ a, c.decode (c.bom ++ a) = decChars step a := by
  cases c
  · exact ⟨asciiStep, stepOk_ascii, fun _ => rfl⟩
  · exact ⟨latin1Step, stepOk_latin1, fun _ => rfl⟩
  · exact ⟨utf8Step, stepOk_utf8, fun _ => rfl⟩
  · refine ⟨utf16Step false, stepOk_utf16 false, fun a => ?_⟩
    show utf16Decode (bom16 ++ a) = _
    unfold utf16Decode
    rw [if_pos (List.isPrefixOf_iff_prefix.mpr (List.prefix_append _ _))]
    rfl
  · exact ⟨utf16Step false, stepOk_utf16 false, fun _ => rfl⟩
  · exact ⟨utf16Step true, stepOk_utf16 true, fun _ => rfl⟩
  · refine ⟨utf32Step false, stepOk_utf32 false, fun a => ?_⟩
    show utf32Decode (bom32 ++ a) = _
    unfold utf32Decode
    rw [if_pos (List.isPrefixOf_iff_prefix.mpr (List.prefix_append _ _))]
    rfl
  · exact ⟨utf32Step false, stepOk_utf32 false, fun _ => rfl⟩
  · exact ⟨utf32Step true, stepOk_utf32 true, fun _ => rfl⟩
  · refine ⟨utf8Step, stepOk_utf8, fun a => ?_⟩
    show utf8sigDecode (bom8 ++ a) = _
    unfold utf8sigDecode
    rw [if_pos (List.isPrefixOf_iff_prefix.mpr (List.prefix_append _ _))]
    rfl
  · exact ⟨cp1252Step, stepOk_cp1252, fun _ => rfl⟩

/-- **decoding undoes encoding**, for every codec (no environment involved) -/
theorem decode_encode (c : Codec) (t : Text) (b : Bytes) (h : c.encode t = some b) : c.decode b = some t := by
  obtain ⟨a, ha, rfl⟩ := (encode_some c t b).mp h
  obtain ⟨step, hs, hd⟩ := c.decode_bom
  rw [hd, decChars_encChars hs t a ha]

theorem Codec.nlOk (c : Codec) : NlOk c.encChar := by
  cases c
  · exact nlOk_ascii
  · exact nlOk_latin1
  · exact nlOk_utf8
  · exact nlOk_utf16 false
  · exact nlOk_utf16 false
  · exact nlOk_utf16 true
  · exact nlOk_utf32 false
  · exact nlOk_utf32 false
  · exact nlOk_utf32 true
  · exact nlOk_utf8
  · exact nlOk_cp1252

theorem Codec.enc_ne (c : Codec) (k : Nat) (b : Bytes) (h : c.encChar k = some b) : b ≠ [] := by
  obtain ⟨step, hs, -⟩ := c.decode_bom
  exact hs.ne k b h

/-- the encoded LF / CR is not the end of the BOM -/
theorem Codec.nl_not_bom (c : Codec) (k : Nat) (hk : k = 10 ∨ k = 13) (bk : Bytes) (h : c.encChar k = some bk) :
    ¬ bk <:+ c.bom := by
  intro hs
  have hne := c.enc_ne k bk h
  cases c
  case utf16 =>
    have hbk := utf16Char_nl false k hk bk h
    rw [hbk] at hs
    have := suffix_same_len (unit16 false k) [] (unit16 false 0xFEFF) hs (by rw [unit16_length, unit16_length])
    have := unit16_inj false k _ (by omega) (by omega) this
    omega
  case utf32 =>
    have hbk := utf32Char_nl false k hk bk h
    rw [hbk] at hs
    have := suffix_same_len (unit32 false k) [] (unit32 false 0xFEFF) hs (by rw [unit32_length, unit32_length])
    have := unit32_inj false k _ (by omega) (by omega) this
    omega
  case utf8sig =>
    have hbk := utf8Char_nl k hk bk h
    rw [hbk] at hs
    have := congrArg UInt8.toNat (List.cons.inj (suffix_same_len [k.toUInt8] [0xEF, 0xBB] [0xBF] hs rfl)).1
    rw [byte_toNat k (by omega)] at this
    change k = 0xBF at this
    omega
  all_goals exact hne (List.suffix_nil.mp hs)

theorem strip_none (c : Codec) (h : cfg.boms.lookup c.name = none) (data : Bytes) : c.strip data = data := by
  unfold Codec.strip
  rw [h]

theorem strip_single (c : Codec) (m : Bytes) (h : cfg.boms.lookup c.name = some [m]) (data : Bytes)
    (hn : ¬ m <+: data) : c.strip data = data := by
  unfold Codec.strip
  rw [h]
  simp only [List.any_cons, List.any_nil, Bool.or_false, isPrefixOf_false_of m data hn, Bool.false_eq_true, if_false]

/-- without a leading U+FEFF in the text, `strip_bom` removes exactly the encoder's BOM -/
theorem Codec.strip_enc (c : Codec) (u : Text) (b : Bytes) (hu : encChars c.encChar u = some b)
    (hh : u.head? ≠ some 0xFEFF) : c.strip (c.bom ++ b) = b := by
  have hcases : ∀ (f : Nat → Option Bytes) (m : Bytes), m ≠ [] →
      (∀ c b r, f c = some b → c ≠ 0xFEFF → ¬ m <+: b ++ r) → encChars f u = some b → ¬ m <+: b := by
    intro f m hm hf hub
    cases u with
    | nil =>
      cases hub
      intro hp
      exact hm (List.prefix_nil.mp hp)
    | cons x xs =>
      obtain ⟨b1, r, h1, h2, rfl⟩ := encChars_cons_inv f x xs b hub
      exact hf x b1 r h1 (by intro hx; apply hh; rw [hx]; rfl)
  cases c
  · exact strip_none _ (by decide) _
  · exact strip_none _ (by decide) _
  · exact strip_single _ [0xEF, 0xBB, 0xBF] (by decide) _ (hcases utf8Char _ (by decide) noBom_utf8 hu)
  · show Codec.strip .utf16 (bom16 ++ b) = b
    unfold Codec.strip
    rw [show cfg.boms.lookup Codec.utf16.name = some [[254, 255], [255, 254]] by decide]
    rfl
  · exact strip_single _ (unit16 false 0xFEFF) (by decide) _
      (hcases (utf16Char false) _ (by decide) (noBom_utf16 false) hu)
  · exact strip_single _ (unit16 true 0xFEFF) (by decide) _
      (hcases (utf16Char true) _ (by decide) (noBom_utf16 true) hu)
  · show Codec.strip .utf32 (bom32 ++ b) = b
    unfold Codec.strip
    rw [show cfg.boms.lookup Codec.utf32.name = some [[0, 0, 254, 255], [255, 254, 0, 0]] by decide]
    rfl
  · exact strip_single _ (unit32 false 0xFEFF) (by decide) _
      (hcases (utf32Char false) _ (by decide) (noBom_utf32 false) hu)
  · exact strip_single _ (unit32 true 0xFEFF) (by decide) _
      (hcases (utf32Char true) _ (by decide) (noBom_utf32 true) hu)
  · show Codec.strip .utf8sig (bom8 ++ b) = b
    unfold Codec.strip
    rw [show cfg.boms.lookup Codec.utf8sig.name = some [[239, 187, 191]] by decide]
    rfl
  · exact strip_none _ (by decide) _

/-- **every codec of the environment is faithful**, under every spelling -/
theorem faithful (e : Name) (c : Codec) (he : lookup e = some c) : CodecFaithful (env dj lt lb) cfg e where
  dec_enc := by
    intro t b h
    obtain ⟨a, ha, rfl⟩ := (env_encode_ok dj lt lb e c he t b).mp h
    obtain ⟨step, hs, hd⟩ := c.decode_bom
    rw [env_decode dj lt lb e c he, hd, decChars_encChars hs t a ha]
    rfl
  enc_append := by
    intro t u bt bu su ht hu hh hstrip
    obtain ⟨a, ha, rfl⟩ := (env_encode_ok dj lt lb e c he t bt).mp ht
    obtain ⟨b, hb, rfl⟩ := (env_encode_ok dj lt lb e c he u bu).mp hu
    rw [stripBom_env dj lt lb e c he, c.strip_enc u b hb hh] at hstrip
    cases hstrip
    exact (env_encode_ok dj lt lb e c he _ _).mpr ⟨a ++ su, encChars_append_some _ t u a su ha hb, by rw [List.append_assoc]⟩
  enc_prefix := by
    intro t u b h
    obtain ⟨x, hx, rfl⟩ := (env_encode_ok dj lt lb e c he _ b).mp h
    obtain ⟨a, _, ha, _, _⟩ := encChars_append_inv _ t u x hx
    exact ⟨c.bom ++ a, (env_encode_ok dj lt lb e c he t _).mpr ⟨a, ha, rfl⟩⟩

/-- the encoded newline of a codec, with and without BOM -/
theorem nl_data (c : Codec) (dos : Bool) :
    ∃ n, encChars c.encChar (nlText dos) = some n ∧ c.strip (c.bom ++ n) = n ∧
      n ≠ [] ∧ Unbordered n ∧ (32 : UInt8) ∉ n ∧ c.decode n = some (nlText dos) := by
  cases c <;> cases dos
  all_goals first
    | exact ⟨[10], by decide, by decide, by decide, by decide, by decide, by decide⟩
    | exact ⟨[13, 10], by decide, by decide, by decide, by decide, by decide, by decide⟩
    | exact ⟨[10, 0], by decide, by decide, by decide, by decide, by decide, by decide⟩
    | exact ⟨[13, 0, 10, 0], by decide, by decide, by decide, by decide, by decide, by decide⟩
    | exact ⟨[0, 10], by decide, by decide, by decide, by decide, by decide, by decide⟩
    | exact ⟨[0, 13, 0, 10], by decide, by decide, by decide, by decide, by decide, by decide⟩
    | exact ⟨[10, 0, 0, 0], by decide, by decide, by decide, by decide, by decide, by decide⟩
    | exact ⟨[13, 0, 0, 0, 10, 0, 0, 0], by decide, by decide, by decide, by decide, by decide, by decide⟩
    | exact ⟨[0, 0, 0, 10], by decide, by decide, by decide, by decide, by decide, by decide⟩
    | exact ⟨[0, 0, 0, 13, 0, 0, 0, 10], by decide, by decide, by decide, by decide, by decide, by decide⟩

/-- **every codec of the environment has proper newlines** -/
theorem newlines (e : Name) (c : Codec) (he : lookup e = some c) : CodecNewlines (env dj lt lb) cfg e where
  nl_ok := by
    intro dos
    obtain ⟨n, h1, h2, h3, h4, h5, h6⟩ := nl_data c dos
    refine ⟨c.bom ++ n, n, (env_encode_ok dj lt lb e c he _ _).mpr ⟨n, h1, rfl⟩, ?_, h3, h4, h5, ?_⟩
    · rw [stripBom_env dj lt lb e c he, h2]
    · rw [env_decode dj lt lb e c he, h6]; rfl
  nl_suffix := by
    intro t dos bt raw nl ht hraw hstrip hs
    obtain ⟨a, ha, rfl⟩ := (env_encode_ok dj lt lb e c he t bt).mp ht
    obtain ⟨n, hn, rfl⟩ := (env_encode_ok dj lt lb e c he _ raw).mp hraw
    rw [stripBom_env dj lt lb e c he, c.strip_enc _ n hn (nlText_head dos)] at hstrip
    cases hstrip
    exact nl_suffix_chars c.encChar c.nlOk c.bom (fun k hk bk hbk => c.nl_not_bom k hk bk hbk) t dos a nl ha hn hs

/-! ## the concrete round trip -/

theorem lookup_mem {α β} [BEq α] [LawfulBEq α] (a : α) (l : List (α × β)) (b : β) (h : l.lookup a = some b) :
    (a, b) ∈ l := by
  induction l with
  | nil => cases h
  | cons p ps ih =>
    obtain ⟨k, v⟩ := p
    rw [List.lookup_cons] at h
    cases hk : a == k with
    | true =>
      rw [hk] at h
      have := eq_of_beq hk
      cases h
      subst this
      exact List.mem_cons_self
    | false =>
      rw [hk] at h
      exact List.mem_cons_of_mem _ (ih h)

/-- the spellings are ASCII option values that `int()` rejects -/
theorem lookup_nameOk (e : Name) (c : Codec) (he : lookup e = some c) : RunRT.NameOk e := by
  have hm := lookup_mem e aliases c he
  have hall : ∀ p ∈ aliases, RunRT.NameOk p.1 := by
    intro p hp
    simp only [aliases, List.mem_cons, List.not_mem_nil, or_false] at hp
    rcases hp with rfl | rfl | rfl | rfl | rfl | rfl | rfl | rfl | rfl | rfl | rfl | rfl | rfl | rfl | rfl | rfl |
      rfl | rfl | rfl | rfl | rfl | rfl | rfl | rfl | rfl <;>
      exact ⟨by decide, by decide, by decide⟩
  exact hall _ hm

/-- the BOM-free encoded newline of a codec -/
def Codec.nl (c : Codec) (dos : Bool) : Bytes := c.strip ((c.encode (nlText dos)).getD [])

theorem nlBytes_eq (e : Name) (c : Codec) (he : lookup e = some c) (dos : Bool) :
    nlBytes (env dj lt lb) cfg e dos = c.nl dos := by
  obtain ⟨hraw, hnl, -⟩ := (newlines dj lt lb e c he).facts dos
  rw [stripBom_env dj lt lb e c he] at hnl
  rw [env_encode dj lt lb e c he, ofOpt_ok] at hraw
  unfold Codec.nl
  rw [hraw]
  exact (EnvR.ok.inj hnl).symm

/-- **The concrete round trip.**  For every codec of `Codecs.env` (under every spelling `e`), every
writer state whose effective encoding is `e`, every non-empty encodable text, every
`line_endings` argument and every non-negative indentation: `_prepare_content` succeeds, and
`_read_content` on the prepared bytes (followed by anything) returns the text written, its
final line ending appended when missing. -/
theorem text_roundtrip_concrete (e : Name) (c : Codec) (he : lookup e = some c)
    (wst : Writer.St) (enc : Option Name)
    (heff : (if Writer.truthy enc then enc else wst.curEncoding) = some e)
    (t : Text) (ht : t ≠ []) (d : Bytes) (hd : c.encode t = some d)
    (le : Option Text) (hle : ∀ l, le = some l → ∃ dos, l = leKind dos)
    (indent : Option Int) (hi : ∀ i, indent = some i → 0 ≤ i) :
    ∃ data, Writer.prepareContent (env dj lt lb) cfg wst (.str t) indent le enc true =
        .ok (data, leKind (textDos le t)) ∧
      (data.length ≤ Reader.maxRead → ∀ rest ln f,
        Reader.readContent (env dj lt lb) cfg ⟨data ++ rest, ln, f⟩ data.length (some (.str e.toAscii))
            (indent.map OptVal.int) (some (.str (leKind (textDos le t)).toAscii)) false =
          .ok (.text (normText t (textDos le t)),
            ⟨rest, ln + (splitLines (normBytes d (c.nl (textDos le t))) (c.nl (textDos le t)) true).length, f⟩)) := by
  have F := faithful dj lt lb e c he
  have N := newlines dj lt lb e c he
  have hasc := (lookup_nameOk e c he).ascii
  obtain ⟨hraw, hnl, hne, -⟩ := N.facts (textDos le t)
  have hd' : (env dj lt lb).encode e t = .ok d := by rw [env_encode dj lt lb e c he, hd]; rfl
  obtain ⟨hplain, data, hdata⟩ := prepareContent_str_ok (env dj lt lb) cfg wst t ht le hle enc e heff d _ _ hd' hraw hnl
    hne indent
  refine ⟨data, hdata, ?_⟩
  intro hlen rest ln f
  have heff' : (if Writer.truthy enc then enc else wst.curEncoding) = some (Text.ofAscii e.toAscii) := by
    rw [← hasc]; exact heff
  have F' : CodecFaithful (env dj lt lb) cfg (Text.ofAscii e.toAscii) := by rw [← hasc]; exact F
  have N' : CodecNewlines (env dj lt lb) cfg (Text.ofAscii e.toAscii) := by rw [← hasc]; exact N
  have key := content_text_roundtrip (env dj lt lb) cfg wst t indent le enc data _ hdata hi hlen
    (TextLaws.ofFaithful (env dj lt lb) cfg wst t le enc _ e.toAscii heff' F' N' _ hplain) rest ln f
  have hl : (TextLaws.ofFaithful (env dj lt lb) cfg wst t le enc _ e.toAscii heff' F' N' _ hplain).lines =
      (splitLines (normBytes d (c.nl (textDos le t))) (c.nl (textDos le t)) true).length := by
    show (splitLines (normBytes d (nlBytes (env dj lt lb) cfg e (textDos le t)))
      (nlBytes (env dj lt lb) cfg (Text.ofAscii e.toAscii) (textDos le t)) true).length = _
    rw [← hasc, nlBytes_eq dj lt lb e c he]
  rw [hl] at key
  exact key

end Env

end Diffx.Codecs
