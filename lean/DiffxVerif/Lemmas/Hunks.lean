import DiffxVerif.Spec.HunkSpec
/-!
# Lemmas about the hunk parser model (`Model/Hunks.lean`) for property C14

Outline:
* `run` folds `step` over a list of lines; `loop_of_run` / `loop_premature` transfer facts about
  `run` to `loop`.
* `matchHeader_header`, `convHdr_spec`, `step_header`: the header line of a well-formed `Spec`.
* `stAfter hs d i s bl` is the parser state after the header of `s` and the body lines `bl`;
  `step_body` advances it by one body line, `run_hunk` by a prefix of the body.
* `wf_open` / `wf_closed` / `finish_curAfter`: a well-formed hunk closes exactly at its last body
  line, with the geometry `Spec.expected`.
* `parse_geometry`, `parse_strict`, `parse_damage`, `parse_short`, `parse_total`,
  `parse_totals_consistent`: the statements used by `Properties/C14.lean`.
-/
namespace Diffx.HunkSpec

instance (d : Bytes) : Decidable (digitsOk d) := by unfold digitsOk; infer_instance

end Diffx.HunkSpec

namespace Diffx.Hunks
open Diffx Diffx.HunkSpec

/-- fold `step` over lines; `none` when a step raises or stops -/
def run (ig : Bool) : St → List Bytes → Option St
  | st, [] => some st
  | st, l :: r => match step ig st l with
    | .cont st' => run ig st' r
    | _ => none

theorem run_append (ig : Bool) (st : St) (a b : List Bytes) :
    run ig st (a ++ b) = (run ig st a).bind (fun st' => run ig st' b) := by
  induction a generalizing st with
  | nil => simp [run]
  | cons l r ih =>
    simp only [List.cons_append, run]
    cases step ig st l <;> simp [ih]

theorem loop_of_run (ig : Bool) (st st' : St) (n : Nat) (pre suf : List Bytes)
    (h : run ig st pre = some st') (hc : suf = [] → st'.cur = none) :
    loop ig st n (pre ++ suf) = loop ig st' (n + pre.length) suf := by
  induction pre generalizing st n with
  | nil => simp [run] at h; simp [h]
  | cons l r ih =>
    simp only [run] at h
    cases hs : step ig st l with
    | cont st1 =>
      rw [hs] at h
      have := ih st1 (n + 1) h
      simp only [List.cons_append, loop, hs]
      rw [show n + (l :: r).length = n + 1 + r.length by simp; omega, ← this]
      split
      · rename_i h1 h2
        simp at h1
        obtain ⟨rfl, rfl⟩ := h1
        simp [run] at h
        subst h
        rw [hc rfl] at h2; cases h2
      · rfl
    | stop => rw [hs] at h; cases h
    | raise => rw [hs] at h; cases h

theorem takeDigits_nondigit (r : Bytes) (hr : ∀ b, r.head? = some b → isDigit b = false) :
    takeDigits r = ([], r) := by
  cases r with
  | nil => rfl
  | cons b r => simp [takeDigits, hr b rfl]

theorem takeDigits_append (d r : Bytes) (hd : ∀ b ∈ d, isDigit b = true)
    (hr : ∀ b, r.head? = some b → isDigit b = false) :
    takeDigits (d ++ r) = (d, r) := by
  induction d with
  | nil => exact takeDigits_nondigit r hr
  | cons b d ih =>
    have hb := hd b (by simp)
    have := ih (fun x hx => hd x (by simp [hx]))
    simp [takeDigits, hb, this]

theorem range_rangeBytes (os : Bytes) (on : Option Bytes) (rest : Bytes)
    (hos : digitsOk os) (hon : ∀ d, on = some d → digitsOk d) :
    range (rangeBytes os on ++ 32 :: rest) = some (os, on, 32 :: rest) := by
  obtain ⟨hne, hdig, _⟩ := hos
  cases on with
  | none =>
    have h := takeDigits_append os (32 :: rest) hdig (by simp [isDigit])
    cases os with
    | nil => exact absurd rfl hne
    | cons b os =>
      simp only [rangeBytes, List.append_nil, range, h]
      rfl
  | some d =>
    obtain ⟨hne2, hdig2, _⟩ := hon d rfl
    have h := takeDigits_append os (44 :: (d ++ 32 :: rest)) hdig (by simp [isDigit])
    have h2 := takeDigits_append d (32 :: rest) hdig2 (by simp [isDigit])
    cases os with
    | nil => exact absurd rfl hne
    | cons b os =>
      cases d with
      | nil => exact absurd rfl hne2
      | cons c d =>
        simp only [rangeBytes, List.append_assoc, List.cons_append, range] at h h2 ⊢
        simp only [h, h2]

theorem dropPrefix?_append (p s : Bytes) : dropPrefix? p (p ++ s) = some s := by
  simp [dropPrefix?]

theorem takeWhile_ne_lf (c : Bytes) (h : (10 : UInt8) ∉ c) : c.takeWhile (· ≠ 10) = c := by
  induction c with
  | nil => rfl
  | cons b c ih =>
    have hb : b ≠ 10 := by rintro rfl; simp at h
    have hc : (10 : UInt8) ∉ c := by intro hx; exact h (by simp [hx])
    simpa [List.takeWhile, hb] using ih hc

def matchTail (os : Bytes) (on : Option Bytes) (ms : Bytes) (mn : Option Bytes) (t : Bytes) : Option RawHdr :=
  match t with
  | [] => some ⟨os, on, ms, mn, none⟩
  | 10 :: _ => some ⟨os, on, ms, mn, none⟩
  | 32 :: r => some ⟨os, on, ms, mn, some (r.takeWhile (· ≠ 10))⟩
  | _ => none

theorem matchHeader_header (s : Spec) (hw : s.WF) :
    matchHeader s.header = some ⟨s.os, s.on, s.ms, s.mn, s.context⟩ := by
  obtain ⟨hos, hms, hon, hmn, _, _, hctx, _⟩ := hw
  obtain ⟨os, on, ms, mn, ctx, body⟩ := s
  simp only at hos hms hon hmn hctx
  have e : ∀ t : Bytes, [64, 64, 32, 45] ++ rangeBytes os on ++ [32, 43] ++ rangeBytes ms mn ++ [32, 64, 64] ++ t
     = [64, 64, 32, 45] ++ (rangeBytes os on ++ 32 :: ([43] ++ (rangeBytes ms mn ++
      32 :: ([64, 64] ++ t)))) := by
    intro t; simp [List.append_assoc]
  have e2 : ∀ t : Bytes, (32 :: ([43] ++ (rangeBytes ms mn ++ 32 :: ([64, 64] ++ t)))) =
      [32, 43] ++ (rangeBytes ms mn ++ 32 :: ([64, 64] ++ t)) := fun _ => rfl
  have e3 : ∀ t : Bytes, (32 :: ([64, 64] ++ t)) = [32, 64, 64] ++ t := fun _ => rfl
  have main : ∀ t : Bytes, (t = [] ∨ ∃ c, t = 32 :: c) → matchHeader ([64, 64, 32, 45] ++ rangeBytes os on ++ [32, 43] ++ rangeBytes ms mn ++ [32, 64, 64] ++ t) =
      matchTail os on ms mn t := by
    intro t ht
    rw [e]
    unfold matchHeader
    rw [dropPrefix?_append]
    simp only [Option.bind_eq_bind, Option.bind_some, range_rangeBytes _ _ _ hos hon]
    rw [e2, dropPrefix?_append]
    simp only [Option.bind_some, range_rangeBytes _ _ _ hms hmn]
    rw [e3, dropPrefix?_append]
    simp only [Option.bind_some]
    rcases ht with rfl | ⟨c, rfl⟩ <;> rfl
  cases ctx with
  | none => exact main [] (Or.inl rfl)
  | some c =>
    have := main (32 :: c) (Or.inr ⟨c, rfl⟩)
    simp only [matchTail, takeWhile_ne_lf c (hctx c rfl)] at this
    exact this

theorem origLines_append (a b : List BLine) : origLines (a ++ b) = origLines a ++ origLines b := by
  induction a with
  | nil => rfl
  | cons x a ih => cases x <;> simp [origLines, ih]

theorem modLines_append (a b : List BLine) : modLines (a ++ b) = modLines a ++ modLines b := by
  induction a with
  | nil => rfl
  | cons x a ih => cases x <;> simp [modLines, ih]

theorem firstTrue_snoc (l : List Bool) (b : Bool) :
    firstTrue (l ++ [b]) = match firstTrue l with
      | some i => some i
      | none => if b then some l.length else none := by
  induction l with
  | nil => cases b <;> rfl
  | cons a l ih =>
    cases a
    · simp only [List.cons_append, firstTrue, ih]
      cases firstTrue l <;> cases b <;> simp
    · rfl

theorem lastTrue_snoc (l : List Bool) (b : Bool) :
    lastTrue (l ++ [b]) = if b then some l.length else lastTrue l := by
  induction l with
  | nil => cases b <;> rfl
  | cons a l ih =>
    simp only [List.cons_append, lastTrue, ih]
    cases b <;> simp

def mkSide (start : Int) (num : Nat) (l : List Bool) : Side :=
  { first := (firstTrue l).map (fun (i : Nat) => start + (i : Int))
    last := (lastTrue l).map (fun (i : Nat) => start + (i : Int))
    numLines := num
    changed := (l.filter id).length
    start := start }

def curAfter (s : Spec) (bl : List BLine) : Cur :=
  ⟨s.context, mkSide ((digitsVal s.os : Int) - 1) (countVal s.on) (origLines bl),
    mkSide ((digitsVal s.ms : Int) - 1) (countVal s.mn) (modLines bl),
    (origLines bl).length, (modLines bl).length⟩

def stAfter (hs : List Hunk) (d i : Nat) (s : Spec) (bl : List BLine) : St :=
  ⟨hs, some (curAfter s bl), d + ((origLines bl).filter id).length,
    i + ((modLines bl).filter id).length⟩

theorem mkSide_bump_true (start : Int) (num : Nat) (l : List Bool) :
    (mkSide start num l).bump l.length = mkSide start num (l ++ [true]) := by
  simp only [mkSide, Side.bump, firstTrue_snoc, lastTrue_snoc, List.filter_append]
  cases firstTrue l <;> simp

theorem mkSide_false (start : Int) (num : Nat) (l : List Bool) :
    mkSide start num (l ++ [false]) = mkSide start num l := by
  simp only [mkSide, firstTrue_snoc, lastTrue_snoc, List.filter_append]
  cases firstTrue l <;> simp

theorem header_startsWith (s : Spec) : startsWith s.header [64, 64] = true := by
  simp [Spec.header, startsWith]

theorem convHdr_spec (s : Spec) (hw : s.WF) :
    convHdr ⟨s.os, s.on, s.ms, s.mn, s.context⟩ =
      some (mkSide ((digitsVal s.os : Int) - 1) (countVal s.on) [],
            mkSide ((digitsVal s.ms : Int) - 1) (countVal s.mn) [], s.context) := by
  obtain ⟨hos, hms, hon, hmn, _⟩ := hw
  obtain ⟨os, on, ms, mn, ctx, body⟩ := s
  have h1 := hos.2.2
  have h2 := hms.2.2
  simp only at h1 h2 hon hmn
  cases on with
  | none =>
    cases mn with
    | none => simp [convHdr, h1, h2, mkSide, firstTrue, lastTrue, countVal]
    | some d2 =>
      have h4 := (hmn d2 rfl).2.2
      simp [convHdr, h1, h2, h4, mkSide, firstTrue, lastTrue, countVal]
  | some d1 =>
    have h3 := (hon d1 rfl).2.2
    cases mn with
    | none => simp [convHdr, h1, h2, h3, mkSide, firstTrue, lastTrue, countVal]
    | some d2 =>
      have h4 := (hmn d2 rfl).2.2
      simp [convHdr, h1, h2, h3, h4, mkSide, firstTrue, lastTrue, countVal]

theorem step_header (ig : Bool) (hs : List Hunk) (d i : Nat) (s : Spec) (hw : s.WF) :
    step ig ⟨hs, none, d, i⟩ s.header = .cont (complete (stAfter hs d i s [])) := by
  simp only [step, header_startsWith, matchHeader_header s hw, convHdr_spec s hw, if_true]
  rfl


/-- a line whose stripped form is the marker starts with whitespace or a backslash -/
theorem marker_head (raw : Bytes) (h : pyStrip raw = marker) :
    ∃ b r, raw = b :: r ∧ (isWs b = true ∨ b = 92) := by
  cases raw with
  | nil => exact absurd h (by decide)
  | cons b r =>
    refine ⟨b, r, rfl, ?_⟩
    cases hb : isWs b with
    | true => exact Or.inl rfl
    | false =>
      right
      have h1 : (b :: r).dropWhile isWs = b :: r := by simp [List.dropWhile, hb]
      unfold pyStrip at h
      rw [h1] at h
      have h2 : ((b :: r).reverse.dropWhile isWs) = marker.reverse := by
        rw [← h, List.reverse_reverse]
      have h3 := List.takeWhile_append_dropWhile (p := isWs) (l := (b :: r).reverse)
      rw [h2] at h3
      have h4 := congrArg List.reverse h3
      simp only [List.reverse_append, List.reverse_reverse] at h4
      have h5 := congrArg List.head? h4
      simpa [marker] using h5.symm

theorem marker_not_at (raw : Bytes) (h : pyStrip raw = marker) : startsWith raw [64, 64] = false := by
  obtain ⟨b, r, rfl, hb⟩ := marker_head raw h
  have : b ≠ 64 := by
    rcases hb with hb | rfl
    · rintro rfl; exact absurd hb (by decide)
    · decide
  simp [startsWith, List.isPrefixOf, Ne.symm this]

theorem step_body (ig : Bool) (hs : List Hunk) (d i : Nat) (s : Spec) (bl : List BLine) (x : BLine)
    (hx : ∀ raw, x = .marker raw → markerOk raw) :
    step ig (stAfter hs d i s bl) x.render = .cont (complete (stAfter hs d i s (bl ++ [x]))) := by
  cases x with
  | ctx p =>
    simp [step, stAfter, curAfter, BLine.render, startsWith, origLines_append, modLines_append,
      origLines, modLines, mkSide_false]
  | del p =>
    simp [step, stAfter, curAfter, BLine.render, startsWith, origLines_append, modLines_append,
      origLines, modLines, mkSide_bump_true, Nat.add_assoc]
  | ins p =>
    simp [step, stAfter, curAfter, BLine.render, startsWith, origLines_append, modLines_append,
      origLines, modLines, mkSide_bump_true, Nat.add_assoc]
  | marker raw =>
    obtain ⟨h1, h2⟩ := hx raw rfl
    obtain ⟨b, r, rfl, hb⟩ := marker_head raw h1
    obtain ⟨n1, n2, n3⟩ := h2 b rfl
    have n0 : (64 : UInt8) ≠ b := by
      rcases hb with hb | rfl
      · rintro rfl; exact absurd hb (by decide)
      · decide
    simp [step, BLine.render, h1, startsWith, n0, Ne.symm n1, Ne.symm n2, Ne.symm n3, stAfter, curAfter,
      origLines_append, modLines_append, origLines, modLines]


/-- the hunk is still open after the body lines `bl` -/
def isOpen (s : Spec) (bl : List BLine) : Prop :=
  (origLines bl).length < countVal s.on ∨ (modLines bl).length < countVal s.mn

theorem complete_open (hs : List Hunk) (d i : Nat) (s : Spec) (bl : List BLine) (h : isOpen s bl) :
    complete (stAfter hs d i s bl) = stAfter hs d i s bl := by
  unfold isOpen at h
  simp only [complete, stAfter, curAfter, mkSide]
  rw [if_neg]
  simp only [ge_iff_le, Bool.and_eq_true, decide_eq_true_eq]
  omega

theorem complete_closed (hs : List Hunk) (d i : Nat) (s : Spec) (bl : List BLine) (h : ¬ isOpen s bl) :
    complete (stAfter hs d i s bl) =
      ⟨hs ++ [finish (curAfter s bl)], none, d + ((origLines bl).filter id).length,
        i + ((modLines bl).filter id).length⟩ := by
  unfold isOpen at h
  simp only [complete, stAfter]
  rw [if_pos]
  simp only [curAfter, mkSide, ge_iff_le, Bool.and_eq_true, decide_eq_true_eq]
  omega

theorem run_hunk (ig : Bool) (hs : List Hunk) (d i : Nat) (s : Spec) (hw : s.WF) (k : Nat)
    (hk : k ≤ s.body.length) (hopen : ∀ j < k, isOpen s (s.body.take j)) :
    run ig ⟨hs, none, d, i⟩ (s.header :: (s.body.take k).map BLine.render) =
      some (complete (stAfter hs d i s (s.body.take k))) := by
  induction k with
  | zero => simp [run, step_header ig hs d i s hw]
  | succ k ih =>
    have hk' : k < s.body.length := by omega
    have e : s.body.take (k + 1) = s.body.take k ++ [s.body[k]] := by
      rw [List.take_add_one]; simp [hk']
    rw [e, List.map_append, ← List.cons_append, run_append,
      ih (by omega) (fun j hj => hopen j (by omega)), complete_open _ _ _ _ _ (hopen k (by omega))]
    have hm : ∀ raw, s.body[k] = .marker raw → markerOk raw := by
      intro raw hr
      exact hw.2.2.2.2.2.2.2.1 raw (hr ▸ List.getElem_mem hk')
    simp [run, step_body ig hs d i s _ _ hm]


theorem side_pos_of_mem (l : List BLine) (x : BLine) (hx : x ∈ l) (hm : x.isMarker = false) :
    0 < (origLines l).length ∨ 0 < (modLines l).length := by
  induction l with
  | nil => cases hx
  | cons y l ih =>
    cases y with
    | ctx p => simp [origLines]
    | del p => simp [origLines]
    | ins p => simp [modLines]
    | marker raw =>
      have : x ∈ l := by
        rcases List.mem_cons.1 hx with rfl | h
        · cases hm
        · exact h
      simpa [origLines, modLines] using ih this

theorem wf_open (s : Spec) (hw : s.WF) (j : Nat) (hj : j < s.body.length) : isOpen s (s.body.take j) := by
  obtain ⟨_, _, _, _, ho, hm, _, _, hl⟩ := hw
  have hne : s.body.drop j ≠ [] := by simp; omega
  have hlast : (s.body.drop j).getLast hne ∈ s.body.drop j := List.getLast_mem hne
  have hlm : ((s.body.drop j).getLast hne).isMarker = false := by
    apply hl
    rw [List.getLast_drop]
    exact List.getLast?_eq_some_getLast _
  have := side_pos_of_mem _ _ hlast hlm
  have e := List.take_append_drop j s.body
  have eo := congrArg (fun l => (origLines l).length) e
  have em := congrArg (fun l => (modLines l).length) e
  simp only [origLines_append, modLines_append, List.length_append] at eo em
  unfold isOpen
  omega

theorem wf_closed (s : Spec) (hw : s.WF) : ¬ isOpen s s.body := by
  obtain ⟨_, _, _, _, ho, hm, _⟩ := hw
  unfold isOpen
  omega

theorem listMin_pair (a b : Int) : listMin [a, b] = min a b := rfl

theorem finish_curAfter (s : Spec) (hw : s.WF) : finish (curAfter s s.body) = s.expected := by
  obtain ⟨_, _, _, _, ho, hm, _⟩ := hw
  simp only [finish, curAfter, mkSide, Spec.expected, sideOf, ho, hm, preOf, postOf]
  have e : ∀ a v : Int, a + v - a = v := by intros; omega
  cases h1 : firstTrue (origLines s.body) <;> cases h2 : firstTrue (modLines s.body) <;>
  cases h3 : lastTrue (origLines s.body) <;> cases h4 : lastTrue (modLines s.body) <;>
  simp [listMin, minOpt, e]


theorem run_render (ig : Bool) (hs : List Hunk) (d i : Nat) (s : Spec) (hw : s.WF) :
    run ig ⟨hs, none, d, i⟩ s.render = some ⟨hs ++ [s.expected], none, d + s.deletes, i + s.inserts⟩ := by
  have h := run_hunk ig hs d i s hw s.body.length (Nat.le_refl _)
    (fun j hj => wf_open s hw j hj)
  rw [List.take_length, complete_closed _ _ _ _ _ (wf_closed s hw), finish_curAfter s hw] at h
  exact h

theorem complete_none (st : St) (h : st.cur = none) : complete st = st := by
  simp [complete, h]

theorem step_garbage (st : St) (g : Bytes) (hc : st.cur = none) (hg : NonHunk g) :
    step true st g = .cont st := by
  unfold NonHunk at hg
  unfold step
  cases h1 : startsWith g [64, 64] with
  | true =>
    cases h2 : matchHeader g with
    | none => simp [hc, complete_none st hc]
    | some r => simp [h1, h2] at hg
  | false => simp [hc, complete_none st hc]

theorem step_stop (st : St) (g : Bytes) (hc : st.cur = none) (hg : NonHunk g) :
    step false st g = .stop := by
  unfold NonHunk at hg
  unfold step
  cases h1 : startsWith g [64, 64] with
  | true =>
    cases h2 : matchHeader g with
    | none => simp [hc]
    | some r => simp [h1, h2] at hg
  | false => simp [hc]

theorem run_garbage (ig : Bool) (st : St) (gs : List Bytes) (hc : st.cur = none)
    (hig : ig = true ∨ gs = []) (hg : ∀ g ∈ gs, NonHunk g) : run ig st gs = some st := by
  rcases hig with rfl | rfl
  · induction gs with
    | nil => rfl
    | cons g gs ih =>
      simp only [run, step_garbage st g hc (hg g (by simp))]
      exact ih (fun x hx => hg x (by simp [hx]))
  · rfl

theorem run_segs (ig : Bool) (segs : List (List Bytes × Spec)) (hs : List Hunk) (d i : Nat)
    (hw : ∀ sg ∈ segs, sg.2.WF) (hig : ig = true ∨ ∀ sg ∈ segs, sg.1 = [])
    (hg : ∀ sg ∈ segs, ∀ g ∈ sg.1, NonHunk g) :
    run ig ⟨hs, none, d, i⟩ (segs.flatMap (fun sg => sg.1 ++ sg.2.render)) =
      some ⟨hs ++ segs.map (·.2.expected), none, d + (segs.map (·.2.deletes)).sum,
        i + (segs.map (·.2.inserts)).sum⟩ := by
  induction segs generalizing hs d i with
  | nil => simp [run]
  | cons sg segs ih =>
    have h1 : run ig ⟨hs, none, d, i⟩ sg.1 = some ⟨hs, none, d, i⟩ :=
      run_garbage ig _ sg.1 rfl (hig.imp id (fun h => h sg (by simp))) (hg sg (by simp))
    have h2 := run_render ig hs d i sg.2 (hw sg (by simp))
    have h3 := ih (hs ++ [sg.2.expected]) (d + sg.2.deletes) (i + sg.2.inserts)
      (fun x hx => hw x (by simp [hx])) (hig.imp id (fun h x hx => h x (by simp [hx])))
      (fun x hx => hg x (by simp [hx]))
    simp only [List.flatMap_cons, run_append, h1, h2, h3, Option.bind_some, List.map_cons,
      List.sum_cons, List.append_assoc, List.cons_append, List.nil_append, Nat.add_assoc]


theorem parse_geometry (segs : List (List Bytes × Spec)) (tail : List Bytes)
    (hw : ∀ sg ∈ segs, sg.2.WF)
    (hg : ∀ sg ∈ segs, ∀ g ∈ sg.1, NonHunk g) (ht : ∀ g ∈ tail, NonHunk g) :
    parse (segs.flatMap (fun sg => sg.1 ++ sg.2.render) ++ tail) true =
      .ok { hunks := segs.map (·.2.expected)
            processed := (segs.flatMap (fun sg => sg.1 ++ sg.2.render) ++ tail).length
            deletes := (segs.map (·.2.deletes)).sum
            inserts := (segs.map (·.2.inserts)).sum } := by
  have h1 := run_segs true segs [] 0 0 hw (Or.inl rfl) hg
  have h2 := run_garbage true ⟨[] ++ segs.map (·.2.expected), none, 0 + (segs.map (·.2.deletes)).sum,
        0 + (segs.map (·.2.inserts)).sum⟩ tail rfl (Or.inl rfl) ht
  have h3 : run true St.init (segs.flatMap (fun sg => sg.1 ++ sg.2.render) ++ tail) =
      some ⟨[] ++ segs.map (·.2.expected), none, 0 + (segs.map (·.2.deletes)).sum,
        0 + (segs.map (·.2.inserts)).sum⟩ := by
    rw [run_append, St.init, h1, Option.bind_some, h2]
  have h4 := loop_of_run true _ _ 0 _ [] h3 (fun _ => rfl)
  rw [List.append_nil] at h4
  rw [parse, h4]
  simp [loop]

theorem flatMap_specs (specs : List Spec) :
    (specs.map (fun s => (([] : List Bytes), s))).flatMap (fun sg => sg.1 ++ sg.2.render) =
      specs.flatMap Spec.render := by
  induction specs with
  | nil => rfl
  | cons s specs ih => simp [List.flatMap_cons, ih]

theorem loop_strict_tail (st : St) (n : Nat) (tail : List Bytes) (hc : st.cur = none)
    (ht : ∀ g, tail.head? = some g → NonHunk g) :
    loop false st n tail = .ok ⟨st.hunks, n, st.deletes, st.inserts⟩ := by
  cases tail with
  | nil => simp [loop, hc]
  | cons g t => simp [loop, step_stop st g hc (ht g rfl)]

theorem parse_strict (specs : List Spec) (tail : List Bytes)
    (hw : ∀ s ∈ specs, s.WF) (ht : ∀ g, tail.head? = some g → NonHunk g) :
    parse (specs.flatMap Spec.render ++ tail) false =
      .ok { hunks := specs.map Spec.expected
            processed := (specs.flatMap Spec.render).length
            deletes := (specs.map Spec.deletes).sum
            inserts := (specs.map Spec.inserts).sum } := by
  have h1 := run_segs false (specs.map (fun s => (([] : List Bytes), s))) [] 0 0
    (by simpa using hw) (Or.inr (by simp)) (by simp)
  rw [flatMap_specs] at h1
  have h4 := loop_of_run false _ _ 0 _ tail h1 (fun _ => by rfl)
  rw [parse, St.init, h4]
  rw [loop_strict_tail _ _ _ rfl ht]
  simp [Function.comp_def]


theorem isOpen_take_mono (s : Spec) (l : List BLine) (j k : Nat) (hjk : j ≤ k)
    (h : isOpen s (l.take k)) : isOpen s (l.take j) := by
  have e : l.take k = l.take j ++ (l.take k).drop j := by
    have := List.take_append_drop j (l.take k)
    rw [List.take_take, Nat.min_eq_left hjk] at this
    exact this.symm
  unfold isOpen at h ⊢
  rw [e, origLines_append, modLines_append, List.length_append, List.length_append] at h
  omega

theorem run_before (ig : Bool) (segs : List (List Bytes × Spec)) (pre : List Bytes) (s : Spec) (k : Nat)
    (hw : ∀ sg ∈ segs, sg.2.WF) (hs : s.WF)
    (hg : ig = true ∨ (∀ sg ∈ segs, sg.1 = []) ∧ pre = [])
    (hgn : ∀ sg ∈ segs, ∀ g ∈ sg.1, NonHunk g) (hpn : ∀ g ∈ pre, NonHunk g)
    (hopen : OpenAfter s k) :
    run ig St.init (segs.flatMap (fun sg => sg.1 ++ sg.2.render) ++ pre ++
        (s.header :: (s.body.take k).map BLine.render)) =
      some (stAfter (segs.map (·.2.expected)) ((segs.map (·.2.deletes)).sum)
        ((segs.map (·.2.inserts)).sum) s (s.body.take k)) := by
  have ho : isOpen s (s.body.take k) := hopen.2
  have h1 := run_segs ig segs [] 0 0 hw (hg.imp id (·.1)) hgn
  have h2 := run_garbage ig ⟨[] ++ segs.map (·.2.expected), none, 0 + (segs.map (·.2.deletes)).sum,
        0 + (segs.map (·.2.inserts)).sum⟩ pre rfl (hg.imp id (·.2)) hpn
  have h3 := run_hunk ig ([] ++ segs.map (·.2.expected)) (0 + (segs.map (·.2.deletes)).sum)
        (0 + (segs.map (·.2.inserts)).sum) s hs k hopen.1
        (fun j hj => isOpen_take_mono s s.body j k (by omega) ho)
  rw [complete_open _ _ _ _ _ ho] at h3
  rw [run_append, run_append, St.init, h1, Option.bind_some, h2, Option.bind_some, h3]
  simp

theorem step_bad (ig : Bool) (hs : List Hunk) (d i : Nat) (s : Spec) (bl : List BLine) (bad : Bytes)
    (hbad : BadInHunk bad ∨ (startsWith bad [64, 64] = true ∧ (matchHeader bad).isSome = true)) :
    step ig (stAfter hs d i s bl) bad = .raise := by
  rcases hbad with (⟨h1, h2⟩ | ⟨h1, h2, h3, h4, h5⟩) | ⟨h1, h2⟩
  · simp [step, h1, h2, stAfter]
  · simp [step, h1, h2, h3, h4, h5, stAfter]
  · obtain ⟨r, hr⟩ := Option.isSome_iff_exists.1 h2
    simp [step, h1, hr, stAfter]

theorem parse_damage (ig : Bool) (segs : List (List Bytes × Spec)) (pre : List Bytes) (s : Spec) (k : Nat)
    (bad : Bytes) (rest : List Bytes)
    (hw : ∀ sg ∈ segs, sg.2.WF) (hs : s.WF)
    (hg : ig = true ∨ (∀ sg ∈ segs, sg.1 = []) ∧ pre = [])
    (hgn : ∀ sg ∈ segs, ∀ g ∈ sg.1, NonHunk g) (hpn : ∀ g ∈ pre, NonHunk g)
    (hopen : OpenAfter s k)
    (hbad : BadInHunk bad ∨ (startsWith bad [64, 64] = true ∧ (matchHeader bad).isSome = true)) :
    let before := segs.flatMap (fun sg => sg.1 ++ sg.2.render) ++ pre ++
      (s.header :: (s.body.take k).map BLine.render)
    parse (before ++ bad :: rest) ig = .malformed (before.length + 1) bad .malformed := by
  intro before
  have h := run_before ig segs pre s k hw hs hg hgn hpn hopen
  have h4 := loop_of_run ig _ _ 0 _ (bad :: rest) h (fun hh => by cases hh)
  rw [parse, h4]
  simp only [loop, step_bad ig _ _ _ s _ bad hbad]
  simp [before]

theorem loop_premature (ig : Bool) (st st' : St) (n : Nat) (l : List Bytes) (hne : l ≠ [])
    (h : run ig st l = some st') (hc : st'.cur.isSome = true) :
    loop ig st n l = .malformed (n + l.length) (l.getLast?.getD []) .prematureEnd := by
  induction l generalizing st n with
  | nil => exact absurd rfl hne
  | cons x l ih =>
    simp only [run] at h
    cases hstep : step ig st x with
    | cont st1 =>
      rw [hstep] at h
      cases l with
      | nil =>
        simp only [run] at h
        cases h
        obtain ⟨c, hc'⟩ := Option.isSome_iff_exists.1 hc
        simp [loop, hstep, hc']
      | cons y l =>
        have := ih st1 (n + 1) (by simp) h
        have e : loop ig st n (x :: y :: l) = loop ig st1 (n + 1) (y :: l) := by
          rw [loop, hstep]
        rw [e, this]
        simp
        omega
    | stop => rw [hstep] at h; cases h
    | raise => rw [hstep] at h; cases h

theorem parse_short (ig : Bool) (segs : List (List Bytes × Spec)) (pre : List Bytes) (s : Spec) (k : Nat)
    (hw : ∀ sg ∈ segs, sg.2.WF) (hs : s.WF)
    (hg : ig = true ∨ (∀ sg ∈ segs, sg.1 = []) ∧ pre = [])
    (hgn : ∀ sg ∈ segs, ∀ g ∈ sg.1, NonHunk g) (hpn : ∀ g ∈ pre, NonHunk g)
    (hopen : OpenAfter s k) :
    let all := segs.flatMap (fun sg => sg.1 ++ sg.2.render) ++ pre ++
      (s.header :: (s.body.take k).map BLine.render)
    parse all ig = .malformed all.length (all.getLast?.getD []) .prematureEnd := by
  intro all
  have h := run_before ig segs pre s k hw hs hg hgn hpn hopen
  have := loop_premature ig _ _ 0 all (by simp [all]) h rfl
  rw [parse, this]
  simp


theorem loop_total (ig : Bool) (st : St) (n : Nat) (rest : List Bytes) (h : rest = [] → st.cur = none) :
    (∃ r, loop ig st n rest = .ok r ∧ r.processed ≤ n + rest.length) ∨
    (∃ m l k, loop ig st n rest = .malformed m l k ∧ n + 1 ≤ m ∧ m ≤ n + rest.length ∧
      rest[m - n - 1]? = some l) := by
  induction rest generalizing st n with
  | nil => left; simp [loop, h rfl]
  | cons line rest ih =>
    cases hstep : step ig st line with
    | raise => right; exact ⟨n + 1, line, .malformed, by simp [loop, hstep], by omega, by simp, by simp⟩
    | stop => left; exact ⟨⟨st.hunks, n, st.deletes, st.inserts⟩, by simp only [loop, hstep], by simp⟩
    | cont st' =>
      have lift : ((∃ r, loop ig st' (n + 1) rest = .ok r ∧ r.processed ≤ n + 1 + rest.length) ∨
          (∃ m l k, loop ig st' (n + 1) rest = .malformed m l k ∧ n + 1 + 1 ≤ m ∧ m ≤ n + 1 + rest.length ∧
            rest[m - (n + 1) - 1]? = some l)) →
          loop ig st n (line :: rest) = loop ig st' (n + 1) rest →
          ((∃ r, loop ig st n (line :: rest) = .ok r ∧ r.processed ≤ n + (line :: rest).length) ∨
          (∃ m l k, loop ig st n (line :: rest) = .malformed m l k ∧ n + 1 ≤ m ∧
            m ≤ n + (line :: rest).length ∧ (line :: rest)[m - n - 1]? = some l)) := by
        intro hh e
        rw [e]
        rcases hh with ⟨r, h1, h2⟩ | ⟨m, l, k, h1, h2, h3, h4⟩
        · left; exact ⟨r, h1, by simp; omega⟩
        · right
          refine ⟨m, l, k, h1, by omega, by simp; omega, ?_⟩
          have : m - n - 1 = (m - (n + 1) - 1) + 1 := by omega
          rw [this, List.getElem?_cons_succ]
          exact h4
      cases rest with
      | nil =>
        cases hc : st'.cur with
        | some c =>
          right
          exact ⟨n + 1, line, .prematureEnd, by simp [loop, hstep, hc], by omega, by simp, by simp⟩
        | none =>
          apply lift (ih st' (n + 1) (fun _ => hc))
          simp [loop, hstep, hc]
      | cons y r =>
        apply lift (ih st' (n + 1) (fun hh => by cases hh))
        rw [loop, hstep]

theorem parse_total (lines : List Bytes) (ig : Bool) :
    (∃ r, parse lines ig = .ok r ∧ r.processed ≤ lines.length) ∨
    (∃ n l k, parse lines ig = .malformed n l k ∧ 1 ≤ n ∧ n ≤ lines.length ∧ lines[n - 1]? = some l) := by
  have := loop_total ig St.init 0 lines (fun _ => rfl)
  simpa [parse] using this

/-- the running totals agree with the per-hunk changed-line counts -/
def Inv (st : St) : Prop :=
  st.deletes = (st.hunks.map (·.orig.changed)).sum + (match st.cur with | some c => c.orig.changed | none => 0) ∧
  st.inserts = (st.hunks.map (·.modified.changed)).sum + (match st.cur with | some c => c.modified.changed | none => 0)

theorem Inv_complete (st : St) (h : Inv st) : Inv (complete st) := by
  unfold complete
  split
  · rename_i c hc
    split
    · unfold Inv at h ⊢
      simp only [hc] at h
      simp [finish, h.1, h.2]
    · exact h
  · exact h

theorem convHdr_changed (raw : RawHdr) (o m : Side) (ctx : Option Bytes)
    (h : convHdr raw = some (o, m, ctx)) : o.changed = 0 ∧ m.changed = 0 := by
  simp only [convHdr, Option.ite_none_right_eq_some, Option.some.injEq, Prod.mk.injEq] at h
  obtain ⟨_, rfl, rfl, _⟩ := h
  exact ⟨rfl, rfl⟩

theorem Inv_step (ig : Bool) (st st' : St) (line : Bytes) (h : Inv st)
    (hs : step ig st line = .cont st') : Inv st' := by
  cases hc : st.cur with
  | none =>
    have garb : (if ig = true then StepR.cont (complete st) else StepR.stop) = .cont st' → Inv st' := by
      intro hh
      split at hh
      · injection hh with hh; subst hh; exact Inv_complete _ h
      · cases hh
    cases h1 : startsWith line [64, 64] with
    | false =>
      simp only [step, h1, hc, Bool.false_eq_true, if_false] at hs
      exact garb hs
    | true =>
      cases h2 : matchHeader line with
      | none =>
        simp only [step, h1, h2, hc] at hs
        exact garb hs
      | some raw =>
        cases h3 : convHdr raw with
        | none => simp [step, h1, h2, hc, h3] at hs
        | some r =>
          obtain ⟨o, m, ctx⟩ := r
          obtain ⟨ho, hm⟩ := convHdr_changed _ _ _ _ h3
          simp only [step, h1, h2, hc, h3, if_true] at hs
          injection hs with hs
          subst hs
          apply Inv_complete
          unfold Inv at h ⊢
          simp only [hc] at h
          simp [h.1, h.2, ho, hm]
  | some c =>
    unfold Inv at h
    simp only [hc] at h
    cases h1 : startsWith line [64, 64] with
    | true =>
      cases h2 : matchHeader line <;> simp [step, h1, h2, hc] at hs
    | false =>
      simp only [step, h1, hc, Bool.false_eq_true, if_false] at hs
      split at hs
      · injection hs with hs; subst hs
        apply Inv_complete
        simp [Inv, Side.bump, h.1, h.2]; omega
      · split at hs
        · injection hs with hs; subst hs
          apply Inv_complete
          simp [Inv, Side.bump, h.1, h.2]; omega
        · split at hs
          · injection hs with hs; subst hs
            apply Inv_complete
            simp [Inv, h.1, h.2]
          · split at hs
            · cases hs
            · injection hs with hs; subst hs
              apply Inv_complete
              simp [Inv, hc, h.1, h.2]


theorem step_stop_cur (ig : Bool) (st : St) (line : Bytes) (hs : step ig st line = .stop) :
    st.cur = none := by
  cases hc : st.cur with
  | none => rfl
  | some c =>
    exfalso
    cases h1 : startsWith line [64, 64] with
    | true => cases h2 : matchHeader line <;> simp [step, h1, h2, hc] at hs
    | false =>
      simp only [step, h1, hc, Bool.false_eq_true, if_false] at hs
      repeat' split at hs
      all_goals cases hs

theorem loop_inv (ig : Bool) (st : St) (n : Nat) (lines : List Bytes) (r : Result) (h : Inv st)
    (hr : loop ig st n lines = .ok r) :
    r.deletes = (r.hunks.map (·.orig.changed)).sum ∧
      r.inserts = (r.hunks.map (·.modified.changed)).sum := by
  induction lines generalizing st n with
  | nil =>
    cases hc : st.cur with
    | some c => simp [loop, hc] at hr
    | none =>
      simp only [loop, hc] at hr
      injection hr with hr; subst hr
      simpa [Inv, hc] using h
  | cons line rest ih =>
    cases hstep : step ig st line with
    | raise => simp [loop, hstep] at hr
    | stop =>
      have hc := step_stop_cur ig st line hstep
      simp only [loop, hstep] at hr
      injection hr with hr; subst hr
      simpa [Inv, hc] using h
    | cont st' =>
      have h' := Inv_step ig st st' line h hstep
      rw [loop, hstep] at hr
      simp only at hr
      split at hr
      · cases hr
      · exact ih st' (n + 1) h' hr

theorem parse_totals_consistent (lines : List Bytes) (ig : Bool) (r : Result) (h : parse lines ig = .ok r) :
    r.deletes = (r.hunks.map (·.orig.changed)).sum ∧ r.inserts = (r.hunks.map (·.modified.changed)).sum :=
  loop_inv ig St.init 0 lines r (by simp [Inv, St.init]) h

end Diffx.Hunks
