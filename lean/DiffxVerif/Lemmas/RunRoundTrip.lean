import DiffxVerif.Lemmas.RunHeader
import DiffxVerif.Lemmas.SpecRead
/-!
# The whole-sequence round trip: writer program → bytes → reader records

Core Lean only.  Support for `Properties/C01Run.lean`.

* `NameOk`, `PreambleLaws`, `MetaLaws`, `DiffCallLaws`, `CallLaws`, `ProgramLawsFrom`,
  `ProgramLaws`: what is assumed about the arguments of a program and about the environment
  (argument well-formedness, codec laws in the style of `TextLaws` / `DiffLaws`, JSON laws);
  no reader loop function is mentioned;
* `expectedOne`, `expectedFrom`, `expectedRecords`: the records a reader must yield, by recursion
  over the calls, from the laws' data and the option lists the writer renders;
* `Related`: the simulation relation between the writer state and the reader loop state;
* `stack_step` (both encoding stacks move alike), `container_iter` / `content_iter` (one reader
  iteration on a rendered section), `readContent_guess` (metadata: newline guessed),
  `sim_container`, `sim_preamble`, `sim_meta`, `sim_diff`, and `sim_step` (the simulation step);
* `sim_run` (list induction), `init_ok_inv` / `main_iter` (constructor and main header),
  `run_roundtrip` (the theorem about `Writer.run` and `Reader.readAll`).
-/
namespace Diffx.RunRT
open Diffx Diffx.Writer Diffx.Header

/-! ## well-formed codec names -/

/-- a codec name that survives a header: ASCII, made of option-value characters,
and not something `int()` accepts -/
structure NameOk (n : Name) : Prop where
  ascii : n = Text.ofAscii n.toAscii
  val : Header.valOk n.toAscii = true
  str : Header.convert n.toAscii = .str n.toAscii

/-- an optional `encoding=` argument -/
def EncOk (e : Option Name) : Prop := ∀ n, e = some n → NameOk n

/-- the reader's view of an encoding the writer holds -/
def encOpt (e : Option Name) : Option OptVal := e.map (fun n => OptVal.str n.toAscii)

theorem NameOk.truthy {n : Name} (h : NameOk n) : truthy (some n) = true := by
  have := (valOk_facts h.val).1
  cases n with
  | nil => exact absurd rfl this
  | cons a r => rfl

theorem ofAscii_toAscii_of_ascii (t : Text) (h : isAsciiText t = true) : t = Text.ofAscii t.toAscii := by
  unfold Text.ofAscii Text.toAscii
  rw [List.map_map]
  conv => lhs; rw [← List.map_id t]
  apply List.map_congr_left
  intro c hc
  have hc' : c < 128 := by simpa using List.all_eq_true.mp h c hc
  simp only [id, Function.comp]
  show c = (UInt8.ofNat c).toNat
  rw [UInt8.toNat_ofNat']
  omega

theorem isAsciiText_ofAscii (b : Bytes) (hb : ∀ x ∈ b, x < 128) : isAsciiText (Text.ofAscii b) = true := by
  unfold isAsciiText Text.ofAscii
  rw [List.all_eq_true]
  intro c hc
  obtain ⟨x, hx, rfl⟩ := List.mem_map.mp hc
  have := hb x hx
  rw [UInt8.lt_iff_toNat_lt] at this
  simpa using this

/-- **`NameOk` is exactly "not refused by `_write_section_header`"** -/
theorem nameOk_iff_not_refused (n : Name) : NameOk n ↔ valueRefused (.str n) = false := by
  constructor
  · intro h
    have hv := (valOk_facts h.val).2
    have ha : isAsciiText n = true := by
      rw [h.ascii]
      apply isAsciiText_ofAscii
      intro x hx
      have := hv x hx
      revert this
      simp only [valChar, isAlpha, isDigit, Bool.or_eq_true, Bool.and_eq_true, decide_eq_true_eq,
        beq_iff_eq, UInt8.le_iff_toNat_le, UInt8.lt_iff_toNat_lt, ← UInt8.toNat_inj, UInt8.reduceToNat]
      intro h'
      omega
    unfold valueRefused
    simp [HVal.text, ha, h.val, h.str]
  · intro h
    obtain ⟨ha, hv, hc⟩ := valueRefused_str_false n h
    exact ⟨ofAscii_toAscii_of_ascii n ha, hv, hc⟩

/-! ## the laws of a program -/

/-- the option list `_new_content_section` hands to `_write_section_header` -/
def contentOpts (extra : List (Bytes × Option HVal)) (enc : Option Name) (indent : Option Int) (len : Nat)
    (writeLe : Bool) (le : Text) : List (Bytes × Option HVal) :=
  extra ++ [(b!"encoding", enc.map HVal.str), (b!"indent", indent.map HVal.int),
            (b!"length", some (HVal.int len))] ++
    (if writeLe then [(b!"line_endings", some (HVal.str le))] else [])

/-- the options a reader reports for a header rendered from `opts` -/
def recOpts (opts : List (Bytes × Option HVal)) : Opts := Spec.reported (C02.writtenPairs opts)

/-- `add_preamble(text, encoding, indent, line_endings, mimetype)` in writer state `st` -/
structure PreambleLaws (env : Env) (cfg : Config) (st : St) (t : Text) (enc : Option Name)
    (indent : Option Int) (le : Option Text) where
  encOk : EncOk enc
  indentOk : ∀ i, indent = some i → 0 ≤ i
  /-- the bytes and the `line_endings` value `_prepare_content` produces -/
  data : Bytes
  leOut : Text
  hprep : prepareContent env cfg st (.str t) indent le enc true = .ok (data, leOut)
  hlen : data.length ≤ Reader.maxRead
  text : TextLaws env cfg st t le enc leOut

/-- `add_meta(metadata, encoding)` in writer state `st` -/
structure MetaLaws (env : Env) (cfg : Config) (st : St) (j : Json) (enc : Option Name) where
  encOk : EncOk enc
  /-- `json.dumps` -/
  text : Text
  hdumps : env.dumps j = .ok text
  leOut : Text
  tl : TextLaws env cfg st text none enc leOut
  hlen : tl.plain.length ≤ Reader.maxRead
  /-- no `line_endings` option is written for metadata: the reader guesses the newline from
  the section's bytes, and finds the one the writer used -/
  hguess : ∀ ln, Reader.guessLineEndings env cfg ln tl.plain (some (Text.ofAscii tl.encName)) =
    .ok (tl.dos, tl.nl)
  /-- `json.loads` of the decoded text -/
  parsed : Json
  hloads : env.loadsText tl.decoded = .ok parsed
  hobj : parsed.isObj = true

/-- `add_diff(content, type, encoding, line_endings)` in writer state `st` -/
structure DiffCallLaws (env : Env) (cfg : Config) (st : St) (b : Bytes) (enc : Option Name)
    (le : Option Text) where
  encOk : EncOk enc
  data : Bytes
  leOut : Text
  hprep : prepareContent env cfg st (.bytes b) none le enc false = .ok (data, leOut)
  hlen : data.length ≤ Reader.maxRead
  dl : DiffLaws env cfg st b le enc leOut

/-- the laws for one call made in writer state `st` (nothing for calls with arguments of the
wrong type: the writer rejects those) -/
def CallLaws (env : Env) (cfg : Config) (st : St) (c : Call) : Type :=
  match c with
  | .newChange enc => PLift (EncOk enc)
  | .newFile enc => PLift (EncOk enc)
  | .preamble text enc indent le _ =>
    (match text with
     | .str t => PreambleLaws env cfg st t enc indent le
     | _ => PUnit)
  | .metadata m enc _ =>
    (match m with
     | .dict j => MetaLaws env cfg st j enc
     | _ => PUnit)
  | .diff content _ enc le =>
    (match content with
     | .bytes b => DiffCallLaws env cfg st b enc le
     | _ => PUnit)

/-- the laws for the calls `cs` made from writer state `st` on -/
def ProgramLawsFrom (env : Env) (cfg : Config) : St → List Call → Type
  | _, [] => PUnit
  | st, c :: cs => CallLaws env cfg st c × ProgramLawsFrom env cfg (step env cfg st c).1 cs

/-- **the laws of a program** `DiffXWriter(fp, encoding=enc)` followed by `calls` -/
structure ProgramLaws (env : Env) (cfg : Config) (enc : Name) (calls : List Call) where
  encOk : NameOk enc
  calls : ProgramLawsFrom env cfg (init (some enc) (Text.ofAscii b!"1.0")).1 calls

/-! ## the expected records -/

/-- the record expected for one call made in writer state `st` when the reader's logical line
counter is `line`, and the number of logical lines of the section -/
def expectedOne (env : Env) (cfg : Config) (st : St) (line : Nat) (c : Call) (L : CallLaws env cfg st c) :
    Reader.Record × Nat :=
  match c, L with
  | .newChange enc, _ =>
    (⟨⟨1, .change⟩, line, recOpts [(b!"encoding", enc.map HVal.str)], .container⟩, 1)
  | .newFile enc, _ =>
    (⟨⟨2, .file⟩, line, recOpts [(b!"encoding", enc.map HVal.str)], .container⟩, 1)
  | .preamble (.str _) enc indent _ mime, L =>
    (⟨⟨st.level, .preamble⟩, line,
      recOpts (contentOpts [(b!"mimetype", mime.map HVal.str)] enc indent L.data.length true L.leOut),
      .text L.text.decoded⟩, 1 + L.text.lines)
  | .metadata (.dict _) enc fmt, L =>
    (⟨⟨st.level, .metadata⟩, line,
      recOpts (contentOpts [(b!"format", some (HVal.str fmt))] enc none L.tl.plain.length false L.leOut),
      .metadata L.parsed⟩, 1 + L.tl.lines)
  | .diff (.bytes _) dtype enc _, L =>
    (⟨⟨st.level, .diff⟩, line,
      recOpts (contentOpts [(b!"type", dtype.map HVal.str)] enc none L.data.length true L.leOut),
      .diff L.data⟩, 1 + (splitLines L.data L.dl.nl true).length)
  | _, _ => (default, 0)

def expectedFrom (env : Env) (cfg : Config) : (st : St) → Nat → (cs : List Call) →
    ProgramLawsFrom env cfg st cs → List Reader.Record
  | _, _, [], _ => []
  | st, line, c :: cs, (L, Ls) =>
    (expectedOne env cfg st line c L).1 ::
      expectedFrom env cfg (step env cfg st c).1 (line + (expectedOne env cfg st line c L).2) cs Ls

/-- the options of the main header -/
def mainOpts (enc : Name) : List (Bytes × Option HVal) :=
  [(b!"encoding", some (HVal.str enc)), (b!"version", some (HVal.str (Text.ofAscii b!"1.0")))]

/-- **the records a reader must yield** for the program `DiffXWriter(fp, encoding=enc)`, `calls` -/
def expectedRecords (env : Env) (cfg : Config) (enc : Name) (calls : List Call)
    (laws : ProgramLaws env cfg enc calls) : List Reader.Record :=
  ⟨⟨0, .diffx⟩, 0, recOpts (mainOpts enc), .container⟩ ::
    expectedFrom env cfg (init (some enc) (Text.ofAscii b!"1.0")).1 1 calls laws.calls

/-! ## the two encoding stacks -/

theorem topEnc_rel (b : Option Name) (s : List (Option Name)) (hs : s ≠ []) :
    Reader.topEnc (none :: s.map encOpt) = encOpt (((b :: s).getLast?).getD none) := by
  obtain ⟨s', x, rfl⟩ : ∃ s' x, s = s' ++ [x] :=
    ⟨s.dropLast, s.getLast hs, (List.dropLast_concat_getLast hs).symm⟩
  have e1 : (none :: (s' ++ [x]).map encOpt) = (none :: s'.map encOpt) ++ [encOpt x] := by simp
  have e2 : b :: (s' ++ [x]) = (b :: s') ++ [x] := by simp
  rw [Reader.topEnc, e1, e2, List.getLast?_concat, List.getLast?_concat]
  rfl

/-- one `new_change` / `new_file`: the writer's `_stack` update and the reader's `encodings`
update keep the two stacks in correspondence -/
theorem stack_step (b : Option Name) (s : List (Option Name)) (hs : s ≠ []) (k : Nat)
    (hl : k + 1 ≤ s.length) (sec : SecId) (hsl : sec.level = k + 1) (hm : sec ≠ SecId.main)
    (enc : Option Name) (he : EncOk enc) :
    ∃ s', pushFrame (b :: s) (k + 2) enc = b :: s' ∧ s' ≠ [] ∧ s'.length = k + 2 ∧
      Reader.pushEnc (none :: s.map encOpt) (s.length - 1) sec (encOpt enc) = none :: s'.map encOpt := by
  have hpos : 0 < s.length := List.length_pos_iff.mpr hs
  have hk : s.take (k + 1) ≠ [] := by
    intro h0
    rcases List.take_eq_nil_iff.mp h0 with h | h
    · omega
    · exact hs h
  refine ⟨s.take (k + 1) ++ [if truthy enc then enc else ((b :: s.take (k + 1)).getLast?).getD none],
    ?_, by simp, by simp [List.length_take]; omega, ?_⟩
  · unfold pushFrame
    have e : (b :: s).length - ((b :: s).length - 1 + 1 - (k + 2)) = k + 2 := by
      simp only [List.length_cons]; omega
    simp only [e, List.take_succ_cons, List.cons_append]
  · unfold Reader.pushEnc
    have hkeep : (if sec ≠ SecId.main ∧ sec.level ≤ s.length - 1
        then (none :: s.map encOpt).take ((none :: s.map encOpt).length - (s.length - 1 - sec.level + 1))
        else none :: s.map encOpt) = none :: (s.take (k + 1)).map encOpt := by
      rw [hsl]
      by_cases hle : k + 1 ≤ s.length - 1
      · rw [if_pos ⟨hm, hle⟩]
        have e : (none :: s.map encOpt).length - (s.length - 1 - (k + 1) + 1) = k + 2 := by
          simp only [List.length_cons, List.length_map]; omega
        rw [e, List.take_succ_cons, List.map_take]
      · rw [if_neg (fun h => hle h.2)]
        have : s.take (k + 1) = s := List.take_of_length_le (by omega)
        rw [this]
    simp only [hkeep]
    rw [topEnc_rel b _ hk]
    simp only [List.map_append, List.map_cons, List.map_nil, List.cons_append, List.cons.injEq, true_and]
    congr 1
    cases enc with
    | none => simp [encOpt, truthy]
    | some n =>
      have := (he n rfl).truthy
      simp [encOpt, this]

/-! ## facts about the transition table -/

theorem legal_level : ∀ s ∈ SecId.legal, s.level ≤ 3 := by decide

theorem legal_preamble : ∀ s ∈ SecId.legal, s.name = .preamble →
    preambleSections.contains s = true ∧ contentSections.contains s = true ∧ s ≠ SecId.fileDiff := by decide

theorem legal_meta : ∀ s ∈ SecId.legal, s.name = .metadata →
    preambleSections.contains s = false ∧ metaSections.contains s = true ∧
      contentSections.contains s = true ∧ s ≠ SecId.fileDiff := by decide

theorem legal_diff : ∀ s ∈ SecId.legal, s.name = .diff → s = SecId.fileDiff := by decide

/-! ## one reader iteration on a rendered section -/

theorem container_iter (env : Env) (cfg : Config) (chunk : Nat) (hc : 0 < chunk) (l : Reader.Loop) (line : Nat)
    (hcr : l.st.fileCrlf = none ∨ l.st.fileCrlf = some false) (hln : l.st.linenum = line)
    (sec : SecId) (opts : List (Bytes × Option HVal)) (header post : Bytes)
    (hr : renderHeader sec opts = .ok header) (hs : sec ∈ l.valid) (hlvl : sec.level ≤ 3)
    (hokv : ∀ p ∈ opts, ∀ v, p.2 = some v → keyOk p.1 = true ∧ valOk v.text.toAscii = true)
    (hrest : l.st.rest = header ++ post)
    (hcs : contentSections.contains sec = false)
    (hver : Reader.verCheck sec (recOpts opts) line = .ok ()) :
    Reader.stepSection env cfg chunk l = .ok (some (⟨sec, line, recOpts opts, .container⟩,
      ⟨⟨post, line + 1, some false⟩, validNext sec,
        Reader.pushEnc l.encodings l.prevLevel sec ((recOpts opts).get b!"encoding"), sec.level⟩)) := by
  obtain ⟨⟨rest, ln, f⟩, valid, encs, prev⟩ := l
  simp only at hcr hln hs hrest
  subst hln hrest
  rw [Reader.stepSection_chain]
  simp only
  rw [header_read chunk hc sec opts header hr hlvl hokv valid hs post ln f hcr]
  simp only [Reader.ok_bind, Reader.stepHdr, hcs, Bool.false_eq_true, if_false]
  rw [show Spec.reported (C02.writtenPairs opts) = recOpts opts from rfl, hver]
  rfl

theorem content_iter (env : Env) (cfg : Config) (chunk : Nat) (hc : 0 < chunk) (l : Reader.Loop) (line : Nat)
    (hcr : l.st.fileCrlf = some false) (hln : l.st.linenum = line)
    (sec : SecId) (opts : List (Bytes × Option HVal)) (header data post : Bytes)
    (hr : renderHeader sec opts = .ok header) (hs : sec ∈ l.valid) (hlvl : sec.level ≤ 3)
    (hokv : ∀ p ∈ opts, ∀ v, p.2 = some v → keyOk p.1 = true ∧ valOk v.text.toAscii = true)
    (hnd : (opts.map (·.1)).Nodup)
    (hrest : l.st.rest = header ++ data ++ post)
    (hcs : contentSections.contains sec = true)
    (hlen : optLookup opts b!"length" = some (HVal.int data.length)) (hlenb : data.length ≤ Reader.maxRead)
    (hfmt : Reader.fmtCheck sec (recOpts opts) line = .ok ())
    (got : Reader.Got) (lines : Nat)
    (hrc : Reader.readContent env cfg ⟨data ++ post, line + 1, some false⟩ data.length
        (Reader.contentEncoding sec (recOpts opts) l.encodings) (Reader.rcIndent sec (recOpts opts))
        ((recOpts opts).get b!"line_endings") (Reader.rcKeep sec) =
          .ok (got, ⟨post, line + 1 + lines, some false⟩))
    (c : Reader.Content) (hco : Reader.contentOf env sec line got = .ok c) :
    Reader.stepSection env cfg chunk l = .ok (some (⟨sec, line, recOpts opts, c⟩,
      ⟨⟨post, line + 1 + lines, some false⟩, validNext sec, l.encodings, l.prevLevel⟩)) := by
  obtain ⟨⟨rest, ln, f⟩, valid, encs, prev⟩ := l
  simp only at hcr hln hs hrest hrc
  subst hln hrest hcr
  have hl : Reader.lengthOf (recOpts opts) ln = .ok data.length := by
    have hg : (recOpts opts).get b!"length" = some (.int (data.length : Int)) := by
      unfold recOpts
      rw [reported_written_get opts hnd, hlen, Option.map_some]
      have e : (HVal.int (data.length : Int)).text = natDigits data.length := by
        show intText _ = _
        rw [intText_nonneg _ (Int.natCast_nonneg _), Int.toNat_natCast]
      rw [e, convert_natDigits _ (Nat.lt_of_le_of_lt hlenb maxRead_lt)]
    have := Reader.lengthOf_int (recOpts opts) ln (data.length : Int) hg (Int.natCast_nonneg _)
    rw [Int.toNat_natCast] at this
    exact this
  rw [Reader.stepSection_chain]
  simp only
  rw [List.append_assoc, header_read chunk hc sec opts header hr hlvl hokv valid hs (data ++ post) ln (some false)
    (Or.inr rfl)]
  simp only [Reader.ok_bind, Reader.stepHdr, hcs, if_true]
  rw [show Spec.reported (C02.writtenPairs opts) = recOpts opts from rfl, hl, Reader.ok_bind, hfmt,
    Reader.ok_bind, hrc, Reader.ok_bind]
  simp only [hco, Reader.ok_bind]

/-! ## content sections -/

/-- the newline of the laws is the one `_prepare_content` appends -/
theorem TextLaws.nl_suffix_plain {env : Env} {cfg : Config} {wst : St} {t : Text} {le : Option Text}
    {enc : Option Name} {leOut : Text} (laws : TextLaws env cfg wst t le enc leOut) :
    laws.nl <:+ laws.plain := by
  obtain ⟨nl', d, h1, h2⟩ := (prepareContent_ok_iff ..).mp laws.hplain
  obtain ⟨hw', -⟩ := prepCore_ok _ _ _ _ _ _ _ _ _ _ h1
  have hnl : nl' = laws.nl := by
    unfold PreparedWith at hw'
    dsimp only at hw'
    obtain ⟨dos', e1, _, _, e, raw', e2, e3, e4⟩ := hw'
    have hd : dos' = laws.dos := leKind_inj _ _ (by rw [← e1, ← laws.hle])
    subst hd
    rw [eff_inherit, laws.heff] at e2 e4
    cases e2
    rw [laws.henc] at e3
    cases e3
    rw [laws.hbom] at e4
    cases e4
    rfl
  subst hnl
  exact prepFinish_suffix _ _ _ _ h2

/-- `_read_content` without a `line_endings` option (metadata sections): the newline is guessed -/
theorem readContent_guess (env : Env) (cfg : Config) (data rest : Bytes) (ln : Nat) (f : Option Bool)
    (encB : Bytes) (dos : Bool) (nl : Bytes) (decoded nlT : Text)
    (hlen : data.length ≤ Reader.maxRead)
    (hg : Reader.guessLineEndings env cfg ln data (some (Name.ofBytes encB)) = .ok (dos, nl))
    (hne : nl ≠ []) (hends : nl <:+ data)
    (hdec : env.decode (Name.ofBytes encB) data = .ok decoded)
    (hdecNl : env.decode (Name.ofBytes encB) nl = .ok nlT)
    (hendT : endsWith decoded nlT = true) :
    Reader.readContent env cfg ⟨data ++ rest, ln, f⟩ data.length (some (.str encB)) none none false =
      .ok (.text decoded, ⟨rest, ln + (splitLines data nl true).length, f⟩) := by
  have hdne : data ≠ [] := by
    intro h0; subst h0
    exact hne (List.suffix_nil.mp hends)
  have hends' : endsWith data nl = true := by simpa [endsWith, List.isSuffixOf_iff_suffix] using hends
  have hemp : data.isEmpty = false := by simpa using hdne
  have hnemp : nl.isEmpty = false := by simpa using hne
  rw [Reader.readContent_eq]
  simp only [List.take_left', List.drop_left', Nat.lt_irrefl, decide_false, Bool.and_false]
  unfold Reader.rcStaged
  simp only [pure, Except.pure, Reader.ok_bind]
  unfold Reader.rcChecks
  simp only [Nat.not_lt.mpr hlen, hemp, Bool.false_eq_true, if_false, hg, Reader.ok_bind, pure, Except.pure]
  unfold Reader.rcNl
  simp only [hnemp, hends', Bool.false_eq_true, Bool.not_true, if_false, Reader.ok_bind, pure, Except.pure]
  unfold Reader.rcFinal
  simp only [if_true, hdec, hdecNl, Reader.liftEnv, Reader.ok_bind, hendT, Bool.not_true, Bool.false_eq_true,
    if_false, pure, Except.pure]

/-! ## what an accepted call did -/

theorem step_ok_inv (env : Env) (cfg : Config) (st : St) (c : Call) (h : (step env cfg st c).2 = .ok) :
    ∃ b stk, pre env c = none ∧ validate st (secOf st c) = .ok () ∧ payload env cfg st c = .ok (b, stk) ∧
      step env cfg st c = (⟨st.out ++ b, stk, some (secOf st c)⟩, .ok) := by
  rw [step_eq] at h ⊢
  cases hp : pre env c with
  | some e =>
    rw [hp] at h
    exact absurd h (pre_benign _ _ _ hp).1
  | none =>
    rw [hp] at h
    simp only at h ⊢
    cases hv : validate st (secOf st c) with
    | error e =>
      rw [hv] at h
      obtain ⟨rfl, _⟩ := validate_error _ _ _ hv
      cases h
    | ok u =>
      rw [hv] at h
      simp only at h ⊢
      cases hpl : payload env cfg st c with
      | error e =>
        rw [hpl] at h
        exact absurd h ((EB_payload ..).1 _ hpl).1
      | ok x =>
        obtain ⟨b, stk⟩ := x
        exact ⟨b, stk, by trivial, by trivial, rfl, rfl⟩

theorem containerPayload_inv (st : St) (name : SecName) (level : Nat) (enc : Option Name)
    (extra : List (Bytes × Option HVal)) (b : Bytes) (stk : List (Option Name))
    (h : containerPayload st name level enc extra = .ok (b, stk)) :
    renderHeader ⟨level - 1, name⟩ ((b!"encoding", enc.map HVal.str) :: extra) = .ok b ∧
      stk = pushFrame st.stack level enc := by
  unfold containerPayload at h
  split at h
  · cases h
  · rename_i header hh
    cases h
    exact ⟨hh, rfl⟩

theorem contentPayload_inv (env : Env) (cfg : Config) (st : St) (name : SecName) (content : Arg)
    (le : Option Text) (enc : Option Name) (indent : Option Int) (writeLe inherit : Bool)
    (extra : List (Bytes × Option HVal)) (b : Bytes) (stk : List (Option Name))
    (h : contentPayload env cfg st name content le enc indent writeLe inherit extra = .ok (b, stk)) :
    ∃ data leOut header, prepareContent env cfg st content indent le enc inherit = .ok (data, leOut) ∧
      renderHeader ⟨st.level, name⟩ (contentOpts extra enc indent data.length writeLe leOut) = .ok header ∧
      b = header ++ data ∧ stk = st.stack := by
  unfold contentPayload at h
  split at h
  · cases h
  · rename_i data leOut hp
    split at h
    · cases h
    · rename_i header hh
      cases h
      exact ⟨data, leOut, header, hp, hh, rfl, rfl⟩

/-! ## option values as the reader converts them -/

theorem get_of_lookup (opts : List (Bytes × Option HVal)) (hnd : (opts.map (·.1)).Nodup) (k : Bytes)
    (v : Option HVal) (h : optLookup opts k = v) :
    (recOpts opts).get k = v.map (fun v => convert v.text.toAscii) := by
  unfold recOpts
  rw [reported_written_get opts hnd, h]

theorem convert_enc (enc : Option Name) (he : EncOk enc) :
    (enc.map HVal.str).map (fun v => convert v.text.toAscii) = encOpt enc := by
  cases enc with
  | none => rfl
  | some n =>
    simp only [Option.map_some, encOpt, HVal.text]
    rw [(he n rfl).str]

theorem convert_int (i : Int) (h0 : 0 ≤ i) (hb : i.toNat ≤ Reader.maxRead) :
    convert (HVal.int i).text.toAscii = .int i := by
  show convert (intText i).toAscii = _
  rw [intText_nonneg i h0, convert_natDigits _ (Nat.lt_of_le_of_lt hb maxRead_lt), Int.toNat_of_nonneg h0]

theorem convert_indent (indent : Option Int) (h : ∀ i, indent = some i → 0 ≤ i ∧ i.toNat ≤ Reader.maxRead) :
    (indent.map HVal.int).map (fun v => convert v.text.toAscii) = indent.map OptVal.int := by
  cases indent with
  | none => rfl
  | some i =>
    simp only [Option.map_some]
    rw [convert_int i (h i rfl).1 (h i rfl).2]

theorem convert_leKind (dos : Bool) : convert (HVal.str (leKind dos)).text.toAscii = .str (leKind dos).toAscii := by
  cases dos <;> decide

theorem valOk_leKind (dos : Bool) : valOk (HVal.str (leKind dos)).text.toAscii = true := by
  cases dos <;> decide

theorem valOk_int (i : Int) (h0 : 0 ≤ i) : valOk (HVal.int i).text.toAscii = true := by
  show valOk (intText i).toAscii = true
  rw [intText_nonneg i h0]
  exact valOk_natDigits _

theorem valOk_mime (m : Text) (h : m ∈ mimetypes) : valOk (HVal.str m).text.toAscii = true := by
  simp only [mimetypes, List.mem_cons, List.not_mem_nil, or_false] at h
  rcases h with rfl | rfl <;> decide

theorem valOk_dtype (m : Text) (h : m ∈ diffTypes) : valOk (HVal.str m).text.toAscii = true := by
  simp only [diffTypes, List.mem_cons, List.not_mem_nil, or_false] at h
  rcases h with rfl | rfl <;> decide

/-- the indentation is bounded by the size of the indented content -/
theorem prepFinish_indent_le (i : Int) (_h0 : 0 ≤ i) (nl d data : Bytes)
    (h : prepFinish (some i) nl d = .ok data) : i.toNat ≤ data.length := by
  have hbase : nl <:+ (if endsWith d nl = true then d else d ++ nl) := by
    split
    · rename_i he
      simpa [endsWith, List.isSuffixOf_iff_suffix] using he
    · exact List.suffix_append _ _
  unfold prepFinish at h
  dsimp only at h
  split at h
  · rename_i hz
    omega
  · split at h
    · cases h
    · rename_i hne
      cases h
      have hne' : nl ≠ [] := by simpa using hne
      obtain ⟨ls, x, hx⟩ := splitLines_last_suffix nl _ hne' hbase
      rw [hx]
      simp only [List.map_append, List.map_cons, List.map_nil, List.flatten_append, List.flatten_cons,
        List.flatten_nil, List.append_nil, List.length_append, List.length_replicate]
      omega

theorem prepareContent_indent_le (env : Env) (cfg : Config) (st : St) (content : Arg) (i : Int) (h0 : 0 ≤ i)
    (le : Option Text) (enc : Option Name) (inherit : Bool) (data : Bytes) (leOut : Text)
    (h : prepareContent env cfg st content (some i) le enc inherit = .ok (data, leOut)) :
    i.toNat ≤ data.length := by
  obtain ⟨nl, d, _, h2⟩ := (prepareContent_ok_iff ..).mp h
  exact prepFinish_indent_le i h0 nl d data h2

/-! ## the simulation relation -/

/-- **the writer state after some accepted calls and the reader loop state after reading the
sections they wrote** (the reader's unread suffix is not constrained here): the reader's
encoding stack mirrors the writer's (above the bottom frame), the reader allows what may follow
the last section written, both agree on the open container level, the file's newline convention
has been fixed to LF, and `line` logical lines have been read -/
structure Related (st : St) (l : Reader.Loop) (line : Nat) : Prop where
  stack : ∃ b s, st.stack = b :: s ∧ s ≠ [] ∧ l.encodings = none :: s.map encOpt
  prev : ∃ p, st.prev = some p ∧ l.valid = validNext p ∧ st.stack.length = depth p + 2
  level : l.prevLevel = st.stack.length - 2
  crlf : l.st.fileCrlf = some false
  line : l.st.linenum = line

theorem Related.topEnc {st : St} {l : Reader.Loop} {line : Nat} (R : Related st l line) :
    Reader.topEnc l.encodings = encOpt st.curEncoding := by
  obtain ⟨b, s, h1, h2, h3⟩ := R.stack
  rw [h3, St.curEncoding, h1]
  exact topEnc_rel b s h2

theorem Related.sec_mem {st : St} {l : Reader.Loop} {line : Nat} (R : Related st l line) (sec : SecId)
    (hv : validate st sec = .ok ()) : sec ∈ l.valid ∧ sec ∈ SecId.legal := by
  obtain ⟨p, hp, hval, _⟩ := R.prev
  have := (validate_ok_iff st sec).mp hv p hp
  rw [hval]
  exact ⟨this, validNext_legal p sec this⟩

theorem get_encoding_single (enc : Option Name) (he : EncOk enc) :
    (recOpts [(b!"encoding", enc.map HVal.str)]).get b!"encoding" = encOpt enc := by
  have hnd : (([((b!"encoding" : Bytes), enc.map HVal.str)] : List (Bytes × Option HVal)).map (·.1)).Nodup :=
    show ([b!"encoding"] : List Bytes).Nodup by decide
  rw [get_of_lookup _ hnd b!"encoding" (enc.map HVal.str) rfl, convert_enc enc he]

theorem okv_encoding (enc : Option Name) (he : EncOk enc) :
    ∀ p ∈ [((b!"encoding" : Bytes), enc.map HVal.str)], ∀ v, p.2 = some v →
      keyOk p.1 = true ∧ valOk v.text.toAscii = true := by
  intro p hp v hv
  simp only [List.mem_cons, List.not_mem_nil, or_false] at hp
  subst hp
  refine ⟨show keyOk b!"encoding" = true by decide, ?_⟩
  cases enc with
  | none => cases hv
  | some n =>
    simp only [Option.map_some, Option.some.injEq] at hv
    subst hv
    exact (he n rfl).val

/-- `new_change` (`k = 0`) / `new_file` (`k = 1`) -/
theorem sim_container (env : Env) (cfg : Config) (chunk : Nat) (hc : 0 < chunk) (st : St) (l : Reader.Loop)
    (line : Nat) (R : Related st l line) (k : Nat) (name : SecName)
    (hkn : (k = 0 ∧ name = .change) ∨ (k = 1 ∧ name = .file))
    (enc : Option Name) (he : EncOk enc)
    (hv : validate st ⟨k + 1, name⟩ = .ok ())
    (header : Bytes) (hr : renderHeader ⟨k + 1, name⟩ [(b!"encoding", enc.map HVal.str)] = .ok header)
    (post : Bytes) (hrest : l.st.rest = header ++ post) :
    ∃ l', Reader.stepSection env cfg chunk l =
        .ok (some (⟨⟨k + 1, name⟩, line, recOpts [(b!"encoding", enc.map HVal.str)], .container⟩, l')) ∧
      Related ⟨st.out ++ header, pushFrame st.stack (k + 2) enc, some ⟨k + 1, name⟩⟩ l' (line + 1) ∧
      l'.st.rest = post := by
  obtain ⟨hmem, hleg⟩ := R.sec_mem _ hv
  have hlvl : (⟨k + 1, name⟩ : SecId).level ≤ 3 := by
    rcases hkn with ⟨rfl, rfl⟩ | ⟨rfl, rfl⟩ <;> decide
  have hcs : contentSections.contains (⟨k + 1, name⟩ : SecId) = false := by
    rcases hkn with ⟨rfl, rfl⟩ | ⟨rfl, rfl⟩ <;> decide
  have hmain : (⟨k + 1, name⟩ : SecId) ≠ SecId.main := by
    rcases hkn with ⟨rfl, rfl⟩ | ⟨rfl, rfl⟩ <;> decide
  have hdepth : depth (⟨k + 1, name⟩ : SecId) = k + 1 := by
    rcases hkn with ⟨rfl, rfl⟩ | ⟨rfl, rfl⟩ <;> rfl
  have hver : Reader.verCheck ⟨k + 1, name⟩ (recOpts [(b!"encoding", enc.map HVal.str)]) line = .ok () := by
    unfold Reader.verCheck; rw [if_neg hmain]
  have hstep := container_iter env cfg chunk hc l line (Or.inr R.crlf) R.line ⟨k + 1, name⟩ _ header post hr hmem
    hlvl (okv_encoding enc he) hrest hcs hver
  refine ⟨_, hstep, ?_, rfl⟩
  obtain ⟨b, s, h1, h2, h3⟩ := R.stack
  obtain ⟨p, hp, hval, hlen⟩ := R.prev
  have hks : k + 1 ≤ s.length := by
    have hs : 0 < s.length := List.length_pos_iff.mpr h2
    rcases hkn with ⟨rfl, rfl⟩ | ⟨rfl, rfl⟩
    · omega
    · have hm := (validate_ok_iff st _).mp hv p hp
      have := file_mem_validNext p hm
      rw [h1, List.length_cons] at hlen
      omega
  have hprev : l.prevLevel = s.length - 1 := by
    rw [R.level, h1, List.length_cons]; omega
  obtain ⟨s', e1, e2, e3, e4⟩ := stack_step b s h2 k hks ⟨k + 1, name⟩ rfl hmain enc he
  constructor
  · refine ⟨b, s', ?_, e2, ?_⟩
    · simp only; rw [h1, e1]
    · simp only
      rw [get_encoding_single enc he, h3, hprev, e4]
  · refine ⟨⟨k + 1, name⟩, rfl, rfl, ?_⟩
    simp only
    rw [h1, e1, List.length_cons, e3, hdepth]
  · simp only
    rw [h1, e1, List.length_cons, e3]; omega
  · rfl
  · rfl

/-- the relation after a content section: only the reader's position and the allowed sections change -/
theorem Related.content {st : St} {l : Reader.Loop} {line : Nat} (R : Related st l line) (name : SecName)
    (hn : name = .preamble ∨ name = .metadata ∨ name = .diff) (out' post : Bytes) (line' : Nat) :
    Related ⟨out', st.stack, some ⟨st.level, name⟩⟩
      ⟨⟨post, line', some false⟩, validNext ⟨st.level, name⟩, l.encodings, l.prevLevel⟩ line' := by
  obtain ⟨b, s, h1, h2, h3⟩ := R.stack
  have hs : 0 < s.length := List.length_pos_iff.mpr h2
  constructor
  · exact ⟨b, s, h1, h2, h3⟩
  · refine ⟨⟨st.level, name⟩, rfl, rfl, ?_⟩
    have hd : depth ⟨st.level, name⟩ = st.level - 1 := by
      rcases hn with rfl | rfl | rfl <;> simp [depth]
    simp only
    rw [hd, St.level, h1, List.length_cons]
    omega
  · exact R.level
  · rfl
  · rfl

theorem okv_content (k0 : Bytes) (v0 : Option HVal) (hk0 : keyOk k0 = true)
    (hv0 : ∀ v, v0 = some v → valOk v.text.toAscii = true)
    (enc : Option Name) (he : EncOk enc) (indent : Option Int) (hi : ∀ i, indent = some i → 0 ≤ i)
    (n : Nat) (writeLe : Bool) (dos : Bool) :
    ∀ p ∈ contentOpts [(k0, v0)] enc indent n writeLe (leKind dos), ∀ v, p.2 = some v →
      keyOk p.1 = true ∧ valOk v.text.toAscii = true := by
  intro p hp v hv
  unfold contentOpts at hp
  simp only [List.mem_append, List.mem_cons, List.not_mem_nil, or_false] at hp
  rcases hp with ((rfl | rfl | rfl | rfl) | hp)
  · exact ⟨hk0, hv0 v hv⟩
  · refine ⟨show keyOk b!"encoding" = true by decide, ?_⟩
    cases enc with
    | none => cases hv
    | some m =>
      simp only [Option.map_some, Option.some.injEq] at hv
      subst hv
      exact (he m rfl).val
  · refine ⟨show keyOk b!"indent" = true by decide, ?_⟩
    cases indent with
    | none => cases hv
    | some i =>
      simp only [Option.map_some, Option.some.injEq] at hv
      subst hv
      exact valOk_int i (hi i rfl)
  · refine ⟨show keyOk b!"length" = true by decide, ?_⟩
    simp only [Option.some.injEq] at hv
    subst hv
    exact valOk_int _ (Int.natCast_nonneg n)
  · cases writeLe with
    | false => simp at hp
    | true =>
      simp only [if_true, List.mem_cons, List.not_mem_nil, or_false] at hp
      subst hp
      refine ⟨show keyOk b!"line_endings" = true by decide, ?_⟩
      simp only [Option.some.injEq] at hv
      subst hv
      exact valOk_leKind dos

/-- the encoding `_read_content` is given for a preamble / metadata section -/
theorem contentEncoding_inherit {st : St} {l : Reader.Loop} {line : Nat} (R : Related st l line)
    (sec : SecId) (hs : sec ≠ SecId.fileDiff) (o : Opts) (enc : Option Name) (he : EncOk enc)
    (hg : o.get b!"encoding" = encOpt enc) (encName : Bytes)
    (heff : (if truthy enc then enc else st.curEncoding) = some (Text.ofAscii encName)) :
    Reader.contentEncoding sec o l.encodings = some (.str encName) := by
  unfold Reader.contentEncoding
  rw [if_neg hs, hg]
  cases enc with
  | none =>
    have : truthy none = false := rfl
    rw [this] at heff
    simp only [Bool.false_eq_true, if_false] at heff
    simp only [encOpt, Option.map_none]
    rw [R.topEnc, heff]
    simp only [encOpt, Option.map_some, toAscii_ofAscii]
  | some n =>
    rw [(he n rfl).truthy] at heff
    simp only [if_true, Option.some.injEq] at heff
    subst heff
    simp only [encOpt, Option.map_some, toAscii_ofAscii]

theorem sim_preamble (env : Env) (cfg : Config) (chunk : Nat) (hc : 0 < chunk) (st : St) (l : Reader.Loop)
    (line : Nat) (R : Related st l line) (t : Text) (enc : Option Name) (indent : Option Int)
    (le : Option Text) (mime : Option Text) (L : PreambleLaws env cfg st t enc indent le)
    (hmime : ∀ m, mime = some m → m ∈ mimetypes)
    (hv : validate st ⟨st.level, .preamble⟩ = .ok ())
    (header : Bytes)
    (hr : renderHeader ⟨st.level, .preamble⟩
      (contentOpts [(b!"mimetype", mime.map HVal.str)] enc indent L.data.length true L.leOut) = .ok header)
    (post : Bytes) (hrest : l.st.rest = header ++ L.data ++ post) :
    ∃ l', Reader.stepSection env cfg chunk l =
        .ok (some (⟨⟨st.level, .preamble⟩, line,
          recOpts (contentOpts [(b!"mimetype", mime.map HVal.str)] enc indent L.data.length true L.leOut),
          .text L.text.decoded⟩, l')) ∧
      Related ⟨st.out ++ (header ++ L.data), st.stack, some ⟨st.level, .preamble⟩⟩ l' (line + (1 + L.text.lines)) ∧
      l'.st.rest = post := by
  obtain ⟨hmem, hleg⟩ := R.sec_mem _ hv
  obtain ⟨hp, hcs, hfd⟩ := legal_preamble _ hleg rfl
  have hle := L.text.hle
  generalize hopts : contentOpts [(b!"mimetype", mime.map HVal.str)] enc indent L.data.length true L.leOut = opts
    at hr ⊢
  have hnd : (opts.map (·.1)).Nodup := by
    rw [← hopts]
    exact show ([b!"mimetype", b!"encoding", b!"indent", b!"length", b!"line_endings"] : List Bytes).Nodup by decide
  have hokv : ∀ p ∈ opts, ∀ v, p.2 = some v → keyOk p.1 = true ∧ valOk v.text.toAscii = true := by
    rw [← hopts, hle]
    refine okv_content _ _ (by decide) ?_ enc L.encOk indent L.indentOk _ true _
    intro v hv
    cases mime with
    | none => cases hv
    | some m =>
      simp only [Option.map_some, Option.some.injEq] at hv
      subst hv
      exact valOk_mime m (hmime m rfl)
  have hibound : ∀ i, indent = some i → 0 ≤ i ∧ i.toNat ≤ Reader.maxRead := by
    intro i hi
    subst hi
    have h0 := L.indentOk i rfl
    exact ⟨h0, Nat.le_trans (prepareContent_indent_le env cfg st _ i h0 _ _ _ _ _ L.hprep) L.hlen⟩
  have hgenc : (recOpts opts).get b!"encoding" = encOpt enc := by
    rw [get_of_lookup opts hnd b!"encoding" (enc.map HVal.str) (by rw [← hopts]; rfl), convert_enc enc L.encOk]
  have hgind : (recOpts opts).get b!"indent" = indent.map OptVal.int := by
    rw [get_of_lookup opts hnd b!"indent" (indent.map HVal.int) (by rw [← hopts]; rfl), convert_indent indent hibound]
  have hgle : (recOpts opts).get b!"line_endings" = some (.str L.leOut.toAscii) := by
    rw [get_of_lookup opts hnd b!"line_endings" (some (HVal.str L.leOut)) (by rw [← hopts]; rfl), Option.map_some,
      hle, convert_leKind]
  have hstep := content_iter env cfg chunk hc l line R.crlf R.line ⟨st.level, .preamble⟩ opts header L.data post hr
    hmem (legal_level _ hleg) hokv hnd hrest hcs (by rw [← hopts]; rfl) L.hlen
    (by unfold Reader.fmtCheck; rw [hp]; rfl)
    (.text L.text.decoded) L.text.lines
    (by
      rw [contentEncoding_inherit R _ hfd _ enc L.encOk hgenc L.text.encName L.text.heff, hgle]
      have e1 : Reader.rcIndent ⟨st.level, .preamble⟩ (recOpts opts) = indent.map OptVal.int := by
        unfold Reader.rcIndent; rw [hp, if_pos rfl, hgind]
      have e2 : Reader.rcKeep ⟨st.level, .preamble⟩ = false := by
        unfold Reader.rcKeep; rw [hp]; rfl
      rw [e1, e2]
      exact content_text_roundtrip env cfg st t indent le enc L.data L.leOut L.hprep L.indentOk L.hlen L.text post
        (line + 1) (some false))
    (.text L.text.decoded)
    (by unfold Reader.contentOf; rw [hp]; rfl)
  refine ⟨_, hstep, ?_, rfl⟩
  rw [show line + (1 + L.text.lines) = line + 1 + L.text.lines by omega]
  exact R.content .preamble (Or.inl rfl) _ _ _

theorem sim_meta (env : Env) (cfg : Config) (chunk : Nat) (hc : 0 < chunk) (st : St) (l : Reader.Loop)
    (line : Nat) (R : Related st l line) (j : Json) (enc : Option Name) (fmt : Text)
    (L : MetaLaws env cfg st j enc) (hfmt : fmt = Text.ofAscii b!"json")
    (hv : validate st ⟨st.level, .metadata⟩ = .ok ())
    (header : Bytes)
    (hr : renderHeader ⟨st.level, .metadata⟩
      (contentOpts [(b!"format", some (HVal.str fmt))] enc none L.tl.plain.length false L.leOut) = .ok header)
    (post : Bytes) (hrest : l.st.rest = header ++ L.tl.plain ++ post) :
    ∃ l', Reader.stepSection env cfg chunk l =
        .ok (some (⟨⟨st.level, .metadata⟩, line,
          recOpts (contentOpts [(b!"format", some (HVal.str fmt))] enc none L.tl.plain.length false L.leOut),
          .metadata L.parsed⟩, l')) ∧
      Related ⟨st.out ++ (header ++ L.tl.plain), st.stack, some ⟨st.level, .metadata⟩⟩ l'
        (line + (1 + L.tl.lines)) ∧
      l'.st.rest = post := by
  obtain ⟨hmem, hleg⟩ := R.sec_mem _ hv
  obtain ⟨hp, hm, hcs, hfd⟩ := legal_meta _ hleg rfl
  have hle := L.tl.hle
  subst hfmt
  generalize hopts : contentOpts [(b!"format", some (HVal.str (Text.ofAscii b!"json")))] enc none
    L.tl.plain.length false L.leOut = opts at hr ⊢
  have hnd : (opts.map (·.1)).Nodup := by
    rw [← hopts]
    exact show ([b!"format", b!"encoding", b!"indent", b!"length"] : List Bytes).Nodup by decide
  have hokv : ∀ p ∈ opts, ∀ v, p.2 = some v → keyOk p.1 = true ∧ valOk v.text.toAscii = true := by
    have h := okv_content b!"format" (some (HVal.str (Text.ofAscii b!"json"))) (by decide)
      (by intro v hv
          simp only [Option.some.injEq] at hv
          subst hv
          decide) enc L.encOk none (by intro i hi; cases hi) L.tl.plain.length false L.tl.dos
    rw [← hle, hopts] at h
    exact h
  have hgenc : (recOpts opts).get b!"encoding" = encOpt enc := by
    rw [get_of_lookup opts hnd b!"encoding" (enc.map HVal.str) (by rw [← hopts]; rfl), convert_enc enc L.encOk]
  have hgle : (recOpts opts).get b!"line_endings" = none := by
    rw [get_of_lookup opts hnd b!"line_endings" none (by rw [← hopts]; rfl)]; rfl
  have hgfmt : (recOpts opts).get b!"format" = some (.str b!"json") := by
    rw [get_of_lookup opts hnd b!"format" (some (HVal.str (Text.ofAscii b!"json"))) (by rw [← hopts]; rfl)]
    decide
  have hstep := content_iter env cfg chunk hc l line R.crlf R.line ⟨st.level, .metadata⟩ opts header L.tl.plain post hr
    hmem (legal_level _ hleg) hokv hnd hrest hcs (by rw [← hopts]; rfl) L.hlen
    (by unfold Reader.fmtCheck; rw [hp, hm, hgfmt]; rfl)
    (.text L.tl.decoded) L.tl.lines
    (by
      rw [contentEncoding_inherit R _ hfd _ enc L.encOk hgenc L.tl.encName L.tl.heff, hgle]
      have e1 : Reader.rcIndent ⟨st.level, .metadata⟩ (recOpts opts) = none := by
        unfold Reader.rcIndent; rw [hp]; rfl
      have e2 : Reader.rcKeep ⟨st.level, .metadata⟩ = false := by
        unfold Reader.rcKeep; rw [hp, hm]; rfl
      rw [e1, e2]
      exact readContent_guess env cfg L.tl.plain post (line + 1) (some false) L.tl.encName L.tl.dos L.tl.nl
        L.tl.decoded (nlText L.tl.dos) L.hlen (L.hguess (line + 1)) L.tl.hne (TextLaws.nl_suffix_plain L.tl)
        L.tl.hdec L.tl.hdecNl L.tl.hendT)
    (.metadata L.parsed)
    (by
      unfold Reader.contentOf
      rw [hp, hm]
      simp only [Bool.false_eq_true, if_false, if_true, L.hloads, Reader.liftEnv, Reader.ok_bind, L.hobj,
        Bool.not_true])
  refine ⟨_, hstep, ?_, rfl⟩
  rw [show line + (1 + L.tl.lines) = line + 1 + L.tl.lines by omega]
  exact R.content .metadata (Or.inr (Or.inl rfl)) _ _ _

theorem sim_diff (env : Env) (cfg : Config) (chunk : Nat) (hc : 0 < chunk) (st : St) (l : Reader.Loop)
    (line : Nat) (R : Related st l line) (b : Bytes) (dtype : Option Text) (enc : Option Name)
    (le : Option Text) (L : DiffCallLaws env cfg st b enc le)
    (hdt : ∀ m, dtype = some m → m ∈ diffTypes)
    (hv : validate st ⟨st.level, .diff⟩ = .ok ())
    (header : Bytes)
    (hr : renderHeader ⟨st.level, .diff⟩
      (contentOpts [(b!"type", dtype.map HVal.str)] enc none L.data.length true L.leOut) = .ok header)
    (post : Bytes) (hrest : l.st.rest = header ++ L.data ++ post) :
    ∃ l', Reader.stepSection env cfg chunk l =
        .ok (some (⟨⟨st.level, .diff⟩, line,
          recOpts (contentOpts [(b!"type", dtype.map HVal.str)] enc none L.data.length true L.leOut),
          .diff L.data⟩, l')) ∧
      Related ⟨st.out ++ (header ++ L.data), st.stack, some ⟨st.level, .diff⟩⟩ l'
        (line + (1 + (splitLines L.data L.dl.nl true).length)) ∧
      l'.st.rest = post := by
  obtain ⟨hmem, hleg⟩ := R.sec_mem _ hv
  have hsec := legal_diff _ hleg rfl
  have hp : preambleSections.contains (⟨st.level, .diff⟩ : SecId) = false := by rw [hsec]; decide
  have hm : metaSections.contains (⟨st.level, .diff⟩ : SecId) = false := by rw [hsec]; decide
  have hcs : contentSections.contains (⟨st.level, .diff⟩ : SecId) = true := by rw [hsec]; decide
  have hle := L.dl.hle
  generalize hopts : contentOpts [(b!"type", dtype.map HVal.str)] enc none L.data.length true L.leOut = opts
    at hr ⊢
  have hnd : (opts.map (·.1)).Nodup := by
    rw [← hopts]
    exact show ([b!"type", b!"encoding", b!"indent", b!"length", b!"line_endings"] : List Bytes).Nodup by decide
  have hokv : ∀ p ∈ opts, ∀ v, p.2 = some v → keyOk p.1 = true ∧ valOk v.text.toAscii = true := by
    rw [← hopts, hle]
    refine okv_content _ _ (by decide) ?_ enc L.encOk none (by intro i hi; cases hi) _ true _
    intro v hv
    cases dtype with
    | none => cases hv
    | some m =>
      simp only [Option.map_some, Option.some.injEq] at hv
      subst hv
      exact valOk_dtype m (hdt m rfl)
  have hgenc : (recOpts opts).get b!"encoding" = encOpt enc := by
    rw [get_of_lookup opts hnd b!"encoding" (enc.map HVal.str) (by rw [← hopts]; rfl), convert_enc enc L.encOk]
  have hgle : (recOpts opts).get b!"line_endings" = some (.str L.leOut.toAscii) := by
    rw [get_of_lookup opts hnd b!"line_endings" (some (HVal.str L.leOut)) (by rw [← hopts]; rfl), Option.map_some,
      hle, convert_leKind]
  have hstep := content_iter env cfg chunk hc l line R.crlf R.line ⟨st.level, .diff⟩ opts header L.data post hr
    hmem (legal_level _ hleg) hokv hnd hrest hcs (by rw [← hopts]; rfl) L.hlen
    (by unfold Reader.fmtCheck; rw [hp, hm]; rfl)
    (.bytes L.data) (splitLines L.data L.dl.nl true).length
    (by
      have e0 : Reader.contentEncoding ⟨st.level, .diff⟩ (recOpts opts) l.encodings = encOpt enc := by
        unfold Reader.contentEncoding; rw [if_pos hsec, hgenc]
      have e1 : Reader.rcIndent ⟨st.level, .diff⟩ (recOpts opts) = none := by
        unfold Reader.rcIndent; rw [hp]; rfl
      have e2 : Reader.rcKeep ⟨st.level, .diff⟩ = true := by
        unfold Reader.rcKeep; rw [hp, hm]; rfl
      rw [e0, e1, e2, hgle]
      exact (content_diff_roundtrip env cfg st b le enc L.data L.leOut L.hprep L.hlen L.dl post
        (line + 1) (some false)).1)
    (.diff L.data)
    (by unfold Reader.contentOf; rw [hp, hm]; rfl)
  refine ⟨_, hstep, ?_, rfl⟩
  rw [show line + (1 + (splitLines L.data L.dl.nl true).length) =
    line + 1 + (splitLines L.data L.dl.nl true).length by omega]
  exact R.content .diff (Or.inr (Or.inr rfl)) _ _ _

/-! ## the simulation step -/

/-- **Simulation step.** From related states, one accepted writer call appends bytes `b`, and one
reader iteration on `b ++ post` yields the expected record, consumes exactly `b` and re-establishes
the relation. -/
theorem sim_step (env : Env) (cfg : Config) (chunk : Nat) (hc : 0 < chunk) (st : St) (l : Reader.Loop)
    (line : Nat) (R : Related st l line) (c : Call) (hok : (step env cfg st c).2 = .ok)
    (L : CallLaws env cfg st c) :
    ∃ b, b ≠ [] ∧ (step env cfg st c).1.out = st.out ++ b ∧
      ∀ post, l.st.rest = b ++ post →
        ∃ l', Reader.stepSection env cfg chunk l = .ok (some ((expectedOne env cfg st line c L).1, l')) ∧
          Related (step env cfg st c).1 l' (line + (expectedOne env cfg st line c L).2) ∧
          l'.st.rest = post := by
  obtain ⟨b, stk, hpre, hv, hpl, hstep⟩ := step_ok_inv env cfg st c hok
  have hb := (payload_ok env cfg st c b stk hpl).1
  refine ⟨b, hb, by rw [hstep], ?_⟩
  intro post hrest
  rw [hstep]
  simp only
  cases c with
  | newChange enc =>
    obtain ⟨hr, rfl⟩ := containerPayload_inv st .change 2 enc [] b stk hpl
    exact sim_container env cfg chunk hc st l line R 0 .change (Or.inl ⟨rfl, rfl⟩) enc L.down hv b hr post hrest
  | newFile enc =>
    obtain ⟨hr, rfl⟩ := containerPayload_inv st .file 3 enc [] b stk hpl
    exact sim_container env cfg chunk hc st l line R 1 .file (Or.inr ⟨rfl, rfl⟩) enc L.down hv b hr post hrest
  | preamble text enc indent le mime =>
    cases text with
    | str t =>
      have hmime : ∀ m, mime = some m → m ∈ mimetypes := by
        intro m hm
        subst hm
        simp only [pre] at hpre
        split at hpre
        · cases hpre
        · rename_i h; simpa using h
      obtain ⟨data, leOut, header, hprep, hr, rfl, rfl⟩ :=
        contentPayload_inv env cfg st .preamble (.str t) le enc indent true true _ b stk hpl
      have he := L.hprep
      rw [hprep] at he
      simp only [Except.ok.injEq, Prod.mk.injEq] at he
      obtain ⟨rfl, rfl⟩ := he
      exact sim_preamble env cfg chunk hc st l line R t enc indent le mime L hmime hv header hr post hrest
    | bytes _ => simp [pre] at hpre
    | dict _ => simp [pre] at hpre
    | other => simp [pre] at hpre
  | metadata m enc fmt =>
    cases m with
    | dict j =>
      have hd : liftEnv (env.dumps j) = .ok L.text := by rw [L.hdumps]; rfl
      have hfmt : fmt = Text.ofAscii b!"json" := by
        simp only [pre] at hpre
        split at hpre
        · cases hpre
        · split at hpre
          · cases hpre
          · rename_i h
            simpa [metaFormats] using h
      simp only [payload, hd] at hpl
      obtain ⟨data, leOut, header, hprep, hr, rfl, rfl⟩ :=
        contentPayload_inv env cfg st .metadata (.str L.text) none enc none false true _ b stk hpl
      have he := L.tl.hplain
      rw [hprep] at he
      simp only [Except.ok.injEq, Prod.mk.injEq] at he
      obtain ⟨rfl, rfl⟩ := he
      exact sim_meta env cfg chunk hc st l line R j enc fmt L hfmt hv header hr post hrest
    | str _ => simp [pre] at hpre
    | bytes _ => simp [pre] at hpre
    | other => simp [pre] at hpre
  | diff content dtype enc le =>
    cases content with
    | bytes d =>
      have hdt : ∀ m, dtype = some m → m ∈ diffTypes := by
        intro m hm
        subst hm
        simp only [pre] at hpre
        split at hpre
        · cases hpre
        · rename_i h; simpa using h
      obtain ⟨data, leOut, header, hprep, hr, rfl, rfl⟩ :=
        contentPayload_inv env cfg st .diff (.bytes d) le enc none true false _ b stk hpl
      have he := L.hprep
      rw [hprep] at he
      simp only [Except.ok.injEq, Prod.mk.injEq] at he
      obtain ⟨rfl, rfl⟩ := he
      exact sim_diff env cfg chunk hc st l line R d dtype enc le L hdt hv header hr post hrest
    | str _ => simp [pre] at hpre
    | dict _ => simp [pre] at hpre
    | other => simp [pre] at hpre

/-! ## whole programs -/

/-- every call of `cs`, made from state `st` on, is accepted -/
def AllOk (env : Env) (cfg : Config) : St → List Call → Prop
  | _, [] => True
  | st, c :: cs => (step env cfg st c).2 = .ok ∧ AllOk env cfg (step env cfg st c).1 cs

/-- the writer state after the calls `cs` -/
def runFrom (env : Env) (cfg : Config) (st : St) (cs : List Call) : St :=
  cs.foldl (fun s c => (step env cfg s c).1) st

/-- the results of the calls `cs` -/
def results (env : Env) (cfg : Config) : St → List Call → List CallResult
  | _, [] => []
  | st, c :: cs => (step env cfg st c).2 :: results env cfg (step env cfg st c).1 cs

theorem foldl_run (env : Env) (cfg : Config) (cs : List Call) (st : St) (rs : List CallResult) :
    cs.foldl (fun (acc : St × List CallResult) c =>
      let (st', r) := step env cfg acc.1 c
      (st', acc.2 ++ [r])) (st, rs) = (runFrom env cfg st cs, rs ++ results env cfg st cs) := by
  induction cs generalizing st rs with
  | nil => simp [runFrom, results]
  | cons c cs ih =>
    simp only [List.foldl_cons, runFrom, results]
    rw [ih]
    simp [runFrom]

theorem allOk_of_results (env : Env) (cfg : Config) (cs : List Call) (st : St)
    (h : ∀ r ∈ results env cfg st cs, r = .ok) : AllOk env cfg st cs := by
  induction cs generalizing st with
  | nil => trivial
  | cons c cs ih =>
    simp only [results, List.mem_cons, forall_eq_or_imp] at h
    exact ⟨h.1, ih _ h.2⟩

theorem run_ok (env : Env) (cfg : Config) (enc : Option Name) (ver : Text) (calls : List Call)
    (hok : ∀ r ∈ (run env cfg enc ver calls).2, r = .ok) :
    (init enc ver).2 = .ok ∧ AllOk env cfg (init enc ver).1 calls ∧
      (run env cfg enc ver calls).1 = runFrom env cfg (init enc ver).1 calls := by
  unfold run at hok ⊢
  rcases hinit : init enc ver with ⟨st0, r0⟩
  rw [hinit] at hok
  simp only at hok ⊢
  by_cases hr : r0 = .ok
  · subst hr
    simp only [bne_self_eq_false, Bool.false_eq_true, if_false, foldl_run] at hok ⊢
    refine ⟨trivial, allOk_of_results env cfg calls st0 ?_, trivial⟩
    intro r hm
    exact hok r (by simp [hm])
  · have hne : (r0 != CallResult.ok) = true := by simpa using hr
    simp only [hne, if_true] at hok
    exact absurd (hok r0 (by simp)) hr

theorem runFrom_out (env : Env) (cfg : Config) (st : St) (cs : List Call) :
    ∃ post, (runFrom env cfg st cs).out = st.out ++ post := by
  obtain ⟨t, ht⟩ := runFrom_prefix env cfg st cs
  exact ⟨t, ht.symm⟩

/-- **the list induction**: from related states, the reader run on what the remaining calls write
yields the expected records and ends normally -/
theorem sim_run (env : Env) (cfg : Config) (chunk : Nat) (hc : 0 < chunk) :
    ∀ (cs : List Call) (st : St) (l : Reader.Loop) (line : Nat), Related st l line →
      AllOk env cfg st cs → ∀ (Ls : ProgramLawsFrom env cfg st cs),
      st.out ++ l.st.rest = (runFrom env cfg st cs).out →
      ∀ fuel, l.st.rest.length < fuel →
        Reader.readLoop env cfg chunk fuel l = (expectedFrom env cfg st line cs Ls, .done) := by
  intro cs
  induction cs with
  | nil =>
    intro st l line _ _ Ls hrest fuel hf
    have hnil : l.st.rest = [] := by
      have : st.out ++ l.st.rest = st.out ++ [] := by rw [hrest]; simp [runFrom]
      exact List.append_cancel_left this
    cases fuel with
    | zero => omega
    | succ f =>
      simp only [Reader.readLoop, Reader.stepSection_nil env cfg chunk l hnil]
      rfl
  | cons c cs ih =>
    intro st l line R hok Ls hrest fuel hf
    obtain ⟨L, Ls'⟩ := Ls
    obtain ⟨b, hb, hout, H⟩ := sim_step env cfg chunk hc st l line R c hok.1 L
    obtain ⟨post, hpost⟩ := runFrom_out env cfg (step env cfg st c).1 cs
    have hfin : (runFrom env cfg st (c :: cs)).out = st.out ++ (b ++ post) := by
      show (runFrom env cfg (step env cfg st c).1 cs).out = _
      rw [hpost, hout, List.append_assoc]
    have hr : l.st.rest = b ++ post := by
      rw [hfin] at hrest
      exact List.append_cancel_left hrest
    obtain ⟨l', hs, R', hl'⟩ := H post hr
    cases fuel with
    | zero => omega
    | succ f =>
      have hblen : 0 < b.length := List.length_pos_iff.mpr hb
      have hf' : l'.st.rest.length < f := by
        rw [hl']
        rw [hr, List.length_append] at hf
        omega
      have := ih (step env cfg st c).1 l' _ R' hok.2 Ls' (by rw [hl', hpost]) f hf'
      simp only [Reader.readLoop, hs, this]
      rfl

/-! ## the constructor and the main header -/

theorem init_ok_inv (enc : Name) (h : (init (some enc) (Text.ofAscii b!"1.0")).2 = .ok) :
    ∃ header, renderHeader ⟨0, .diffx⟩ (mainOpts enc) = .ok header ∧
      init (some enc) (Text.ofAscii b!"1.0") = (⟨header, [some enc, some enc], some ⟨0, .diffx⟩⟩, .ok) := by
  have hver : (!supportedVersions.contains (Text.ofAscii b!"1.0")) = false := by decide
  unfold init at h ⊢
  simp only [hver, Bool.false_eq_true, if_false] at h ⊢
  rw [newContainer_run] at h ⊢
  simp only [emit, validate, pure, Except.pure] at h ⊢
  unfold containerPayload at h ⊢
  have hopts : ((b!"encoding", (St.curEncoding ⟨[], [some enc], none⟩).map HVal.str) ::
      [(b!"version", some (HVal.str (Text.ofAscii b!"1.0")))] : List (Bytes × Option HVal)) = mainOpts enc := rfl
  rw [hopts] at h ⊢
  cases hr : renderHeader ⟨1 - 1, .diffx⟩ (mainOpts enc) with
  | error e =>
    rw [hr] at h
    exact absurd h ((EB_renderHeader _ _).1 e hr).1
  | ok header =>
    refine ⟨header, rfl, ?_⟩
    have hp : pushFrame [some enc] 1 (some enc) = [some enc, some enc] := by
      cases ht : truthy (some enc) <;> simp [pushFrame, ht]
    show ((⟨[] ++ header, pushFrame [some enc] 1 (some enc), some ⟨0, .diffx⟩⟩ : St), CallResult.ok) = _
    rw [hp, List.nil_append]

theorem main_iter (env : Env) (cfg : Config) (chunk : Nat) (hc : 0 < chunk) (enc : Name) (he : NameOk enc)
    (header post : Bytes) (hr : renderHeader ⟨0, .diffx⟩ (mainOpts enc) = .ok header) (out : Bytes) :
    ∃ l', Reader.stepSection env cfg chunk (Reader.Loop.init (header ++ post)) =
        .ok (some (⟨⟨0, .diffx⟩, 0, recOpts (mainOpts enc), .container⟩, l')) ∧
      Related ⟨out, [some enc, some enc], some ⟨0, .diffx⟩⟩ l' 1 ∧ l'.st.rest = post := by
  have hnd : ((mainOpts enc).map (·.1)).Nodup :=
    show ([b!"encoding", b!"version"] : List Bytes).Nodup by decide
  have hokv : ∀ p ∈ mainOpts enc, ∀ v, p.2 = some v → keyOk p.1 = true ∧ valOk v.text.toAscii = true := by
    intro p hp v hv
    simp only [mainOpts, List.mem_cons, List.not_mem_nil, or_false] at hp
    rcases hp with rfl | rfl
    · simp only [Option.some.injEq] at hv
      subst hv
      exact ⟨show keyOk b!"encoding" = true by decide, he.val⟩
    · simp only [Option.some.injEq] at hv
      subst hv
      exact ⟨by decide, by decide⟩
  have hgenc : (recOpts (mainOpts enc)).get b!"encoding" = some (.str enc.toAscii) := by
    rw [get_of_lookup _ hnd b!"encoding" (some (HVal.str enc)) rfl, Option.map_some]
    show some (convert enc.toAscii) = _
    rw [he.str]
  have hgver : (recOpts (mainOpts enc)).get b!"version" = some (.str b!"1.0") := by
    rw [get_of_lookup _ hnd b!"version" (some (HVal.str (Text.ofAscii b!"1.0"))) rfl]
    decide
  have hver : Reader.verCheck ⟨0, .diffx⟩ (recOpts (mainOpts enc)) 0 = .ok () := by
    unfold Reader.verCheck
    rw [if_pos (show (⟨0, .diffx⟩ : SecId) = SecId.main from rfl), hgver]
    rfl
  have hstep := container_iter env cfg chunk hc (Reader.Loop.init (header ++ post)) 0 (Or.inl rfl) rfl
    ⟨0, .diffx⟩ (mainOpts enc) header post hr (by simp [Reader.Loop.init, SecId.main]) (by decide) hokv rfl
    (by decide) hver
  refine ⟨_, hstep, ?_, rfl⟩
  constructor
  · refine ⟨some enc, [some enc], rfl, by simp, ?_⟩
    simp only [Reader.Loop.init]
    rw [hgenc]
    rfl
  · exact ⟨⟨0, .diffx⟩, rfl, rfl, rfl⟩
  · rfl
  · rfl
  · rfl

/-- **Whole-sequence round trip.** -/
theorem run_roundtrip (env : Env) (cfg : Config) (chunk : Nat) (hc : 0 < chunk)
    (enc : Name) (calls : List Call)
    (hok : ∀ r ∈ (run env cfg (some enc) (Text.ofAscii b!"1.0") calls).2, r = .ok)
    (laws : ProgramLaws env cfg enc calls) :
    Reader.readAll env cfg chunk (run env cfg (some enc) (Text.ofAscii b!"1.0") calls).1.out
      = (expectedRecords env cfg enc calls laws, .done) := by
  obtain ⟨hinit, hall, hrun⟩ := run_ok env cfg (some enc) (Text.ofAscii b!"1.0") calls hok
  obtain ⟨header, hr, hi⟩ := init_ok_inv enc hinit
  obtain ⟨encOk, Ls⟩ := laws
  rw [hrun]
  unfold expectedRecords
  simp only
  generalize hst0 : (init (some enc) (Text.ofAscii b!"1.0")).1 = st0 at hall Ls ⊢
  have hst0' : st0 = ⟨header, [some enc, some enc], some ⟨0, .diffx⟩⟩ := by rw [← hst0, hi]
  obtain ⟨post, hpost⟩ := runFrom_out env cfg st0 calls
  have hout0 : st0.out = header := by rw [hst0']
  rw [hout0] at hpost
  obtain ⟨l', hs, R, hl'⟩ := main_iter env cfg chunk hc enc encOk header post hr header
  rw [← hst0'] at R
  have hne : header ≠ [] := renderHeader_ne_nil _ _ _ hr
  have hlen : 0 < header.length := List.length_pos_iff.mpr hne
  have key := sim_run env cfg chunk hc calls st0 l' 1 R hall Ls (by rw [hl', hout0, hpost])
    (header ++ post).length (by rw [hl', List.length_append]; omega)
  unfold Reader.readAll
  rw [hpost]
  simp only [Reader.readLoop, hs, key]

end Diffx.RunRT
