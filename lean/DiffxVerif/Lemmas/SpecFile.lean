import DiffxVerif.Spec.Document
import DiffxVerif.Lemmas.SpecRead
import DiffxVerif.Lemmas.RoundTrip
/-!
# The reader against the specification's reading of a whole foreign file

Core Lean only.  Support for `Properties/C03File.lean`.

* options: `reported_eq_map`, `optsOf_get` (what the header parser reports for distinct keys
  written in any order);
* hierarchy: `prev_cases`, `trans_facts` (closed facts about the transition table), the reader's
  encoding stack `stackOf` as a function of the specification's context, `stack_container`,
  `stack_content`, `top_inherited`;
* `Related`: the simulation relation between the specification's context and the reader's loop state;
* `header_step`: blank lines, then a header line in either newline convention;
* `newlineFor_of_enc`, `guess_of_enc`, `readContent_eval`, `rcFinal_text`, `rcFinal_bytes`:
  `_read_content` on a well-formed content section;
* `sim_step` (one section), `sim_prefix` (list induction, any continuation), `file_reading`
  (the theorem about `Spec.render` and `Reader.readAll`), `reject_after`, `step_bad_version`,
  `step_bad_length` (single-defect documents);
* `unindented_terminated`: unindenting keeps the final newline unless the newline starts with a space.
-/
set_option linter.unusedSimpArgs false

namespace Diffx.SpecFile
open Diffx Diffx.Spec Diffx.Header Diffx.Reader

/-! ## options -/

theorem any_key_false (acc : Opts) (k : Bytes) (h : ∀ q ∈ acc, q.1 ≠ k) : acc.any (·.1 == k) = false := by
  rw [← Bool.not_eq_true, List.any_eq_true]
  rintro ⟨q, hq, he⟩
  exact h q hq (by simpa using he)

theorem foldl_set_fresh (pairs : List (Bytes × Bytes)) (acc : Opts) (hd : (pairs.map (·.1)).Nodup)
    (hf : ∀ p ∈ pairs, ∀ q ∈ acc, q.1 ≠ p.1) :
    pairs.foldl (fun (o : Opts) p => o.set p.1 (convert p.2)) acc =
      acc ++ pairs.map (fun p => (p.1, convert p.2)) := by
  induction pairs generalizing acc with
  | nil => simp
  | cons p ps ih =>
    rw [List.map_cons, List.nodup_cons] at hd
    have hfresh : acc.any (·.1 == p.1) = false := any_key_false acc p.1 (hf p (by simp))
    have hset : acc.set p.1 (convert p.2) = acc ++ [(p.1, convert p.2)] := by
      simp only [Opts.set, hfresh, Bool.false_eq_true, if_false]
    rw [List.foldl_cons, hset, ih _ hd.2]
    · simp
    · intro p' hp' q hq
      rcases List.mem_append.mp hq with hq | hq
      · exact hf p' (List.mem_cons_of_mem _ hp') q hq
      · simp only [List.mem_singleton] at hq
        subst hq
        intro e
        exact hd.1 (List.mem_map.mpr ⟨p', hp', e.symm⟩)

/-- with distinct keys the parser reports the options in the order written, integers converted -/
theorem reported_eq_map (pairs : List (Bytes × Bytes)) (hd : (pairs.map (·.1)).Nodup) :
    Spec.reported pairs = pairs.map (fun p => (p.1, convert p.2)) := by
  unfold Spec.reported
  rw [foldl_set_fresh pairs [] hd (by intro _ _ q hq; cases hq)]
  rfl

theorem lookup_map_snd {β γ} (f : β → γ) (l : List (Bytes × β)) (k : Bytes) :
    (l.map (fun p => (p.1, f p.2))).lookup k = (l.lookup k).map f := by
  induction l with
  | nil => rfl
  | cons a r ih =>
    obtain ⟨a1, a2⟩ := a
    simp only [List.map_cons, List.lookup_cons]
    cases h : (k == a1) <;> simp [ih]

theorem optsOf_get (s : Sec) (k : Bytes) : (optsOf s).get k = (s.get k).map convert :=
  lookup_map_snd convert s.opts k

/-! ## the hierarchy -/

/-- the level of the innermost open container after section `p` -/
def depthOf : Option SecId → Nat
  | none => 0
  | some p => if p.name = .change ∨ p.name = .file then p.level else p.level - 1

/-- what can precede a section -/
def prevs : List (Option SecId) := none :: SecId.legal.map some

theorem validNext_prev_legal {p s : SecId} (h : s ∈ validNext p) : p ∈ SecId.legal := by
  unfold validNext at h
  repeat' split at h
  all_goals first
    | (exfalso; exact List.not_mem_nil h)
    | (subst_vars; decide)

theorem prev_cases {p : Option SecId} {s : SecId} (h : s ∈ allowedNext p) : p ∈ prevs := by
  cases p with
  | none => simp [prevs]
  | some q =>
    have := validNext_prev_legal (p := q) (s := s) h
    simp only [prevs, List.mem_cons, List.mem_map, Option.some.injEq, exists_eq_right, reduceCtorEq, false_or]
    exact this

/-- closed facts about the transition table -/
theorem trans_table : ∀ p ∈ prevs, depthOf p ≤ 2 ∧ ∀ s ∈ allowedNext p,
    s ∈ SecId.legal ∧
    (contentSections.contains s = true →
      s.level = depthOf p + 1 ∧ depthOf (some s) = depthOf p ∧ p ≠ none ∧
      s ≠ SecId.main ∧ s ≠ SecId.change ∧ s ≠ SecId.file) ∧
    (contentSections.contains s = false →
      depthOf (some s) = s.level ∧
      ((s = SecId.main ∧ p = none) ∨ (s = SecId.change ∧ p ≠ none) ∨
       (s = SecId.file ∧ p ≠ none ∧ 1 ≤ depthOf p))) := by
  decide

theorem trans_facts {p : Option SecId} {s : SecId} (h : s ∈ allowedNext p) :
    depthOf p ≤ 2 ∧ s ∈ SecId.legal ∧
    (contentSections.contains s = true →
      s.level = depthOf p + 1 ∧ depthOf (some s) = depthOf p ∧ p ≠ none ∧
      s ≠ SecId.main ∧ s ≠ SecId.change ∧ s ≠ SecId.file) ∧
    (contentSections.contains s = false →
      depthOf (some s) = s.level ∧
      ((s = SecId.main ∧ p = none) ∨ (s = SecId.change ∧ p ≠ none) ∨
       (s = SecId.file ∧ p ≠ none ∧ 1 ≤ depthOf p))) := by
  obtain ⟨h1, h2⟩ := trans_table p (prev_cases h)
  exact ⟨h1, h2 s h⟩

theorem legal_level : ∀ s ∈ SecId.legal, s.level ≤ 3 := by decide

/-- the three kinds of content section -/
theorem content_kinds : ∀ s ∈ SecId.legal, contentSections.contains s = true →
    (preambleSections.contains s = true ∧ metaSections.contains s = false ∧ s ≠ SecId.fileDiff) ∨
    (preambleSections.contains s = false ∧ metaSections.contains s = true ∧ s ≠ SecId.fileDiff) ∨
    (preambleSections.contains s = false ∧ metaSections.contains s = false ∧ s = SecId.fileDiff) := by
  decide

/-! ## the reader's encoding stack as a function of the context -/

def optStr (e : Option Bytes) : Option OptVal := e.map OptVal.str

/-- an `encoding` option as the header parser reports it -/
def optConv (e : Option Bytes) : Option OptVal := e.map convert

/-- the reader's `encodings` list when the specification's context is `c` -/
def stackOf (c : Ctx) : List (Option OptVal) :=
  match c.prev with
  | none => [none]
  | some _ =>
    match depthOf c.prev with
    | 0 => [none, optConv c.mainEnc]
    | 1 => [none, optConv c.mainEnc, optConv (c.changeEnc <|> c.mainEnc)]
    | _ => [none, optConv c.mainEnc, optConv (c.changeEnc <|> c.mainEnc),
            optConv (c.fileEnc <|> c.changeEnc <|> c.mainEnc)]

theorem own_or (a b : Option Bytes) :
    (match optConv a with | some v => some v | none => optConv b) = optConv (a <|> b) := by
  cases a <;> rfl

/-- a container section: the reader's stack update is the context update -/
theorem stack_container (env : Env) (cfg : Config) (c : Ctx) (s : Sec) (h : s.id ∈ allowedNext c.prev)
    (hc : s.hasContent = false) :
    pushEnc (stackOf c) (depthOf c.prev) s.id (optConv (s.get b!"encoding")) = stackOf (c.next env cfg s) ∧
      depthOf (c.next env cfg s).prev = s.id.level := by
  obtain ⟨hd2, _, _, hcont⟩ := trans_facts h
  obtain ⟨hdep, hcase⟩ := hcont hc
  obtain ⟨prev, m, ch, f, line⟩ := c
  obtain ⟨id, opts, blank, content⟩ := s
  simp only at h hd2 hdep hcase ⊢
  generalize hown : Sec.get ⟨id, opts, blank, content⟩ b!"encoding" = own
  rcases hcase with ⟨rfl, rfl⟩ | ⟨rfl, hp⟩ | ⟨rfl, hp, h1⟩
  · refine ⟨?_, rfl⟩
    simp only [Ctx.next, if_true, hown]
    cases own <;> rfl
  · cases prev with
    | none => exact absurd rfl hp
    | some p =>
      refine ⟨?_, rfl⟩
      have hne : SecId.change ≠ SecId.main := by decide
      simp only [Ctx.next, hne, if_false, if_true, hown]
      unfold stackOf
      simp only
      have hd' : depthOf (some SecId.change) = 1 := rfl
      rw [hd']
      simp only
      rcases hdv : depthOf (some p) with _ | _ | _ | n
      · cases own <;> rfl
      · cases own <;> rfl
      · cases own <;> rfl
      · rw [hdv] at hd2; omega
  · cases prev with
    | none => exact absurd rfl hp
    | some p =>
      refine ⟨?_, rfl⟩
      have hne : SecId.file ≠ SecId.main := by decide
      have hne' : SecId.file ≠ SecId.change := by decide
      simp only [Ctx.next, hne, hne', if_false, if_true, hown]
      unfold stackOf
      simp only
      have hd' : depthOf (some SecId.file) = 2 := rfl
      rw [hd']
      simp only
      rcases hdv : depthOf (some p) with _ | _ | _ | n
      · rw [hdv] at h1; omega
      · cases own <;> cases ch <;> rfl
      · cases own <;> cases ch <;> rfl
      · rw [hdv] at hd2; omega

/-- a content section leaves the stack alone -/
theorem stack_content (env : Env) (cfg : Config) (c : Ctx) (s : Sec) (h : s.id ∈ allowedNext c.prev)
    (hc : s.hasContent = true) :
    stackOf (c.next env cfg s) = stackOf c ∧ depthOf (c.next env cfg s).prev = depthOf c.prev := by
  obtain ⟨_, _, hcont, _⟩ := trans_facts h
  obtain ⟨_, hdep, hp, h1, h2, h3⟩ := hcont hc
  obtain ⟨prev, m, ch, f, line⟩ := c
  cases prev with
  | none => exact absurd rfl hp
  | some p =>
    simp only at hdep
    simp only [Ctx.next, h1, h2, h3, if_false]
    refine ⟨?_, hdep⟩
    unfold stackOf
    simp only [hdep]

/-- the top of the stack is the inherited encoding of a content section allowed here -/
theorem top_inherited (c : Ctx) (id : SecId) (h : id ∈ allowedNext c.prev)
    (hc : contentSections.contains id = true) :
    topEnc (stackOf c) = optConv (inherited c id) := by
  obtain ⟨hd2, _, hcont, _⟩ := trans_facts h
  obtain ⟨hlvl, _, hp, _⟩ := hcont hc
  obtain ⟨prev, m, ch, f, line⟩ := c
  cases prev with
  | none => exact absurd rfl hp
  | some p =>
    simp only at hlvl hd2
    unfold stackOf inherited
    simp only [hlvl]
    rcases hdv : depthOf (some p) with _ | _ | _ | n
    · rfl
    · rfl
    · rfl
    · rw [hdv] at hd2; omega

/-! ## the simulation relation -/

/-- **the specification's context after some sections and the reader's loop state after reading
them** (`crlf`: the file's header newline convention) -/
structure Related (crlf : Bool) (c : Ctx) (l : Loop) : Prop where
  valid : l.valid = allowedNext c.prev
  encs : l.encodings = stackOf c
  level : l.prevLevel = depthOf c.prev
  line : l.st.linenum = c.line
  nl : l.st.fileCrlf = none ∨ l.st.fileCrlf = some crlf

theorem related_start (crlf : Bool) (data : Bytes) : Related crlf Ctx.start (Loop.init data) :=
  ⟨rfl, rfl, rfl, rfl, Or.inl rfl⟩

/-! ## blank lines and the header line -/

theorem blankLines_render (ls : List Bytes) (h : ∀ l ∈ ls, ∀ b ∈ l, isWs b = true ∧ b ≠ 10) :
    BlankLines (renderBlank ls) := by
  refine ⟨ls, rfl, ?_⟩
  intro l hl
  exact ⟨fun b hb => (h l hl b hb).1, fun hm => (h l hl 10 hm).2 rfl⟩

theorem readHeader_skip_blank (chunk : Nat) (hc : 0 < chunk) (valid : List SecId) (blank rest : Bytes)
    (ln : Nat) (f : Option Bool) (hb : BlankLines blank) :
    readHeader chunk valid ⟨blank ++ rest, ln, f⟩ = readHeader chunk valid ⟨rest, ln, f⟩ := by
  rw [readHeader_eq, readHeader_eq]
  simp only
  rw [nextLine_skip_blank chunk hc blank rest _ (rest.length + 1) hb (by omega) (by omega)]

theorem headerNl_beq (crlf : Bool) : (headerNl crlf == [13, 10]) = crlf := by
  cases crlf <;> rfl

/-- blank lines, then a header line in the file's convention: what `readHeader` returns -/
theorem header_step (chunk : Nat) (hc : 0 < chunk) (crlf : Bool) (c : Ctx) (s : Sec) (H : HeaderOk c s)
    (l : Loop) (R : Related crlf c l) (post : Bytes)
    (hrest : l.st.rest = renderBlank s.blank ++ (headerLine s.id s.opts ++ headerNl crlf ++ post)) :
    readHeader chunk l.valid l.st =
      .ok (some (⟨s.id, optsOf s⟩, c.line, ⟨post, c.line + 1, some crlf⟩)) := by
  obtain ⟨⟨rest, ln, f⟩, valid, encs, prev⟩ := l
  have hv := R.valid
  have hln := R.line
  have hnl := R.nl
  simp only at hrest hv hln hnl ⊢
  subst hrest hln
  obtain ⟨_, hleg, _, _⟩ := trans_facts H.allowed
  have hp : parseHeader valid (headerLine s.id s.opts) = .ok ⟨s.id, optsOf s⟩ := by
    have := parseHeader_headerLine valid s.id s.opts ⟨legal_level _ hleg, H.grammar⟩
      (by rw [hv]; exact H.allowed)
    rw [this, reported_eq_map s.opts H.distinct]
    rfl
  rw [readHeader_skip_blank chunk hc valid _ _ _ _ (blankLines_render s.blank H.blankOk)]
  have := readHeader_exact chunk hc valid (headerLine s.id s.opts) (headerNl crlf) post c.line f _
    (by cases crlf <;> simp [headerNl]) (by rw [headerNl_beq]; exact hnl) hp
  rw [headerNl_beq] at this
  exact this

/-! ## `_read_content` on a well-formed content section -/

theorem codecName_eq (e : Option Bytes) :
    (e.map Name.ofBytes).getD (Text.ofAscii b!"ascii") = codecName e := by
  cases e <;> rfl

/-- the specification's encoded newline is what `get_newline_for_type` returns -/
theorem newlineFor_of_enc (env : Env) (cfg : Config) (ln : Nat) (dos : Bool) (e : Option Bytes) (nl : Bytes)
    (h : encNewline env cfg e dos = some nl) :
    newlineFor env cfg ln dos (e.map Name.ofBytes) = .ok nl := by
  unfold newlineFor
  simp only [codecName_eq]
  unfold encNewline at h
  cases he : env.encode (codecName e) (nlText dos) with
  | ok raw =>
    rw [he] at h
    simp only at h
    cases hs : stripBom env cfg raw (some (codecName e)) with
    | ok b =>
      rw [hs] at h
      simp only [val?, Option.some.injEq] at h
      subst h
      simp only [liftEnv, ok_bind, hs]
    | err => rw [hs] at h; cases h
    | missing q => rw [hs] at h; cases h
  | err => rw [he] at h; cases h
  | missing q => rw [he] at h; cases h

/-- the specification's first-line detection is what `guess_line_endings` computes -/
theorem guess_of_enc (env : Env) (cfg : Config) (ln : Nat) (content : Bytes) (e : Option Bytes) (u d : Bytes)
    (hu : encNewline env cfg e false = some u) (hd : encNewline env cfg e true = some d) :
    guessLineEndings env cfg ln content (e.map Name.ofBytes) =
      .ok (detectDos u d content, if detectDos u d content then d else u) := by
  unfold guessLineEndings
  rw [newlineFor_of_enc env cfg ln false e u hu, newlineFor_of_enc env cfg ln true e d hd]
  simp only [ok_bind]
  unfold detectDos
  cases findSub u content with
  | none => rfl
  | some i =>
    simp only
    by_cases hw : endsWith (content.take (i + u.length)) d = true
    · simp only [hw, if_true]; rfl
    · simp only [hw, Bool.false_eq_true, if_false]; rfl

theorem secNewline_some (env : Env) (cfg : Config) (s : Sec) (e : Option Bytes)
    (hne : secNewline env cfg s e ≠ []) : secNewline? env cfg s e = some (secNewline env cfg s e) := by
  unfold secNewline at hne ⊢
  cases h : secNewline? env cfg s e with
  | none => rw [h] at hne; exact absurd rfl hne
  | some nl => rfl

theorem endsWith_nil_left (nl : Bytes) (h : endsWith ([] : Bytes) nl = true) : nl = [] := by
  unfold endsWith at h
  rw [List.isSuffixOf_iff_suffix] at h
  exact List.suffix_nil.mp h

/-- `_read_content` on the content of a well-formed section, up to its last stage: exactly the
declared bytes are taken, the newline is the specification's, the lines are the content lines -/
theorem readContent_eval (env : Env) (cfg : Config) (s : Sec) (e : Option Bytes) (post : Bytes) (ln : Nat)
    (f : Option Bool) (indOpt : Option OptVal) (ind : Nat)
    (hind : (indOpt = none ∧ ind = 0) ∨ indOpt = some (.int (ind : Int))) (kb : Bool)
    (hle : ∀ v ∈ s.get b!"line_endings", v = b!"dos" ∨ v = b!"unix")
    (hne : secNewline env cfg s e ≠ []) (hend : endsWith s.content (secNewline env cfg s e) = true)
    (hmax : s.content.length ≤ maxRead) :
    readContent env cfg ⟨s.content ++ post, ln, f⟩ s.content.length (optStr e) indOpt
        ((s.get b!"line_endings").map convert) kb =
      rcFinal env ln (e.map Name.ofBytes) kb s.content (secNewline env cfg s e)
        (splitLines s.content (secNewline env cfg s e) true) post f ind := by
  have hsome := secNewline_some env cfg s e hne
  generalize secNewline env cfg s e = nl at hne hend hsome ⊢
  have hcne : s.content ≠ [] := by
    intro h0
    rw [h0] at hend
    exact hne (endsWith_nil_left nl hend)
  have hemp : s.content.isEmpty = false := by simpa using hcne
  have hnemp : nl.isEmpty = false := by simpa using hne
  have hnot : ¬ s.content.length > maxRead := by omega
  rw [readContent_eq]
  simp only [List.take_left', List.drop_left', Nat.lt_irrefl, decide_false, Bool.and_false]
  have hst : ∀ le, rcStaged env cfg ln s.content false s.content.length (optStr e) indOpt le kb post f =
      rcChecks env cfg ln kb s.content false s.content.length indOpt le post f (e.map Name.ofBytes) := by
    intro le
    cases e <;> rfl
  rw [hst]
  have hnlr : rcNl env ln (e.map Name.ofBytes) kb s.content indOpt post f nl =
      rcFinal env ln (e.map Name.ofBytes) kb s.content nl (splitLines s.content nl true) post f ind := by
    unfold rcNl
    simp only [hnemp, hend, Bool.false_eq_true, Bool.not_true, if_false, ok_bind, pure, Except.pure]
    rcases hind with ⟨rfl, rfl⟩ | rfl
    · rfl
    · have : ¬ ((ind : Int) < 0) := by omega
      simp only [this, if_false, Int.toNat_natCast]
  unfold rcChecks
  simp only [hnot, hemp, Bool.false_eq_true, if_false]
  unfold secNewline? at hsome
  cases hg : s.get b!"line_endings" with
  | none =>
    rw [hg] at hsome
    simp only at hsome
    cases hu : encNewline env cfg e false with
    | none => rw [hu] at hsome; cases hsome
    | some u =>
      cases hd : encNewline env cfg e true with
      | none => rw [hu, hd] at hsome; cases hsome
      | some d =>
        rw [hu, hd] at hsome
        simp only [Option.some.injEq] at hsome
        simp only [Option.map_none, guess_of_enc env cfg ln s.content e u d hu hd, ok_bind, pure, Except.pure,
          hsome]
        exact hnlr
  | some v =>
    rw [hg] at hsome
    simp only at hsome
    rcases hle v (by rw [hg]; rfl) with rfl | rfl
    · have hcv : convert b!"dos" = .str b!"dos" := by decide
      have hdu : (b!"dos" : Bytes) ≠ b!"unix" := by decide
      have hb : ((b!"dos" : Bytes) == b!"dos") = true := by decide
      rw [hb] at hsome
      simp only [Option.map_some, hcv, hdu, if_false, if_true,
        newlineFor_of_enc env cfg ln true e nl hsome, ok_bind]
      exact hnlr
    · have hcv : convert b!"unix" = .str b!"unix" := by decide
      have hb : ((b!"unix" : Bytes) == b!"dos") = false := by decide
      rw [hb] at hsome
      simp only [Option.map_some, hcv, if_true, newlineFor_of_enc env cfg ln false e nl hsome, ok_bind]
      exact hnlr

/-! ## the last stage of `_read_content` -/

theorem ok_of_isSome {α} (x : EnvR α) (d : α) (h : (val? x).isSome = true) : x = .ok ((val? x).getD d) := by
  cases x with
  | ok a => rfl
  | err => cases h
  | missing q => cases h

/-- decoded text (preamble / metadata with an encoding in effect) -/
theorem rcFinal_text (env : Env) (ln : Nat) (e : Bytes) (content nl post : Bytes) (f : Option Bool) (ind : Nat)
    (hdec : (val? (env.decode (Name.ofBytes e) (unindented ind content nl))).isSome = true)
    (hdecNl : (val? (env.decode (Name.ofBytes e) nl)).isSome = true)
    (hendT : endsWith (decoded env e (unindented ind content nl)) (decoded env e nl) = true) :
    rcFinal env ln (some (Name.ofBytes e)) false content nl (splitLines content nl true) post f ind =
      .ok (.text (decoded env e (unindented ind content nl)),
        ⟨post, ln + (contentLines content nl).length, f⟩) := by
  have h1 := ok_of_isSome _ [] hdec
  have h2 := ok_of_isSome _ [] hdecNl
  unfold rcFinal
  simp only
  have hc : (if ind = 0 then content else (List.map (stripIndent ind) (splitLines content nl true)).flatten) =
      unindented ind content nl := rfl
  rw [hc, h1, h2]
  simp only [liftEnv, ok_bind]
  unfold decoded at hendT
  simp only [hendT, Bool.not_true, Bool.false_eq_true, if_false]
  rfl

/-- bytes (no encoding in effect, or a diff section) -/
theorem rcFinal_bytes (env : Env) (ln : Nat) (enc : Option Name) (kb : Bool) (content nl post : Bytes)
    (f : Option Bool) (ind : Nat) (hk : enc = none ∨ kb = true)
    (hend : endsWith (unindented ind content nl) nl = true) :
    rcFinal env ln enc kb content nl (splitLines content nl true) post f ind =
      .ok (.bytes (unindented ind content nl), ⟨post, ln + (contentLines content nl).length, f⟩) := by
  have hc : (if ind = 0 then content else (List.map (stripIndent ind) (splitLines content nl true)).flatten) =
      unindented ind content nl := rfl
  have key : (do
      if !endsWith (unindented ind content nl) nl then throw (Outcome.parseError ln none)
      pure (Got.bytes (unindented ind content nl),
        (⟨post, ln + (splitLines content nl true).length, f⟩ : St)) : M (Got × St)) =
      .ok (.bytes (unindented ind content nl), ⟨post, ln + (contentLines content nl).length, f⟩) := by
    simp only [hend, Bool.not_true, Bool.false_eq_true, if_false]
    rfl
  unfold rcFinal
  simp only
  rw [hc]
  rcases hk with rfl | rfl
  · exact key
  · cases enc <;> exact key

/-! ## one section -/

theorem next_prev (env : Env) (cfg : Config) (c : Ctx) (s : Sec) : (c.next env cfg s).prev = some s.id := by
  unfold Ctx.next
  simp only
  split
  · rfl
  · split
    · rfl
    · split <;> rfl

theorem next_line (env : Env) (cfg : Config) (c : Ctx) (s : Sec) :
    (c.next env cfg s).line = c.line + linesOf env cfg c s := by
  unfold Ctx.next
  simp only
  split
  · rfl
  · split
    · rfl
    · split <;> rfl

theorem renderSec_append (crlf : Bool) (s : Sec) (post : Bytes) :
    renderSec crlf s ++ post =
      renderBlank s.blank ++ (headerLine s.id s.opts ++ headerNl crlf ++ (s.content ++ post)) := by
  simp [renderSec, List.append_assoc]

theorem get_encoding (s : Sec) : (optsOf s).get b!"encoding" = optConv (s.get b!"encoding") :=
  optsOf_get s _

theorem optConv_str (e : Option Bytes) (h : ∀ v ∈ e, convert v = .str v) : optConv e = optStr e := by
  cases e with
  | none => rfl
  | some v =>
    simp only [optConv, optStr, Option.map_some]
    rw [h v rfl]

/-- the encoding the reader hands to `_read_content` is the specification's effective encoding -/
theorem contentEncoding_eff (c : Ctx) (s : Sec) (l : Loop) (hencs : l.encodings = stackOf c)
    (hal : s.id ∈ allowedNext c.prev) (hcs : s.hasContent = true) :
    contentEncoding s.id (optsOf s) l.encodings = optConv (effEnc c s) := by
  unfold contentEncoding effEnc
  rw [get_encoding s, hencs]
  by_cases hd : s.id = SecId.fileDiff
  · have : s.isDiff = true := by simp [Sec.isDiff, hd]
    rw [if_pos hd, this]
    cases s.get b!"encoding" <;> rfl
  · have : s.isDiff = false := by simp [Sec.isDiff, hd]
    rw [if_neg hd, this]
    cases s.get b!"encoding" with
    | some v => rfl
    | none =>
      simp only [optConv, Option.map_none, Bool.false_eq_true, if_false]
      exact top_inherited c s.id hal hcs

/-- the `indent` the reader hands to `_read_content` is the specification's -/
theorem rcIndent_spec (s : Sec) (h : s.isPreamble = true → ∀ v ∈ s.get b!"indent", isNat (convert v) = true) :
    (rcIndent s.id (optsOf s) = none ∧ indentOf s = 0) ∨
      rcIndent s.id (optsOf s) = some (.int (indentOf s : Int)) := by
  unfold rcIndent indentOf
  by_cases hp : s.isPreamble = true
  · have hp' : preambleSections.contains s.id = true := hp
    rw [hp', hp, if_pos rfl, if_pos rfl, optsOf_get]
    cases hg : s.get b!"indent" with
    | none => left; exact ⟨rfl, rfl⟩
    | some v =>
      right
      have := h hp v (by rw [hg]; rfl)
      simp only [Option.map_some]
      cases hv : convert v with
      | str x => rw [hv] at this; cases this
      | int n =>
        rw [hv] at this
        have hn : 0 ≤ n := by simpa [isNat] using this
        simp only [Int.toNat_of_nonneg hn]
  · have hp' : preambleSections.contains s.id = false := by simpa [Sec.isPreamble] using hp
    have hp2 : s.isPreamble = false := by simpa using hp
    rw [hp', hp2]
    left
    exact ⟨rfl, rfl⟩

/-- **Simulation step.**  From a context and a loop state that are `Related`, one reader iteration on
a well-formed section followed by anything yields the specification's record, consumes exactly the
section, and re-establishes the relation. -/
theorem sim_step (env : Env) (cfg : Config) (chunk : Nat) (hc : 0 < chunk) (crlf : Bool) (c : Ctx) (s : Sec)
    (ok : SecOk env cfg c s) (l : Loop) (R : Related crlf c l) (post : Bytes)
    (hrest : l.st.rest = renderSec crlf s ++ post) :
    ∃ l', stepSection env cfg chunk l = .ok (some (recOf env cfg c s, l')) ∧
      Related crlf (c.next env cfg s) l' ∧ l'.st.rest = post := by
  have hh := header_step chunk hc crlf c s ok.toHeaderOk l R (s.content ++ post)
    (by rw [hrest, renderSec_append])
  have hgenc := get_encoding s
  by_cases hcs : s.hasContent = true
  · -- a content section
    have hcs' : contentSections.contains s.id = true := hcs
    obtain ⟨_, hleg, hcont, _⟩ := trans_facts ok.allowed
    have hl : lengthOf (optsOf s) c.line = .ok s.content.length := by
      have hg : (optsOf s).get b!"length" = some (.int (s.content.length : Int)) := by
        rw [optsOf_get]; exact ok.length hcs
      have := lengthOf_int (optsOf s) c.line _ hg (Int.natCast_nonneg _)
      rw [Int.toNat_natCast] at this
      exact this
    have henc := (contentEncoding_eff c s l R.encs ok.allowed hcs).trans
      (optConv_str _ (ok.effectiveStr hcs))
    have hrc := readContent_eval env cfg s (effEnc c s) post (c.line + 1) (some crlf)
      (rcIndent s.id (optsOf s)) (indentOf s) (rcIndent_spec s ok.indent) (rcKeep s.id) ok.lineEndings
      (ok.nlNonempty hcs) (ok.nlTerminated hcs) ok.lengthMax
    -- the last stage and the record's content, by kind of section
    have hkind : ∃ got, rcFinal env (c.line + 1) ((effEnc c s).map Name.ofBytes) (rcKeep s.id) s.content
          (secNewline env cfg s (effEnc c s)) (splitLines s.content (secNewline env cfg s (effEnc c s)) true)
          post (some crlf) (indentOf s) =
          .ok (got, ⟨post, c.line + 1 + (contentLines s.content (secNewline env cfg s (effEnc c s))).length,
            some crlf⟩) ∧
        fmtCheck s.id (optsOf s) c.line = .ok () ∧
        contentOf env s.id c.line got = .ok (bodyOf env cfg c s) := by
      have hbody : ∀ b : Reader.Content, (if (!s.hasContent) = true then Reader.Content.container else b) = b := by
        intro b; rw [hcs]; rfl
      rcases content_kinds s.id hleg hcs' with ⟨hpre, hmeta, hnd⟩ | ⟨hpre, hmeta, hnd⟩ | ⟨hpre, hmeta, hd⟩
      · -- preamble
        have hdf : s.isDiff = false := by simp [Sec.isDiff, hnd]
        have hk : rcKeep s.id = false := by unfold rcKeep; rw [hpre]; rfl
        have hfmt : fmtCheck s.id (optsOf s) c.line = .ok () := by unfold fmtCheck; rw [hpre]; rfl
        have hpre' : s.isPreamble = true := hpre
        rw [hk]
        cases he : effEnc c s with
        | some e =>
          have hd1 := ok.decodes hcs hdf e (by rw [he]; rfl)
          obtain ⟨hd2, hd3⟩ := ok.decodedTerminated hcs hdf e (by rw [he]; rfl)
          unfold rawText at hd1 hd3
          rw [he] at hd1 hd2 hd3
          refine ⟨_, rcFinal_text env (c.line + 1) e s.content _ post (some crlf) (indentOf s) hd1 hd2 hd3,
            hfmt, ?_⟩
          unfold contentOf bodyOf rawText
          rw [hpre, hbody, hpre', he]
          rfl
        | none =>
          have hr := ok.rawTerminated hcs hdf he
          unfold rawText at hr
          rw [he] at hr
          refine ⟨_, rcFinal_bytes env (c.line + 1) none false s.content _ post (some crlf) (indentOf s)
            (Or.inl rfl) hr, hfmt, ?_⟩
          unfold contentOf bodyOf rawText
          rw [hpre, hbody, hpre', he]
          rfl
      · -- metadata
        have hdf : s.isDiff = false := by simp [Sec.isDiff, hnd]
        have hk : rcKeep s.id = false := by unfold rcKeep; rw [hpre, hmeta]; rfl
        have hmeta' : s.isMeta = true := hmeta
        have hpre' : s.isPreamble = false := hpre
        have hfmt : fmtCheck s.id (optsOf s) c.line = .ok () := by
          unfold fmtCheck
          rw [hpre, hmeta, optsOf_get]
          cases hg : s.get b!"format" with
          | none => rfl
          | some v =>
            have := ok.format hmeta' v (by rw [hg]; rfl)
            subst this
            rfl
        have hj := ok.json hmeta'
        rw [hk]
        cases he : effEnc c s with
        | some e =>
          have hd1 := ok.decodes hcs hdf e (by rw [he]; rfl)
          obtain ⟨hd2, hd3⟩ := ok.decodedTerminated hcs hdf e (by rw [he]; rfl)
          unfold rawText at hd1 hd3
          rw [he] at hd1 hd2 hd3
          refine ⟨_, rcFinal_text env (c.line + 1) e s.content _ post (some crlf) (indentOf s) hd1 hd2 hd3,
            hfmt, ?_⟩
          unfold jsonOf rawText at hj
          rw [he] at hj
          simp only at hj
          unfold contentOf bodyOf jsonOf rawText
          rw [hpre, hmeta, hbody, hpre', hmeta', he]
          simp only [Bool.false_eq_true, if_false, if_true]
          cases hx : env.loadsText (decoded env e (unindented (indentOf s) s.content
              (secNewline env cfg s (some e)))) with
          | ok j =>
            rw [hx] at hj
            simp only [val?, Option.map_some, Option.some.injEq] at hj
            simp only [liftEnv, ok_bind, hj, Bool.not_true, Bool.false_eq_true, if_false, val?, Option.getD_some]
          | err => rw [hx] at hj; cases hj
          | missing q => rw [hx] at hj; cases hj
        | none =>
          have hr := ok.rawTerminated hcs hdf he
          unfold rawText at hr
          rw [he] at hr
          refine ⟨_, rcFinal_bytes env (c.line + 1) none false s.content _ post (some crlf) (indentOf s)
            (Or.inl rfl) hr, hfmt, ?_⟩
          unfold jsonOf rawText at hj
          rw [he] at hj
          simp only at hj
          unfold contentOf bodyOf jsonOf rawText
          rw [hpre, hmeta, hbody, hpre', hmeta', he]
          simp only [Bool.false_eq_true, if_false, if_true]
          cases hx : env.loadsBytes (unindented (indentOf s) s.content (secNewline env cfg s none)) with
          | ok j =>
            rw [hx] at hj
            simp only [val?, Option.map_some, Option.some.injEq] at hj
            simp only [liftEnv, ok_bind, hj, Bool.not_true, Bool.false_eq_true, if_false, val?, Option.getD_some]
          | err => rw [hx] at hj; cases hj
          | missing q => rw [hx] at hj; cases hj
      · -- diff
        have hk : rcKeep s.id = true := by unfold rcKeep; rw [hpre, hmeta]; rfl
        have hfmt : fmtCheck s.id (optsOf s) c.line = .ok () := by unfold fmtCheck; rw [hpre, hmeta]; rfl
        have hpre' : s.isPreamble = false := hpre
        have hmeta' : s.isMeta = false := hmeta
        have hi : indentOf s = 0 := by unfold indentOf; rw [hpre']; rfl
        rw [hk, hi]
        have hu : unindented 0 s.content (secNewline env cfg s (effEnc c s)) = s.content := rfl
        refine ⟨_, rcFinal_bytes env (c.line + 1) _ true s.content _ post (some crlf) 0 (Or.inr rfl)
          (by rw [hu]; exact ok.nlTerminated hcs), hfmt, ?_⟩
        unfold contentOf bodyOf
        rw [hpre, hmeta, hbody, hpre', hmeta', hu]
        rfl
    obtain ⟨got, hfin, hfmt, hco⟩ := hkind
    refine ⟨⟨⟨post, c.line + 1 + (contentLines s.content (secNewline env cfg s (effEnc c s))).length, some crlf⟩,
      validNext s.id, l.encodings, l.prevLevel⟩, ?_, ?_, rfl⟩
    · rw [stepSection_chain, hh]
      simp only [ok_bind, stepHdr, hcs', if_true, hl, hfmt, henc]
      rw [optsOf_get, hrc, hfin]
      simp only [ok_bind, hco]
      rfl
    · obtain ⟨hs1, hs2⟩ := stack_content env cfg c s ok.allowed hcs
      constructor
      · rw [next_prev]; rfl
      · rw [hs1]; exact R.encs
      · rw [hs2]; exact R.level
      · rw [next_line]
        simp only [linesOf, hcs, if_true]
        omega
      · exact Or.inr rfl
  · -- a container section
    have hcs0 : s.hasContent = false := by simpa using hcs
    have hcs' : contentSections.contains s.id = false := hcs0
    rw [ok.noContent hcs0, List.nil_append] at hh
    have hver : verCheck s.id (optsOf s) c.line = .ok () := by
      unfold verCheck
      by_cases hm : s.id = SecId.main
      · rw [if_pos hm, optsOf_get, ok.version hm]
        rfl
      · rw [if_neg hm]
    refine ⟨⟨⟨post, c.line + 1, some crlf⟩, validNext s.id,
      pushEnc l.encodings l.prevLevel s.id ((optsOf s).get b!"encoding"), s.id.level⟩, ?_, ?_, rfl⟩
    · rw [stepSection_chain, hh]
      simp only [ok_bind, stepHdr, hcs', Bool.false_eq_true, if_false, hver]
      unfold recOf bodyOf
      rw [hcs0]
      rfl
    · obtain ⟨hs1, hs2⟩ := stack_container env cfg c s ok.allowed hcs0
      constructor
      · rw [next_prev]; rfl
      · simp only
        rw [hgenc, R.encs, R.level, hs1]
      · exact hs2.symm
      · rw [next_line]
        simp only [linesOf, hcs0, Bool.false_eq_true, if_false]
      · exact Or.inr rfl

/-! ## whole documents -/

theorem render_cons (crlf : Bool) (s : Sec) (ss : List Sec) :
    render crlf (s :: ss) = renderSec crlf s ++ render crlf ss := by
  simp [render]

theorem render_append (crlf : Bool) (a b : List Sec) : render crlf (a ++ b) = render crlf a ++ render crlf b := by
  simp [render]

theorem renderSec_length_pos (crlf : Bool) (s : Sec) : 0 < (renderSec crlf s).length := by
  simp only [renderSec, headerLine, List.length_append, List.length_cons]
  omega

/-- **List induction, with any continuation.**  From related states, the reader loop run on the
rendering of well-formed sections `pre` followed by any bytes `tail` yields the specification's
records for `pre` and then continues on `tail` from a state related to the context after `pre`. -/
theorem sim_prefix (env : Env) (cfg : Config) (chunk : Nat) (hc : 0 < chunk) (crlf : Bool) :
    ∀ (pre : List Sec) (c : Ctx) (l : Loop), Related crlf c l → WFFrom env cfg c pre →
      ∀ tail, l.st.rest = render crlf pre ++ tail → ∀ fuel, l.st.rest.length < fuel →
        ∃ l', Related crlf (ctxAfter env cfg c pre) l' ∧ l'.st.rest = tail ∧
          readLoop env cfg chunk fuel l =
            (readFrom env cfg c pre ++ (readLoop env cfg chunk (tail.length + 1) l').1,
             (readLoop env cfg chunk (tail.length + 1) l').2) := by
  intro pre
  induction pre with
  | nil =>
    intro c l R _ tail hrest fuel hf
    have hrest' : l.st.rest = tail := by simpa [render] using hrest
    refine ⟨l, R, hrest', ?_⟩
    rw [readLoop_fuel_irrelevant env cfg chunk fuel (tail.length + 1) l hf (by rw [hrest']; omega)]
    rfl
  | cons s ss ih =>
    intro c l R wf tail hrest fuel hf
    obtain ⟨ok, wf'⟩ := wf
    rw [render_cons, List.append_assoc] at hrest
    obtain ⟨l1, hs, R1, hl1⟩ := sim_step env cfg chunk hc crlf c s ok l R _ hrest
    cases fuel with
    | zero => omega
    | succ fuel =>
      have hpos := renderSec_length_pos crlf s
      have hf1 : l1.st.rest.length < fuel := by
        rw [hl1]
        rw [hrest, List.length_append] at hf
        omega
      obtain ⟨l', R', hl', hrun⟩ := ih (c.next env cfg s) l1 R1 wf' tail hl1 fuel hf1
      refine ⟨l', R', hl', ?_⟩
      simp only [readLoop, hs, hrun, readFrom, ctxAfter, List.cons_append]

theorem readFrom_length (env : Env) (cfg : Config) (doc : List Sec) (c : Ctx) :
    (readFrom env cfg c doc).length = doc.length := by
  induction doc generalizing c with
  | nil => rfl
  | cons s ss ih => simp only [readFrom, List.length_cons, ih]

/-- at the end of the file, whitespace-only lines are skipped and the loop stops normally -/
theorem stepSection_trailer (env : Env) (cfg : Config) (chunk : Nat) (hc : 0 < chunk) (l : Loop)
    (trailer : List Bytes) (ht : ∀ t ∈ trailer, ∀ b ∈ t, isWs b = true ∧ b ≠ 10)
    (h : l.st.rest = renderBlank trailer) : stepSection env cfg chunk l = .ok none := by
  obtain ⟨⟨rest, ln, f⟩, valid, encs, prev⟩ := l
  simp only at h
  subst h
  have h0 := stepSection_nil env cfg chunk ⟨⟨[], ln, f⟩, valid, encs, prev⟩ rfl
  rw [stepSection_chain] at h0 ⊢
  simp only at h0 ⊢
  have := readHeader_skip_blank chunk hc valid (renderBlank trailer) [] ln f (blankLines_render trailer ht)
  rw [List.append_nil] at this
  rw [this]
  exact h0

/-- **Whole-file theorem.**  The reader run (with any positive block size) on the file of a
well-formed document — in either header newline convention, optionally followed by trailing
whitespace-only lines — yields exactly the specification's reading and ends normally. -/
theorem file_reading (env : Env) (cfg : Config) (chunk : Nat) (hc : 0 < chunk) (crlf : Bool)
    (doc : List Sec) (wf : WFFrom env cfg Ctx.start doc)
    (trailer : List Bytes) (ht : ∀ t ∈ trailer, ∀ b ∈ t, isWs b = true ∧ b ≠ 10) :
    readAll env cfg chunk (render crlf doc ++ renderBlank trailer) = (reading env cfg doc, .done) := by
  unfold readAll
  obtain ⟨l', _, hl', hrun⟩ := sim_prefix env cfg chunk hc crlf doc Ctx.start
    (Loop.init (render crlf doc ++ renderBlank trailer)) (related_start crlf _) wf (renderBlank trailer) rfl
    ((render crlf doc ++ renderBlank trailer).length + 1) (by simp [Loop.init])
  rw [hrun]
  simp only [readLoop, stepSection_trailer env cfg chunk hc l' trailer ht hl', List.append_nil]
  rfl

/-! ## single-defect documents -/

/-- **Rejection.**  Well-formed sections `pre`, then a section whose header is well-formed but at which
the reader's iteration fails with `e`: the records of `pre`, then `e`. -/
theorem reject_after (env : Env) (cfg : Config) (chunk : Nat) (hc : 0 < chunk) (crlf : Bool)
    (pre : List Sec) (bad : Sec) (post : List Sec) (wf : WFFrom env cfg Ctx.start pre) (e : Outcome)
    (hbad : ∀ l, Related crlf (ctxAfter env cfg Ctx.start pre) l →
      l.st.rest = renderSec crlf bad ++ render crlf post → stepSection env cfg chunk l = .error e) :
    readAll env cfg chunk (render crlf (pre ++ bad :: post)) = (readFrom env cfg Ctx.start pre, e) := by
  unfold readAll
  rw [render_append, render_cons]
  obtain ⟨l', R', hl', hrun⟩ := sim_prefix env cfg chunk hc crlf pre Ctx.start
    (Loop.init (render crlf pre ++ (renderSec crlf bad ++ render crlf post))) (related_start crlf _) wf
    (renderSec crlf bad ++ render crlf post) rfl
    ((render crlf pre ++ (renderSec crlf bad ++ render crlf post)).length + 1) (by simp [Loop.init])
  rw [hrun]
  simp only [readLoop, hbad l' R' hl', List.append_nil]

theorem convert_str_inj (v w : Bytes) (h : convert v = .str w) : v = w := by
  unfold convert at h
  split at h
  · cases h
  · cases h; rfl

/-- an unsupported or missing `version` in the main header -/
theorem step_bad_version (env : Env) (cfg : Config) (chunk : Nat) (hc : 0 < chunk) (crlf : Bool) (c : Ctx)
    (bad : Sec) (H : HeaderOk c bad) (hm : bad.id = SecId.main) (hv : bad.get b!"version" ≠ some b!"1.0")
    (l : Loop) (R : Related crlf c l) (post : Bytes) (hrest : l.st.rest = renderSec crlf bad ++ post) :
    stepSection env cfg chunk l = .error (.parseError c.line none) := by
  have hh := header_step chunk hc crlf c bad H l R (bad.content ++ post) (by rw [hrest, renderSec_append])
  refine (step_main env cfg chunk l _ _ _ hh hm).2 ?_
  show (optsOf bad).get b!"version" ≠ _
  rw [optsOf_get]
  intro h
  cases hg : bad.get b!"version" with
  | none => rw [hg] at h; cases h
  | some v =>
    rw [hg] at h hv
    simp only [Option.map_some, Option.some.injEq] at h
    have := convert_str_inj v _ h
    subst this
    exact hv rfl

/-- a content section whose `length` is missing or not a non-negative integer -/
theorem step_bad_length (env : Env) (cfg : Config) (chunk : Nat) (hc : 0 < chunk) (crlf : Bool) (c : Ctx)
    (bad : Sec) (H : HeaderOk c bad) (hcs : bad.hasContent = true)
    (hlen : ∀ n : Nat, (bad.get b!"length").map convert ≠ some (.int n))
    (l : Loop) (R : Related crlf c l) (post : Bytes) (hrest : l.st.rest = renderSec crlf bad ++ post) :
    stepSection env cfg chunk l = .error (.parseError c.line none) := by
  have hh := header_step chunk hc crlf c bad H l R (bad.content ++ post) (by rw [hrest, renderSec_append])
  refine stepSection_bad_length env cfg chunk l _ _ _ hh hcs ?_
  show (optsOf bad).get b!"length" = none ∨ _
  rw [optsOf_get]
  cases hg : (bad.get b!"length").map convert with
  | none => exact Or.inl rfl
  | some v =>
    cases v with
    | str x => exact Or.inr (Or.inl ⟨x, rfl⟩)
    | int n =>
      refine Or.inr (Or.inr ⟨n, rfl, ?_⟩)
      by_cases h0 : n < 0
      · exact h0
      · exfalso
        refine hlen n.toNat ?_
        rw [hg, Int.toNat_of_nonneg (by omega)]

/-! ## `SecOk.rawTerminated` is automatic when the newline does not start with a space -/

theorem takeWhile_append_stop (p : UInt8 → Bool) (x nl : Bytes) (h : ∀ b, nl.head? = some b → p b = false) :
    (x ++ nl).takeWhile p = x.takeWhile p := by
  induction x with
  | nil =>
    cases nl with
    | nil => rfl
    | cons b r => simp [List.takeWhile_cons, h b rfl]
  | cons a r ih =>
    simp only [List.cons_append, List.takeWhile_cons]
    split
    · rw [ih]
    · rfl

theorem dedent_append (n : Nat) (x nl : Bytes) (h : nl.head? ≠ some 32) :
    dedent n (x ++ nl) = dedent n x ++ nl := by
  unfold dedent
  rw [takeWhile_append_stop (· == 32) x nl (by
    intro b hb
    have : b ≠ 32 := by intro e; subst e; exact h hb
    simpa using this)]
  have hk : min n (x.takeWhile (· == 32)).length ≤ x.length :=
    Nat.le_trans (Nat.min_le_right _ _) (List.takeWhile_sublist _).length_le
  rw [List.drop_append_of_le_length hk]

/-- the unindented content still ends with the newline -/
theorem unindented_terminated (n : Nat) (content nl : Bytes) (hne : nl ≠ [])
    (hend : endsWith content nl = true) (h32 : nl.head? ≠ some 32) :
    endsWith (unindented n content nl) nl = true := by
  unfold unindented
  by_cases hn : n = 0
  · rw [if_pos hn]; exact hend
  · rw [if_neg hn]
    have hs : nl <:+ content := by simpa [endsWith, List.isSuffixOf_iff_suffix] using hend
    obtain ⟨ls, x, hx⟩ := splitLines_last_suffix nl content hne hs
    unfold contentLines
    rw [hx]
    simp only [List.map_append, List.map_cons, List.map_nil, List.flatten_append, List.flatten_cons,
      List.flatten_nil, List.append_nil, dedent_append n x nl h32]
    simp only [endsWith, List.isSuffixOf_iff_suffix]
    rw [← List.append_assoc]
    exact List.suffix_append _ _

end Diffx.SpecFile
