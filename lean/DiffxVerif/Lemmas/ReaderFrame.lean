import DiffxVerif.Lemmas.ReaderTotal
import DiffxVerif.Lemmas.Header
/-!
# Framing by `length`, truncation, and independence from unknown options

Core Lean only.  Support for `Properties/C07.lean` and `Properties/C12.lean`.

The two large `do` blocks of the reader model are first cut into stages that are
*definitionally* equal to the original (`readContent_eq`, `stepSection_eq` are
`rfl`): each stage is a copy of a segment of the `do` block, the cut points being
the join points of the elaborated term.  All later reasoning is about the small
stages:

* `readContent_canon`: the result of `_read_content` is a function of the
  declared number of bytes taken from the stream (`rcCanon`); the unread suffix
  and the newline flag are only copied into the new state;
* `stepSection_chain`: one loop iteration as a chain of binds
  `readHeader >>= lengthOf >>= fmtCheck >>= readContent >>= contentOf`;
* C07: `readContent_frame`, `stepSection_bad_length`, the simulation
  `stepSection_cut` (strict reader on a prefix of the data against the lax reader
  on all of it) and `readAll_take_prefix_strict`, `readAll_lax_vs_strict`;
* C12: `parseHeader_insert`, `stepSection_opts_agree`, `readLoop_opts_agree`.
-/
set_option linter.unusedSimpArgs false

namespace Diffx.Reader
open Diffx Diffx.Header

/-! ## `Except` plumbing -/

theorem map_bind' {ε α β γ} (h : β → γ) (x : Except ε α) (f : α → Except ε β) :
    Except.map h (x >>= f) = x >>= fun a => Except.map h (f a) := by cases x <;> rfl

theorem map_map' {ε α β γ} (g : β → γ) (h : α → β) (x : Except ε α) :
    Except.map g (Except.map h x) = Except.map (fun a => g (h a)) x := by cases x <;> rfl

theorem map_id' {ε α} (h : α → α) (x : Except ε α) (hh : ∀ a, h a = a) : Except.map h x = x := by
  cases x with
  | error e => rfl
  | ok a => simp [Except.map, hh]

theorem bind_ok {α β} {x : M α} {f : α → M β} {b : β} (h : x >>= f = .ok b) :
    ∃ a, x = .ok a ∧ f a = .ok b := by
  cases x with
  | error e => cases h
  | ok a => exact ⟨a, rfl, h⟩

theorem ok_bind {α β} (a : α) (f : α → M β) : (Except.ok a : M α) >>= f = f a := rfl

theorem error_bind {α β} (e : Outcome) (f : α → M β) : (Except.error e : M α) >>= f = .error e := rfl

/-! ## `readContent` in stages -/

/-- last stage of `readContent`: indentation, decoding, the result -/
def rcFinal (env : Env) (ln : Nat) (enc : Option Name) (kb : Bool) (content0 newline : Bytes)
    (lines : List Bytes) (r : Bytes) (f : Option Bool) (ind : Nat) : M (Got × St) :=
  let perr : Outcome := .parseError ln none
  let content := if ind = 0 then content0 else (lines.map (stripIndent ind)).flatten
  match enc, kb with
  | some e, false => do
    let t ← liftEnv ln (env.decode e content)
    let nlT ← liftEnv ln (env.decode e newline)
    if !endsWith t nlT then throw perr
    pure (.text t, ⟨r, ln + lines.length, f⟩)
  | _, _ => do
    if !endsWith content newline then throw perr
    pure (.bytes content, ⟨r, ln + lines.length, f⟩)

/-- `readContent` from the point where the newline is known -/
def rcNl (env : Env) (ln : Nat) (enc : Option Name) (kb : Bool) (content : Bytes) (indent : Option OptVal)
    (r : Bytes) (f : Option Bool) (newline : Bytes) : M (Got × St) := do
  let perr : Outcome := .parseError ln none
  if newline.isEmpty then throw .assertion
  if !endsWith content newline then throw perr
  let lines := splitLines content newline true
  let ind : Nat ← match indent with
    | none => pure 0
    | some (.int n) => if n < 0 then throw perr else pure n.toNat
    | some (.str _) => throw perr
  rcFinal env ln enc kb content newline lines r f ind

/-- `readContent` from the point where the encoding is known; `short` is the
outcome of the model's length check -/
def rcChecks (env : Env) (cfg : Config) (ln : Nat) (kb : Bool) (content : Bytes) (short : Bool) (length : Nat)
    (indent lineEndings : Option OptVal) (r : Bytes) (f : Option Bool) (enc : Option Name) : M (Got × St) := do
  let perr : Outcome := .parseError ln none
  if length > maxRead then throw perr
  if content.isEmpty then throw perr
  if short then throw perr
  let leGiven : Option OptVal := match lineEndings with
    | some (.int 0) => none
    | x => x
  let newline : Bytes ← match leGiven with
    | some (.str s) =>
      if s = b!"unix" then newlineFor env cfg ln false enc
      else if s = b!"dos" then newlineFor env cfg ln true enc
      else throw perr
    | some (.int _) => throw perr
    | none => do let (_, nl) ← guessLineEndings env cfg ln content enc; pure nl
  rcNl env ln enc kb content indent r f newline

/-- `readContent` as a function of the bytes taken (`content`), the bytes left
(`r`) and the outcome of the length check (`short`) -/
def rcStaged (env : Env) (cfg : Config) (ln : Nat) (content : Bytes) (short : Bool) (length : Nat)
    (encoding indent lineEndings : Option OptVal) (kb : Bool) (r : Bytes) (f : Option Bool) : M (Got × St) := do
  let perr : Outcome := .parseError ln none
  let enc : Option Name ← match encoding with
    | none => pure none
    | some (.str s) => pure (some (Name.ofBytes s))
    | some (.int _) => throw perr
  rcChecks env cfg ln kb content short length indent lineEndings r f enc

theorem readContent_eq (env : Env) (cfg : Config) (st : St) (n : Nat) (enc ind le : Option OptVal) (kb : Bool) :
    readContent env cfg st n enc ind le kb =
      rcStaged env cfg st.linenum (st.rest.take n) (cfg.strictLength && decide ((st.rest.take n).length < n))
        n enc ind le kb (st.rest.drop n) st.fileCrlf := rfl

/-- overwrite the two fields of the state that `readContent` only copies -/
def setRF (r : Bytes) (f : Option Bool) (p : Got × St) : Got × St := (p.1, ⟨r, p.2.linenum, f⟩)

theorem rcFinal_frame (env : Env) (ln : Nat) (enc : Option Name) (kb : Bool) (content0 newline : Bytes)
    (lines : List Bytes) (r : Bytes) (f : Option Bool) (ind : Nat) :
    rcFinal env ln enc kb content0 newline lines r f ind =
      (rcFinal env ln enc kb content0 newline lines [] none ind).map (setRF r f) := by
  unfold rcFinal
  extract_lets perr content
  split
  · cases liftEnv ln (env.decode _ content) with
    | error e => rfl
    | ok t =>
      cases liftEnv ln (env.decode _ newline) with
      | error e => rfl
      | ok nlT =>
        simp only [ok_bind]
        by_cases h : (!endsWith t nlT) = true <;> simp only [h, if_true, if_false] <;> rfl
  · by_cases h : (!endsWith content newline) = true <;> simp only [h, if_true, if_false] <;> rfl

theorem rcNl_frame (env : Env) (ln : Nat) (enc : Option Name) (kb : Bool) (content : Bytes) (indent : Option OptVal)
    (r : Bytes) (f : Option Bool) (newline : Bytes) :
    rcNl env ln enc kb content indent r f newline =
      (rcNl env ln enc kb content indent [] none newline).map (setRF r f) := by
  unfold rcNl
  by_cases h1 : newline.isEmpty = true
  · simp only [h1, if_true]; rfl
  by_cases h2 : (!endsWith content newline) = true
  · simp only [h1, h2, if_true]; rfl
  simp only [h1, h2, if_false]
  rcases indent with _ | (n | s)
  · exact rcFinal_frame ..
  · by_cases h3 : n < 0
    · simp only [h3, if_true]; rfl
    · simp only [h3, if_false]; exact rcFinal_frame ..
  · rfl

theorem rcChecks_frame (env : Env) (cfg : Config) (ln : Nat) (kb : Bool) (content : Bytes) (short : Bool)
    (length : Nat) (indent le : Option OptVal) (r : Bytes) (f : Option Bool) (enc : Option Name) :
    rcChecks env cfg ln kb content short length indent le r f enc =
      (rcChecks env cfg ln kb content short length indent le [] none enc).map (setRF r f) := by
  unfold rcChecks
  by_cases h1 : length > maxRead
  · simp only [h1, if_true]; rfl
  by_cases h2 : content.isEmpty = true
  · simp only [h1, h2, if_true, if_false]; rfl
  by_cases h3 : short = true
  · simp only [h1, h2, h3, if_true, if_false]; rfl
  simp only [h1, h2, h3, if_false]
  generalize (match le with | some (.int 0) => none | x => x) = leGiven
  rcases leGiven with _ | (n | s)
  · simp only []
    cases guessLineEndings env cfg ln content enc with
    | error e => rfl
    | ok p => exact rcNl_frame ..
  · rfl
  · simp only []
    by_cases hs : s = b!"unix"
    · simp only [hs, if_true]
      cases newlineFor env cfg ln false enc with
      | error e => rfl
      | ok p => exact rcNl_frame ..
    by_cases hs' : s = b!"dos"
    · simp only [hs, hs', if_true, if_false]
      cases newlineFor env cfg ln true enc with
      | error e => rfl
      | ok p => exact rcNl_frame ..
    · simp only [hs, hs', if_false]; rfl

theorem rcStaged_frame (env : Env) (cfg : Config) (ln : Nat) (content : Bytes) (short : Bool) (length : Nat)
    (encoding indent le : Option OptVal) (kb : Bool) (r : Bytes) (f : Option Bool) :
    rcStaged env cfg ln content short length encoding indent le kb r f =
      (rcStaged env cfg ln content short length encoding indent le kb [] none).map (setRF r f) := by
  unfold rcStaged
  rcases encoding with _ | (n | s)
  · exact rcChecks_frame ..
  · rfl
  · exact rcChecks_frame ..

/-- the part of `readContent` that does not depend on the unread suffix: a
function of the bytes taken from the stream -/
def rcCanon (env : Env) (cfg : Config) (ln : Nat) (content : Bytes) (short : Bool) (length : Nat)
    (encoding indent le : Option OptVal) (kb : Bool) : M (Got × St) :=
  rcStaged env cfg ln content short length encoding indent le kb [] none

/-- **canonical form**: `_read_content` computes its result from the declared
number of bytes taken from the stream; the rest of the stream and the newline
flag are copied into the new state -/
theorem readContent_canon (env : Env) (cfg : Config) (st : St) (n : Nat) (enc ind le : Option OptVal) (kb : Bool) :
    readContent env cfg st n enc ind le kb =
      (rcCanon env cfg st.linenum (st.rest.take n) (cfg.strictLength && decide ((st.rest.take n).length < n))
        n enc ind le kb).map (setRF (st.rest.drop n) st.fileCrlf) := by
  rw [readContent_eq, rcStaged_frame]; rfl

/-- the length switch enters only through `short` -/
theorem rcCanon_cfg (env : Env) (cfg : Config) (b : Bool) :
    rcCanon env { cfg with strictLength := b } = rcCanon env cfg := rfl

theorem rcCanon_short (env : Env) (cfg : Config) (ln : Nat) (content : Bytes) (length : Nat)
    (encoding indent le : Option OptVal) (kb : Bool) :
    rcCanon env cfg ln content true length encoding indent le kb = .error (.parseError ln none) := by
  unfold rcCanon rcStaged
  have h : ∀ enc, rcChecks env cfg ln kb content true length indent le [] none enc =
      .error (.parseError ln none) := by
    intro enc
    unfold rcChecks
    by_cases h1 : length > maxRead
    · simp only [h1, if_true]; rfl
    by_cases h2 : content.isEmpty = true
    · simp only [h1, h2, if_true, if_false]; rfl
    simp only [h1, h2, if_true, if_false]; rfl
  rcases encoding with _ | (n | s)
  · exact h _
  · rfl
  · exact h _

/-- **framing** (`Properties/C07.lean`, `C07_frame`) -/
theorem readContent_frame (env : Env) (cfg : Config) (content r₁ r₂ : Bytes) (ln : Nat) (f : Option Bool)
    (enc ind le : Option OptVal) (kb : Bool) :
    (readContent env cfg ⟨content ++ r₁, ln, f⟩ content.length enc ind le kb).map
        (fun p => (p.1, { p.2 with rest := r₂ })) =
    (readContent env cfg ⟨content ++ r₂, ln, f⟩ content.length enc ind le kb) ∧
    ∀ got st', readContent env cfg ⟨content ++ r₁, ln, f⟩ content.length enc ind le kb = .ok (got, st') →
      st'.rest = r₁ := by
  constructor
  · rw [readContent_canon, readContent_canon, map_map']
    simp only [List.take_left', List.drop_left']
    rfl
  · intro got st' h
    obtain ⟨_, _, _, _, _, _, hst⟩ := readContent_ok _ _ _ _ _ _ _ _ _ _ h
    rw [hst]; simp

/-! ## lines and headers when the stream is extended -/

theorem readLineSpec_append (c : UInt8) (a t line r' : Bytes) (h : readLineSpec c a = (line, false, r')) :
    readLineSpec c (a ++ t) = (line, false, r' ++ t) := by
  unfold readLineSpec at h ⊢
  cases hf : findSub [c] a with
  | none => rw [hf] at h; simp at h
  | some i =>
    rw [hf] at h
    simp only [Prod.mk.injEq, true_and] at h
    obtain ⟨rfl, rfl⟩ := h
    have hi := findSub_single_lt c a i hf
    rw [findSub_single_append_some c a t i hf]
    simp only
    rw [List.take_append_of_le_length (by omega), List.drop_append_of_le_length (by omega)]

/-- a line found in a prefix of the stream is the line found in the stream -/
theorem nextLine_append (chunk : Nat) (hc : 0 < chunk) (t : Bytes) (fuel : Nat) (a line r' : Bytes)
    (h : nextLine chunk fuel a = some (line, r')) (fuel' : Nat) (hf : fuel ≤ fuel') :
    nextLine chunk fuel' (a ++ t) = some (line, r' ++ t) := by
  induction fuel generalizing a fuel' with
  | zero => simp [nextLine] at h
  | succ fuel ih =>
    cases fuel' with
    | zero => omega
    | succ fuel' =>
      rw [nextLine, readUntil_eq_spec chunk hc] at h ⊢
      rcases hr : readLineSpec 10 a with ⟨ln, eof, r1⟩
      rw [hr] at h
      cases eof with
      | true => simp at h
      | false =>
        rw [readLineSpec_append 10 a t ln r1 hr]
        simp only [Bool.false_eq_true, if_false] at h ⊢
        by_cases hs : (!(pyStrip ln).isEmpty) = true
        · simp only [hs, if_true, Option.some.injEq, Prod.mk.injEq] at h ⊢
          obtain ⟨rfl, rfl⟩ := h
          exact ⟨rfl, rfl⟩
        · simp only [hs, if_false] at h ⊢
          exact ih r1 h fuel' (by omega)

/-- `readHeader` after the header line has been found: the newline convention,
the parsed header -/
def hdrParse (valid : List SecId) (linenum : Nat) (fileCrlf : Option Bool) (header : Bytes) : M (Hdr × Bool) :=
  let crlf := match fileCrlf with
    | some b => b
    | none => endsWith header [13, 10]
  let nl : Bytes := if crlf then [13, 10] else [10]
  if !endsWith header nl then .error (.parseError linenum none) else
  let h := header.take (header.length - nl.length)
  match parseHeader valid h with
  | .error (.badKey c) => .error (.parseError linenum (some c))
  | .error (.badVal c) => .error (.parseError linenum (some c))
  | .error _ => .error (.parseError linenum none)
  | .ok hdr => .ok (hdr, crlf)

theorem readHeader_eq (chunk : Nat) (valid : List SecId) (st : St) :
    readHeader chunk valid st =
      match nextLine chunk (st.rest.length + 1) st.rest with
      | none => .ok none
      | some (header, rest') =>
        (hdrParse valid st.linenum st.fileCrlf header).map
          (fun p => some (p.1, st.linenum, ⟨rest', st.linenum + 1, some p.2⟩)) := by
  unfold readHeader
  cases hn : nextLine chunk (st.rest.length + 1) st.rest with
  | none => rfl
  | some p =>
    obtain ⟨header, rest'⟩ := p
    obtain ⟨rest, ln, f⟩ := st
    unfold hdrParse
    have aux : ∀ (crlf : Bool) (nl : Bytes),
        (if (!endsWith header nl) = true then Except.error (Outcome.parseError ln none)
          else
            match parseHeader valid (List.take (header.length - nl.length) header) with
            | Except.error (Err.badKey c) => Except.error (Outcome.parseError ln (some c))
            | Except.error (Err.badVal c) => Except.error (Outcome.parseError ln (some c))
            | Except.error _ => Except.error (Outcome.parseError ln none)
            | Except.ok hdr => Except.ok (some (hdr, ln, (⟨rest', ln + 1, some crlf⟩ : St)))) =
        Except.map (fun p : Hdr × Bool => some (p.fst, ln, (⟨rest', ln + 1, some p.snd⟩ : St)))
          (if (!endsWith header nl) = true then Except.error (Outcome.parseError ln none)
          else
            match parseHeader valid (List.take (header.length - nl.length) header) with
            | Except.error (Err.badKey c) => Except.error (Outcome.parseError ln (some c))
            | Except.error (Err.badVal c) => Except.error (Outcome.parseError ln (some c))
            | Except.error _ => Except.error (Outcome.parseError ln none)
            | Except.ok hdr => Except.ok (hdr, crlf)) := by
      intro crlf nl
      by_cases he : (!endsWith header nl) = true
      · simp only [he, if_true]; rfl
      · simp only [he, if_false]
        cases parseHeader valid (List.take (header.length - nl.length) header) with
        | ok hdr => rfl
        | error e => cases e <;> rfl
    cases f with
    | none => exact aux _ _
    | some b => exact aux _ _

/-- reading a header from a prefix of the stream and from the stream -/
theorem readHeader_cut (chunk : Nat) (hc : 0 < chunk) (valid : List SecId) (a t : Bytes) (ln : Nat)
    (f : Option Bool) (hdr : Hdr) (ln' : Nat) (st' : St)
    (h : readHeader chunk valid ⟨a, ln, f⟩ = .ok (some (hdr, ln', st'))) :
    readHeader chunk valid ⟨a ++ t, ln, f⟩ = .ok (some (hdr, ln', { st' with rest := st'.rest ++ t })) := by
  rw [readHeader_eq] at h ⊢
  simp only at h ⊢
  cases hn : nextLine chunk (a.length + 1) a with
  | none => rw [hn] at h; cases h
  | some p =>
    obtain ⟨header, rest'⟩ := p
    rw [hn] at h
    rw [nextLine_append chunk hc t _ a header rest' hn _ (by simp)]
    simp only at h ⊢
    cases hp : hdrParse valid ln f header with
    | error e => rw [hp] at h; cases h
    | ok q =>
      rw [hp] at h
      simp only [Except.map, Except.ok.injEq, Option.some.injEq, Prod.mk.injEq] at h ⊢
      obtain ⟨rfl, rfl, rfl⟩ := h
      exact ⟨rfl, rfl, rfl⟩

/-! ## `stepSection` in stages -/

/-- the container branch of `stepSection` -/
def secContainer (l : Loop) (hdr : Hdr) (linenum : Nat) (st : St) : M (Option (Record × Loop)) := do
  let sec := hdr.sec
  let opts := hdr.opts
  let perr : Outcome := .parseError linenum none
  let next := validNext sec
  if sec = SecId.main then
    match opts.get b!"version" with
    | some (.str v) => if supportedVersions.contains v then pure () else throw perr
    | _ => throw perr
  pure (some (⟨sec, linenum, opts, .container⟩,
              { st := st, valid := next,
                encodings := pushEnc l.encodings l.prevLevel sec (opts.get b!"encoding"),
                prevLevel := sec.level }))

/-- the content branch of `stepSection` once `length` is known -/
def secAfterLen (env : Env) (cfg : Config) (l : Loop) (hdr : Hdr) (linenum : Nat) (st : St) (length : Nat) :
    M (Option (Record × Loop)) := do
  let sec := hdr.sec
  let opts := hdr.opts
  let perr : Outcome := .parseError linenum none
  let next := validNext sec
  let encoding : Option OptVal := contentEncoding sec opts l.encodings
  if preambleSections.contains sec then
    let (got, st') ← readContent env cfg st length encoding (opts.get b!"indent")
                        (opts.get b!"line_endings") false
    let c : Content := match got with | .text t => .text t | .bytes b => .textBytes b
    pure (some (⟨sec, linenum, opts, c⟩, { l with st := st', valid := next }))
  else if metaSections.contains sec then
    match opts.get b!"format" with
    | some v => if v != .str b!"json" then throw perr
    | none => pure ()
    let (got, st') ← readContent env cfg st length encoding none (opts.get b!"line_endings") false
    let j ← match got with
      | .text t => liftEnv linenum (env.loadsText t)
      | .bytes b => liftEnv linenum (env.loadsBytes b)
    if !j.isObj then throw perr
    pure (some (⟨sec, linenum, opts, .metadata j⟩, { l with st := st', valid := next }))
  else
    let (got, st') ← readContent env cfg st length encoding none
                        (opts.get b!"line_endings") true
    let c : Content := match got with | .text _ => .diff [] | .bytes b => .diff b
    pure (some (⟨sec, linenum, opts, c⟩, { l with st := st', valid := next }))

/-- `stepSection` after `readHeader` -/
def stepBody (env : Env) (cfg : Config) (l : Loop) : Option (Hdr × Nat × St) → M (Option (Record × Loop))
  | none => pure none
  | some (hdr, linenum, st) =>
    if contentSections.contains hdr.sec then do
      let perr : Outcome := .parseError linenum none
      let length : Nat ← match hdr.opts.get b!"length" with
        | none => throw perr
        | some (.str _) => throw perr
        | some (.int n) => if n < 0 then throw perr else pure n.toNat
      secAfterLen env cfg l hdr linenum st length
    else secContainer l hdr linenum st

theorem stepSection_eq (env : Env) (cfg : Config) (chunk : Nat) (l : Loop) :
    stepSection env cfg chunk l = readHeader chunk l.valid l.st >>= stepBody env cfg l := rfl

/-! ### the stages as a chain of binds -/

/-- the `length` option as a non-negative integer -/
def lengthOf (opts : Opts) (ln : Nat) : M Nat :=
  match opts.get b!"length" with
  | none => .error (.parseError ln none)
  | some (.str _) => .error (.parseError ln none)
  | some (.int n) => if n < 0 then .error (.parseError ln none) else .ok n.toNat

/-- `options.get('format', 'json') != 'json'` (metadata sections only) -/
def fmtCheck (sec : SecId) (opts : Opts) (ln : Nat) : M Unit :=
  if !preambleSections.contains sec && metaSections.contains sec then
    match opts.get b!"format" with
    | some v => if v != .str b!"json" then .error (.parseError ln none) else .ok ()
    | none => .ok ()
  else .ok ()

/-- the `version` check of the main header -/
def verCheck (sec : SecId) (opts : Opts) (ln : Nat) : M Unit :=
  if sec = SecId.main then
    match opts.get b!"version" with
    | some (.str v) => if supportedVersions.contains v then .ok () else .error (.parseError ln none)
    | _ => .error (.parseError ln none)
  else .ok ()

def rcIndent (sec : SecId) (opts : Opts) : Option OptVal :=
  if preambleSections.contains sec then opts.get b!"indent" else none

def rcKeep (sec : SecId) : Bool := !preambleSections.contains sec && !metaSections.contains sec

/-- what the record of a content section contains, from what `readContent` returned -/
def contentOf (env : Env) (sec : SecId) (ln : Nat) (got : Got) : M Content :=
  if preambleSections.contains sec then
    .ok (match got with | .text t => .text t | .bytes b => .textBytes b)
  else if metaSections.contains sec then
    (match got with
      | .text t => liftEnv ln (env.loadsText t)
      | .bytes b => liftEnv ln (env.loadsBytes b)) >>= fun j =>
    if !j.isObj then .error (.parseError ln none) else .ok (.metadata j)
  else .ok (match got with | .text _ => .diff [] | .bytes b => .diff b)

/-- one loop iteration after the header: a function of the header, the state
after it and the two loop variables -/
def stepHdr (env : Env) (cfg : Config) (encs : List (Option OptVal)) (prev : Nat) (hdr : Hdr) (ln : Nat) (st : St) :
    M (Option (Record × Loop)) :=
  if contentSections.contains hdr.sec then
    lengthOf hdr.opts ln >>= fun n =>
    fmtCheck hdr.sec hdr.opts ln >>= fun _ =>
    readContent env cfg st n (contentEncoding hdr.sec hdr.opts encs) (rcIndent hdr.sec hdr.opts)
      (hdr.opts.get b!"line_endings") (rcKeep hdr.sec) >>= fun p =>
    contentOf env hdr.sec ln p.1 >>= fun c =>
    .ok (some (⟨hdr.sec, ln, hdr.opts, c⟩, ⟨p.2, validNext hdr.sec, encs, prev⟩))
  else
    verCheck hdr.sec hdr.opts ln >>= fun _ =>
    .ok (some (⟨hdr.sec, ln, hdr.opts, .container⟩,
      ⟨st, validNext hdr.sec, pushEnc encs prev hdr.sec (hdr.opts.get b!"encoding"), hdr.sec.level⟩))

theorem secContainer_eq (l : Loop) (hdr : Hdr) (ln : Nat) (st : St) :
    secContainer l hdr ln st =
      verCheck hdr.sec hdr.opts ln >>= fun _ =>
      .ok (some (⟨hdr.sec, ln, hdr.opts, .container⟩,
        ⟨st, validNext hdr.sec, pushEnc l.encodings l.prevLevel hdr.sec (hdr.opts.get b!"encoding"),
          hdr.sec.level⟩)) := by
  unfold secContainer verCheck
  by_cases hm : hdr.sec = SecId.main
  · simp only [hm, if_true]
    rcases hdr.opts.get b!"version" with _ | (n | v)
    · rfl
    · rfl
    · simp only []
      by_cases hv : supportedVersions.contains v = true <;> simp only [hv, if_true, if_false] <;> rfl
  · simp only [hm, if_false]; rfl

theorem secAfterLen_eq (env : Env) (cfg : Config) (l : Loop) (hdr : Hdr) (ln : Nat) (st : St) (n : Nat) :
    secAfterLen env cfg l hdr ln st n =
      fmtCheck hdr.sec hdr.opts ln >>= fun _ =>
      readContent env cfg st n (contentEncoding hdr.sec hdr.opts l.encodings) (rcIndent hdr.sec hdr.opts)
        (hdr.opts.get b!"line_endings") (rcKeep hdr.sec) >>= fun p =>
      contentOf env hdr.sec ln p.1 >>= fun c =>
      .ok (some (⟨hdr.sec, ln, hdr.opts, c⟩, ⟨p.2, validNext hdr.sec, l.encodings, l.prevLevel⟩)) := by
  unfold secAfterLen fmtCheck rcIndent rcKeep contentOf
  by_cases hp : preambleSections.contains hdr.sec = true
  · simp only [hp, if_true, Bool.not_true, Bool.false_and, Bool.false_eq_true, if_false, ok_bind]
    cases readContent env cfg st n (contentEncoding hdr.sec hdr.opts l.encodings)
        (hdr.opts.get b!"indent") (hdr.opts.get b!"line_endings") false with
    | error e => rfl
    | ok p => rfl
  · by_cases hm : metaSections.contains hdr.sec = true
    · simp only [hp, hm, if_true, if_false, Bool.not_false, Bool.true_and, Bool.not_true]
      have key : ∀ u : Unit,
          (do
            let (got, st') ← readContent env cfg st n (contentEncoding hdr.sec hdr.opts l.encodings) none
              (hdr.opts.get b!"line_endings") false
            let j ← match got with
              | .text t => liftEnv ln (env.loadsText t)
              | .bytes b => liftEnv ln (env.loadsBytes b)
            if !j.isObj then throw (Outcome.parseError ln none)
            pure (some ((⟨hdr.sec, ln, hdr.opts, .metadata j⟩ : Record),
              ({ l with st := st', valid := validNext hdr.sec } : Loop)))) =
          (readContent env cfg st n (contentEncoding hdr.sec hdr.opts l.encodings) none
              (hdr.opts.get b!"line_endings") false >>= fun p =>
            ((match p.1 with
              | .text t => liftEnv ln (env.loadsText t)
              | .bytes b => liftEnv ln (env.loadsBytes b)) >>= fun j =>
              if (!j.isObj) = true then Except.error (Outcome.parseError ln none)
              else Except.ok (Content.metadata j)) >>= fun c =>
            Except.ok (some ((⟨hdr.sec, ln, hdr.opts, c⟩ : Record),
              (⟨p.2, validNext hdr.sec, l.encodings, l.prevLevel⟩ : Loop)))) := by
        intro _
        cases readContent env cfg st n (contentEncoding hdr.sec hdr.opts l.encodings) none
            (hdr.opts.get b!"line_endings") false with
        | error e => rfl
        | ok p =>
          obtain ⟨got, st'⟩ := p
          simp only [ok_bind]
          cases got with
          | text t =>
            simp only []
            cases liftEnv ln (env.loadsText t) with
            | error e => rfl
            | ok j => by_cases hj : (!j.isObj) = true <;> simp only [ok_bind, hj, if_true, if_false] <;> rfl
          | bytes b =>
            simp only []
            cases liftEnv ln (env.loadsBytes b) with
            | error e => rfl
            | ok j => by_cases hj : (!j.isObj) = true <;> simp only [ok_bind, hj, if_true, if_false] <;> rfl
      rcases hdr.opts.get b!"format" with _ | v
      · exact key ()
      · simp only []
        by_cases hv : (v != OptVal.str b!"json") = true
        · simp only [hv, if_true]; rfl
        · simp only [hv, if_false]; exact key ()
    · simp only [hp, hm, if_false, Bool.not_false, Bool.true_and, Bool.false_eq_true, ok_bind, Bool.and_self]
      cases readContent env cfg st n (contentEncoding hdr.sec hdr.opts l.encodings)
          none (hdr.opts.get b!"line_endings") true with
      | error e => rfl
      | ok p => rfl

/-- **one iteration as a chain of binds** -/
theorem stepSection_chain (env : Env) (cfg : Config) (chunk : Nat) (l : Loop) :
    stepSection env cfg chunk l =
      readHeader chunk l.valid l.st >>= fun x =>
        match x with
        | none => .ok none
        | some (hdr, ln, st) => stepHdr env cfg l.encodings l.prevLevel hdr ln st := by
  rw [stepSection_eq]
  congr 1
  funext x
  cases x with
  | none => rfl
  | some p =>
    obtain ⟨hdr, ln, st⟩ := p
    simp only [stepBody, stepHdr]
    by_cases hc : contentSections.contains hdr.sec = true
    · simp only [hc, if_true, lengthOf]
      rcases hdr.opts.get b!"length" with _ | (n | s)
      · rfl
      · simp only []
        by_cases hn : n < 0
        · simp only [hn, if_true]; rfl
        · simp only [hn, if_false]; exact secAfterLen_eq ..
      · rfl
    · simp only [hc, if_false]; exact secContainer_eq ..

/-! ## C07: invalid length -/

theorem stepSection_bad_length (env : Env) (cfg : Config) (chunk : Nat) (l : Loop) (hdr : Hdr) (ln : Nat) (st : St)
    (hh : readHeader chunk l.valid l.st = .ok (some (hdr, ln, st)))
    (hc : contentSections.contains hdr.sec = true)
    (hb : hdr.opts.get b!"length" = none ∨ (∃ s, hdr.opts.get b!"length" = some (.str s)) ∨
          (∃ n : Int, hdr.opts.get b!"length" = some (.int n) ∧ n < 0)) :
    stepSection env cfg chunk l = .error (.parseError ln none) := by
  have hl : lengthOf hdr.opts ln = .error (.parseError ln none) := by
    unfold lengthOf
    rcases hb with h | ⟨s, h⟩ | ⟨n, h, hn⟩
    · rw [h]
    · rw [h]
    · rw [h]; simp only [hn, if_true]
  rw [stepSection_chain, hh]
  simp only [ok_bind, stepHdr, hc, if_true, hl]
  rfl

/-! ## C07: the reader with the length check on a truncated stream -/

/-- the loop state with `t` appended to the unread suffix -/
def Loop.ext (l : Loop) (t : Bytes) : Loop := { l with st := { l.st with rest := l.st.rest ++ t } }

theorem readContent_cut (env : Env) (cfg : Config) (a t : Bytes) (k : Nat) (f : Option Bool) (n : Nat)
    (enc ind le : Option OptVal) (kb : Bool) (got : Got) (st' : St)
    (h : readContent env { cfg with strictLength := true } ⟨a, k, f⟩ n enc ind le kb = .ok (got, st')) :
    readContent env { cfg with strictLength := false } ⟨a ++ t, k, f⟩ n enc ind le kb =
      .ok (got, { st' with rest := st'.rest ++ t }) := by
  rw [readContent_canon, rcCanon_cfg] at h ⊢
  simp only [Bool.true_and, Bool.false_and] at h ⊢
  by_cases hs : (a.take n).length < n
  · rw [decide_eq_true hs, rcCanon_short] at h
    cases h
  · have hn : n ≤ a.length := by
      simp only [List.length_take] at hs; omega
    rw [decide_eq_false hs] at h
    rw [List.take_append_of_le_length hn, List.drop_append_of_le_length hn]
    cases hx : rcCanon env cfg k (a.take n) false n enc ind le kb with
    | error e => rw [hx] at h; cases h
    | ok p =>
      rw [hx] at h
      simp only [Except.map, setRF, Except.ok.injEq, Prod.mk.injEq] at h ⊢
      obtain ⟨rfl, rfl⟩ := h
      exact ⟨rfl, rfl⟩

theorem stepHdr_cut (env : Env) (cfg : Config) (encs : List (Option OptVal)) (prev : Nat) (hdr : Hdr) (ln : Nat)
    (a t : Bytes) (k : Nat) (f : Option Bool) (r : Record) (l' : Loop)
    (h : stepHdr env { cfg with strictLength := true } encs prev hdr ln ⟨a, k, f⟩ = .ok (some (r, l'))) :
    stepHdr env { cfg with strictLength := false } encs prev hdr ln ⟨a ++ t, k, f⟩ = .ok (some (r, l'.ext t)) := by
  unfold stepHdr at h ⊢
  by_cases hc : contentSections.contains hdr.sec = true
  · simp only [hc, if_true] at h ⊢
    obtain ⟨n, h1, h⟩ := bind_ok h
    obtain ⟨u, h2, h⟩ := bind_ok h
    obtain ⟨p, h3, h⟩ := bind_ok h
    obtain ⟨c, h4, h⟩ := bind_ok h
    obtain ⟨got, st'⟩ := p
    rw [h1, ok_bind, h2, ok_bind, readContent_cut env cfg a t k f n _ _ _ _ got st' h3, ok_bind]
    simp only [] at h4 ⊢
    rw [h4, ok_bind]
    cases h
    rfl
  · rw [if_neg hc] at h ⊢
    obtain ⟨u, h1, h⟩ := bind_ok h
    rw [h1, ok_bind]
    cases h
    rfl

/-- **simulation**: a section yielded by the reader with the length check from a
prefix of the stream is yielded by the reader as it is from the whole stream -/
theorem stepSection_cut (env : Env) (cfg : Config) (chunk : Nat) (hc : 0 < chunk) (l : Loop) (t : Bytes)
    (r : Record) (l' : Loop)
    (h : stepSection env { cfg with strictLength := true } chunk l = .ok (some (r, l'))) :
    stepSection env { cfg with strictLength := false } chunk (l.ext t) = .ok (some (r, l'.ext t)) := by
  rw [stepSection_chain] at h ⊢
  obtain ⟨x, h1, h⟩ := bind_ok h
  obtain ⟨⟨a, k, f⟩, valid, encs, prev⟩ := l
  cases x with
  | none => cases h
  | some q =>
    obtain ⟨hdr, ln, st⟩ := q
    have h1' := readHeader_cut chunk hc valid a t k f hdr ln st h1
    simp only [Loop.ext] at h1' h ⊢
    rw [h1', ok_bind]
    obtain ⟨a', k', f'⟩ := st
    exact stepHdr_cut env cfg encs prev hdr ln a' t k' f' r l' h

theorem readLoop_cut (env : Env) (cfg : Config) (chunk : Nat) (hc : 0 < chunk) (t : Bytes) (f₁ : Nat) (l : Loop)
    (f₂ : Nat) (hf : (l.st.rest ++ t).length < f₂) :
    (readLoop env { cfg with strictLength := true } chunk f₁ l).1 <+:
      (readLoop env { cfg with strictLength := false } chunk f₂ (l.ext t)).1 := by
  induction f₁ generalizing l f₂ with
  | zero => simp [readLoop]
  | succ f₁ ih =>
    simp only [readLoop]
    cases hs : stepSection env { cfg with strictLength := true } chunk l with
    | error o => simp
    | ok x =>
      cases x with
      | none => simp
      | some p =>
        obtain ⟨r, l'⟩ := p
        cases f₂ with
        | zero => omega
        | succ f₂ =>
          have hp := stepSection_progress _ _ _ _ _ _ hs
          simp only [readLoop, stepSection_cut env cfg chunk hc l t r l' hs]
          rw [List.cons_prefix_cons]
          refine ⟨rfl, ih l' f₂ ?_⟩
          simp only [List.length_append] at hf ⊢
          omega

/-- **truncation** (`Properties/C07.lean`, `C07_prefix_strict`) -/
theorem readAll_take_prefix_strict (env : Env) (cfg : Config) (chunk : Nat) (hc : 0 < chunk) (data : Bytes) (k : Nat) :
    (readAll env { cfg with strictLength := true } chunk (data.take k)).1 <+:
      (readAll env { cfg with strictLength := false } chunk data).1 := by
  have h := readLoop_cut env cfg chunk hc (data.drop k) ((data.take k).length + 1) (Loop.init (data.take k))
    (data.length + 1) (by simp [Loop.init])
  have he : (Loop.init (data.take k)).ext (data.drop k) = Loop.init data := by
    simp [Loop.init, Loop.ext]
  rw [he] at h
  exact h

/-! ## C07: the reader as it is against the reader with the length check, same stream -/

theorem readContent_dich (env : Env) (cfg : Config) (st : St) (n : Nat) (enc ind le : Option OptVal) (kb : Bool) :
    readContent env { cfg with strictLength := true } st n enc ind le kb =
      readContent env { cfg with strictLength := false } st n enc ind le kb ∨
    ((∃ e, readContent env { cfg with strictLength := true } st n enc ind le kb = .error e) ∧
      ∀ got st', readContent env { cfg with strictLength := false } st n enc ind le kb = .ok (got, st') →
        st'.rest = []) := by
  by_cases hs : (st.rest.take n).length < n
  · right
    constructor
    · rw [readContent_canon, rcCanon_cfg]
      simp only [Bool.true_and, decide_eq_true hs, rcCanon_short]
      exact ⟨_, rfl⟩
    · intro got st' h
      obtain ⟨_, _, _, _, _, _, hst⟩ := readContent_ok _ _ _ _ _ _ _ _ _ _ h
      rw [hst]
      simp only [List.length_take] at hs
      simp only [List.drop_eq_nil_iff]
      omega
  · left
    rw [readContent_canon, readContent_canon, rcCanon_cfg env cfg true, rcCanon_cfg env cfg false]
    simp only [Bool.true_and, Bool.false_and, decide_eq_false hs]

theorem stepHdr_dich (env : Env) (cfg : Config) (encs : List (Option OptVal)) (prev : Nat) (hdr : Hdr) (ln : Nat)
    (st : St) :
    stepHdr env { cfg with strictLength := true } encs prev hdr ln st =
      stepHdr env { cfg with strictLength := false } encs prev hdr ln st ∨
    ((∃ e, stepHdr env { cfg with strictLength := true } encs prev hdr ln st = .error e) ∧
      ∀ x, stepHdr env { cfg with strictLength := false } encs prev hdr ln st = .ok x →
        ∃ r l', x = some (r, l') ∧ l'.st.rest = []) := by
  unfold stepHdr
  by_cases hc : contentSections.contains hdr.sec = true
  · simp only [hc, if_true]
    cases lengthOf hdr.opts ln with
    | error e => left; rfl
    | ok n =>
      cases fmtCheck hdr.sec hdr.opts ln with
      | error e => left; rfl
      | ok u =>
        simp only [ok_bind]
        rcases readContent_dich env cfg st n (contentEncoding hdr.sec hdr.opts encs) (rcIndent hdr.sec hdr.opts)
          (hdr.opts.get b!"line_endings") (rcKeep hdr.sec) with h | ⟨⟨e, he⟩, h⟩
        · left; rw [h]
        · right
          constructor
          · rw [he]; exact ⟨e, rfl⟩
          · intro x hx
            obtain ⟨p, h3, hx⟩ := bind_ok hx
            obtain ⟨c, h4, hx⟩ := bind_ok hx
            obtain ⟨got, st'⟩ := p
            simp only [Except.ok.injEq] at hx
            exact ⟨_, _, hx.symm, h got st' h3⟩
  · left
    rw [if_neg hc, if_neg hc]

theorem stepSection_dich (env : Env) (cfg : Config) (chunk : Nat) (l : Loop) :
    stepSection env { cfg with strictLength := true } chunk l =
      stepSection env { cfg with strictLength := false } chunk l ∨
    ((∃ e, stepSection env { cfg with strictLength := true } chunk l = .error e) ∧
      ∀ x, stepSection env { cfg with strictLength := false } chunk l = .ok x →
        ∃ r l', x = some (r, l') ∧ l'.st.rest = []) := by
  rw [stepSection_chain, stepSection_chain]
  cases readHeader chunk l.valid l.st with
  | error e => left; rfl
  | ok x =>
    cases x with
    | none => left; rfl
    | some q =>
      obtain ⟨hdr, ln, st⟩ := q
      exact stepHdr_dich env cfg l.encodings l.prevLevel hdr ln st

/-- at the end of the stream the loop stops normally -/
theorem stepSection_nil (env : Env) (cfg : Config) (chunk : Nat) (l : Loop) (h : l.st.rest = []) :
    stepSection env cfg chunk l = .ok none := by
  rw [stepSection_chain, readHeader_eq, h]
  have : nextLine chunk ([] : Bytes).length.succ [] = none := by
    simp [nextLine, readUntil, readUntilGo]
  simp only [Nat.succ_eq_add_one] at this
  rw [this]
  rfl

theorem readLoop_lax_vs_strict (env : Env) (cfg : Config) (chunk : Nat) (fuel : Nat) (l : Loop) :
    (readLoop env { cfg with strictLength := false } chunk fuel l).1 =
      (readLoop env { cfg with strictLength := true } chunk fuel l).1 ∨
    ∃ r, (readLoop env { cfg with strictLength := false } chunk fuel l).1 =
      (readLoop env { cfg with strictLength := true } chunk fuel l).1 ++ [r] := by
  induction fuel generalizing l with
  | zero => left; rfl
  | succ fuel ih =>
    simp only [readLoop]
    rcases stepSection_dich env cfg chunk l with h | ⟨⟨e, he⟩, h⟩
    · rw [h]
      cases stepSection env { cfg with strictLength := false } chunk l with
      | error o => left; rfl
      | ok x =>
        cases x with
        | none => left; rfl
        | some p =>
          obtain ⟨r, l'⟩ := p
          rcases ih l' with h' | ⟨r', h'⟩
          · left; simp only [h']
          · right; exact ⟨r', by simp only [h', List.cons_append]⟩
    · rw [he]
      cases hx : stepSection env { cfg with strictLength := false } chunk l with
      | error o => left; rfl
      | ok x =>
        obtain ⟨r, l', rfl, hnil⟩ := h x hx
        right
        refine ⟨r, ?_⟩
        cases fuel with
        | zero => rfl
        | succ fuel => simp only [readLoop, stepSection_nil env _ chunk l' hnil, List.nil_append]

/-- **the code as it is** (`Properties/C07.lean`, `C07_prefix_partial`) -/
theorem readAll_lax_vs_strict (env : Env) (cfg : Config) (chunk : Nat) (data : Bytes) :
    let laxRun := (readAll env { cfg with strictLength := false } chunk data).1
    let strictRun := (readAll env { cfg with strictLength := true } chunk data).1
    laxRun = strictRun ∨ ∃ r, laxRun = strictRun ++ [r] :=
  readLoop_lax_vs_strict env cfg chunk _ _

/-! ## C12: an inserted option at header level -/

theorem foldl_get_congr (ps : List (Bytes × Bytes)) (acc₁ acc₂ : Opts) (k' : Bytes)
    (h : acc₁.get k' = acc₂.get k') :
    (ps.foldl (fun o p => o.set p.1 (convert p.2)) acc₁).get k' =
      (ps.foldl (fun o p => o.set p.1 (convert p.2)) acc₂).get k' := by
  induction ps generalizing acc₁ acc₂ with
  | nil => exact h
  | cons p ps ih =>
    simp only [List.foldl_cons]
    apply ih
    by_cases hk : k' = p.1
    · rw [hk, get_set_self, get_set_self]
    · rw [get_set_ne _ _ _ _ hk, get_set_ne _ _ _ _ hk, h]

/-- **header level** (`Properties/C12.lean`, `C12_header`) -/
theorem parseHeader_insert (valid : List SecId) (sec : SecId) (pairs pairs' : List (Bytes × Bytes)) (i : Nat)
    (k v : Bytes) (hi : i ≤ pairs.length ∧ pairs' = pairs.take i ++ (k, v) :: pairs.drop i)
    (hg : Spec.GrammarOk sec pairs) (hv : sec ∈ valid)
    (hk : keyOk k = true) (hvv : valOk v = true) (hf : k ∉ pairs.map (·.1)) :
    ∃ opts', parseHeader valid (Spec.headerLine sec pairs') = .ok ⟨sec, opts'⟩ ∧
      opts'.get k = some (convert v) ∧
      ∀ k', k' ≠ k → opts'.get k' = (Spec.reported pairs).get k' := by
  obtain ⟨_, rfl⟩ := hi
  have hg' : Spec.GrammarOk sec (pairs.take i ++ (k, v) :: pairs.drop i) := by
    refine ⟨hg.1, ?_⟩
    intro p hp
    rcases List.mem_append.mp hp with hp | hp
    · exact hg.2 p (List.mem_of_mem_take hp)
    · rcases List.mem_cons.mp hp with rfl | hp
      · exact ⟨hk, hvv⟩
      · exact hg.2 p (List.mem_of_mem_drop hp)
  have hfd : k ∉ (pairs.drop i).map (·.1) := by
    intro hm
    obtain ⟨p, hp, rfl⟩ := List.mem_map.mp hm
    exact hf (List.mem_map.mpr ⟨p, List.mem_of_mem_drop hp, rfl⟩)
  refine ⟨_, parseHeader_headerLine valid sec _ hg' hv, ?_, ?_⟩
  · unfold Spec.reported
    rw [List.foldl_append, List.foldl_cons, foldl_get_notin _ _ _ hfd, get_set_self]
  · intro k' hk'
    have hsplit : Spec.reported pairs =
        (pairs.drop i).foldl (fun (o : Opts) p => o.set p.1 (convert p.2))
          ((pairs.take i).foldl (fun (o : Opts) p => o.set p.1 (convert p.2)) []) := by
      unfold Spec.reported
      rw [← List.foldl_append, List.take_append_drop]
    rw [hsplit]
    unfold Spec.reported
    rw [List.foldl_append, List.foldl_cons]
    apply foldl_get_congr
    exact get_set_ne _ _ _ _ hk'

/-! ## C12: the bytes of a parsed header -/

theorem valChar_not_nl : ∀ b : UInt8, valChar b = true → b ≠ 10 ∧ b ≠ 13 := by
  apply forall_u8; decide +kernel

theorem secName_bytes_not_nl (n : SecName) : ∀ b ∈ n.bytes, b ≠ 10 ∧ b ≠ 13 := by
  cases n <;> decide

theorem joinB_mem (ps : List Bytes) (b : UInt8) (hb : b ∈ joinB ps) :
    b = 44 ∨ b = 32 ∨ ∃ p ∈ ps, b ∈ p := by
  induction ps with
  | nil => simp [joinB] at hb
  | cons p qs ih =>
    cases qs with
    | nil => simp only [joinB] at hb; exact Or.inr (Or.inr ⟨p, by simp, hb⟩)
    | cons q qs =>
      rw [joinB_cons _ _ (by simp)] at hb
      simp only [List.mem_append, List.mem_cons, List.not_mem_nil, or_false] at hb
      rcases hb with (hb | hb | hb) | hb
      · exact Or.inr (Or.inr ⟨p, by simp, hb⟩)
      · exact Or.inl hb
      · exact Or.inr (Or.inl hb)
      · rcases ih hb with h | h | ⟨p', hp', h⟩
        · exact Or.inl h
        · exact Or.inr (Or.inl h)
        · exact Or.inr (Or.inr ⟨p', List.mem_cons_of_mem _ hp', h⟩)

theorem headerLine_not_nl (sec : SecId) (pairs : List (Bytes × Bytes)) (hg : Spec.GrammarOk sec pairs) :
    ∀ b ∈ Spec.headerLine sec pairs, b ≠ 10 ∧ b ≠ 13 := by
  intro b hb
  rw [headerLine_eq] at hb
  simp only [List.mem_cons, List.mem_append, List.mem_replicate] at hb
  rcases hb with rfl | ⟨_, rfl⟩ | hb | rfl | hb
  · decide
  · decide
  · exact secName_bytes_not_nl _ b hb
  · decide
  · cases pairs with
    | nil => simp [optTail] at hb
    | cons p ps =>
      simp only [List.isEmpty_cons, Bool.false_eq_true, if_false, optTail, List.mem_cons] at hb
      rcases hb with rfl | hb
      · decide
      · rw [joinPairs_eq] at hb
        rcases joinB_mem _ b hb with rfl | rfl | ⟨q, hq, hbq⟩
        · decide
        · decide
        · obtain ⟨p', hp', rfl⟩ := List.mem_map.mp hq
          obtain ⟨hk, hv⟩ := hg.2 p' hp'
          simp only [Spec.renderPair, List.mem_append, List.mem_singleton] at hbq
          rcases hbq with (hbq | rfl) | hbq
          · exact valChar_not_nl b (keyRest_valChar b ((keyOk_facts hk).2 b hbq))
          · decide
          · exact valChar_not_nl b ((valOk_facts hv).2 b hbq)

/-- a header the parser accepts starts with `#` and contains neither LF nor CR -/
theorem parsed_header_bytes (valid : List SecId) (h : Bytes) (hdr : Hdr) (hok : parseHeader valid h = .ok hdr) :
    (∀ b ∈ h, b ≠ 10 ∧ b ≠ 13) ∧ ∃ r, h = 35 :: r := by
  obtain ⟨pairs, hg, rfl, _, _⟩ := parseHeader_ok_grammar valid h hdr hok
  exact ⟨headerLine_not_nl _ _ hg, _, headerLine_eq _ _⟩

/-! ## C12: reading a header that is about to be read -/

theorem mem_dropWhile_of_not {α} (p : α → Bool) (l : List α) (b : α) (hb : b ∈ l) (hp : p b = false) :
    b ∈ l.dropWhile p := by
  induction l with
  | nil => cases hb
  | cons a r ih =>
    rw [List.dropWhile_cons]
    by_cases ha : p a = true
    · simp only [ha, if_true]
      rcases List.mem_cons.mp hb with rfl | hb
      · rw [hp] at ha; cases ha
      · exact ih hb
    · simp only [ha, if_false]; exact hb

theorem pyStrip_ne_nil (l : Bytes) (b : UInt8) (hb : b ∈ l) (hw : isWs b = false) : pyStrip l ≠ [] := by
  unfold pyStrip
  have h1 := mem_dropWhile_of_not isWs l b hb hw
  have h2 := mem_dropWhile_of_not isWs _ b (List.mem_reverse.mpr h1) hw
  intro h
  rw [List.reverse_eq_nil_iff] at h
  rw [h] at h2
  cases h2

theorem findSub_single_none (c : UInt8) (l : Bytes) (h : c ∉ l) : findSub [c] l = none := by
  induction l with
  | nil => rfl
  | cons a r ih =>
    rw [findSub_single_cons]
    simp only [List.mem_cons, not_or] at h
    rw [if_neg h.1, ih h.2]; rfl

/-- the header line `h ++ nl` at the front of the stream is the line `nextLine` returns -/
theorem nextLine_exact (chunk : Nat) (hc : 0 < chunk) (h nl post : Bytes) (fuel : Nat)
    (hnl : nl = [10] ∨ nl = [13, 10]) (hb : ∀ b ∈ h, b ≠ 10 ∧ b ≠ 13) (hh : ∃ r, h = 35 :: r) :
    nextLine chunk (fuel + 1) (h ++ nl ++ post) = some (h ++ nl, post) := by
  have hnone : findSub [10] h = none := findSub_single_none 10 h (fun hm => (hb 10 hm).1 rfl)
  have hstrip : (!(pyStrip (h ++ nl)).isEmpty) = true := by
    obtain ⟨r, rfl⟩ := hh
    have := pyStrip_ne_nil (35 :: r ++ nl) 35 (by simp) (by decide)
    simpa using this
  rw [nextLine, readUntil_eq_spec chunk hc]
  have hspec : readLineSpec 10 (h ++ nl ++ post) = (h ++ nl, false, post) := by
    unfold readLineSpec
    rw [List.append_assoc, findSub_single_append_none 10 h _ hnone]
    rcases hnl with rfl | rfl
    · have : findSub [10] ([10] ++ post) = some 0 := by simp [findSub_single_cons]
      rw [this]
      simp only [Option.map_some]
      have e : h ++ ([10] ++ post) = (h ++ [10]) ++ post := by simp
      rw [e, List.take_left' (by simp), List.drop_left' (by simp)]
    · have : findSub [10] ([13, 10] ++ post) = some 1 := by simp [findSub_single_cons]
      rw [this]
      simp only [Option.map_some]
      have e : h ++ ([13, 10] ++ post) = (h ++ [13, 10]) ++ post := by simp
      rw [e, List.take_left' (by simp <;> omega), List.drop_left' (by simp <;> omega)]
  rw [hspec]
  simp only [Bool.false_eq_true, if_false, hstrip, if_true]

theorem nextLine_chunk_zero (fuel : Nat) (rest : Bytes) : nextLine 0 fuel rest = none := by
  cases fuel with
  | zero => rfl
  | succ fuel =>
    rw [nextLine]
    have := readUntil_zero 10 rest
    rcases hr : readUntil 0 10 rest with ⟨line, eof, r'⟩
    rw [hr] at this
    simp only at this
    subst this
    rfl

theorem readHeader_chunk_zero (valid : List SecId) (st : St) : readHeader 0 valid st = .ok none := by
  rw [readHeader_eq, nextLine_chunk_zero]

theorem endsWith_crlf (h nl : Bytes) (hnl : nl = [10] ∨ nl = [13, 10]) (hb : ∀ b ∈ h, b ≠ 10 ∧ b ≠ 13) :
    endsWith (h ++ nl) [13, 10] = (nl == [13, 10]) := by
  unfold endsWith
  rcases hnl with rfl | rfl
  · have : ¬ ([13, 10] : Bytes) <:+ h ++ [10] := by
      rintro ⟨t, ht⟩
      have h1 : t ++ [13] ++ [10] = h ++ [10] := by simpa using ht
      have h2 := List.append_inj_left' h1 rfl
      exact (hb 13 (by rw [← h2]; simp)).2 rfl
    have h3 : ([13, 10] : Bytes).isSuffixOf (h ++ [10]) = false := by
      rw [← Bool.not_eq_true, List.isSuffixOf_iff_suffix]; exact this
    rw [h3]; rfl
  · have : ([13, 10] : Bytes).isSuffixOf (h ++ [13, 10]) = true := by
      rw [List.isSuffixOf_iff_suffix]; exact List.suffix_append _ _
    rw [this]; rfl

/-- `readHeader` on a stream that starts with an acceptable header line -/
theorem readHeader_exact (chunk : Nat) (hc : 0 < chunk) (valid : List SecId) (h nl post : Bytes) (ln : Nat)
    (f : Option Bool) (hdr : Hdr)
    (hnl : nl = [10] ∨ nl = [13, 10]) (hcr : f = none ∨ f = some (nl == [13, 10]))
    (hp : parseHeader valid h = .ok hdr) :
    readHeader chunk valid ⟨h ++ nl ++ post, ln, f⟩ =
      .ok (some (hdr, ln, ⟨post, ln + 1, some (nl == [13, 10])⟩)) := by
  obtain ⟨hb, hh⟩ := parsed_header_bytes valid h hdr hp
  rw [readHeader_eq]
  simp only
  rw [nextLine_exact chunk hc h nl post _ hnl hb hh]
  simp only
  have hparse : hdrParse valid ln f (h ++ nl) = .ok (hdr, nl == [13, 10]) := by
    have hnl' : (if (nl == [13, 10]) = true then ([13, 10] : Bytes) else [10]) = nl := by
      rcases hnl with rfl | rfl <;> rfl
    have hends : endsWith (h ++ nl) nl = true := by
      unfold endsWith; rw [List.isSuffixOf_iff_suffix]; exact List.suffix_append _ _
    have htake : List.take ((h ++ nl).length - nl.length) (h ++ nl) = h := by
      rw [List.length_append, Nat.add_sub_cancel]; simp
    have hf : f = none ∨ f = some (nl == [13, 10]) := hcr
    unfold hdrParse
    cases f with
    | none =>
      simp only [endsWith_crlf h nl hnl hb, hnl', hends, Bool.not_true, Bool.false_eq_true, if_false, htake, hp]
    | some b =>
      rcases hf with hf | hf
      · cases hf
      · cases hf
        simp only [hnl', hends, Bool.not_true, Bool.false_eq_true, if_false, htake, hp]
  rw [hparse]
  rfl

/-! ## C12: options the reader does not look up change nothing but the record's options -/

/-- replace the options of the yielded record -/
def setOpts (o : Opts) : Option (Record × Loop) → Option (Record × Loop) :=
  Option.map fun p => ({ p.1 with opts := o }, p.2)

theorem stepHdr_opts_agree (env : Env) (cfg : Config) (encs : List (Option OptVal)) (prev : Nat) (sec : SecId)
    (o₁ o₂ : Opts) (ln : Nat) (st : St)
    (hag : ∀ key ∈ [b!"encoding", b!"length", b!"indent", b!"line_endings", b!"format", b!"version"],
      o₁.get key = o₂.get key) :
    (stepHdr env cfg encs prev ⟨sec, o₁⟩ ln st).map (setOpts o₂) = stepHdr env cfg encs prev ⟨sec, o₂⟩ ln st := by
  have henc := hag b!"encoding" (by decide)
  have hlen := hag b!"length" (by decide)
  have hind := hag b!"indent" (by decide)
  have hle := hag b!"line_endings" (by decide)
  have hfmt := hag b!"format" (by decide)
  have hver := hag b!"version" (by decide)
  have e1 : lengthOf o₁ ln = lengthOf o₂ ln := by unfold lengthOf; rw [hlen]
  have e2 : fmtCheck sec o₁ ln = fmtCheck sec o₂ ln := by unfold fmtCheck; rw [hfmt]
  have e3 : contentEncoding sec o₁ encs = contentEncoding sec o₂ encs := by unfold contentEncoding; rw [henc]
  have e4 : rcIndent sec o₁ = rcIndent sec o₂ := by unfold rcIndent; rw [hind]
  have e5 : verCheck sec o₁ ln = verCheck sec o₂ ln := by unfold verCheck; rw [hver]
  unfold stepHdr
  simp only []
  by_cases hc : contentSections.contains sec = true
  · rw [if_pos hc, if_pos hc, e1, e2, e3, e4, hle]
    simp only [map_bind']
    rfl
  · rw [if_neg hc, if_neg hc, e5, henc]
    simp only [map_bind']
    rfl

/-- **section level** (`Properties/C12.lean`, `C12_step`) -/
theorem stepSection_opts_agree (env : Env) (cfg : Config) (chunk : Nat) (l : Loop) (h₁ h₂ nl post : Bytes)
    (sec : SecId) (o₁ o₂ : Opts)
    (hnl : nl = [10] ∨ nl = [13, 10]) (hcr : l.st.fileCrlf = none ∨ l.st.fileCrlf = some (nl == [13, 10]))
    (hp₁ : parseHeader l.valid h₁ = .ok ⟨sec, o₁⟩) (hp₂ : parseHeader l.valid h₂ = .ok ⟨sec, o₂⟩)
    (hag : ∀ key ∈ [b!"encoding", b!"length", b!"indent", b!"line_endings", b!"format", b!"version"],
      o₁.get key = o₂.get key) :
    let l₁ := { l with st := { l.st with rest := h₁ ++ nl ++ post } }
    let l₂ := { l with st := { l.st with rest := h₂ ++ nl ++ post } }
    (stepSection env cfg chunk l₁).map (Option.map fun p => ({ p.1 with opts := o₂ }, p.2)) =
      stepSection env cfg chunk l₂ := by
  intro l₁ l₂
  rw [stepSection_chain, stepSection_chain]
  cases chunk with
  | zero => rw [readHeader_chunk_zero, readHeader_chunk_zero]; rfl
  | succ c =>
    simp only [l₁, l₂]
    rw [readHeader_exact (c + 1) (by omega) l.valid h₁ nl post _ _ _ hnl hcr hp₁,
      readHeader_exact (c + 1) (by omega) l.valid h₂ nl post _ _ _ hnl hcr hp₂]
    simp only [ok_bind]
    exact stepHdr_opts_agree env cfg l.encodings l.prevLevel sec o₁ o₂ _ _ hag

/-- **file level** (`Properties/C12.lean`, `C12_run`) -/
theorem readLoop_opts_agree (env : Env) (cfg : Config) (chunk : Nat) (l : Loop) (h₁ h₂ nl post : Bytes)
    (sec : SecId) (o₁ o₂ : Opts)
    (hnl : nl = [10] ∨ nl = [13, 10]) (hcr : l.st.fileCrlf = none ∨ l.st.fileCrlf = some (nl == [13, 10]))
    (hp₁ : parseHeader l.valid h₁ = .ok ⟨sec, o₁⟩) (hp₂ : parseHeader l.valid h₂ = .ok ⟨sec, o₂⟩)
    (hag : ∀ key ∈ [b!"encoding", b!"length", b!"indent", b!"line_endings", b!"format", b!"version"],
      o₁.get key = o₂.get key) (f₁ f₂ : Nat)
    (hf₁ : (h₁ ++ nl ++ post).length < f₁) (hf₂ : (h₂ ++ nl ++ post).length < f₂) :
    let l₁ := { l with st := { l.st with rest := h₁ ++ nl ++ post } }
    let l₂ := { l with st := { l.st with rest := h₂ ++ nl ++ post } }
    let run₁ := readLoop env cfg chunk f₁ l₁
    let run₂ := readLoop env cfg chunk f₂ l₂
    run₂.2 = run₁.2 ∧ run₂.1.length = run₁.1.length ∧ run₂.1.tail = run₁.1.tail ∧
      ∀ r₁ r₂, run₁.1.head? = some r₁ → run₂.1.head? = some r₂ → r₂ = { r₁ with opts := o₂ } := by
  intro l₁ l₂ run₁ run₂
  have hstep := stepSection_opts_agree env cfg chunk l h₁ h₂ nl post sec o₁ o₂ hnl hcr hp₁ hp₂ hag
  simp only at hstep
  cases f₁ with
  | zero => omega
  | succ f₁ =>
    cases f₂ with
    | zero => omega
    | succ f₂ =>
      simp only [run₁, run₂, readLoop]
      cases hs : stepSection env cfg chunk l₁ with
      | error o =>
        rw [hs] at hstep
        rw [← hstep]
        simp [Except.map]
      | ok x =>
        rw [hs] at hstep
        cases x with
        | none =>
          rw [← hstep]
          simp [Except.map]
        | some p =>
          obtain ⟨r, l'⟩ := p
          rw [← hstep]
          simp only [Except.map, Option.map_some]
          have hp1 := stepSection_progress _ _ _ _ _ _ hs
          have hp2 := stepSection_progress _ _ _ _ _ _ hstep.symm
          have hfi := readLoop_fuel_irrelevant env cfg chunk f₂ f₁ l'
            (by simp only [l₂] at hp2; omega) (by simp only [l₁] at hp1; omega)
          rw [hfi]
          refine ⟨rfl, rfl, rfl, ?_⟩
          intro r₁ r₂ e1 e2
          simp only [List.head?_cons, Option.some.injEq] at e1 e2
          rw [← e1, ← e2]

end Diffx.Reader
