import DiffxVerif.Lemmas.Lexer
import DiffxVerif.Lemmas.Header
import DiffxVerif.Lemmas.CodecProofs
import DiffxVerif.Spec.Document
/-!
# From specification documents to the lexer's documents (used by `Properties/C20Writer.lean`)

`Lemmas/Lexer.lean` proves the header theorem of the lexer (`lex_headers`) for a text given as
a list of `Lexer.Sec` (tag, option string, content, all as code points).  This file connects
it with the byte-level specification of DiffX files (`Spec/Document.lean`), which is what the
writer is proved to produce (`Properties/C02Doc.lean`):

* `lexSecs doc texts` : the `Lexer.Sec`s of a specification document whose section contents are
  the UTF-8 encodings of `texts`;
* `enc_lexSecs` : the UTF-8 encoding of their text is `Spec.render false doc` (header lines are
  ASCII: the nine section ids, and the option keys / values by the header grammar), hence
  `decChars utf8Step` of the file is that text;
* `benign_lexSecs` / `document_lexSecs` : they are `Sec.Benign` and form a `Document` when the
  specification document is well-formed (`Spec.WF`) without blank lines and no text contains `#.`;
* `rendered_lex` : the three together with `lex_headers`.

Core Lean only.
-/
namespace Diffx.LexerBridge
open Diffx Diffx.Lexer Diffx.Codecs

/-! ## the lexer's view of a specification section -/

/-- ASCII bytes as code points -/
def asciiStr (b : Bytes) : Str := b.map (·.toNat)

/-- the header tag of a section as the lexer sees it: `#`, dots, name, `:` -/
def tagOf (s : Spec.Sec) : Str := asciiStr ([35] ++ s.id.bytes ++ [58])

/-- the lexer rule that applies to a section id -/
def headOf (id : SecId) : Head :=
  match id.name with
  | .metadata => .metadata
  | .preamble => .preamble
  | .diff => .diff
  | _ => .container

/-- the option string (what follows `: ` on the header line), if any -/
def attrsOf (s : Spec.Sec) : Option Str :=
  if s.opts.isEmpty then none else some (asciiStr (Spec.joinPairs s.opts))

/-- a specification section whose content is the encoding of `t`, as a lexer section -/
def lexSec (s : Spec.Sec) (t : Str) : Lexer.Sec := ⟨headOf s.id, tagOf s, attrsOf s, t⟩

def lexSecs : List Spec.Sec → List Str → List Lexer.Sec
  | s :: doc, t :: texts => lexSec s t :: lexSecs doc texts
  | _, _ => []

/-- the content of every section is the UTF-8 encoding of the corresponding text (one text per
section, `[]` for containers): `List.Forall₂` of `encChars utf8Char t = some s.content` -/
def Utf8Doc : List Spec.Sec → List Str → Prop
  | [], [] => True
  | s :: doc, t :: texts => encChars utf8Char t = some s.content ∧ Utf8Doc doc texts
  | _, _ => False

/-- no `#.` anywhere in the text -/
def NoHashDot (t : Str) : Prop := ∀ i, ¬ (t!"#." <+: t.drop i)

/-- a decision procedure for `NoHashDot` (used for closed examples) -/
theorem noHashDot_of_check (t : Str)
    (h : (List.range t.length).all (fun i => !(t!"#.").isPrefixOf (t.drop i)) = true) : NoHashDot t := by
  intro i hp
  by_cases hi : i < t.length
  · rw [List.all_eq_true] at h
    have := h i (List.mem_range.mpr hi)
    rw [Bool.not_eq_true', ← Bool.not_eq_true, List.isPrefixOf_iff_prefix] at this
    exact this hp
  · rw [List.drop_eq_nil_of_le (by omega)] at hp
    simp at hp

/-! ## ASCII bytes under UTF-8 -/

theorem asciiStr_append (a b : Bytes) : asciiStr (a ++ b) = asciiStr a ++ asciiStr b := by
  simp [asciiStr]

/-- ASCII bytes are the UTF-8 encoding of themselves -/
theorem enc_ascii (b : Bytes) (h : ∀ x ∈ b, x.toNat < 128) : encChars utf8Char (asciiStr b) = some b := by
  induction b with
  | nil => rfl
  | cons x r ih =>
    have hx : utf8Char x.toNat = some [x] := by
      have := h x (List.mem_cons_self ..)
      unfold utf8Char
      rw [if_pos this]
      show some [UInt8.ofNat x.toNat] = some [x]
      rw [UInt8.ofNat_toNat]
    have := encChars_cons_some utf8Char x.toNat (asciiStr r) [x] r hx
      (ih (fun y hy => h y (List.mem_cons_of_mem _ hy)))
    simpa [asciiStr] using this

/-- only the empty text encodes to no byte -/
theorem encChars_nil_inv {f : Nat → Option Bytes} {step : Bytes → Option (Nat × Bytes)} (H : StepOk f step)
    (t : Text) (h : encChars f t = some []) : t = [] := by
  cases t with
  | nil => rfl
  | cons c cs =>
    obtain ⟨b, r, h1, -, h3⟩ := encChars_cons_inv f c cs [] h
    have := H.ne c b h1
    cases b with
    | nil => exact absurd rfl this
    | cons x xs => cases h3

/-! ## header lines are ASCII without a newline -/

/-- a byte of a header line: ASCII and not LF -/
def hdrByte (b : UInt8) : Bool := decide (b.toNat < 128) && b != 10

theorem valChar_hdrByte : ∀ b : UInt8, Header.valChar b = true → hdrByte b = true := by
  apply Header.forall_u8; decide +kernel

theorem secName_bytes_hdrByte (n : SecName) : ∀ b ∈ n.bytes, hdrByte b = true := by
  cases n <;> decide

theorem secId_bytes_hdrByte (id : SecId) : ∀ b ∈ id.bytes, hdrByte b = true := by
  intro b hb
  unfold SecId.bytes at hb
  rcases List.mem_append.mp hb with hb | hb
  · rw [List.eq_of_mem_replicate hb]; decide
  · exact secName_bytes_hdrByte id.name b hb

theorem renderPair_hdrByte (p : Bytes × Bytes) (hk : Header.keyOk p.1 = true) (hv : Header.valOk p.2 = true) :
    ∀ b ∈ Spec.renderPair p, hdrByte b = true := by
  intro b hb
  simp only [Spec.renderPair, List.mem_append, List.mem_cons, List.not_mem_nil, or_false] at hb
  rcases hb with (hb | rfl) | hb
  · exact valChar_hdrByte b (Header.keyRest_valChar b ((Header.keyOk_facts hk).2 b hb))
  · decide
  · exact valChar_hdrByte b ((Header.valOk_facts hv).2 b hb)

theorem joinPairs_hdrByte (ps : List (Bytes × Bytes))
    (h : ∀ p ∈ ps, Header.keyOk p.1 = true ∧ Header.valOk p.2 = true) :
    ∀ b ∈ Spec.joinPairs ps, hdrByte b = true := by
  induction ps with
  | nil => intro b hb; cases hb
  | cons p ps ih =>
    have hp := h p (List.mem_cons_self ..)
    have ih' := ih (fun q hq => h q (List.mem_cons_of_mem _ hq))
    cases ps with
    | nil => exact renderPair_hdrByte p hp.1 hp.2
    | cons q qs =>
      intro b hb
      simp only [Spec.joinPairs, List.mem_append, List.mem_cons, List.not_mem_nil, or_false] at hb
      rcases hb with (hb | rfl | rfl) | hb
      · exact renderPair_hdrByte p hp.1 hp.2 b hb
      · decide
      · decide
      · exact ih' b hb

theorem headerLine_hdrByte (id : SecId) (ps : List (Bytes × Bytes))
    (h : ∀ p ∈ ps, Header.keyOk p.1 = true ∧ Header.valOk p.2 = true) :
    ∀ b ∈ Spec.headerLine id ps, hdrByte b = true := by
  intro b hb
  unfold Spec.headerLine at hb
  simp only [List.mem_append, List.mem_cons, List.not_mem_nil, or_false] at hb
  rcases hb with ((rfl | hb) | rfl) | hb
  · decide
  · exact secId_bytes_hdrByte id b hb
  · decide
  · split at hb
    · cases hb
    · rcases List.mem_cons.mp hb with rfl | hb
      · decide
      · exact joinPairs_hdrByte ps h b hb

theorem hdrByte_lt {b : UInt8} (h : hdrByte b = true) : b.toNat < 128 := by
  simp only [hdrByte, Bool.and_eq_true, decide_eq_true_eq] at h
  exact h.1

theorem hdrByte_ne {b : UInt8} (h : hdrByte b = true) : b.toNat ≠ 10 := by
  simp only [hdrByte, Bool.and_eq_true, bne_iff_ne, ne_eq] at h
  intro h10
  exact h.2 (UInt8.toNat_inj.mp h10)

theorem asciiStr_no_nl (b : Bytes) (h : ∀ x ∈ b, hdrByte x = true) : (10 : Nat) ∉ asciiStr b := by
  intro hm
  obtain ⟨x, hx, h10⟩ := List.mem_map.mp hm
  exact hdrByte_ne (h x hx) h10

/-! ## the text of a lexer section is the rendering of the specification section -/

/-- header line and content -/
theorem lexSec_text (s : Spec.Sec) (t : Str) :
    (lexSec s t).text = asciiStr (Spec.headerLine s.id s.opts ++ [10]) ++ t := by
  unfold Sec.text lexSec attrsOf tagOf Spec.headerLine
  cases h : s.opts.isEmpty <;> simp [asciiStr]

theorem enc_lexSec (s : Spec.Sec) (t : Str)
    (hg : ∀ p ∈ s.opts, Header.keyOk p.1 = true ∧ Header.valOk p.2 = true) (hb : s.blank = [])
    (ht : encChars utf8Char t = some s.content) :
    encChars utf8Char (lexSec s t).text = some (Spec.renderSec false s) := by
  have h1 : encChars utf8Char (asciiStr (Spec.headerLine s.id s.opts ++ [10])) =
      some (Spec.headerLine s.id s.opts ++ [10]) := by
    apply enc_ascii
    intro x hx
    rcases List.mem_append.mp hx with hx | hx
    · exact hdrByte_lt (headerLine_hdrByte s.id s.opts hg x hx)
    · rw [List.mem_singleton.mp hx]; decide
  rw [lexSec_text, encChars_append_some utf8Char _ _ _ _ h1 ht]
  simp [Spec.renderSec, hb, Spec.renderBlank, Spec.headerNl]

/-! ## what well-formedness gives about one section -/

/-- the part of `Spec.SecOk` the lexer theorem needs -/
structure SecFacts (s : Spec.Sec) : Prop where
  legal : s.id ∈ SecId.legal
  grammar : ∀ p ∈ s.opts, Header.keyOk p.1 = true ∧ Header.valOk p.2 = true
  noContent : s.hasContent = false → s.content = []
  nonempty : s.hasContent = true → s.content ≠ []

/-- the sections that may follow another one: legal, and not the main header -/
def nonMain : List SecId :=
  [SecId.mainPreamble, SecId.mainMeta, SecId.change, SecId.changePreamble, SecId.changeMeta, SecId.file,
   SecId.fileMeta, SecId.fileDiff]

theorem validNext_nonMain (p id : SecId) (h : id ∈ validNext p) : id ∈ nonMain := by
  have key : ∀ x ∈ validNext p, x ∈ nonMain := by
    unfold validNext
    repeat' split
    all_goals decide
  exact key id h

theorem nonMain_legal {id : SecId} (h : id ∈ nonMain) : id ∈ SecId.legal :=
  List.mem_cons_of_mem _ h

theorem allowedNext_legal (p : Option SecId) (id : SecId) (h : id ∈ Spec.allowedNext p) : id ∈ SecId.legal := by
  cases p with
  | none => rw [List.mem_singleton.mp h]; decide
  | some p => exact nonMain_legal (validNext_nonMain p id h)

theorem suffix_ne_nil {α} {s l : List α} (hs : s ≠ []) (h : s <:+ l) : l ≠ [] := by
  rintro rfl
  exact hs (List.suffix_nil.mp h)

theorem secFacts_of_secOk {env : Env} {cfg : Config} {c : Spec.Ctx} {s : Spec.Sec}
    (h : Spec.SecOk env cfg c s) : SecFacts s where
  legal := allowedNext_legal _ _ h.allowed
  grammar := h.grammar
  noContent := h.noContent
  nonempty := fun hc => by
    have h1 := h.nlNonempty hc
    have h2 := h.nlTerminated hc
    unfold endsWith at h2
    rw [List.isSuffixOf_iff_suffix] at h2
    exact suffix_ne_nil h1 h2

theorem next_prev (env : Env) (cfg : Config) (c : Spec.Ctx) (s : Spec.Sec) :
    (c.next env cfg s).prev = some s.id := by
  unfold Spec.Ctx.next
  dsimp only
  split
  · rfl
  · split
    · rfl
    · split <;> rfl

theorem wfFrom_facts (env : Env) (cfg : Config) :
    ∀ (doc : List Spec.Sec) (c : Spec.Ctx), Spec.WFFrom env cfg c doc → ∀ s ∈ doc, SecFacts s := by
  intro doc
  induction doc with
  | nil => intro c _ s hs; cases hs
  | cons s0 doc ih =>
    intro c h s hs
    rcases List.mem_cons.mp hs with rfl | hs
    · exact secFacts_of_secOk h.1
    · exact ih _ h.2 s hs

/-- after the first section, no section is the main header -/
theorem wfFrom_nonMain (env : Env) (cfg : Config) :
    ∀ (doc : List Spec.Sec) (c : Spec.Ctx), c.prev.isSome = true → Spec.WFFrom env cfg c doc →
      ∀ s ∈ doc, s.id ∈ nonMain := by
  intro doc
  induction doc with
  | nil => intro c _ _ s hs; cases hs
  | cons s0 doc ih =>
    intro c hc h s hs
    rcases List.mem_cons.mp hs with rfl | hs
    · have := h.1.allowed
      cases hp : c.prev with
      | none => rw [hp] at hc; cases hc
      | some p => rw [hp] at this; exact validNext_nonMain p _ this
    · exact ih _ (by rw [next_prev]; rfl) h.2 s hs

/-! ## benign sections -/

/-- the header rule of the lexer recognises the nine legal section ids, each with its rule -/
theorem matchTag_legal (s : Spec.Sec) (h : s.id ∈ SecId.legal) :
    matchTag (tagOf s ++ [10]) = some (headOf s.id, tagOf s, [10]) := by
  unfold tagOf
  generalize s.id = id at h
  simp only [SecId.legal, List.mem_cons, List.not_mem_nil, or_false] at h
  rcases h with rfl | rfl | rfl | rfl | rfl | rfl | rfl | rfl | rfl <;> decide

theorem headOf_container {id : SecId} (h : id ∈ SecId.legal) :
    (headOf id = .container → contentSections.contains id = false) ∧
    (headOf id ≠ .container → contentSections.contains id = true) := by
  simp only [SecId.legal, List.mem_cons, List.not_mem_nil, or_false] at h
  rcases h with rfl | rfl | rfl | rfl | rfl | rfl | rfl | rfl | rfl <;> decide

theorem tagOf_nonMain (s : Spec.Sec) (h : s.id ∈ nonMain) : t!"#." <+: tagOf s := by
  unfold tagOf
  generalize s.id = id at h
  simp only [nonMain, List.mem_cons, List.not_mem_nil, or_false] at h
  rcases h with rfl | rfl | rfl | rfl | rfl | rfl | rfl | rfl <;> exact ⟨_, rfl⟩

theorem benign_lexSec (s : Spec.Sec) (t : Str) (hf : SecFacts s)
    (ht : encChars utf8Char t = some s.content) (hnd : NoHashDot t) : (lexSec s t).Benign := by
  refine ⟨matchTag_legal s hf.legal, ?_, ?_, ?_⟩
  · intro a ha
    simp only [lexSec, attrsOf] at ha
    split at ha
    · cases ha
    · cases ha
      exact asciiStr_no_nl _ (joinPairs_hdrByte s.opts hf.grammar)
  · intro hc
    have := hf.noContent ((headOf_container hf.legal).1 hc)
    rw [this] at ht
    exact encChars_nil_inv stepOk_utf8 t ht
  · intro hc
    have hne := hf.nonempty ((headOf_container hf.legal).2 hc)
    refine ⟨?_, hnd⟩
    rintro rfl
    have he : some [] = some s.content := ht
    exact hne (Option.some.inj he).symm

/-! ## whole documents -/

theorem lexSecs_tags : ∀ (doc : List Spec.Sec) (texts : List Str), Utf8Doc doc texts →
    (lexSecs doc texts).map (·.tag) = doc.map tagOf
  | [], [], _ => rfl
  | s :: doc, t :: texts, h => by
    simp only [lexSecs, List.map_cons, lexSecs_tags doc texts h.2]
    rfl
  | [], _ :: _, h => h.elim
  | _ :: _, [], h => h.elim

theorem lexSecs_mem : ∀ (doc : List Spec.Sec) (texts : List Str), Utf8Doc doc texts →
    ∀ x ∈ lexSecs doc texts, ∃ s ∈ doc, ∃ t ∈ texts, x = lexSec s t ∧ encChars utf8Char t = some s.content
  | [], [], _ => fun x hx => by cases hx
  | s :: doc, t :: texts, h => fun x hx => by
    simp only [lexSecs, List.mem_cons] at hx
    rcases hx with rfl | hx
    · exact ⟨s, List.mem_cons_self .., t, List.mem_cons_self .., rfl, h.1⟩
    · obtain ⟨s', hs', t', ht', he, hc⟩ := lexSecs_mem doc texts h.2 x hx
      exact ⟨s', List.mem_cons_of_mem _ hs', t', List.mem_cons_of_mem _ ht', he, hc⟩
  | [], _ :: _, h => h.elim
  | _ :: _, [], h => h.elim

/-- the UTF-8 encoding of the lexer document's text is the file -/
theorem enc_lexSecs : ∀ (doc : List Spec.Sec) (texts : List Str), Utf8Doc doc texts →
    (∀ s ∈ doc, SecFacts s) → (∀ s ∈ doc, s.blank = []) →
    encChars utf8Char ((lexSecs doc texts).flatMap Sec.text) = some (Spec.render false doc)
  | [], [], _, _, _ => rfl
  | s :: doc, t :: texts, h, hf, hb => by
    have h1 := enc_lexSec s t (hf s (List.mem_cons_self ..)).grammar (hb s (List.mem_cons_self ..)) h.1
    have h2 := enc_lexSecs doc texts h.2 (fun x hx => hf x (List.mem_cons_of_mem _ hx))
      (fun x hx => hb x (List.mem_cons_of_mem _ hx))
    simp only [lexSecs, List.flatMap_cons]
    rw [encChars_append_some utf8Char _ _ _ _ h1 h2]
    rfl
  | [], _ :: _, h, _, _ => h.elim
  | _ :: _, [], h, _, _ => h.elim

theorem benign_lexSecs (doc : List Spec.Sec) (texts : List Str) (hu : Utf8Doc doc texts)
    (hf : ∀ s ∈ doc, SecFacts s) (hnd : ∀ t ∈ texts, NoHashDot t) :
    ∀ x ∈ lexSecs doc texts, x.Benign := by
  intro x hx
  obtain ⟨s, hs, t, ht, rfl, hc⟩ := lexSecs_mem doc texts hu x hx
  exact benign_lexSec s t (hf s hs) hc (hnd t ht)

theorem document_lexSecs (env : Env) (cfg : Config) (doc : List Spec.Sec) (texts : List Str)
    (hwf : Spec.WF env cfg doc) (hu : Utf8Doc doc texts) : Document (lexSecs doc texts) := by
  match doc, texts, hwf, hu with
  | [], _, hwf, _ => exact absurd rfl hwf.nonempty
  | _ :: _, [], _, hu => exact hu.elim
  | s :: doc, t :: texts, hwf, hu =>
    obtain ⟨h1, h2⟩ := hwf.sections
    have hmain : s.id = SecId.main := List.mem_singleton.mp h1.allowed
    refine ⟨?_, ?_⟩
    · show tagOf s = _
      unfold tagOf
      rw [hmain]
      rfl
    · intro r hr
      obtain ⟨s', hs', -, -, rfl, -⟩ := lexSecs_mem doc texts hu.2 r hr
      exact tagOf_nonMain s' (wfFrom_nonMain env cfg doc _ (by rw [next_prev]; rfl) h2 s' hs')

/-- **the bridge**: for a well-formed document without blank lines whose contents are UTF-8
texts without `#.`, the file decodes, and the lexer's `tag` tokens on the decoded text are the
section headers in order, without any error token -/
theorem rendered_lex (subs : Subs) (hl : SubsLossless subs) (hq : SubsQuiet subs)
    (env : Env) (cfg : Config) (doc : List Spec.Sec) (texts : List Str)
    (hwf : Spec.WF env cfg doc) (hblank : ∀ s ∈ doc, s.blank = [])
    (hu : Utf8Doc doc texts) (hnd : ∀ t ∈ texts, NoHashDot t) :
    ∃ text, decChars utf8Step (Spec.render false doc) = some text ∧
      text = (lexSecs doc texts).flatMap Sec.text ∧
      ((lex subs text).filter (·.kind == .tag)).map (·.val) = doc.map tagOf ∧
      ∀ t ∈ lex subs text, t.kind ≠ .error := by
  have hf := wfFrom_facts env cfg doc _ hwf.sections
  have henc := enc_lexSecs doc texts hu hf hblank
  have hb := benign_lexSecs doc texts hu hf hnd
  have hd := document_lexSecs env cfg doc texts hwf hu
  obtain ⟨h1, h2⟩ := lex_headers subs hl hq (lexSecs doc texts) hb hd
  refine ⟨_, decChars_encChars stepOk_utf8 _ _ henc, rfl, ?_, h2⟩
  rw [h1, lexSecs_tags doc texts hu]

end Diffx.LexerBridge
