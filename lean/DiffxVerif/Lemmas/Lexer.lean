import DiffxVerif.Model.Lexer
/-!
# Lemmas about the lexer model (`Model/Lexer.lean`) — property C20
-/
namespace Diffx.Lexer

/-! ### elementary facts -/

theorem concatVals_nil : concatVals [] = [] := rfl
theorem concatVals_cons (t : Tok) (l) : concatVals (t :: l) = t.val ++ concatVals l := by simp [concatVals]
theorem concatVals_append (a b) : concatVals (a ++ b) = concatVals a ++ concatVals b := by simp [concatVals]
theorem concatVals_shift (p l) : concatVals (shift p l) = concatVals l := by
  simp [concatVals, shift, List.map_map, Function.comp_def]
theorem concatVals_tok (p k v) : concatVals (tok p k v) = v := by
  unfold tok; split <;> simp_all [concatVals]

theorem dropPfx_some {p s r : Str} (h : dropPfx p s = some r) : s = p ++ r := by
  unfold dropPfx at h
  split at h
  · rename_i hp
    rw [List.isPrefixOf_iff_prefix] at hp
    obtain ⟨t, rfl⟩ := hp
    simp at h
    rw [h]
  · cases h

theorem drop_takeWhile_length {α} (p : α → Bool) (l : List α) :
    l.drop (l.takeWhile p).length = l.dropWhile p := by
  induction l with
  | nil => rfl
  | cons a l ih => simp only [List.takeWhile, List.dropWhile]; split <;> simp [ih]

theorem headerOptions_some {r attrs r' : Str} {sp : Bool} (h : headerOptions r = some (sp, attrs, r')) :
    r = (if sp then 32 :: attrs else []) ++ 10 :: r' ∧ (sp = false → attrs = []) := by
  unfold headerOptions at h
  split at h
  · simp at h; obtain ⟨rfl, rfl, rfl⟩ := h; simp
  · rename_i r0
    simp only at h
    split at h
    · rename_i r1 heq
      simp at h; obtain ⟨rfl, rfl, rfl⟩ := h
      rw [drop_takeWhile_length] at heq
      simp [← heq, List.takeWhile_append_dropWhile]
    · cases h
  · cases h

theorem sectionContent_go {acc s c r : Str} (h : sectionContent.go acc s = (c, r)) :
    acc.reverse ++ s = c ++ r := by
  induction s generalizing acc with
  | nil => simp [sectionContent.go] at h; obtain ⟨rfl, rfl⟩ := h; simp
  | cons x xs ih =>
    simp only [sectionContent.go] at h
    split at h
    · simp at h; obtain ⟨rfl, rfl⟩ := h; rfl
    · have := ih h; simpa using this

theorem sectionContent_eq {s c r : Str} (h : sectionContent s = (c, r)) : s = c ++ r := by
  cases s with
  | nil => simp [sectionContent] at h; obtain ⟨rfl, rfl⟩ := h; rfl
  | cons x xs => simp only [sectionContent] at h; simpa using sectionContent_go h


/-- the ten header tags with their kinds, in rule order -/
def tags : List (Head × Str) :=
  [(.container, t!"#diffx:"), (.container, t!"#.change:"), (.container, t!"#..file:"),
   (.metadata, t!"#.meta:"), (.metadata, t!"#..meta:"), (.metadata, t!"#...meta:"),
   (.preamble, t!"#.preamble:"), (.preamble, t!"#..preamble:"), (.preamble, t!"#...preamble:"),
   (.diff, t!"#...diff:")]

theorem tryT_some {s t : Str} {k : Head} {x : Head × Str × Str}
    (h : (dropPfx t s).map (fun r => (k, t, r)) = some x) : ∃ r, s = t ++ r ∧ x = (k, t, r) := by
  cases hd : dropPfx t s with
  | none => simp [hd] at h
  | some r => simp [hd] at h; exact ⟨r, dropPfx_some hd, h.symm⟩

theorem tryT_orElse {s t : Str} {k : Head} {x : Head × Str × Str} {g : Unit → Option (Head × Str × Str)}
    (h : ((dropPfx t s).map (fun r => (k, t, r))).orElse g = some x) :
    (∃ r, s = t ++ r ∧ x = (k, t, r)) ∨ g () = some x := by
  cases hd : dropPfx t s with
  | none => right; simpa [hd] using h
  | some r => left; simp [hd] at h; exact ⟨r, dropPfx_some hd, h.symm⟩

theorem matchTag_some {s tag r : Str} {k : Head} (h : matchTag s = some (k, tag, r)) :
    s = tag ++ r ∧ (k, tag) ∈ tags := by
  unfold matchTag at h
  simp only [] at h
  have fin : ∀ {k' t'}, (k', t') ∈ tags → (∃ r', s = t' ++ r' ∧ (k, tag, r) = (k', t', r')) →
     s = tag ++ r ∧ (k, tag) ∈ tags := by
    rintro k' t' hm ⟨r', rfl, he⟩
    simp only [Prod.mk.injEq] at he
    obtain ⟨rfl, rfl, rfl⟩ := he
    exact ⟨rfl, hm⟩
  rcases tryT_orElse h with h | h; · exact fin (by simp [tags]) h
  rcases tryT_orElse h with h | h; · exact fin (by simp [tags]) h
  rcases tryT_orElse h with h | h; · exact fin (by simp [tags]) h
  rcases tryT_orElse h with h | h; · exact fin (by simp [tags]) h
  rcases tryT_orElse h with h | h; · exact fin (by simp [tags]) h
  rcases tryT_orElse h with h | h; · exact fin (by simp [tags]) h
  rcases tryT_orElse h with h | h; · exact fin (by simp [tags]) h
  rcases tryT_orElse h with h | h; · exact fin (by simp [tags]) h
  rcases tryT_orElse h with h | h; · exact fin (by simp [tags]) h
  exact fin (by simp [tags]) (tryT_some h)

theorem lastNl_some {s : Str} {n : Nat} (h : lastNl s = some n) : 1 ≤ n ∧ n ≤ s.length := by
  simp only [lastNl, Option.map_eq_some_iff] at h
  obtain ⟨m, hm, rfl⟩ := h
  have := List.mem_of_getLast? hm
  simp at this
  have := (List.mem_zipIdx this).2.1
  omega

/-! ### unfolding equations -/

/-- the `(delta)( )(\d+)(\n)` rule, as in `lexDiff` -/
def deltaRule (s : Str) : Option (Str × Str) := do
  let r ← dropPfx t!"delta " s
  let ds := r.takeWhile isDig
  if ds.isEmpty then none else
  match r.drop ds.length with
  | 10 :: r' => some (ds, r')
  | _ => none

theorem lexDiff_succ (subs : Subs) (fuel pos : Nat) (c : Nat) (s : Str) :
    lexDiff subs (fuel + 1) pos (c :: s) =
      match dropPfx t!"...\n" (c :: s) with
      | some r => ⟨pos, .comment, t!"...\n"⟩ :: lexDiff subs fuel (pos + 4) r
      | none =>
        match deltaRule (c :: s) with
        | some (ds, r') =>
          [⟨pos, .keyword, t!"delta"⟩, ⟨pos + 5, .other, [32]⟩, ⟨pos + 6, .number, ds⟩,
           ⟨pos + 6 + ds.length, .other, [10]⟩] ++ lexDiff subs fuel (pos + 7 + ds.length) r'
        | none => shift pos (subs.diff (c :: s)) := by
  rw [lexDiff]
  · cases dropPfx t!"...\n" (c :: s) with
    | some r => rfl
    | none =>
      simp only [deltaRule]
      rfl
  · simp

def hdrToks (pos : Nat) (tag : Str) (sp : Bool) (attrs : Str) : List Tok :=
  let p1 := pos + tag.length
  [⟨pos, Kind.tag, tag⟩] ++ (if sp then [⟨p1, .other, [32]⟩] else []) ++
                       tok (p1 + 1) .attr attrs ++
                       [⟨p1 + (if sp then 1 + attrs.length else 0), .other, [10]⟩]

def ctoks (subs : Subs) (k : Head) (p2 : Nat) (content : Str) : List Tok :=
  match k with
  | .metadata => shift p2 (subs.json content)
  | .preamble => tok p2 .other content
  | _ => lexDiff subs (content.length + 1) p2 content

def header (subs : Subs) (pos : Nat) (s : Str) : Option (List Tok × Nat × Str) :=
  match matchTag s with
  | none => none
  | some (k, tag, r) =>
    match headerOptions r with
    | none => none
    | some (sp, attrs, r') =>
      let p2 := pos + tag.length + (if sp then 1 + attrs.length else 0) + 1
      match k with
      | .container => some (hdrToks pos tag sp attrs, p2, r')
      | _ =>
        some (hdrToks pos tag sp attrs ++
              (if (sectionContent r').1.isEmpty then [] else ctoks subs k p2 (sectionContent r').1),
          p2 + (sectionContent r').1.length, (sectionContent r').2)

theorem lexGo_succ (subs : Subs) (fuel pos : Nat) (c : Nat) (s : Str) :
    lexGo subs (fuel + 1) pos (c :: s) =
      match dropPfx t!"...\n" (c :: s) with
      | some r => ⟨pos, .comment, t!"...\n"⟩ :: lexGo subs fuel (pos + 4) r
      | none =>
        match header subs pos (c :: s) with
        | some (toks, p, rest) => toks ++ lexGo subs fuel p rest
        | none =>
          match lastNl (c :: s) with
          | some n => ⟨pos, .other, (c :: s).take n⟩ :: lexGo subs fuel (pos + n) ((c :: s).drop n)
          | none => ⟨pos, .error, [c]⟩ :: lexGo subs fuel (pos + 1) s := by
  rw [lexGo]
  · cases dropPfx t!"...\n" (c :: s) with
    | some r => rfl
    | none =>
      simp only [header]
      cases matchTag (c :: s) with
      | none => rfl
      | some x =>
        obtain ⟨k, tag, r⟩ := x
        simp only [Option.bind_eq_bind, Option.bind_some]
        cases headerOptions r with
        | none => rfl
        | some y =>
          obtain ⟨sp, attrs, r'⟩ := y
          cases k <;> rfl


/-! ### the tokenisation invariant -/

/-- `Good subs K p l s`: the token list `l` is built from pieces that tile the
text `s` starting at position `p`; own tokens are non-empty with a kind in `K`,
sub-lexer pieces are shifted to their start. -/
inductive Good (subs : Subs) (K : Kind → Prop) : Nat → List Tok → Str → Prop
  | nil (p : Nat) : Good subs K p [] []
  | app {p : Nat} {l1 : List Tok} {s1 : Str} {l2 : List Tok} {s2 : Str} :
      Good subs K p l1 s1 → Good subs K (p + s1.length) l2 s2 → Good subs K p (l1 ++ l2) (s1 ++ s2)
  | single (p : Nat) (k : Kind) (v : Str) : v ≠ [] → K k → Good subs K p [⟨p, k, v⟩] v
  | json (p : Nat) (s : Str) : s ≠ [] → Good subs K p (shift p (subs.json s)) s
  | diff (p : Nat) (s : Str) : s ≠ [] → Good subs K p (shift p (subs.diff s)) s

variable {subs : Subs} {K : Kind → Prop}

theorem Good.cast {p q : Nat} {l : List Tok} {s s' : Str} (h : Good subs K p l s) (hp : p = q)
    (hs : s = s') : Good subs K q l s' := by subst hp hs; exact h

theorem Good.app' {p q : Nat} {l1 l2 : List Tok} {s1 s2 s : Str} (h1 : Good subs K p l1 s1)
    (h2 : Good subs K q l2 s2) (hq : q = p + s1.length) (hs : s = s1 ++ s2) :
    Good subs K p (l1 ++ l2) s := by subst hq hs; exact h1.app h2

theorem Good.cons' {p q : Nat} {k : Kind} {v : Str} {l : List Tok} {s s' : Str} (hv : v ≠ []) (hk : K k)
    (h : Good subs K q l s) (hq : q = p + v.length) (hs : s' = v ++ s) :
    Good subs K p (⟨p, k, v⟩ :: l) s' :=
  (Good.single p k v hv hk).app' h hq hs

theorem Good.tok (p : Nat) (k : Kind) (v : Str) (hk : K k) : Good subs K p (tok p k v) v := by
  unfold Lexer.tok
  cases v with
  | nil => exact Good.nil p
  | cons a v => exact Good.single p k _ (by simp) hk

theorem deltaRule_some {s ds r' : Str} (h : deltaRule s = some (ds, r')) :
    s = t!"delta " ++ ds ++ 10 :: r' ∧ ds ≠ [] := by
  unfold deltaRule at h
  cases hd : dropPfx t!"delta " s with
  | none => simp [hd] at h
  | some r =>
    simp only [hd, Option.bind_eq_bind, Option.bind_some] at h
    split at h
    · cases h
    · rename_i hne
      split at h
      · rename_i r1 heq
        simp at h
        obtain ⟨rfl, rfl⟩ := h
        rw [drop_takeWhile_length] at heq
        refine ⟨?_, by simpa using hne⟩
        rw [dropPfx_some hd, List.append_assoc, ← heq, List.takeWhile_append_dropWhile]
      · cases h

theorem lexDiff_nil (subs : Subs) (fuel pos : Nat) : lexDiff subs fuel pos [] = [] := by
  cases fuel <;> simp [lexDiff]

theorem lexGo_nil (subs : Subs) (fuel pos : Nat) : lexGo subs fuel pos [] = [] := by
  cases fuel <;> simp [lexGo]

theorem lexDiff_good (hK : ∀ k, k ≠ .tag → k ≠ .error → K k) :
    ∀ (fuel pos : Nat) (s : Str), s.length < fuel → Good subs K pos (lexDiff subs fuel pos s) s := by
  intro fuel
  induction fuel with
  | zero => intro pos s h; omega
  | succ fuel ih =>
    intro pos s hlen
    cases s with
    | nil => rw [lexDiff_nil]; exact Good.nil pos
    | cons c s =>
      rw [lexDiff_succ]
      cases hd : dropPfx t!"...\n" (c :: s) with
      | some r =>
        have hs := dropPfx_some hd
        have hl : r.length < fuel := by
          have := congrArg List.length hs; simp at this; simp at hlen; omega
        exact Good.cons' (by simp) (hK _ (by simp) (by simp)) (ih (pos + 4) r hl) rfl hs
      | none =>
        cases hdel : deltaRule (c :: s) with
        | none => exact Good.diff pos _ (by simp)
        | some x =>
          obtain ⟨ds, r'⟩ := x
          obtain ⟨hs, hds⟩ := deltaRule_some hdel
          have hl : r'.length < fuel := by
            have := congrArg List.length hs; simp at this; simp at hlen; omega
          have h4 : Good subs K (pos + 6 + ds.length)
              (⟨pos + 6 + ds.length, .other, [10]⟩ :: lexDiff subs fuel (pos + 7 + ds.length) r') (10 :: r') :=
            Good.cons' (by simp) (hK _ (by simp) (by simp)) (ih _ r' hl) (by simp; omega) rfl
          have h3 := Good.cons' (p := pos + 6) (k := .number) (s' := ds ++ 10 :: r') hds
            (hK _ (by simp) (by simp)) h4 rfl rfl
          have h2 := Good.cons' (p := pos + 5) (k := .other) (v := [32]) (s' := 32 :: (ds ++ 10 :: r'))
            (by simp) (hK _ (by simp) (by simp)) h3 rfl rfl
          have h1 := Good.cons' (p := pos) (k := .keyword) (v := t!"delta")
            (s' := t!"delta" ++ 32 :: (ds ++ 10 :: r'))
            (by simp) (hK _ (by simp) (by simp)) h2 rfl rfl
          exact h1.cast rfl (by rw [hs]; simp)


theorem tags_ne_nil {k : Head} {tag : Str} (h : (k, tag) ∈ tags) : tag ≠ [] := by
  rintro rfl; simp [tags] at h

theorem hdrToks_good (hK : ∀ k, K k) (pos : Nat) {tag : Str} (sp : Bool) {attrs : Str} (htag : tag ≠ [])
    (hsp : sp = false → attrs = []) :
    Good subs K pos (hdrToks pos tag sp attrs) (tag ++ ((if sp then 32 :: attrs else []) ++ [10])) := by
  cases sp with
  | false =>
    obtain rfl := hsp rfl
    have : hdrToks pos tag false [] = [⟨pos, .tag, tag⟩, ⟨pos + tag.length, .other, [10]⟩] := by
      simp [hdrToks, tok]
    rw [this]
    exact Good.cons' htag (hK _) (Good.single _ _ _ (by simp) (hK _)) rfl (by simp)
  | true =>
    have : hdrToks pos tag true attrs = ⟨pos, .tag, tag⟩ :: ⟨pos + tag.length, .other, [32]⟩ ::
        (tok (pos + tag.length + 1) .attr attrs ++ [⟨pos + tag.length + (1 + attrs.length), .other, [10]⟩]) := by
      simp [hdrToks]
    rw [this]
    refine Good.cons' htag (hK _) (Good.cons' (s := attrs ++ [10]) (by simp) (hK _) ?_ rfl rfl) rfl (by simp)
    exact (Good.tok _ _ _ (hK _)).app' (Good.single _ _ _ (by simp) (hK _)) (by simp only [List.length_cons, List.length_nil]; omega) rfl

theorem ctoks_good (hK : ∀ k, k ≠ .tag → k ≠ .error → K k) (k : Head) (p2 : Nat) {content : Str}
    (hc : content ≠ []) : Good subs K p2 (ctoks subs k p2 content) content := by
  cases k with
  | metadata => exact Good.json p2 content hc
  | preamble => exact Good.tok _ _ _ (hK _ (by simp) (by simp))
  | container => exact lexDiff_good hK _ _ _ (by omega)
  | diff => exact lexDiff_good hK _ _ _ (by omega)

theorem header_good (hK : ∀ k, K k) {pos : Nat} {s : Str} {toks : List Tok} {p : Nat} {rest : Str}
    (h : header subs pos s = some (toks, p, rest)) :
    ∃ s1, s = s1 ++ rest ∧ s1 ≠ [] ∧ p = pos + s1.length ∧ Good subs K pos toks s1 := by
  unfold header at h
  cases hm : matchTag s with
  | none => simp [hm] at h
  | some x =>
    obtain ⟨k, tag, r⟩ := x
    obtain ⟨hs, hmem⟩ := matchTag_some hm
    have htag := tags_ne_nil hmem
    simp only [hm] at h
    cases hh : headerOptions r with
    | none => simp [hh] at h
    | some y =>
      obtain ⟨sp, attrs, r'⟩ := y
      obtain ⟨hr, hsp⟩ := headerOptions_some hh
      simp only [hh] at h
      have hg := hdrToks_good (subs := subs) hK pos sp htag hsp
      have hlen : (tag ++ ((if sp then 32 :: attrs else []) ++ [10])).length =
          tag.length + (if sp then 1 + attrs.length else 0) + 1 := by
        cases sp <;> simp <;> omega
      by_cases hk : k = .container
      · subst hk
        simp only [Option.some.injEq, Prod.mk.injEq] at h
        obtain ⟨rfl, rfl, rfl⟩ := h
        refine ⟨_, ?_, by simp [htag], ?_, hg⟩
        · rw [hs, hr]; simp
        · rw [hlen]; omega
      · have h' : some (hdrToks pos tag sp attrs ++
              (if (sectionContent r').1.isEmpty then [] else
                ctoks subs k (pos + tag.length + (if sp then 1 + attrs.length else 0) + 1) (sectionContent r').1),
            pos + tag.length + (if sp then 1 + attrs.length else 0) + 1 + (sectionContent r').1.length,
            (sectionContent r').2) = some (toks, p, rest) := by
          cases k <;> first | exact absurd rfl hk | exact h
        simp only [Option.some.injEq, Prod.mk.injEq] at h'
        obtain ⟨rfl, rfl, rfl⟩ := h'
        have hsc := sectionContent_eq (s := r') (c := (sectionContent r').1) (r := (sectionContent r').2) rfl
        refine ⟨tag ++ ((if sp then 32 :: attrs else []) ++ [10]) ++ (sectionContent r').1, ?_, by simp [htag], ?_, ?_⟩
        · rw [hs, hr]; conv => lhs; rw [hsc]
          simp
        · rw [List.length_append, hlen]; omega
        · refine hg.app' (q := pos + tag.length + (if sp then 1 + attrs.length else 0) + 1) ?_ (by rw [hlen]; omega) rfl
          by_cases he : (sectionContent r').1 = []
          · rw [he]; exact Good.nil _
          · have : (sectionContent r').1.isEmpty = false := by simpa using he
            rw [this]
            exact ctoks_good (fun k _ _ => hK k) k _ he

theorem lexGo_good (hK : ∀ k, K k) :
    ∀ (fuel pos : Nat) (s : Str), s.length < fuel → Good subs K pos (lexGo subs fuel pos s) s := by
  intro fuel
  induction fuel with
  | zero => intro pos s h; omega
  | succ fuel ih =>
    intro pos s hlen
    cases s with
    | nil => rw [lexGo_nil]; exact Good.nil pos
    | cons c s =>
      rw [lexGo_succ]
      cases hd : dropPfx t!"...\n" (c :: s) with
      | some r =>
        have hs := dropPfx_some hd
        have hl : r.length < fuel := by
          have := congrArg List.length hs; simp at this; simp at hlen; omega
        exact Good.cons' (by simp) (hK _) (ih (pos + 4) r hl) rfl hs
      | none =>
        cases hh : header subs pos (c :: s) with
        | some x =>
          obtain ⟨toks, p, rest⟩ := x
          obtain ⟨s1, hs, hne, hp, hg⟩ := header_good hK hh
          have hl : rest.length < fuel := by
            have := congrArg List.length hs
            have : 0 < s1.length := List.length_pos_iff.mpr hne
            simp at *; omega
          exact hg.app' (ih p rest hl) hp hs
        | none =>
          cases hn : lastNl (c :: s) with
          | some n =>
            obtain ⟨h1, h2⟩ := lastNl_some hn
            have hl : ((c :: s).drop n).length < fuel := by rw [List.length_drop]; omega
            refine Good.cons' ?_ (hK _) (ih (pos + n) _ hl) ?_ (List.take_append_drop n (c :: s)).symm
            · intro h0
              have := congrArg List.length h0
              simp at this; omega
            · rw [List.length_take]; omega
          | none =>
            have hl : s.length < fuel := by simp at hlen; omega
            exact Good.cons' (by simp) (hK _) (ih (pos + 1) s hl) rfl rfl


/-! ### the three general properties -/

/-- the sub-lexers reproduce their input -/
def SubsLossless (subs : Subs) : Prop :=
  (∀ s, concatVals (subs.json s) = s) ∧ (∀ s, concatVals (subs.diff s) = s)

/-- token positions are contiguous from `start` -/
def Contiguous : Nat → List Tok → Prop
  | _, [] => True
  | p, t :: r => t.pos = p ∧ Contiguous (p + t.val.length) r

def SubsContiguous (subs : Subs) : Prop :=
  (∀ s, Contiguous 0 (subs.json s)) ∧ (∀ s, Contiguous 0 (subs.diff s))

theorem Good.lossless (hl : SubsLossless subs) {p : Nat} {l : List Tok} {s : Str}
    (h : Good subs K p l s) : concatVals l = s := by
  induction h with
  | nil p => rfl
  | app _ _ ih1 ih2 => rw [concatVals_append, ih1, ih2]
  | single p k v _ _ => simp [concatVals]
  | json p s _ => rw [concatVals_shift, hl.1]
  | diff p s _ => rw [concatVals_shift, hl.2]

theorem contiguous_append {p : Nat} {l1 l2 : List Tok} :
    Contiguous p (l1 ++ l2) ↔ Contiguous p l1 ∧ Contiguous (p + (concatVals l1).length) l2 := by
  induction l1 generalizing p with
  | nil => simp [Contiguous, concatVals]
  | cons t l ih =>
    simp only [List.cons_append, Contiguous, ih, concatVals_cons, List.length_append, and_assoc, Nat.add_assoc]

theorem contiguous_shift {q p : Nat} {l : List Tok} (h : Contiguous q l) : Contiguous (q + p) (shift p l) := by
  induction l generalizing q with
  | nil => trivial
  | cons t l ih =>
    obtain ⟨h1, h2⟩ := h
    refine ⟨by simp [h1], ?_⟩
    have := ih h2
    simpa [shift, Nat.add_right_comm] using this

theorem Good.contiguous (hl : SubsLossless subs) (hc : SubsContiguous subs) {p : Nat} {l : List Tok} {s : Str}
    (h : Good subs K p l s) : Contiguous p l := by
  induction h with
  | nil p => trivial
  | app h1 _ ih1 ih2 => rw [contiguous_append, h1.lossless hl]; exact ⟨ih1, ih2⟩
  | single p k v _ _ => exact ⟨rfl, trivial⟩
  | json p s _ => simpa using contiguous_shift (p := p) (hc.1 s)
  | diff p s _ => simpa using contiguous_shift (p := p) (hc.2 s)

theorem mem_shift {p : Nat} {l : List Tok} {t : Tok} (h : t ∈ shift p l) :
    ∃ t' ∈ l, t.val = t'.val ∧ t.kind = t'.kind := by
  simp only [shift, List.mem_map] at h
  obtain ⟨t', ht', rfl⟩ := h
  exact ⟨t', ht', rfl, rfl⟩

theorem Good.nonempty (hs : ∀ s, ∀ t ∈ subs.json s ++ subs.diff s, t.val ≠ []) {p : Nat} {l : List Tok}
    {s : Str} (h : Good subs K p l s) : ∀ t ∈ l, t.val ≠ [] := by
  induction h with
  | nil p => simp
  | app _ _ ih1 ih2 =>
    intro t ht
    rcases List.mem_append.mp ht with ht | ht
    · exact ih1 t ht
    · exact ih2 t ht
  | single p k v hv _ => intro t ht; simp at ht; subst ht; exact hv
  | json p s _ =>
    intro t ht
    obtain ⟨t', ht', hv, _⟩ := mem_shift ht
    rw [hv]; exact hs s t' (List.mem_append_left _ ht')
  | diff p s _ =>
    intro t ht
    obtain ⟨t', ht', hv, _⟩ := mem_shift ht
    rw [hv]; exact hs s t' (List.mem_append_right _ ht')

/-- all token kinds satisfy `K` when the sub-lexers' do -/
theorem Good.kinds (hs : ∀ s, ∀ t ∈ subs.json s ++ subs.diff s, K t.kind) {p : Nat} {l : List Tok}
    {s : Str} (h : Good subs K p l s) : ∀ t ∈ l, K t.kind := by
  induction h with
  | nil p => simp
  | app _ _ ih1 ih2 =>
    intro t ht
    rcases List.mem_append.mp ht with ht | ht
    · exact ih1 t ht
    · exact ih2 t ht
  | single p k v _ hk => intro t ht; simp at ht; subst ht; exact hk
  | json p s _ =>
    intro t ht
    obtain ⟨t', ht', _, hk⟩ := mem_shift ht
    rw [hk]; exact hs s t' (List.mem_append_left _ ht')
  | diff p s _ =>
    intro t ht
    obtain ⟨t', ht', _, hk⟩ := mem_shift ht
    rw [hk]; exact hs s t' (List.mem_append_right _ ht')

theorem lex_good (subs : Subs) (text : Str) : Good subs (fun _ => True) 0 (lex subs text) text :=
  lexGo_good (fun _ => trivial) _ _ _ (Nat.lt_succ_self _)

/-- **Lossless, for every text.** -/
theorem lex_lossless (subs : Subs) (h : SubsLossless subs) (text : Str) :
    concatVals (lex subs text) = text :=
  (lex_good subs text).lossless h

/-- positions are contiguous: every character belongs to exactly one token -/
theorem lex_contiguous (subs : Subs) (h : SubsLossless subs) (hc : SubsContiguous subs) (text : Str) :
    Contiguous 0 (lex subs text) :=
  (lex_good subs text).contiguous h hc

/-- no token is empty -/
theorem lex_nonempty (subs : Subs) (hs : ∀ s, ∀ t ∈ subs.json s ++ subs.diff s, t.val ≠ []) (text : Str) :
    ∀ t ∈ lex subs text, t.val ≠ [] :=
  (lex_good subs text).nonempty hs


/-! ### header rules on section texts -/

theorem matchTag_tag {k : Head} {tag : Str} (h : (k, tag) ∈ tags) (r : Str) :
    matchTag (tag ++ r) = some (k, tag, r) := by
  simp only [tags, List.mem_cons, Prod.mk.injEq, List.not_mem_nil, or_false] at h
  rcases h with ⟨rfl, rfl⟩ | ⟨rfl, rfl⟩ | ⟨rfl, rfl⟩ | ⟨rfl, rfl⟩ | ⟨rfl, rfl⟩ | ⟨rfl, rfl⟩ | ⟨rfl, rfl⟩ |
    ⟨rfl, rfl⟩ | ⟨rfl, rfl⟩ | ⟨rfl, rfl⟩ <;> simp [matchTag, dropPfx, List.isPrefixOf]

theorem endSection_tag {k : Head} {tag : Str} (h : (k, tag) ∈ tags) (hp : t!"#." <+: tag) (r : Str) :
    endSection (tag ++ r) = true ∧ ∃ r', tag ++ r = 35 :: r' := by
  simp only [tags, List.mem_cons, Prod.mk.injEq, List.not_mem_nil, or_false] at h
  rcases h with ⟨rfl, rfl⟩ | ⟨rfl, rfl⟩ | ⟨rfl, rfl⟩ | ⟨rfl, rfl⟩ | ⟨rfl, rfl⟩ | ⟨rfl, rfl⟩ | ⟨rfl, rfl⟩ |
    ⟨rfl, rfl⟩ | ⟨rfl, rfl⟩ | ⟨rfl, rfl⟩
  · simp at hp
  all_goals exact ⟨rfl, _, rfl⟩

theorem endSection_true {s : Str} (h : endSection s = true) : s = [] ∨ ∃ r, s = 35 :: 46 :: r := by
  unfold endSection at h
  split at h
  · exact .inl rfl
  · exact .inr ⟨_, rfl⟩
  · cases h


theorem takeWhile_append_stop {α} (p : α → Bool) (a : List α) (b : α) (x : List α)
    (ha : ∀ y ∈ a, p y = true) (hb : p b = false) : (a ++ b :: x).takeWhile p = a := by
  induction a with
  | nil => simp [hb]
  | cons c a ih =>
    simp only [List.cons_append, List.takeWhile, ha c (List.mem_cons_self ..)]
    rw [ih (fun y hy => ha y (List.mem_cons_of_mem _ hy))]

theorem headerOptions_none (x : Str) : headerOptions (10 :: x) = some (false, [], x) := rfl

theorem headerOptions_attrs (a x : Str) (ha : (10 : Nat) ∉ a) :
    headerOptions (32 :: (a ++ 10 :: x)) = some (true, a, x) := by
  have h1 : (a ++ 10 :: x).takeWhile (· != 10) = a :=
    takeWhile_append_stop _ a 10 x (fun y hy => by simpa using fun h : y = 10 => ha (h ▸ hy)) (by simp)
  simp only [headerOptions, h1, List.drop_left]

/-- the remaining text is empty or a section start recognised by the look-ahead -/
def RestOK (rest : Str) : Prop := rest = [] ∨ (endSection rest = true ∧ ∃ r, rest = 35 :: r)

theorem endSection_rest {rest : Str} (h : RestOK rest) : endSection rest = true := by
  rcases h with rfl | h
  · rfl
  · exact h.1

theorem sectionContent_go_append (rest : Str) (hrest : endSection rest = true) :
    ∀ (c acc : Str), (∀ i, i < c.length → endSection (c.drop i ++ rest) = false) →
      sectionContent.go acc (c ++ rest) = (acc.reverse ++ c, rest) := by
  intro c
  induction c with
  | nil =>
    intro acc _
    cases rest with
    | nil => simp [sectionContent.go]
    | cons x xs => simp [sectionContent.go, hrest]
  | cons x xs ih =>
    intro acc h
    have h0 := h 0 (by simp)
    simp only [List.drop_zero] at h0
    simp only [List.cons_append] at h0 ⊢
    rw [sectionContent.go, if_neg (by simp [h0])]
    rw [ih (x :: acc) (fun i hi => by simpa using h (i + 1) (by simpa using hi))]
    simp

theorem endSection_inside {content rest : Str} (hc : ∀ i, ¬ (t!"#." <+: content.drop i))
    (hrest : RestOK rest) (i : Nat) (hi : i < content.length) :
    endSection (content.drop i ++ rest) = false := by
  cases hd : content.drop i with
  | nil => have := congrArg List.length hd; simp at this; omega
  | cons x xs =>
    cases he : endSection (x :: xs ++ rest) with
    | false => rfl
    | true =>
      exfalso
      rcases endSection_true he with h | ⟨r, h⟩
      · cases h
      · simp only [List.cons_append, List.cons.injEq] at h
        obtain ⟨rfl, h⟩ := h
        cases xs with
        | nil =>
          rcases hrest with rfl | ⟨_, r', rfl⟩
          · cases h
          · simp at h
        | cons y ys =>
          simp only [List.cons_append, List.cons.injEq] at h
          obtain ⟨rfl, -⟩ := h
          exact hc i (by rw [hd]; exact ⟨ys, rfl⟩)

theorem sectionContent_append {content rest : Str} (hne : content ≠ [])
    (hc : ∀ i, ¬ (t!"#." <+: content.drop i)) (hrest : RestOK rest) :
    sectionContent (content ++ rest) = (content, rest) := by
  cases content with
  | nil => exact absurd rfl hne
  | cons c0 c =>
    simp only [List.cons_append, sectionContent]
    rw [sectionContent_go_append rest (endSection_rest hrest) c [c0]]
    · simp
    · intro i hi
      have := endSection_inside hc hrest (i + 1) (by simpa using hi)
      simpa using this


/-! ### documents made of benign sections -/

/-- a section of a DiffX file as text: its tag (one of the ten header tags), the
option string (without the leading space) if any, and its content -/
structure Sec where
  head : Head
  tag : Str
  attrs : Option Str
  content : Str

/-- the text of a section: `tag[ attrs]\n` followed by the content -/
def Sec.text (s : Sec) : Str :=
  s.tag ++ (match s.attrs with | none => [] | some a => 32 :: a) ++ [10] ++ s.content

/-- well-formed and benign -/
def Sec.Benign (s : Sec) : Prop :=
  matchTag (s.tag ++ [10]) = some (s.head, s.tag, [10]) ∧
  (∀ a, s.attrs = some a → (10 : Nat) ∉ a) ∧
  (s.head = .container → s.content = []) ∧
  (s.head ≠ .container → s.content ≠ [] ∧ ∀ i, ¬ (t!"#." <+: s.content.drop i))

/-- sub-lexers that never produce an error / tag token (on the contents they get) -/
def SubsQuiet (subs : Subs) : Prop :=
  ∀ s, ∀ t ∈ subs.json s ++ subs.diff s, t.kind ≠ .error ∧ t.kind ≠ .tag

/-- the first section is the main header, the others are not (they start with `#.`) -/
def Document : List Sec → Prop
  | [] => True
  | s :: rest => s.tag = t!"#diffx:" ∧ ∀ r ∈ rest, t!"#." <+: r.tag

/-- neither `Tag` nor `Error` tokens -/
def Quiet (l : List Tok) : Prop := ∀ t ∈ l, t.kind ≠ .tag ∧ t.kind ≠ .error

theorem Quiet.append {a b : List Tok} (ha : Quiet a) (hb : Quiet b) : Quiet (a ++ b) := by
  intro t ht
  rcases List.mem_append.mp ht with h | h
  · exact ha t h
  · exact hb t h

theorem Quiet.filter {l : List Tok} (h : Quiet l) : l.filter (·.kind == .tag) = [] := by
  rw [List.filter_eq_nil_iff]
  intro t ht
  simpa using (h t ht).1

theorem hdrToks_quiet (pos : Nat) (tag : Str) (sp : Bool) (attrs : Str) :
    ∃ l, hdrToks pos tag sp attrs = ⟨pos, .tag, tag⟩ :: l ∧ Quiet l := by
  refine ⟨(if sp then [⟨pos + tag.length, .other, [32]⟩] else []) ++ tok (pos + tag.length + 1) .attr attrs ++
    [⟨pos + tag.length + (if sp then 1 + attrs.length else 0), .other, [10]⟩], by simp [hdrToks], ?_⟩
  intro t ht
  simp only [List.mem_append, List.mem_cons, List.not_mem_nil, or_false] at ht
  rcases ht with (ht | ht) | ht
  · cases sp
    · simp at ht
    · simp at ht; subst ht; simp
  · unfold tok at ht
    split at ht
    · simp at ht
    · simp at ht; subst ht; simp
  · subst ht; simp

theorem ctoks_quiet {subs : Subs} (hq : SubsQuiet subs) (k : Head) (p2 : Nat) {content : Str}
    (hc : content ≠ []) : Quiet (ctoks subs k p2 content) := by
  have hg : Good subs (fun k => k ≠ .tag ∧ k ≠ .error) p2 (ctoks subs k p2 content) content :=
    ctoks_good (fun k h1 h2 => ⟨h1, h2⟩) k p2 hc
  exact hg.kinds (fun s t ht => (hq s t ht).symm)

theorem Sec.Benign.mem_tags {s : Sec} (hb : s.Benign) : (s.head, s.tag) ∈ tags :=
  (matchTag_some hb.1).2

/-- one section: the header rule applies at the start of a benign section and
consumes exactly the section -/
theorem header_sec {subs : Subs} (hq : SubsQuiet subs) (s : Sec) (hb : s.Benign) (rest : Str)
    (hrest : RestOK rest) (pos : Nat) :
    ∃ l p, header subs pos (s.text ++ rest) = some (⟨pos, .tag, s.tag⟩ :: l, p, rest) ∧ Quiet l := by
  obtain ⟨head, tag, attrs, content⟩ := s
  have hmem := hb.mem_tags
  obtain ⟨-, hattrs, hcont, hnc⟩ := hb
  dsimp only at hmem hattrs hcont hnc
  -- the header options
  have hopt : ∃ sp as, ∀ x, headerOptions ((match attrs with | none => [] | some a => 32 :: a) ++ [10] ++ x)
      = some (sp, as, x) := by
    cases attrs with
    | none => exact ⟨false, [], fun x => rfl⟩
    | some a => exact ⟨true, a, fun x => by simpa using headerOptions_attrs a x (hattrs a rfl)⟩
  obtain ⟨sp, as, hopt⟩ := hopt
  have htext : Sec.text ⟨head, tag, attrs, content⟩ ++ rest =
      tag ++ ((match attrs with | none => [] | some a => 32 :: a) ++ [10] ++ (content ++ rest)) := by
    simp [Sec.text]
  obtain ⟨l, hl, hlq⟩ := hdrToks_quiet pos tag sp as
  rw [htext]
  unfold header
  simp only [matchTag_tag hmem, hopt]
  by_cases hk : head = .container
  · subst hk
    simp only [hcont rfl, List.nil_append]
    exact ⟨l, _, by rw [hl], hlq⟩
  · obtain ⟨hne, hc⟩ := hnc hk
    have hsc := sectionContent_append hne hc hrest
    have he : content.isEmpty = false := by simpa using hne
    refine ⟨l ++ ctoks subs head (pos + tag.length + (if sp then 1 + as.length else 0) + 1) content,
      pos + tag.length + (if sp then 1 + as.length else 0) + 1 + content.length, ?_,
      hlq.append (ctoks_quiet hq head _ hne)⟩
    cases head <;> first | exact absurd rfl hk | simp only [hsc, he, hl]; rfl

theorem lexGo_hash (subs : Subs) (fuel pos : Nat) (s : Str) :
    lexGo subs (fuel + 1) pos (35 :: s) =
      match header subs pos (35 :: s) with
      | some (toks, p, rest) => toks ++ lexGo subs fuel p rest
      | none =>
        match lastNl (35 :: s) with
        | some n => ⟨pos, .other, (35 :: s).take n⟩ :: lexGo subs fuel (pos + n) ((35 :: s).drop n)
        | none => ⟨pos, .error, [35]⟩ :: lexGo subs fuel (pos + 1) s := by
  rw [lexGo_succ]; rfl

theorem Sec.Benign.text_hash {s : Sec} (hb : s.Benign) (rest : Str) : ∃ r, s.text ++ rest = 35 :: r := by
  have hmem := hb.mem_tags
  have : ∃ t, s.tag = 35 :: t := by
    generalize s.head = k at hmem
    generalize s.tag = tag at hmem
    simp only [tags, List.mem_cons, Prod.mk.injEq, List.not_mem_nil, or_false] at hmem
    rcases hmem with ⟨-, rfl⟩ | ⟨-, rfl⟩ | ⟨-, rfl⟩ | ⟨-, rfl⟩ | ⟨-, rfl⟩ | ⟨-, rfl⟩ | ⟨-, rfl⟩ |
      ⟨-, rfl⟩ | ⟨-, rfl⟩ | ⟨-, rfl⟩ <;> exact ⟨_, rfl⟩
  obtain ⟨t, ht⟩ := this
  rw [Sec.text, ht]; exact ⟨_, rfl⟩

theorem restOK_secs (secs : List Sec) (hb : ∀ s ∈ secs, s.Benign) (hd : ∀ r ∈ secs, t!"#." <+: r.tag) :
    RestOK (secs.flatMap Sec.text) := by
  cases secs with
  | nil => exact .inl rfl
  | cons s secs =>
    right
    have hbs := hb s (List.mem_cons_self ..)
    have := endSection_tag hbs.mem_tags (hd s (List.mem_cons_self ..))
      ((match s.attrs with | none => [] | some a => 32 :: a) ++ [10] ++ s.content ++ secs.flatMap Sec.text)
    simpa [Sec.text] using this

theorem lexGo_secs {subs : Subs} (hq : SubsQuiet subs) :
    ∀ (secs : List Sec), (∀ s ∈ secs, s.Benign) → (∀ r ∈ secs.tail, t!"#." <+: r.tag) →
    ∀ (fuel pos : Nat), (secs.flatMap Sec.text).length < fuel →
      ((lexGo subs fuel pos (secs.flatMap Sec.text)).filter (·.kind == .tag)).map (·.val) = secs.map (·.tag) ∧
      ∀ t ∈ lexGo subs fuel pos (secs.flatMap Sec.text), t.kind ≠ .error := by
  intro secs
  induction secs with
  | nil => intro _ _ fuel pos _; simp [lexGo_nil]
  | cons s secs ih =>
    intro hb hd fuel pos hlen
    cases fuel with
    | zero => omega
    | succ fuel =>
      have hbs := hb s (List.mem_cons_self ..)
      have hrest := restOK_secs secs (fun x hx => hb x (List.mem_cons_of_mem _ hx)) hd
      obtain ⟨l, p, hh, hlq⟩ := header_sec hq s hbs _ hrest pos
      obtain ⟨r, hr⟩ := hbs.text_hash (secs.flatMap Sec.text)
      have hlen' : (secs.flatMap Sec.text).length < fuel := by
        have : 0 < s.text.length := by
          unfold Sec.text; simp only [List.length_append, List.length_cons, List.length_nil]; omega
        simp only [List.flatMap_cons, List.length_append] at hlen; omega
      obtain ⟨ih1, ih2⟩ := ih (fun x hx => hb x (List.mem_cons_of_mem _ hx))
        (fun x hx => hd x (List.mem_of_mem_tail hx)) fuel p hlen'
      have hstep : lexGo subs (fuel + 1) pos ((s :: secs).flatMap Sec.text) =
          (⟨pos, .tag, s.tag⟩ :: l) ++ lexGo subs fuel p (secs.flatMap Sec.text) := by
        rw [List.flatMap_cons]
        rw [hr] at hh ⊢
        rw [lexGo_hash, hh]
      rw [hstep]
      constructor
      · simp [List.filter_append, hlq.filter, ih1]
      · intro t ht
        simp only [List.cons_append, List.mem_cons, List.mem_append] at ht
        rcases ht with rfl | ht | ht
        · simp
        · exact (hlq t ht).2
        · exact ih2 t ht

/-- **Headers are tagged exactly, no error token** -/
theorem lex_headers (subs : Subs) (hl : SubsLossless subs) (hq : SubsQuiet subs) (secs : List Sec)
    (hb : ∀ s ∈ secs, s.Benign) (hd : Document secs) :
    let toks := lex subs (secs.flatMap Sec.text)
    (toks.filter (·.kind == .tag)).map (·.val) = secs.map (·.tag) ∧
    ∀ t ∈ toks, t.kind ≠ .error := by
  have _ := hl
  have htail : ∀ r ∈ secs.tail, t!"#." <+: r.tag := by
    cases secs with
    | nil => simp
    | cons s rest => exact hd.2
  exact lexGo_secs hq secs hb htail _ 0 (Nat.lt_succ_self _)


end Diffx.Lexer

