import DiffxVerif.Model.Reader
import DiffxVerif.Lemmas.Split
import DiffxVerif.Lemmas.Stream
import DiffxVerif.Lemmas.Header
/-!
# Totality and error positions of the streaming reader

Core Lean only.  Support for `Properties/C08.lean`:

* `readContent_spec` (`RCSpec`), `readHeader_spec` (`RHSpec`), `stepSection_spec`
  (`SSSpec`): inversion lemmas — everything the three functions can return, as one
  predicate on the result (`…_ok` / `…_error` are the instances for a known result);
* `stepSection_progress`: a yielded section strictly shortens the unread suffix
  (every chunk size, `chunk = 0` included);
* `stepSection_mu`: the measure `Loop.mu l = linenum + countLF rest` does not grow;
* `stepSection_error` (`ErrPos`): what a failing section can report, and why;
* `readLoop_fuel_irrelevant`, `readLoop_not_outOfFuel`, `readLoop_stop` (loop
  induction with an invariant), `readLoop_inv` (line numbers), `readLoop_column`.

The proofs about the two large `do` blocks go through the join points of the
elaborated term one at a time (`extract_lets`, a fact about each continuation,
`clear_value`), so that no continuation is ever duplicated.
-/
namespace Diffx.Reader
open Diffx Diffx.Header

/-! ## hypotheses on the environment (used by `Properties/C08.lean`) -/

/-- the environment answers every call (no `missing`): true of CPython -/
def EnvTotal (env : Env) : Prop :=
  (∀ n q, env.canon n ≠ .missing q) ∧ (∀ n t q, env.encode n t ≠ .missing q) ∧
  (∀ n b q, env.decode n b ≠ .missing q) ∧ (∀ t q, env.loadsText t ≠ .missing q) ∧
  (∀ b q, env.loadsBytes b ≠ .missing q) ∧ (∀ j q, env.dumps j ≠ .missing q)

/-- no codec encodes LF / CRLF as the empty byte string (after BOM removal) -/
def NlNonempty (env : Env) (cfg : Config) : Prop :=
  ∀ e dos raw b, env.encode e (nlText dos) = .ok raw → stripBom env cfg raw (some e) = .ok b → b ≠ []

/-- every encoded newline contains the byte LF (false for EBCDIC code pages:
known finding D21) -/
def NlHasLF (env : Env) (cfg : Config) : Prop :=
  ∀ e dos raw b, env.encode e (nlText dos) = .ok raw → stripBom env cfg raw (some e) = .ok b → (10 : UInt8) ∈ b

def countLF (d : Bytes) : Nat := d.count 10

/-! ## lines -/

theorem countLF_append (a b : Bytes) : countLF (a ++ b) = countLF a + countLF b := by
  simp [countLF]

theorem countLF_pos_of_mem {l : Bytes} (h : (10 : UInt8) ∈ l) : 0 < countLF l := by
  unfold countLF; exact List.count_pos_iff.mpr h

theorem findSub_single_mem_take (c : UInt8) (l : Bytes) (i : Nat) (h : findSub [c] l = some i) :
    c ∈ l.take (i + 1) := by
  induction l generalizing i with
  | nil => simp [findSub_single_nil] at h
  | cons b r ih =>
    rw [findSub_single_cons] at h
    by_cases hcb : c = b
    · simp [hcb]
    · simp only [hcb, if_false] at h
      cases hr : findSub [c] r with
      | none => simp [hr] at h
      | some j =>
        simp [hr] at h
        subst h
        simp [ih j hr]

theorem readUntil_zero (c : UInt8) (rest : Bytes) : (readUntil 0 c rest).2.1 = true := by
  simp [readUntil, readUntilGo]

/-- `readUntil` when it does not report eof -/
theorem readUntil_noeof (chunk : Nat) (c : UInt8) (rest line rest' : Bytes)
    (h : readUntil chunk c rest = (line, false, rest')) :
    rest = line ++ rest' ∧ c ∈ line := by
  cases chunk with
  | zero => have := readUntil_zero c rest; rw [h] at this; simp at this
  | succ k =>
    rw [readUntil_eq_spec (k+1) (by omega)] at h
    unfold readLineSpec at h
    cases hf : findSub [c] rest with
    | none => rw [hf] at h; simp at h
    | some i =>
      rw [hf] at h
      simp only [Prod.mk.injEq, true_and] at h
      obtain ⟨rfl, rfl⟩ := h
      exact ⟨by simp, findSub_single_mem_take c rest i hf⟩

/-- the line returned by `nextLine` (any chunk size): a piece of the input containing LF -/
theorem nextLine_spec (chunk fuel : Nat) (rest line rest' : Bytes)
    (h : nextLine chunk fuel rest = some (line, rest')) :
    ∃ pre, rest = pre ++ line ++ rest' ∧ (10 : UInt8) ∈ line := by
  induction fuel generalizing rest with
  | zero => simp [nextLine] at h
  | succ fuel ih =>
    rw [nextLine] at h
    rcases hr : readUntil chunk 10 rest with ⟨ln, eof, r'⟩
    rw [hr] at h
    simp only at h
    cases eof with
    | true => simp at h
    | false =>
      obtain ⟨e1, e2⟩ := readUntil_noeof chunk 10 rest ln r' hr
      simp only [Bool.false_eq_true, if_false] at h
      split at h
      · simp only [Option.some.injEq, Prod.mk.injEq] at h
        obtain ⟨rfl, rfl⟩ := h
        exact ⟨[], by simpa using e1, e2⟩
      · obtain ⟨pre, hp, hm⟩ := ih r' h
        exact ⟨ln ++ pre, by rw [e1, hp]; simp, hm⟩

/-! ## header columns -/

theorem findSub_some_le (p l : Bytes) (i : Nat) (h : findSub p l = some i) :
    i + p.length ≤ l.length := by
  induction l generalizing i with
  | nil =>
    simp only [findSub] at h
    split at h
    · cases p <;> simp_all
      omega
    · simp at h
  | cons b r ih =>
    simp only [findSub] at h
    split at h
    · rename_i hp
      simp only [Option.some.injEq] at h; subst h
      have := List.IsPrefix.length_le (List.isPrefixOf_iff_prefix.mp hp)
      omega
    · cases hr : findSub p r with
      | none => simp [hr] at h
      | some j =>
        simp [hr] at h
        have := ih j hr
        subst h; simp; omega

theorem splitEq1_length (cur p k v : Bytes) (h : splitEq1 cur p = some (k, v)) :
    cur.length + p.length = k.length + 1 + v.length := by
  fun_induction splitEq1 cur p
  · simp at h
  · simp at h; obtain ⟨rfl, rfl⟩ := h; simp; omega
  · rename_i ih; have := ih h; simp at this ⊢; omega

theorem splitCommaSpace_length (cur o : Bytes) :
    ∀ p ∈ splitCommaSpace cur o, p.length ≤ cur.length + o.length := by
  fun_induction splitCommaSpace cur o
  · simp
  · rename_i ih
    intro p hp
    simp at hp
    rcases hp with rfl | hp
    · simp
    · have := ih p hp; simp at this ⊢; omega
  · rename_i ih
    intro p hp
    have := ih p hp; simp at this ⊢; omega

/-- the column carried by an option error lies inside the header -/
def Err.colLe (n : Nat) : Err → Prop
  | .badKey c => c ≤ n
  | .badVal c => c ≤ n
  | _ => True

theorem parseOpts_col (header : Bytes) (ps : List Bytes) (acc : Opts) (e : Err)
    (hps : ∀ p ∈ ps, p.length ≤ header.length)
    (h : parseOpts header ps acc = .error e) : Err.colLe header.length e := by
  induction ps generalizing acc with
  | nil => simp [parseOpts] at h
  | cons p ps ih =>
    rw [parseOpts] at h
    have hp := hps p (by simp)
    split at h
    · cases h; trivial
    · rename_i k v hkv
      have hl := splitEq1_length [] p k v hkv
      simp only [List.length_nil, Nat.zero_add] at hl
      have hcol : (findSub p header).getD 0 + p.length ≤ header.length := by
        cases hf : findSub p header with
        | none => simpa using hp
        | some i => simpa using findSub_some_le p header i hf
      simp only at h
      split at h
      · cases h; simp only [Err.colLe]; omega
      · split at h
        · cases h; simp only [Err.colLe]; omega
        · exact ih _ (fun q hq => hps q (by simp [hq])) h

theorem structure?_opts_length (h : Bytes) (sec : SecId) (o : Bytes)
    (hs : structure? h = some (sec, some o)) : o.length ≤ h.length := by
  unfold structure? at hs
  split at hs
  · rename_i r
    simp only at hs
    split at hs
    · simp at hs
    · split at hs
      · simp at hs
      · rename_i n _
        split at hs
        · simp at hs
        · rename_i o' ho
          split at hs
          · simp only [Option.some.injEq, Prod.mk.injEq] at hs
            obtain ⟨_, rfl⟩ := hs
            have := congrArg List.length ho
            simp at this ⊢
            omega
          · simp at hs
        · simp at hs
  · simp at hs

theorem parseHeader_col (valid : List SecId) (h : Bytes) (e : Err)
    (he : parseHeader valid h = .error e) : Err.colLe h.length e := by
  unfold parseHeader at he
  split at he
  · cases he; trivial
  · rename_i sec o hs
    split at he
    · cases he; trivial
    · split at he
      · simp at he
      · rename_i o'
        have hol := structure?_opts_length h sec o' hs
        split at he
        · simp at he
        · rename_i e' hpo
          cases he
          refine parseOpts_col h _ [] _ ?_ hpo
          intro p hp
          have := splitCommaSpace_length [] o' p hp
          simp at this; omega

/-! ## `readContent` -/

theorem sat_bind {α β} (P : M α → Prop) (x : M β) (f : β → M α)
    (he : ∀ e, x = .error e → P (.error e)) (hk : ∀ b, x = .ok b → P (f b)) : P (x >>= f) := by
  cases x with
  | error e => exact he e rfl
  | ok b => exact hk b rfl

theorem guess_ok (env : Env) (cfg : Config) (ln : Nat) (content : Bytes) (enc : Option Name) (x : Bool × Bytes)
    (h : guessLineEndings env cfg ln content enc = .ok x) :
    ∃ dos, newlineFor env cfg ln dos enc = .ok x.2 := by
  unfold guessLineEndings at h
  simp only [bind, Except.bind, pure, Except.pure] at h
  split at h
  · simp at h
  · split at h
    · simp at h
    · rename_i u hu ds hd
      split at h
      · split at h
        · cases h; exact ⟨true, hd⟩
        · cases h; exact ⟨false, by assumption⟩
      · cases h; exact ⟨false, by assumption⟩

theorem guess_err (env : Env) (cfg : Config) (ln : Nat) (content : Bytes) (enc : Option Name) (o : Outcome)
    (h : guessLineEndings env cfg ln content enc = .error o) :
    ∃ dos, newlineFor env cfg ln dos enc = .error o := by
  unfold guessLineEndings at h
  simp only [bind, Except.bind, pure, Except.pure] at h
  split at h
  · rename_i e he; cases h; exact ⟨false, he⟩
  · split at h
    · rename_i e he; cases h; exact ⟨true, he⟩
    · split at h
      · split at h <;> simp at h
      · simp at h

/-- everything `readContent` can return -/
def RCSpec (env : Env) (cfg : Config) (st : St) (length : Nat) : M (Got × St) → Prop
  | .ok (_, st') =>
    ∃ newline dos enc, newlineFor env cfg st.linenum dos enc = .ok newline ∧ newline ≠ [] ∧
      endsWith (st.rest.take length) newline = true ∧
      st' = { st with rest := st.rest.drop length,
                      linenum := st.linenum + (splitLines (st.rest.take length) newline true).length }
  | .error o =>
    o = .parseError st.linenum none ∨
    (∃ dos enc, newlineFor env cfg st.linenum dos enc = .error o) ∨
    (o = .assertion ∧ ∃ dos enc, newlineFor env cfg st.linenum dos enc = .ok []) ∨
    (∃ e c, liftEnv st.linenum (env.decode e c) = .error o)

theorem readContent_spec (env : Env) (cfg : Config) (st : St) (length : Nat) (encoding indent le : Option OptVal)
    (kb : Bool) : RCSpec env cfg st length (readContent env cfg st length encoding indent le kb) := by
  have hperr : RCSpec env cfg st length (.error (.parseError st.linenum none)) := Or.inl rfl
  unfold readContent
  extract_lets ln perr content rest leGiven jp1
  clear_value leGiven
  have h1 : ∀ enc, RCSpec env cfg st length (jp1 enc) := by
    intro enc
    simp -zeta only [jp1]
    extract_lets jpNl kLe kStrict kEmpty
    have hNl : ∀ nl, (∃ dos, newlineFor env cfg ln dos enc = .ok nl) → RCSpec env cfg st length (jpNl nl) := by
      intro nl hnl
      simp -zeta only [jpNl]
      extract_lets lines jpInd kInd kEnds
      have hInd : nl ≠ [] → endsWith content nl = true → ∀ ind, RCSpec env cfg st length (jpInd ind) := by
        intro hne hends ind
        have hok : ∀ g, RCSpec env cfg st length
            (.ok (g, { rest := rest, linenum := ln + lines.length, fileCrlf := st.fileCrlf })) := by
          intro g
          obtain ⟨dos, hd⟩ := hnl
          exact ⟨nl, dos, enc, hd, hne, hends, rfl⟩
        simp -zeta only [jpInd]
        extract_lets content'
        split
        · refine sat_bind _ _ _ (fun e he => Or.inr (Or.inr (Or.inr ⟨_, _, he⟩))) (fun t _ => ?_)
          refine sat_bind _ _ _ (fun e he => Or.inr (Or.inr (Or.inr ⟨_, _, he⟩))) (fun nlT _ => ?_)
          extract_lets k
          split
          · exact hperr
          · exact hok _
        · split
          · exact hperr
          · exact hok _
      clear_value jpInd
      have hkInd : nl ≠ [] → endsWith content nl = true → ∀ u, RCSpec env cfg st length (kInd u) := by
        intro hne hends _
        simp -zeta only [kInd]
        split
        · exact hInd hne hends _
        · split
          · exact hperr
          · exact hInd hne hends _
        · exact hperr
      clear_value kInd
      have hkEnds : nl ≠ [] → ∀ u, RCSpec env cfg st length (kEnds u) := by
        intro hne _
        simp -zeta only [kEnds]
        split
        · exact hperr
        · rename_i hc
          exact hkInd hne (by simpa using hc) _
      clear_value kEnds
      split
      · rename_i hc
        have : nl = [] := by simpa using hc
        subst this
        obtain ⟨dos, hd⟩ := hnl
        exact Or.inr (Or.inr (Or.inl ⟨rfl, dos, enc, hd⟩))
      · rename_i hc
        exact hkEnds (by simpa using hc) _
    clear_value jpNl
    have hkLe : ∀ u, RCSpec env cfg st length (kLe u) := by
      intro _
      simp -zeta only [kLe]
      split
      · split
        · exact sat_bind _ _ _ (fun e he => Or.inr (Or.inl ⟨_, _, he⟩)) (fun b hb => hNl b ⟨_, hb⟩)
        · split
          · exact sat_bind _ _ _ (fun e he => Or.inr (Or.inl ⟨_, _, he⟩)) (fun b hb => hNl b ⟨_, hb⟩)
          · exact hperr
      · exact hperr
      · refine sat_bind _ _ _ (fun e he => ?_) (fun b hb => ?_)
        · obtain ⟨d, hd⟩ := guess_err _ _ _ _ _ _ he
          exact Or.inr (Or.inl ⟨_, _, hd⟩)
        · obtain ⟨d, hd⟩ := guess_ok _ _ _ _ _ _ hb
          exact hNl b.2 ⟨d, hd⟩
    clear_value kLe
    have hkStrict : ∀ u, RCSpec env cfg st length (kStrict u) := by
      intro _
      simp -zeta only [kStrict]
      split
      · exact hperr
      · exact hkLe _
    clear_value kStrict
    have hkEmpty : ∀ u, RCSpec env cfg st length (kEmpty u) := by
      intro _
      simp -zeta only [kEmpty]
      split
      · exact hperr
      · exact hkStrict _
    clear_value kEmpty
    split
    · exact hperr
    · exact hkEmpty _
  clear_value jp1
  split
  · exact h1 _
  · exact h1 _
  · exact hperr

/-! ## `stepSection` -/

/-- everything `stepSection` can return, in terms of `readHeader` and `readContent` -/
def SSSpec (env : Env) (cfg : Config) (chunk : Nat) (l : Loop) : M (Option (Record × Loop)) → Prop
  | .ok none => readHeader chunk l.valid l.st = .ok none
  | .ok (some (r, l')) =>
    ∃ hdr st, readHeader chunk l.valid l.st = .ok (some (hdr, r.line, st)) ∧
      r.sec = hdr.sec ∧ r.opts = hdr.opts ∧ l'.valid = validNext hdr.sec ∧
      (l'.st = st ∨ ∃ len enc ind le kb got, readContent env cfg st len enc ind le kb = .ok (got, l'.st))
  | .error o =>
    readHeader chunk l.valid l.st = .error o ∨
    ∃ hdr ln st, readHeader chunk l.valid l.st = .ok (some (hdr, ln, st)) ∧
      (o = .parseError ln none ∨
       (∃ len enc ind le kb, readContent env cfg st len enc ind le kb = .error o) ∨
       (∃ t, liftEnv ln (env.loadsText t) = .error o) ∨
       (∃ b, liftEnv ln (env.loadsBytes b) = .error o))

theorem stepSection_spec (env : Env) (cfg : Config) (chunk : Nat) (l : Loop) :
    SSSpec env cfg chunk l (stepSection env cfg chunk l) := by
  unfold stepSection
  refine sat_bind _ _ _ (fun e he => Or.inl he) (fun b hb => ?_)
  split
  · exact hb
  · rename_i hdr linenum st
    have hperr : SSSpec env cfg chunk l (.error (.parseError linenum none)) :=
      Or.inr ⟨hdr, linenum, st, hb, Or.inl rfl⟩
    have hrc : ∀ len enc ind le kb e, readContent env cfg st len enc ind le kb = .error e →
        SSSpec env cfg chunk l (.error e) :=
      fun len enc ind le kb e he => Or.inr ⟨hdr, linenum, st, hb, Or.inr (Or.inl ⟨len, enc, ind, le, kb, he⟩)⟩
    have hok : ∀ len enc ind le kb got st' c, readContent env cfg st len enc ind le kb = .ok (got, st') →
        SSSpec env cfg chunk l (.ok (some (⟨hdr.sec, linenum, hdr.opts, c⟩,
          { l with st := st', valid := validNext hdr.sec }))) :=
      fun len enc ind le kb got st' c h =>
        ⟨hdr, st, hb, rfl, rfl, rfl, Or.inr ⟨len, enc, ind, le, kb, got, h⟩⟩
    extract_lets sec opts perr next encoding jpLen k
    have hk : ∀ u, SSSpec env cfg chunk l (k u) := fun _ => ⟨hdr, st, hb, rfl, rfl, rfl, Or.inl rfl⟩
    clear_value k
    have hLen : ∀ len, SSSpec env cfg chunk l (jpLen len) := by
      intro len
      simp -zeta only [jpLen]
      split
      · refine sat_bind _ _ _ (fun e he => hrc _ _ _ _ _ e he) (fun b hb' => ?_)
        obtain ⟨got, st'⟩ := b
        exact hok _ _ _ _ _ _ _ _ hb'
      · split
        · extract_lets kFmt
          have hFmt : ∀ u, SSSpec env cfg chunk l (kFmt u) := by
            intro _
            simp -zeta only [kFmt]
            refine sat_bind _ _ _ (fun e he => hrc _ _ _ _ _ e he) (fun b hb' => ?_)
            obtain ⟨got, st'⟩ := b
            extract_lets jpJ
            have hJ : ∀ j, SSSpec env cfg chunk l (jpJ j) := by
              intro j
              simp -zeta only [jpJ]
              extract_lets kObj
              split
              · exact hperr
              · exact hok _ _ _ _ _ _ _ _ hb'
            clear_value jpJ
            split
            · exact sat_bind _ _ _ (fun e he => Or.inr ⟨hdr, linenum, st, hb, Or.inr (Or.inr (Or.inl ⟨_, he⟩))⟩)
                (fun j _ => hJ j)
            · exact sat_bind _ _ _ (fun e he => Or.inr ⟨hdr, linenum, st, hb, Or.inr (Or.inr (Or.inr ⟨_, he⟩))⟩)
                (fun j _ => hJ j)
          clear_value kFmt
          split
          · split
            · exact hperr
            · exact hFmt _
          · exact hFmt _
        · refine sat_bind _ _ _ (fun e he => hrc _ _ _ _ _ e he) (fun b hb' => ?_)
          obtain ⟨got, st'⟩ := b
          exact hok _ _ _ _ _ _ _ _ hb'
    clear_value jpLen
    split
    · split
      · exact hperr
      · exact hperr
      · split
        · exact hperr
        · exact hLen _
    · split
      · split
        · split
          · exact hk _
          · exact hperr
        · exact hperr
      · exact hk _

/-! ## environment answers -/

/-- some environment call is unanswered with question `q` -/
def EnvMissing (env : Env) (q : String) : Prop :=
  (∃ n, env.canon n = .missing q) ∨ (∃ n t, env.encode n t = .missing q) ∨
  (∃ n b, env.decode n b = .missing q) ∨ (∃ t, env.loadsText t = .missing q) ∨
  (∃ b, env.loadsBytes b = .missing q)

theorem EnvTotal.not_missing {env : Env} (ht : EnvTotal env) (q : String) : ¬ EnvMissing env q := by
  obtain ⟨h1, h2, h3, h4, h5, _⟩ := ht
  rintro (⟨n, h⟩ | ⟨n, t, h⟩ | ⟨n, b, h⟩ | ⟨t, h⟩ | ⟨b, h⟩)
  · exact h1 _ _ h
  · exact h2 _ _ _ h
  · exact h3 _ _ _ h
  · exact h4 _ _ h
  · exact h5 _ _ h

theorem liftEnv_error {α} (ln : Nat) (x : EnvR α) (o : Outcome) (h : liftEnv ln x = .error o) :
    o = .parseError ln none ∨ ∃ q, o = .needEnv q ∧ x = .missing q := by
  cases x with
  | ok a => simp [liftEnv] at h
  | err => simp [liftEnv] at h; exact Or.inl h.symm
  | missing q => simp [liftEnv] at h; exact Or.inr ⟨q, h.symm, rfl⟩

theorem liftEnv_ok {α} (ln : Nat) (x : EnvR α) (a : α) (h : liftEnv ln x = .ok a) : x = .ok a := by
  cases x <;> simp [liftEnv] at h; rw [h]

theorem stripBom_missing (env : Env) (cfg : Config) (raw : Bytes) (e : Name) (q : String)
    (h : stripBom env cfg raw (some e) = .missing q) : env.canon e = .missing q := by
  unfold stripBom at h
  simp only at h
  split at h <;> first | (simp at h; done) | (simp at h; subst h; assumption)

theorem newlineFor_ok (env : Env) (cfg : Config) (ln : Nat) (dos : Bool) (enc : Option Name) (b : Bytes)
    (h : newlineFor env cfg ln dos enc = .ok b) :
    ∃ e raw, env.encode e (nlText dos) = .ok raw ∧ stripBom env cfg raw (some e) = .ok b := by
  unfold newlineFor at h
  simp only [bind, Except.bind] at h
  split at h
  · simp at h
  · rename_i raw hraw
    exact ⟨_, raw, liftEnv_ok _ _ _ hraw, liftEnv_ok _ _ _ h⟩

theorem newlineFor_error (env : Env) (cfg : Config) (ln : Nat) (dos : Bool) (enc : Option Name) (o : Outcome)
    (h : newlineFor env cfg ln dos enc = .error o) :
    o = .parseError ln none ∨ ∃ q, o = .needEnv q ∧ EnvMissing env q := by
  unfold newlineFor at h
  simp only [bind, Except.bind] at h
  split at h
  · rename_i e he
    cases h
    rcases liftEnv_error _ _ _ he with h | ⟨q, h1, h2⟩
    · exact Or.inl h
    · exact Or.inr ⟨q, h1, Or.inr (Or.inl ⟨_, _, h2⟩)⟩
  · rcases liftEnv_error _ _ _ h with h | ⟨q, h1, h2⟩
    · exact Or.inl h
    · exact Or.inr ⟨q, h1, Or.inl ⟨_, stripBom_missing _ _ _ _ _ h2⟩⟩

/-! ## `readHeader` -/

/-- everything `readHeader` can return: the header line is a piece of the unread
suffix containing LF; errors carry the current line number and a column inside
the header line -/
def RHSpec (chunk : Nat) (valid : List SecId) (st : St) : M (Option (Hdr × Nat × St)) → Prop
  | .ok none => nextLine chunk (st.rest.length + 1) st.rest = none
  | .ok (some (hdr, ln, st')) =>
    ln = st.linenum ∧ st'.linenum = st.linenum + 1 ∧
    ∃ pre header nl, st.rest = pre ++ header ++ st'.rest ∧ (10 : UInt8) ∈ header ∧
      (nl = [10] ∨ nl = [13, 10]) ∧ endsWith header nl = true ∧
      parseHeader valid (header.take (header.length - nl.length)) = .ok hdr
  | .error o =>
    ∃ pre header rest', st.rest = pre ++ header ++ rest' ∧ (10 : UInt8) ∈ header ∧
      ∃ c, o = .parseError st.linenum c ∧ ∀ c', c = some c' → c' < header.length

theorem readHeader_spec (chunk : Nat) (valid : List SecId) (st : St) :
    RHSpec chunk valid st (readHeader chunk valid st) := by
  unfold readHeader
  extract_lets linenum
  split
  · assumption
  · rename_i header rest' hnl
    obtain ⟨pre, hpre, hmem⟩ := nextLine_spec _ _ _ _ _ hnl
    extract_lets crlf nl h
    have hnlc : nl = [10] ∨ nl = [13, 10] := by
      simp only [nl]; cases crlf <;> simp
    have hnlpos : 0 < nl.length := by rcases hnlc with h | h <;> simp [h]
    have hhpos : 0 < header.length := List.length_pos_of_mem hmem
    clear_value nl crlf
    split
    · exact ⟨pre, header, rest', hpre, hmem, none, rfl, by simp⟩
    · rename_i hends
      have hlt : h.length < header.length := by simp only [h, List.length_take]; omega
      have herr : ∀ e, parseHeader valid h = .error e → Err.colLe h.length e := parseHeader_col valid h
      have hh : h = header.take (header.length - nl.length) := rfl
      clear_value h
      split
      · rename_i c hc
        have := herr _ hc
        simp only [Err.colLe] at this
        exact ⟨pre, header, rest', hpre, hmem, some c, rfl, by intro c' hc'; cases hc'; omega⟩
      · rename_i c hc
        have := herr _ hc
        simp only [Err.colLe] at this
        exact ⟨pre, header, rest', hpre, hmem, some c, rfl, by intro c' hc'; cases hc'; omega⟩
      · exact ⟨pre, header, rest', hpre, hmem, none, rfl, by simp⟩
      · rename_i hdr hok
        exact ⟨rfl, rfl, pre, header, nl, hpre, hmem, hnlc, by simpa using hends, hh ▸ hok⟩

/-! ## number of lines of a content that ends with its newline -/

theorem splitLines_length_of_suffix (nl data : Bytes) (hn : nl ≠ []) (hs : endsWith data nl = true) :
    (splitLines data nl true).length = countOcc nl data := by
  obtain ⟨init, last, h1, _, h3⟩ := splitGo_decomp nl hn data 0 []
  unfold endsWith at hs
  unfold splitLines pySplit
  simp only [hs, if_true, h1]
  simp [countOcc, h3]

theorem countGo_le_countLF (nl : Bytes) (hm : (10 : UInt8) ∈ nl) (d : Bytes) (skip : Nat) :
    countGo nl skip d ≤ countLF (d.drop skip) := by
  induction d generalizing skip with
  | nil => simp [countGo]
  | cons x xs ih =>
    cases skip with
    | succ k => simpa [countGo] using ih k
    | zero =>
      by_cases hp : nl.isPrefixOf (x :: xs) = true
      · rw [countGo, if_pos hp]
        have h := ih (nl.length - 1)
        obtain ⟨rest, hr⟩ := List.isPrefixOf_iff_prefix.mp hp
        have hpos : 0 < nl.length := List.length_pos_of_mem hm
        have e : xs.drop (nl.length - 1) = rest := by
          have : xs.drop (nl.length - 1) = (x :: xs).drop nl.length := by
            cases hnl : nl.length with
            | zero => omega
            | succ k => simp
          rw [this, ← hr]; simp
        rw [e] at h
        have : countLF ((x :: xs).drop 0) = countLF nl + countLF rest := by
          rw [List.drop_zero, ← hr, countLF_append]
        have := countLF_pos_of_mem hm
        omega
      · rw [countGo, if_neg hp]
        have h := ih 0
        simp only [List.drop_zero] at h ⊢
        have : countLF xs ≤ countLF (x :: xs) := by
          unfold countLF; exact List.count_le_count_cons
        omega

theorem countOcc_le_countLF (nl : Bytes) (hm : (10 : UInt8) ∈ nl) (d : Bytes) :
    countOcc nl d ≤ countLF d := by
  simpa [countOcc] using countGo_le_countLF nl hm d 0

/-- the number of lines `readContent` adds to `linenum` is at most the number of LF bytes consumed -/
theorem lines_le_countLF (nl data : Bytes) (hm : (10 : UInt8) ∈ nl) (hs : endsWith data nl = true) :
    (splitLines data nl true).length ≤ countLF data := by
  rw [splitLines_length_of_suffix nl data (List.ne_nil_of_mem hm) hs]
  exact countOcc_le_countLF nl hm data

/-! ## one section: progress, line-number measure, error positions -/

theorem readHeader_ok (chunk : Nat) (valid : List SecId) (st : St) (hdr : Hdr) (ln : Nat) (st' : St)
    (h : readHeader chunk valid st = .ok (some (hdr, ln, st'))) :
    RHSpec chunk valid st (.ok (some (hdr, ln, st'))) := h ▸ readHeader_spec chunk valid st

theorem readHeader_error (chunk : Nat) (valid : List SecId) (st : St) (o : Outcome)
    (h : readHeader chunk valid st = .error o) :
    RHSpec chunk valid st (.error o) := h ▸ readHeader_spec chunk valid st

theorem readContent_ok (env : Env) (cfg : Config) (st : St) (length : Nat) (encoding indent le : Option OptVal)
    (kb : Bool) (got : Got) (st' : St)
    (h : readContent env cfg st length encoding indent le kb = .ok (got, st')) :
    RCSpec env cfg st length (.ok (got, st')) := h ▸ readContent_spec env cfg st length encoding indent le kb

theorem readContent_error (env : Env) (cfg : Config) (st : St) (length : Nat) (encoding indent le : Option OptVal)
    (kb : Bool) (o : Outcome)
    (h : readContent env cfg st length encoding indent le kb = .error o) :
    RCSpec env cfg st length (.error o) := h ▸ readContent_spec env cfg st length encoding indent le kb

theorem stepSection_ok (env : Env) (cfg : Config) (chunk : Nat) (l : Loop) (r : Record) (l' : Loop)
    (h : stepSection env cfg chunk l = .ok (some (r, l'))) :
    SSSpec env cfg chunk l (.ok (some (r, l'))) := h ▸ stepSection_spec env cfg chunk l

theorem stepSection_err (env : Env) (cfg : Config) (chunk : Nat) (l : Loop) (o : Outcome)
    (h : stepSection env cfg chunk l = .error o) :
    SSSpec env cfg chunk l (.error o) := h ▸ stepSection_spec env cfg chunk l

/-- **progress**: a yielded section strictly shortens the unread suffix (every chunk size) -/
theorem stepSection_progress (env : Env) (cfg : Config) (chunk : Nat) (l : Loop) (r : Record) (l' : Loop)
    (h : stepSection env cfg chunk l = .ok (some (r, l'))) :
    l'.st.rest.length < l.st.rest.length := by
  obtain ⟨hdr, st, hrh, _, _, _, hst⟩ := stepSection_ok _ _ _ _ _ _ h
  obtain ⟨_, _, pre, header, nl, hpre, hmem, _⟩ := readHeader_ok _ _ _ _ _ _ hrh
  have hpos : 0 < header.length := List.length_pos_of_mem hmem
  have h1 : st.rest.length < l.st.rest.length := by
    rw [hpre]; simp only [List.length_append]; omega
  rcases hst with hst | ⟨len, enc, ind, le, kb, got, hrc⟩
  · rw [hst]; exact h1
  · obtain ⟨newline, dos, enc', _, _, _, hst'⟩ := readContent_ok _ _ _ _ _ _ _ _ _ _ hrc
    rw [hst']; simp only [List.length_drop]; omega

/-- the line-number measure: `linenum` plus the LF bytes still unread -/
def Loop.mu (l : Loop) : Nat := l.st.linenum + countLF l.st.rest

/-- a yielded section does not increase the measure, and the record's line is below it -/
theorem stepSection_mu (env : Env) (cfg : Config) (chunk : Nat) (hl : NlHasLF env cfg) (l : Loop)
    (r : Record) (l' : Loop) (h : stepSection env cfg chunk l = .ok (some (r, l'))) :
    r.line = l.st.linenum ∧ r.line < l.mu ∧ l'.mu ≤ l.mu := by
  obtain ⟨hdr, st, hrh, _, _, _, hst⟩ := stepSection_ok _ _ _ _ _ _ h
  obtain ⟨hln, hst1, pre, header, nl, hpre, hmem, _⟩ := readHeader_ok _ _ _ _ _ _ hrh
  have hpos := countLF_pos_of_mem hmem
  have hc : countLF l.st.rest = countLF pre + countLF header + countLF st.rest := by
    rw [hpre, countLF_append, countLF_append]
  unfold Loop.mu
  refine ⟨hln, by omega, ?_⟩
  rcases hst with hst | ⟨len, enc, ind, le, kb, got, hrc⟩
  · rw [hst]; omega
  · obtain ⟨newline, dos, enc', hnl, _, hends, hst'⟩ := readContent_ok _ _ _ _ _ _ _ _ _ _ hrc
    obtain ⟨e, raw, he, hs⟩ := newlineFor_ok _ _ _ _ _ _ hnl
    have hm : (10 : UInt8) ∈ newline := hl e dos raw newline he hs
    have hlines := lines_le_countLF newline _ hm hends
    have hsplit : countLF st.rest = countLF (st.rest.take len) + countLF (st.rest.drop len) := by
      rw [← countLF_append, List.take_append_drop]
    rw [hst']
    simp only
    omega

/-- what a failing section can report: a parse error positioned at the header
line just read (line number at most one past the loop's, column inside the
header line), or one of the two artefacts with their cause -/
def ErrPos (env : Env) (cfg : Config) (l : Loop) (o : Outcome) : Prop :=
  (∃ n c, o = .parseError n c ∧ ∃ pre header rest', l.st.rest = pre ++ header ++ rest' ∧
      (10 : UInt8) ∈ header ∧ n ≤ l.st.linenum + 1 ∧ ∀ c', c = some c' → c' < header.length) ∨
  (o = .assertion ∧ ∃ e dos raw, env.encode e (nlText dos) = .ok raw ∧
      stripBom env cfg raw (some e) = .ok []) ∨
  (∃ q, o = .needEnv q ∧ EnvMissing env q)

/-- **error positions** -/
theorem stepSection_error (env : Env) (cfg : Config) (chunk : Nat) (l : Loop) (o : Outcome)
    (h : stepSection env cfg chunk l = .error o) : ErrPos env cfg l o := by
  rcases stepSection_err _ _ _ _ _ h with hrh | ⟨hdr, ln, st, hrh, hcase⟩
  · obtain ⟨pre, header, rest', hpre, hmem, c, ho, hc⟩ := readHeader_error _ _ _ _ hrh
    exact Or.inl ⟨_, c, ho, pre, header, rest', hpre, hmem, by omega, hc⟩
  · obtain ⟨hln, hst1, pre, header, nl, hpre, hmem, _⟩ := readHeader_ok _ _ _ _ _ _ hrh
    have pe : ∀ n, n ≤ l.st.linenum + 1 → ErrPos env cfg l (.parseError n none) :=
      fun n hn => Or.inl ⟨n, none, rfl, pre, header, st.rest, hpre, hmem, hn, by simp⟩
    have lift : ∀ {α} (x : EnvR α) n, n ≤ l.st.linenum + 1 → (∀ q, x = .missing q → EnvMissing env q) →
        liftEnv n x = .error o → ErrPos env cfg l o := by
      intro α x n hn hm hx
      rcases liftEnv_error _ _ _ hx with h | ⟨q, h1, h2⟩
      · rw [h]; exact pe n hn
      · exact Or.inr (Or.inr ⟨q, h1, hm q h2⟩)
    have nlerr : ∀ dos enc, newlineFor env cfg st.linenum dos enc = .error o → ErrPos env cfg l o := by
      intro dos enc hx
      rcases newlineFor_error _ _ _ _ _ _ hx with h | ⟨q, h1, h2⟩
      · rw [h]; exact pe _ (by omega)
      · exact Or.inr (Or.inr ⟨q, h1, h2⟩)
    rcases hcase with rfl | ⟨len, enc, ind, le, kb, hrc⟩ | ⟨t, ht⟩ | ⟨b, hb⟩
    · exact pe _ (by omega)
    · rcases readContent_error _ _ _ _ _ _ _ _ _ hrc with rfl | ⟨dos, enc', hx⟩ | ⟨rfl, dos, enc', hx⟩ | ⟨e, c, hx⟩
      · exact pe _ (by omega)
      · exact nlerr _ _ hx
      · obtain ⟨e, raw, he, hs⟩ := newlineFor_ok _ _ _ _ _ _ hx
        exact Or.inr (Or.inl ⟨rfl, e, dos, raw, he, hs⟩)
      · exact lift _ _ (by omega) (fun q hq => Or.inr (Or.inr (Or.inl ⟨_, _, hq⟩))) hx
    · exact lift _ _ (by omega) (fun q hq => Or.inr (Or.inr (Or.inr (Or.inl ⟨_, hq⟩)))) ht
    · exact lift _ _ (by omega) (fun q hq => Or.inr (Or.inr (Or.inr (Or.inr ⟨_, hq⟩)))) hb

/-! ## the loop -/

theorem stepSection_not_outOfFuel (env : Env) (cfg : Config) (chunk : Nat) (l : Loop) :
    stepSection env cfg chunk l ≠ .error .outOfFuel := by
  intro h
  rcases stepSection_error _ _ _ _ _ h with ⟨n, c, h, _⟩ | ⟨h, _⟩ | ⟨q, h, _⟩ <;> cases h

/-- **fuel independence**: any two budgets above the length of the unread suffix give the same run -/
theorem readLoop_fuel_irrelevant (env : Env) (cfg : Config) (chunk : Nat) (f₁ f₂ : Nat) (l : Loop)
    (h₁ : l.st.rest.length < f₁) (h₂ : l.st.rest.length < f₂) :
    readLoop env cfg chunk f₁ l = readLoop env cfg chunk f₂ l := by
  induction f₁ generalizing f₂ l with
  | zero => omega
  | succ f₁ ih =>
    cases f₂ with
    | zero => omega
    | succ f₂ =>
      simp only [readLoop]
      cases hs : stepSection env cfg chunk l with
      | error o => rfl
      | ok x =>
        cases x with
        | none => rfl
        | some p =>
          obtain ⟨r, l'⟩ := p
          have := stepSection_progress _ _ _ _ _ _ hs
          simp only
          rw [ih f₂ l' (by omega) (by omega)]

/-- the budget is never the reason to stop -/
theorem readLoop_not_outOfFuel (env : Env) (cfg : Config) (chunk : Nat) (fuel : Nat) (l : Loop)
    (hf : l.st.rest.length < fuel) : (readLoop env cfg chunk fuel l).2 ≠ .outOfFuel := by
  induction fuel generalizing l with
  | zero => omega
  | succ fuel ih =>
    simp only [readLoop]
    cases hs : stepSection env cfg chunk l with
    | error o =>
      simp only
      intro h; subst h
      exact stepSection_not_outOfFuel _ _ _ _ hs
    | ok x =>
      cases x with
      | none => simp
      | some p =>
        obtain ⟨r, l'⟩ := p
        have := stepSection_progress _ _ _ _ _ _ hs
        exact ih l' (by omega)

/-- **loop induction**: an invariant preserved by every yielded section holds at
the state where iteration stops, and the outcome is that state's step result -/
theorem readLoop_stop (env : Env) (cfg : Config) (chunk : Nat) (Inv : Loop → Prop)
    (hstep : ∀ l r l', Inv l → stepSection env cfg chunk l = .ok (some (r, l')) → Inv l')
    (fuel : Nat) (l : Loop) (hi : Inv l) (hf : l.st.rest.length < fuel) :
    ∃ lf, Inv lf ∧ lf.st.rest.length ≤ l.st.rest.length ∧
      ((stepSection env cfg chunk lf = .ok none ∧ (readLoop env cfg chunk fuel l).2 = .done) ∨
       (stepSection env cfg chunk lf = .error (readLoop env cfg chunk fuel l).2)) := by
  induction fuel generalizing l with
  | zero => omega
  | succ fuel ih =>
    simp only [readLoop]
    cases hs : stepSection env cfg chunk l with
    | error o => exact ⟨l, hi, Nat.le_refl _, Or.inr hs⟩
    | ok x =>
      cases x with
      | none => exact ⟨l, hi, Nat.le_refl _, Or.inl ⟨hs, rfl⟩⟩
      | some p =>
        obtain ⟨r, l'⟩ := p
        have hp := stepSection_progress _ _ _ _ _ _ hs
        obtain ⟨lf, h1, h2, h3⟩ := ih l' (hstep _ _ _ hi hs) (by omega)
        exact ⟨lf, h1, by omega, h3⟩

/-- under a total environment with non-empty newlines a section fails only with a parse error -/
theorem stepSection_error_parse (env : Env) (cfg : Config) (chunk : Nat) (ht : EnvTotal env)
    (hn : NlNonempty env cfg) (l : Loop) (o : Outcome) (h : stepSection env cfg chunk l = .error o) :
    ∃ n c, o = .parseError n c := by
  rcases stepSection_error _ _ _ _ _ h with ⟨n, c, h, _⟩ | ⟨_, e, dos, raw, he, hs⟩ | ⟨q, _, hq⟩
  · exact ⟨n, c, h⟩
  · exact absurd rfl (hn e dos raw [] he hs)
  · exact absurd hq (ht.not_missing q)

theorem readLoop_outcome (env : Env) (cfg : Config) (chunk : Nat) (ht : EnvTotal env)
    (hn : NlNonempty env cfg) (fuel : Nat) (l : Loop) (hf : l.st.rest.length < fuel) :
    (readLoop env cfg chunk fuel l).2 = .done ∨ ∃ n c, (readLoop env cfg chunk fuel l).2 = .parseError n c := by
  obtain ⟨lf, _, _, h | h⟩ := readLoop_stop env cfg chunk (fun _ => True) (fun _ _ _ _ _ => trivial) fuel l trivial hf
  · exact Or.inl h.2
  · exact Or.inr (stepSection_error_parse env cfg chunk ht hn lf _ h)

/-- **the line-number invariant**: every yielded record starts below the measure
of the state it was read from, and a parse error's line number is at most it -/
theorem readLoop_inv (env : Env) (cfg : Config) (chunk : Nat) (hl : NlHasLF env cfg) (fuel : Nat) (l : Loop) :
    (∀ r ∈ (readLoop env cfg chunk fuel l).1, r.line < l.mu) ∧
    (∀ n c, (readLoop env cfg chunk fuel l).2 = .parseError n c → n ≤ l.mu) := by
  induction fuel generalizing l with
  | zero => simp [readLoop]
  | succ fuel ih =>
    simp only [readLoop]
    cases hs : stepSection env cfg chunk l with
    | error o =>
      refine ⟨by simp, ?_⟩
      intro n c ho
      simp only at ho
      subst ho
      rcases stepSection_error _ _ _ _ _ hs with ⟨n', c', h, pre, header, rest', hpre, hmem, hle, _⟩ | ⟨h, _⟩ | ⟨q, h, _⟩
      · cases h
        have hpos := countLF_pos_of_mem hmem
        unfold Loop.mu
        rw [hpre, countLF_append, countLF_append]
        omega
      · cases h
      · cases h
    | ok x =>
      cases x with
      | none => simp
      | some p =>
        obtain ⟨r, l'⟩ := p
        obtain ⟨_, h2, h3⟩ := stepSection_mu env cfg chunk hl l r l' hs
        obtain ⟨i1, i2⟩ := ih l'
        simp only
        refine ⟨?_, ?_⟩
        · intro r' hr'
          rcases List.mem_cons.mp hr' with rfl | hr'
          · exact h2
          · exact Nat.lt_of_lt_of_le (i1 r' hr') h3
        · intro n c ho
          exact Nat.le_trans (i2 n c ho) h3

/-- a reported column lies inside the unread suffix of the state the run started from -/
theorem readLoop_column (env : Env) (cfg : Config) (chunk : Nat) (fuel : Nat) (l : Loop) (n c : Nat)
    (h : (readLoop env cfg chunk fuel l).2 = .parseError n (some c)) : c < l.st.rest.length := by
  induction fuel generalizing l with
  | zero => simp [readLoop] at h
  | succ fuel ih =>
    simp only [readLoop] at h
    cases hs : stepSection env cfg chunk l with
    | error o =>
      rw [hs] at h
      simp only at h
      subst h
      rcases stepSection_error _ _ _ _ _ hs with ⟨n', c', h, pre, header, rest', hpre, _, _, hc⟩ | ⟨h, _⟩ | ⟨q, h, _⟩
      · cases h
        have := hc c rfl
        rw [hpre]; simp only [List.length_append]; omega
      · cases h
      · cases h
    | ok x =>
      rw [hs] at h
      cases x with
      | none => simp at h
      | some p =>
        obtain ⟨r, l'⟩ := p
        have hp := stepSection_progress _ _ _ _ _ _ hs
        have := ih l' h
        omega

/-! ## `readAll` -/

theorem readAll_not_outOfFuel (env : Env) (cfg : Config) (chunk : Nat) (data : Bytes) :
    (readAll env cfg chunk data).2 ≠ .outOfFuel :=
  readLoop_not_outOfFuel env cfg chunk _ _ (by simp [Loop.init])

theorem readAll_outcome (env : Env) (cfg : Config) (chunk : Nat) (data : Bytes)
    (ht : EnvTotal env) (hn : NlNonempty env cfg) :
    (readAll env cfg chunk data).2 = .done ∨ ∃ n c, (readAll env cfg chunk data).2 = .parseError n c :=
  readLoop_outcome env cfg chunk ht hn _ _ (by simp [Loop.init])

theorem Loop.mu_init (data : Bytes) : (Loop.init data).mu = countLF data := by
  simp [Loop.mu, Loop.init]

theorem readAll_linenum_le (env : Env) (cfg : Config) (chunk : Nat) (_hc : 0 < chunk) (data : Bytes)
    (hl : NlHasLF env cfg) (n : Nat) (c : Option Nat)
    (h : (readAll env cfg chunk data).2 = .parseError n c) : n ≤ countLF data := by
  have := (readLoop_inv env cfg chunk hl (data.length + 1) (Loop.init data)).2 n c h
  rwa [Loop.mu_init] at this

theorem readAll_record_lines (env : Env) (cfg : Config) (chunk : Nat) (_hc : 0 < chunk) (data : Bytes)
    (hl : NlHasLF env cfg) : ∀ r ∈ (readAll env cfg chunk data).1, r.line < countLF data := by
  intro r hr
  have := (readLoop_inv env cfg chunk hl (data.length + 1) (Loop.init data)).1 r hr
  rwa [Loop.mu_init] at this

theorem readAll_column_lt (env : Env) (cfg : Config) (chunk : Nat) (_hc : 0 < chunk) (data : Bytes)
    (n c : Nat) (h : (readAll env cfg chunk data).2 = .parseError n (some c)) : c < data.length :=
  readLoop_column env cfg chunk _ (Loop.init data) n c h

end Diffx.Reader
