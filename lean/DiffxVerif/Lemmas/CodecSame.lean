import DiffxVerif.Lemmas.Codec
import DiffxVerif.Lemmas.ReaderFrame
/-!
# Spelling independence of the whole content routines

Two names that the environment does not distinguish (`SameCodec`) give the same
result of `Reader.readContent` and of `Writer.prepareContent`.

As in `Lemmas/Codec.lean` the codec lookup must succeed (`hok`): when
`codecs.lookup` raises, `strip_bom` looks the BOM table up under the *spelling*
it was given, and two spellings can then be told apart by the table.

The reader is handled stage by stage (`ReaderFrame.readContent_eq`).
-/
namespace Diffx
open Diffx.Reader

theorem rcFinal_same (env : Env) (n₁ n₂ : Name) (h : SameCodec env n₁ n₂) (ln : Nat) (kb : Bool)
    (content0 newline : Bytes) (lines : List Bytes) (r : Bytes) (f : Option Bool) (ind : Nat) :
    rcFinal env ln (some n₁) kb content0 newline lines r f ind =
      rcFinal env ln (some n₂) kb content0 newline lines r f ind := by
  have h2 : env.decode n₁ = env.decode n₂ := funext h.2.2
  unfold rcFinal
  cases kb
  · simp only [h2]
  · rfl

theorem rcNl_same (env : Env) (n₁ n₂ : Name) (h : SameCodec env n₁ n₂) (ln : Nat) (kb : Bool) (content : Bytes)
    (indent : Option OptVal) (r : Bytes) (f : Option Bool) (newline : Bytes) :
    rcNl env ln (some n₁) kb content indent r f newline = rcNl env ln (some n₂) kb content indent r f newline := by
  unfold rcNl
  simp only [rcFinal_same env n₁ n₂ h]

theorem rcChecks_same (env : Env) (cfg : Config) (n₁ n₂ : Name) (h : SameCodec env n₁ n₂)
    (hok : ∃ c, env.canon n₁ = .ok c) (ln : Nat) (kb : Bool) (content : Bytes) (short : Bool) (length : Nat)
    (indent le : Option OptVal) (r : Bytes) (f : Option Bool) :
    rcChecks env cfg ln kb content short length indent le r f (some n₁) =
      rcChecks env cfg ln kb content short length indent le r f (some n₂) := by
  unfold rcChecks
  simp only [newlineFor_same env cfg ln _ n₁ n₂ h hok, guess_same env cfg ln _ n₁ n₂ h hok,
    rcNl_same env n₁ n₂ h]

/-- **Reader, whole content section**: two spellings of one codec give the same result -/
theorem readContent_same (env : Env) (cfg : Config) (st : Reader.St) (len : Nat) (b₁ b₂ : Bytes)
    (ind le : Option OptVal) (kb : Bool)
    (h : SameCodec env (Name.ofBytes b₁) (Name.ofBytes b₂))
    (hok : ∃ c, env.canon (Name.ofBytes b₁) = .ok c) :
    Reader.readContent env cfg st len (some (.str b₁)) ind le kb =
      Reader.readContent env cfg st len (some (.str b₂)) ind le kb := by
  rw [readContent_eq, readContent_eq]
  exact rcChecks_same env cfg _ _ h hok ..

/-- **Writer, whole content preparation**: two spellings of one codec give the same bytes -/
theorem prepareContent_same (env : Env) (cfg : Config) (st : Writer.St) (content : Writer.Arg)
    (indent : Option Int) (le : Option Text) (n₁ n₂ : Name) (inherit : Bool)
    (ht : Writer.truthy (some n₁) = true) (ht2 : Writer.truthy (some n₂) = true)
    (h : SameCodec env n₁ n₂) (hok : ∃ c, env.canon n₁ = .ok c) :
    Writer.prepareContent env cfg st content indent le (some n₁) inherit =
      Writer.prepareContent env cfg st content indent le (some n₂) inherit := by
  have h1 : env.encode n₁ = env.encode n₂ := funext h.2.1
  have hsb : ∀ data, stripBom env cfg data (some n₁) = stripBom env cfg data (some n₂) :=
    fun data => stripBom_same env cfg n₁ n₂ h data hok
  unfold Writer.prepareContent
  simp only [ht, ht2, Bool.not_true, Bool.false_and, Bool.false_eq_true, if_false, if_true, Option.getD_some,
    h1, hsb]

end Diffx
