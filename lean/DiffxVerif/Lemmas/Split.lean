import DiffxVerif.Model.Split
/-!
# Lemmas about `splitGo` / `pySplit` / `countOcc` / `splitLines`

Core Lean only.  The main structural fact is `pySplit_decomp`: for a non-empty
unbordered separator `nl`, `pySplit nl data = init ++ [last]` where
`data = (init.map (· ++ nl)).flatten ++ last`, every piece is `nl`-free,
`init.length = countOcc nl data`, and `data` ends with `nl` exactly when
`last = []` and `init ≠ []`.  The `splitLines` facts used by
`Properties/C16.lean` follow by case analysis.
-/
namespace Diffx
variable {α : Type} [DecidableEq α]

/-! ## scanning -/

theorem splitGo_skip (sep : List α) (cur : List α) (pre rest : List α) :
    splitGo sep pre.length cur (pre ++ rest) = splitGo sep 0 cur rest := by
  induction pre with
  | nil => simp
  | cons p ps ih => simpa [splitGo] using ih

omit [DecidableEq α] in
/-- a non-empty proper suffix of an unbordered `nl` followed by anything does not start with `nl` -/
theorem no_overlap (nl rest : List α) (hu : Unbordered nl) (k : Nat) (hk0 : 0 < k)
    (hk : k < nl.length) : ¬ nl <+: nl.drop k ++ rest := by
  intro h
  have h3 : nl.drop k <+: nl :=
    List.prefix_of_prefix_length_le (List.prefix_append _ _) h (by simp)
  have e1 : nl.take (nl.length - k) = nl.drop k := by
    have := List.prefix_iff_eq_take.mp h3
    simpa using this.symm
  exact hu (nl.length - k) (by omega) (by omega) (by rw [e1]; congr 1; omega)

omit [DecidableEq α] in
theorem no_straddle (nl x rest : List α) (hu : Unbordered nl)
    (hx : ¬ nl <+: x) (hne : x ≠ []) : ¬ nl <+: x ++ (nl ++ rest) := by
  intro h
  by_cases hl : nl.length ≤ x.length
  · exact hx (List.prefix_of_prefix_length_le h (List.prefix_append _ _) hl)
  · have hxl : x.length < nl.length := by omega
    have hxn : x <+: nl :=
      List.prefix_of_prefix_length_le (List.prefix_append _ _) h (by omega)
    obtain ⟨t, ht⟩ := hxn
    subst ht
    have hxpos : 0 < x.length := List.length_pos_iff.mpr hne
    have htpos : 0 < t.length := by simp at hxl; omega
    have h2 : t <+: (x ++ t) ++ rest :=
      (List.prefix_append_right_inj x).mp (by simpa [List.append_assoc] using h)
    have h3 : t <+: x ++ t :=
      List.prefix_of_prefix_length_le h2 (List.prefix_append _ _) (by simp)
    have e1 : (x ++ t).take t.length = t := by
      obtain ⟨u, hu'⟩ := h3; rw [← hu']; simp
    have e2 : (x ++ t).drop ((x ++ t).length - t.length) = t := by simp
    exact hu t.length (by simp; omega) htpos (by rw [e1, e2])

/-- scanning a separator-free piece followed by the separator -/
theorem splitGo_piece (nl : List α) (hn : nl ≠ []) (hu : Unbordered nl)
    (x rest cur : List α) (hx : NlFree nl x) :
    splitGo nl 0 cur (x ++ (nl ++ rest)) = (cur.reverse ++ x) :: splitGo nl 0 [] rest := by
  induction x generalizing cur with
  | nil =>
    obtain ⟨a, nl', rfl⟩ := List.exists_cons_of_ne_nil hn
    simp only [List.nil_append, List.cons_append, splitGo]
    rw [if_pos (by simp)]
    simp only [List.length_cons, Nat.add_sub_cancel, List.append_nil]
    rw [splitGo_skip]
  | cons a x ih =>
    have hfree : NlFree nl x := fun i => by simpa using hx (i+1)
    have hno : ¬ nl <+: (a :: x) ++ (nl ++ rest) :=
      no_straddle nl (a :: x) rest hu (by simpa using hx 0) (by simp)
    simp only [List.cons_append] at hno ⊢
    rw [splitGo, if_neg (by simpa [List.isPrefixOf_iff_prefix] using hno)]
    rw [ih (a :: cur) hfree]; simp

/-- unique decomposition: splitting a join of separator-free pieces returns the pieces -/
theorem pySplit_join (nl : List α) (hn : nl ≠ []) (hu : Unbordered nl)
    (xs : List (List α)) (last : List α)
    (hxs : ∀ x ∈ xs, NlFree nl x) (hl : NlFree nl last) :
    pySplit nl ((xs.map (· ++ nl)).flatten ++ last) = xs ++ [last] := by
  unfold pySplit
  induction xs with
  | nil =>
    simp only [List.map_nil, List.flatten_nil, List.nil_append]
    suffices h : ∀ cur, splitGo nl 0 cur last = [cur.reverse ++ last] by simpa using h []
    induction last with
    | nil => intro cur; simp [splitGo]
    | cons a l ih =>
      intro cur
      have : ¬ nl <+: a :: l := by simpa using hl 0
      rw [splitGo, if_neg (by simpa [List.isPrefixOf_iff_prefix] using this)]
      rw [ih (fun i => by simpa using hl (i+1))]; simp
  | cons x xs ih =>
    simp only [List.map_cons, List.flatten_cons, List.append_assoc]
    rw [splitGo_piece nl hn hu x _ [] (hxs x (by simp))]
    rw [ih (fun y hy => hxs y (by simp [hy]))]; simp

/-! ## pieces are separator-free -/

/-- `cur` (reversed accumulator) followed by the rest has no occurrence starting inside `cur` -/
def AccFree (nl cur rest : List α) : Prop :=
  ∀ i, i < cur.length → ¬ nl <+: (cur.reverse ++ rest).drop i

theorem splitGo_pieces_free (nl : List α) (hn : nl ≠ []) :
    ∀ (d : List α) (skip : Nat) (cur : List α), AccFree nl cur (if skip = 0 then d else []) → (skip = 0 ∨ cur = []) →
      ∀ p ∈ splitGo nl skip cur d, NlFree nl p := by
  intro d
  induction d with
  | nil =>
    intro skip cur hacc _ p hp
    simp only [splitGo, List.mem_singleton] at hp
    subst hp
    intro i hpre
    by_cases hi : i < cur.length
    · have := hacc i hi
      cases skip <;> simp_all
    · have : cur.reverse.drop i = [] := by simp; omega
      rw [this] at hpre
      exact hn (List.prefix_nil.mp hpre)
  | cons x xs ih =>
    intro skip cur hacc hsc p hp
    cases skip with
    | succ k =>
      have hc : cur = [] := by cases hsc with | inl h => cases h | inr h => exact h
      subst hc
      simp only [splitGo] at hp
      exact ih k [] (by intro i hi; simp at hi) (Or.inr rfl) p hp
    | zero =>
      simp only [splitGo] at hp
      split at hp
      · rename_i hpre
        cases List.mem_cons.mp hp with
        | inl h =>
          subst h
          intro i hpre'
          by_cases hi : i < cur.length
          · apply hacc i hi
            simp only [if_true]
            have : cur.reverse.drop i <+: (cur.reverse ++ x :: xs).drop i := by
              rw [List.drop_append_of_le_length (by simp; omega)]
              exact List.prefix_append _ _
            exact hpre'.trans this
          · have : cur.reverse.drop i = [] := by simp; omega
            rw [this] at hpre'
            exact hn (List.prefix_nil.mp hpre')
        | inr h => exact ih (nl.length - 1) [] (by intro i hi; simp at hi) (Or.inr rfl) p h
      · rename_i hnp
        refine ih 0 (x :: cur) ?_ (Or.inl rfl) p hp
        intro i hi
        simp only [if_true, List.reverse_cons, List.append_assoc, List.singleton_append]
        by_cases hi' : i < cur.length
        · simpa using hacc i hi'
        · have hic : i = cur.length := by simp at hi; omega
          subst hic
          have : (cur.reverse ++ x :: xs).drop cur.length = x :: xs := by
            rw [List.drop_append_of_le_length (by simp)]
            simp
          rw [this]
          simpa [List.isPrefixOf_iff_prefix] using hnp

theorem pySplit_pieces_free (nl d : List α) (hn : nl ≠ []) :
    ∀ p ∈ pySplit nl d, NlFree nl p :=
  splitGo_pieces_free nl hn d 0 [] (by intro i hi; simp at hi) (Or.inl rfl)

/-! ## joining the pieces gives back the data; number of pieces -/

theorem splitGo_decomp (nl : List α) (hn : nl ≠ []) :
    ∀ (d : List α) (skip : Nat) (cur : List α), ∃ init last,
      splitGo nl skip cur d = init ++ [last] ∧
      cur.reverse ++ d.drop skip = (init.map (· ++ nl)).flatten ++ last ∧
      init.length = countGo nl skip d := by
  intro d
  induction d with
  | nil => intro skip cur; exact ⟨[], cur.reverse, by simp [splitGo, countGo]⟩
  | cons x xs ih =>
    intro skip cur
    cases skip with
    | succ k =>
      obtain ⟨init, last, h1, h2, h3⟩ := ih k cur
      exact ⟨init, last, by simpa [splitGo] using h1, by simpa using h2, by simpa [countGo] using h3⟩
    | zero =>
      by_cases hp : nl.isPrefixOf (x :: xs) = true
      · obtain ⟨init, last, h1, h2, h3⟩ := ih (nl.length - 1) []
        refine ⟨cur.reverse :: init, last, by simp [splitGo, hp, h1], ?_, by simp [countGo, hp, h3]; omega⟩
        have hpre : nl <+: x :: xs := List.isPrefixOf_iff_prefix.mp hp
        have e : x :: xs = nl ++ xs.drop (nl.length - 1) := by
          have := List.prefix_iff_eq_append.mp hpre
          obtain ⟨a, nl', rfl⟩ := List.exists_cons_of_ne_nil hn
          simpa using this.symm
        simp only [List.reverse_nil, List.nil_append] at h2
        simp [e, h2]
      · obtain ⟨init, last, h1, h2, h3⟩ := ih 0 (x :: cur)
        exact ⟨init, last, by simpa [splitGo, hp] using h1, by simpa using h2, by simpa [countGo, hp] using h3⟩

/-- the master structural lemma about `pySplit` -/
theorem pySplit_decomp (nl data : List α) (hn : nl ≠ []) (hu : Unbordered nl) :
    ∃ init last, pySplit nl data = init ++ [last] ∧
      data = (init.map (· ++ nl)).flatten ++ last ∧
      (∀ x ∈ init, NlFree nl x) ∧ NlFree nl last ∧
      init.length = countOcc nl data ∧
      (nl <:+ data ↔ last = [] ∧ init ≠ []) := by
  obtain ⟨init, last, h1, h2, h3⟩ := splitGo_decomp nl hn data 0 []
  have hfree := pySplit_pieces_free nl data hn
  unfold pySplit at hfree
  rw [h1] at hfree
  have hfi : ∀ x ∈ init, NlFree nl x := fun x hx => hfree x (by simp [hx])
  have hfl : NlFree nl last := hfree last (by simp)
  simp only [List.reverse_nil, List.nil_append, List.drop_zero] at h2
  refine ⟨init, last, h1, h2, hfi, hfl, h3, ?_, ?_⟩
  · rintro ⟨data', rfl⟩
    obtain ⟨init', last', g1, g2, _⟩ := splitGo_decomp nl hn data' 0 []
    have gfree := pySplit_pieces_free nl data' hn
    unfold pySplit at gfree
    rw [g1] at gfree
    simp only [List.reverse_nil, List.nil_append, List.drop_zero] at g2
    have key := pySplit_join nl hn hu (init' ++ [last']) [] gfree (fun i => by simpa using hn)
    have e : ((init' ++ [last']).map (· ++ nl)).flatten ++ [] = data' ++ nl := by
      simp [g2]
    rw [e] at key
    unfold pySplit at key
    rw [h1] at key
    obtain ⟨k1, k2⟩ := List.append_inj' key rfl
    subst k1
    simpa using k2
  · rintro ⟨rfl, hi⟩
    obtain ⟨init', y, rfl⟩ : ∃ init' y, init = init' ++ [y] :=
      ⟨init.dropLast, init.getLast hi, (List.dropLast_concat_getLast hi).symm⟩
    rw [h2]
    exact ⟨(init'.map (· ++ nl)).flatten ++ y, by simp⟩

/-! ## `splitLines` -/

/-- normal form of both modes of `splitLines` in terms of the decomposition -/
theorem splitLines_norm (nl data : List α) (hn : nl ≠ []) (hu : Unbordered nl) :
    ∃ init last,
      data = (init.map (· ++ nl)).flatten ++ last ∧
      (∀ x ∈ init, NlFree nl x) ∧ NlFree nl last ∧
      init.length = countOcc nl data ∧
      (nl <:+ data ↔ last = [] ∧ init ≠ []) ∧
      splitLines data nl true = init.map (· ++ nl) ++ (if nl <:+ data then [] else [last]) ∧
      splitLines data nl false = init ++ (if nl <:+ data then [] else [last]) := by
  obtain ⟨init, last, h1, h2, h3, h4, h5, h6⟩ := pySplit_decomp nl data hn hu
  refine ⟨init, last, h2, h3, h4, h5, h6, ?_, ?_⟩
  · unfold splitLines
    by_cases hs : nl <:+ data
    · simp [h1, List.isSuffixOf_iff_suffix, hs]
    · simp [h1, List.isSuffixOf_iff_suffix, hs]
  · unfold splitLines
    by_cases hs : nl <:+ data
    · simp [h1, List.isSuffixOf_iff_suffix, hs]
    · simp [h1, List.isSuffixOf_iff_suffix, hs]

omit [DecidableEq α] in
theorem NlFree.not_suffix {nl l : List α} (h : NlFree nl l) : ¬ nl <:+ l := by
  intro hs
  apply h (l.length - nl.length)
  rw [← List.suffix_iff_eq_drop.mp hs]
  exact List.prefix_refl _

omit [DecidableEq α] in
/-- in `x ++ nl` with `x` separator-free the only occurrence of `nl` is the final one -/
theorem once_of_free (nl x : List α) (hn : nl ≠ []) (hu : Unbordered nl) (hx : NlFree nl x)
    (i : Nat) (h : nl <+: (x ++ nl).drop i) : i + nl.length = (x ++ nl).length := by
  have hlen := h.length_le
  simp only [List.length_drop, List.length_append] at hlen
  by_cases hi : i < x.length
  · exfalso
    rw [List.drop_append_of_le_length (by omega)] at h
    have := no_straddle nl (x.drop i) [] hu (hx i) (by
      intro h0
      have := congrArg List.length h0
      simp at this; omega)
    simp only [List.append_nil] at this
    exact this h
  · have : 0 < nl.length := List.length_pos_iff.mpr hn
    simp only [List.length_append]
    omega

theorem stripOneEnd_append (nl x : List α) : stripOneEnd nl (x ++ nl) = x := by
  unfold stripOneEnd
  simp [List.isSuffixOf_iff_suffix]

theorem stripOneEnd_free (nl x : List α) (h : NlFree nl x) : stripOneEnd nl x = x := by
  unfold stripOneEnd
  simp [List.isSuffixOf_iff_suffix, h.not_suffix]

theorem splitLines_keep_flatten (nl data : List α) (hn : nl ≠ []) (hu : Unbordered nl) :
    (splitLines data nl true).flatten = data := by
  obtain ⟨init, last, h2, _, _, _, h6, ht, _⟩ := splitLines_norm nl data hn hu
  rw [ht]
  by_cases hs : nl <:+ data
  · obtain ⟨rfl, _⟩ := h6.mp hs
    simp only [hs, if_true, List.append_nil]
    simpa using h2.symm
  · simp only [hs, if_false, List.flatten_append, List.flatten_cons, List.flatten_nil,
      List.append_nil]
    exact h2.symm

theorem splitLines_keep_ends (nl data : List α) (hn : nl ≠ []) (hu : Unbordered nl) :
    ∀ l ∈ (splitLines data nl true).dropLast, nl <:+ l := by
  obtain ⟨init, last, _, _, _, _, _, ht, _⟩ := splitLines_norm nl data hn hu
  rw [ht]
  intro l hl
  have hl' : l ∈ init.map (· ++ nl) := by
    by_cases hs : nl <:+ data
    · simp only [hs, if_true, List.append_nil] at hl
      exact List.dropLast_subset _ hl
    · simpa [hs, List.dropLast_concat] using hl
  obtain ⟨x, _, rfl⟩ := List.mem_map.mp hl'
  exact List.suffix_append _ _

theorem splitLines_keep_last (nl data : List α) (hn : nl ≠ []) (hu : Unbordered nl) (_hd : data ≠ []) :
    ∃ l, (splitLines data nl true).getLast? = some l ∧ (nl <:+ l ↔ nl <:+ data) := by
  obtain ⟨init, last, _, _, hfl, _, h6, ht, _⟩ := splitLines_norm nl data hn hu
  rw [ht]
  by_cases hs : nl <:+ data
  · obtain ⟨_, hi⟩ := h6.mp hs
    obtain ⟨init', y, rfl⟩ : ∃ init' y, init = init' ++ [y] :=
      ⟨init.dropLast, init.getLast hi, (List.dropLast_concat_getLast hi).symm⟩
    refine ⟨y ++ nl, by simp [hs], ?_⟩
    simp [hs, List.suffix_append]
  · refine ⟨last, by simp [hs], ?_⟩
    simp [hs, hfl.not_suffix]

theorem splitLines_keep_once (nl data : List α) (hn : nl ≠ []) (hu : Unbordered nl) :
    ∀ l ∈ splitLines data nl true, ∀ i, nl <+: l.drop i → i + nl.length = l.length := by
  obtain ⟨init, last, _, hfi, hfl, _, _, ht, _⟩ := splitLines_norm nl data hn hu
  rw [ht]
  intro l hl i hp
  rcases List.mem_append.mp hl with hl | hl
  · obtain ⟨x, hx, rfl⟩ := List.mem_map.mp hl
    exact once_of_free nl x hn hu (hfi x hx) i hp
  · by_cases hs : nl <:+ data
    · simp [hs] at hl
    · simp only [hs, if_false, List.mem_singleton] at hl
      subst hl
      exact absurd hp (hfl i)

theorem splitLines_keep_length (nl data : List α) (hn : nl ≠ []) (hu : Unbordered nl) (_hd : data ≠ []) :
    (splitLines data nl true).length = countOcc nl data + (if nl <:+ data then 0 else 1) := by
  obtain ⟨init, last, _, _, _, h5, _, ht, _⟩ := splitLines_norm nl data hn hu
  rw [ht, ← h5]
  by_cases hs : nl <:+ data <;> simp [hs]

theorem splitLines_modes (nl data : List α) (hn : nl ≠ []) (hu : Unbordered nl) :
    splitLines data nl false = (splitLines data nl true).map (stripOneEnd nl) := by
  obtain ⟨init, last, _, _, hfl, _, _, ht, hf⟩ := splitLines_norm nl data hn hu
  rw [ht, hf]
  have e : (init.map (· ++ nl)).map (stripOneEnd nl) = init := by
    rw [List.map_map]
    conv => rhs; rw [← List.map_id init]
    apply List.map_congr_left
    intro x _
    exact stripOneEnd_append nl x
  rw [List.map_append, e]
  by_cases hs : nl <:+ data
  · simp [hs]
  · simp [hs, stripOneEnd_free nl last hfl]

/-! ## `countOcc` counts every occurrence -/

/-- number of positions at which `nl` occurs (overlapping occurrences included) -/
def occAll (nl : List α) : List α → Nat
  | [] => 0
  | x :: xs => (if nl.isPrefixOf (x :: xs) then 1 else 0) + occAll nl xs

theorem occAll_eq_filter (nl : List α) (hn : nl ≠ []) (d : List α) :
    ((List.range (d.length + 1)).filter (fun i => nl.isPrefixOf (d.drop i))).length
      = occAll nl d := by
  induction d with
  | nil =>
    obtain ⟨a, nl', rfl⟩ := List.exists_cons_of_ne_nil hn
    simp [occAll]
  | cons x xs ih =>
    rw [List.length_cons, List.range_succ_eq_map, List.filter_cons, List.filter_map,
      occAll, ← ih]
    have e : ((fun i => nl.isPrefixOf ((x :: xs).drop i)) ∘ Nat.succ)
        = (fun i => nl.isPrefixOf (xs.drop i)) := by
      funext i; simp
    rw [e]
    by_cases hp : nl.isPrefixOf (x :: xs) = true
    · simp [hp]; omega
    · simp [hp]

theorem countGo_eq_occAll (nl : List α) (hu : Unbordered nl) :
    ∀ (d : List α) (skip : Nat), (∀ i, i < skip → ¬ nl <+: d.drop i) →
      countGo nl skip d = occAll nl d := by
  intro d
  induction d with
  | nil => intro skip _; simp [countGo, occAll]
  | cons x xs ih =>
    intro skip hs
    cases skip with
    | succ k =>
      have h0 : ¬ nl <+: x :: xs := by simpa using hs 0 (by omega)
      have h0' : ¬ nl.isPrefixOf (x :: xs) = true := by
        simpa [List.isPrefixOf_iff_prefix] using h0
      rw [countGo, occAll, if_neg h0', ih k (fun i hi => by simpa using hs (i+1) (by omega))]
      simp
    | zero =>
      by_cases hp : nl.isPrefixOf (x :: xs) = true
      · rw [countGo, occAll, if_pos hp, if_pos hp]
        congr 1
        apply ih
        intro i hi
        obtain ⟨rest, hr⟩ := List.isPrefixOf_iff_prefix.mp hp
        have e : xs.drop i = nl.drop (i + 1) ++ rest := by
          have : xs.drop i = (x :: xs).drop (i + 1) := by simp
          rw [this, ← hr, List.drop_append_of_le_length (by omega)]
        rw [e]
        exact no_overlap nl rest hu (i + 1) (by omega) (by omega)
      · rw [countGo, occAll, if_neg hp, if_neg hp, ih 0 (fun i hi => by omega)]
        simp

theorem countOcc_eq_all (nl data : List α) (hn : nl ≠ []) (hu : Unbordered nl) :
    countOcc nl data = ((List.range (data.length + 1)).filter (fun i => nl.isPrefixOf (data.drop i))).length := by
  rw [occAll_eq_filter nl hn, countOcc]
  exact countGo_eq_occAll nl hu data 0 (fun i hi => by omega)

end Diffx
