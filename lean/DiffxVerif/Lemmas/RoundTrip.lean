import DiffxVerif.Model.Reader
import DiffxVerif.Model.Writer
import DiffxVerif.Lemmas.Split
import DiffxVerif.Lemmas.Header
import DiffxVerif.Lemmas.Order
/-!
# Writer-side shape lemmas and the writer → reader round trip

Core Lean only.  Support for `Properties/C02.lean` and `Properties/C01.lean`.

* `sortOpts_sorted`, `renderHeader_shape`, `renderHeader_grammar`: what
  `_write_section_header` emits, and that `parseHeader` reads it back;
* `newContent_layout`: an accepted content call appends `header ++ content`;
* `prepCore` / `prepFinish` / `prepareContent_eq`: `_prepare_content` in two stages
  (newline + encoded data, then append-newline + indentation); `PreparedWith` is the
  explicit description of the newline bytes and `line_endings` value of stage one
  (`prepCore_ok`), unique (`PreparedWith_unique`);
* `prepareContent_trailing`, `prepareContent_indent`;
* `indent_inverse`: indentation commutes with `splitLines` and `stripIndent` undoes it;
* `readContent_eval`: `readContent` on a section that ends with the declared newline
  (join points taken one at a time, as in `Lemmas/ReaderTotal.lean`);
* `TextLaws` / `DiffLaws` (codec laws only) and `content_text_roundtrip`,
  `content_diff_roundtrip`.
-/
namespace Diffx
open Diffx.Writer

/-! ## `sortOpts` -/

theorem insertOpt_keys_mem (p : Bytes × HVal) (l : List (Bytes × HVal)) (q : Bytes × HVal) :
    q ∈ insertOpt p l ↔ q = p ∨ q ∈ l := by
  induction l with
  | nil => simp [insertOpt]
  | cons a r ih =>
    unfold insertOpt
    split
    · simp
    · simp only [List.mem_cons, ih]
      constructor
      · rintro (h | h | h) <;> simp [h]
      · rintro (h | h | h) <;> simp [h]

theorem insertOpt_sorted (p : Bytes × HVal) (l : List (Bytes × HVal))
    (h : l.Pairwise (fun a b => a.1 ≤ b.1)) : (insertOpt p l).Pairwise (fun a b => a.1 ≤ b.1) := by
  induction l with
  | nil => simp [insertOpt]
  | cons a r ih =>
    unfold insertOpt
    rw [List.pairwise_cons] at h
    split
    · rename_i hle
      refine List.pairwise_cons.mpr ⟨?_, List.pairwise_cons.mpr h⟩
      intro q hq
      rcases List.mem_cons.mp hq with rfl | hq
      · exact hle
      · exact List.le_trans hle (h.1 q hq)
    · rename_i hle
      refine List.pairwise_cons.mpr ⟨?_, ih h.2⟩
      intro q hq
      rcases (insertOpt_keys_mem p r q).mp hq with rfl | hq
      · exact (List.le_total a.1 q.1).resolve_right hle
      · exact h.1 q hq

theorem sortOpts_sorted (l : List (Bytes × HVal)) : (sortOpts l).Pairwise (fun a b => a.1 ≤ b.1) := by
  unfold sortOpts
  induction l with
  | nil => simp
  | cons a r ih => exact insertOpt_sorted a _ ih


theorem mem_sortOpts (l : List (Bytes × HVal)) (q : Bytes × HVal) : q ∈ sortOpts l ↔ q ∈ l := by
  unfold sortOpts
  induction l with
  | nil => simp
  | cons a r ih => rw [List.foldr_cons, insertOpt_keys_mem, ih, List.mem_cons]

/-! ## `renderHeader` -/

theorem toAscii_ofAscii (b : Bytes) : (Text.ofAscii b).toAscii = b := by
  unfold Text.ofAscii Text.toAscii
  rw [List.map_map]
  conv => rhs; rw [← List.map_id b]
  apply List.map_congr_left
  intro x _
  simp

theorem toAscii_append (a b : Text) : (a ++ b).toAscii = a.toAscii ++ b.toAscii := by
  simp [Text.toAscii]

/-- the text of the joined options, as `renderHeader` builds it -/
def joinText : List Text → Text
  | [] => []
  | [p] => p
  | p :: ps => p ++ [44, 32] ++ joinText ps

theorem intersperse_flatten_eq (l : List Text) : (l.intersperse [44, 32]).flatten = joinText l := by
  induction l with
  | nil => rfl
  | cons a r ih =>
    cases r with
    | nil => simp [joinText]
    | cons b r' =>
      rw [List.intersperse_cons_cons, List.flatten_cons, List.flatten_cons, ih]
      simp [joinText]

theorem joinText_toAscii (l : List (Bytes × HVal)) :
    (joinText (l.map (fun p => Text.ofAscii p.1 ++ [61] ++ p.2.text))).toAscii =
      Spec.joinPairs (l.map (fun p => (p.1, p.2.text.toAscii))) := by
  induction l with
  | nil => rfl
  | cons a r ih =>
    cases r with
    | nil =>
      simp only [List.map_cons, List.map_nil, joinText, Spec.joinPairs, Spec.renderPair,
        toAscii_append, toAscii_ofAscii]
      rfl
    | cons b r' =>
      simp only [List.map_cons] at ih ⊢
      simp only [joinText, Spec.joinPairs, Spec.renderPair, toAscii_append, toAscii_ofAscii, ih]
      rfl

theorem joinText_isEmpty (l : List (Bytes × HVal)) :
    (joinText (l.map (fun p => Text.ofAscii p.1 ++ [61] ++ p.2.text))).isEmpty = l.isEmpty := by
  cases l with
  | nil => rfl
  | cons a r => cases r <;> simp [joinText]

theorem secId_bytes_ascii (sec : SecId) : ∀ b ∈ sec.bytes, b < 128 := by
  intro b hb
  unfold SecId.bytes at hb
  rcases List.mem_append.mp hb with hb | hb
  · rw [List.mem_replicate] at hb; rw [hb.2]; decide
  · have : ∀ n : SecName, ∀ b ∈ n.bytes, b < 128 := by intro n; cases n <;> decide
    exact this _ b hb

theorem toAscii_lt (t : Text) (h : isAsciiText t = true) : ∀ b ∈ t.toAscii, b < 128 := by
  intro b hb
  unfold Text.toAscii at hb
  obtain ⟨c, hc, rfl⟩ := List.mem_map.mp hb
  unfold isAsciiText at h
  have hc' : c < 128 := by simpa using List.all_eq_true.mp h c hc
  rw [UInt8.lt_iff_toNat_lt]
  simp
  omega

theorem renderHeader_shape (sec : SecId) (options : List (Bytes × Option HVal)) (h : Bytes)
    (hr : renderHeader sec options = .ok h) :
    h = Spec.headerLine sec
          ((sortOpts (options.filterMap (fun p => p.2.map (fun v => (p.1, v))))).map
            (fun p => (p.1, p.2.text.toAscii))) ++ [10] ∧
    (((sortOpts (options.filterMap (fun p => p.2.map (fun v => (p.1, v))))).map
        (fun p => (p.1, p.2.text.toAscii))).map (·.1)).Pairwise (· ≤ ·) ∧
    (∀ b ∈ h, b < 128) := by
  replace hr := (renderHeader_ok sec options h hr).2
  unfold renderBody presentOpts at hr
  dsimp only at hr
  generalize hsorted : sortOpts (options.filterMap (fun p => p.2.map (fun v => (p.1, v)))) = sorted at hr ⊢
  rw [intersperse_flatten_eq] at hr
  split at hr
  · cases hr
  · rename_i hascii
    have hascii' : isAsciiText (joinText (sorted.map (fun p => Text.ofAscii p.1 ++ [61] ++ p.2.text))) = true := by
      simpa using hascii
    rw [joinText_isEmpty] at hr
    have hh : h = Spec.headerLine sec (sorted.map (fun p => (p.1, p.2.text.toAscii))) ++ [10] := by
      have := Except.ok.inj hr
      rw [← this]
      unfold Spec.headerLine
      rw [← joinText_toAscii]
      cases sorted <;> simp
    refine ⟨hh, ?_, ?_⟩
    · rw [List.map_map, List.pairwise_map]
      rw [← hsorted]
      exact sortOpts_sorted _
    · have := Except.ok.inj hr
      rw [← this]
      intro b hb
      split at hb
      · simp only [List.mem_append, List.mem_cons, List.not_mem_nil, or_false] at hb
        rcases hb with ((rfl | hb) | rfl) | rfl
        · decide
        · exact secId_bytes_ascii sec b hb
        · decide
        · decide
      · simp only [List.mem_append, List.mem_cons, List.not_mem_nil, or_false] at hb
        rcases hb with ((((rfl | hb) | rfl) | rfl) | hb) | rfl
        · decide
        · exact secId_bytes_ascii sec b hb
        · decide
        · decide
        · exact toAscii_lt _ hascii' b hb
        · decide

theorem renderHeader_grammar (sec : SecId) (hs : sec.level ≤ 3) (options : List (Bytes × Option HVal)) (h : Bytes)
    (hr : renderHeader sec options = .ok h)
    (hk : ∀ p ∈ (sortOpts (options.filterMap (fun p => p.2.map (fun v => (p.1, v))))).map
            (fun p => (p.1, p.2.text.toAscii)), Header.keyOk p.1 = true ∧ Header.valOk p.2 = true)
    (valid : List SecId) (hv : sec ∈ valid) :
    Spec.GrammarOk sec ((sortOpts (options.filterMap (fun p => p.2.map (fun v => (p.1, v))))).map
            (fun p => (p.1, p.2.text.toAscii))) ∧
    Header.parseHeader valid (h.take (h.length - 1)) =
      .ok ⟨sec, Spec.reported ((sortOpts (options.filterMap (fun p => p.2.map (fun v => (p.1, v))))).map
            (fun p => (p.1, p.2.text.toAscii)))⟩ := by
  obtain ⟨hh, _, _⟩ := renderHeader_shape sec options h hr
  have hg : Spec.GrammarOk sec ((sortOpts (options.filterMap (fun p => p.2.map (fun v => (p.1, v))))).map
            (fun p => (p.1, p.2.text.toAscii))) := ⟨hs, hk⟩
  refine ⟨hg, ?_⟩
  rw [hh]
  simp only [List.length_append, List.length_singleton, Nat.add_sub_cancel, List.take_left']
  exact Header.parseHeader_headerLine valid sec _ hg hv

/-- what the value check of `_write_section_header` guarantees about an emitted header:
every written value is made of option-value characters, and no `str` value is something a
reader would turn into an integer -/
theorem renderHeader_values_ok (sec : SecId) (options : List (Bytes × Option HVal)) (h : Bytes)
    (hr : renderHeader sec options = .ok h) :
    (∀ p ∈ (sortOpts (options.filterMap (fun p => p.2.map (fun v => (p.1, v))))).map
            (fun p => (p.1, p.2.text.toAscii)), Header.valOk p.2 = true) ∧
    (∀ k t, (k, some (HVal.str t)) ∈ options → Header.convert t.toAscii = .str t.toAscii) := by
  constructor
  · intro p hp
    obtain ⟨q, hq, rfl⟩ := List.mem_map.mp hp
    exact (valueRefused_false q.2
      ((renderHeader_ok sec options h hr).1 q ((mem_sortOpts _ q).mp hq))).2
  · intro k t hm
    exact (valueRefused_str_false t (renderHeader_ok_value sec options h hr k (.str t) hm)).2.2

/-- `renderHeader_grammar` with the hypothesis on the values discharged by the value check -/
theorem renderHeader_grammar_auto (sec : SecId) (hs : sec.level ≤ 3) (options : List (Bytes × Option HVal))
    (h : Bytes) (hr : renderHeader sec options = .ok h)
    (hk : ∀ p ∈ (sortOpts (options.filterMap (fun p => p.2.map (fun v => (p.1, v))))).map
            (fun p => (p.1, p.2.text.toAscii)), Header.keyOk p.1 = true)
    (valid : List SecId) (hv : sec ∈ valid) :
    Spec.GrammarOk sec ((sortOpts (options.filterMap (fun p => p.2.map (fun v => (p.1, v))))).map
            (fun p => (p.1, p.2.text.toAscii))) ∧
    Header.parseHeader valid (h.take (h.length - 1)) =
      .ok ⟨sec, Spec.reported ((sortOpts (options.filterMap (fun p => p.2.map (fun v => (p.1, v))))).map
            (fun p => (p.1, p.2.text.toAscii)))⟩ :=
  renderHeader_grammar sec hs options h hr
    (fun p hp => ⟨hk p hp, (renderHeader_values_ok sec options h hr).1 p hp⟩) valid hv

/-! ## `newContent` -/

theorem newContent_layout (env : Env) (cfg : Config) (st st' : St) (name : SecName) (content : Arg)
    (le : Option Text) (enc : Option Name) (indent : Option Int) (writeLe inherit : Bool)
    (extra : List (Bytes × Option HVal))
    (h : (newContent env cfg name content le enc indent writeLe inherit extra).run st = .ok () st') :
    ∃ header data leOut opts,
      prepareContent env cfg st content indent le enc inherit = .ok (data, leOut) ∧
      renderHeader ⟨st.level, name⟩ opts = .ok header ∧
      (b!"length", some (HVal.int data.length)) ∈ opts ∧
      st'.out = st.out ++ header ++ data := by
  rw [newContent_run] at h
  unfold emit contentPayload at h
  split at h
  · cases h
  · split at h
    · cases h
    · rename_i b stk hpay
      split at hpay
      · cases hpay
      · rename_i data leOut hp
        split at hpay
        · cases hpay
        · rename_i header hh
          cases hpay
          cases h
          exact ⟨header, data, leOut, _, hp, hh, by simp, by simp⟩

/-! ## `prepareContent` in two stages -/

/-- the part of `_prepare_content` before the final newline is appended: the
`line_endings` value, the BOM-free newline bytes and the encoded data -/
def prepCore (env : Env) (cfg : Config) (st : St) (content : Arg)
    (lineEndings : Option Text) (encoding : Option Name) (inherit : Bool) : E (Text × Bytes × Bytes) := do
  match content with
  | .str [] => throw .contentError
  | .bytes [] => throw .contentError
  | .str _ => pure ()
  | .bytes _ => pure ()
  | _ => throw .otherError
  let unixT : Text := Text.ofAscii b!"unix"
  let dosT : Text := Text.ofAscii b!"dos"
  match lineEndings with
  | some le => if le != unixT && le != dosT then throw .optionError
  | none => pure ()
  let encoding : Option Name := if !truthy encoding && inherit then st.curEncoding else encoding
  let nlEncoding : Name := if truthy encoding then encoding.getD [] else Text.ofAscii b!"ascii"
  let encodeWith (t : Text) : E Bytes :=
    match encoding with
    | none => throw .otherError
    | some e => liftEnv (env.encode e t)
  let bomFor (raw : Bytes) : E Bytes := liftEnv (stripBom env cfg raw encoding)
  let (le, newline, data) ← match content, lineEndings with
    | .str t, none =>
      let (dos, nlT) := guessText t
      let nl ← encodeWith nlT
      let d ← encodeWith t
      pure ((if dos then dosT else unixT), nl, d)
    | .str t, some le =>
      let nl ← encodeWith (nlText (le == dosT))
      let d ← encodeWith t
      pure (le, nl, d)
    | .bytes b, none =>
      let strip (raw : Bytes) : E Bytes := liftEnv (stripBom env cfg raw (some nlEncoding))
      let unix ← strip (← liftEnv (env.encode nlEncoding [10]))
      let dos ← strip (← liftEnv (env.encode nlEncoding [13, 10]))
      let isDos := match findSub unix b with
        | some i => endsWith (b.take (i + unix.length)) dos
        | none => false
      pure ((if isDos then dosT else unixT), (if isDos then dos else unix), b)
    | .bytes b, some le =>
      let nl ← liftEnv (env.encode nlEncoding (nlText (le == dosT)))
      pure (le, nl, b)
    | _, _ => throw .otherError
  let newline ← bomFor newline
  pure (le, newline, data)

/-- the end of `_prepare_content`: append the newline when missing, then indent -/
def prepFinish (indent : Option Int) (newline data : Bytes) : E Bytes :=
  let data := if endsWith data newline then data else data ++ newline
  match indent with
  | some n =>
    if n = 0 then pure data
    else
      if newline.isEmpty then throw .otherError
      else
        let ind := List.replicate n.toNat (32 : UInt8)
        pure ((splitLines data newline true).map (ind ++ ·)).flatten
  | none => pure data

theorem prepareContent_eq (env : Env) (cfg : Config) (st : St) (content : Arg) (indent : Option Int)
    (le : Option Text) (enc : Option Name) (inherit : Bool) :
    prepareContent env cfg st content indent le enc inherit =
      (do let r ← prepCore env cfg st content le enc inherit
          let d ← prepFinish indent r.2.1 r.2.2
          pure (d, r.1)) := by
  unfold prepareContent prepCore prepFinish
  rcases content with (_ | ⟨a, t⟩) | (_ | ⟨a, b⟩) | j | _ <;> rcases le with _ | l
  all_goals try rfl
  all_goals rcases indent with _ | n
  all_goals simp only [bind_assoc, pure_bind]
  all_goals generalize (if (!truthy enc && inherit) = true then st.curEncoding else enc) = eff
  all_goals rcases eff with _ | e
  all_goals try dsimp only
  all_goals try simp only [bind_assoc, pure_bind]
  all_goals repeat' first
    | rfl
    | simp only [bind_assoc, pure_bind]
    | (apply bind_congr; intro _)
    | split


theorem E_bind_ok {α β} (x : E α) (f : α → E β) (b : β) (h : x >>= f = .ok b) :
    ∃ a, x = .ok a ∧ f a = .ok b := by
  cases x with
  | error e => cases h
  | ok a => exact ⟨a, rfl, h⟩

theorem liftEnv_ok {α} (r : EnvR α) (a : α) (h : liftEnv r = .ok a) : r = .ok a := by
  cases r <;> simp [liftEnv] at h
  rw [h]

theorem guessText_snd (t : Text) : (guessText t).2 = nlText (guessText t).1 := by
  unfold guessText
  split
  · split <;> rfl
  · rfl

/-- the `line_endings` value of a kind -/
def leKind (dos : Bool) : Text := if dos then Text.ofAscii b!"dos" else Text.ofAscii b!"unix"

theorem leKind_inj (a b : Bool) (h : leKind a = leKind b) : a = b := by
  cases a <;> cases b <;> first | rfl | (exact absurd h (by decide))

theorem leKind_toAscii (dos : Bool) : (leKind dos).toAscii = if dos then b!"dos" else b!"unix" := by
  cases dos <;> rfl

/-- which newline bytes `nl` and which `line_endings` value `leOut`
`_prepare_content` uses for a content, the given `line_endings` / `encoding`
arguments and the writer state -/
def PreparedWith (env : Env) (cfg : Config) (st : St) (content : Arg) (le : Option Text)
    (enc : Option Name) (inherit : Bool) (nl : Bytes) (leOut : Text) : Prop :=
  -- effective encoding: the argument when truthy, else (sections that inherit) the current one
  let eff : Option Name := if !truthy enc && inherit then st.curEncoding else enc
  -- encoding of the newline for `bytes` content
  let nlEnc : Name := if truthy eff then eff.getD [] else Text.ofAscii b!"ascii"
  ∃ dos : Bool,
    leOut = leKind dos ∧
    (∀ l, le = some l → l = leOut) ∧
    match content with
    | .str t =>
      (le = none → dos = (guessText t).1) ∧
      ∃ e raw, eff = some e ∧ env.encode e (nlText dos) = .ok raw ∧ stripBom env cfg raw eff = .ok nl
    | .bytes b =>
      (match le with
      | some _ => ∃ raw, env.encode nlEnc (nlText dos) = .ok raw ∧ stripBom env cfg raw eff = .ok nl
      | none =>
        ∃ rawU rawD u d,
          env.encode nlEnc [10] = .ok rawU ∧ stripBom env cfg rawU (some nlEnc) = .ok u ∧
          env.encode nlEnc [13, 10] = .ok rawD ∧ stripBom env cfg rawD (some nlEnc) = .ok d ∧
          dos = (match findSub u b with
                 | some i => endsWith (b.take (i + u.length)) d
                 | none => false) ∧
          stripBom env cfg (if dos then d else u) eff = .ok nl)
    | _ => False

/-- the encoded data `_prepare_content` starts from -/
def PreparedData (env : Env) (st : St) (content : Arg) (enc : Option Name) (inherit : Bool) (d : Bytes) : Prop :=
  match content with
  | .str t => ∃ e, (if !truthy enc && inherit then st.curEncoding else enc) = some e ∧ env.encode e t = .ok d
  | .bytes b => d = b
  | _ => False

theorem prepCore_ok (env : Env) (cfg : Config) (st : St) (content : Arg)
    (le : Option Text) (enc : Option Name) (inherit : Bool) (leOut : Text) (nl d : Bytes)
    (h : prepCore env cfg st content le enc inherit = .ok (leOut, nl, d)) :
    PreparedWith env cfg st content le enc inherit nl leOut ∧ PreparedData env st content enc inherit d := by
  unfold prepCore at h
  unfold PreparedWith PreparedData
  rcases content with (_ | ⟨a, t⟩) | (_ | ⟨a, b⟩) | j | _ <;> rcases le with _ | l
  all_goals try (cases h; done)
  all_goals simp only [pure_bind] at h
  all_goals generalize (if (!truthy enc && inherit) = true then st.curEncoding else enc) = eff at h ⊢
  · -- str, guessed
    rcases eff with _ | e
    · cases h
    dsimp only at h
    obtain ⟨r1, h1, h⟩ := E_bind_ok _ _ _ h
    obtain ⟨r2, h2, h⟩ := E_bind_ok _ _ _ h
    obtain ⟨r3, h3, h⟩ := E_bind_ok _ _ _ h
    cases h
    rw [guessText_snd] at h1
    exact ⟨⟨(guessText (a :: t)).1, rfl, by simp, fun _ => rfl, e, r1, rfl, liftEnv_ok _ _ h1, liftEnv_ok _ _ h3⟩,
      e, rfl, liftEnv_ok _ _ h2⟩
  · -- str, given
    rcases eff with _ | e
    · split at h <;> cases h
    dsimp only at h
    split at h
    · cases h
    · rename_i hl
      obtain ⟨r1, h1, h⟩ := E_bind_ok _ _ _ h
      obtain ⟨r2, h2, h⟩ := E_bind_ok _ _ _ h
      obtain ⟨r3, h3, h⟩ := E_bind_ok _ _ _ h
      cases h
      have hl' : leOut = if (leOut == Text.ofAscii b!"dos") = true then Text.ofAscii b!"dos" else Text.ofAscii b!"unix" := by
        by_cases hd : leOut = Text.ofAscii b!"dos"
        · simp [hd]
        · simp [hd] at hl ⊢; exact hl
      exact ⟨⟨leOut == Text.ofAscii b!"dos", hl', by simp, by simp, e, r1, rfl, liftEnv_ok _ _ h1, liftEnv_ok _ _ h3⟩,
        e, rfl, liftEnv_ok _ _ h2⟩
  · -- bytes, guessed
    obtain ⟨r1, h1, h⟩ := E_bind_ok _ _ _ h
    obtain ⟨r2, h2, h⟩ := E_bind_ok _ _ _ h
    obtain ⟨r3, h3, h⟩ := E_bind_ok _ _ _ h
    obtain ⟨r4, h4, h⟩ := E_bind_ok _ _ _ h
    obtain ⟨r5, h5, h⟩ := E_bind_ok _ _ _ h
    cases h
    exact ⟨⟨_, rfl, by simp, r1, r3, r2, r4, liftEnv_ok _ _ h1, liftEnv_ok _ _ h2, liftEnv_ok _ _ h3,
      liftEnv_ok _ _ h4, rfl, liftEnv_ok _ _ h5⟩, rfl⟩
  · -- bytes, given
    split at h
    · cases h
    · rename_i hl
      obtain ⟨r1, h1, h⟩ := E_bind_ok _ _ _ h
      obtain ⟨r3, h3, h⟩ := E_bind_ok _ _ _ h
      cases h
      have hl' : leOut = if (leOut == Text.ofAscii b!"dos") = true then Text.ofAscii b!"dos" else Text.ofAscii b!"unix" := by
        by_cases hd : leOut = Text.ofAscii b!"dos"
        · simp [hd]
        · simp [hd] at hl ⊢; exact hl
      exact ⟨⟨leOut == Text.ofAscii b!"dos", hl', by simp, r1, liftEnv_ok _ _ h1, liftEnv_ok _ _ h3⟩, rfl⟩



/-- `prepareContent = ok` in terms of the two stages -/
theorem prepareContent_ok_iff (env : Env) (cfg : Config) (st : St) (content : Arg) (indent : Option Int)
    (le : Option Text) (enc : Option Name) (inherit : Bool) (data : Bytes) (leOut : Text) :
    prepareContent env cfg st content indent le enc inherit = .ok (data, leOut) ↔
      ∃ nl d, prepCore env cfg st content le enc inherit = .ok (leOut, nl, d) ∧
        prepFinish indent nl d = .ok data := by
  rw [prepareContent_eq]
  constructor
  · intro h
    obtain ⟨⟨l, nl, d⟩, h1, h⟩ := E_bind_ok _ _ _ h
    obtain ⟨r, h2, h⟩ := E_bind_ok _ _ _ h
    cases h
    exact ⟨nl, d, h1, h2⟩
  · rintro ⟨nl, d, h1, h2⟩
    rw [h1]
    simp only [bind, Except.bind]
    rw [h2]
    rfl

/-- at least two pieces when the separator occurs -/
theorem splitGo_two (nl : Bytes) (hn : nl ≠ []) (d : Bytes) (cur : Bytes) (i : Nat) (h : nl <+: d.drop i) :
    2 ≤ (splitGo nl 0 cur d).length := by
  induction d generalizing cur i with
  | nil =>
    simp at h
    exact absurd h hn
  | cons x xs ih =>
    unfold splitGo
    split
    · obtain ⟨init, last, h1, _, _⟩ := splitGo_decomp nl hn xs (nl.length - 1) []
      rw [h1]; simp
    · rename_i hnp
      cases i with
      | zero => simp [List.isPrefixOf_iff_prefix] at hnp; exact absurd h hnp
      | succ j => exact ih _ j (by simpa using h)

/-- when the data ends with the newline, the kept-ends lines are non-empty and the last one ends with it -/
theorem splitLines_last_suffix (nl d : Bytes) (hn : nl ≠ []) (hs : nl <:+ d) :
    ∃ ls x, splitLines d nl true = ls ++ [x ++ nl] := by
  have h2 := splitGo_two nl hn d [] (d.length - nl.length) (by
    rw [← List.suffix_iff_eq_drop.mp hs]; exact List.prefix_refl _)
  obtain ⟨init, last, h1, _, _⟩ := splitGo_decomp nl hn d 0 []
  rw [h1] at h2
  have hi : init ≠ [] := by
    intro h0; subst h0; simp at h2
  obtain ⟨init', y, rfl⟩ : ∃ init' y, init = init' ++ [y] :=
    ⟨init.dropLast, init.getLast hi, (List.dropLast_concat_getLast hi).symm⟩
  refine ⟨init'.map (· ++ nl), y, ?_⟩
  unfold splitLines pySplit
  rw [h1]
  simp [List.isSuffixOf_iff_suffix, hs]

theorem prepFinish_suffix (indent : Option Int) (nl d data : Bytes) (h : prepFinish indent nl d = .ok data) :
    nl <:+ data := by
  have hbase : nl <:+ (if endsWith d nl = true then d else d ++ nl) := by
    split
    · rename_i he
      simpa [endsWith, List.isSuffixOf_iff_suffix] using he
    · exact List.suffix_append _ _
  unfold prepFinish at h
  dsimp only at h
  split at h
  · split at h
    · cases h; exact hbase
    · split at h
      · cases h
      · rename_i hne
        cases h
        have hne' : nl ≠ [] := by simpa using hne
        obtain ⟨ls, x, hx⟩ := splitLines_last_suffix nl _ hne' hbase
        rw [hx]
        simp only [List.map_append, List.map_cons, List.map_nil, List.flatten_append, List.flatten_cons,
          List.flatten_nil, List.append_nil]
        rw [← List.append_assoc, ← List.append_assoc]
        exact List.suffix_append _ _
  · cases h; exact hbase

theorem prepareContent_trailing (env : Env) (cfg : Config) (st : St) (content : Arg) (indent : Option Int)
    (le : Option Text) (enc : Option Name) (inherit : Bool) (data : Bytes) (leOut : Text)
    (h : prepareContent env cfg st content indent le enc inherit = .ok (data, leOut)) :
    ∃ nl, PreparedWith env cfg st content le enc inherit nl leOut ∧ (nl ≠ [] → nl <:+ data) := by
  obtain ⟨nl, d, h1, h2⟩ := (prepareContent_ok_iff ..).mp h
  exact ⟨nl, (prepCore_ok _ _ _ _ _ _ _ _ _ _ h1).1, fun _ => prepFinish_suffix _ _ _ _ h2⟩

theorem prepareContent_indent (env : Env) (cfg : Config) (st : St) (content : Arg) (n : Nat) (hn : 0 < n)
    (le : Option Text) (enc : Option Name) (inherit : Bool) (data : Bytes) (leOut : Text)
    (h : prepareContent env cfg st content (some (n : Int)) le enc inherit = .ok (data, leOut)) :
    ∃ raw nl, prepareContent env cfg st content none le enc inherit = .ok (raw, leOut) ∧
      PreparedWith env cfg st content le enc inherit nl leOut ∧
      data = ((splitLines raw nl true).map (List.replicate n (32 : UInt8) ++ ·)).flatten := by
  obtain ⟨nl, d, h1, h2⟩ := (prepareContent_ok_iff ..).mp h
  refine ⟨if endsWith d nl = true then d else d ++ nl, nl,
    (prepareContent_ok_iff ..).mpr ⟨nl, d, h1, rfl⟩, (prepCore_ok _ _ _ _ _ _ _ _ _ _ h1).1, ?_⟩
  unfold prepFinish at h2
  dsimp only at h2
  rw [if_neg (by omega)] at h2
  split at h2
  · cases h2
  · cases h2
    simp


/-! ## indentation is invertible -/

/-- spaces in front of a newline-free piece create no occurrence of a newline without a space byte -/
theorem nlFree_spaces (nl x : Bytes) (n : Nat) (hn : nl ≠ []) (hsp : (32 : UInt8) ∉ nl) (hx : NlFree nl x) :
    NlFree nl (List.replicate n (32 : UInt8) ++ x) := by
  intro i hp
  by_cases hi : i < n
  · rw [List.drop_append_of_le_length (by simp; omega), List.drop_replicate] at hp
    obtain ⟨k, hk⟩ : ∃ k, n - i = k + 1 := ⟨n - i - 1, by omega⟩
    rw [hk, List.replicate_succ] at hp
    obtain ⟨a, nl', rfl⟩ := List.exists_cons_of_ne_nil hn
    obtain ⟨t, ht⟩ := hp
    simp only [List.cons_append, List.cons.injEq] at ht
    apply hsp
    rw [ht.1]; simp
  · have : (List.replicate n (32 : UInt8) ++ x).drop i = x.drop (i - n) := by
      rw [List.drop_append]; simp; omega
    rw [this] at hp
    exact hx _ hp

/-- splitting a join of newline-terminated, otherwise newline-free pieces -/
theorem splitLines_join (nl : Bytes) (hn : nl ≠ []) (hu : Unbordered nl) (xs : List Bytes) (hne : xs ≠ [])
    (hxs : ∀ x ∈ xs, NlFree nl x) :
    splitLines (xs.map (· ++ nl)).flatten nl true = xs.map (· ++ nl) := by
  have hj := pySplit_join nl hn hu xs [] hxs (fun i => by simpa using hn)
  rw [List.append_nil] at hj
  have hs : nl <:+ (xs.map (· ++ nl)).flatten := by
    obtain ⟨xs', y, rfl⟩ : ∃ xs' y, xs = xs' ++ [y] :=
      ⟨xs.dropLast, xs.getLast hne, (List.dropLast_concat_getLast hne).symm⟩
    simp only [List.map_append, List.map_cons, List.map_nil, List.flatten_append, List.flatten_cons,
      List.flatten_nil, List.append_nil]
    rw [← List.append_assoc]
    exact List.suffix_append _ _
  unfold splitLines
  rw [hj]
  simp [List.isSuffixOf_iff_suffix, hs]

theorem stripIndent_spaces (n : Nat) (l : Bytes) :
    Reader.stripIndent n (List.replicate n (32 : UInt8) ++ l) = l := by
  unfold Reader.stripIndent
  have : n ≤ ((List.replicate n (32 : UInt8) ++ l).takeWhile (· == 32)).length := by
    rw [List.takeWhile_append_of_pos (by simp)]
    simp
  rw [Nat.min_eq_left this]
  simp

theorem indent_inverse (raw nl : Bytes) (n : Nat) (hn : nl ≠ []) (hu : Unbordered nl)
    (hsp : (32 : UInt8) ∉ nl) (hend : nl <:+ raw) :
    ((splitLines (((splitLines raw nl true).map (List.replicate n (32 : UInt8) ++ ·)).flatten) nl true).map
        (Reader.stripIndent n)).flatten = raw ∧
    (splitLines (((splitLines raw nl true).map (List.replicate n (32 : UInt8) ++ ·)).flatten) nl true).length =
      (splitLines raw nl true).length := by
  obtain ⟨init, last, h2, hfi, _, _, h6, ht, _⟩ := splitLines_norm nl raw hn hu
  obtain ⟨rfl, hi⟩ := h6.mp hend
  rw [ht]
  simp only [hend, if_true, List.append_nil] at h2 ⊢
  have e1 : (init.map (· ++ nl)).map (List.replicate n (32 : UInt8) ++ ·) =
      (init.map (List.replicate n (32 : UInt8) ++ ·)).map (· ++ nl) := by
    simp [List.map_map]
  rw [e1, splitLines_join nl hn hu _ (by simpa using hi) (by
    intro x hx
    obtain ⟨y, hy, rfl⟩ := List.mem_map.mp hx
    exact nlFree_spaces nl y n hn hsp (hfi y hy))]
  refine ⟨?_, by simp⟩
  rw [h2]
  congr 1
  simp only [List.map_map]
  apply List.map_congr_left
  intro x _
  simp only [Function.comp, List.append_assoc]
  exact stripIndent_spaces n _



/-! ## evaluating `readContent` on a well-formed section -/

/-- the last step of `_read_content`: decode (or keep the bytes) and check the final newline -/
def readFinish (env : Env) (ln : Nat) (enc : Option Name) (keep : Bool) (content nl : Bytes)
    (st' : Reader.St) : Reader.M (Reader.Got × Reader.St) :=
  match enc, keep with
  | some e, false =>
    Reader.liftEnv ln (env.decode e content) >>= fun t =>
    Reader.liftEnv ln (env.decode e nl) >>= fun nlT =>
    if !endsWith t nlT then .error (.parseError ln none) else .ok (.text t, st')
  | _, _ => if !endsWith content nl then .error (.parseError ln none) else .ok (.bytes content, st')

/-- what `readContent` does once the section bytes `data` are known to end with the
newline `nl` that `newlineFor` computes for the declared `line_endings` -/
theorem readContent_eval (env : Env) (cfg : Config) (data rest : Bytes) (ln : Nat) (f : Option Bool)
    (encO : Option Bytes) (indent : Option OptVal) (leB : Bytes) (dos : Bool) (keep : Bool)
    (nl : Bytes) (ind : Nat)
    (hlen : data.length ≤ Reader.maxRead)
    (hle : leB = if dos then b!"dos" else b!"unix")
    (hnl : Reader.newlineFor env cfg ln dos (encO.map Name.ofBytes) = .ok nl)
    (hne : nl ≠ []) (hends : nl <:+ data)
    (hind : (indent = none ∧ ind = 0) ∨ ∃ n : Int, indent = some (.int n) ∧ 0 ≤ n ∧ ind = n.toNat) :
    Reader.readContent env cfg ⟨data ++ rest, ln, f⟩ data.length (encO.map OptVal.str) indent
        (some (.str leB)) keep =
      readFinish env ln (encO.map Name.ofBytes) keep
        (if ind = 0 then data else ((splitLines data nl true).map (Reader.stripIndent ind)).flatten) nl
        ⟨rest, ln + (splitLines data nl true).length, f⟩ := by
  have hdne : data ≠ [] := by
    intro h0; subst h0
    exact hne (List.suffix_nil.mp hends)
  have hends' : endsWith data nl = true := by simpa [endsWith, List.isSuffixOf_iff_suffix] using hends
  unfold Reader.readContent
  extract_lets ln' perr content rest' leGiven jp1
  have hc : content = data := by simp [content]
  have hr : rest' = rest := by simp [rest']
  have hln : ln' = ln := rfl
  have hlg : leGiven = some (.str leB) := rfl
  have h1 : ∀ enc, Reader.newlineFor env cfg ln dos enc = .ok nl → jp1 enc =
      readFinish env ln enc keep
        (if ind = 0 then data else ((splitLines data nl true).map (Reader.stripIndent ind)).flatten) nl
        ⟨rest, ln + (splitLines data nl true).length, f⟩ := by
    intro enc hnl
    simp -zeta only [jp1]
    extract_lets jpNl kLe kStrict kEmpty
    have hNl : jpNl nl = readFinish env ln enc keep
        (if ind = 0 then data else ((splitLines data nl true).map (Reader.stripIndent ind)).flatten) nl
        ⟨rest, ln + (splitLines data nl true).length, f⟩ := by
      simp -zeta only [jpNl]
      extract_lets lines jpInd kInd kEnds
      have hInd : jpInd ind = readFinish env ln enc keep
        (if ind = 0 then data else ((splitLines data nl true).map (Reader.stripIndent ind)).flatten) nl
        ⟨rest, ln + (splitLines data nl true).length, f⟩ := by
        simp -zeta only [jpInd]
        unfold readFinish
        simp only [lines, hc, hr, hln, perr]
        rfl
      clear_value jpInd
      have hkInd : ∀ u, kInd u = jpInd ind := by
        intro u
        simp -zeta only [kInd]
        rcases hind with ⟨h1, h2⟩ | ⟨n, h1, h2, h3⟩
        · subst h1 h2; rfl
        · subst h1 h3
          simp only [Int.not_lt.mpr h2, if_false]
          rfl
      clear_value kInd
      have hkEnds : ∀ u, kEnds u = jpInd ind := by
        intro u
        simp -zeta only [kEnds]
        rw [hc, hends']
        exact hkInd ()
      clear_value kEnds
      have hemp : nl.isEmpty = false := by simpa using hne
      rw [hemp]
      simp only [Bool.false_eq_true, if_false]
      rw [hkEnds, hInd]
    clear_value jpNl
    have hkLe : ∀ u, kLe u = jpNl nl := by
      intro u
      simp -zeta only [kLe]
      rw [hlg]
      simp only
      cases dos
      · simp only [Bool.false_eq_true, if_false] at hle
        subst hle
        simp only [if_true]
        rw [hln, hnl]; rfl
      · simp only [if_true] at hle
        subst hle
        rw [if_neg (by decide), if_pos rfl]
        rw [hln, hnl]; rfl
    clear_value kLe
    have hkStrict : ∀ u, kStrict u = jpNl nl := by
      intro u
      simp -zeta only [kStrict]
      rw [hc]
      simp only [Nat.lt_irrefl, decide_false, Bool.and_false, Bool.false_eq_true, if_false]
      exact hkLe ()
    clear_value kStrict
    have hkEmpty : ∀ u, kEmpty u = jpNl nl := by
      intro u
      simp -zeta only [kEmpty]
      rw [hc]
      have : data.isEmpty = false := by simpa using hdne
      rw [this]
      simp only [Bool.false_eq_true, if_false]
      exact hkStrict ()
    clear_value kEmpty
    rw [if_neg (by omega), hkEmpty, hNl]
  clear_value jp1
  cases encO with
  | none => exact h1 none hnl
  | some s => exact h1 (some (Name.ofBytes s)) hnl

/-! ## the content round trip -/

theorem PreparedWith_unique (env : Env) (cfg : Config) (st : St) (content : Arg) (le : Option Text)
    (enc : Option Name) (inherit : Bool) (nl nl' : Bytes) (leOut : Text)
    (h : PreparedWith env cfg st content le enc inherit nl leOut)
    (h' : PreparedWith env cfg st content le enc inherit nl' leOut) : nl = nl' := by
  unfold PreparedWith at h h'
  dsimp only at h h'
  obtain ⟨dos, h1, _, h3⟩ := h
  obtain ⟨dos', h1', _, h3'⟩ := h'
  have hd : dos = dos' := leKind_inj _ _ (by rw [← h1, ← h1'])
  subst hd
  rcases content with t | b | j | _
  · obtain ⟨_, e, raw, he, h4, h5⟩ := h3
    obtain ⟨_, e', raw', he', h4', h5'⟩ := h3'
    rw [he] at he'
    cases he'
    rw [h4] at h4'
    cases h4'
    rw [h5] at h5'
    cases h5'
    rfl
  · rcases le with _ | l
    · obtain ⟨rawU, rawD, u, d, a1, a2, a3, a4, a5, a6⟩ := h3
      obtain ⟨rawU', rawD', u', d', b1, b2, b3, b4, b5, b6⟩ := h3'
      rw [a1] at b1; cases b1
      rw [a2] at b2; cases b2
      rw [a3] at b3; cases b3
      rw [a4] at b4; cases b4
      rw [a6] at b6; cases b6
      rfl
    · obtain ⟨raw, a1, a2⟩ := h3
      obtain ⟨raw', b1, b2⟩ := h3'
      rw [a1] at b1; cases b1
      rw [a2] at b2; cases b2
      rfl
  · exact h3.elim
  · exact h3.elim



/-- **Codec laws for a text section.**  Everything the round trip of a text `t`
needs from the environment.  Only the codec is constrained (plus the ASCII-ness of
the effective encoding name, so that it survives the header); nothing here
mentions the reader. -/
structure TextLaws (env : Env) (cfg : Config) (wst : Writer.St) (t : Text) (le : Option Text)
    (enc : Option Name) (leOut : Text) where
  /-- the effective encoding (`encoding` when truthy, else the current one) is named in ASCII -/
  encName : Bytes
  heff : (if truthy enc then enc else wst.curEncoding) = some (Text.ofAscii encName)
  /-- the kind `leOut` stands for -/
  dos : Bool
  hle : leOut = leKind dos
  /-- the newline of that kind, encoded … -/
  raw : Bytes
  henc : env.encode (Text.ofAscii encName) (nlText dos) = .ok raw
  /-- … and BOM-free -/
  nl : Bytes
  hbom : stripBom env cfg raw (some (Text.ofAscii encName)) = .ok nl
  /-- it is non-empty, no proper prefix of it is a suffix of it, and it holds no space byte -/
  hne : nl ≠ []
  hu : Unbordered nl
  hsp : (32 : UInt8) ∉ nl
  /-- the un-indented prepared content: the encoded text, newline appended when missing -/
  plain : Bytes
  hplain : prepareContent env cfg wst (.str t) none le enc true = .ok (plain, leOut)
  /-- it decodes, to a text ending with the newline; the newline bytes decode to the newline -/
  decoded : Text
  hdec : env.decode (Text.ofAscii encName) plain = .ok decoded
  hdecNl : env.decode (Text.ofAscii encName) nl = .ok (nlText dos)
  hendT : endsWith decoded (nlText dos) = true

/-- number of lines of the (un-indented) section -/
def TextLaws.lines {env cfg wst t le enc leOut} (l : TextLaws env cfg wst t le enc leOut) : Nat :=
  (splitLines l.plain l.nl true).length

/-- **Codec laws for a diff section.** -/
structure DiffLaws (env : Env) (cfg : Config) (wst : Writer.St) (b : Bytes) (le : Option Text)
    (enc : Option Name) (leOut : Text) where
  /-- the section's own encoding, when given, is named in ASCII -/
  encName : Option Bytes
  henc : enc = encName.map Text.ofAscii
  /-- the kind `leOut` stands for -/
  dos : Bool
  hle : leOut = leKind dos
  nl : Bytes
  /-- `nl` is the newline the writer works with (it encodes with `enc or 'ascii'` but removes
  the BOM registered for `enc`, and twice when it guesses the kind) … -/
  hw : PreparedWith env cfg wst (.bytes b) le enc false nl leOut
  /-- … and also the newline the reader computes for `line_endings=leOut`:
  `strip_bom(NEWLINE_FORMATS[leOut].encode(enc or 'ascii'), enc or 'ascii')` with `enc` possibly `''` -/
  rawR : Bytes
  hencR : env.encode (enc.getD (Text.ofAscii b!"ascii")) (nlText dos) = .ok rawR
  hbomR : stripBom env cfg rawR (some (enc.getD (Text.ofAscii b!"ascii"))) = .ok nl
  hne : nl ≠ []

theorem prepFinish_none (nl d : Bytes) :
    prepFinish none nl d = .ok (if endsWith d nl = true then d else d ++ nl) := rfl

theorem content_diff_roundtrip (env : Env) (cfg : Config) (wst : Writer.St) (b : Bytes)
    (le : Option Text) (enc : Option Name) (data : Bytes) (leOut : Text)
    (hp : Writer.prepareContent env cfg wst (.bytes b) none le enc false = .ok (data, leOut))
    (hlen : data.length ≤ Reader.maxRead)
    (laws : DiffLaws env cfg wst b le enc leOut)
    (rest : Bytes) (ln : Nat) (f : Option Bool) :
    Reader.readContent env cfg ⟨data ++ rest, ln, f⟩ data.length
        (enc.map (fun e => OptVal.str e.toAscii)) none (some (.str leOut.toAscii)) true =
      .ok (.bytes data, ⟨rest, ln + (splitLines data laws.nl true).length, f⟩) ∧
    (data = b ∨ data = b ++ laws.nl) := by
  have hopt : enc.map (fun e => OptVal.str e.toAscii) = laws.encName.map OptVal.str := by
    have h := laws.henc
    generalize laws.encName = en at h
    rw [h]
    cases en <;> simp [toAscii_ofAscii]
  rw [hopt]
  obtain ⟨nl', d, h1, h2⟩ := (prepareContent_ok_iff ..).mp hp
  obtain ⟨hw', hd⟩ := prepCore_ok _ _ _ _ _ _ _ _ _ _ h1
  have hnl : nl' = laws.nl := PreparedWith_unique _ _ _ _ _ _ _ _ _ _ hw' laws.hw
  subst hnl
  have hdb : d = b := hd
  subst hdb
  have hends : laws.nl <:+ data := prepFinish_suffix _ _ _ _ h2
  rw [prepFinish_none] at h2
  have hdata := Except.ok.inj h2
  have hends' : endsWith data laws.nl = true := by simpa [endsWith, List.isSuffixOf_iff_suffix] using hends
  have hencR : laws.encName.map Name.ofBytes = enc := laws.henc.symm
  refine ⟨?_, ?_⟩
  · rw [readContent_eval env cfg data rest ln f laws.encName none leOut.toAscii laws.dos true laws.nl 0 hlen
      (by rw [← leKind_toAscii]; exact congrArg _ laws.hle)
      (by
        rw [hencR]
        unfold Reader.newlineFor
        simp only [bind, Except.bind, laws.hencR, laws.hbomR, Reader.liftEnv])
      laws.hne hends (Or.inl ⟨rfl, rfl⟩)]
    simp only [if_true]
    unfold readFinish
    cases laws.encName.map Name.ofBytes <;> simp [hends']
  · rw [← hdata]
    split
    · exact Or.inl rfl
    · exact Or.inr rfl


theorem eff_inherit (enc : Option Name) (cur : Option Name) :
    (if (!truthy enc && true) = true then cur else enc) = (if truthy enc then enc else cur) := by
  cases truthy enc <;> simp

theorem content_text_roundtrip (env : Env) (cfg : Config) (wst : Writer.St) (t : Text) (indent : Option Int)
    (le : Option Text) (enc : Option Name) (data : Bytes) (leOut : Text)
    (hp : Writer.prepareContent env cfg wst (.str t) indent le enc true = .ok (data, leOut))
    (hi : ∀ i, indent = some i → 0 ≤ i)
    (hlen : data.length ≤ Reader.maxRead)
    (laws : TextLaws env cfg wst t le enc leOut)
    (rest : Bytes) (ln : Nat) (f : Option Bool) :
    Reader.readContent env cfg ⟨data ++ rest, ln, f⟩ data.length
        (some (.str laws.encName)) (indent.map OptVal.int) (some (.str leOut.toAscii)) false =
      .ok (.text laws.decoded, ⟨rest, ln + laws.lines, f⟩) := by
  obtain ⟨nl', d, h1, h2⟩ := (prepareContent_ok_iff ..).mp hp
  obtain ⟨nl'', d', h1', h2'⟩ := (prepareContent_ok_iff ..).mp laws.hplain
  rw [h1] at h1'
  cases h1'
  obtain ⟨hw', -⟩ := prepCore_ok _ _ _ _ _ _ _ _ _ _ h1
  -- the writer's newline is the one of the laws
  have hnl : nl' = laws.nl := by
    unfold PreparedWith at hw'
    dsimp only at hw'
    obtain ⟨dos', e1, _, _, e, raw', e2, e3, e4⟩ := hw'
    have hd : dos' = laws.dos := leKind_inj _ _ (by rw [← e1, ← laws.hle])
    subst hd
    rw [eff_inherit, laws.heff] at e2 e4
    cases e2
    rw [laws.henc] at e3
    cases e3
    rw [laws.hbom] at e4
    cases e4
    rfl
  subst hnl
  have hpl : laws.nl <:+ laws.plain := prepFinish_suffix _ _ _ _ h2'
  have hends : laws.nl <:+ data := prepFinish_suffix _ _ _ _ h2
  rw [prepFinish_none] at h2'
  have hplain := Except.ok.inj h2'
  -- the indentation the reader is told, and what stripping it gives
  obtain ⟨ind, hind, hcontent, hlines⟩ : ∃ ind : Nat,
      ((indent.map OptVal.int = none ∧ ind = 0) ∨
        ∃ n : Int, indent.map OptVal.int = some (.int n) ∧ 0 ≤ n ∧ ind = n.toNat) ∧
      (if ind = 0 then data
        else ((splitLines data laws.nl true).map (Reader.stripIndent ind)).flatten) = laws.plain ∧
      (splitLines data laws.nl true).length = (splitLines laws.plain laws.nl true).length := by
    unfold prepFinish at h2
    dsimp only at h2
    rw [hplain] at h2
    rcases indent with _ | i
    · cases h2
      exact ⟨0, Or.inl ⟨rfl, rfl⟩, by simp, rfl⟩
    · have hi0 := hi i rfl
      dsimp only at h2
      split at h2
      · rename_i hz
        cases h2
        subst hz
        exact ⟨0, Or.inr ⟨0, rfl, Int.le_refl _, rfl⟩, by simp, rfl⟩
      · rename_i hz
        split at h2
        · cases h2
        · cases h2
          have hpos : i.toNat ≠ 0 := by omega
          obtain ⟨a1, a2⟩ := indent_inverse laws.plain laws.nl i.toNat laws.hne laws.hu laws.hsp hpl
          exact ⟨i.toNat, Or.inr ⟨i, rfl, hi0, rfl⟩, by rw [if_neg hpos]; exact a1, a2⟩
  rw [show (some (OptVal.str laws.encName)) = Option.map OptVal.str (some laws.encName) from rfl,
    readContent_eval env cfg data rest ln f (some laws.encName) (indent.map OptVal.int) leOut.toAscii
      laws.dos false laws.nl ind hlen
      (by rw [← leKind_toAscii]; exact congrArg _ laws.hle)
      (by
        unfold Reader.newlineFor
        show (Reader.liftEnv ln (env.encode (Text.ofAscii laws.encName) (nlText laws.dos)) >>= fun raw =>
          Reader.liftEnv ln (stripBom env cfg raw (some (Text.ofAscii laws.encName)))) = _
        simp only [bind, Except.bind, laws.henc, laws.hbom, Reader.liftEnv])
      laws.hne hends hind]
  rw [hcontent, hlines]
  unfold readFinish
  show (Reader.liftEnv ln (env.decode (Text.ofAscii laws.encName) laws.plain) >>= _) = _
  have hN : Name.ofBytes laws.encName = Text.ofAscii laws.encName := rfl
  simp only [bind, Except.bind, hN, laws.hdec, laws.hdecNl, Reader.liftEnv, laws.hendT]
  rfl


end Diffx
